(* C17 deepening, part 2: the executable document (mx_sel, built by mx_from_ast as executable/from_ast.rs does)
   against the parsed document (selection) on which the specification's rule is written.
   - mx_to_ast / mxb_proj: the selection an executable selection was built from; the specification's view of a
     field selection.
   - xb_ok: a parsed selection that from_ast.rs builds without loss (every field defined on the type in scope, no
     sub-selection under a leaf field, inline type conditions defined); mxb_ok: the executable selections built
     from such selections (definition and sub-selection type are functions of parent type and field name).
   - xvc_bridge: xv_collect on the parsed selections = mxc_collect on the executable selections, field by field.
   - mxs_same_shape / mxs_can_merge: Valid.v's SameResponseShape / FieldsInSetCanMerge transcribed for executable
     field selections; xvs_same_shape_bridge / xvs_can_merge_bridge: they compute the same verdicts.
   Proofs only; nothing here is extracted. *)
From ApolloVerif Require Import Base.Chars Ast.Ast Schema.Model Exec.Valid Exec.MergeXing Exec.FragCyclesProofs
  Exec.MergeXingProofs Exec.MergeXingEquivExpand.
From Coq Require Import Arith PeanoNat Lia.

(* ---------- back to the parsed selection ---------- *)
Fixpoint mx_to_ast (x : mx_sel) : selection :=
  match x with
  | MxField a n args dirs _ _ sub => SField a n args dirs (map mx_to_ast sub)
  | MxSpread n dirs => SSpread n dirs
  | MxInline c dirs _ sub => SInline c dirs (map mx_to_ast sub)
  end.

Definition mxb_proj (f : mx_fs) : xv_cfield :=
  {| xf_parent := mf_parent f; xf_key := mx_response_key f; xf_name := mf_name f; xf_args := mf_args f;
     xf_def := mf_def f; xf_sub := map mx_to_ast (mf_sub f) |}.

(* ---------- selections built without loss ---------- *)
Definition mxb_leaf_name (s : schema) (n : str) : bool :=
  match sch_get_type s n with Some t => xv_is_leaf t | None => false end.

(* executable side: what mx_from_ast guarantees *)
Fixpoint mxb_ok (s : schema) (ty : str) (x : mx_sel) {struct x} : Prop :=
  match x with
  | MxField a n args dirs def sty sub =>
      xv_lookup_field s ty n = Some def /\ sty = inner_named_type (fd_ty def) /\
      (mxb_leaf_name s sty = true -> sub = []) /\
      (fix all (l : list mx_sel) : Prop := match l with [] => True | y :: r => mxb_ok s sty y /\ all r end) sub
  | MxSpread _ _ => True
  | MxInline c dirs sty sub =>
      sty = match c with Some c' => c' | None => ty end /\
      (fix all (l : list mx_sel) : Prop := match l with [] => True | y :: r => mxb_ok s sty y /\ all r end) sub
  end.

Lemma mxb_all_forall s ty l :
  (fix all (l : list mx_sel) : Prop := match l with [] => True | y :: r => mxb_ok s ty y /\ all r end) l
  <-> Forall (mxb_ok s ty) l.
Proof.
  induction l as [|y r IH]; [split; [constructor|exact (fun _ => I)]|]. rewrite IH. split.
  - intros [H1 H2]. constructor; assumption.
  - intros H. inversion H; subst. split; assumption.
Qed.

Lemma mxb_ok_field s ty a n args dirs def sty sub :
  mxb_ok s ty (MxField a n args dirs def sty sub) <->
  xv_lookup_field s ty n = Some def /\ sty = inner_named_type (fd_ty def) /\
  (mxb_leaf_name s sty = true -> sub = []) /\ Forall (mxb_ok s sty) sub.
Proof. cbn [mxb_ok]. rewrite mxb_all_forall. tauto. Qed.

Lemma mxb_ok_inline s ty c dirs sty sub :
  mxb_ok s ty (MxInline c dirs sty sub) <->
  sty = match c with Some c' => c' | None => ty end /\ Forall (mxb_ok s sty) sub.
Proof. cbn [mxb_ok]. rewrite mxb_all_forall. tauto. Qed.

(* parsed side *)
Fixpoint xb_ok (s : schema) (ty : str) (x : selection) {struct x} : Prop :=
  match x with
  | SField a n args dirs sub =>
      match xv_lookup_field s ty n with
      | None => False
      | Some fd =>
          let tn := inner_named_type (fd_ty fd) in
          (mxb_leaf_name s tn = true -> sub = []) /\
          (fix all (l : list selection) : Prop := match l with [] => True | y :: r => xb_ok s tn y /\ all r end) sub
      end
  | SSpread _ _ => True
  | SInline c dirs sub =>
      match c with
      | Some c' =>
          xv_is_some (sch_get_type s c') = true /\
          (fix all (l : list selection) : Prop := match l with [] => True | y :: r => xb_ok s c' y /\ all r end) sub
      | None =>
          (fix all (l : list selection) : Prop := match l with [] => True | y :: r => xb_ok s ty y /\ all r end) sub
      end
  end.

Lemma xb_all_forall s ty l :
  (fix all (l : list selection) : Prop := match l with [] => True | y :: r => xb_ok s ty y /\ all r end) l
  <-> Forall (xb_ok s ty) l.
Proof.
  induction l as [|y r IH]; [split; [constructor|exact (fun _ => I)]|]. rewrite IH. split.
  - intros [H1 H2]. constructor; assumption.
  - intros H. inversion H; subst. split; assumption.
Qed.

(* a selection built without loss: exactly one executable selection, which maps back to it and is mxb_ok *)
Lemma xb_from_ast s x : forall ty, xb_ok s ty x ->
  exists m, mx_from_ast_sel s ty x = [m] /\ mx_to_ast m = x /\ mxb_ok s ty m.
Proof.
  induction x as [a n args dirs sub IH|n dirs|c dirs sub IH] using selection_ind_nested; intros ty; cbn [xb_ok mx_from_ast_sel].
  - destruct (xv_lookup_field s ty n) as [fd|] eqn:L; [|intros []].
    cbn zeta. set (tn := inner_named_type (fd_ty fd)). rewrite xb_all_forall. intros [Hleaf Hall].
    assert (Hsub : exists ms, flat_map (mx_from_ast_sel s tn) sub = ms /\ map mx_to_ast ms = sub /\ Forall (mxb_ok s tn) ms).
    { clear Hleaf. induction sub as [|y r IHr]; [exists []; repeat split; constructor|].
      inversion IH as [|? ? Hy Hr]; subst. inversion Hall as [|? ? Oy Or]; subst.
      destruct (Hy tn Oy) as (m & Em & Tm & Om). destruct (IHr Hr Or) as (ms & Ems & Tms & Oms).
      exists (m :: ms). cbn [flat_map map]. rewrite Em, Ems, Tm, Tms. split; [reflexivity|]. split; [reflexivity|].
      constructor; assumption. }
    destruct Hsub as (ms & Ems & Tms & Oms).
    unfold mxb_leaf_name in Hleaf. fold tn in Hleaf.
    assert (Hgen : exists m, [MxField a n args dirs fd tn ms] = [m] /\ mx_to_ast m = SField a n args dirs sub /\ mxb_ok s ty m).
    { exists (MxField a n args dirs fd tn ms). split; [reflexivity|]. split; [cbn [mx_to_ast]; rewrite Tms; reflexivity|].
      apply mxb_ok_field. split; [exact L|]. split; [reflexivity|]. split; [|exact Oms].
      unfold mxb_leaf_name. intros Hl. specialize (Hleaf Hl). subst sub. destruct ms; [reflexivity|discriminate]. }
    destruct (sch_get_type s tn) as [t|] eqn:G; [|rewrite Ems; exact Hgen].
    destruct t; cbn [xv_is_leaf] in Hleaf; try (rewrite Ems; exact Hgen).
    + rewrite (Hleaf eq_refl) in *. cbn [xv_is_nil]. destruct ms; [|discriminate]. exact Hgen.
    + rewrite (Hleaf eq_refl) in *. cbn [xv_is_nil]. destruct ms; [|discriminate]. exact Hgen.
  - intros _. exists (MxSpread n dirs). repeat split.
  - assert (Hsub : forall tn, Forall (xb_ok s tn) sub ->
              exists ms, flat_map (mx_from_ast_sel s tn) sub = ms /\ map mx_to_ast ms = sub /\ Forall (mxb_ok s tn) ms).
    { intros tn Hall. induction sub as [|y r IHr]; [exists []; repeat split; constructor|].
      inversion IH as [|? ? Hy Hr]; subst. inversion Hall as [|? ? Oy Or]; subst.
      destruct (Hy tn Oy) as (m & Em & Tm & Om). destruct (IHr Hr Or) as (ms & Ems & Tms & Oms).
      exists (m :: ms). cbn [flat_map map]. rewrite Em, Ems, Tm, Tms. split; [reflexivity|]. split; [reflexivity|].
      constructor; assumption. }
    destruct c as [c'|].
    + rewrite xb_all_forall. intros [Hdef Hall]. rewrite Hdef. destruct (Hsub c' Hall) as (ms & Ems & Tms & Oms).
      exists (MxInline (Some c') dirs c' ms). rewrite Ems. split; [reflexivity|].
      split; [cbn [mx_to_ast]; rewrite Tms; reflexivity|]. apply mxb_ok_inline. split; [reflexivity|exact Oms].
    + rewrite xb_all_forall. intros Hall. destruct (Hsub ty Hall) as (ms & Ems & Tms & Oms).
      exists (MxInline None dirs ty ms). rewrite Ems. split; [reflexivity|].
      split; [cbn [mx_to_ast]; rewrite Tms; reflexivity|]. apply mxb_ok_inline. split; [reflexivity|exact Oms].
Qed.

Lemma xb_from_ast_list s ty sels : Forall (xb_ok s ty) sels ->
  map mx_to_ast (mx_from_ast s ty sels) = sels /\ Forall (mxb_ok s ty) (mx_from_ast s ty sels).
Proof.
  unfold mx_from_ast. induction 1 as [|x r Hx _ IH]; [split; constructor|].
  destruct (xb_from_ast s x ty Hx) as (m & Em & Tm & Om). destruct IH as [IH1 IH2].
  cbn [flat_map]. rewrite Em. cbn [app map]. rewrite Tm, IH1. split; [reflexivity|]. constructor; assumption.
Qed.

(* ---------- the fragment maps ---------- *)
Definition mxb_frags_rel (s : schema) (afrags : list (str * xv_frag)) (mfrags : list (str * mx_set)) : Prop :=
  forall n, match xv_assoc n afrags with
            | Some f => exists msels, xv_assoc n mfrags = Some (xv_frag_cond f, msels) /\
                                      map mx_to_ast msels = xv_frag_sels f /\
                                      Forall (mxb_ok s (xv_frag_cond f)) msels
            | None => xv_assoc n mfrags = None
            end.

Definition mxb_frags_ok (s : schema) (mfrags : list (str * mx_set)) : Prop :=
  forall n ty sels, xv_assoc n mfrags = Some (ty, sels) -> Forall (mxb_ok s ty) sels.

Lemma mxb_frags_rel_ok s afrags mfrags : mxb_frags_rel s afrags mfrags -> mxb_frags_ok s mfrags.
Proof.
  intros H n ty sels E. specialize (H n). destruct (xv_assoc n afrags) as [f|].
  - destruct H as (msels & E' & _ & Hok). rewrite E in E'. injection E' as -> ->. exact Hok.
  - congruence.
Qed.

Lemma xv_assoc_app {A} (n : str) (a b : list (str * A)) :
  xv_assoc n (a ++ b) = match xv_assoc n a with Some v => Some v | None => xv_assoc n b end.
Proof.
  induction a as [|[k v] a IH]; cbn [app xv_assoc]; [reflexivity|]. destruct (streq n k); [reflexivity|exact IH].
Qed.

Lemma mx_fragments_assoc s : forall fr acc n,
  (forall k f, In (k, f) fr -> xv_is_some (sch_get_type s (xv_frag_cond f)) = true) ->
  xv_assoc n (mx_fragments s fr acc) =
  match xv_assoc n acc with
  | Some v => Some v
  | None => option_map (fun f => (xv_frag_cond f, mx_from_ast s (xv_frag_cond f) (xv_frag_sels f))) (xv_assoc n fr)
  end.
Proof.
  induction fr as [|[k f] r IH]; intros acc n Hdef; cbn [mx_fragments xv_assoc].
  - destruct (xv_assoc n acc); reflexivity.
  - assert (Hr : forall k' f', In (k', f') r -> xv_is_some (sch_get_type s (xv_frag_cond f')) = true).
    { intros k' f' Hin. apply (Hdef k' f'). right. exact Hin. }
    destruct (xv_assoc k acc) as [v|] eqn:Ek; cbn [xv_is_some].
    + rewrite (IH acc n Hr). destruct (xv_assoc n acc) eqn:En; [reflexivity|].
      destruct (streq n k) eqn:E; [|reflexivity]. apply streq_eq in E. subst n. congruence.
    + rewrite (Hdef k f (or_introl eq_refl)). rewrite (IH _ n Hr), xv_assoc_app. cbn [xv_assoc].
      destruct (xv_assoc n acc) eqn:En; [reflexivity|]. destruct (streq n k) eqn:E; cbn [option_map]; [reflexivity|].
      reflexivity.
Qed.

Lemma mx_fragments_rel s afrags :
  (forall k f, In (k, f) afrags -> xv_is_some (sch_get_type s (xv_frag_cond f)) = true /\
                                    Forall (xb_ok s (xv_frag_cond f)) (xv_frag_sels f)) ->
  mxb_frags_rel s afrags (mx_fragments s afrags []).
Proof.
  intros H n. rewrite mx_fragments_assoc by (intros k f Hin; apply (H k f Hin)). cbn [xv_assoc].
  destruct (xv_assoc n afrags) as [f|] eqn:E; cbn [option_map]; [|reflexivity].
  assert (Hin : exists k, In (k, f) afrags).
  { clear H. induction afrags as [|[k v] r IH]; cbn [xv_assoc] in E; [discriminate|].
    destruct (streq n k); [injection E as ->; exists k; left; reflexivity|].
    destruct (IH E) as [k' Hk']. exists k'. right. exact Hk'. }
  destruct Hin as [k Hin]. destruct (H k f Hin) as [_ Hok].
  destruct (xb_from_ast_list s _ _ Hok) as [T O]. eexists. split; [reflexivity|]. split; assumption.
Qed.

(* ---------- xv_collect, with its inner loop named ---------- *)
Definition xvc_go (rec : str -> list selection -> option (list xv_cfield)) (s : schema) (frags : list (str * xv_frag))
    : str -> selection -> option (list xv_cfield) :=
  fix go (parent : str) (x : selection) {struct x} : option (list xv_cfield) :=
    match x with
    | SField a n args _ sub =>
        match xv_lookup_field s parent n with
        | Some fd => Some [ {| xf_parent := parent; xf_key := match a with Some k => k | None => n end;
                               xf_name := n; xf_args := args; xf_def := fd; xf_sub := sub |} ]
        | None => Some []
        end
    | SSpread n _ =>
        match xv_assoc n frags with
        | Some f => rec (xv_frag_cond f) (xv_frag_sels f)
        | None => Some []
        end
    | SInline c _ sub => xv_opt_concat (map (go (match c with Some c => c | None => parent end)) sub)
    end.

Lemma xv_collect_S fuel s frags parent sels :
  xv_collect (S fuel) s frags parent sels =
  xv_opt_concat (map (xvc_go (xv_collect fuel s frags) s frags parent) sels).
Proof. reflexivity. Qed.

Lemma opt_concat_map_proj {A B C} (p : B -> C) (g : A -> option (list C)) (h : A -> option (list B)) (xs : list A) :
  (forall x, In x xs -> g x = option_map (map p) (h x)) ->
  xv_opt_concat (map g xs) = option_map (map p) (xv_opt_concat (map h xs)).
Proof.
  induction xs as [|x xs IH]; intros H; cbn [map xv_opt_concat]; [reflexivity|].
  rewrite (H x) by (left; reflexivity). rewrite IH by (intros y Hy; apply H; right; exact Hy).
  destruct (h x) as [a|]; cbn [option_map]; [|reflexivity].
  destruct (xv_opt_concat (map h xs)) as [b|]; cbn [option_map]; [|reflexivity]. rewrite map_app. reflexivity.
Qed.

Section Bridge.
  Variable s : schema.
  Variable afrags : list (str * xv_frag).
  Variable mfrags : list (str * mx_set).
  Hypothesis Hrel : mxb_frags_rel s afrags mfrags.

  Lemma xvc_go_bridge (R : str -> list selection -> option (list xv_cfield))
      (R' : str -> list mx_sel -> option (list mx_fs)) :
    (forall p msels, Forall (mxb_ok s p) msels -> R p (map mx_to_ast msels) = option_map (map mxb_proj) (R' p msels)) ->
    forall x p, mxb_ok s p x ->
      xvc_go R s afrags p (mx_to_ast x) = option_map (map mxb_proj) (mxc_go R' mfrags p x).
  Proof.
    intros HR x. induction x as [a n args dirs def sty sub _|n dirs|c dirs sty sub IH] using mx_sel_ind_nested; intros p Hok.
    - apply mxb_ok_field in Hok. destruct Hok as (L & _ & _ & _). cbn [mx_to_ast xvc_go mxc_go]. rewrite L. reflexivity.
    - cbn [mx_to_ast xvc_go mxc_go]. specialize (Hrel n). destruct (xv_assoc n afrags) as [f|].
      + destruct Hrel as (msels & E & T & O). rewrite E. cbn [fst snd]. rewrite <- T. apply HR. exact O.
      + rewrite Hrel. reflexivity.
    - apply mxb_ok_inline in Hok. destruct Hok as [Esty Hall]. cbn [mx_to_ast xvc_go mxc_go]. rewrite <- Esty.
      rewrite map_map. apply opt_concat_map_proj. intros y Hy. rewrite Forall_forall in IH, Hall.
      apply (IH y Hy sty). apply Hall. exact Hy.
  Qed.

  (* the specification's collection on the parsed selections is the in-place collection on the executable ones *)
  Theorem xvc_bridge : forall fuel p msels, Forall (mxb_ok s p) msels ->
    xv_collect fuel s afrags p (map mx_to_ast msels) = option_map (map mxb_proj) (mxc_collect fuel mfrags p msels).
  Proof.
    induction fuel as [|fuel IH]; intros p msels Hok; [reflexivity|].
    rewrite xv_collect_S. cbn [mxc_collect]. rewrite map_map. apply opt_concat_map_proj.
    intros x Hx. apply xvc_go_bridge; [exact IH|]. rewrite Forall_forall in Hok. apply Hok. exact Hx.
  Qed.

  (* ---------- field selections built without loss ---------- *)
  Definition mxb_fok (f : mx_fs) : Prop :=
    xv_lookup_field s (mf_parent f) (mf_name f) = Some (mf_def f) /\
    mf_sub_ty f = inner_named_type (fd_ty (mf_def f)) /\
    (mxb_leaf_name s (mf_sub_ty f) = true -> mf_sub f = []) /\
    Forall (mxb_ok s (mf_sub_ty f)) (mf_sub f).

  Lemma mxb_fields_fok ty sels f : Forall (mxb_ok s ty) sels -> In f (mxe_fields ty sels) -> mxb_fok f.
  Proof.
    intros Hok Hf. apply mxe_fields_in in Hf. destruct Hf as (a & n & args & dirs & def & sty & sub & Hx & ->).
    rewrite Forall_forall in Hok. specialize (Hok _ Hx). apply mxb_ok_field in Hok. exact Hok.
  Qed.

  Lemma mxb_reach_ok sets : (forall ty sels, In (ty, sels) sets -> Forall (mxb_ok s ty) sels) ->
    forall ty sels, mxe_reach mfrags sets (ty, sels) -> Forall (mxb_ok s ty) sels.
  Proof.
    intros H ty sels R. remember (ty, sels) as st eqn:Est. revert ty sels Est.
    induction R as [st Hin|ty0 sels0 c dirs sty sub _ IH Hin|ty0 sels0 n dirs st _ IH Hin Ha]; intros ty sels Est.
    - subst st. apply H. exact Hin.
    - injection Est as <- <-. specialize (IH ty0 sels0 eq_refl). rewrite Forall_forall in IH.
      specialize (IH _ Hin). apply mxb_ok_inline in IH. apply IH.
    - subst st. exact (mxb_frags_rel_ok _ _ _ Hrel n ty sels Ha).
  Qed.

  Lemma mxb_coll_fok sets f : (forall ty sels, In (ty, sels) sets -> Forall (mxb_ok s ty) sels) ->
    mxe_coll mfrags sets f -> mxb_fok f.
  Proof.
    intros H (ty & sels & R & Hf). eapply mxb_fields_fok; [|exact Hf]. eapply mxb_reach_ok; eassumption.
  Qed.

  (* the fields of the sub-selection of a field built without loss are built without loss *)
  Lemma mxb_sub_fok a x : mxb_fok a -> mxe_coll mfrags [(mf_sub_ty a, mf_sub a)] x -> mxb_fok x.
  Proof.
    intros (_ & _ & _ & Hall). apply mxb_coll_fok. intros ty sels [[= <- <-]|[]]. exact Hall.
  Qed.

  (* ---------- the specification's functions on executable field selections ---------- *)
  Definition mxs_merged (cfuel : nat) (a b : mx_fs) : option (list mx_fs) :=
    match mxc_collect cfuel mfrags (mf_sub_ty a) (mf_sub a), mxc_collect cfuel mfrags (mf_sub_ty b) (mf_sub b) with
    | Some x, Some y => Some (x ++ y)
    | _, _ => None
    end.

  Fixpoint mxs_same_shape (fuel cfuel : nat) (a b : mx_fs) {struct fuel} : option bool :=
    match fuel with
    | O => None
    | S fuel' =>
        match xv_shape_types s (fd_ty (mf_def a)) (fd_ty (mf_def b)) with
        | None => Some false
        | Some (na, nb) =>
            match sch_get_type s na, sch_get_type s nb with
            | Some ta, Some tb =>
                if xv_is_leaf ta || xv_is_leaf tb then Some (streq na nb)
                else if xv_is_composite ta && xv_is_composite tb then
                  match mxs_merged cfuel a b with
                  | None => None
                  | Some merged =>
                      xv_pairs3 (fun x y => if streq (mx_response_key x) (mx_response_key y)
                                            then mxs_same_shape fuel' cfuel x y else Some true) merged
                  end
                else Some false
            | _, _ => Some true
            end
        end
    end.

  Fixpoint mxs_can_merge (fuel cfuel : nat) (fields : list mx_fs) {struct fuel} : option bool :=
    match fuel with
    | O => None
    | S fuel' =>
        xv_pairs3 (fun a b =>
          if streq (mx_response_key a) (mx_response_key b) then
            xv_and3 (mxs_same_shape fuel' cfuel a b)
              (if streq (mf_parent a) (mf_parent b)
                  || negb (xv_object_name s (mf_parent a)) || negb (xv_object_name s (mf_parent b))
               then
                 if streq (mf_name a) (mf_name b) && xv_args_same (mf_args a) (mf_args b) then
                   match mxs_merged cfuel a b with
                   | None => None
                   | Some merged => mxs_can_merge fuel' cfuel merged
                   end
                 else Some false
               else Some true)
          else Some true) fields
    end.

  Lemma xv_all3_map {A B} (p : A -> B) (f : B -> option bool) (l : list A) :
    xv_all3 f (map p l) = xv_all3 (fun x => f (p x)) l.
  Proof. induction l as [|x r IH]; cbn [map xv_all3]; [reflexivity|]. rewrite IH. reflexivity. Qed.

  Lemma xv_pairs3_map {A B} (p : A -> B) (f : B -> B -> option bool) (l : list A) :
    xv_pairs3 f (map p l) = xv_pairs3 (fun x y => f (p x) (p y)) l.
  Proof. induction l as [|x r IH]; cbn [map xv_pairs3]; [reflexivity|]. rewrite IH, xv_all3_map. reflexivity. Qed.

  Lemma xv_all3_ext_in {A} (f g : A -> option bool) (l : list A) :
    (forall x, In x l -> f x = g x) -> xv_all3 f l = xv_all3 g l.
  Proof.
    induction l as [|x r IH]; intros H; cbn [xv_all3]; [reflexivity|].
    rewrite (H x) by (left; reflexivity). rewrite IH by (intros y Hy; apply H; right; exact Hy). reflexivity.
  Qed.

  Lemma xv_pairs3_ext_in {A} (f g : A -> A -> option bool) (l : list A) :
    (forall x y, In x l -> In y l -> f x y = g x y) -> xv_pairs3 f l = xv_pairs3 g l.
  Proof.
    induction l as [|x r IH]; intros H; cbn [xv_pairs3]; [reflexivity|].
    rewrite (xv_all3_ext_in (f x) (g x)) by (intros y Hy; apply H; [left; reflexivity|right; exact Hy]).
    rewrite IH by (intros y z Hy Hz; apply H; right; assumption). reflexivity.
  Qed.

  Lemma xvs_merged_bridge cfuel a b : mxb_fok a -> mxb_fok b ->
    xv_merged cfuel s afrags (mxb_proj a) (mxb_proj b) = option_map (map mxb_proj) (mxs_merged cfuel a b).
  Proof.
    intros (_ & Ta & _ & Oa) (_ & Tb & _ & Ob). unfold xv_merged, mxs_merged. cbn [mxb_proj xf_def xf_sub].
    rewrite <- Ta, <- Tb, (xvc_bridge cfuel _ _ Oa), (xvc_bridge cfuel _ _ Ob).
    destruct (mxc_collect cfuel mfrags (mf_sub_ty a) (mf_sub a)) as [x|]; cbn [option_map]; [|reflexivity].
    destruct (mxc_collect cfuel mfrags (mf_sub_ty b) (mf_sub b)) as [y|]; cbn [option_map]; [|reflexivity].
    rewrite map_app. reflexivity.
  Qed.

  Lemma mxs_merged_fok cfuel a b merged : mxb_fok a -> mxb_fok b -> mxs_merged cfuel a b = Some merged ->
    forall x, In x merged -> mxb_fok x.
  Proof.
    intros Fa Fb. unfold mxs_merged.
    destruct (mxc_collect cfuel mfrags (mf_sub_ty a) (mf_sub a)) as [la|] eqn:Ea; [|discriminate].
    destruct (mxc_collect cfuel mfrags (mf_sub_ty b) (mf_sub b)) as [lb|] eqn:Eb; [|discriminate].
    intros [= <-] x Hx. apply in_app_or in Hx. destruct Hx as [Hx|Hx].
    - apply (mxb_sub_fok a x Fa). apply (mxc_collect_coll _ _ _ _ _ Ea). exact Hx.
    - apply (mxb_sub_fok b x Fb). apply (mxc_collect_coll _ _ _ _ _ Eb). exact Hx.
  Qed.

  Theorem xvs_same_shape_bridge cfuel : forall fuel a b, mxb_fok a -> mxb_fok b ->
    xv_same_shape fuel cfuel s afrags (mxb_proj a) (mxb_proj b) = mxs_same_shape fuel cfuel a b.
  Proof.
    induction fuel as [|fuel IH]; intros a b Fa Fb; [reflexivity|]. cbn [xv_same_shape mxs_same_shape].
    change (xf_def (mxb_proj a)) with (mf_def a). change (xf_def (mxb_proj b)) with (mf_def b).
    destruct (xv_shape_types s (fd_ty (mf_def a)) (fd_ty (mf_def b))) as [[na nb]|]; [|reflexivity].
    destruct (sch_get_type s na) as [ta|]; [|reflexivity]. destruct (sch_get_type s nb) as [tb|]; [|reflexivity].
    destruct (xv_is_leaf ta || xv_is_leaf tb); [reflexivity|].
    destruct (xv_is_composite ta && xv_is_composite tb); [|reflexivity].
    rewrite (xvs_merged_bridge cfuel a b Fa Fb).
    destruct (mxs_merged cfuel a b) as [merged|] eqn:Em; cbn [option_map]; [|reflexivity].
    rewrite xv_pairs3_map. apply xv_pairs3_ext_in. intros x y Hx Hy.
    change (xf_key (mxb_proj x)) with (mx_response_key x). change (xf_key (mxb_proj y)) with (mx_response_key y).
    destruct (streq (mx_response_key x) (mx_response_key y)); [|reflexivity].
    apply IH; [exact (mxs_merged_fok cfuel a b merged Fa Fb Em x Hx)|exact (mxs_merged_fok cfuel a b merged Fa Fb Em y Hy)].
  Qed.

  Theorem xvs_can_merge_bridge cfuel : forall fuel fields, (forall f, In f fields -> mxb_fok f) ->
    xv_can_merge fuel cfuel s afrags (map mxb_proj fields) = mxs_can_merge fuel cfuel fields.
  Proof.
    induction fuel as [|fuel IH]; intros fields Hf; [reflexivity|]. cbn [xv_can_merge mxs_can_merge].
    rewrite xv_pairs3_map. apply xv_pairs3_ext_in. intros a b Ha Hb.
    change (xf_key (mxb_proj a)) with (mx_response_key a). change (xf_key (mxb_proj b)) with (mx_response_key b).
    change (xf_parent (mxb_proj a)) with (mf_parent a). change (xf_parent (mxb_proj b)) with (mf_parent b).
    change (xf_name (mxb_proj a)) with (mf_name a). change (xf_name (mxb_proj b)) with (mf_name b).
    change (xf_args (mxb_proj a)) with (mf_args a). change (xf_args (mxb_proj b)) with (mf_args b).
    destruct (streq (mx_response_key a) (mx_response_key b)); [|reflexivity].
    rewrite (xvs_same_shape_bridge cfuel fuel a b (Hf a Ha) (Hf b Hb)). f_equal.
    destruct (streq (mf_parent a) (mf_parent b) || negb (xv_object_name s (mf_parent a))
              || negb (xv_object_name s (mf_parent b))); [|reflexivity].
    destruct (streq (mf_name a) (mf_name b) && xv_args_same (mf_args a) (mf_args b)); [|reflexivity].
    rewrite (xvs_merged_bridge cfuel a b (Hf a Ha) (Hf b Hb)).
    destruct (mxs_merged cfuel a b) as [merged|] eqn:Em; cbn [option_map]; [|reflexivity].
    apply IH. exact (mxs_merged_fok cfuel a b merged (Hf a Ha) (Hf b Hb) Em).
  Qed.
End Bridge.
