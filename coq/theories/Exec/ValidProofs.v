(* Proofs about the specification's verdict (Valid.v): it is the conjunction of the named rules. *)
From ApolloVerif Require Import Base.Chars Ast.Ast Schema.Model Exec.Valid.

(* all rules hold *)
Definition xv_all_rules (p : xv_params) (s : schema) (d : document) : Prop :=
  xv_r_executable_definitions d = true /\
  xv_r_operation_name_unique d = true /\
  xv_r_lone_anonymous d = true /\
  xv_r_subscription_single_root p s d = true /\
  xv_r_fields_defined s d = true /\
  xv_r_fields_merge s d = true /\
  xv_r_leaf_selections s d = true /\
  xv_r_argument_names s d = true /\
  xv_r_argument_unique s d = true /\
  xv_r_required_arguments s d = true /\
  xv_r_fragment_name_unique d = true /\
  xv_r_fragment_type_exists s d = true /\
  xv_r_fragment_on_composite s d = true /\
  xv_r_fragments_used d = true /\
  xv_r_spread_target_defined s d = true /\
  xv_r_no_fragment_cycles d = true /\
  xv_r_spread_possible p s d = true /\
  xv_r_values_correct_type s d = true /\
  xv_r_input_field_names s d = true /\
  xv_r_input_field_unique s d = true /\
  xv_r_input_required_fields s d = true /\
  xv_r_variable_unique d = true /\
  xv_r_variables_input_types s d = true /\
  xv_r_variables_defined s d = true /\
  xv_r_variables_used s d = true /\
  xv_r_variable_usages_allowed s d = true /\
  xv_r_directives_defined s d = true /\
  xv_r_directive_locations s d = true /\
  xv_r_directives_unique s d = true /\
  xv_r_root_operation_defined p s d = true /\
  xv_r_subscription_no_skip_include p s d = true.

Lemma xv_verdict_decomposes p s d : xv_exec_valid p s d = true <-> xv_all_rules p s d.
Proof.
  unfold xv_exec_valid, xv_rule_vector, xv_all_rules. cbn [forallb].
  repeat rewrite andb_true_iff. intuition.
Qed.

(* a document that violates a rule is invalid, whatever the other rules say *)
Lemma xv_invalid_of_rule p s d : In false (xv_rule_vector p s d) -> xv_exec_valid p s d = false.
Proof.
  unfold xv_exec_valid. intros H. destruct (forallb (fun b => b) (xv_rule_vector p s d)) eqn:E; [|reflexivity].
  rewrite forallb_forall in E. apply E in H. discriminate.
Qed.
