(* C17 deepening, part 5: the key comparison of the validator's cache of MergedFieldSets.
   The cache key compares field selections by parent type and field node (mx_fs_eqb: the field's definition and
   the type of its selection set are not compared, they are functions of parent type and name).  On field
   selections of an executable document built by mx_from_ast (mxb_fok) that comparison is equality; so a cache
   hit means: the same list of field selections.  Then the cache is read as a function from keys to the two
   guards (mxk_flag), and lookup / set_entry act on that function as expected.
   Proofs only; nothing here is extracted. *)
From ApolloVerif Require Import Base.Chars Ast.Ast Schema.Model Exec.Valid Exec.MergeXing Exec.FragCyclesProofs
  Exec.MergeXingProofs Exec.MergeXingEquivExpand Exec.MergeXingEquivBridge.
From Coq Require Import Arith PeanoNat Lia.

(* ---------- the component comparisons are equalities ---------- *)
Lemma mx_list_eqb_eq {A} (eqb : A -> A -> bool) (a : list A) : forall b,
  (forall x y, In x a -> In y b -> eqb x y = true -> x = y) -> mx_list_eqb eqb a b = true -> a = b.
Proof.
  induction a as [|x a IH]; intros b H; destruct b as [|y b]; cbn [mx_list_eqb]; try discriminate; [reflexivity|].
  rewrite andb_true_iff. intros [E1 E2]. f_equal; [apply H; [left; reflexivity|left; reflexivity|exact E1]|].
  apply IH; [|exact E2]. intros z w Hz Hw. apply H; right; assumption.
Qed.

Lemma mx_list_eqb_refl {A} (eqb : A -> A -> bool) (a : list A) :
  (forall x, In x a -> eqb x x = true) -> mx_list_eqb eqb a a = true.
Proof.
  induction a as [|x a IH]; intros H; cbn [mx_list_eqb]; [reflexivity|].
  rewrite (H x (or_introl eq_refl)), IH; [reflexivity|]. intros z Hz. apply H. right. exact Hz.
Qed.

Lemma mx_value_eqb_eq_n n : forall a b, (vsize a < n)%nat -> mx_value_eqb a b = true -> a = b.
Proof.
  induction n as [|n IH]; intros a b Hs; [lia|].
  destruct a as [| e | v | st | t | t | bo | l | fs]; destruct b as [| e' | v' | st' | t' | t' | bo' | l' | fs'];
    cbn [mx_value_eqb]; try discriminate; try reflexivity;
    try (intros H; apply streq_eq in H; subst; reflexivity).
  - intros H. apply Bool.eqb_prop in H. subst. reflexivity.
  - intros H. f_equal.
    assert (Hel : forall x, In x l -> forall y, mx_value_eqb x y = true -> x = y).
    { intros x Hx y. apply IH. pose proof (vsize_list_in x l Hx). lia. }
    clear Hs. revert l' H. induction l as [|x l IHl]; intros l' H; destruct l' as [|y l']; try discriminate; [reflexivity|].
    apply andb_true_iff in H. destruct H as [H1 H2]. f_equal; [apply Hel; [left; reflexivity|exact H1]|].
    apply IHl; [|exact H2]. intros z Hz. apply Hel. right. exact Hz.
  - intros H. f_equal.
    assert (Hel : forall k x, In (k, x) fs -> forall y, mx_value_eqb x y = true -> x = y).
    { intros k x Hx y. apply IH. pose proof (vsize_obj_in k x fs Hx). lia. }
    clear Hs. revert fs' H. induction fs as [|[k x] fs IHl]; intros fs' H; destruct fs' as [|[k' y] fs']; try discriminate;
      [reflexivity|].
    apply andb_true_iff in H. destruct H as [H1 H2]. apply andb_true_iff in H1. destruct H1 as [Hk Hv].
    apply streq_eq in Hk. subst k'. f_equal; [f_equal; apply (Hel k x); [left; reflexivity|exact Hv]|].
    apply IHl; [|exact H2]. intros k0 z Hz. apply (Hel k0). right. exact Hz.
Qed.

Lemma mx_value_eqb_eq a b : mx_value_eqb a b = true -> a = b.
Proof. apply (mx_value_eqb_eq_n (S (vsize a))). lia. Qed.

Lemma mx_value_eqb_refl_n n : forall a, (vsize a < n)%nat -> mx_value_eqb a a = true.
Proof.
  induction n as [|n IH]; intros a Hs; [lia|].
  destruct a as [| e | v | st | t | t | bo | l | fs]; cbn [mx_value_eqb]; try reflexivity; try apply streq_refl.
  - destruct bo; reflexivity.
  - assert (Hel : forall x, In x l -> mx_value_eqb x x = true).
    { intros x Hx. apply IH. pose proof (vsize_list_in x l Hx). lia. }
    clear Hs. induction l as [|x l IHl]; [reflexivity|]. rewrite (Hel x (or_introl eq_refl)). cbn [andb].
    apply IHl. intros z Hz. apply Hel. right. exact Hz.
  - assert (Hel : forall k x, In (k, x) fs -> mx_value_eqb x x = true).
    { intros k x Hx. apply IH. pose proof (vsize_obj_in k x fs Hx). lia. }
    clear Hs. induction fs as [|[k x] fs IHl]; [reflexivity|]. rewrite streq_refl, (Hel k x (or_introl eq_refl)). cbn [andb].
    apply IHl. intros k0 z Hz. apply (Hel k0). right. exact Hz.
Qed.

Lemma mx_value_eqb_refl a : mx_value_eqb a a = true.
Proof. apply (mx_value_eqb_refl_n (S (vsize a))). lia. Qed.

Lemma mx_opt_eqb_eq a b : mx_opt_eqb a b = true -> a = b.
Proof. destruct a, b; cbn [mx_opt_eqb]; try discriminate; [|reflexivity]. intros H. apply streq_eq in H. congruence. Qed.
Lemma mx_opt_eqb_refl a : mx_opt_eqb a a = true.
Proof. destruct a; cbn [mx_opt_eqb]; [apply streq_refl|reflexivity]. Qed.

Lemma mx_arg_eqb_eq (a b : argument) : mx_arg_eqb a b = true -> a = b.
Proof.
  destruct a as [k v], b as [k' v']. unfold mx_arg_eqb. cbn [fst snd]. rewrite andb_true_iff. intros [H1 H2].
  apply streq_eq in H1. apply mx_value_eqb_eq in H2. congruence.
Qed.
Lemma mx_arg_eqb_refl (a : argument) : mx_arg_eqb a a = true.
Proof. unfold mx_arg_eqb. rewrite streq_refl, mx_value_eqb_refl. reflexivity. Qed.

Lemma mx_args_eqb_eq (a b : list argument) : mx_list_eqb mx_arg_eqb a b = true -> a = b.
Proof. apply mx_list_eqb_eq. intros x y _ _. apply mx_arg_eqb_eq. Qed.
Lemma mx_args_eqb_refl (a : list argument) : mx_list_eqb mx_arg_eqb a a = true.
Proof. apply mx_list_eqb_refl. intros x _. apply mx_arg_eqb_refl. Qed.

Lemma mx_dir_eqb_eq (a b : directive) : mx_dir_eqb a b = true -> a = b.
Proof.
  destruct a as [n l], b as [n' l']. unfold mx_dir_eqb. cbn [d_name d_args]. rewrite andb_true_iff. intros [H1 H2].
  apply streq_eq in H1. apply mx_args_eqb_eq in H2. congruence.
Qed.
Lemma mx_dir_eqb_refl (a : directive) : mx_dir_eqb a a = true.
Proof. unfold mx_dir_eqb. rewrite streq_refl, mx_args_eqb_refl. reflexivity. Qed.

Lemma mx_dirs_eqb_eq (a b : list directive) : mx_list_eqb mx_dir_eqb a b = true -> a = b.
Proof. apply mx_list_eqb_eq. intros x y _ _. apply mx_dir_eqb_eq. Qed.
Lemma mx_dirs_eqb_refl (a : list directive) : mx_list_eqb mx_dir_eqb a a = true.
Proof. apply mx_list_eqb_refl. intros x _. apply mx_dir_eqb_refl. Qed.

(* the nested loop of mx_sel_eqb is mx_list_eqb mx_sel_eqb *)
Lemma mx_sel_eqb_go x y :
  (fix go (x y : list mx_sel) {struct x} : bool :=
     match x, y with
     | [], [] => true
     | u :: x', v :: y' => mx_sel_eqb u v && go x' y'
     | _, _ => false
     end) x y = mx_list_eqb mx_sel_eqb x y.
Proof. revert y. induction x as [|u x IH]; intros y; destruct y as [|v y]; cbn [mx_list_eqb]; try reflexivity. rewrite IH. reflexivity. Qed.

Lemma mx_sel_eqb_field al n args dirs def sty sub al' n' args' dirs' def' sty' sub' :
  mx_sel_eqb (MxField al n args dirs def sty sub) (MxField al' n' args' dirs' def' sty' sub') =
  mx_opt_eqb al al' && streq n n' && mx_list_eqb mx_arg_eqb args args' && mx_list_eqb mx_dir_eqb dirs dirs'
  && mx_list_eqb mx_sel_eqb sub sub'.
Proof. cbn [mx_sel_eqb]. rewrite mx_sel_eqb_go. reflexivity. Qed.

Lemma mx_sel_eqb_inline c dirs sty sub c' dirs' sty' sub' :
  mx_sel_eqb (MxInline c dirs sty sub) (MxInline c' dirs' sty' sub') =
  mx_opt_eqb c c' && mx_list_eqb mx_dir_eqb dirs dirs' && mx_list_eqb mx_sel_eqb sub sub'.
Proof. cbn [mx_sel_eqb]. rewrite mx_sel_eqb_go. reflexivity. Qed.

Lemma mx_sel_eqb_refl x : mx_sel_eqb x x = true.
Proof.
  induction x as [a n args dirs def sty sub IH|n dirs|c dirs sty sub IH] using mx_sel_ind_nested.
  - rewrite mx_sel_eqb_field, mx_opt_eqb_refl, streq_refl, mx_args_eqb_refl, mx_dirs_eqb_refl. cbn [andb].
    apply mx_list_eqb_refl. rewrite Forall_forall in IH. exact IH.
  - cbn [mx_sel_eqb]. rewrite streq_refl, mx_dirs_eqb_refl. reflexivity.
  - rewrite mx_sel_eqb_inline, mx_opt_eqb_refl, mx_dirs_eqb_refl. cbn [andb].
    apply mx_list_eqb_refl. rewrite Forall_forall in IH. exact IH.
Qed.

(* on selections built by mx_from_ast under the same type, the comparison is equality *)
Lemma mx_sel_eqb_eq s x : forall ty y, mxb_ok s ty x -> mxb_ok s ty y -> mx_sel_eqb x y = true -> x = y.
Proof.
  induction x as [a n args dirs def sty sub IH|n dirs|c dirs sty sub IH] using mx_sel_ind_nested; intros ty y Ox Oy;
    destruct y as [a' n' args' dirs' def' sty' sub'|n' dirs'|c' dirs' sty' sub']; try (cbn [mx_sel_eqb]; discriminate).
  - rewrite mx_sel_eqb_field, !andb_true_iff. intros [[[[H1 H2] H3] H4] H5].
    apply mx_opt_eqb_eq in H1. apply streq_eq in H2. apply mx_args_eqb_eq in H3. apply mx_dirs_eqb_eq in H4. subst.
    apply mxb_ok_field in Ox. apply mxb_ok_field in Oy. destruct Ox as (L & T & _ & Ax). destruct Oy as (L' & T' & _ & Ay).
    rewrite L in L'. injection L' as <-. subst sty sty'. f_equal.
    rewrite Forall_forall in IH, Ax, Ay. apply (mx_list_eqb_eq mx_sel_eqb sub sub'); [|exact H5].
    intros u v Hu Hv. apply (IH u Hu (inner_named_type (fd_ty def)) v); [apply Ax; exact Hu|apply Ay; exact Hv].
  - cbn [mx_sel_eqb]. rewrite andb_true_iff. intros [H1 H2]. apply streq_eq in H1. apply mx_dirs_eqb_eq in H2. congruence.
  - rewrite mx_sel_eqb_inline, !andb_true_iff. intros [[H1 H2] H3].
    apply mx_opt_eqb_eq in H1. apply mx_dirs_eqb_eq in H2. subst.
    apply mxb_ok_inline in Ox. apply mxb_ok_inline in Oy. destruct Ox as [T Ax]. destruct Oy as [T' Ay].
    rewrite <- T in T'. subst sty'. f_equal.
    rewrite Forall_forall in IH, Ax, Ay. apply (mx_list_eqb_eq mx_sel_eqb sub sub'); [|exact H3].
    intros u v Hu Hv. apply (IH u Hu sty v); [apply Ax; exact Hu|apply Ay; exact Hv].
Qed.

(* ... and so is the comparison of field selections *)
Lemma mx_fs_eqb_eq s a b : mxb_fok s a -> mxb_fok s b -> mx_fs_eqb a b = true -> a = b.
Proof.
  intros (La & Ta & _ & Aa) (Lb & Tb & _ & Ab). unfold mx_fs_eqb. rewrite !andb_true_iff.
  intros [[[[[H1 H2] H3] H4] H5] H6].
  apply streq_eq in H1. apply mx_opt_eqb_eq in H2. apply streq_eq in H3. apply mx_args_eqb_eq in H4.
  apply mx_dirs_eqb_eq in H5.
  destruct a as [pa aa na ga da fa ta sa]. destruct b as [pb ab nb gb db fb tb sb]. cbn [mf_parent mf_alias mf_name mf_args mf_dirs mf_def mf_sub_ty mf_sub] in *.
  subst. rewrite La in Lb. injection Lb as <-. f_equal.
  rewrite Forall_forall in Aa, Ab. apply (mx_list_eqb_eq mx_sel_eqb sa sb); [|exact H6].
  intros u v Hu Hv. apply (mx_sel_eqb_eq s u (inner_named_type (fd_ty fa)) v); [apply Aa; exact Hu|apply Ab; exact Hv].
Qed.

Lemma mx_fs_eqb_refl a : mx_fs_eqb a a = true.
Proof.
  unfold mx_fs_eqb. rewrite !streq_refl, mx_opt_eqb_refl, mx_args_eqb_refl, mx_dirs_eqb_refl. cbn [andb].
  apply mx_list_eqb_refl. intros x _. apply mx_sel_eqb_refl.
Qed.

(* a key: a list of field selections of the executable document *)
Definition mxk_keyok (s : schema) (K : list mx_fs) : Prop := forall f, In f K -> mxb_fok s f.

Lemma mxk_key_eqb_eq s K K' : mxk_keyok s K -> mxk_keyok s K' -> mx_list_eqb mx_fs_eqb K K' = true -> K = K'.
Proof. intros HK HK'. apply mx_list_eqb_eq. intros x y Hx Hy. apply (mx_fs_eqb_eq s); [apply HK; exact Hx|apply HK'; exact Hy]. Qed.

Lemma mxk_key_eqb_refl K : mx_list_eqb mx_fs_eqb K K = true.
Proof. apply mx_list_eqb_refl. intros x _. apply mx_fs_eqb_refl. Qed.

(* ---------- the cache as a function from keys to guards ---------- *)
Section Cache.
  Variable s : schema.

  Definition mxk_wf (st : mx_state) : Prop := forall e, In e (mx_cache st) -> mxk_keyok s (me_key e).

  (* (same_response_shape_guard, same_for_common_parents_guard) of the MergedFieldSet of a key; both off when
     the key is not in the cache *)
  Definition mxk_eflags (e : mx_entry) : bool * bool := (me_shape_done e, me_parents_done e).
  Definition mxk_flags_c (c : list mx_entry) (K : list mx_fs) : bool * bool :=
    match mx_cache_find K c with Some e => mxk_eflags e | None => (false, false) end.
  Definition mxk_flags (st : mx_state) (K : list mx_fs) : bool * bool := mxk_flags_c (mx_cache st) K.

  Lemma mxk_find_app K c c' :
    mx_cache_find K (c ++ c') = match mx_cache_find K c with Some e => Some e | None => mx_cache_find K c' end.
  Proof.
    induction c as [|e c IH]; cbn [app mx_cache_find]; [reflexivity|].
    destruct (mx_list_eqb mx_fs_eqb K (me_key e)); [reflexivity|exact IH].
  Qed.

  Lemma mxk_find_key K c e : (forall e', In e' c -> mxk_keyok s (me_key e')) -> mxk_keyok s K ->
    mx_cache_find K c = Some e -> me_key e = K /\ In e c.
  Proof.
    intros Hc HK. induction c as [|e0 c IH]; cbn [mx_cache_find]; [discriminate|].
    destruct (mx_list_eqb mx_fs_eqb K (me_key e0)) eqn:E.
    - intros [= <-]. split; [|left; reflexivity]. symmetry. apply (mxk_key_eqb_eq s); [exact HK| |exact E].
      apply Hc. left. reflexivity.
    - intros H. destruct (IH (fun e' He' => Hc e' (or_intror He')) H) as [H1 H2]. split; [exact H1|right; exact H2].
  Qed.

  (* FieldsInSetCanMerge::lookup does not change any guard, and returns the entry of the key *)
  Lemma mxk_lookup st K st' e : mxk_wf st -> mxk_keyok s K -> mx_lookup st K = (st', e) ->
    mxk_wf st' /\ mx_ok st' = mx_ok st /\ mx_high st' = mx_high st /\ me_key e = K /\
    mxk_eflags e = mxk_flags st K /\ (forall K', mxk_flags st' K' = mxk_flags st K').
  Proof.
    intros Hwf HK. unfold mx_lookup, mxk_flags, mxk_flags_c. destruct (mx_cache_find K (mx_cache st)) as [e0|] eqn:F.
    - intros [= <- <-]. destruct (mxk_find_key K _ e0 Hwf HK F) as [Hk _].
      split; [exact Hwf|]. split; [reflexivity|]. split; [reflexivity|]. split; [exact Hk|]. split; reflexivity.
    - intros [= <- <-]. cbn [mx_cache mx_ok mx_high me_key]. split.
      + intros e' He'. apply in_app_or in He'. destruct He' as [He'|[<-|[]]]; [apply Hwf; exact He'|exact HK].
      + split; [reflexivity|]. split; [reflexivity|]. split; [reflexivity|]. split; [reflexivity|].
        intros K'. rewrite mxk_find_app. destruct (mx_cache_find K' (mx_cache st)) as [e1|]; [reflexivity|].
        cbn [mx_cache_find me_key]. destruct (mx_list_eqb mx_fs_eqb K' K); reflexivity.
  Qed.

  Lemma mxk_find_set K' e' c : (forall e0, In e0 c -> mxk_keyok s (me_key e0)) -> mxk_keyok s (me_key e') -> mxk_keyok s K' ->
    mx_cache_find K' (mx_cache_set e' c) =
    if mx_list_eqb mx_fs_eqb K' (me_key e') then Some e' else mx_cache_find K' c.
  Proof.
    intros Hc He' HK'. induction c as [|e0 c IH]; cbn [mx_cache_set mx_cache_find]; [reflexivity|].
    assert (H0 : mxk_keyok s (me_key e0)) by (apply Hc; left; reflexivity).
    specialize (IH (fun e1 H1 => Hc e1 (or_intror H1))).
    destruct (mx_list_eqb mx_fs_eqb (me_key e') (me_key e0)) eqn:E; cbn [mx_cache_find].
    - apply (mxk_key_eqb_eq s _ _ He' H0) in E. rewrite <- E.
      destruct (mx_list_eqb mx_fs_eqb K' (me_key e')); reflexivity.
    - rewrite IH. destruct (mx_list_eqb mx_fs_eqb K' (me_key e0)) eqn:E0; [|reflexivity].
      apply (mxk_key_eqb_eq s _ _ HK' H0) in E0. subst K'.
      destruct (mx_list_eqb mx_fs_eqb (me_key e0) (me_key e')) eqn:E1; [|reflexivity].
      apply (mxk_key_eqb_eq s _ _ H0 He') in E1. rewrite E1, mxk_key_eqb_refl in E. discriminate.
  Qed.

  Lemma mxk_set_wf st e' : mxk_wf st -> mxk_keyok s (me_key e') -> mxk_wf (mx_set_entry st e').
  Proof.
    intros Hwf He'. unfold mxk_wf in *. unfold mx_set_entry. cbn [mx_cache]. revert Hwf. generalize (mx_cache st).
    intros c Hc. induction c as [|e0 c IH]; cbn [mx_cache_set].
    - intros e [<-|[]]. exact He'.
    - destruct (mx_list_eqb mx_fs_eqb (me_key e') (me_key e0)).
      + intros e [<-|He]; [exact He'|apply Hc; right; exact He].
      + intros e [<-|He]; [apply Hc; left; reflexivity|]. apply IH; [|exact He]. intros e1 H1. apply Hc. right. exact H1.
  Qed.

  (* set_entry changes the guards of its key only *)
  Lemma mxk_set_flags st e' K' : mxk_wf st -> mxk_keyok s (me_key e') -> mxk_keyok s K' ->
    mxk_flags (mx_set_entry st e') K' =
    if mx_list_eqb mx_fs_eqb K' (me_key e') then mxk_eflags e' else mxk_flags st K'.
  Proof.
    intros Hwf He' HK'. unfold mxk_flags, mxk_flags_c, mx_set_entry. cbn [mx_cache].
    rewrite (mxk_find_set K' e' _ Hwf He' HK'). destruct (mx_list_eqb mx_fs_eqb K' (me_key e')); reflexivity.
  Qed.
End Cache.
