(* Proofs about the literal fragment cycle detection (FragCycles.v): it reports Recursed for the fragment R
   iff there is a path of fragment spreads from R back to R; the `seen` shortcut loses nothing. *)
From ApolloVerif Require Import Base.Chars Ast.Ast Schema.Model Exec.Valid Exec.FragCycles.
From Coq Require Import Arith PeanoNat Lia.

(* ---------- induction on selections (nested lists) ---------- *)
Section SelInd.
  Variable P : selection -> Prop.
  Hypothesis HF : forall a n args dirs sub, Forall P sub -> P (SField a n args dirs sub).
  Hypothesis HS : forall n dirs, P (SSpread n dirs).
  Hypothesis HI : forall c dirs sub, Forall P sub -> P (SInline c dirs sub).
  Fixpoint selection_ind_nested (x : selection) : P x :=
    match x with
    | SField a n args dirs sub =>
        HF a n args dirs sub
          ((fix go (l : list selection) : Forall P l :=
              match l with [] => Forall_nil P | y :: r => Forall_cons y (selection_ind_nested y) (go r) end) sub)
    | SSpread n dirs => HS n dirs
    | SInline c dirs sub =>
        HI c dirs sub
          ((fix go (l : list selection) : Forall P l :=
              match l with [] => Forall_nil P | y :: r => Forall_cons y (selection_ind_nested y) (go r) end) sub)
    end.
End SelInd.

Lemma xv_mem_In n l : xv_mem n l = true <-> In n l.
Proof.
  unfold xv_mem. rewrite existsb_exists. split.
  - intros [x [Hin Heq]]. apply streq_eq in Heq. subst. exact Hin.
  - intros Hin. exists n. split; [exact Hin|apply streq_refl].
Qed.

Lemma xv_mem_false n l : xv_mem n l = false <-> ~ In n l.
Proof. rewrite <- xv_mem_In. destruct (xv_mem n l); split; congruence. Qed.

(* ---------- the walk only depends on the spread names in document order ---------- *)
Definition fc_names (jump : list str -> str -> fc_result) : list str -> list str -> fc_result :=
  fc_thread jump.

Lemma fc_thread_app {A} (f : list str -> A -> fc_result) a b : forall seen,
  fc_thread f seen (a ++ b) = match fc_thread f seen a with FcOk s' => fc_thread f s' b | e => e end.
Proof.
  induction a as [|x a IH]; intros seen; cbn [app fc_thread].
  - reflexivity.
  - destruct (f seen x); try reflexivity. apply IH.
Qed.

Lemma fc_sel_flat jump x : forall seen, fc_sel jump seen x = fc_names jump seen (xv_sel_spreads x).
Proof.
  induction x as [a n args dirs sub IH|n dirs|c dirs sub IH] using selection_ind_nested; intros seen;
    cbn [fc_sel xv_sel_spreads].
  - revert seen. induction IH as [|y r Hy _ IHr]; intros seen; cbn [fc_thread flat_map].
    + reflexivity.
    + unfold fc_names. rewrite fc_thread_app. rewrite Hy. unfold fc_names.
      destruct (fc_thread jump seen (xv_sel_spreads y)); try reflexivity. apply IHr.
  - unfold fc_names. cbn [fc_thread]. destruct (jump seen n); reflexivity.
  - revert seen. induction IH as [|y r Hy _ IHr]; intros seen; cbn [fc_thread flat_map].
    + reflexivity.
    + unfold fc_names. rewrite fc_thread_app. rewrite Hy. unfold fc_names.
      destruct (fc_thread jump seen (xv_sel_spreads y)); try reflexivity. apply IHr.
Qed.

Lemma fc_sels_flat jump sels : forall seen,
  fc_thread (fc_sel jump) seen sels = fc_names jump seen (xv_spreads sels).
Proof.
  induction sels as [|y r IH]; intros seen; cbn [fc_thread xv_spreads flat_map].
  - reflexivity.
  - unfold fc_names. rewrite fc_thread_app. rewrite fc_sel_flat. unfold fc_names.
    destruct (fc_thread jump seen (xv_sel_spreads y)); try reflexivity. apply IH.
Qed.

(* the body of a fragment as the list of names it spreads *)
Definition fc_body (frags : list (str * xv_frag)) (n : str) : list str :=
  match xv_assoc n frags with Some f => xv_spreads (xv_frag_sels f) | None => [] end.

(* the same walk over name lists *)
Fixpoint fc_scan (fuel : nat) (frags : list (str * xv_frag)) (limit : nat) (path seen : list str)
    (names : list str) {struct fuel} : fc_result :=
  match fuel with
  | O => FcFuel
  | S fuel' =>
      fc_names (fun seen n =>
        if xv_mem n path then (if fc_first_is path n then FcRecursed else FcOk seen)
        else if xv_mem n seen then FcOk seen
        else match xv_assoc n frags with
             | Some _ => if Nat.ltb limit (length (path ++ [n])) then FcLimit
                         else fc_scan fuel' frags limit (path ++ [n]) (n :: seen) (fc_body frags n)
             | None => FcOk (n :: seen)
             end) seen names
  end.

Lemma fc_thread_ext {A} (f g : list str -> A -> fc_result) :
  (forall s x, f s x = g s x) -> forall l s, fc_thread f s l = fc_thread g s l.
Proof.
  intros H l. induction l as [|x r IH]; intros s; cbn [fc_thread]; [reflexivity|].
  rewrite H. destruct (g s x); try reflexivity. apply IH.
Qed.

Lemma fc_detect_scan fuel frags limit : forall path seen sels,
  fc_detect fuel frags limit path seen sels = fc_scan fuel frags limit path seen (xv_spreads sels).
Proof.
  induction fuel as [|fuel IH]; intros path seen sels; cbn [fc_detect fc_scan]; [reflexivity|].
  rewrite fc_sels_flat. unfold fc_names. apply fc_thread_ext. intros s n.
  unfold fc_jump, fc_body. destruct (xv_mem n path); [reflexivity|].
  destruct (xv_mem n s); [reflexivity|].
  destruct (xv_assoc n frags) as [f|]; [|reflexivity].
  destruct (Nat.ltb limit (length (path ++ [n]))); [reflexivity|]. apply IH.
Qed.

(* ---------- the declarative side ---------- *)
(* a spreads b *)
Definition fc_edge (frags : list (str * xv_frag)) (a b : str) : Prop := In b (fc_body frags a).
(* a path of one or more spreads *)
Inductive fc_reach (frags : list (str * xv_frag)) : str -> str -> Prop :=
| fcr_step a b : fc_edge frags a b -> fc_reach frags a b
| fcr_trans a m b : fc_edge frags a m -> fc_reach frags m b -> fc_reach frags a b.
(* "there exists a spread path from the fragment back to itself" *)
Definition fc_cycle (frags : list (str * xv_frag)) (r : str) : Prop := fc_reach frags r r.

(* ---------- soundness: Recursed comes from a real path ---------- *)
Lemma fc_scan_recursed fuel frags limit r : forall path seen names,
  hd_error path = Some r ->
  fc_scan fuel frags limit path seen names = FcRecursed ->
  exists n, In n names /\ (n = r \/ fc_reach frags n r).
Proof.
  induction fuel as [|fuel IH]; intros path seen names Hhd; cbn [fc_scan]; [discriminate|].
  unfold fc_names. revert seen. induction names as [|n names IHn]; intros seen; cbn [fc_thread]; [discriminate|].
  destruct (xv_mem n path) eqn:Hp.
  - unfold fc_first_is. destruct path as [|r' path]; [discriminate|]. cbn in Hhd. injection Hhd as ->.
    destruct (streq r n) eqn:Hr.
    + intros _. apply streq_eq in Hr. subst. exists n. split; [left; reflexivity|left; reflexivity].
    + intros H. destruct (IHn _ H) as [m [Hm Hc]]. exists m. split; [right; exact Hm|exact Hc].
  - destruct (xv_mem n seen) eqn:Hs.
    + intros H. destruct (IHn _ H) as [m [Hm Hc]]. exists m. split; [right; exact Hm|exact Hc].
    + destruct (xv_assoc n frags) as [f|] eqn:Hf.
      * destruct (Nat.ltb limit (length (path ++ [n]))); [discriminate|].
        destruct (fc_scan fuel frags limit (path ++ [n]) (n :: seen) (fc_body frags n)) eqn:Hrec.
        -- intros H. destruct (IHn _ H) as [m [Hm Hc]]. exists m. split; [right; exact Hm|exact Hc].
        -- intros _. apply IH in Hrec.
           ++ destruct Hrec as [m [Hm Hc]]. exists n. split; [left; reflexivity|]. right.
              destruct Hc as [->|Hc].
              ** apply fcr_step. exact Hm.
              ** eapply fcr_trans; [exact Hm|exact Hc].
           ++ destruct path as [|r' path]; [discriminate|]. exact Hhd.
        -- discriminate.
        -- discriminate.
      * intros H. destruct (IHn _ H) as [m [Hm Hc]]. exists m. split; [right; exact Hm|exact Hc].
Qed.

(* ---------- completeness: a walk that ends Ok has closed every fragment it marked seen ---------- *)
Definition fc_closed (frags : list (str * xv_frag)) (r : str) (seen : list str) (x : str) : Prop :=
  forall y, fc_edge frags x y -> y <> r /\ In y seen.

Lemma fc_scan_ok fuel frags limit r : forall path seen names seen',
  hd_error path = Some r ->
  (forall x, In x path -> x = r \/ In x seen) ->
  ~ In r seen ->
  fc_scan fuel frags limit path seen names = FcOk seen' ->
  incl seen seen' /\ ~ In r seen' /\
  (forall n, In n names -> n <> r /\ In n seen') /\
  (forall x, In x seen' -> ~ In x seen -> fc_closed frags r seen' x).
Proof.
  induction fuel as [|fuel IH]; intros path seen names seen' Hhd Hpath Hr; cbn [fc_scan]; [discriminate|].
  unfold fc_names. revert seen seen' Hpath Hr.
  induction names as [|n names IHn]; intros seen seen' Hpath Hr; cbn [fc_thread].
  - intros [= <-]. refine (conj _ (conj _ (conj _ _))).
    + apply incl_refl.
    + exact Hr.
    + intros ? [].
    + intros x Hx Hnx. contradiction.
  - destruct (xv_mem n path) eqn:Hp.
    + unfold fc_first_is. destruct path as [|r' path]; [discriminate|]. cbn in Hhd. injection Hhd as ->.
      destruct (streq r n) eqn:Hrn; [discriminate|]. intros H.
      destruct (IHn _ _ Hpath Hr H) as (Hi & Hnr & Hnames & Hcl).
      refine (conj Hi (conj Hnr (conj _ Hcl))).
      intros m [<-|Hm]; [|apply Hnames; exact Hm]. split.
      * intros ->. rewrite streq_refl in Hrn. discriminate.
      * apply xv_mem_In in Hp. destruct (Hpath _ Hp) as [->|Hs].
        -- rewrite streq_refl in Hrn. discriminate.
        -- apply Hi. exact Hs.
    + destruct (xv_mem n seen) eqn:Hs.
      * intros H. destruct (IHn _ _ Hpath Hr H) as (Hi & Hnr & Hnames & Hcl).
        refine (conj Hi (conj Hnr (conj _ Hcl))).
        intros m [<-|Hm]; [|apply Hnames; exact Hm]. apply xv_mem_In in Hs. split.
        -- intros ->. contradiction.
        -- apply Hi. exact Hs.
      * assert (Hnr0 : n <> r).
        { intros ->. apply xv_mem_false in Hp. apply Hp.
          destruct path as [|r' path]; [discriminate|]. cbn in Hhd. injection Hhd as ->. left. reflexivity. }
        assert (Hr1 : ~ In r (n :: seen)).
        { intros [Heq|Hin]; [apply Hnr0; exact Heq|apply Hr; exact Hin]. }
        assert (Hpath1 : forall x, In x path -> x = r \/ In x (n :: seen)).
        { intros x Hx. destruct (Hpath x Hx) as [->|Hin]; [left; reflexivity|right; right; exact Hin]. }
        destruct (xv_assoc n frags) as [f|] eqn:Hf.
        -- destruct (Nat.ltb limit (length (path ++ [n]))); [discriminate|].
           destruct (fc_scan fuel frags limit (path ++ [n]) (n :: seen) (fc_body frags n)) as [seen1| | |] eqn:Hrec;
             try discriminate.
           intros H.
           assert (Hhd' : hd_error (path ++ [n]) = Some r).
           { destruct path as [|r' path]; [discriminate|]. exact Hhd. }
           assert (Hpath' : forall x, In x (path ++ [n]) -> x = r \/ In x (n :: seen)).
           { intros x Hx. apply in_app_or in Hx. destruct Hx as [Hx|[<-|[]]]; [apply Hpath1; exact Hx|].
             right. left. reflexivity. }
           destruct (IH _ _ _ _ Hhd' Hpath' Hr1 Hrec) as (Hi1 & Hnr1 & Hnames1 & Hcl1).
           assert (Hpath2 : forall x, In x path -> x = r \/ In x seen1).
           { intros x Hx. destruct (Hpath1 x Hx) as [->|Hin]; [left; reflexivity|right; apply Hi1; exact Hin]. }
           destruct (IHn _ _ Hpath2 Hnr1 H) as (Hi2 & Hnr2 & Hnames2 & Hcl2).
           refine (conj _ (conj Hnr2 (conj _ _))).
           ++ intros x Hx. apply Hi2. apply Hi1. right. exact Hx.
           ++ intros m [<-|Hm]; [|apply Hnames2; exact Hm]. split; [exact Hnr0|].
              apply Hi2. apply Hi1. left. reflexivity.
           ++ intros x Hx Hnx.
              destruct (in_dec (list_eq_dec N.eq_dec) x seen1) as [Hx1|Hx1].
              ** (* x was added by n itself or inside n's exploration *)
                 intros y Hy.
                 destruct (list_eq_dec N.eq_dec x n) as [->|Hxn].
                 --- unfold fc_edge in Hy. destruct (Hnames1 y Hy) as [Hyr Hys]. split; [exact Hyr|apply Hi2; exact Hys].
                 --- assert (Hnew : ~ In x (n :: seen)).
                     { intros [Heq|Hin]; [apply Hxn; symmetry; exact Heq|apply Hnx; exact Hin]. }
                     destruct (Hcl1 x Hx1 Hnew y Hy) as [Hyr Hys]. split; [exact Hyr|apply Hi2; exact Hys].
              ** apply Hcl2; assumption.
        -- intros H.
           destruct (IHn _ _ Hpath1 Hr1 H) as (Hi2 & Hnr2 & Hnames2 & Hcl2).
           refine (conj _ (conj Hnr2 (conj _ _))).
           ++ intros x Hx. apply Hi2. right. exact Hx.
           ++ intros m [<-|Hm]; [|apply Hnames2; exact Hm]. split; [exact Hnr0|]. apply Hi2. left. reflexivity.
           ++ intros x Hx Hnx.
              destruct (list_eq_dec N.eq_dec x n) as [->|Hxn].
              ** intros y Hy. unfold fc_edge, fc_body in Hy. rewrite Hf in Hy. destruct Hy.
              ** apply Hcl2; [exact Hx|]. intros [Heq|Hin]; [apply Hxn; symmetry; exact Heq|apply Hnx; exact Hin].
Qed.

(* everything reachable from a closed set stays in it and is not the root *)
Lemma fc_closed_reach frags r seen :
  (forall x, In x seen -> fc_closed frags r seen x) ->
  forall a b, fc_reach frags a b -> In a seen -> b <> r /\ In b seen.
Proof.
  intros Hcl a b H. induction H as [a b Hab|a m b Ham _ IH]; intros Ha.
  - exact (Hcl a Ha b Hab).
  - destruct (Hcl a Ha m Ham) as [_ Hm]. apply IH. exact Hm.
Qed.

(* ---------- the fuel of fc_validate is never exhausted ---------- *)
Lemma fc_scan_not_fuel fuel frags limit : forall path seen names,
  (fuel + length path = limit + 2 \/ (limit = 0 /\ fuel = 1 /\ length path = 1))%nat ->
  (length path <= Nat.max 1 limit)%nat ->
  fc_scan fuel frags limit path seen names <> FcFuel.
Proof.
  induction fuel as [|fuel IH]; intros path seen names Hinv Hlen.
  - exfalso. destruct Hinv as [Hinv|[_ [Hinv _]]]; lia.
  - cbn [fc_scan]. unfold fc_names. revert seen.
    induction names as [|n names IHn]; intros seen; cbn [fc_thread]; [discriminate|].
    destruct (xv_mem n path).
    + destruct (fc_first_is path n); [discriminate|apply IHn].
    + destruct (xv_mem n seen); [apply IHn|].
      destruct (xv_assoc n frags); [|apply IHn].
      destruct (Nat.ltb limit (length (path ++ [n]))) eqn:Hl; [discriminate|].
      apply Nat.ltb_ge in Hl. rewrite app_length in Hl. change (length [n]) with 1%nat in Hl.
      destruct (fc_scan fuel frags limit (path ++ [n]) (n :: seen) (fc_body frags n)) eqn:Hrec;
        try discriminate; [apply IHn|].
      exfalso. revert Hrec. apply IH.
      * left. rewrite app_length. change (length [n]) with 1%nat. destruct Hinv as [Hinv|[H0 [_ H1]]]; lia.
      * rewrite app_length. change (length [n]) with 1%nat. lia.
Qed.

Lemma fc_validate_not_fuel frags limit r sels : fc_validate frags limit r sels <> FcFuel.
Proof.
  unfold fc_validate. rewrite fc_detect_scan. apply fc_scan_not_fuel.
  - left. change (length [r]) with 1%nat. lia.
  - change (length [r]) with 1%nat. lia.
Qed.

(* ---------- the theorem ---------- *)
Theorem fc_validate_iff frags limit r f :
  xv_assoc r frags = Some f ->
  fc_validate frags limit r (xv_frag_sels f) <> FcLimit ->
  (fc_validate frags limit r (xv_frag_sels f) = FcRecursed <-> fc_cycle frags r).
Proof.
  intros Hf Hlim. unfold fc_cycle. split.
  - unfold fc_validate. rewrite fc_detect_scan. intros H.
    apply fc_scan_recursed with (r := r) in H; [|reflexivity].
    destruct H as [n [Hn Hc]].
    assert (He : fc_edge frags r n). { unfold fc_edge, fc_body. rewrite Hf. exact Hn. }
    destruct Hc as [->|Hc]; [apply fcr_step; exact He|eapply fcr_trans; [exact He|exact Hc]].
  - intros Hcyc.
    destruct (fc_validate frags limit r (xv_frag_sels f)) as [seen'| | |] eqn:Hres.
    + exfalso. unfold fc_validate in Hres. rewrite fc_detect_scan in Hres.
      eapply fc_scan_ok with (r := r) in Hres.
      * destruct Hres as (_ & Hnr & Hnames & Hcl).
        assert (Hclosed : forall x, In x seen' -> fc_closed frags r seen' x).
        { intros x Hx. apply Hcl; [exact Hx|intros []]. }
        (* the first step of the cycle leaves r into seen'; the rest stays there and never meets r *)
        inversion Hcyc as [a b Hry Ea Eb|a y b Hry Hrest Ea Eb]; subst.
        -- unfold fc_edge, fc_body in Hry. rewrite Hf in Hry. destruct (Hnames r Hry) as [Hne _]. apply Hne. reflexivity.
        -- unfold fc_edge, fc_body in Hry. rewrite Hf in Hry. destruct (Hnames y Hry) as [_ Hy].
           destruct (fc_closed_reach frags r seen' Hclosed y r Hrest Hy) as [Hne _]. apply Hne. reflexivity.
      * reflexivity.
      * intros x [<-|[]]. left. reflexivity.
      * intros [].
    + reflexivity.
    + exfalso. apply Hlim. reflexivity.
    + exfalso. exact (fc_validate_not_fuel frags limit r (xv_frag_sels f) Hres).
Qed.
