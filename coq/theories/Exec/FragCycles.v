(* C17: a LITERAL model of the fragment cycle detection of crates/apollo-compiler/src/validation/fragment.rs
   (validate_fragment_cycles / detect_fragment_cycles): a depth-first walk anchored at one fragment definition,
   with the RecursionStack `path_from_root` (root first, limit 100), the `seen` set that skips fragments already
   explored, and the early return on the first error.  Separate from the declarative definition used by
   Exec/Valid.v (xv_r_no_fragment_cycles).  Definitions only; proofs in FragCyclesProofs.v. *)
From ApolloVerif Require Import Base.Chars Ast.Ast Schema.Model Exec.Valid.

(* Result<(), CycleError>, with the `seen` set as it is after the walk *)
Inductive fc_result :=
| FcOk (seen : list str)
| FcRecursed                 (* CycleError::Recursed *)
| FcLimit                    (* CycleError::Limit: RecursionGuard::push beyond the limit *)
| FcFuel.                    (* the model's fuel ran out (excluded by fc_validate_not_fuel) *)

(* `for selection in &selection_set.selections { ... ? }`: the first error returns *)
Definition fc_thread {A} (f : list str -> A -> fc_result) : list str -> list A -> fc_result :=
  fix go (seen : list str) (l : list A) {struct l} : fc_result :=
    match l with
    | [] => FcOk seen
    | x :: r => match f seen x with FcOk seen' => go seen' r | e => e end
    end.

(* the three arms of the match on a selection; `jump` is the FragmentSpread arm *)
Fixpoint fc_sel (jump : list str -> str -> fc_result) (seen : list str) (x : selection) {struct x} : fc_result :=
  match x with
  | SSpread n _ => jump seen n
  | SInline _ _ sub => fc_thread (fc_sel jump) seen sub
  | SField _ _ _ _ sub => fc_thread (fc_sel jump) seen sub
  end.

Definition fc_first_is (path : list str) (n : str) : bool :=
  match path with r :: _ => streq r n | [] => false end.

(* the FragmentSpread arm:
     if path_from_root.contains(name) { if path_from_root.first() == Some(name) { return Err(Recursed) } continue }
     if !seen.insert(name) { continue }
     if let Some(fragment) = document.fragments.get(name) {
         detect_fragment_cycles(document, &fragment.selection_set, &mut path_from_root.push(&fragment.name)?, seen)? } *)
Definition fc_jump (rec : list str -> list str -> list selection -> fc_result)
    (frags : list (str * xv_frag)) (limit : nat) (path : list str) (seen : list str) (n : str) : fc_result :=
  if xv_mem n path then (if fc_first_is path n then FcRecursed else FcOk seen)
  else if xv_mem n seen then FcOk seen
  else
    let seen' := n :: seen in
    match xv_assoc n frags with
    | Some f =>
        let path' := path ++ [n] in                      (* RecursionGuard::push: insert, then test the length *)
        if Nat.ltb limit (length path') then FcLimit
        else rec path' seen' (xv_frag_sels f)
    | None => FcOk seen'
    end.

(* detect_fragment_cycles; fuel: one unit per nested fragment entered *)
Fixpoint fc_detect (fuel : nat) (frags : list (str * xv_frag)) (limit : nat) (path : list str) (seen : list str)
    (sels : list selection) {struct fuel} : fc_result :=
  match fuel with
  | O => FcFuel
  | S fuel' =>
      fc_thread (fc_sel (fc_jump (fun path' seen' sels' => fc_detect fuel' frags limit path' seen' sels')
                                 frags limit path)) seen sels
  end.

(* validate_fragment_cycles(def): RecursionStack::with_root(def.name).with_limit(limit), an empty `seen` *)
Definition fc_validate (frags : list (str * xv_frag)) (limit : nat) (name : str) (sels : list selection) : fc_result :=
  fc_detect (S limit) frags limit [name] [] sels.

Definition fc_limit : nat := 100.

(* the verdict of the whole rule as apollo-compiler computes it for the fragments it validates: some
   fragment definition reports Recursed (or the limit) *)
Definition fc_is_ok (r : fc_result) : bool := match r with FcOk _ => true | _ => false end.
Definition fc_all_ok (d : document) : bool :=
  forallb (fun nf => fc_is_ok (fc_validate (xv_frags d) fc_limit (fst nf) (xv_frag_sels (snd nf)))) (xv_frags d).
