(* crates/apollo-compiler/src/executable/serialize.rs : typed document -> AST (which ast/serialize.rs prints).
   Definitions only.  Prefix xt_. *)
From ApolloVerif Require Import Base.Chars Ast.Ast Exec.Doc.

(* Selection::to_ast / Field::to_ast / InlineFragment::to_ast / FragmentSpread::to_ast *)
Fixpoint xt_sel (x : xsel) : selection :=
  match x with
  | XsField _ alias name args dirs _ sub => SField alias name args dirs (map xt_sel sub)
  | XsSpread name dirs => SSpread name dirs
  | XsInline cond dirs _ sub => SInline cond dirs (map xt_sel sub)
  end.

(* SelectionSet::to_ast *)
Definition xt_sels (l : list xsel) : list selection := map xt_sel l.

(* Operation::to_ast *)
Definition xt_op (o : xop) : definition :=
  DOperation (xo_type o) (xo_name o) (xo_vars o) (xo_dirs o) (xt_sels (xo_sels o)).

(* Fragment::to_ast : the type condition is the selection set's type *)
Definition xt_frag (f : xfrag) : definition :=
  DFragment (xf_name f) (xf_ty f) (xf_dirs f) (xt_sels (xf_sels f)).

(* ExecutableDocument::to_ast : anonymous operation, named operations, fragments *)
Definition xt_doc (d : xdoc) : document :=
  match xd_anon d with Some o => [xt_op o] | None => [] end
  ++ map (fun kv => xt_op (snd kv)) (xd_named d)
  ++ map (fun kv => xt_frag (snd kv)) (xd_frags d).

(* The order in which a document that builds without errors stores its definitions, applied to the AST:
   the anonymous operation (if any), the named operations in source order, the fragments in source
   order; type-system definitions dropped.  Stable sort by kind. *)
Definition xt_is_anon (d : definition) : bool :=
  match d with DOperation _ None _ _ _ => true | _ => false end.
Definition xt_is_named (d : definition) : bool :=
  match d with DOperation _ (Some _) _ _ _ => true | _ => false end.
Definition xt_is_frag (d : definition) : bool :=
  match d with DFragment _ _ _ _ => true | _ => false end.

Definition xt_reorder (a : document) : document :=
  filter xt_is_anon a ++ filter xt_is_named a ++ filter xt_is_frag a.
