(* The schema-free validation path: executable/validation.rs (validate_standalone_executable =
   validate_with_or_without_schema None) and the `schema == None` behaviour of
   validation/{operation,directive,argument,variable,selection,field,fragment}.rs.
   Every rule is a boolean function (true = pushes no diagnostic) of the typed document; none of them
   looks at a field's `definition` or at a selection set's `ty`.  Definitions only.  Prefix xv_ / Xc. *)
From ApolloVerif Require Import Base.Chars Ast.Ast Exec.Doc Exec.FromAst.

Definition xn_skip : str := [115;107;105;112].
Definition xn_include : str := [105;110;99;108;117;100;101].
Definition xn_defer : str := [100;101;102;101;114].
Definition xn_if : str := [105;102].
Definition xn_label : str := [108;97;98;101;108].

(* ---------------------------------------------------------------- argument.rs / directive.rs *)

(* validate_arguments: a name already in `seen` is a UniqueArgument diagnostic *)
Fixpoint xv_unique_names (seen : list str) (l : list str) : bool :=
  match l with
  | [] => true
  | n :: r => if xd_mem n seen then false else xv_unique_names (n :: seen) r
  end.

Definition xv_arguments (args : list argument) : bool := xv_unique_names [] (map fst args).

(* validate_directives with schema = None: per directive only validate_arguments runs
   (an unknown directive is assumed repeatable; locations, arguments' types and definedness need a schema) *)
Definition xv_directives (dirs : list directive) : bool :=
  forallb (fun d => xv_arguments (d_args d)) dirs.

(* ---------------------------------------------------------------- variable.rs *)

(* validate_variable_definitions with schema = None: directives of each definition; unique names *)
Definition xv_variable_definitions (vars : list vardef) : bool :=
  forallb (fun v => xv_directives (v_dirs v)) vars && xv_unique_names [] (map v_name vars).

(* variables_in_value (as a list; only membership is used) *)
Fixpoint xv_vars_in_value (v : value) : list str :=
  match v with
  | VVar n => [n]
  | VList l => flat_map xv_vars_in_value l
  | VObject fs => flat_map (fun kv => xv_vars_in_value (snd kv)) fs
  | _ => []
  end.
Definition xv_vars_in_arguments (args : list argument) : list str :=
  flat_map (fun a => xv_vars_in_value (snd a)) args.
Definition xv_vars_in_directives (dirs : list directive) : list str :=
  flat_map (fun d => xv_vars_in_arguments (d_args d)) dirs.

(* walk_selections_with_deduped_fragments: the selections in the order `f` is called on them, or None
   for RecursionLimitError.  `seen` is inserted into before the fragment is looked up. *)
Section XvWalkList.
  Context (step : list str -> xsel -> option (list xsel * list str)).
  (* `for selection in &selection_set.selections { f(selection); <step>? }` *)
  Fixpoint xv_walk_list (seen : list str) (l : list xsel) : option (list xsel * list str) :=
    match l with
    | [] => Some ([], seen)
    | x :: r =>
        match step seen x with
        | None => None
        | Some (a, seen1) =>
            match xv_walk_list seen1 r with
            | None => None
            | Some (b, seen2) => Some (x :: a ++ b, seen2)
            end
        end
    end.
End XvWalkList.

(* the `match selection` of walk_selections_inner; `rec` is `walk_selections_inner(.., guard.increment()?, ..)` *)
Definition xv_walk_step (frags : list (str * xfrag))
    (rec : list str -> list xsel -> option (list xsel * list str))
    (seen : list str) (x : xsel) : option (list xsel * list str) :=
  match x with
  | XsField _ _ _ _ _ _ sub | XsInline _ _ _ sub => rec seen sub
  | XsSpread name _ =>
      if xd_mem name seen then Some ([], seen)
      else
        match xd_assoc name frags with
        | Some def => rec (name :: seen) (xf_sels def)
        | None => Some ([], name :: seen)
        end
  end.

(* `budget` is what is left of the DepthCounter limit (500): guard.increment() fails when it is used up *)
Fixpoint xv_walk (budget : nat) (frags : list (str * xfrag)) (seen : list str) (l : list xsel)
    {struct budget} : option (list xsel * list str) :=
  xv_walk_list
    (xv_walk_step frags
       (fun seen l => match budget with O => None | S b => xv_walk b frags seen l end))
    seen l.

Definition xv_depth_limit : nat := 500.

(* the closure of validate_unused_variables: the variable names a visited selection uses *)
Definition xv_used_by (frags : list (str * xfrag)) (x : xsel) : list str :=
  match x with
  | XsField _ _ _ args dirs _ _ => xv_vars_in_directives dirs ++ xv_vars_in_arguments args
  | XsSpread name dirs =>
      match xd_assoc name frags with
      | Some def => xv_vars_in_directives (xf_dirs def)
      | None => []
      end ++ xv_vars_in_directives dirs
  | XsInline _ dirs _ _ => xv_vars_in_directives dirs
  end.

(* validate_unused_variables *)
Definition xv_unused_variables (d : xdoc) (op : xop) : bool :=
  match xv_walk xv_depth_limit (xd_frags d) [] (xo_sels op) with
  | None => false                                   (* RecursionError *)
  | Some (visited, _) =>
      let used := xv_vars_in_directives (xo_dirs op) ++ flat_map (xv_used_by (xd_frags d)) visited in
      forallb (fun v => xd_mem (v_name v) used) (xo_vars op)
  end.

(* ---------------------------------------------------------------- fragment.rs : cycles *)

Inductive xv_cyc := XcOk (seen : list str) | XcRecursed | XcLimit.

Section XvCycList.
  Context (f : list str -> xsel -> xv_cyc).
  Fixpoint xv_cyc_list (seen : list str) (l : list xsel) : xv_cyc :=
    match l with
    | [] => XcOk seen
    | x :: r =>
        match f seen x with
        | XcOk seen1 => xv_cyc_list seen1 r
        | e => e
        end
    end.
End XvCycList.

(* detect_fragment_cycles on one selection.  `path` is path_from_root (root first);
   `enter path seen def` is the recursive call made after a successful push. *)
Fixpoint xv_cyc_sel (frags : list (str * xfrag))
    (enter : list str -> list str -> xfrag -> xv_cyc)
    (path : list str) (seen : list str) (x : xsel) {struct x} : xv_cyc :=
  match x with
  | XsSpread name _ =>
      if xd_mem name path then
        match path with
        | first :: _ => if streq first name then XcRecursed else XcOk seen
        | [] => XcOk seen
        end
      else if xd_mem name seen then XcOk seen
      else
        match xd_assoc name frags with
        | Some def => enter path (name :: seen) def
        | None => XcOk (name :: seen)
        end
  | XsInline _ _ _ sub | XsField _ _ _ _ _ _ sub =>
      xv_cyc_list (xv_cyc_sel frags enter path) seen sub
  end.

(* `budget` = number of further names the RecursionStack accepts: push fails when seen.len() > limit *)
Fixpoint xv_cycles (budget : nat) (frags : list (str * xfrag)) (path : list str) (seen : list str)
    (l : list xsel) {struct budget} : xv_cyc :=
  xv_cyc_list
    (xv_cyc_sel frags
       (fun path seen def =>
          match budget with
          | O => XcLimit
          | S b => xv_cycles b frags (path ++ [xf_name def]) seen (xf_sels def)
          end)
       path) seen l.

(* RecursionStack::with_root(name).with_limit(100): the root takes one of the 100 places *)
Definition xv_cycle_limit : nat := 99.

(* validate_fragment_cycles : true = no diagnostic (neither Recursed nor Limit) *)
Definition xv_fragment_cycles (d : xdoc) (f : xfrag) : bool :=
  match xv_cycles xv_cycle_limit (xd_frags d) [xf_name f] [] (xf_sels f) with
  | XcOk _ => true
  | _ => false
  end.

(* ---------------------------------------------------------------- selection.rs / field.rs / fragment.rs *)

(* (no diagnostic pushed, validated_fragments, fuel was enough) *)
Definition xv_res := (bool * list str * bool)%type.

Section XvSelList.
  Context (f : list str -> xsel -> xv_res).
  (* validate_selection_set: every selection is validated, diagnostics accumulate *)
  Fixpoint xv_sel_list (validated : list str) (l : list xsel) : xv_res :=
    match l with
    | [] => (true, validated, true)
    | x :: r =>
        let '(ok1, v1, fu1) := f validated x in
        let '(ok2, v2, fu2) := xv_sel_list v1 r in
        (ok1 && ok2, v2, fu1 && fu2)
    end.
End XvSelList.

(* validate_field / validate_fragment_spread / validate_inline_fragment with against_type = None.
   `enter validated def` is validate_fragment_definition. *)
Fixpoint xv_sel (frags : list (str * xfrag)) (enter : list str -> xfrag -> xv_res)
    (validated : list str) (x : xsel) {struct x} : xv_res :=
  match x with
  | XsField _ _ _ args dirs _ sub =>
      let ok0 := xv_directives dirs && xv_arguments args in
      let '(ok1, v1, fu) := xv_sel_list (xv_sel frags enter) validated sub in
      (ok0 && ok1, v1, fu)
  | XsSpread name dirs =>
      let ok0 := xv_directives dirs in
      match xd_assoc name frags with
      | Some def =>
          if xd_mem name validated then (ok0, validated, true)
          else
            let '(ok1, v1, fu) := enter (name :: validated) def in
            (ok0 && ok1, v1, fu)
      | None => (false, validated, true)                 (* UndefinedFragment *)
      end
  | XsInline _ dirs _ sub =>
      let ok0 := xv_directives dirs in
      let '(ok1, v1, fu) := xv_sel_list (xv_sel frags enter) validated sub in
      (ok0 && ok1, v1, fu)
  end.

(* validate_selection_set for one operation; `n` bounds the number of fragment definitions still to be
   validated (each is validated at most once per operation: n = length frags is enough) *)
Fixpoint xv_selection_set (n : nat) (d : xdoc) (validated : list str) (l : list xsel) : xv_res :=
  xv_sel_list
    (xv_sel (xd_frags d)
       (fun validated def =>
          (* validate_fragment_definition *)
          let ok0 := xv_directives (xf_dirs def) in
          let okc := xv_fragment_cycles d def in
          if okc then
            match n with
            | O => (ok0, validated, false)
            | S n' =>
                let '(ok1, v1, fu) := xv_selection_set n' d validated (xf_sels def) in
                (ok0 && ok1, v1, fu)
            end
          else (false, validated, true)))
    validated l.

(* validate_operation with schema = None *)
Definition xv_operation (d : xdoc) (op : xop) : bool * bool :=
  let '(ok, _, fu) := xv_selection_set (length (xd_frags d)) d [] (xo_sels op) in
  (xv_directives (xo_dirs op)
   && xv_variable_definitions (xo_vars op)
   && xv_unused_variables d op
   && ok, fu).

(* ---------------------------------------------------------------- fragment.rs : validate_fragments_used *)

Definition xv_spread_names (visited : list xsel) : list str :=
  flat_map (fun x => match x with XsSpread n _ => [n] | _ => [] end) visited.

(* collect_used_fragments: None = RecursionLimitError *)
Fixpoint xv_collect_used (d : xdoc) (ops : list xop) : option (list str) :=
  match ops with
  | [] => Some []
  | op :: r =>
      match xv_walk xv_depth_limit (xd_frags d) [] (xo_sels op) with
      | None => None
      | Some (visited, _) =>
          match xv_collect_used d r with
          | None => None
          | Some names => Some (xv_spread_names visited ++ names)
          end
      end
  end.

Definition xv_fragments_used (d : xdoc) : bool :=
  match xv_collect_used d (xd_ops d) with
  | None => false
  | Some used => forallb (fun kv => xd_mem (xf_name (snd kv)) used) (xd_frags d)
  end.

(* ---------------------------------------------------------------- operation.rs : validate_defer *)

(* Argument::specified_argument_by_name *)
Fixpoint xv_specified_arg (n : str) (args : list argument) : option value :=
  match args with
  | [] => None
  | (k, v) :: r => if streq k n then Some v else xv_specified_arg n r
  end.

Definition xv_sel_dirs (x : xsel) : list directive :=
  match x with
  | XsField _ _ _ _ dirs _ _ | XsSpread _ dirs | XsInline _ dirs _ _ => dirs
  end.

(* state of validate_defer_labels: (no diagnostic so far, labels seen) *)
Definition xv_lab := (bool * list str)%type.

(* check_defer_label *)
Definition xv_check_defer_label (st : xv_lab) (dir : directive) : xv_lab :=
  let '(ok, labels) := st in
  match xv_specified_arg xn_label (d_args dir) with
  | Some (VVar _) => (false, labels)
  | Some (VString l) => if xd_mem l labels then (false, labels) else (ok, l :: labels)
  | _ => (ok, labels)
  end.

Definition xv_check_defer_dirs (st : xv_lab) (dirs : list directive) : xv_lab :=
  fold_left (fun st dir => if streq (d_name dir) xn_defer then xv_check_defer_label st dir else st) dirs st.

(* a `for selection in ..` loop that threads a state and stops at the first `?` failure *)
Section XvStList.
  Context {St : Type} (step : St -> xsel -> St * bool).
  Fixpoint xv_st_list (st : St) (l : list xsel) : St * bool :=
    match l with
    | [] => (st, true)
    | x :: r =>
        let '(st2, cont) := step st x in
        if cont then xv_st_list st2 r else (st2, false)
    end.
End XvStList.

(* walk_defers_in_selection_set.  Second component false = RecursionLimitError: the walk of this
   selection set stops there (`let _ =`), what was recorded before stays *)
Definition xv_walk_defers_step (rec : xv_lab -> list xsel -> xv_lab * bool) (st : xv_lab) (x : xsel)
  : xv_lab * bool :=
  let st1 := xv_check_defer_dirs st (xv_sel_dirs x) in
  match x with
  | XsField _ _ _ _ _ _ sub | XsInline _ _ _ sub => rec st1 sub
  | XsSpread _ _ => (st1, true)
  end.

Fixpoint xv_walk_defers (budget : nat) (st : xv_lab) (l : list xsel) {struct budget} : xv_lab * bool :=
  xv_st_list
    (xv_walk_defers_step
       (fun st l => match budget with O => (st, false) | S b => xv_walk_defers b st l end))
    st l.

Definition xv_defer_labels (d : xdoc) : bool :=
  let st := fold_left (fun st op => fst (xv_walk_defers xv_depth_limit st (xo_sels op))) (xd_ops d) (true, []) in
  let st := fold_left (fun st kv => fst (xv_walk_defers xv_depth_limit st (xf_sels (snd kv)))) (xd_frags d) st in
  fst st.

Definition xv_has_defer (dirs : list directive) : bool :=
  existsb (fun dir => streq (d_name dir) xn_defer) dirs.

(* forbid_defer_on_root: ((no diagnostic, visited_fragments), not aborted) *)
Definition xv_defer_on_root_step (frags : list (str * xfrag))
    (rec : bool * list str -> list xsel -> (bool * list str) * bool)
    (st : bool * list str) (x : xsel) : (bool * list str) * bool :=
  let '(ok, visited) := st in
  match x with
  | XsField _ _ _ _ _ _ _ => (st, true)
  | XsInline _ dirs _ sub => rec (ok && negb (xv_has_defer dirs), visited) sub
  | XsSpread name dirs =>
      let ok1 := ok && negb (xv_has_defer dirs) in
      if xd_mem name visited then ((ok1, visited), true)
      else
        match xd_assoc name frags with
        | Some def => rec (ok1, name :: visited) (xf_sels def)
        | None => ((ok1, name :: visited), true)
        end
  end.

Fixpoint xv_defer_on_root (budget : nat) (frags : list (str * xfrag)) (st : bool * list str)
    (l : list xsel) {struct budget} : (bool * list str) * bool :=
  xv_st_list
    (xv_defer_on_root_step frags
       (fun st l => match budget with O => (st, false) | S b => xv_defer_on_root b frags st l end))
    st l.

(* selection_may_be_excluded *)
Fixpoint xv_may_be_excluded (dirs : list directive) : bool :=
  match dirs with
  | [] => false
  | dir :: r =>
      if streq (d_name dir) xn_skip then
        match xv_specified_arg xn_if (d_args dir) with
        | Some (VBool false) => xv_may_be_excluded r
        | _ => true
        end
      else if streq (d_name dir) xn_include then
        match xv_specified_arg xn_if (d_args dir) with
        | Some (VBool true) => xv_may_be_excluded r
        | _ => true
        end
      else xv_may_be_excluded r
  end.

(* defer_can_be_disabled *)
Definition xv_defer_can_be_disabled (dir : directive) : bool :=
  match xv_specified_arg xn_if (d_args dir) with
  | Some (VBool false) | Some (VVar _) => true
  | _ => false
  end.

(* forbid_unconditional_defer *)
Definition xv_unconditional_defer_step (frags : list (str * xfrag))
    (rec : bool * list str -> list xsel -> (bool * list str) * bool)
    (st : bool * list str) (x : xsel) : (bool * list str) * bool :=
  let '(ok, visited) := st in
  if xv_may_be_excluded (xv_sel_dirs x) then (st, true)              (* continue *)
  else
    let ok1 := ok && forallb (fun dir => negb (streq (d_name dir) xn_defer)
                                         || xv_defer_can_be_disabled dir) (xv_sel_dirs x) in
    match x with
    | XsField _ _ _ _ _ _ sub | XsInline _ _ _ sub => rec (ok1, visited) sub
    | XsSpread name _ =>
        if xd_mem name visited then ((ok1, visited), true)
        else
          match xd_assoc name frags with
          | Some def => rec (ok1, name :: visited) (xf_sels def)
          | None => ((ok1, name :: visited), true)
          end
    end.

Fixpoint xv_unconditional_defer (budget : nat) (frags : list (str * xfrag)) (st : bool * list str)
    (l : list xsel) {struct budget} : (bool * list str) * bool :=
  xv_st_list
    (xv_unconditional_defer_step frags
       (fun st l => match budget with O => (st, false) | S b => xv_unconditional_defer b frags st l end))
    st l.

(* the per-operation part of validate_defer *)
Definition xv_defer_operation (d : xdoc) (op : xop) : bool :=
  match xo_type op with
  | OpQuery => true
  | OpMutation =>
      fst (fst (xv_defer_on_root xv_depth_limit (xd_frags d) (true, []) (xo_sels op)))
  | OpSubscription =>
      fst (fst (xv_defer_on_root xv_depth_limit (xd_frags d) (true, []) (xo_sels op)))
      && fst (fst (xv_unconditional_defer xv_depth_limit (xd_frags d) (true, []) (xo_sels op)))
  end.

Definition xv_defer (d : xdoc) : bool :=
  xv_defer_labels d && forallb (xv_defer_operation d) (xd_ops d).

(* ---------------------------------------------------------------- executable/validation.rs *)

(* validate_operation_definitions *)
Definition xv_operation_definitions (d : xdoc) : bool :=
  forallb (fun op => fst (xv_operation d op)) (xd_ops d).

(* the fuel of the selection-set walk was enough for every operation (a theorem says it always is) *)
Definition xv_fuel_ok (d : xdoc) : bool :=
  forallb (fun op => snd (xv_operation d op)) (xd_ops d).

(* validate_with_or_without_schema None = validate_standalone_executable:
   the conjunction of the rules that run without a schema *)
Definition xv_standalone_valid (d : xdoc) : bool :=
  xv_operation_definitions d && xv_fragments_used d && xv_defer d.

(* ast::Document::validate_standalone_executable: build without a schema, then validate;
   Ok iff no diagnostic of either kind *)
Definition xv_validate_standalone_executable (a : document) : bool :=
  let '(d, errs) := xb_from_ast None a in
  xb_is_nil errs && xv_standalone_valid d.
