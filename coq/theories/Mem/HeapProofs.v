(* C30 — facts about the reference-counted heap of Mem/Heap.v: how each primitive changes counts and contents. *)
From ApolloVerif Require Import Base.Chars Mem.Heap.
From Coq Require Import ZifyBool ZifyN.

Definition hp_ind (a b : N) : N := if a =? b then 1 else 0.

(* what can be read at a location: value and header, not the count *)
Definition hp_view (h : hp_heap) (l : N) : option (str * option hp_span) :=
  match hp_find l (hp_cells h) with Some c => Some (hp_text c, hp_span_of c) | None => None end.

Record hp_wf (h : hp_heap) : Prop := {
  hw_lt : Forall (fun kc => fst kc < hp_next h) (hp_cells h);
  hw_pos : Forall (fun kc => 1 <= hp_strong (snd kc)) (hp_cells h) }.

Lemma hp_find_put l' l c cs :
  hp_find l' (hp_put l c cs) =
  if l' =? l then match hp_find l cs with Some _ => Some c | None => None end else hp_find l' cs.
Proof.
  induction cs as [|[k d] r IH]; cbn [hp_put hp_find].
  - destruct (l' =? l); reflexivity.
  - destruct (N.eqb_spec k l) as [->|Hkl]; cbn [hp_find].
    + destruct (N.eqb_spec l l') as [->|H1]; [rewrite N.eqb_refl; reflexivity|].
      destruct (N.eqb_spec l' l) as [->|H2]; [contradiction|reflexivity].
    + destruct (N.eqb_spec k l') as [->|H1].
      * destruct (N.eqb_spec l' l) as [->|H2]; [contradiction|reflexivity].
      * exact IH.
Qed.

Lemma hp_find_del l' l cs :
  hp_find l' (hp_del l cs) = if l' =? l then None else hp_find l' cs.
Proof.
  induction cs as [|[k d] r IH]; cbn [hp_del hp_find].
  - destruct (l' =? l); reflexivity.
  - destruct (N.eqb_spec k l) as [->|Hkl].
    + rewrite IH. destruct (N.eqb_spec l' l) as [->|H2]; [reflexivity|].
      destruct (N.eqb_spec l l') as [->|H3]; [contradiction|reflexivity].
    + cbn [hp_find]. destruct (N.eqb_spec k l') as [->|H1].
      * destruct (N.eqb_spec l' l) as [->|H2]; [contradiction|reflexivity].
      * exact IH.
Qed.

Lemma hp_put_Forall (Q : N * hp_cell -> Prop) l c cs :
  Forall Q cs -> (forall k d, Q (k, d) -> Q (k, c)) -> Forall Q (hp_put l c cs).
Proof.
  intros H Hc. induction H as [|[k d] r Hx Hr IH]; cbn [hp_put]; [constructor|].
  destruct (k =? l); constructor; eauto.
Qed.

Lemma hp_del_Forall (Q : N * hp_cell -> Prop) l cs : Forall Q cs -> Forall Q (hp_del l cs).
Proof.
  intros H. induction H as [|[k d] r Hx Hr IH]; cbn [hp_del]; [constructor|].
  destruct (k =? l); [exact IH|constructor; assumption].
Qed.

Lemma hp_find_lt h l c : hp_wf h -> hp_find l (hp_cells h) = Some c -> l < hp_next h /\ 1 <= hp_strong c.
Proof.
  intros [Hlt Hpos]. revert Hlt Hpos. generalize (hp_next h). induction (hp_cells h) as [|[k d] r IH]; intros nx Hlt Hpos E.
  - discriminate E.
  - cbn [hp_find] in E. inversion Hlt; inversion Hpos; subst. cbn [fst snd] in *.
    destruct (N.eqb_spec k l) as [->|Hkl]; [injection E as <-; split; assumption|eauto].
Qed.

Lemma hp_strong_pos_find h l : 1 <= hp_strong_of h l -> exists c, hp_find l (hp_cells h) = Some c /\ hp_strong c = hp_strong_of h l.
Proof.
  unfold hp_strong_of. destruct (hp_find l (hp_cells h)) as [c|]; [eauto|lia].
Qed.

Lemma hp_get_ok h l : 1 <= hp_strong_of h l ->
  exists c, hp_get h l = HpOk c /\ hp_strong c = hp_strong_of h l /\ hp_view h l = Some (hp_text c, hp_span_of c).
Proof.
  intro H. destruct (hp_strong_pos_find h l H) as [c [E Hs]]. exists c.
  unfold hp_get, hp_view. rewrite E. auto.
Qed.

Lemma hp_incr_ok h l : hp_wf h -> 1 <= hp_strong_of h l ->
  exists h', hp_incr h l = HpOk h' /\ hp_wf h' /\
    (forall l', hp_strong_of h' l' = hp_strong_of h l' + hp_ind l' l) /\
    (forall l', hp_view h' l' = hp_view h l') /\ hp_next h' = hp_next h.
Proof.
  intros Hwf H. destruct (hp_strong_pos_find h l H) as [c [E Hs]].
  unfold hp_incr. rewrite E. eexists. split; [reflexivity|]. destruct Hwf as [Hlt Hpos].
  repeat split; cbn [hp_cells hp_next hp_freed].
  - apply hp_put_Forall; [exact Hlt|]. intros k d Hq. exact Hq.
  - apply hp_put_Forall; [exact Hpos|]. intros k d Hq. cbn [snd hp_strong]. lia.
  - intro l'. unfold hp_strong_of, hp_ind. cbn [hp_cells]. rewrite hp_find_put.
    destruct (N.eqb_spec l' l) as [->|Hne]; [rewrite E; cbn [hp_strong]; lia|lia].
  - intro l'. unfold hp_view. cbn [hp_cells]. rewrite hp_find_put.
    destruct (N.eqb_spec l' l) as [->|Hne]; [rewrite E; reflexivity|reflexivity].
Qed.

Lemma hp_decr_ok h l : hp_wf h -> 1 <= hp_strong_of h l ->
  exists h', hp_decr h l = HpOk h' /\ hp_wf h' /\
    (forall l', hp_strong_of h' l' + hp_ind l' l = hp_strong_of h l') /\
    (forall l', l' <> l \/ 2 <= hp_strong_of h l -> hp_view h' l' = hp_view h l') /\ hp_next h' = hp_next h.
Proof.
  intros Hwf H. destruct (hp_strong_pos_find h l H) as [c [E Hs]].
  unfold hp_decr. rewrite E. destruct Hwf as [Hlt Hpos].
  destruct (N.leb_spec (hp_strong c) 1) as [Hle|Hgt]; eexists; (split; [reflexivity|]).
  - repeat split; cbn [hp_cells hp_next hp_freed].
    + apply hp_del_Forall; exact Hlt.
    + apply hp_del_Forall; exact Hpos.
    + intro l'. unfold hp_strong_of, hp_ind. cbn [hp_cells]. rewrite hp_find_del.
      destruct (N.eqb_spec l' l) as [->|Hne]; [rewrite E; lia|lia].
    + intros l' [Hne|H2]; unfold hp_view; cbn [hp_cells]; rewrite hp_find_del.
      * destruct (N.eqb_spec l' l); [contradiction|reflexivity].
      * lia.
  - repeat split; cbn [hp_cells hp_next hp_freed].
    + apply hp_put_Forall; [exact Hlt|]. intros k d Hq. exact Hq.
    + apply hp_put_Forall; [exact Hpos|]. intros k d Hq. cbn [snd hp_strong]. lia.
    + intro l'. unfold hp_strong_of, hp_ind. cbn [hp_cells]. rewrite hp_find_put.
      destruct (N.eqb_spec l' l) as [->|Hne]; [rewrite E; cbn [hp_strong]; lia|lia].
    + intros l' _. unfold hp_view. cbn [hp_cells]. rewrite hp_find_put.
      destruct (N.eqb_spec l' l) as [->|Hne]; [rewrite E; reflexivity|reflexivity].
Qed.

Lemma hp_fresh h : hp_wf h -> hp_find (hp_next h) (hp_cells h) = None.
Proof.
  intros [Hlt _]. revert Hlt. generalize (hp_next h) at 1 2 as nx. intros nx Hlt.
  induction Hlt as [|[k d] r Hx Hr IH]; [reflexivity|].
  cbn [hp_find]. cbn [fst] in Hx. destruct (N.eqb_spec k nx); [lia|exact IH].
Qed.

Lemma hp_alloc_ok h s sp h' l : hp_wf h -> hp_alloc h s sp = (h', l) ->
  l = hp_next h /\ hp_wf h' /\ hp_strong_of h l = 0 /\
  (forall l', hp_strong_of h' l' = hp_strong_of h l' + hp_ind l' l) /\
  hp_view h' l = Some (s, sp) /\ (forall l', l' <> l -> hp_view h' l' = hp_view h l') /\
  hp_next h' = hp_next h + 1.
Proof.
  intros Hwf E. unfold hp_alloc in E. injection E as <- <-.
  pose proof (hp_fresh h Hwf) as Hf. destruct Hwf as [Hlt Hpos].
  repeat split; cbn [hp_cells hp_next hp_freed].
  - constructor; [cbn [fst]; lia|]. eapply Forall_impl; [|exact Hlt]. cbn beta. intros; lia.
  - constructor; [cbn [snd hp_strong]; lia|exact Hpos].
  - unfold hp_strong_of. rewrite Hf. reflexivity.
  - intro l'. unfold hp_strong_of, hp_ind. cbn [hp_cells hp_find].
    destruct (N.eqb_spec (hp_next h) l') as [<-|Hne].
    + rewrite Hf, N.eqb_refl. cbn [hp_strong]. lia.
    + destruct (N.eqb_spec l' (hp_next h)); [congruence|lia].
  - unfold hp_view. cbn [hp_cells hp_find]. rewrite N.eqb_refl. reflexivity.
  - intros l' Hne. unfold hp_view. cbn [hp_cells hp_find].
    destruct (N.eqb_spec (hp_next h) l'); [congruence|reflexivity].
Qed.

Lemma hp_set_text_ok h l s : hp_wf h -> 1 <= hp_strong_of h l ->
  exists h', hp_set_text h l s = HpOk h' /\ hp_wf h' /\
    (forall l', hp_strong_of h' l' = hp_strong_of h l') /\
    (exists old sp, hp_view h l = Some (old, sp) /\ hp_view h' l = Some (s, sp)) /\
    (forall l', l' <> l -> hp_view h' l' = hp_view h l') /\ hp_next h' = hp_next h.
Proof.
  intros Hwf H. destruct (hp_strong_pos_find h l H) as [c [E Hs]].
  unfold hp_set_text. rewrite E. eexists. split; [reflexivity|]. destruct Hwf as [Hlt Hpos].
  repeat split; cbn [hp_cells hp_next hp_freed].
  - apply hp_put_Forall; [exact Hlt|]. intros k d Hq. exact Hq.
  - apply hp_put_Forall; [exact Hpos|]. intros k d Hq. cbn [snd hp_strong].
    pose proof (hp_find_lt h l c (Build_hp_wf h Hlt Hpos) E). lia.
  - intro l'. unfold hp_strong_of. cbn [hp_cells]. rewrite hp_find_put.
    destruct (N.eqb_spec l' l) as [->|Hne]; [rewrite E; reflexivity|reflexivity].
  - exists (hp_text c), (hp_span_of c). unfold hp_view. cbn [hp_cells]. rewrite hp_find_put, N.eqb_refl, E. auto.
  - intros l' Hne. unfold hp_view. cbn [hp_cells]. rewrite hp_find_put.
    destruct (N.eqb_spec l' l); [contradiction|reflexivity].
Qed.

Lemma hp_wf_empty : hp_wf hp_empty.
Proof. split; constructor. Qed.

Lemma hp_empty_iff h : (forall l, hp_strong_of h l = 0) -> hp_wf h -> hp_cells h = [].
Proof.
  intros H [_ Hpos]. destruct (hp_cells h) as [|[k d] r] eqn:E; [reflexivity|].
  specialize (H k). unfold hp_strong_of in H. rewrite E in H. cbn [hp_find] in H. rewrite N.eqb_refl in H.
  inversion Hpos; subst. cbn [snd] in *. lia.
Qed.

(* ------------------------------------------------------------------ preservation of contents
   hp_pres X h h': every location allocated in h that is still live in h' was live in h and reads the same,
   except possibly the locations in X (those written through a unique reference).  Transitive. *)
Definition hp_pres (X : N -> Prop) (h h' : hp_heap) : Prop :=
  hp_next h <= hp_next h' /\
  forall l, l < hp_next h -> ~ X l -> 1 <= hp_strong_of h' l -> 1 <= hp_strong_of h l /\ hp_view h' l = hp_view h l.

Lemma hp_pres_refl X h : hp_pres X h h.
Proof. split; [lia|]. auto. Qed.

Lemma hp_pres_trans X h1 h2 h3 : hp_pres X h1 h2 -> hp_pres X h2 h3 -> hp_pres X h1 h3.
Proof.
  intros [N1 P1] [N2 P2]. split; [lia|]. intros l Hl HX H3.
  destruct (P2 l ltac:(lia) HX H3) as [H2 V2]. destruct (P1 l Hl HX H2) as [H1 V1].
  split; [exact H1|congruence].
Qed.

Lemma hp_pres_weaken (X Y : N -> Prop) h h' : (forall l, X l -> Y l) -> hp_pres X h h' -> hp_pres Y h h'.
Proof. intros HXY [N1 P1]. split; [exact N1|]. intros l Hl HY. apply P1; auto. Qed.

Lemma hp_pres_incr X h l h' : hp_wf h -> 1 <= hp_strong_of h l -> hp_incr h l = HpOk h' -> hp_pres X h h'.
Proof.
  intros W S E. destruct (hp_incr_ok h l W S) as (h2 & E2 & _ & Hs & Hv & Hn).
  rewrite E in E2. injection E2 as <-. split; [lia|]. intros l' _ _ H. rewrite Hs in H. rewrite Hv.
  split; [|reflexivity]. unfold hp_ind in H. destruct (N.eqb_spec l' l) as [Heq|Hne]; [rewrite Heq; exact S|lia].
Qed.

Lemma hp_pres_decr X h l h' : hp_wf h -> 1 <= hp_strong_of h l -> hp_decr h l = HpOk h' -> hp_pres X h h'.
Proof.
  intros W S E. destruct (hp_decr_ok h l W S) as (h2 & E2 & _ & Hs & Hv & Hn).
  rewrite E in E2. injection E2 as <-. split; [lia|]. intros l' _ _ H. specialize (Hs l').
  split; [unfold hp_ind in Hs; destruct (l' =? l); lia|]. apply Hv.
  destruct (N.eqb_spec l' l) as [Heq|Hne]; [right|left; exact Hne].
  rewrite Heq in *. unfold hp_ind in Hs. rewrite N.eqb_refl in Hs. lia.
Qed.

Lemma hp_pres_alloc X h s sp h' l : hp_wf h -> hp_alloc h s sp = (h', l) -> hp_pres X h h'.
Proof.
  intros W E. destruct (hp_alloc_ok h s sp h' l W E) as (-> & _ & _ & Hs & _ & Hv & Hn).
  split; [lia|]. intros l' Hl _ H. rewrite Hs in H. unfold hp_ind in H.
  destruct (N.eqb_spec l' (hp_next h)) as [Heq|Hne]; [lia|]. split; [lia|]. apply Hv. exact Hne.
Qed.

Lemma hp_pres_set_text (X : N -> Prop) h l s h' :
  hp_wf h -> 1 <= hp_strong_of h l -> X l -> hp_set_text h l s = HpOk h' -> hp_pres X h h'.
Proof.
  intros W S HX E. destruct (hp_set_text_ok h l s W S) as (h2 & E2 & _ & Hs & _ & Hv & Hn).
  rewrite E in E2. injection E2 as <-. split; [lia|]. intros l' _ HnX H. rewrite Hs in H.
  split; [exact H|]. apply Hv. intro. subst. contradiction.
Qed.
