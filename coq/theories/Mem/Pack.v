(* C31 — TaggedFileId::pack / tag / file_id (crates/apollo-compiler/src/parser.rs) over N, TAG = 2^63.
   Definitions only (extracted).  Proofs: Mem/PackProofs.v. *)
From ApolloVerif Require Import Base.Chars Mem.FileId.

Definition fi_ID_MASK : N := 9223372036854775807.   (* !TAG as a u64 = 2^63 - 1 *)

(* pack(tag, id) = if tag { id | TAG } else { id } *)
Definition tfi_pack (tag : bool) (id : N) : N := if tag then N.lor id fi_TAGN else id.
(* tag(p) = (p & TAG) != 0 *)
Definition tfi_tag (p : N) : bool := negb (N.land p fi_TAGN =? 0).
(* file_id(p) = p & ID_MASK *)
Definition tfi_file_id (p : N) : N := N.land p fi_ID_MASK.
