(* C31 — proofs about the interleaved small-step semantics of Mem/FileId.v for the GENERATED program
   Mem/FileIdProgram.v.  The only place that looks inside the program is [step_thread_cases]; if the generated
   program changes, that lemma (and with it everything below) stops checking. *)
From ApolloVerif Require Import Base.Chars Mem.FileId Mem.FileIdProgram Mem.BitsProofs.
From Coq Require Import Permutation ZifyBool ZifyN.

(* ------------------------------------------------------------------ list update *)
Lemma upd_length {A} i (x : A) l : length (fi_upd i x l) = length l.
Proof. revert i; induction l as [|y r IH]; intros [|i]; cbn; auto. Qed.

Lemma upd_Forall {A} (Q : A -> Prop) i x l : Forall Q l -> Q x -> Forall Q (fi_upd i x l).
Proof.
  intros H Hx. revert i; induction H as [|y r Hy Hr IH]; intros [|i]; cbn; constructor; auto.
Qed.

Lemma nth_error_Forall {A} (Q : A -> Prop) l i x : Forall Q l -> nth_error l i = Some x -> Q x.
Proof.
  intros H. revert i; induction H as [|y r Hy Hr IH]; intros [|i] E; cbn in E; try discriminate.
  - injection E as <-. exact Hy.
  - eauto.
Qed.

Lemma upd_concat_perm {A B} (f : A -> list B) i t t' l b :
  nth_error l i = Some t -> f t' = b :: f t ->
  Permutation (concat (map f (fi_upd i t' l))) (b :: concat (map f l)).
Proof.
  revert i; induction l as [|y r IH]; intros [|i] E Hf; cbn in E; try discriminate.
  - injection E as ->. cbn. rewrite Hf. reflexivity.
  - cbn. rewrite (IH i E Hf). apply Permutation_sym, Permutation_middle.
Qed.

Lemma upd_concat_same {A B} (f : A -> list B) i t t' l :
  nth_error l i = Some t -> f t' = f t -> concat (map f (fi_upd i t' l)) = concat (map f l).
Proof.
  revert i; induction l as [|y r IH]; intros [|i] E Hf; cbn in E; try discriminate.
  - injection E as ->. cbn. rewrite Hf. reflexivity.
  - cbn. rewrite (IH i E Hf). reflexivity.
Qed.

(* weights: sum over the thread list *)
Fixpoint wsum {A} (w : A -> N) (l : list A) : N :=
  match l with [] => 0 | x :: r => w x + wsum w r end.

Lemma wsum_upd {A} (w : A -> N) i t t' l :
  nth_error l i = Some t -> wsum w (fi_upd i t' l) + w t = wsum w l + w t'.
Proof.
  revert i; induction l as [|y r IH]; intros [|i] E; cbn in E; try discriminate.
  - injection E as ->. cbn [fi_upd wsum]. lia.
  - cbn [fi_upd wsum]. specialize (IH i E). lia.
Qed.

Lemma wsum_le_length {A} (w : A -> N) l : (forall x, w x <= 1) -> wsum w l <= N.of_nat (length l).
Proof.
  intro H. induction l as [|x r IH]; cbn [wsum length]; [lia|]. specialize (H x). lia.
Qed.

(* ------------------------------------------------------------------ what one instruction of the generated program does *)
Inductive tstep (c : N) (t : fi_thread) : N -> fi_thread -> Prop :=
| TS_idle : tstep c t c t
| TS_new_ok rest :
    fi_t_todo t = FiCallNew :: rest -> fi_t_pc t = 0%nat -> fi_untagged c = true ->
    tstep c t ((c + 1) mod fi_W64) (FiT 0 c rest (c :: fi_t_ids t))
| TS_new_tagged rest :
    fi_t_todo t = FiCallNew :: rest -> fi_t_pc t = 0%nat -> fi_untagged c = false ->
    tstep c t ((c + 1) mod fi_W64) (FiT 1 c (fi_t_todo t) (fi_t_ids t))
| TS_new_reset rest :
    fi_t_todo t = FiCallNew :: rest -> fi_t_pc t = 1%nat ->
    tstep c t fi_INITIAL (FiT 0 (fi_t_reg t) (fi_t_todo t) (fi_t_ids t))
| TS_reset rest :
    fi_t_todo t = FiCallReset :: rest -> fi_t_pc t = 0%nat ->
    tstep c t fi_INITIAL (FiT 0 (fi_t_reg t) rest (fi_t_ids t)).

Lemma step_thread_cases c t c' t' :
  fi_step_thread fileid_programs c t = (c', t') -> tstep c t c' t'.
Proof.
  destruct t as [pc reg todo ids]. unfold fi_step_thread. cbn [fi_t_todo fi_t_pc fi_t_reg fi_t_ids].
  destruct todo as [|[|] rest].
  - intro E; injection E as <- <-. constructor.
  - destruct pc as [|[|pc]]; cbn [fi_prog_of fileid_programs fi_p_new fileid_new_program nth_error].
    + cbn [fi_exec_op fi_op fi_k]. destruct (fi_untagged c) eqn:U; intro E; injection E as <- <-.
      * eapply (TS_new_ok c (FiT 0 reg (FiCallNew :: rest) ids) rest); auto.
      * eapply (TS_new_tagged c (FiT 0 reg (FiCallNew :: rest) ids) rest); auto.
    + cbn [fi_exec_op fi_op fi_k]. intro E; injection E as <- <-.
      eapply (TS_new_reset c (FiT 1 reg (FiCallNew :: rest) ids) rest); auto.
    + destruct pc; cbn [nth_error]; intro E; injection E as <- <-; constructor.
  - destruct pc as [|pc]; cbn [fi_prog_of fileid_programs fi_p_reset fileid_reset_program nth_error].
    + cbn [fi_exec_op fi_op fi_k fi_finish_call fi_t_todo tl fi_t_ids]. intro E; injection E as <- <-.
      eapply (TS_reset c (FiT 0 reg (FiCallReset :: rest) ids) rest); auto.
    + destruct pc; cbn [nth_error]; intro E; injection E as <- <-; constructor.
Qed.

Lemma step_cases s i :
  fi_step fileid_programs s i = s \/
  exists t c' t', nth_error (fi_s_threads s) i = Some t /\ tstep (fi_s_cell s) t c' t' /\
                  fi_step fileid_programs s i = FiS c' (fi_upd i t' (fi_s_threads s)).
Proof.
  unfold fi_step. destruct (nth_error (fi_s_threads s) i) as [t|] eqn:E; [|left; reflexivity].
  destruct (fi_step_thread fileid_programs (fi_s_cell s) t) as [c' t'] eqn:St.
  right. exists t, c', t'. repeat split; auto. apply step_thread_cases; exact St.
Qed.

(* ------------------------------------------------------------------ never reserved, never tagged *)
Definition in_range (x : N) : Prop := fi_INITIAL <= x /\ x < fi_TAGN.

(* a thread that has seen a tagged id and has not yet stored INITIAL *)
Definition pending (t : fi_thread) : N :=
  match fi_t_todo t, fi_t_pc t with FiCallNew :: _, 1%nat => 1 | _, _ => 0 end.

Lemma pending_le1 t : pending t <= 1.
Proof. unfold pending. destruct (fi_t_todo t) as [|[|] ?]; try lia. destruct (fi_t_pc t) as [|[|?]]; lia. Qed.

Record inv_range (s : fi_state) : Prop := {
  ir_lo : fi_INITIAL <= fi_s_cell s;
  ir_hi : fi_s_cell s <= fi_TAGN + wsum pending (fi_s_threads s);
  ir_ids : Forall (fun t => Forall in_range (fi_t_ids t)) (fi_s_threads s) }.

Lemma inv_range_step s i :
  N.of_nat (length (fi_s_threads s)) < fi_TAGN -> inv_range s -> inv_range (fi_step fileid_programs s i).
Proof.
  intros Hn [Hlo Hhi Hids].
  destruct (step_cases s i) as [->|(t & c' & t' & Ent & Hst & ->)]; [constructor; assumption|].
  pose proof (wsum_upd pending i t t' (fi_s_threads s) Ent) as Hw.
  pose proof (wsum_le_length pending (fi_s_threads s) pending_le1) as Hlen.
  pose proof (nth_error_Forall _ _ _ _ Hids Ent) as Hidt.
  assert (Hc64 : fi_s_cell s < fi_W64) by (unfold fi_TAGN, fi_W64 in *; lia).
  inversion Hst as [ | rest Htodo Hpc Hu | rest Htodo Hpc Hu | rest Htodo Hpc | rest Htodo Hpc]; subst c' t'.
  - (* idle *) constructor; cbn [fi_s_cell fi_s_threads]; try assumption.
    + assert (wsum pending (fi_upd i t (fi_s_threads s)) = wsum pending (fi_s_threads s)) by lia. lia.
    + apply upd_Forall; assumption.
  - (* new, untagged: returns the value read *)
    assert (Hsmall : fi_s_cell s < fi_TAGN).
    { destruct (N.lt_ge_cases (fi_s_cell s) fi_TAGN) as [L|G]; [exact L|].
      rewrite (untagged_big _ G Hc64) in Hu. discriminate Hu. }
    assert (Hp0 : pending t = 0) by (unfold pending; rewrite Htodo, Hpc; reflexivity).
    assert (Hp1 : pending (FiT 0 (fi_s_cell s) rest (fi_s_cell s :: fi_t_ids t)) = 0)
      by (unfold pending; cbn [fi_t_todo fi_t_pc]; destruct rest as [|[|] ?]; reflexivity).
    rewrite N.mod_small by (unfold fi_TAGN, fi_W64 in *; lia).
    constructor; cbn [fi_s_cell fi_s_threads].
    + unfold fi_INITIAL in *; lia.
    + unfold fi_TAGN in *; lia.
    + apply upd_Forall; [assumption|]. cbn [fi_t_ids]. constructor; [split; assumption|assumption].
  - (* new, tagged: one more pending thread *)
    assert (Hp0 : pending t = 0) by (unfold pending; rewrite Htodo, Hpc; reflexivity).
    assert (Hp1 : pending (FiT 1 (fi_s_cell s) (fi_t_todo t) (fi_t_ids t)) = 1)
      by (unfold pending; cbn [fi_t_todo fi_t_pc]; rewrite Htodo; reflexivity).
    assert (Hroom : wsum pending (fi_s_threads s) < N.of_nat (length (fi_s_threads s))).
    { (* t itself is not pending, so not every thread is *)
      clear - Ent Hp0. revert i Ent. induction (fi_s_threads s) as [|y r IH]; intros [|i] E; cbn in E; try discriminate.
      - injection E as ->. cbn [wsum length]. pose proof (wsum_le_length pending r pending_le1). lia.
      - cbn [wsum length]. specialize (IH i E). pose proof (pending_le1 y). lia. }
    rewrite N.mod_small by (unfold fi_TAGN, fi_W64 in *; lia).
    constructor; cbn [fi_s_cell fi_s_threads].
    + unfold fi_INITIAL in *; lia.
    + lia.
    + apply upd_Forall; assumption.
  - (* the pending thread stores INITIAL *)
    constructor; cbn [fi_s_cell fi_s_threads].
    + lia.
    + unfold fi_INITIAL, fi_TAGN; lia.
    + apply upd_Forall; assumption.
  - (* FileId::reset *)
    constructor; cbn [fi_s_cell fi_s_threads].
    + lia.
    + unfold fi_INITIAL, fi_TAGN; lia.
    + apply upd_Forall; assumption.
Qed.

Lemma step_threads_length P s i : length (fi_s_threads (fi_step P s i)) = length (fi_s_threads s).
Proof.
  unfold fi_step. destruct (nth_error (fi_s_threads s) i) as [t|]; [|reflexivity].
  destruct (fi_step_thread P (fi_s_cell s) t). cbn [fi_s_threads]. apply upd_length.
Qed.

Lemma inv_range_run sched : forall s,
  N.of_nat (length (fi_s_threads s)) < fi_TAGN -> inv_range s -> inv_range (fi_run fileid_programs s sched).
Proof.
  induction sched as [|i r IH]; intros s Hn Hi; [exact Hi|].
  cbn [fi_run fold_left]. apply IH; [rewrite step_threads_length; exact Hn|apply inv_range_step; assumption].
Qed.

Lemma inv_range_init c0 todos : fi_INITIAL <= c0 -> c0 <= fi_TAGN -> inv_range (fi_init_state c0 todos).
Proof.
  intros H1 H2. constructor; cbn [fi_init_state fi_s_cell fi_s_threads]; [exact H1|lia|].
  induction todos; cbn [map]; constructor; auto. cbn [fi_t_ids]. constructor.
Qed.

Lemma Forall_concat_map {A B} (Q : B -> Prop) (f : A -> list B) l :
  Forall (fun t => Forall Q (f t)) l -> Forall Q (concat (map f l)).
Proof. induction 1; cbn; [constructor|apply Forall_app; split; assumption]. Qed.

(* Every id returned, under every schedule, with any mix of FileId::new and FileId::reset calls in any number
   (< 2^63) of threads, from any counter value in [3, 2^63] (so including wrap-around into the tag bit and the
   concurrent resets that follow): it lies in [3, 2^63). *)
Theorem never_reserved : forall (todos : list (list fi_call)) (c0 : N) (sched : list nat),
  N.of_nat (length todos) < fi_TAGN -> fi_INITIAL <= c0 -> c0 <= fi_TAGN ->
  Forall (fun id => fi_INITIAL <= id /\ id < fi_TAGN) (fi_all_ids (fi_run fileid_programs (fi_init_state c0 todos) sched)).
Proof.
  intros todos c0 sched Hn H1 H2.
  assert (Hi : inv_range (fi_run fileid_programs (fi_init_state c0 todos) sched)).
  { apply inv_range_run; [cbn [fi_init_state fi_s_threads]; rewrite map_length; exact Hn|apply inv_range_init; assumption]. }
  unfold fi_all_ids. apply Forall_concat_map. exact (ir_ids _ Hi).
Qed.

(* ------------------------------------------------------------------ uniqueness below 2^63 *)
Record inv_uniq (s : fi_state) : Prop := {
  iu_pc : Forall (fun t => fi_t_pc t = 0%nat /\ Forall (eq FiCallNew) (fi_t_todo t)) (fi_s_threads s);
  iu_lt : Forall (fun x => x < fi_s_cell s) (fi_all_ids s);
  iu_nodup : NoDup (fi_all_ids s) }.

Lemma inv_uniq_step s i :
  fi_s_cell s < fi_TAGN -> inv_uniq s -> inv_uniq (fi_step fileid_programs s i).
Proof.
  intros Hc [Hpc Hlt Hnd].
  destruct (step_cases s i) as [->|(t & c' & t' & Ent & Hst & ->)]; [constructor; assumption|].
  pose proof (nth_error_Forall _ _ _ _ Hpc Ent) as [Hpct Htodot].
  inversion Hst as [ | rest Htodo Hpc' Hu | rest Htodo Hpc' Hu | rest Htodo Hpc' | rest Htodo Hpc']; subst c' t'.
  - constructor; unfold fi_all_ids in *; cbn [fi_s_cell fi_s_threads].
    + apply upd_Forall; auto.
    + rewrite (upd_concat_same fi_t_ids i t t _ Ent eq_refl). exact Hlt.
    + rewrite (upd_concat_same fi_t_ids i t t _ Ent eq_refl). exact Hnd.
  - rewrite N.mod_small by (unfold fi_TAGN, fi_W64 in *; lia).
    pose proof (upd_concat_perm fi_t_ids i t (FiT 0 (fi_s_cell s) rest (fi_s_cell s :: fi_t_ids t)) (fi_s_threads s) (fi_s_cell s)
                  Ent eq_refl) as Hperm.
    constructor; unfold fi_all_ids in *; cbn [fi_s_cell fi_s_threads].
    + apply upd_Forall; [assumption|]. cbn [fi_t_pc fi_t_todo]. split; [reflexivity|].
      rewrite Htodo in Htodot. inversion Htodot; assumption.
    + eapply Permutation_Forall; [apply Permutation_sym; exact Hperm|].
      constructor; [lia|]. eapply Forall_impl; [|exact Hlt]. cbn beta. intros; lia.
    + eapply Permutation_NoDup; [apply Permutation_sym; exact Hperm|].
      constructor; [|exact Hnd]. intro Hin. rewrite Forall_forall in Hlt. specialize (Hlt _ Hin). lia.
  - rewrite (untagged_small _ Hc) in Hu. discriminate Hu.
  - rewrite Hpct in Hpc'. discriminate Hpc'.
  - rewrite Htodo in Htodot. inversion Htodot as [|? ? Hbad]. discriminate Hbad.
Qed.

Lemma inv_uniq_run sched : forall s,
  Forall (fun c => c < fi_TAGN) (fi_cells fileid_programs s sched) -> inv_uniq s ->
  inv_uniq (fi_run fileid_programs s sched).
Proof.
  induction sched as [|i r IH]; intros s Hc Hi; [exact Hi|].
  cbn [fi_cells] in Hc. inversion Hc as [|? ? Hc0 Hrest]; subst.
  cbn [fi_run fold_left]. apply IH; [exact Hrest|apply inv_uniq_step; assumption].
Qed.

Lemma inv_uniq_init c0 ks : inv_uniq (fi_init_state c0 (map (fun k => repeat FiCallNew k) ks)).
Proof.
  assert (Hids : fi_all_ids (fi_init_state c0 (map (fun k => repeat FiCallNew k) ks)) = []).
  { unfold fi_all_ids, fi_init_state. cbn [fi_s_threads]. induction ks; cbn; auto. }
  constructor; rewrite ?Hids; try constructor.
  cbn [fi_init_state fi_s_threads]. induction ks as [|k r IH]; cbn [map]; constructor; auto.
  cbn [fi_t_pc fi_t_todo]. split; [reflexivity|]. clear. induction k; cbn; constructor; auto.
Qed.

(* Any number of threads, any number of FileId::new calls per thread, any schedule, any initial counter value:
   if the counter stays below 2^63 during the run, the ids returned are pairwise distinct. *)
Theorem unique : forall (calls_per_thread : list nat) (c0 : N) (sched : list nat),
  let s0 := fi_init_state c0 (map (fun k => repeat FiCallNew k) calls_per_thread) in
  Forall (fun c => c < fi_TAGN) (fi_cells fileid_programs s0 sched) ->
  NoDup (fi_all_ids (fi_run fileid_programs s0 sched)).
Proof.
  intros ks c0 sched s0 Hc. apply iu_nodup. apply inv_uniq_run; [exact Hc|apply inv_uniq_init].
Qed.

(* ------------------------------------------------------------------ the load-then-store rewrite is refuted *)
Lemma below_tag_b l : forallb (fun c => c <? fi_TAGN) l = true -> Forall (fun c => c < fi_TAGN) l.
Proof.
  intro H. rewrite forallb_forall in H. rewrite Forall_forall. intros x Hx. specialize (H x Hx). lia.
Qed.

Definition load_store_program : fi_program :=
  [ FiI FiLoad FiKNext; FiI (FiStoreRegPlus 1) FiKRet ].
Definition load_store_programs : fi_programs := FiP load_store_program fileid_reset_program.

Lemma load_store_collides :
  let s0 := fi_init_state 3 [[FiCallNew]; [FiCallNew]] in
  let sched := [0; 1; 0; 1]%nat in
  Forall (fun c => c < fi_TAGN) (fi_cells load_store_programs s0 sched) /\
  fi_all_ids (fi_run load_store_programs s0 sched) = [3; 3] /\
  fi_search_from 12 load_store_programs 3 [[FiCallNew]; [FiCallNew]] = Some sched.
Proof.
  cbv zeta. split; [|split]; [|vm_compute; reflexivity|vm_compute; reflexivity].
  apply below_tag_b. vm_compute. reflexivity.
Qed.
