(* Bit-level facts about the tag bit 2^63 of a u64, shared by the file-id allocator proofs (Mem/FileIdProofs.v),
   the packing proofs (Mem/PackProofs.v) and, through them, the Name model (Mem/NameNodeProofs.v).
   Independent of the generated program Mem/FileIdProgram.v. *)
From ApolloVerif Require Import Base.Chars Mem.FileId.
From Coq Require Import ZifyBool ZifyN.

(* ------------------------------------------------------------------ bits *)
Lemma TAGN_pow : fi_TAGN = 2 ^ 63. Proof. reflexivity. Qed.
Lemma W64_pow : fi_W64 = 2 ^ 64. Proof. reflexivity. Qed.

Lemma land_pow2 c n : N.land c (2 ^ n) = if N.testbit c n then 2 ^ n else 0.
Proof.
  apply N.bits_inj. intro m. rewrite N.land_spec, N.pow2_bits_eqb.
  destruct (N.eqb_spec n m) as [->|Hne].
  - destruct (N.testbit c m); [rewrite N.pow2_bits_true|rewrite N.bits_0]; reflexivity.
  - rewrite andb_false_r. destruct (N.testbit c n); [|rewrite N.bits_0; reflexivity].
    rewrite N.pow2_bits_false; [reflexivity|exact Hne].
Qed.

Lemma testbit63_small c : c < fi_TAGN -> N.testbit c 63 = false.
Proof.
  intro H. pose proof (N.testbit_spec' c 63) as S.
  rewrite N.div_small in S by (rewrite <- TAGN_pow; exact H).
  destruct (N.testbit c 63); [discriminate S|reflexivity].
Qed.

Lemma testbit63_big c : fi_TAGN <= c -> c < fi_W64 -> N.testbit c 63 = true.
Proof.
  intros Hlo Hhi. pose proof (N.testbit_spec' c 63) as S. rewrite <- TAGN_pow in S.
  assert (Hq : c / fi_TAGN = 1).
  { assert (fi_TAGN <> 0) by (unfold fi_TAGN; lia).
    pose proof (N.div_le_lower_bound c fi_TAGN 1 H) as L.
    pose proof (N.div_lt_upper_bound c fi_TAGN 2 H) as U.
    unfold fi_TAGN, fi_W64 in *. lia. }
  rewrite Hq in S. destruct (N.testbit c 63); [reflexivity|discriminate S].
Qed.

Lemma untagged_small c : c < fi_TAGN -> fi_untagged c = true.
Proof.
  intro H. unfold fi_untagged. rewrite TAGN_pow, land_pow2, <- TAGN_pow, (testbit63_small c H). reflexivity.
Qed.

Lemma untagged_big c : fi_TAGN <= c -> c < fi_W64 -> fi_untagged c = false.
Proof.
  intros H1 H2. unfold fi_untagged. rewrite TAGN_pow, land_pow2, (testbit63_big c H1 H2). reflexivity.
Qed.

