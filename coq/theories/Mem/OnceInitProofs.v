(* C31 — OnceLock::get_or_init: under every interleaving all calls return one and the same value, the
   initialiser runs at most once, and with a deterministic initialiser the value is the initialiser's. *)
From ApolloVerif Require Import Base.Chars Mem.OnceInit.
From Coq Require Import ZifyBool ZifyN.

Lemma oupd_Forall (Q : once_thread -> Prop) i x l : Forall Q l -> Q x -> Forall Q (oupd i x l).
Proof. intros H Hx. revert i; induction H; intros [|i]; cbn; constructor; auto. Qed.

Lemma onth_Forall (Q : once_thread -> Prop) l i x : Forall Q l -> nth_error l i = Some x -> Q x.
Proof.
  intros H. revert i; induction H as [|y r Hy Hr IH]; intros [|i] E; cbn in E; try discriminate.
  - injection E as <-. exact Hy.
  - eauto.
Qed.

(* the value every call returns: fixed once the cell is Done; nothing has been returned before that *)
Definition once_inv (inits : nat -> N) (s : once_state) : Prop :=
  (os_inits_run s <= 1)%nat /\
  match os_cell s with
  | OUninit => os_inits_run s = 0%nat /\ Forall (fun t => ot_got t = []) (os_threads s)
  | ORunning j => os_inits_run s = 1%nat /\ Forall (fun t => ot_got t = []) (os_threads s)
  | ODone v => os_inits_run s = 1%nat /\ (exists j, v = inits j) /\
               Forall (fun t => Forall (eq v) (ot_got t)) (os_threads s)
  end.

Lemma once_inv_step inits s i : once_inv inits s -> once_inv inits (once_step inits s i).
Proof.
  intros [Hle Hc]. unfold once_step.
  destruct (nth_error (os_threads s) i) as [t|] eqn:Ent; [|split; assumption].
  destruct (ot_left t) as [|k]; [split; assumption|].
  destruct (os_cell s) as [|j|v] eqn:Ec.
  - destruct Hc as [H0 Hg]. split; cbn [os_inits_run os_cell os_threads]; [lia|split; [lia|exact Hg]].
  - destruct Hc as [H1 Hg]. destruct (Nat.eqb i j).
    + split; cbn [os_inits_run os_cell os_threads]; [lia|]. split; [exact H1|]. split; [exists i; reflexivity|].
      eapply Forall_impl; [|exact Hg]. cbn beta. intros a ->. constructor.
    + split; [exact Hle|]. rewrite Ec. split; assumption.
  - destruct Hc as [H1 [Hj Hg]]. split; cbn [os_inits_run os_cell os_threads]; [lia|].
    split; [exact H1|]. split; [exact Hj|]. apply oupd_Forall; [exact Hg|]. cbn [ot_got].
    constructor; [reflexivity|]. exact (onth_Forall _ _ _ _ Hg Ent).
Qed.

Lemma once_inv_run inits sched : forall s, once_inv inits s -> once_inv inits (once_run inits s sched).
Proof. induction sched as [|i r IH]; intros s H; [exact H|]. cbn [once_run fold_left]. apply IH, once_inv_step, H. Qed.

Lemma once_inv_init inits calls : once_inv inits (once_init calls).
Proof.
  split; cbn [once_init os_inits_run os_cell os_threads]; [lia|]. split; [reflexivity|].
  induction calls; cbn [map]; constructor; auto.
Qed.

Lemma Forall_concat_got (Q : N -> Prop) l :
  Forall (fun t => Forall Q (ot_got t)) l -> Forall Q (concat (map ot_got l)).
Proof. induction 1; cbn; [constructor|apply Forall_app; split; assumption]. Qed.

Theorem once_same_value : forall (inits : nat -> N) (calls : list nat) (sched : list nat),
  let s := once_run inits (once_init calls) sched in
  (os_inits_run s <= 1)%nat /\
  exists v, (exists j, v = inits j) /\ Forall (eq v) (once_all_got s).
Proof.
  intros inits calls sched s.
  destruct (once_inv_run inits sched _ (once_inv_init inits calls)) as [Hle Hc]. fold s in Hle, Hc.
  split; [exact Hle|]. unfold once_all_got.
  destruct (os_cell s) as [|j|v].
  - destruct Hc as [_ Hg]. exists (inits 0%nat). split; [exists 0%nat; reflexivity|].
    apply Forall_concat_got. eapply Forall_impl; [|exact Hg]. cbn beta. intros a ->. constructor.
  - destruct Hc as [_ Hg]. exists (inits 0%nat). split; [exists 0%nat; reflexivity|].
    apply Forall_concat_got. eapply Forall_impl; [|exact Hg]. cbn beta. intros a ->. constructor.
  - destruct Hc as [_ [Hj Hg]]. exists v. split; [exact Hj|]. apply Forall_concat_got. exact Hg.
Qed.

Corollary once_deterministic : forall (v0 : N) (calls : list nat) (sched : list nat),
  Forall (eq v0) (once_all_got (once_run (fun _ => v0) (once_init calls) sched)).
Proof.
  intros v0 calls sched.
  destruct (once_same_value (fun _ => v0) calls sched) as [_ [v [[j ->] H]]]. exact H.
Qed.
