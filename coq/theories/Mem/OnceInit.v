(* C31 — std::sync::OnceLock::get_or_init as the anchored code uses it (SchemaBuilder::built_in,
   MetaFieldDefinitions::get, BuiltInScalars::new): a cell that is Uninit, being initialised by one thread, or
   Done.  A thread calling get_or_init(f): on Uninit it becomes the initialiser; while another thread
   initialises it waits (its step does not move); the initialiser's next step publishes the value of ITS closure;
   on Done the call returns the stored value.  Thread i's closure evaluates to [inits i].
   Definitions only.  Proofs: Mem/OnceInitProofs.v. *)
From ApolloVerif Require Import Base.Chars.

Inductive once_cell := OUninit | ORunning (by_thread : nat) | ODone (v : N).

(* per thread: the values its get_or_init calls have returned so far (most recent first), calls left *)
Record once_thread := mkOT { ot_left : nat; ot_got : list N }.
Record once_state := mkOS { os_cell : once_cell; os_inits_run : nat; os_threads : list once_thread }.

Fixpoint oupd (i : nat) (x : once_thread) (l : list once_thread) : list once_thread :=
  match l with
  | [] => []
  | y :: r => match i with O => x :: r | S j => y :: oupd j x r end
  end.

Definition once_step (inits : nat -> N) (s : once_state) (i : nat) : once_state :=
  match nth_error (os_threads s) i with
  | None => s
  | Some t =>
    match ot_left t with
    | O => s
    | S k =>
      match os_cell s with
      | OUninit => mkOS (ORunning i) (S (os_inits_run s)) (os_threads s)
      | ORunning j =>
          if Nat.eqb i j then mkOS (ODone (inits i)) (os_inits_run s) (os_threads s) else s
      | ODone v => mkOS (ODone v) (os_inits_run s) (oupd i (mkOT k (v :: ot_got t)) (os_threads s))
      end
    end
  end.

Definition once_run (inits : nat -> N) (s : once_state) (sched : list nat) : once_state :=
  fold_left (once_step inits) sched s.

Definition once_init (calls : list nat) : once_state :=
  mkOS OUninit 0 (map (fun k => mkOT k []) calls).

Definition once_all_got (s : once_state) : list N := concat (map ot_got (os_threads s)).
