(* C31 — TaggedFileId round trip, bit-level, for every 63-bit id (no sampling). *)
From ApolloVerif Require Import Base.Chars Mem.FileId Mem.BitsProofs Mem.Pack.
From Coq Require Import ZifyBool ZifyN.

Lemma ID_MASK_ones : fi_ID_MASK = N.ones 63. Proof. reflexivity. Qed.

Lemma land_tag_small id : id < fi_TAGN -> N.land id fi_TAGN = 0.
Proof. intro H. rewrite TAGN_pow, land_pow2, (testbit63_small id H). reflexivity. Qed.

Lemma land_mask_small id : id < fi_TAGN -> N.land id fi_ID_MASK = id.
Proof.
  intro H. rewrite ID_MASK_ones, N.land_ones. apply N.mod_small. rewrite <- TAGN_pow. exact H.
Qed.

Lemma land_tag_mask : N.land fi_TAGN fi_ID_MASK = 0. Proof. reflexivity. Qed.
Lemma land_tag_tag : N.land fi_TAGN fi_TAGN = fi_TAGN. Proof. apply N.land_diag. Qed.

Lemma lor_tag_add id : id < fi_TAGN -> N.lor id fi_TAGN = id + fi_TAGN.
Proof.
  intro H. symmetry. rewrite N.add_nocarry_lxor by (apply land_tag_small; exact H).
  apply N.lxor_lor. apply land_tag_small; exact H.
Qed.

Theorem pack_roundtrip : forall (id : N) (tag : bool),
  0 < id -> id < fi_TAGN ->
  tfi_file_id (tfi_pack tag id) = id /\ tfi_tag (tfi_pack tag id) = tag /\ tfi_pack tag id <> 0 /\
  tfi_pack tag id < fi_W64.
Proof.
  intros id tag Hpos Hlt. unfold tfi_file_id, tfi_tag, tfi_pack. destruct tag.
  - repeat split.
    + rewrite N.land_lor_distr_l, (land_mask_small id Hlt), land_tag_mask. apply N.lor_0_r.
    + rewrite N.land_lor_distr_l, (land_tag_small id Hlt), land_tag_tag. reflexivity.
    + rewrite (lor_tag_add id Hlt). unfold fi_TAGN. lia.
    + rewrite (lor_tag_add id Hlt). unfold fi_TAGN, fi_W64 in *. lia.
  - repeat split.
    + apply land_mask_small; exact Hlt.
    + rewrite (land_tag_small id Hlt). reflexivity.
    + lia.
    + unfold fi_TAGN, fi_W64 in *. lia.
Qed.
