(* C31 — model of the file-id allocator (crates/apollo-compiler/src/parser.rs: NEXT, FileId::new, FileId::reset).

   A shared 64-bit cell and any number of threads.  Each thread runs a list of calls (FileId::new or
   FileId::reset); the body of a call is a PROGRAM GIVEN AS DATA: a list of instructions, each one atomic
   operation on the cell followed by a thread-local continuation.  One scheduler step = one thread executes
   its next instruction (one atomic operation), so an execution is determined by a schedule : list of thread
   ids.  The program the theorems are stated about is not written here: it is Mem/FileIdProgram.v, generated on
   every run from the operations the real code performs (recorded through the cfg(apollo_rs_verif) hook).

   Definitions only (extracted).  Proofs: Mem/FileIdProofs.v. *)
From ApolloVerif Require Import Base.Chars.

Definition W64 : N := 18446744073709551616.   (* 2^64 : the counter is a u64, fetch_add wraps *)
Definition TAGN : N := 9223372036854775808.   (* TAG = 1 << 63 *)
Definition INITIAL : N := 3.

Inductive aop :=
| AFetchAdd (d : N)        (* reg <- cell ; cell <- (cell + d) mod 2^64      NEXT.fetch_add(d) *)
| ALoad                    (* reg <- cell                                     NEXT.load() *)
| AStoreConst (v : N)      (* cell <- v                                       NEXT.store(v) *)
| AStoreRegPlus (d : N).   (* cell <- (reg + d) mod 2^64                      NEXT.store(x + d), x the value last read *)

Inductive cont :=
| KNext                    (* continue with the next instruction *)
| KRet                     (* return reg *)
| KRetIfUntagged           (* if reg & TAG == 0 { return reg } else continue with the next instruction *)
| KRetUnit                 (* return () *)
| KGoto (pc : nat).        (* loop *)

Record instr := mkI { i_op : aop; i_k : cont }.
Definition program := list instr.

Inductive call := CallNew | CallReset.
Record programs := mkP { p_new : program; p_reset : program }.
Definition prog_of (P : programs) (c : call) : program :=
  match c with CallNew => p_new P | CallReset => p_reset P end.

(* t_ids: ids returned so far by this thread's FileId::new calls, most recent first *)
Record thread := mkT { t_pc : nat; t_reg : N; t_todo : list call; t_ids : list N }.
Record state := mkS { s_cell : N; s_threads : list thread }.

Definition exec_op (o : aop) (cell reg : N) : N * N :=
  match o with
  | AFetchAdd d => ((cell + d) mod W64, cell)
  | ALoad => (cell, cell)
  | AStoreConst v => (v, reg)
  | AStoreRegPlus d => ((reg + d) mod W64, reg)
  end.

Definition untagged (x : N) : bool := N.land x TAGN =? 0.

Definition finish_call (reg : N) (t : thread) (ret : option N) : thread :=
  mkT 0 reg (tl (t_todo t)) (match ret with Some v => v :: t_ids t | None => t_ids t end).

(* One instruction of thread t.  A thread with nothing to do, or whose pc is outside its program, does not
   move (a stuck thread never finishes; the generated programs end every path with a return or a goto). *)
Definition step_thread (P : programs) (cell : N) (t : thread) : N * thread :=
  match t_todo t with
  | [] => (cell, t)
  | c :: _ =>
    match nth_error (prog_of P c) (t_pc t) with
    | None => (cell, t)
    | Some i =>
      let (cell', reg') := exec_op (i_op i) cell (t_reg t) in
      (cell',
       match i_k i with
       | KNext => mkT (S (t_pc t)) reg' (t_todo t) (t_ids t)
       | KRet => finish_call reg' t (Some reg')
       | KRetIfUntagged =>
           if untagged reg' then finish_call reg' t (Some reg')
           else mkT (S (t_pc t)) reg' (t_todo t) (t_ids t)
       | KRetUnit => finish_call reg' t None
       | KGoto pc => mkT pc reg' (t_todo t) (t_ids t)
       end)
    end
  end.

Fixpoint upd {A} (i : nat) (x : A) (l : list A) : list A :=
  match l with
  | [] => []
  | y :: r => match i with O => x :: r | S j => y :: upd j x r end
  end.

(* the scheduler picks thread i *)
Definition step (P : programs) (s : state) (i : nat) : state :=
  match nth_error (s_threads s) i with
  | None => s
  | Some t => let (c', t') := step_thread P (s_cell s) t in mkS c' (upd i t' (s_threads s))
  end.

Definition run (P : programs) (s : state) (sched : list nat) : state := fold_left (step P) sched s.

(* every value the counter has during the run, initial value first *)
Fixpoint cells (P : programs) (s : state) (sched : list nat) : list N :=
  s_cell s :: match sched with [] => [] | i :: r => cells P (step P s i) r end.

Definition init_state (c0 : N) (todos : list (list call)) : state :=
  mkS c0 (map (fun td => mkT 0 0 td []) todos).

Definition all_ids (s : state) : list N := concat (map t_ids (s_threads s)).

Definition finished (s : state) : bool := forallb (fun t => match t_todo t with [] => true | _ => false end) (s_threads s).

(* ---- the two oracles of the property, executable (used by the schedule search and by the tie) ---- *)
Definition id_ok (x : N) : bool := (INITIAL <=? x) && (x <? TAGN).

Fixpoint nodupb (l : list N) : bool :=
  match l with [] => true | x :: r => negb (existsb (N.eqb x) r) && nodupb r end.

(* ---- schedule search: depth-first over schedules of length <= fuel for the threads of s, skipping choices
   that do not move.  [clean] = the counter stayed below 2^63 so far (the hypothesis of uniqueness).
   Returns the first schedule (in order) after which an id is reserved/tagged, or two ids coincide on a clean run. *)
Definition state_bad (clean : bool) (s : state) : bool :=
  negb (forallb id_ok (all_ids s)) || (clean && negb (nodupb (all_ids s))).

Definition thread_eqb (a b : thread) : bool :=
  Nat.eqb (t_pc a) (t_pc b) && (t_reg a =? t_reg b) && Nat.eqb (length (t_todo a)) (length (t_todo b))
  && Nat.eqb (length (t_ids a)) (length (t_ids b)).

Fixpoint search (fuel : nat) (P : programs) (s : state) (clean : bool) (pref : list nat) : option (list nat) :=
  if state_bad clean s then Some (rev pref) else
  match fuel with
  | O => None
  | S f =>
    (fix try (is : list nat) : option (list nat) :=
       match is with
       | [] => None
       | i :: rest =>
         let s' := step P s i in
         let moved := match nth_error (s_threads s) i, nth_error (s_threads s') i with
                      | Some a, Some b => negb (thread_eqb a b && (s_cell s =? s_cell s'))
                      | _, _ => false end in
         match (if moved then search f P s' (clean && (s_cell s' <? TAGN)) (i :: pref) else None) with
         | Some r => Some r
         | None => try rest
         end
       end) (seq 0 (length (s_threads s)))
  end.

Definition search_from (fuel : nat) (P : programs) (c0 : N) (todos : list (list call)) : option (list nat) :=
  search fuel P (init_state c0 todos) (c0 <? TAGN) [].
