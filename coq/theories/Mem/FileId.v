(* C31 — model of the file-id allocator (crates/apollo-compiler/src/parser.rs: NEXT, FileId::new, FileId::reset).

   A shared 64-bit cell and any number of threads.  Each thread runs a list of calls (FileId::new or
   FileId::reset); the body of a call is a PROGRAM GIVEN AS DATA: a list of instructions, each one atomic
   operation on the cell followed by a thread-local continuation.  One scheduler step = one thread executes
   its next instruction (one atomic operation), so an execution is determined by a schedule : list of thread
   ids.  The program the theorems are stated about is not written here: it is Mem/FileIdProgram.v, generated on
   every run from the operations the real code performs (recorded through the cfg(apollo_rs_verif) hook).

   Definitions only (extracted).  Proofs: Mem/FileIdProofs.v. *)
From ApolloVerif Require Import Base.Chars.

Definition fi_W64 : N := 18446744073709551616.   (* 2^64 : the counter is a u64, fetch_add wraps *)
Definition fi_TAGN : N := 9223372036854775808.   (* TAG = 1 << 63 *)
Definition fi_INITIAL : N := 3.

Inductive fi_aop :=
| FiFetchAdd (d : N)        (* reg <- cell ; cell <- (cell + d) mod 2^64      NEXT.fetch_add(d) *)
| FiLoad                    (* reg <- cell                                     NEXT.load() *)
| FiStoreConst (v : N)      (* cell <- v                                       NEXT.store(v) *)
| FiStoreRegPlus (d : N).   (* cell <- (reg + d) mod 2^64                      NEXT.store(x + d), x the value last read *)

Inductive fi_cont :=
| FiKNext                    (* continue with the next instruction *)
| FiKRet                     (* return reg *)
| FiKRetIfUntagged           (* if reg & TAG == 0 { return reg } else continue with the next instruction *)
| FiKRetUnit                 (* return () *)
| FiKGoto (pc : nat).        (* loop *)

Record fi_instr := FiI { fi_op : fi_aop; fi_k : fi_cont }.
Definition fi_program := list fi_instr.

Inductive fi_call := FiCallNew | FiCallReset.
Record fi_programs := FiP { fi_p_new : fi_program; fi_p_reset : fi_program }.
Definition fi_prog_of (P : fi_programs) (c : fi_call) : fi_program :=
  match c with FiCallNew => fi_p_new P | FiCallReset => fi_p_reset P end.

(* t_ids: ids returned so far by this thread's FileId::new calls, most recent first *)
Record fi_thread := FiT { fi_t_pc : nat; fi_t_reg : N; fi_t_todo : list fi_call; fi_t_ids : list N }.
Record fi_state := FiS { fi_s_cell : N; fi_s_threads : list fi_thread }.

Definition fi_exec_op (o : fi_aop) (cell reg : N) : N * N :=
  match o with
  | FiFetchAdd d => ((cell + d) mod fi_W64, cell)
  | FiLoad => (cell, cell)
  | FiStoreConst v => (v, reg)
  | FiStoreRegPlus d => ((reg + d) mod fi_W64, reg)
  end.

Definition fi_untagged (x : N) : bool := N.land x fi_TAGN =? 0.

Definition fi_finish_call (reg : N) (t : fi_thread) (ret : option N) : fi_thread :=
  FiT 0 reg (tl (fi_t_todo t)) (match ret with Some v => v :: fi_t_ids t | None => fi_t_ids t end).

(* One instruction of thread t.  A thread with nothing to do, or whose pc is outside its program, does not
   move (a stuck thread never finishes; the generated programs end every path with a return or a goto). *)
Definition fi_step_thread (P : fi_programs) (cell : N) (t : fi_thread) : N * fi_thread :=
  match fi_t_todo t with
  | [] => (cell, t)
  | c :: _ =>
    match nth_error (fi_prog_of P c) (fi_t_pc t) with
    | None => (cell, t)
    | Some i =>
      let (cell', reg') := fi_exec_op (fi_op i) cell (fi_t_reg t) in
      (cell',
       match fi_k i with
       | FiKNext => FiT (S (fi_t_pc t)) reg' (fi_t_todo t) (fi_t_ids t)
       | FiKRet => fi_finish_call reg' t (Some reg')
       | FiKRetIfUntagged =>
           if fi_untagged reg' then fi_finish_call reg' t (Some reg')
           else FiT (S (fi_t_pc t)) reg' (fi_t_todo t) (fi_t_ids t)
       | FiKRetUnit => fi_finish_call reg' t None
       | FiKGoto pc => FiT pc reg' (fi_t_todo t) (fi_t_ids t)
       end)
    end
  end.

Fixpoint fi_upd {A} (i : nat) (x : A) (l : list A) : list A :=
  match l with
  | [] => []
  | y :: r => match i with O => x :: r | S j => y :: fi_upd j x r end
  end.

(* the scheduler picks thread i *)
Definition fi_step (P : fi_programs) (s : fi_state) (i : nat) : fi_state :=
  match nth_error (fi_s_threads s) i with
  | None => s
  | Some t => let (c', t') := fi_step_thread P (fi_s_cell s) t in FiS c' (fi_upd i t' (fi_s_threads s))
  end.

Definition fi_run (P : fi_programs) (s : fi_state) (sched : list nat) : fi_state := fold_left (fi_step P) sched s.

(* every value the counter has during the run, initial value first *)
Fixpoint fi_cells (P : fi_programs) (s : fi_state) (sched : list nat) : list N :=
  fi_s_cell s :: match sched with [] => [] | i :: r => fi_cells P (fi_step P s i) r end.

Definition fi_init_state (c0 : N) (todos : list (list fi_call)) : fi_state :=
  FiS c0 (map (fun td => FiT 0 0 td []) todos).

Definition fi_all_ids (s : fi_state) : list N := concat (map fi_t_ids (fi_s_threads s)).

Definition fi_finished (s : fi_state) : bool := forallb (fun t => match fi_t_todo t with [] => true | _ => false end) (fi_s_threads s).

(* ---- the two oracles of the property, executable (used by the schedule search and by the tie) ---- *)
Definition fi_id_ok (x : N) : bool := (fi_INITIAL <=? x) && (x <? fi_TAGN).

Fixpoint fi_nodupb (l : list N) : bool :=
  match l with [] => true | x :: r => negb (existsb (N.eqb x) r) && fi_nodupb r end.

(* ---- schedule search: depth-first over schedules of length <= fuel for the threads of s, skipping choices
   that do not move.  [clean] = the counter stayed below 2^63 so far (the hypothesis of uniqueness).
   Returns the first schedule (in order) after which an id is reserved/tagged, or two ids coincide on a clean run. *)
Definition fi_state_bad (clean : bool) (s : fi_state) : bool :=
  negb (forallb fi_id_ok (fi_all_ids s)) || (clean && negb (fi_nodupb (fi_all_ids s))).

Definition fi_thread_eqb (a b : fi_thread) : bool :=
  Nat.eqb (fi_t_pc a) (fi_t_pc b) && (fi_t_reg a =? fi_t_reg b) && Nat.eqb (length (fi_t_todo a)) (length (fi_t_todo b))
  && Nat.eqb (length (fi_t_ids a)) (length (fi_t_ids b)).

Fixpoint fi_search (fuel : nat) (P : fi_programs) (s : fi_state) (clean : bool) (pref : list nat) : option (list nat) :=
  if fi_state_bad clean s then Some (rev pref) else
  match fuel with
  | O => None
  | S f =>
    (fix try (is : list nat) : option (list nat) :=
       match is with
       | [] => None
       | i :: rest =>
         let s' := fi_step P s i in
         let moved := match nth_error (fi_s_threads s) i, nth_error (fi_s_threads s') i with
                      | Some a, Some b => negb (fi_thread_eqb a b && (fi_s_cell s =? fi_s_cell s'))
                      | _, _ => false end in
         match (if moved then fi_search f P s' (clean && (fi_s_cell s' <? fi_TAGN)) (i :: pref) else None) with
         | Some r => Some r
         | None => try rest
         end
       end) (seq 0 (length (fi_s_threads s)))
  end.

Definition fi_search_from (fuel : nat) (P : fi_programs) (c0 : N) (todos : list (list fi_call)) : option (list nat) :=
  fi_search fuel P (fi_init_state c0 todos) (c0 <? fi_TAGN) [].
