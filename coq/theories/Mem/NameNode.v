(* C30 — Name (crates/apollo-compiler/src/name.rs) and Node<T> (node.rs) as handles into the heap of Mem/Heap.v.

   A Name handle is the struct's fields: the pointer (a heap location for Arc<str>::into_raw, or a static string),
   start_offset, and tagged_file_id = TaggedFileId::pack(tag, file id) (Mem/Pack.v); the TAG BIT, not the kind of
   the pointer, decides whether the pointer is treated as an Arc (as_arc), exactly as in the code.
   A Node handle is the triomphe::Arc pointer: a heap location whose cell holds the value and Header.location.

   Variables: every thread owns 4 name variables and 3 node variables; variable i of thread t is slot 4t+i
   (3t+a for nodes) of one flat list, so an execution of several threads is a list of (thread, operation) — an
   interleaving in which every operation is one atomic step (that Arc's count updates are atomic is what makes
   this faithful; trusted).  A slot is Empty, Live, or Stale (moved-from / dropped: the bits are still there, which
   is how use-after-free and double free are expressible here).  Rust's ownership rules are the predicate
   nn_ws (well scoped): operands Live, targets not Live.

   Definitions only (extracted).  Proofs: Mem/NameNodeProofs.v. *)
From ApolloVerif Require Import Base.Chars Mem.FileId Mem.Pack Mem.Heap.

Definition nn_FILE_NONE : N := 2.          (* FileId::NONE *)
Definition nn_NAMES : nat := 4.            (* name variables per thread *)
Definition nn_NODES : nat := 3.            (* node variables per thread *)

(* the &'static str table the harness uses for Name::new_static_unchecked *)
Definition nn_statics : list str :=
  [ [81; 117; 101; 114; 121];                               (* Query *)
    [95; 95; 116; 121; 112; 101; 110; 97; 109; 101];        (* __typename *)
    [97];                                                   (* a *)
    [233; 116; 233; 95; 120] ].                             (* été_x *)

Inductive nn_ptr := NnPHeap (l : N) | NnPStatic (s : str).
Record nn_name := NnName { nn_ptr_of : nn_ptr; nn_start : N; nn_tagged : N }.

Inductive nn_slot (A : Type) := NnEmpty | NnLive (h : A) | NnStale (h : A).
Arguments NnEmpty {A}.
Arguments NnLive {A} h.
Arguments NnStale {A} h.

Record nn_state := NnState {
  nn_heap : hp_heap;
  nn_names : list (nn_slot nn_name);
  nn_nodes : list (nn_slot N);
  nn_probes : list N }.                    (* Arc<str> clones kept by the harness, one per from_arc_unchecked *)

Inductive nn_op :=
(* names; i, j: name variables of the executing thread *)
| NnNewHeap (i : nat) (s : str)                  (* Name::new_unchecked(s) *)
| NnNewStatic (i : nat) (k : nat)                (* Name::new_static_unchecked(statics[k]) *)
| NnFromArc (i : nat) (s : str)                  (* arc = Arc::from(s); probe = arc.clone(); Name::from_arc_unchecked(arc) *)
| NnClone (i j : nat)                            (* v[j] = v[i].clone() *)
| NnDrop (i : nat)                               (* drop(v[i]) *)
| NnMove (i j : nat)                             (* v[j] = v[i]  (move) *)
| NnWithLoc (i : nat) (file start : N)           (* v[i] = v[i].with_location(span) *)
| NnRead (i : nat)                               (* as_str, location, as_static_str *)
| NnToArc (i : nat)                              (* to_cloned_arc: observed, then the returned Arc is dropped *)
| NnIntoArc (i : nat)                            (* Arc::<str>::from(v[i]): observed, then dropped *)
| NnCmp (i j : nat)                              (* ==, hash equality, cmp *)
| NnCloneTo (i : nat) (t : nat) (j : nat)        (* thread t's v[j] = v[i].clone()  (handing a clone to another thread) *)
(* nodes; a, b: node variables of the executing thread; T = String *)
| NdNew (a : nat) (s : str)                      (* Node::new(s) *)
| NdNewParsed (a : nat) (s : str) (file start len : N)   (* Node::new_parsed(s, span) *)
| NdClone (a b : nat)
| NdDrop (a : nat)
| NdMove (a b : nat)
| NdRead (a : nat)                               (* deref, location *)
| NdCmp (a b : nat)                              (* ptr_eq, ==, hash equality *)
| NdGetMut (a : nat) (s : str)                   (* if let Some(m) = n[a].get_mut() then write s through m *)
| NdMakeMut (a : nat) (s : str)                  (* write s through n[a].make_mut() *)
| NdSameLoc (a b : nat) (s : str)                (* n[b] = n[a].same_location(s) *)
| NdCloneTo (a : nat) (t : nat) (b : nat).

Inductive nn_obs :=
| NnONone
| NnORead (s : str) (loc : option hp_span) (st : option str)
| NnOArc (r : option (str * N))                  (* text and Arc::strong_count of the returned Arc *)
| NnOCmp (eq heq : bool) (ord : N)               (* ord: 0 less, 1 equal, 2 greater *)
| NdORead (s : str) (loc : option hp_span)
| NdOCmp (peq eq heq : bool)
| NdOGot (b : bool).

Fixpoint nn_upd {A} (i : nat) (x : A) (l : list A) : list A :=
  match l with
  | [] => []
  | y :: r => match i with O => x :: r | S j => y :: nn_upd j x r end
  end.

Definition nn_nidx (t i : nat) : nat := (nn_NAMES * t + i)%nat.
Definition nn_didx (t a : nat) : nat := (nn_NODES * t + a)%nat.

Definition nn_init (threads : nat) : nn_state :=
  NnState hp_empty (repeat NnEmpty (nn_NAMES * threads)) (repeat NnEmpty (nn_NODES * threads)) [].

(* the handle in a slot, whatever its status: Stale slots still hold their bits *)
Definition nn_handle {A} (s : option (nn_slot A)) : hp_res A :=
  match s with
  | Some (NnLive h) => HpOk h
  | Some (NnStale h) => HpOk h
  | _ => HpPanic HpUseAfterFree
  end.

Definition nn_is_arc (n : nn_name) : bool := tfi_tag (nn_tagged n).       (* TAG_ARC = true *)

(* as_arc(): Some(location of the Arc) iff the tag bit says Arc *)
Definition nn_as_arc (n : nn_name) : hp_res (option N) :=
  if nn_is_arc n then
    match nn_ptr_of n with
    | NnPHeap l => HpOk (Some l)
    | NnPStatic _ => HpPanic HpUseAfterFree         (* Arc::from_raw on a pointer that is not an Arc *)
    end
  else HpOk None.

(* as_str(): reads through the pointer *)
Definition nn_text (h : hp_heap) (n : nn_name) : hp_res str :=
  match nn_ptr_of n with
  | NnPStatic s => HpOk s
  | NnPHeap l => match hp_get h l with HpOk c => HpOk (hp_text c) | HpPanic w => HpPanic w end
  end.

Definition nn_location (n : nn_name) (text : str) : option hp_span :=
  let f := tfi_file_id (nn_tagged n) in
  if f =? nn_FILE_NONE then None else Some (f, nn_start n, nn_start n + blen text).

Fixpoint nn_str_cmp (a b : str) : N :=
  match a, b with
  | [], [] => 1
  | [], _ :: _ => 0
  | _ :: _, [] => 2
  | x :: a', y :: b' => if x <? y then 0 else if y <? x then 2 else nn_str_cmp a' b'
  end.
Definition nn_str_eqb (a b : str) : bool := nn_str_cmp a b =? 1.

Notation "'do' x <- e ; k" := (match e with HpOk x => k | HpPanic w => HpPanic w end)
  (at level 200, x pattern, e at level 100, k at level 200, right associativity).

Definition nn_set_name (st : nn_state) (i : nat) (s : nn_slot nn_name) : nn_state :=
  NnState (nn_heap st) (nn_upd i s (nn_names st)) (nn_nodes st) (nn_probes st).
Definition nn_set_node (st : nn_state) (a : nat) (s : nn_slot N) : nn_state :=
  NnState (nn_heap st) (nn_names st) (nn_upd a s (nn_nodes st)) (nn_probes st).
Definition nn_set_heap (st : nn_state) (h : hp_heap) : nn_state :=
  NnState h (nn_names st) (nn_nodes st) (nn_probes st).

Definition nn_in_names (st : nn_state) (i : nat) : bool := Nat.ltb i (length (nn_names st)).
Definition nn_in_nodes (st : nn_state) (a : nat) : bool := Nat.ltb a (length (nn_nodes st)).

(* Clone for Name: if as_arc() { Arc::into_raw(Arc::clone(&arc)) }; Self { ..*self } *)
Definition nn_clone_name (st : nn_state) (n : nn_name) : hp_res nn_state :=
  do oa <- nn_as_arc n;
  match oa with
  | Some l => do h <- hp_incr (nn_heap st) l; HpOk (nn_set_heap st h)
  | None => HpOk st
  end.

(* Drop for Name: if as_arc() { drop(arc) } *)
Definition nn_drop_name (st : nn_state) (n : nn_name) : hp_res nn_state :=
  do oa <- nn_as_arc n;
  match oa with
  | Some l => do h <- hp_decr (nn_heap st) l; HpOk (nn_set_heap st h)
  | None => HpOk st
  end.

Definition nn_fresh_name (p : nn_ptr) (arc : bool) : nn_name := NnName p 0 (tfi_pack arc nn_FILE_NONE).

(* one operation of thread t: new state and what the operation lets the caller observe *)
Definition nn_step (st : nn_state) (t : nat) (op : nn_op) : hp_res (nn_state * nn_obs) :=
  match op with
  | NnNewHeap i s =>
      if nn_in_names st (nn_nidx t i) then
        let (h, l) := hp_alloc (nn_heap st) s None in
        HpOk (nn_set_name (nn_set_heap st h) (nn_nidx t i) (NnLive (nn_fresh_name (NnPHeap l) true)), NnONone)
      else HpPanic HpUseAfterFree
  | NnNewStatic i k =>
      if nn_in_names st (nn_nidx t i) then
        HpOk (nn_set_name st (nn_nidx t i) (NnLive (nn_fresh_name (NnPStatic (nth k nn_statics [])) false)), NnONone)
      else HpPanic HpUseAfterFree
  | NnFromArc i s =>
      if nn_in_names st (nn_nidx t i) then
        let (h, l) := hp_alloc (nn_heap st) s None in
        do h2 <- hp_incr h l;
        let st2 := NnState h2 (nn_names st) (nn_nodes st) (nn_probes st ++ [l]) in
        HpOk (nn_set_name st2 (nn_nidx t i) (NnLive (nn_fresh_name (NnPHeap l) true)), NnONone)
      else HpPanic HpUseAfterFree
  | NnClone i j =>
      do n <- nn_handle (nth_error (nn_names st) (nn_nidx t i));
      if nn_in_names st (nn_nidx t j) then
        do st2 <- nn_clone_name st n;
        HpOk (nn_set_name st2 (nn_nidx t j) (NnLive n), NnONone)
      else HpPanic HpUseAfterFree
  | NnCloneTo i t2 j =>
      do n <- nn_handle (nth_error (nn_names st) (nn_nidx t i));
      if nn_in_names st (nn_nidx t2 j) then
        do st2 <- nn_clone_name st n;
        HpOk (nn_set_name st2 (nn_nidx t2 j) (NnLive n), NnONone)
      else HpPanic HpUseAfterFree
  | NnDrop i =>
      do n <- nn_handle (nth_error (nn_names st) (nn_nidx t i));
      do st2 <- nn_drop_name st n;
      HpOk (nn_set_name st2 (nn_nidx t i) (NnStale n), NnONone)
  | NnMove i j =>
      do n <- nn_handle (nth_error (nn_names st) (nn_nidx t i));
      if nn_in_names st (nn_nidx t j) then
        HpOk (nn_set_name (nn_set_name st (nn_nidx t i) (NnStale n)) (nn_nidx t j) (NnLive n), NnONone)
      else HpPanic HpUseAfterFree
  | NnWithLoc i file start =>
      do n <- nn_handle (nth_error (nn_names st) (nn_nidx t i));
      HpOk (nn_set_name st (nn_nidx t i)
              (NnLive (NnName (nn_ptr_of n) start (tfi_pack (tfi_tag (nn_tagged n)) file))), NnONone)
  | NnRead i =>
      do n <- nn_handle (nth_error (nn_names st) (nn_nidx t i));
      do s <- nn_text (nn_heap st) n;
      HpOk (st, NnORead s (nn_location n s) (if nn_is_arc n then None else Some s))
  | NnToArc i =>
      do n <- nn_handle (nth_error (nn_names st) (nn_nidx t i));
      do oa <- nn_as_arc n;
      match oa with
      | None => HpOk (st, NnOArc None)
      | Some l =>
          do h1 <- hp_incr (nn_heap st) l;
          do c <- hp_get h1 l;
          do h2 <- hp_decr h1 l;
          HpOk (nn_set_heap st h2, NnOArc (Some (hp_text c, hp_strong c)))
      end
  | NnIntoArc i =>
      do n <- nn_handle (nth_error (nn_names st) (nn_nidx t i));
      do oa <- nn_as_arc n;
      match oa with
      | None =>
          do s <- nn_text (nn_heap st) n;
          HpOk (nn_set_name st (nn_nidx t i) (NnStale n), NnOArc (Some (s, 1)))
      | Some l =>
          do h1 <- hp_incr (nn_heap st) l;          (* to_cloned_arc *)
          do h2 <- hp_decr h1 l;                    (* the Name is dropped at the end of from() *)
          do c <- hp_get h2 l;                      (* the caller looks at the Arc it got *)
          do h3 <- hp_decr h2 l;                    (* and drops it *)
          HpOk (nn_set_name (nn_set_heap st h3) (nn_nidx t i) (NnStale n), NnOArc (Some (hp_text c, hp_strong c)))
      end
  | NnCmp i j =>
      do n <- nn_handle (nth_error (nn_names st) (nn_nidx t i));
      do m <- nn_handle (nth_error (nn_names st) (nn_nidx t j));
      do a <- nn_text (nn_heap st) n;
      do b <- nn_text (nn_heap st) m;
      HpOk (st, NnOCmp (nn_str_eqb a b) (nn_str_eqb a b) (nn_str_cmp a b))
  | NdNew a s =>
      if nn_in_nodes st (nn_didx t a) then
        let (h, l) := hp_alloc (nn_heap st) s None in
        HpOk (nn_set_node (nn_set_heap st h) (nn_didx t a) (NnLive l), NnONone)
      else HpPanic HpUseAfterFree
  | NdNewParsed a s file start len =>
      if nn_in_nodes st (nn_didx t a) then
        let (h, l) := hp_alloc (nn_heap st) s (Some (file, start, start + len)) in
        HpOk (nn_set_node (nn_set_heap st h) (nn_didx t a) (NnLive l), NnONone)
      else HpPanic HpUseAfterFree
  | NdClone a b =>
      do l <- nn_handle (nth_error (nn_nodes st) (nn_didx t a));
      if nn_in_nodes st (nn_didx t b) then
        do h <- hp_incr (nn_heap st) l;
        HpOk (nn_set_node (nn_set_heap st h) (nn_didx t b) (NnLive l), NnONone)
      else HpPanic HpUseAfterFree
  | NdCloneTo a t2 b =>
      do l <- nn_handle (nth_error (nn_nodes st) (nn_didx t a));
      if nn_in_nodes st (nn_didx t2 b) then
        do h <- hp_incr (nn_heap st) l;
        HpOk (nn_set_node (nn_set_heap st h) (nn_didx t2 b) (NnLive l), NnONone)
      else HpPanic HpUseAfterFree
  | NdDrop a =>
      do l <- nn_handle (nth_error (nn_nodes st) (nn_didx t a));
      do h <- hp_decr (nn_heap st) l;
      HpOk (nn_set_node (nn_set_heap st h) (nn_didx t a) (NnStale l), NnONone)
  | NdMove a b =>
      do l <- nn_handle (nth_error (nn_nodes st) (nn_didx t a));
      if nn_in_nodes st (nn_didx t b) then
        HpOk (nn_set_node (nn_set_node st (nn_didx t a) (NnStale l)) (nn_didx t b) (NnLive l), NnONone)
      else HpPanic HpUseAfterFree
  | NdRead a =>
      do l <- nn_handle (nth_error (nn_nodes st) (nn_didx t a));
      do c <- hp_get (nn_heap st) l;
      HpOk (st, NdORead (hp_text c) (hp_span_of c))
  | NdCmp a b =>
      do l <- nn_handle (nth_error (nn_nodes st) (nn_didx t a));
      do m <- nn_handle (nth_error (nn_nodes st) (nn_didx t b));
      do c <- hp_get (nn_heap st) l;
      do d <- hp_get (nn_heap st) m;
      HpOk (st, NdOCmp (l =? m) ((l =? m) || nn_str_eqb (hp_text c) (hp_text d)) (nn_str_eqb (hp_text c) (hp_text d)))
  | NdGetMut a s =>
      do l <- nn_handle (nth_error (nn_nodes st) (nn_didx t a));
      do c <- hp_get (nn_heap st) l;
      if hp_strong c =? 1 then
        do h <- hp_set_text (nn_heap st) l s; HpOk (nn_set_heap st h, NdOGot true)
      else HpOk (st, NdOGot false)
  | NdMakeMut a s =>
      do l <- nn_handle (nth_error (nn_nodes st) (nn_didx t a));
      do c <- hp_get (nn_heap st) l;
      if hp_strong c =? 1 then
        do h <- hp_set_text (nn_heap st) l s; HpOk (nn_set_heap st h, NnONone)
      else
        (* not unique: triomphe's make_mut replaces the handle by Arc::new of a clone (value and header); the old handle is dropped *)
        let (h1, l2) := hp_alloc (nn_heap st) (hp_text c) (hp_span_of c) in
        do h2 <- hp_decr h1 l;
        do h3 <- hp_set_text h2 l2 s;
        HpOk (nn_set_node (nn_set_heap st h3) (nn_didx t a) (NnLive l2), NnONone)
  | NdSameLoc a b s =>
      do l <- nn_handle (nth_error (nn_nodes st) (nn_didx t a));
      if nn_in_nodes st (nn_didx t b) then
        do c <- hp_get (nn_heap st) l;
        let (h, l2) := hp_alloc (nn_heap st) s (hp_span_of c) in
        HpOk (nn_set_node (nn_set_heap st h) (nn_didx t b) (NnLive l2), NnONone)
      else HpPanic HpUseAfterFree
  end.

(* a history: (thread, operation) pairs in execution order; observations are returned oldest first *)
Fixpoint nn_run (st : nn_state) (h : list (nat * nn_op)) : hp_res (nn_state * list nn_obs) :=
  match h with
  | [] => HpOk (st, [])
  | (t, op) :: r =>
      do so <- nn_step st t op;
      do sr <- nn_run (fst so) r;
      HpOk (fst sr, snd so :: snd sr)
  end.

(* end of scope: every Live variable is dropped, then the harness drops its probes *)
Fixpoint nn_drop_names (st : nn_state) (i : nat) (l : list (nn_slot nn_name)) : hp_res nn_state :=
  match l with
  | [] => HpOk st
  | NnLive n :: r => do st2 <- nn_drop_name st n; nn_drop_names (nn_set_name st2 i (NnStale n)) (S i) r
  | _ :: r => nn_drop_names st (S i) r
  end.
Fixpoint nn_drop_nodes (st : nn_state) (a : nat) (l : list (nn_slot N)) : hp_res nn_state :=
  match l with
  | [] => HpOk st
  | NnLive x :: r =>
      do h <- hp_decr (nn_heap st) x; nn_drop_nodes (nn_set_node (nn_set_heap st h) a (NnStale x)) (S a) r
  | _ :: r => nn_drop_nodes st (S a) r
  end.
Fixpoint nn_drop_probes (st : nn_state) (l : list N) : hp_res nn_state :=
  match l with
  | [] => HpOk (NnState (nn_heap st) (nn_names st) (nn_nodes st) [])
  | x :: r => do h <- hp_decr (nn_heap st) x; nn_drop_probes (nn_set_heap st h) r
  end.
Definition nn_drop_all (st : nn_state) : hp_res nn_state :=
  do s1 <- nn_drop_names st 0 (nn_names st);
  do s2 <- nn_drop_nodes s1 0 (nn_nodes s1);
  nn_drop_probes s2 (nn_probes s2).

(* ---- ownership discipline: which variables are Live, tracked abstractly (what rustc's borrow checker does) ---- *)
Definition nn_livb (l : list bool) (i : nat) : bool := nth i l false.
Definition nn_deadb (l : list bool) (i : nat) : bool := Nat.ltb i (length l) && negb (nth i l false).

Definition nn_file_ok (f : N) : bool := (0 <? f) && (f <? fi_TAGN).

(* Some (names liveness, nodes liveness) after the operation, None if the operation is not allowed *)
Definition nn_ws_step (ln ld : list bool) (t : nat) (op : nn_op) : option (list bool * list bool) :=
  let ni := nn_nidx t in let di := nn_didx t in
  match op with
  | NnNewHeap i _ | NnNewStatic i _ | NnFromArc i _ =>
      if nn_deadb ln (ni i) then Some (nn_upd (ni i) true ln, ld) else None
  | NnClone i j => if nn_livb ln (ni i) && nn_deadb ln (ni j) then Some (nn_upd (ni j) true ln, ld) else None
  | NnCloneTo i t2 j =>
      if nn_livb ln (ni i) && nn_deadb ln (nn_nidx t2 j) then Some (nn_upd (nn_nidx t2 j) true ln, ld) else None
  | NnDrop i | NnIntoArc i => if nn_livb ln (ni i) then Some (nn_upd (ni i) false ln, ld) else None
  | NnMove i j =>
      if nn_livb ln (ni i) && nn_deadb ln (ni j) then Some (nn_upd (ni j) true (nn_upd (ni i) false ln), ld) else None
  | NnWithLoc i f _ => if nn_livb ln (ni i) && nn_file_ok f then Some (ln, ld) else None
  | NnRead i | NnToArc i => if nn_livb ln (ni i) then Some (ln, ld) else None
  | NnCmp i j => if nn_livb ln (ni i) && nn_livb ln (ni j) then Some (ln, ld) else None
  | NdNew a _ | NdNewParsed a _ _ _ _ => if nn_deadb ld (di a) then Some (ln, nn_upd (di a) true ld) else None
  | NdClone a b | NdSameLoc a b _ =>
      if nn_livb ld (di a) && nn_deadb ld (di b) then Some (ln, nn_upd (di b) true ld) else None
  | NdCloneTo a t2 b =>
      if nn_livb ld (di a) && nn_deadb ld (nn_didx t2 b) then Some (ln, nn_upd (nn_didx t2 b) true ld) else None
  | NdDrop a => if nn_livb ld (di a) then Some (ln, nn_upd (di a) false ld) else None
  | NdMove a b =>
      if nn_livb ld (di a) && nn_deadb ld (di b) then Some (ln, nn_upd (di b) true (nn_upd (di a) false ld)) else None
  | NdRead a | NdGetMut a _ | NdMakeMut a _ => if nn_livb ld (di a) then Some (ln, ld) else None
  | NdCmp a b => if nn_livb ld (di a) && nn_livb ld (di b) then Some (ln, ld) else None
  end.

Fixpoint nn_ws (ln ld : list bool) (h : list (nat * nn_op)) : bool :=
  match h with
  | [] => true
  | (t, op) :: r => match nn_ws_step ln ld t op with Some (ln2, ld2) => nn_ws ln2 ld2 r | None => false end
  end.

Definition nn_well_scoped (threads : nat) (h : list (nat * nn_op)) : bool :=
  nn_ws (repeat false (nn_NAMES * threads)) (repeat false (nn_NODES * threads)) h.
