(* C30 — proofs over Mem/NameNode.v: for well-scoped histories (any number of threads, any interleaving) no step
   panics, every allocation's strong count equals the number of live handles to it, nothing leaks, and every
   operation leaves what every other live variable reads unchanged. *)
From ApolloVerif Require Import Base.Chars Mem.FileId Mem.BitsProofs Mem.Pack Mem.PackProofs Mem.Heap Mem.HeapProofs
  Mem.NameNode.
From Coq Require Import Arith PeanoNat ZifyBool ZifyN ZifyNat.

(* ------------------------------------------------------------------ lists *)
Fixpoint nn_wsum {A} (w : A -> N) (l : list A) : N :=
  match l with [] => 0 | x :: r => w x + nn_wsum w r end.

Lemma nn_wsum_upd {A} (w : A -> N) i t t' l :
  nth_error l i = Some t -> nn_wsum w (nn_upd i t' l) + w t = nn_wsum w l + w t'.
Proof.
  revert i; induction l as [|y r IH]; intros [|i] E; cbn in E; try discriminate.
  - injection E as ->. cbn [nn_upd nn_wsum]. lia.
  - cbn [nn_upd nn_wsum]. specialize (IH i E). lia.
Qed.

Lemma nn_wsum_app {A} (w : A -> N) a b : nn_wsum w (a ++ b) = nn_wsum w a + nn_wsum w b.
Proof. induction a as [|x r IH]; cbn [app nn_wsum]; lia. Qed.

Lemma nn_wsum_ge {A} (w : A -> N) l i x : nth_error l i = Some x -> w x <= nn_wsum w l.
Proof.
  revert i; induction l as [|y r IH]; intros [|i] E; cbn in E; try discriminate.
  - injection E as ->. cbn [nn_wsum]. lia.
  - cbn [nn_wsum]. specialize (IH i E). lia.
Qed.

Lemma nn_wsum_ge2 {A} (w : A -> N) l i k x y :
  i <> k -> nth_error l i = Some x -> nth_error l k = Some y -> w x + w y <= nn_wsum w l.
Proof.
  revert i k; induction l as [|z r IH]; intros [|i] [|k] Hne E1 E2; cbn in E1, E2; try discriminate; try congruence.
  - injection E1 as ->. cbn [nn_wsum]. pose proof (nn_wsum_ge w r k y E2). lia.
  - injection E2 as ->. cbn [nn_wsum]. pose proof (nn_wsum_ge w r i x E1). lia.
  - cbn [nn_wsum]. assert (i <> k) by congruence. specialize (IH i k H E1 E2). lia.
Qed.

Lemma nn_wsum_zero {A} (w : A -> N) l : (forall x, In x l -> w x = 0) -> nn_wsum w l = 0.
Proof.
  induction l as [|x r IH]; intro H; cbn [nn_wsum]; [reflexivity|].
  rewrite (H x (or_introl eq_refl)), IH; [reflexivity|]. intros y Hy. apply H. right. exact Hy.
Qed.

Lemma nn_upd_length {A} i (x : A) l : length (nn_upd i x l) = length l.
Proof. revert i; induction l as [|y r IH]; intros [|i]; cbn; auto. Qed.

Lemma nn_upd_Forall {A} (Q : A -> Prop) i x l : Forall Q l -> Q x -> Forall Q (nn_upd i x l).
Proof. intros H Hx. revert i; induction H; intros [|i]; cbn; constructor; auto. Qed.

Lemma nn_nth_Forall {A} (Q : A -> Prop) l i x : Forall Q l -> nth_error l i = Some x -> Q x.
Proof.
  intros H. revert i; induction H as [|y r Hy Hr IH]; intros [|i] E; cbn in E; try discriminate.
  - injection E as <-. exact Hy.
  - eauto.
Qed.

Lemma nn_upd_same {A} i (x : A) l : (i < length l)%nat -> nth_error (nn_upd i x l) i = Some x.
Proof. revert i; induction l as [|y r IH]; intros [|i] H; cbn in *; try lia; auto. apply IH. lia. Qed.

Lemma nn_upd_other {A} i k (x : A) l : i <> k -> nth_error (nn_upd i x l) k = nth_error l k.
Proof. revert i k; induction l as [|y r IH]; intros [|i] [|k] H; cbn; try congruence; auto. Qed.

Lemma nn_map_upd {A B} (f : A -> B) i x l : map f (nn_upd i x l) = nn_upd i (f x) (map f l).
Proof. revert i; induction l as [|y r IH]; intros [|i]; cbn; try rewrite IH; reflexivity. Qed.

Lemma nn_nth_lt {A} (l : list A) i x : nth_error l i = Some x -> (i < length l)%nat.
Proof. intro H. apply nth_error_Some. congruence. Qed.

(* ------------------------------------------------------------------ liveness *)
Definition nn_is_live {A} (s : nn_slot A) : bool := match s with NnLive _ => true | _ => false end.

Definition nn_agree (ln ld : list bool) (st : nn_state) : Prop :=
  ln = map nn_is_live (nn_names st) /\ ld = map nn_is_live (nn_nodes st).

Lemma nn_livb_get {A} (l : list (nn_slot A)) i :
  nn_livb (map nn_is_live l) i = true -> exists h, nth_error l i = Some (NnLive h).
Proof.
  unfold nn_livb. revert i; induction l as [|s r IH]; intros [|i] H; cbn in H; try discriminate.
  - destruct s; try discriminate. eexists; reflexivity.
  - apply IH. exact H.
Qed.

Lemma nn_deadb_get {A} (l : list (nn_slot A)) i :
  nn_deadb (map nn_is_live l) i = true -> exists s, nth_error l i = Some s /\ nn_is_live s = false.
Proof.
  unfold nn_deadb. rewrite map_length. intro H. apply andb_prop in H as [H1 H2].
  apply Nat.ltb_lt in H1. revert i H1 H2; induction l as [|s r IH]; intros [|i] H1 H2; cbn in *; try lia.
  - exists s. split; [reflexivity|]. destruct (nn_is_live s); [discriminate|reflexivity].
  - apply IH; [lia|exact H2].
Qed.

(* ------------------------------------------------------------------ reference counting invariant *)
Definition nn_wname (l : N) (s : nn_slot nn_name) : N :=
  match s with
  | NnLive n => match nn_ptr_of n with NnPHeap l' => hp_ind l' l | NnPStatic _ => 0 end
  | _ => 0
  end.
Definition nn_wnode (l : N) (s : nn_slot N) : N :=
  match s with NnLive l' => hp_ind l' l | _ => 0 end.
Definition nn_wprobe (l : N) (p : N) : N := hp_ind p l.

(* the number of live handles to location l: name variables, node variables and the harness's probes *)
Definition nn_refs (st : nn_state) (l : N) : N :=
  nn_wsum (nn_wname l) (nn_names st) + nn_wsum (nn_wnode l) (nn_nodes st) + nn_wsum (nn_wprobe l) (nn_probes st).

Definition nn_ptr_is_heap (p : nn_ptr) : bool := match p with NnPHeap _ => true | NnPStatic _ => false end.

(* the tag bit agrees with the kind of pointer, and the file id is a real FileId *)
Definition nn_name_ok (n : nn_name) : Prop :=
  exists f, 0 < f /\ f < fi_TAGN /\ nn_tagged n = tfi_pack (nn_ptr_is_heap (nn_ptr_of n)) f.

Definition nn_slot_ok (s : nn_slot nn_name) : Prop := match s with NnLive n => nn_name_ok n | _ => True end.

Record nn_inv (st : nn_state) : Prop := {
  ni_wf : hp_wf (nn_heap st);
  ni_bal : forall l, hp_strong_of (nn_heap st) l = nn_refs st l;
  ni_names : Forall nn_slot_ok (nn_names st) }.

Lemma nn_dead_wname {l} s : nn_is_live s = false -> nn_wname l s = 0.
Proof. destruct s; cbn; congruence. Qed.
Lemma nn_dead_wnode {l} (s : nn_slot N) : nn_is_live s = false -> nn_wnode l s = 0.
Proof. destruct s; cbn; congruence. Qed.

Lemma nn_name_ok_tag n : nn_name_ok n -> tfi_tag (nn_tagged n) = nn_ptr_is_heap (nn_ptr_of n).
Proof. intros (f & H0 & H1 & ->). apply (pack_roundtrip f _ H0 H1). Qed.

Lemma nn_name_ok_file n : nn_name_ok n -> 0 < tfi_file_id (nn_tagged n) /\ tfi_file_id (nn_tagged n) < fi_TAGN.
Proof. intros (f & H0 & H1 & ->). destruct (pack_roundtrip f (nn_ptr_is_heap (nn_ptr_of n)) H0 H1) as [-> _]. auto. Qed.

Lemma nn_as_arc_ok n : nn_name_ok n ->
  nn_as_arc n = HpOk (match nn_ptr_of n with NnPHeap l => Some l | NnPStatic _ => None end).
Proof.
  intro H. unfold nn_as_arc, nn_is_arc. rewrite (nn_name_ok_tag n H). destruct (nn_ptr_of n); reflexivity.
Qed.

Lemma nn_fresh_ok p : nn_name_ok (nn_fresh_name p (nn_ptr_is_heap p)).
Proof. exists nn_FILE_NONE. unfold nn_FILE_NONE, fi_TAGN. cbn [nn_fresh_name nn_tagged nn_ptr_of]. repeat split; lia. Qed.

Lemma nn_with_loc_ok n f start : nn_name_ok n -> nn_file_ok f = true ->
  nn_name_ok (NnName (nn_ptr_of n) start (tfi_pack (tfi_tag (nn_tagged n)) f)).
Proof.
  intros H Hf. unfold nn_file_ok in Hf. exists f. cbn [nn_tagged nn_ptr_of].
  rewrite (nn_name_ok_tag n H). repeat split; lia.
Qed.

(* a live handle keeps its allocation alive *)
Lemma nn_live_name_strong st i n l :
  nn_inv st -> nth_error (nn_names st) i = Some (NnLive n) -> nn_ptr_of n = NnPHeap l ->
  1 <= hp_strong_of (nn_heap st) l.
Proof.
  intros I E P. rewrite (ni_bal st I). unfold nn_refs.
  pose proof (nn_wsum_ge (nn_wname l) _ _ _ E) as G. cbn [nn_wname] in G. rewrite P in G.
  unfold hp_ind in G. rewrite N.eqb_refl in G. lia.
Qed.

Lemma nn_live_node_strong st a l :
  nn_inv st -> nth_error (nn_nodes st) a = Some (NnLive l) -> 1 <= hp_strong_of (nn_heap st) l.
Proof.
  intros I E. rewrite (ni_bal st I). unfold nn_refs.
  pose proof (nn_wsum_ge (nn_wnode l) _ _ _ E) as G. cbn [nn_wnode] in G.
  unfold hp_ind in G. rewrite N.eqb_refl in G. lia.
Qed.

Lemma nn_text_ok st i n : nn_inv st -> nth_error (nn_names st) i = Some (NnLive n) ->
  exists s, nn_text (nn_heap st) n = HpOk s.
Proof.
  intros I E. unfold nn_text. destruct (nn_ptr_of n) as [l|s] eqn:P; [|eauto].
  destruct (hp_get_ok _ l (nn_live_name_strong st i n l I E P)) as (c & -> & _). eauto.
Qed.

(* effect of the state setters on the number of references *)
Lemma nn_refs_set_name st i old new l :
  nth_error (nn_names st) i = Some old ->
  nn_refs (nn_set_name st i new) l + nn_wname l old = nn_refs st l + nn_wname l new.
Proof.
  intro E. unfold nn_refs, nn_set_name. cbn [nn_names nn_nodes nn_probes].
  pose proof (nn_wsum_upd (nn_wname l) i old new _ E). lia.
Qed.

Lemma nn_refs_set_node st a old new l :
  nth_error (nn_nodes st) a = Some old ->
  nn_refs (nn_set_node st a new) l + nn_wnode l old = nn_refs st l + nn_wnode l new.
Proof.
  intro E. unfold nn_refs, nn_set_node. cbn [nn_names nn_nodes nn_probes].
  pose proof (nn_wsum_upd (nn_wnode l) a old new _ E). lia.
Qed.

Lemma nn_refs_set_heap st h l : nn_refs (nn_set_heap st h) l = nn_refs st l.
Proof. reflexivity. Qed.

Lemma nn_in_names_lt st i s : nth_error (nn_names st) i = Some s -> nn_in_names st i = true.
Proof. intro E. unfold nn_in_names. apply Nat.ltb_lt. exact (nn_nth_lt _ _ _ E). Qed.
Lemma nn_in_nodes_lt st a s : nth_error (nn_nodes st) a = Some s -> nn_in_nodes st a = true.
Proof. intro E. unfold nn_in_nodes. apply Nat.ltb_lt. exact (nn_nth_lt _ _ _ E). Qed.
