(* C30 — proofs over Mem/NameNode.v: for well-scoped histories (any number of threads, any interleaving) no step
   panics, every allocation's strong count equals the number of live handles to it, nothing leaks, and every
   operation leaves what every other live variable reads unchanged. *)
From ApolloVerif Require Import Base.Chars Mem.FileId Mem.BitsProofs Mem.Pack Mem.PackProofs Mem.Heap Mem.HeapProofs
  Mem.NameNode.
From Coq Require Import Arith PeanoNat ZifyBool ZifyN ZifyNat.

(* ------------------------------------------------------------------ lists *)
Fixpoint nn_wsum {A} (w : A -> N) (l : list A) : N :=
  match l with [] => 0 | x :: r => w x + nn_wsum w r end.

Lemma nn_wsum_upd {A} (w : A -> N) i t t' l :
  nth_error l i = Some t -> nn_wsum w (nn_upd i t' l) + w t = nn_wsum w l + w t'.
Proof.
  revert i; induction l as [|y r IH]; intros [|i] E; cbn in E; try discriminate.
  - injection E as ->. cbn [nn_upd nn_wsum]. lia.
  - cbn [nn_upd nn_wsum]. specialize (IH i E). lia.
Qed.

Lemma nn_wsum_app {A} (w : A -> N) a b : nn_wsum w (a ++ b) = nn_wsum w a + nn_wsum w b.
Proof. induction a as [|x r IH]; cbn [app nn_wsum]; lia. Qed.

Lemma nn_wsum_ge {A} (w : A -> N) l i x : nth_error l i = Some x -> w x <= nn_wsum w l.
Proof.
  revert i; induction l as [|y r IH]; intros [|i] E; cbn in E; try discriminate.
  - injection E as ->. cbn [nn_wsum]. lia.
  - cbn [nn_wsum]. specialize (IH i E). lia.
Qed.

Lemma nn_wsum_ge2 {A} (w : A -> N) l i k x y :
  i <> k -> nth_error l i = Some x -> nth_error l k = Some y -> w x + w y <= nn_wsum w l.
Proof.
  revert i k; induction l as [|z r IH]; intros [|i] [|k] Hne E1 E2; cbn in E1, E2; try discriminate; try congruence.
  - injection E1 as ->. cbn [nn_wsum]. pose proof (nn_wsum_ge w r k y E2). lia.
  - injection E2 as ->. cbn [nn_wsum]. pose proof (nn_wsum_ge w r i x E1). lia.
  - cbn [nn_wsum]. assert (i <> k) by congruence. specialize (IH i k H E1 E2). lia.
Qed.

Lemma nn_wsum_zero {A} (w : A -> N) l : (forall x, In x l -> w x = 0) -> nn_wsum w l = 0.
Proof.
  induction l as [|x r IH]; intro H; cbn [nn_wsum]; [reflexivity|].
  rewrite (H x (or_introl eq_refl)), IH; [reflexivity|]. intros y Hy. apply H. right. exact Hy.
Qed.

Lemma nn_upd_length {A} i (x : A) l : length (nn_upd i x l) = length l.
Proof. revert i; induction l as [|y r IH]; intros [|i]; cbn; auto. Qed.

Lemma nn_upd_Forall {A} (Q : A -> Prop) i x l : Forall Q l -> Q x -> Forall Q (nn_upd i x l).
Proof. intros H Hx. revert i; induction H; intros [|i]; cbn; constructor; auto. Qed.

Lemma nn_nth_Forall {A} (Q : A -> Prop) l i x : Forall Q l -> nth_error l i = Some x -> Q x.
Proof.
  intros H. revert i; induction H as [|y r Hy Hr IH]; intros [|i] E; cbn in E; try discriminate.
  - injection E as <-. exact Hy.
  - eauto.
Qed.

Lemma nn_upd_same {A} i (x : A) l : (i < length l)%nat -> nth_error (nn_upd i x l) i = Some x.
Proof. revert i; induction l as [|y r IH]; intros [|i] H; cbn in *; try lia; auto. apply IH. lia. Qed.

Lemma nn_upd_other {A} i k (x : A) l : i <> k -> nth_error (nn_upd i x l) k = nth_error l k.
Proof. revert i k; induction l as [|y r IH]; intros [|i] [|k] H; cbn; try congruence; auto. Qed.

Lemma nn_map_upd {A B} (f : A -> B) i x l : map f (nn_upd i x l) = nn_upd i (f x) (map f l).
Proof. revert i; induction l as [|y r IH]; intros [|i]; cbn; try rewrite IH; reflexivity. Qed.

Lemma nn_nth_lt {A} (l : list A) i x : nth_error l i = Some x -> (i < length l)%nat.
Proof. intro H. apply nth_error_Some. congruence. Qed.

(* ------------------------------------------------------------------ liveness *)
Definition nn_is_live {A} (s : nn_slot A) : bool := match s with NnLive _ => true | _ => false end.

Definition nn_agree (ln ld : list bool) (st : nn_state) : Prop :=
  ln = map nn_is_live (nn_names st) /\ ld = map nn_is_live (nn_nodes st).

Lemma nn_livb_get {A} (l : list (nn_slot A)) i :
  nn_livb (map nn_is_live l) i = true -> exists h, nth_error l i = Some (NnLive h).
Proof.
  unfold nn_livb. revert i; induction l as [|s r IH]; intros [|i] H; cbn in H; try discriminate.
  - destruct s; try discriminate. eexists; reflexivity.
  - apply IH. exact H.
Qed.

Lemma nn_deadb_get {A} (l : list (nn_slot A)) i :
  nn_deadb (map nn_is_live l) i = true -> exists s, nth_error l i = Some s /\ nn_is_live s = false.
Proof.
  unfold nn_deadb. rewrite map_length. intro H. apply andb_prop in H as [H1 H2].
  apply Nat.ltb_lt in H1. revert i H1 H2; induction l as [|s r IH]; intros [|i] H1 H2; cbn in *; try lia.
  - exists s. split; [reflexivity|]. destruct (nn_is_live s); [discriminate|reflexivity].
  - apply IH; [lia|exact H2].
Qed.

(* ------------------------------------------------------------------ reference counting invariant *)
Definition nn_wname (l : N) (s : nn_slot nn_name) : N :=
  match s with
  | NnLive n => match nn_ptr_of n with NnPHeap l' => hp_ind l' l | NnPStatic _ => 0 end
  | _ => 0
  end.
Definition nn_wnode (l : N) (s : nn_slot N) : N :=
  match s with NnLive l' => hp_ind l' l | _ => 0 end.
Definition nn_wprobe (l : N) (p : N) : N := hp_ind p l.

(* the number of live handles to location l: name variables, node variables and the harness's probes *)
Definition nn_refs (st : nn_state) (l : N) : N :=
  nn_wsum (nn_wname l) (nn_names st) + nn_wsum (nn_wnode l) (nn_nodes st) + nn_wsum (nn_wprobe l) (nn_probes st).

Definition nn_ptr_is_heap (p : nn_ptr) : bool := match p with NnPHeap _ => true | NnPStatic _ => false end.

(* the tag bit agrees with the kind of pointer, and the file id is a real FileId *)
Definition nn_name_ok (n : nn_name) : Prop :=
  exists f, 0 < f /\ f < fi_TAGN /\ nn_tagged n = tfi_pack (nn_ptr_is_heap (nn_ptr_of n)) f.

Definition nn_slot_ok (s : nn_slot nn_name) : Prop := match s with NnLive n => nn_name_ok n | _ => True end.

Record nn_inv (st : nn_state) : Prop := {
  ni_wf : hp_wf (nn_heap st);
  ni_bal : forall l, hp_strong_of (nn_heap st) l = nn_refs st l;
  ni_names : Forall nn_slot_ok (nn_names st) }.

Lemma nn_dead_wname {l} s : nn_is_live s = false -> nn_wname l s = 0.
Proof. destruct s; cbn; congruence. Qed.
Lemma nn_dead_wnode {l} (s : nn_slot N) : nn_is_live s = false -> nn_wnode l s = 0.
Proof. destruct s; cbn; congruence. Qed.

Lemma nn_name_ok_tag n : nn_name_ok n -> tfi_tag (nn_tagged n) = nn_ptr_is_heap (nn_ptr_of n).
Proof. intros (f & H0 & H1 & ->). apply (pack_roundtrip f _ H0 H1). Qed.

Lemma nn_name_ok_file n : nn_name_ok n -> 0 < tfi_file_id (nn_tagged n) /\ tfi_file_id (nn_tagged n) < fi_TAGN.
Proof. intros (f & H0 & H1 & ->). destruct (pack_roundtrip f (nn_ptr_is_heap (nn_ptr_of n)) H0 H1) as [-> _]. auto. Qed.

Lemma nn_as_arc_ok n : nn_name_ok n ->
  nn_as_arc n = HpOk (match nn_ptr_of n with NnPHeap l => Some l | NnPStatic _ => None end).
Proof.
  intro H. unfold nn_as_arc, nn_is_arc. rewrite (nn_name_ok_tag n H). destruct (nn_ptr_of n); reflexivity.
Qed.

Lemma nn_fresh_ok p : nn_name_ok (nn_fresh_name p (nn_ptr_is_heap p)).
Proof. exists nn_FILE_NONE. unfold nn_FILE_NONE, fi_TAGN. cbn [nn_fresh_name nn_tagged nn_ptr_of]. repeat split; lia. Qed.

Lemma nn_with_loc_ok n f start : nn_name_ok n -> nn_file_ok f = true ->
  nn_name_ok (NnName (nn_ptr_of n) start (tfi_pack (tfi_tag (nn_tagged n)) f)).
Proof.
  intros H Hf. unfold nn_file_ok in Hf. exists f. cbn [nn_tagged nn_ptr_of].
  rewrite (nn_name_ok_tag n H). repeat split; lia.
Qed.

(* a live handle keeps its allocation alive *)
Lemma nn_live_name_strong st i n l :
  nn_inv st -> nth_error (nn_names st) i = Some (NnLive n) -> nn_ptr_of n = NnPHeap l ->
  1 <= hp_strong_of (nn_heap st) l.
Proof.
  intros I E P. rewrite (ni_bal st I). unfold nn_refs.
  pose proof (nn_wsum_ge (nn_wname l) _ _ _ E) as G. cbn [nn_wname] in G. rewrite P in G.
  unfold hp_ind in G. rewrite N.eqb_refl in G. lia.
Qed.

Lemma nn_live_node_strong st a l :
  nn_inv st -> nth_error (nn_nodes st) a = Some (NnLive l) -> 1 <= hp_strong_of (nn_heap st) l.
Proof.
  intros I E. rewrite (ni_bal st I). unfold nn_refs.
  pose proof (nn_wsum_ge (nn_wnode l) _ _ _ E) as G. cbn [nn_wnode] in G.
  unfold hp_ind in G. rewrite N.eqb_refl in G. lia.
Qed.

Lemma nn_text_ok st i n : nn_inv st -> nth_error (nn_names st) i = Some (NnLive n) ->
  exists s, nn_text (nn_heap st) n = HpOk s.
Proof.
  intros I E. unfold nn_text. destruct (nn_ptr_of n) as [l|s] eqn:P; [|eauto].
  destruct (hp_get_ok _ l (nn_live_name_strong st i n l I E P)) as (c & -> & _). eauto.
Qed.

(* effect of the state setters on the number of references *)
Lemma nn_refs_set_name st i old new l :
  nth_error (nn_names st) i = Some old ->
  nn_refs (nn_set_name st i new) l + nn_wname l old = nn_refs st l + nn_wname l new.
Proof.
  intro E. unfold nn_refs, nn_set_name. cbn [nn_names nn_nodes nn_probes].
  pose proof (nn_wsum_upd (nn_wname l) i old new _ E). lia.
Qed.

Lemma nn_refs_set_node st a old new l :
  nth_error (nn_nodes st) a = Some old ->
  nn_refs (nn_set_node st a new) l + nn_wnode l old = nn_refs st l + nn_wnode l new.
Proof.
  intro E. unfold nn_refs, nn_set_node. cbn [nn_names nn_nodes nn_probes].
  pose proof (nn_wsum_upd (nn_wnode l) a old new _ E). lia.
Qed.

Lemma nn_refs_set_heap st h l : nn_refs (nn_set_heap st h) l = nn_refs st l.
Proof. reflexivity. Qed.

Lemma nn_in_names_lt st i s : nth_error (nn_names st) i = Some s -> nn_in_names st i = true.
Proof. intro E. unfold nn_in_names. apply Nat.ltb_lt. exact (nn_nth_lt _ _ _ E). Qed.
Lemma nn_in_nodes_lt st a s : nth_error (nn_nodes st) a = Some s -> nn_in_nodes st a = true.
Proof. intro E. unfold nn_in_nodes. apply Nat.ltb_lt. exact (nn_nth_lt _ _ _ E). Qed.

(* ------------------------------------------------------------------ one step *)
Definition nn_wr_names (t : nat) (op : nn_op) : list nat :=
  match op with
  | NnNewHeap i _ | NnNewStatic i _ | NnFromArc i _ | NnDrop i | NnWithLoc i _ _ | NnIntoArc i => [nn_nidx t i]
  | NnClone _ j => [nn_nidx t j]
  | NnCloneTo _ t2 j => [nn_nidx t2 j]
  | NnMove i j => [nn_nidx t i; nn_nidx t j]
  | _ => []
  end.

Definition nn_wr_nodes (t : nat) (op : nn_op) : list nat :=
  match op with
  | NdNew a _ | NdNewParsed a _ _ _ _ | NdDrop a | NdGetMut a _ | NdMakeMut a _ => [nn_didx t a]
  | NdClone _ b | NdSameLoc _ b _ => [nn_didx t b]
  | NdCloneTo _ t2 b => [nn_didx t2 b]
  | NdMove a b => [nn_didx t a; nn_didx t b]
  | _ => []
  end.

(* locations whose contents an operation may overwrite: only through get_mut / make_mut, and then only a
   location that the handle references uniquely, or a freshly allocated one *)
Definition nn_written (st : nn_state) (t : nat) (op : nn_op) (l : N) : Prop :=
  match op with
  | NdGetMut a _ | NdMakeMut a _ =>
      (nth_error (nn_nodes st) (nn_didx t a) = Some (NnLive l) /\ hp_strong_of (nn_heap st) l = 1)
      \/ hp_next (nn_heap st) <= l
  | _ => False
  end.

Definition nn_post (st : nn_state) (t : nat) (op : nn_op) (st' : nn_state) : Prop :=
  nn_inv st' /\
  (forall k, ~ In k (nn_wr_names t op) -> nth_error (nn_names st') k = nth_error (nn_names st) k) /\
  (forall a, ~ In a (nn_wr_nodes t op) -> nth_error (nn_nodes st') a = nth_error (nn_nodes st) a) /\
  hp_pres (nn_written st t op) (nn_heap st) (nn_heap st').

Ltac fin_bal :=
  unfold nn_wname, nn_wnode, nn_wprobe, hp_ind in *;
  cbn [nn_ptr_of nn_fresh_name nn_tagged nn_start nn_wsum] in *;
  repeat (match goal with
          | H : context [N.eqb ?a ?b] |- _ => destruct (N.eqb_spec a b)
          | |- context [N.eqb ?a ?b] => destruct (N.eqb_spec a b)
          end);
  subst; lia.

(* cloning the handle n (live in slot i) into the dead slot k *)
Lemma nn_clone_into st i n k s0 :
  nn_inv st -> nth_error (nn_names st) i = Some (NnLive n) ->
  nth_error (nn_names st) k = Some s0 -> nn_is_live s0 = false ->
  exists st2, nn_clone_name st n = HpOk st2 /\ nn_names st2 = nn_names st /\ nn_nodes st2 = nn_nodes st /\
    nn_inv (nn_set_name st2 k (NnLive n)) /\ hp_pres (fun _ => False) (nn_heap st) (nn_heap st2).
Proof.
  intros I E E0 Hd. pose proof (nn_nth_Forall _ _ _ _ (ni_names st I) E) as Hok. cbn [nn_slot_ok] in Hok.
  unfold nn_clone_name. rewrite (nn_as_arc_ok n Hok).
  destruct (nn_ptr_of n) as [l|sx] eqn:P.
  - pose proof (nn_live_name_strong st i n l I E P) as S.
    destruct (hp_incr_ok _ l (ni_wf st I) S) as (h2 & E2 & W2 & Hs & Hv & Hn). rewrite E2.
    eexists. split; [reflexivity|]. split; [reflexivity|]. split; [reflexivity|]. split.
    + constructor.
      * exact W2.
      * intro l'.
        pose proof (nn_refs_set_name (nn_set_heap st h2) k s0 (NnLive n) l' E0) as R.
        rewrite nn_refs_set_heap in R. specialize (Hs l'). pose proof (ni_bal st I l') as B.
        pose proof (@nn_dead_wname l' s0 Hd) as Z. cbn [nn_set_name nn_set_heap nn_heap nn_names nn_nodes nn_probes] in *.
        unfold nn_wname at 2 in R. rewrite P in R. fin_bal.
      * cbn [nn_set_name nn_set_heap nn_names]. apply nn_upd_Forall; [exact (ni_names st I)|exact Hok].
    + eapply hp_pres_incr; [exact (ni_wf st I)|exact S|exact E2].
  - eexists. split; [reflexivity|]. split; [reflexivity|]. split; [reflexivity|]. split.
    + constructor.
      * exact (ni_wf st I).
      * intro l'. pose proof (nn_refs_set_name st k s0 (NnLive n) l' E0) as R.
        pose proof (ni_bal st I l') as B. pose proof (@nn_dead_wname l' s0 Hd) as Z.
        cbn [nn_set_name nn_heap] in *. unfold nn_wname at 2 in R. rewrite P in R. lia.
      * cbn [nn_set_name nn_names]. apply nn_upd_Forall; [exact (ni_names st I)|exact Hok].
    + apply hp_pres_refl.
Qed.

Lemma nn_nclone_into st a l k s0 :
  nn_inv st -> nth_error (nn_nodes st) a = Some (NnLive l) ->
  nth_error (nn_nodes st) k = Some s0 -> nn_is_live s0 = false ->
  exists h2, hp_incr (nn_heap st) l = HpOk h2 /\
    nn_inv (nn_set_node (nn_set_heap st h2) k (NnLive l)) /\ hp_pres (fun _ => False) (nn_heap st) h2.
Proof.
  intros I E E0 Hd. pose proof (nn_live_node_strong st a l I E) as S.
  destruct (hp_incr_ok _ l (ni_wf st I) S) as (h2 & E2 & W2 & Hs & Hv & Hn).
  exists h2. split; [exact E2|]. split.
  - constructor.
    + exact W2.
    + intro l'. pose proof (nn_refs_set_node (nn_set_heap st h2) k s0 (NnLive l) l' E0) as R.
      rewrite nn_refs_set_heap in R. specialize (Hs l'). pose proof (ni_bal st I l') as B.
      pose proof (@nn_dead_wnode l' s0 Hd) as Z. cbn [nn_set_node nn_set_heap nn_heap nn_names nn_nodes nn_probes] in *.
      fin_bal.
    + exact (ni_names st I).
  - eapply hp_pres_incr; [exact (ni_wf st I)|exact S|exact E2].
Qed.

Lemma nn_drop_name_ok st i n :
  nn_inv st -> nth_error (nn_names st) i = Some (NnLive n) ->
  exists st2, nn_drop_name st n = HpOk st2 /\ nn_names st2 = nn_names st /\ nn_nodes st2 = nn_nodes st /\
    nn_probes st2 = nn_probes st /\
    nn_inv (nn_set_name st2 i (NnStale n)) /\ hp_pres (fun _ => False) (nn_heap st) (nn_heap st2).
Proof.
  intros I E. pose proof (nn_nth_Forall _ _ _ _ (ni_names st I) E) as Hok. cbn [nn_slot_ok] in Hok.
  unfold nn_drop_name. rewrite (nn_as_arc_ok n Hok).
  destruct (nn_ptr_of n) as [l|sx] eqn:P.
  - pose proof (nn_live_name_strong st i n l I E P) as S.
    destruct (hp_decr_ok _ l (ni_wf st I) S) as (h2 & E2 & W2 & Hs & Hv & Hn). rewrite E2.
    eexists. split; [reflexivity|]. split; [reflexivity|]. split; [reflexivity|]. split; [reflexivity|]. split.
    + constructor.
      * exact W2.
      * intro l'. pose proof (nn_refs_set_name (nn_set_heap st h2) i (NnLive n) (NnStale n) l' E) as R.
        rewrite nn_refs_set_heap in R. specialize (Hs l'). pose proof (ni_bal st I l') as B.
        cbn [nn_set_name nn_set_heap nn_heap nn_names nn_nodes nn_probes] in *.
        unfold nn_wname in R. rewrite P in R. fin_bal.
      * cbn [nn_set_name nn_set_heap nn_names]. apply nn_upd_Forall; [exact (ni_names st I)|exact Logic.I].
    + eapply hp_pres_decr; [exact (ni_wf st I)|exact S|exact E2].
  - eexists. split; [reflexivity|]. split; [reflexivity|]. split; [reflexivity|]. split; [reflexivity|]. split.
    + constructor.
      * exact (ni_wf st I).
      * intro l'. pose proof (nn_refs_set_name st i (NnLive n) (NnStale n) l' E) as R.
        pose proof (ni_bal st I l') as B. cbn [nn_set_name nn_heap] in *.
        unfold nn_wname in R. rewrite P in R. lia.
      * cbn [nn_set_name nn_names]. apply nn_upd_Forall; [exact (ni_names st I)|exact Logic.I].
    + apply hp_pres_refl.
Qed.

Lemma nn_drop_node_ok st a l :
  nn_inv st -> nth_error (nn_nodes st) a = Some (NnLive l) ->
  exists h2, hp_decr (nn_heap st) l = HpOk h2 /\
    nn_inv (nn_set_node (nn_set_heap st h2) a (NnStale l)) /\ hp_pres (fun _ => False) (nn_heap st) h2.
Proof.
  intros I E. pose proof (nn_live_node_strong st a l I E) as S.
  destruct (hp_decr_ok _ l (ni_wf st I) S) as (h2 & E2 & W2 & Hs & Hv & Hn).
  exists h2. split; [exact E2|]. split.
  - constructor.
    + exact W2.
    + intro l'. pose proof (nn_refs_set_node (nn_set_heap st h2) a (NnLive l) (NnStale l) l' E) as R.
      rewrite nn_refs_set_heap in R. specialize (Hs l'). pose proof (ni_bal st I l') as B.
      cbn [nn_set_node nn_set_heap nn_heap nn_names nn_nodes nn_probes] in *. fin_bal.
    + exact (ni_names st I).
  - eapply hp_pres_decr; [exact (ni_wf st I)|exact S|exact E2].
Qed.

Lemma nn_alloc_name st k s0 s sp h l :
  nn_inv st -> nth_error (nn_names st) k = Some s0 -> nn_is_live s0 = false ->
  hp_alloc (nn_heap st) s sp = (h, l) ->
  nn_inv (nn_set_name (nn_set_heap st h) k (NnLive (nn_fresh_name (NnPHeap l) true))) /\
  hp_pres (fun _ => False) (nn_heap st) h.
Proof.
  intros I E0 Hd A.
  destruct (hp_alloc_ok _ _ _ _ _ (ni_wf st I) A) as (Hl & W' & S0 & Hs & Hv1 & Hv2 & Hn).
  split.
  - constructor.
    + exact W'.
    + intro l'. pose proof (nn_refs_set_name (nn_set_heap st h) k s0 (NnLive (nn_fresh_name (NnPHeap l) true)) l' E0) as R.
      rewrite nn_refs_set_heap in R. specialize (Hs l'). pose proof (ni_bal st I l') as B.
      pose proof (@nn_dead_wname l' s0 Hd) as Z. cbn [nn_set_name nn_set_heap nn_heap nn_names nn_nodes nn_probes] in *.
      fin_bal.
    + cbn [nn_set_name nn_set_heap nn_names]. apply nn_upd_Forall; [exact (ni_names st I)|].
      exact (nn_fresh_ok (NnPHeap l)).
  - eapply hp_pres_alloc; [exact (ni_wf st I)|exact A].
Qed.

Lemma nn_alloc_node st k s0 s sp h l :
  nn_inv st -> nth_error (nn_nodes st) k = Some s0 -> nn_is_live s0 = false ->
  hp_alloc (nn_heap st) s sp = (h, l) ->
  nn_inv (nn_set_node (nn_set_heap st h) k (NnLive l)) /\ hp_pres (fun _ => False) (nn_heap st) h.
Proof.
  intros I E0 Hd A.
  destruct (hp_alloc_ok _ _ _ _ _ (ni_wf st I) A) as (Hl & W' & S0 & Hs & Hv1 & Hv2 & Hn).
  split.
  - constructor.
    + exact W'.
    + intro l'. pose proof (nn_refs_set_node (nn_set_heap st h) k s0 (NnLive l) l' E0) as R.
      rewrite nn_refs_set_heap in R. specialize (Hs l'). pose proof (ni_bal st I l') as B.
      pose proof (@nn_dead_wnode l' s0 Hd) as Z. cbn [nn_set_node nn_set_heap nn_heap nn_names nn_nodes nn_probes] in *.
      fin_bal.
    + exact (ni_names st I).
  - eapply hp_pres_alloc; [exact (ni_wf st I)|exact A].
Qed.

Lemma nn_agree_set_name ln ld st k s :
  nn_agree ln ld st -> nn_agree (nn_upd k (nn_is_live s) ln) ld (nn_set_name st k s).
Proof. intros [-> ->]. split; cbn [nn_set_name nn_names nn_nodes]; [rewrite nn_map_upd|]; reflexivity. Qed.
Lemma nn_agree_set_node ln ld st k (s : nn_slot N) :
  nn_agree ln ld st -> nn_agree ln (nn_upd k (nn_is_live s) ld) (nn_set_node st k s).
Proof. intros [-> ->]. split; cbn [nn_set_node nn_names nn_nodes]; [|rewrite nn_map_upd]; reflexivity. Qed.
Lemma nn_agree_set_heap ln ld st h : nn_agree ln ld st -> nn_agree ln ld (nn_set_heap st h).
Proof. intros [-> ->]. split; reflexivity. Qed.

Lemma nn_not_in1 {k x : nat} : ~ In k [x] -> x <> k.
Proof. intros H E. apply H. left. exact E. Qed.
Lemma nn_not_in2 {k x y : nat} : ~ In k [x; y] -> x <> k /\ y <> k.
Proof. intros H. split; intro E; apply H; [left|right; left]; exact E. Qed.

Ltac nn_frames :=
  split; [|split];
  [ intros kk Hk; cbn [nn_set_name nn_set_node nn_set_heap nn_names nn_nodes]; try reflexivity
  | intros aa Ha; cbn [nn_set_name nn_set_node nn_set_heap nn_names nn_nodes]; try reflexivity
  | ].

Lemma nn_step_ok st ln ld t op ln' ld' :
  nn_inv st -> nn_agree ln ld st -> nn_ws_step ln ld t op = Some (ln', ld') ->
  exists st' o, nn_step st t op = HpOk (st', o) /\ nn_agree ln' ld' st' /\ nn_post st t op st'.
Proof.
  intros I A W. pose proof A as [Aln Ald]. subst ln ld.
  destruct op; cbn [nn_ws_step] in W.
  - (* NnNewHeap *)
    destruct (nn_deadb _ _) eqn:D; [|discriminate]. injection W as <- <-.
    destruct (nn_deadb_get _ _ D) as (s0 & E0 & Hd).
    cbn [nn_step]. rewrite (nn_in_names_lt _ _ _ E0).
    destruct (hp_alloc (nn_heap st) s None) as [h l] eqn:Al.
    destruct (nn_alloc_name st _ s0 s None h l I E0 Hd Al) as [I' P'].
    eexists _, _. split; [reflexivity|]. split.
    + apply (nn_agree_set_name _ _ _ _ (NnLive _)). apply nn_agree_set_heap. exact A.
    + split; [exact I'|]. nn_frames.
      * apply nn_upd_other. exact (nn_not_in1 Hk).
      * eapply hp_pres_weaken; [|exact P']. intros ? [].
  - (* NnNewStatic *)
    destruct (nn_deadb _ _) eqn:D; [|discriminate]. injection W as <- <-.
    destruct (nn_deadb_get _ _ D) as (s0 & E0 & Hd).
    cbn [nn_step]. rewrite (nn_in_names_lt _ _ _ E0).
    eexists _, _. split; [reflexivity|]. split.
    + apply (nn_agree_set_name _ _ _ _ (NnLive _)). exact A.
    + split; [|nn_frames].
      * constructor.
        -- exact (ni_wf st I).
        -- intro l'. pose proof (nn_refs_set_name st _ s0 (NnLive (nn_fresh_name (NnPStatic (nth k nn_statics [])) false)) l' E0) as R.
           pose proof (ni_bal st I l') as B. pose proof (@nn_dead_wname l' s0 Hd) as Z.
           cbn [nn_set_name nn_heap] in *. unfold nn_wname at 2 in R. cbn [nn_ptr_of nn_fresh_name] in R. lia.
        -- cbn [nn_set_name nn_names]. apply nn_upd_Forall; [exact (ni_names st I)|].
           exact (nn_fresh_ok (NnPStatic _)).
      * apply nn_upd_other. exact (nn_not_in1 Hk).
      * apply hp_pres_refl.
  - (* NnFromArc *)
    destruct (nn_deadb _ _) eqn:D; [|discriminate]. injection W as <- <-.
    destruct (nn_deadb_get _ _ D) as (s0 & E0 & Hd).
    cbn [nn_step]. rewrite (nn_in_names_lt _ _ _ E0).
    destruct (hp_alloc (nn_heap st) s None) as [h l] eqn:Al.
    destruct (hp_alloc_ok _ _ _ _ _ (ni_wf st I) Al) as (Hl & W1 & S0 & Hs1 & Hv1 & Hv2 & Hn1).
    assert (S1 : 1 <= hp_strong_of h l) by (rewrite Hs1, S0; unfold hp_ind; rewrite N.eqb_refl; lia).
    destruct (hp_incr_ok h l W1 S1) as (h2 & E2 & W2 & Hs2 & Hv3 & Hn2). rewrite E2.
    eexists _, _. split; [reflexivity|]. split.
    + apply (nn_agree_set_name _ _ _ _ (NnLive _)). destruct A as [A1 A2]. split; [exact A1|exact A2].
    + split; [|nn_frames].
      * constructor.
        -- exact W2.
        -- intro l'. cbn [nn_set_name nn_heap].
           set (st2 := NnState h2 (nn_names st) (nn_nodes st) (nn_probes st ++ [l])).
           pose proof (nn_refs_set_name st2 _ s0 (NnLive (nn_fresh_name (NnPHeap l) true)) l' E0) as R.
           assert (R2 : nn_refs st2 l' = nn_refs st l' + hp_ind l l').
           { unfold nn_refs, st2. cbn [nn_names nn_nodes nn_probes]. rewrite nn_wsum_app. cbn [nn_wsum]. unfold nn_wprobe at 2. lia. }
           specialize (Hs1 l'). specialize (Hs2 l'). pose proof (ni_bal st I l') as B.
           pose proof (@nn_dead_wname l' s0 Hd) as Z. subst st2.
           cbn [nn_set_name nn_heap nn_names nn_nodes nn_probes] in *. fin_bal.
        -- cbn [nn_set_name nn_names]. apply nn_upd_Forall; [exact (ni_names st I)|]. exact (nn_fresh_ok (NnPHeap l)).
      * apply nn_upd_other. exact (nn_not_in1 Hk).
      * eapply hp_pres_trans; [eapply hp_pres_alloc; [exact (ni_wf st I)|exact Al]|].
        eapply hp_pres_incr; [exact W1|exact S1|exact E2].
  - (* NnClone *)
    destruct (nn_livb _ _) eqn:L; [|discriminate]. destruct (nn_deadb _ _) eqn:D; [|discriminate].
    injection W as <- <-. destruct (nn_livb_get _ _ L) as (n & E). destruct (nn_deadb_get _ _ D) as (s0 & E0 & Hd).
    cbn [nn_step]. rewrite E. cbn [nn_handle]. rewrite (nn_in_names_lt _ _ _ E0).
    destruct (nn_clone_into st _ n _ s0 I E E0 Hd) as (st2 & C & N2 & D2 & I2 & P2). rewrite C.
    eexists _, _. split; [reflexivity|]. split.
    + apply (nn_agree_set_name _ _ _ _ (NnLive _)). split; [rewrite N2|rewrite D2]; reflexivity.
    + split; [exact I2|]. nn_frames.
      * rewrite N2. apply nn_upd_other. exact (nn_not_in1 Hk).
      * rewrite D2. reflexivity.
      * eapply hp_pres_weaken; [|exact P2]. intros ? [].
  - (* NnDrop *)
    destruct (nn_livb _ _) eqn:L; [|discriminate]. injection W as <- <-.
    destruct (nn_livb_get _ _ L) as (n & E).
    cbn [nn_step]. rewrite E. cbn [nn_handle].
    destruct (nn_drop_name_ok st _ n I E) as (st2 & C & N2 & D2 & _ & I2 & P2). rewrite C.
    eexists _, _. split; [reflexivity|]. split.
    + apply (nn_agree_set_name _ _ _ _ (NnStale _)). split; [rewrite N2|rewrite D2]; reflexivity.
    + split; [exact I2|]. nn_frames.
      * rewrite N2. apply nn_upd_other. exact (nn_not_in1 Hk).
      * rewrite D2. reflexivity.
      * eapply hp_pres_weaken; [|exact P2]. intros ? [].
  - (* NnMove *)
    destruct (nn_livb _ _) eqn:L; [|discriminate]. destruct (nn_deadb _ _) eqn:D; [|discriminate].
    injection W as <- <-. destruct (nn_livb_get _ _ L) as (n & E). destruct (nn_deadb_get _ _ D) as (s0 & E0 & Hd).
    assert (Hij : nn_nidx t i <> nn_nidx t j) by (intro Q; rewrite Q in E; rewrite E in E0; injection E0 as <-; discriminate Hd).
    cbn [nn_step]. rewrite E. cbn [nn_handle]. rewrite (nn_in_names_lt _ _ _ E0).
    eexists _, _. split; [reflexivity|]. split.
    + apply (nn_agree_set_name _ _ _ _ (NnLive _)). apply (nn_agree_set_name _ _ _ _ (NnStale _)). exact A.
    + split; [|nn_frames].
      * constructor.
        -- exact (ni_wf st I).
        -- intro l'. pose proof (nn_refs_set_name st _ _ (NnStale n) l' E) as R1.
           assert (E0' : nth_error (nn_names (nn_set_name st (nn_nidx t i) (NnStale n))) (nn_nidx t j) = Some s0)
             by (cbn [nn_set_name nn_names]; rewrite nn_upd_other; [exact E0|exact Hij]).
           pose proof (nn_refs_set_name _ _ _ (NnLive n) l' E0') as R2.
           pose proof (ni_bal st I l') as B. pose proof (@nn_dead_wname l' s0 Hd) as Z.
           cbn [nn_set_name nn_heap] in *. cbn [nn_wname] in R1, R2. lia.
        -- cbn [nn_set_name nn_names]. apply nn_upd_Forall; [apply nn_upd_Forall; [exact (ni_names st I)|exact Logic.I]|].
           exact (nn_nth_Forall _ _ _ _ (ni_names st I) E).
      * destruct (nn_not_in2 Hk) as [K1 K2]. rewrite nn_upd_other by exact K2. apply nn_upd_other. exact K1.
      * apply hp_pres_refl.
  - (* NnWithLoc *)
    destruct (nn_livb _ _) eqn:L; [|discriminate]. destruct (nn_file_ok file) eqn:F; [|discriminate].
    injection W as <- <-. destruct (nn_livb_get _ _ L) as (n & E).
    pose proof (nn_nth_Forall _ _ _ _ (ni_names st I) E) as Hok. cbn [nn_slot_ok] in Hok.
    cbn [nn_step]. rewrite E. cbn [nn_handle].
    eexists _, _. split; [reflexivity|]. split.
    + destruct A as [A1 A2]. split; [|exact A2]. cbn [nn_set_name nn_names]. rewrite nn_map_upd. cbn [nn_is_live].
      clear - E. revert E. generalize (nn_nidx t i). induction (nn_names st) as [|y r IH]; intros [|k] E; cbn in *; try discriminate.
      * injection E as ->. reflexivity.
      * f_equal. apply IH. exact E.
    + split; [|nn_frames].
      * constructor.
        -- exact (ni_wf st I).
        -- intro l'. pose proof (nn_refs_set_name st _ _ (NnLive (NnName (nn_ptr_of n) start (tfi_pack (tfi_tag (nn_tagged n)) file))) l' E) as R.
           pose proof (ni_bal st I l') as B. cbn [nn_set_name nn_heap] in *. cbn [nn_wname nn_ptr_of] in R. lia.
        -- cbn [nn_set_name nn_names]. apply nn_upd_Forall; [exact (ni_names st I)|]. exact (nn_with_loc_ok n file start Hok F).
      * apply nn_upd_other. exact (nn_not_in1 Hk).
      * apply hp_pres_refl.
  - (* NnRead *)
    destruct (nn_livb _ _) eqn:L; [|discriminate]. injection W as <- <-.
    destruct (nn_livb_get _ _ L) as (n & E). destruct (nn_text_ok st _ n I E) as (s & T).
    cbn [nn_step]. rewrite E. cbn [nn_handle]. rewrite T.
    eexists _, _. split; [reflexivity|]. split; [exact A|]. split; [exact I|]. nn_frames. apply hp_pres_refl.
  - (* NnToArc *)
    destruct (nn_livb _ _) eqn:L; [|discriminate]. injection W as <- <-.
    destruct (nn_livb_get _ _ L) as (n & E).
    pose proof (nn_nth_Forall _ _ _ _ (ni_names st I) E) as Hok. cbn [nn_slot_ok] in Hok.
    cbn [nn_step]. rewrite E. cbn [nn_handle]. rewrite (nn_as_arc_ok n Hok).
    destruct (nn_ptr_of n) as [l|sx] eqn:P.
    + pose proof (nn_live_name_strong st _ n l I E P) as S.
      destruct (hp_incr_ok _ l (ni_wf st I) S) as (h1 & E1 & W1 & Hs1 & Hv1 & Hn1). rewrite E1.
      assert (S1 : 1 <= hp_strong_of h1 l) by (rewrite Hs1; lia).
      destruct (hp_get_ok h1 l S1) as (c & G & _). rewrite G.
      destruct (hp_decr_ok h1 l W1 S1) as (h2 & E2 & W2 & Hs2 & Hv2 & Hn2). rewrite E2.
      eexists _, _. split; [reflexivity|]. split; [apply nn_agree_set_heap; exact A|]. split; [|nn_frames].
      * constructor; [exact W2| |exact (ni_names st I)].
        intro l'. rewrite nn_refs_set_heap. cbn [nn_set_heap nn_heap]. specialize (Hs1 l'). specialize (Hs2 l').
        pose proof (ni_bal st I l'). lia.
      * eapply hp_pres_trans; [eapply hp_pres_incr; [exact (ni_wf st I)|exact S|exact E1]|].
        eapply hp_pres_decr; [exact W1|exact S1|exact E2].
    + eexists _, _. split; [reflexivity|]. split; [exact A|]. split; [exact I|]. nn_frames. apply hp_pres_refl.
  - (* NnIntoArc *)
    destruct (nn_livb _ _) eqn:L; [|discriminate]. injection W as <- <-.
    destruct (nn_livb_get _ _ L) as (n & E).
    pose proof (nn_nth_Forall _ _ _ _ (ni_names st I) E) as Hok. cbn [nn_slot_ok] in Hok.
    cbn [nn_step]. rewrite E. cbn [nn_handle]. rewrite (nn_as_arc_ok n Hok).
    destruct (nn_ptr_of n) as [l|sx] eqn:P.
    + pose proof (nn_live_name_strong st _ n l I E P) as S.
      destruct (hp_incr_ok _ l (ni_wf st I) S) as (h1 & E1 & W1 & Hs1 & Hv1 & Hn1). rewrite E1.
      assert (S1 : 1 <= hp_strong_of h1 l) by (rewrite Hs1; lia).
      destruct (hp_decr_ok h1 l W1 S1) as (h2 & E2 & W2 & Hs2 & Hv2 & Hn2). rewrite E2.
      assert (S2 : 1 <= hp_strong_of h2 l).
      { pose proof (Hs2 l) as Q. pose proof (Hs1 l) as Q1. unfold hp_ind in *. rewrite N.eqb_refl in *. lia. }
      destruct (hp_get_ok h2 l S2) as (c & G & _). rewrite G.
      destruct (hp_decr_ok h2 l W2 S2) as (h3 & E3 & W3 & Hs3 & Hv3 & Hn3). rewrite E3.
      eexists _, _. split; [reflexivity|]. split.
      * apply (nn_agree_set_name _ _ _ _ (NnStale _)). apply nn_agree_set_heap. exact A.
      * split; [|nn_frames].
        -- constructor; [exact W3| |].
           ++ intro l'. pose proof (nn_refs_set_name (nn_set_heap st h3) _ _ (NnStale n) l' E) as R.
              rewrite nn_refs_set_heap in R. specialize (Hs1 l'). specialize (Hs2 l'). specialize (Hs3 l').
              pose proof (ni_bal st I l') as B. cbn [nn_set_name nn_set_heap nn_heap nn_names nn_nodes nn_probes] in *.
              unfold nn_wname in R. rewrite P in R. fin_bal.
           ++ cbn [nn_set_name nn_set_heap nn_names]. apply nn_upd_Forall; [exact (ni_names st I)|exact Logic.I].
        -- apply nn_upd_other. exact (nn_not_in1 Hk).
        -- eapply hp_pres_trans; [eapply hp_pres_incr; [exact (ni_wf st I)|exact S|exact E1]|].
           eapply hp_pres_trans; [eapply hp_pres_decr; [exact W1|exact S1|exact E2]|].
           eapply hp_pres_decr; [exact W2|exact S2|exact E3].
    + destruct (nn_text_ok st _ n I E) as (s & T). rewrite T.
      eexists _, _. split; [reflexivity|]. split.
      * apply (nn_agree_set_name _ _ _ _ (NnStale _)). exact A.
      * split; [|nn_frames].
        -- constructor; [exact (ni_wf st I)| |].
           ++ intro l'. pose proof (nn_refs_set_name st _ _ (NnStale n) l' E) as R.
              pose proof (ni_bal st I l') as B. cbn [nn_set_name nn_heap] in *. unfold nn_wname in R. rewrite P in R. lia.
           ++ cbn [nn_set_name nn_names]. apply nn_upd_Forall; [exact (ni_names st I)|exact Logic.I].
        -- apply nn_upd_other. exact (nn_not_in1 Hk).
        -- apply hp_pres_refl.
  - (* NnCmp *)
    destruct (nn_livb _ _) eqn:L; [|discriminate]. destruct (nn_livb _ (nn_nidx t j)) eqn:L2; [|discriminate].
    injection W as <- <-. destruct (nn_livb_get _ _ L) as (n & E). destruct (nn_livb_get _ _ L2) as (m & E2).
    destruct (nn_text_ok st _ n I E) as (s1 & T1). destruct (nn_text_ok st _ m I E2) as (s2 & T2).
    cbn [nn_step]. rewrite E, E2. cbn [nn_handle]. rewrite T1, T2.
    eexists _, _. split; [reflexivity|]. split; [exact A|]. split; [exact I|]. nn_frames. apply hp_pres_refl.
  - (* NnCloneTo *)
    destruct (nn_livb _ _) eqn:L; [|discriminate]. destruct (nn_deadb _ _) eqn:D; [|discriminate].
    injection W as <- <-. destruct (nn_livb_get _ _ L) as (n & E). destruct (nn_deadb_get _ _ D) as (s0 & E0 & Hd).
    cbn [nn_step]. rewrite E. cbn [nn_handle]. rewrite (nn_in_names_lt _ _ _ E0).
    destruct (nn_clone_into st _ n _ s0 I E E0 Hd) as (st2 & C & N2 & D2 & I2 & P2). rewrite C.
    eexists _, _. split; [reflexivity|]. split.
    + apply (nn_agree_set_name _ _ _ _ (NnLive _)). split; [rewrite N2|rewrite D2]; reflexivity.
    + split; [exact I2|]. nn_frames.
      * rewrite N2. apply nn_upd_other. exact (nn_not_in1 Hk).
      * rewrite D2. reflexivity.
      * eapply hp_pres_weaken; [|exact P2]. intros ? [].
  - (* NdNew *)
    destruct (nn_deadb _ _) eqn:D; [|discriminate]. injection W as <- <-.
    destruct (nn_deadb_get _ _ D) as (s0 & E0 & Hd).
    cbn [nn_step]. rewrite (nn_in_nodes_lt _ _ _ E0).
    destruct (hp_alloc (nn_heap st) s None) as [h l] eqn:Al.
    destruct (nn_alloc_node st _ s0 s None h l I E0 Hd Al) as [I' P'].
    eexists _, _. split; [reflexivity|]. split.
    + apply (nn_agree_set_node _ _ _ _ (NnLive _)). apply nn_agree_set_heap. exact A.
    + split; [exact I'|]. nn_frames.
      * apply nn_upd_other. exact (nn_not_in1 Ha).
      * eapply hp_pres_weaken; [|exact P']. intros ? [].
  - (* NdNewParsed *)
    destruct (nn_deadb _ _) eqn:D; [|discriminate]. injection W as <- <-.
    destruct (nn_deadb_get _ _ D) as (s0 & E0 & Hd).
    cbn [nn_step]. rewrite (nn_in_nodes_lt _ _ _ E0).
    destruct (hp_alloc (nn_heap st) s (Some (file, start, start + len))) as [h l] eqn:Al.
    destruct (nn_alloc_node st _ s0 s _ h l I E0 Hd Al) as [I' P'].
    eexists _, _. split; [reflexivity|]. split.
    + apply (nn_agree_set_node _ _ _ _ (NnLive _)). apply nn_agree_set_heap. exact A.
    + split; [exact I'|]. nn_frames.
      * apply nn_upd_other. exact (nn_not_in1 Ha).
      * eapply hp_pres_weaken; [|exact P']. intros ? [].
  - (* NdClone *)
    destruct (nn_livb _ _) eqn:L; [|discriminate]. destruct (nn_deadb _ _) eqn:D; [|discriminate].
    injection W as <- <-. destruct (nn_livb_get _ _ L) as (l & E). destruct (nn_deadb_get _ _ D) as (s0 & E0 & Hd).
    cbn [nn_step]. rewrite E. cbn [nn_handle]. rewrite (nn_in_nodes_lt _ _ _ E0).
    destruct (nn_nclone_into st _ l _ s0 I E E0 Hd) as (h2 & C & I2 & P2). rewrite C.
    eexists _, _. split; [reflexivity|]. split.
    + apply (nn_agree_set_node _ _ _ _ (NnLive _)). apply nn_agree_set_heap. exact A.
    + split; [exact I2|]. nn_frames.
      * apply nn_upd_other. exact (nn_not_in1 Ha).
      * eapply hp_pres_weaken; [|exact P2]. intros ? [].
  - (* NdDrop *)
    destruct (nn_livb _ _) eqn:L; [|discriminate]. injection W as <- <-.
    destruct (nn_livb_get _ _ L) as (l & E).
    cbn [nn_step]. rewrite E. cbn [nn_handle].
    destruct (nn_drop_node_ok st _ l I E) as (h2 & C & I2 & P2). rewrite C.
    eexists _, _. split; [reflexivity|]. split.
    + apply (nn_agree_set_node _ _ _ _ (NnStale _)). apply nn_agree_set_heap. exact A.
    + split; [exact I2|]. nn_frames.
      * apply nn_upd_other. exact (nn_not_in1 Ha).
      * eapply hp_pres_weaken; [|exact P2]. intros ? [].
  - (* NdMove *)
    destruct (nn_livb _ _) eqn:L; [|discriminate]. destruct (nn_deadb _ _) eqn:D; [|discriminate].
    injection W as <- <-. destruct (nn_livb_get _ _ L) as (l & E). destruct (nn_deadb_get _ _ D) as (s0 & E0 & Hd).
    assert (Hij : nn_didx t a <> nn_didx t b) by (intro Q; rewrite Q in E; rewrite E in E0; injection E0 as <-; discriminate Hd).
    cbn [nn_step]. rewrite E. cbn [nn_handle]. rewrite (nn_in_nodes_lt _ _ _ E0).
    eexists _, _. split; [reflexivity|]. split.
    + apply (nn_agree_set_node _ _ _ _ (NnLive _)). apply (nn_agree_set_node _ _ _ _ (NnStale _)). exact A.
    + split; [|nn_frames].
      * constructor.
        -- exact (ni_wf st I).
        -- intro l'. pose proof (nn_refs_set_node st _ _ (NnStale l) l' E) as R1.
           assert (E0' : nth_error (nn_nodes (nn_set_node st (nn_didx t a) (NnStale l))) (nn_didx t b) = Some s0)
             by (cbn [nn_set_node nn_nodes]; rewrite nn_upd_other; [exact E0|exact Hij]).
           pose proof (nn_refs_set_node _ _ _ (NnLive l) l' E0') as R2.
           pose proof (ni_bal st I l') as B. pose proof (@nn_dead_wnode l' s0 Hd) as Z.
           cbn [nn_set_node nn_heap] in *. cbn [nn_wnode] in R1, R2. lia.
        -- exact (ni_names st I).
      * destruct (nn_not_in2 Ha) as [K1 K2]. rewrite nn_upd_other by exact K2. apply nn_upd_other. exact K1.
      * apply hp_pres_refl.
  - (* NdRead *)
    destruct (nn_livb _ _) eqn:L; [|discriminate]. injection W as <- <-.
    destruct (nn_livb_get _ _ L) as (l & E).
    destruct (hp_get_ok _ l (nn_live_node_strong st _ l I E)) as (c & G & _).
    cbn [nn_step]. rewrite E. cbn [nn_handle]. rewrite G.
    eexists _, _. split; [reflexivity|]. split; [exact A|]. split; [exact I|]. nn_frames. apply hp_pres_refl.
  - (* NdCmp *)
    destruct (nn_livb _ _) eqn:L; [|discriminate]. destruct (nn_livb _ (nn_didx t b)) eqn:L2; [|discriminate].
    injection W as <- <-. destruct (nn_livb_get _ _ L) as (l & E). destruct (nn_livb_get _ _ L2) as (m & E2).
    destruct (hp_get_ok _ l (nn_live_node_strong st _ l I E)) as (c & G & _).
    destruct (hp_get_ok _ m (nn_live_node_strong st _ m I E2)) as (d & G2 & _).
    cbn [nn_step]. rewrite E, E2. cbn [nn_handle]. rewrite G, G2.
    eexists _, _. split; [reflexivity|]. split; [exact A|]. split; [exact I|]. nn_frames. apply hp_pres_refl.
  - (* NdGetMut *)
    destruct (nn_livb _ _) eqn:L; [|discriminate]. injection W as <- <-.
    destruct (nn_livb_get _ _ L) as (l & E). pose proof (nn_live_node_strong st _ l I E) as S.
    destruct (hp_get_ok _ l S) as (c & G & Hc & _).
    cbn [nn_step]. rewrite E. cbn [nn_handle]. rewrite G.
    destruct (N.eqb_spec (hp_strong c) 1) as [U|NU].
    + destruct (hp_set_text_ok _ l s (ni_wf st I) S) as (h2 & E2 & W2 & Hs & _ & Hv & Hn). rewrite E2.
      eexists _, _. split; [reflexivity|]. split; [apply nn_agree_set_heap; exact A|]. split; [|nn_frames].
      * constructor; [exact W2| |exact (ni_names st I)].
        intro l'. rewrite nn_refs_set_heap. cbn [nn_set_heap nn_heap]. rewrite Hs. exact (ni_bal st I l').
      * eapply hp_pres_set_text; [exact (ni_wf st I)|exact S| |exact E2].
        cbn [nn_written]. left. split; [exact E|congruence].
    + eexists _, _. split; [reflexivity|]. split; [exact A|]. split; [exact I|]. nn_frames. apply hp_pres_refl.
  - (* NdMakeMut *)
    destruct (nn_livb _ _) eqn:L; [|discriminate]. injection W as <- <-.
    destruct (nn_livb_get _ _ L) as (l & E). pose proof (nn_live_node_strong st _ l I E) as S.
    destruct (hp_get_ok _ l S) as (c & G & Hc & _).
    cbn [nn_step]. rewrite E. cbn [nn_handle]. rewrite G.
    destruct (N.eqb_spec (hp_strong c) 1) as [U|NU].
    + destruct (hp_set_text_ok _ l s (ni_wf st I) S) as (h2 & E2 & W2 & Hs & _ & Hv & Hn). rewrite E2.
      eexists _, _. split; [reflexivity|]. split; [apply nn_agree_set_heap; exact A|]. split; [|nn_frames].
      * constructor; [exact W2| |exact (ni_names st I)].
        intro l'. rewrite nn_refs_set_heap. cbn [nn_set_heap nn_heap]. rewrite Hs. exact (ni_bal st I l').
      * eapply hp_pres_set_text; [exact (ni_wf st I)|exact S| |exact E2].
        cbn [nn_written]. left. split; [exact E|congruence].
    + destruct (hp_alloc (nn_heap st) (hp_text c) (hp_span_of c)) as [h1 l2] eqn:Al.
      destruct (hp_alloc_ok _ _ _ _ _ (ni_wf st I) Al) as (Hl & W1 & S0 & Hs1 & Hv1 & Hv2 & Hn1).
      assert (Hne : l <> l2) by (intro Q; subst l2; rewrite Q in S; lia).
      assert (S1 : 1 <= hp_strong_of h1 l) by (rewrite Hs1; lia).
      destruct (hp_decr_ok h1 l W1 S1) as (h2 & E2 & W2 & Hs2 & Hv3 & Hn2). rewrite E2.
      assert (S2 : 1 <= hp_strong_of h2 l2).
      { pose proof (Hs2 l2) as Q. pose proof (Hs1 l2) as Q1. unfold hp_ind in *.
        rewrite N.eqb_refl in Q1. destruct (N.eqb_spec l2 l); [congruence|]. lia. }
      destruct (hp_set_text_ok h2 l2 s W2 S2) as (h3 & E3 & W3 & Hs3 & _ & Hv4 & Hn3). rewrite E3.
      eexists _, _. split; [reflexivity|]. split.
      * destruct A as [A1 A2]. split; [exact A1|]. cbn [nn_set_node nn_set_heap nn_nodes]. rewrite nn_map_upd. cbn [nn_is_live].
        clear - E. revert E. generalize (nn_didx t a). induction (nn_nodes st) as [|y r IH]; intros [|k] E; cbn in *; try discriminate.
        -- injection E as ->. reflexivity.
        -- f_equal. apply IH. exact E.
      * split; [|nn_frames].
        -- constructor; [exact W3| |exact (ni_names st I)].
           intro l'. pose proof (nn_refs_set_node (nn_set_heap st h3) _ _ (NnLive l2) l' E) as R.
           rewrite nn_refs_set_heap in R. specialize (Hs1 l'). specialize (Hs2 l'). specialize (Hs3 l').
           pose proof (ni_bal st I l') as B. cbn [nn_set_node nn_set_heap nn_heap nn_names nn_nodes nn_probes] in *.
           fin_bal.
        -- apply nn_upd_other. exact (nn_not_in1 Ha).
        -- eapply hp_pres_trans; [eapply hp_pres_alloc; [exact (ni_wf st I)|exact Al]|].
           eapply hp_pres_trans; [eapply hp_pres_decr; [exact W1|exact S1|exact E2]|].
           eapply hp_pres_set_text; [exact W2|exact S2| |exact E3].
           cbn [nn_written]. right. lia.
  - (* NdSameLoc *)
    destruct (nn_livb _ _) eqn:L; [|discriminate]. destruct (nn_deadb _ _) eqn:D; [|discriminate].
    injection W as <- <-. destruct (nn_livb_get _ _ L) as (l & E). destruct (nn_deadb_get _ _ D) as (s0 & E0 & Hd).
    destruct (hp_get_ok _ l (nn_live_node_strong st _ l I E)) as (c & G & _).
    cbn [nn_step]. rewrite E. cbn [nn_handle]. rewrite (nn_in_nodes_lt _ _ _ E0), G.
    destruct (hp_alloc (nn_heap st) s (hp_span_of c)) as [h l2] eqn:Al.
    destruct (nn_alloc_node st _ s0 s _ h l2 I E0 Hd Al) as [I' P'].
    eexists _, _. split; [reflexivity|]. split.
    + apply (nn_agree_set_node _ _ _ _ (NnLive _)). apply nn_agree_set_heap. exact A.
    + split; [exact I'|]. nn_frames.
      * apply nn_upd_other. exact (nn_not_in1 Ha).
      * eapply hp_pres_weaken; [|exact P']. intros ? [].
  - (* NdCloneTo *)
    destruct (nn_livb _ _) eqn:L; [|discriminate]. destruct (nn_deadb _ _) eqn:D; [|discriminate].
    injection W as <- <-. destruct (nn_livb_get _ _ L) as (l & E). destruct (nn_deadb_get _ _ D) as (s0 & E0 & Hd).
    cbn [nn_step]. rewrite E. cbn [nn_handle]. rewrite (nn_in_nodes_lt _ _ _ E0).
    destruct (nn_nclone_into st _ l _ s0 I E E0 Hd) as (h2 & C & I2 & P2). rewrite C.
    eexists _, _. split; [reflexivity|]. split.
    + apply (nn_agree_set_node _ _ _ _ (NnLive _)). apply nn_agree_set_heap. exact A.
    + split; [exact I2|]. nn_frames.
      * apply nn_upd_other. exact (nn_not_in1 Ha).
      * eapply hp_pres_weaken; [|exact P2]. intros ? [].
Qed.

(* ------------------------------------------------------------------ histories *)
Ltac splits := repeat (match goal with |- _ /\ _ => split end).
Lemma nn_run_ok h : forall st ln ld,
  nn_inv st -> nn_agree ln ld st -> nn_ws ln ld h = true ->
  exists st' obs ln' ld', nn_run st h = HpOk (st', obs) /\ nn_inv st' /\ nn_agree ln' ld' st' /\
                          length obs = length h.
Proof.
  induction h as [|[t op] r IH]; intros st ln ld I A W.
  - exists st, [], ln, ld. splits; auto.
  - cbn [nn_ws] in W. destruct (nn_ws_step ln ld t op) as [[ln2 ld2]|] eqn:S; [|discriminate].
    destruct (nn_step_ok st ln ld t op ln2 ld2 I A S) as (st2 & o & E & A2 & I2 & _).
    destruct (IH st2 ln2 ld2 I2 A2 W) as (st3 & obs & ln3 & ld3 & E3 & I3 & A3 & Len).
    exists st3, (o :: obs), ln3, ld3. cbn [nn_run]. rewrite E. cbn [fst snd]. rewrite E3. cbn [fst snd length].
    splits; auto.
Qed.

Lemma nn_inv_init threads : nn_inv (nn_init threads).
Proof.
  constructor; cbn [nn_init nn_heap nn_names].
  - exact hp_wf_empty.
  - intro l. unfold nn_refs, hp_strong_of. cbn [nn_init nn_heap nn_names nn_nodes nn_probes hp_empty hp_cells hp_find nn_wsum].
    rewrite !nn_wsum_zero; [reflexivity| |].
    + intros x Hx. apply repeat_spec in Hx. subst x. reflexivity.
    + intros x Hx. apply repeat_spec in Hx. subst x. reflexivity.
  - apply Forall_forall. intros x Hx. apply repeat_spec in Hx. subst x. exact Logic.I.
Qed.

Lemma nn_agree_init threads :
  nn_agree (repeat false (nn_NAMES * threads)) (repeat false (nn_NODES * threads)) (nn_init threads).
Proof.
  split; cbn [nn_init nn_names nn_nodes].
  - generalize (nn_NAMES * threads)%nat. intro k. induction k; cbn; congruence.
  - generalize (nn_NODES * threads)%nat. intro k. induction k; cbn; congruence.
Qed.

(* No well-scoped history panics, and afterwards the strong count of every location is the number of live
   handles to it — for any number of threads and any interleaving (the history is a list of (thread, op)). *)
Theorem nn_safe : forall (threads : nat) (h : list (nat * nn_op)),
  nn_well_scoped threads h = true ->
  exists st obs, nn_run (nn_init threads) h = HpOk (st, obs) /\ length obs = length h /\
    forall l, hp_strong_of (nn_heap st) l = nn_refs st l.
Proof.
  intros threads h W.
  destruct (nn_run_ok h _ _ _ (nn_inv_init threads) (nn_agree_init threads) W) as (st & obs & ? & ? & E & I & _ & Len).
  exists st, obs. split; [exact E|]. split; [exact Len|]. exact (ni_bal st I).
Qed.

(* ------------------------------------------------------------------ no leak *)
Definition nn_refs_nn (st : nn_state) (l : N) : N :=
  nn_wsum (nn_wname l) (nn_names st) + nn_wsum (nn_wnode l) (nn_nodes st).

Lemma nn_drop_names_ok : forall l i st,
  nn_inv st -> (forall k, nth_error l k = nth_error (nn_names st) (i + k)) ->
  exists st', nn_drop_names st i l = HpOk st' /\ nn_inv st' /\ nn_nodes st' = nn_nodes st /\ nn_probes st' = nn_probes st /\
    length (nn_names st') = length (nn_names st) /\
    (forall k, (k < i)%nat -> nth_error (nn_names st') k = nth_error (nn_names st) k) /\
    (forall k s, (i <= k)%nat -> nth_error (nn_names st') k = Some s -> nn_is_live s = false).
Proof.
  induction l as [|s r IH]; intros i st I H.
  - exists st. cbn [nn_drop_names]. splits; auto.
    intros k s Hk E. specialize (H (k - i)%nat). replace (i + (k - i))%nat with k in H by lia.
    rewrite E in H. destruct (k - i)%nat; discriminate H.
  - assert (Hr : forall st2, nn_names st2 = nn_names st \/ (exists x, nn_names st2 = nn_upd i x (nn_names st)) ->
                 forall k, nth_error r k = nth_error (nn_names st2) (S i + k)).
    { intros st2 [Q|[x Q]] k; rewrite Q; [|rewrite nn_upd_other by lia];
        specialize (H (S k)); cbn [nth_error] in H; rewrite H; f_equal; lia. }
    pose proof (H 0%nat) as H0. cbn [nth_error] in H0. rewrite Nat.add_0_r in H0. symmetry in H0.
    destruct s as [|n|n]; cbn [nn_drop_names].
    + destruct (IH (S i) st I (Hr st (or_introl eq_refl))) as (st' & E & I' & Dn & Dp & Ln & Lo & Hi).
      exists st'. split; [exact E|]. split; [exact I'|]. split; [exact Dn|]. split; [exact Dp|]. split; [exact Ln|].
      split; [intros k Hk; apply Lo; lia|].
      intros k s Hk Ek. destruct (Nat.eq_dec k i) as [->|Hne]; [|apply (Hi k); [lia|exact Ek]].
        rewrite Lo in Ek by lia. rewrite H0 in Ek. injection Ek as <-. reflexivity.
    + destruct (nn_drop_name_ok st i n I H0) as (st2 & C & N2 & D2 & P2 & I2 & _). rewrite C.
      assert (Hr2 : forall k, nth_error r k = nth_error (nn_names (nn_set_name st2 i (NnStale n))) (S i + k)).
      { apply Hr. right. exists (NnStale n). cbn [nn_set_name nn_names]. rewrite N2. reflexivity. }
      destruct (IH (S i) _ I2 Hr2) as (st' & E & I' & Dn & Dp & Ln & Lo & Hi).
      exists st'. split; [exact E|]. cbn [nn_set_name nn_names nn_nodes nn_probes] in *.
      split; [exact I'|]. split; [congruence|]. split; [congruence|].
      split; [rewrite Ln, nn_upd_length, N2; reflexivity|]. split.
      * intros k Hk. rewrite Lo by lia. rewrite N2. apply nn_upd_other. lia.
      * intros k s Hk Ek. destruct (Nat.eq_dec k i) as [->|Hne]; [|apply (Hi k); [lia|exact Ek]].
        rewrite Lo in Ek by lia. rewrite N2, nn_upd_same in Ek by exact (nn_nth_lt _ _ _ H0).
        injection Ek as <-. reflexivity.
    + destruct (IH (S i) st I (Hr st (or_introl eq_refl))) as (st' & E & I' & Dn & Dp & Ln & Lo & Hi).
      exists st'. split; [exact E|]. split; [exact I'|]. split; [exact Dn|]. split; [exact Dp|]. split; [exact Ln|].
      split; [intros k Hk; apply Lo; lia|].
      intros k s Hk Ek. destruct (Nat.eq_dec k i) as [->|Hne]; [|apply (Hi k); [lia|exact Ek]].
        rewrite Lo in Ek by lia. rewrite H0 in Ek. injection Ek as <-. reflexivity.
Qed.

Lemma nn_drop_nodes_ok : forall l i st,
  nn_inv st -> (forall k, nth_error l k = nth_error (nn_nodes st) (i + k)) ->
  exists st', nn_drop_nodes st i l = HpOk st' /\ nn_inv st' /\ nn_names st' = nn_names st /\ nn_probes st' = nn_probes st /\
    length (nn_nodes st') = length (nn_nodes st) /\
    (forall k, (k < i)%nat -> nth_error (nn_nodes st') k = nth_error (nn_nodes st) k) /\
    (forall k s, (i <= k)%nat -> nth_error (nn_nodes st') k = Some s -> nn_is_live s = false).
Proof.
  induction l as [|s r IH]; intros i st I H.
  - exists st. cbn [nn_drop_nodes]. splits; auto.
    intros k s Hk E. specialize (H (k - i)%nat). replace (i + (k - i))%nat with k in H by lia.
    rewrite E in H. destruct (k - i)%nat; discriminate H.
  - assert (Hr : forall st2, nn_nodes st2 = nn_nodes st \/ (exists x, nn_nodes st2 = nn_upd i x (nn_nodes st)) ->
                 forall k, nth_error r k = nth_error (nn_nodes st2) (S i + k)).
    { intros st2 [Q|[x Q]] k; rewrite Q; [|rewrite nn_upd_other by lia];
        specialize (H (S k)); cbn [nth_error] in H; rewrite H; f_equal; lia. }
    pose proof (H 0%nat) as H0. cbn [nth_error] in H0. rewrite Nat.add_0_r in H0. symmetry in H0.
    destruct s as [|x|x]; cbn [nn_drop_nodes].
    + destruct (IH (S i) st I (Hr st (or_introl eq_refl))) as (st' & E & I' & Dn & Dp & Ln & Lo & Hi).
      exists st'. split; [exact E|]. split; [exact I'|]. split; [exact Dn|]. split; [exact Dp|]. split; [exact Ln|].
      split; [intros k Hk; apply Lo; lia|].
      intros k s Hk Ek. destruct (Nat.eq_dec k i) as [->|Hne]; [|apply (Hi k); [lia|exact Ek]].
        rewrite Lo in Ek by lia. rewrite H0 in Ek. injection Ek as <-. reflexivity.
    + destruct (nn_drop_node_ok st i x I H0) as (h2 & C & I2 & _). rewrite C.
      assert (Hr2 : forall k, nth_error r k = nth_error (nn_nodes (nn_set_node (nn_set_heap st h2) i (NnStale x))) (S i + k)).
      { apply Hr. right. exists (NnStale x). reflexivity. }
      destruct (IH (S i) _ I2 Hr2) as (st' & E & I' & Dn & Dp & Ln & Lo & Hi).
      exists st'. split; [exact E|]. cbn [nn_set_node nn_set_heap nn_names nn_nodes nn_probes] in *.
      split; [exact I'|]. split; [congruence|]. split; [congruence|].
      split; [rewrite Ln, nn_upd_length; reflexivity|]. split.
      * intros k Hk. rewrite Lo by lia. apply nn_upd_other. lia.
      * intros k s Hk Ek. destruct (Nat.eq_dec k i) as [->|Hne]; [|apply (Hi k); [lia|exact Ek]].
        rewrite Lo in Ek by lia. rewrite nn_upd_same in Ek by exact (nn_nth_lt _ _ _ H0).
        injection Ek as <-. reflexivity.
    + destruct (IH (S i) st I (Hr st (or_introl eq_refl))) as (st' & E & I' & Dn & Dp & Ln & Lo & Hi).
      exists st'. split; [exact E|]. split; [exact I'|]. split; [exact Dn|]. split; [exact Dp|]. split; [exact Ln|].
      split; [intros k Hk; apply Lo; lia|].
      intros k s Hk Ek. destruct (Nat.eq_dec k i) as [->|Hne]; [|apply (Hi k); [lia|exact Ek]].
        rewrite Lo in Ek by lia. rewrite H0 in Ek. injection Ek as <-. reflexivity.
Qed.

Lemma nn_drop_probes_ok : forall l st,
  hp_wf (nn_heap st) ->
  (forall x, hp_strong_of (nn_heap st) x = nn_refs_nn st x + nn_wsum (nn_wprobe x) l) ->
  exists st', nn_drop_probes st l = HpOk st' /\ hp_wf (nn_heap st') /\ nn_names st' = nn_names st /\
    nn_nodes st' = nn_nodes st /\ nn_probes st' = [] /\
    (forall x, hp_strong_of (nn_heap st') x = nn_refs_nn st x).
Proof.
  induction l as [|p r IH]; intros st W B.
  - eexists. cbn [nn_drop_probes]. split; [reflexivity|]. cbn [nn_heap nn_names nn_nodes nn_probes].
    splits; auto. intro x. rewrite B. cbn [nn_wsum]. unfold nn_refs_nn. lia.
  - cbn [nn_drop_probes].
    assert (S : 1 <= hp_strong_of (nn_heap st) p).
    { rewrite B. cbn [nn_wsum]. unfold nn_wprobe at 1, hp_ind. rewrite N.eqb_refl. lia. }
    destruct (hp_decr_ok _ p W S) as (h2 & E2 & W2 & Hs & _). rewrite E2.
    destruct (IH (nn_set_heap st h2) W2) as (st' & E & W' & N' & D' & P' & B').
    { intro x. cbn [nn_set_heap nn_heap]. specialize (Hs x). specialize (B x). cbn [nn_wsum] in B.
      unfold nn_refs_nn in *. cbn [nn_set_heap nn_names nn_nodes]. unfold nn_wprobe at 1 in B. unfold hp_ind in *.
      destruct (N.eqb_spec x p); destruct (N.eqb_spec p x); subst; try congruence; lia. }
    exists st'. split; [exact E|]. splits; auto.
Qed.

(* After dropping every live variable and every probe, nothing is allocated. *)
Theorem nn_no_leak_inv st : nn_inv st ->
  exists st', nn_drop_all st = HpOk st' /\ hp_cells (nn_heap st') = [] /\ hp_live_count (nn_heap st') = 0.
Proof.
  intro I. unfold nn_drop_all.
  destruct (nn_drop_names_ok (nn_names st) 0 st I (fun k => eq_refl)) as (s1 & E1 & I1 & D1 & P1 & _ & _ & H1). rewrite E1.
  destruct (nn_drop_nodes_ok (nn_nodes s1) 0 s1 I1 (fun k => eq_refl)) as (s2 & E2 & I2 & N2 & P2 & _ & _ & H2). rewrite E2.
  assert (Z : forall x, nn_refs_nn s2 x = 0).
  { intro x. unfold nn_refs_nn. rewrite !nn_wsum_zero; [reflexivity| |].
    - intros s Hs. apply In_nth_error in Hs as [k Hk]. apply nn_dead_wnode. exact (H2 k s (Nat.le_0_l k) Hk).
    - intros s Hs. rewrite N2 in Hs. apply In_nth_error in Hs as [k Hk]. apply nn_dead_wname. exact (H1 k s (Nat.le_0_l k) Hk). }
  destruct (nn_drop_probes_ok (nn_probes s2) s2 (ni_wf s2 I2)) as (s3 & E3 & W3 & _ & _ & _ & B3).
  { intro x. rewrite (ni_bal s2 I2). unfold nn_refs, nn_refs_nn. lia. }
  exists s3. split; [exact E3|].
  assert (C : hp_cells (nn_heap s3) = []).
  { apply hp_empty_iff; [|exact W3]. intro x. rewrite B3. apply Z. }
  split; [exact C|]. unfold hp_live_count. rewrite C. reflexivity.
Qed.

Theorem nn_no_leak : forall (threads : nat) (h : list (nat * nn_op)),
  nn_well_scoped threads h = true ->
  exists st obs st', nn_run (nn_init threads) h = HpOk (st, obs) /\ nn_drop_all st = HpOk st' /\
                     hp_live_count (nn_heap st') = 0.
Proof.
  intros threads h W.
  destruct (nn_run_ok h _ _ _ (nn_inv_init threads) (nn_agree_init threads) W) as (st & obs & ? & ? & E & I & _).
  destruct (nn_no_leak_inv st I) as (st' & D & _ & L). exists st, obs, st'. auto.
Qed.

(* ------------------------------------------------------------------ what a live variable reads (its view) *)
(* a name variable: text, start_offset, tagged_file_id;  a node variable: value and Header.location *)
Definition nn_vname (st : nn_state) (k : nat) : option (str * N * N) :=
  match nth_error (nn_names st) k with
  | Some (NnLive n) =>
      match nn_text (nn_heap st) n with HpOk s => Some (s, nn_start n, nn_tagged n) | HpPanic _ => None end
  | _ => None
  end.
Definition nn_vnode (st : nn_state) (a : nat) : option (str * option hp_span) :=
  match nth_error (nn_nodes st) a with Some (NnLive l) => hp_view (nn_heap st) l | _ => None end.

Lemma nn_text_view h n :
  nn_text h n = match nn_ptr_of n with
                | NnPStatic s => HpOk s
                | NnPHeap l => match hp_view h l with Some (s, _) => HpOk s | None => HpPanic HpUseAfterFree end
                end.
Proof.
  unfold nn_text, hp_get, hp_view. destruct (nn_ptr_of n) as [l|s]; [|reflexivity].
  destruct (hp_find l (hp_cells h)); reflexivity.
Qed.

Lemma nn_live_lt st l : nn_inv st -> 1 <= hp_strong_of (nn_heap st) l -> l < hp_next (nn_heap st).
Proof.
  intros I S. destruct (hp_strong_pos_find _ l S) as (c & E & _). exact (proj1 (hp_find_lt _ l c (ni_wf st I) E)).
Qed.

(* two live handles to l: the count is at least 2 *)
Lemma nn_refs_name_node st k n a l :
  nth_error (nn_names st) k = Some (NnLive n) -> nn_ptr_of n = NnPHeap l ->
  nth_error (nn_nodes st) a = Some (NnLive l) -> 2 <= nn_refs st l.
Proof.
  intros E P E2. unfold nn_refs.
  pose proof (nn_wsum_ge (nn_wname l) _ _ _ E) as G1. pose proof (nn_wsum_ge (nn_wnode l) _ _ _ E2) as G2.
  cbn [nn_wname nn_wnode] in *. rewrite P in G1. unfold hp_ind in *. rewrite N.eqb_refl in *. lia.
Qed.
Lemma nn_refs_node_node st a b l :
  a <> b -> nth_error (nn_nodes st) a = Some (NnLive l) -> nth_error (nn_nodes st) b = Some (NnLive l) ->
  2 <= nn_refs st l.
Proof.
  intros Hne E1 E2. unfold nn_refs. pose proof (nn_wsum_ge2 (nn_wnode l) _ _ _ _ _ Hne E1 E2) as G.
  cbn [nn_wnode] in G. unfold hp_ind in G. rewrite N.eqb_refl in G. lia.
Qed.

(* Frame: one operation changes what is read through the variables it assigns, moves, drops or mutates, and
   through no other live variable — of any thread. *)
Theorem nn_frame_step st ln ld t op ln' ld' st' o :
  nn_inv st -> nn_agree ln ld st -> nn_ws_step ln ld t op = Some (ln', ld') -> nn_step st t op = HpOk (st', o) ->
  (forall k n, nth_error (nn_names st) k = Some (NnLive n) -> ~ In k (nn_wr_names t op) ->
               nth_error (nn_names st') k = Some (NnLive n) /\ nn_vname st' k = nn_vname st k) /\
  (forall a l, nth_error (nn_nodes st) a = Some (NnLive l) -> ~ In a (nn_wr_nodes t op) ->
               nth_error (nn_nodes st') a = Some (NnLive l) /\ nn_vnode st' a = nn_vnode st a).
Proof.
  intros I A W E.
  destruct (nn_step_ok st ln ld t op ln' ld' I A W) as (st2 & o2 & E2 & _ & I' & Fn & Fd & Pres).
  rewrite E in E2. injection E2 as <- <-. split.
  - intros k n Ek Hk. pose proof (Fn k Hk) as Q. rewrite Ek in Q. split; [exact Q|].
    unfold nn_vname. rewrite Q, Ek, !nn_text_view. destruct (nn_ptr_of n) as [l|s] eqn:P; [|reflexivity].
    pose proof (nn_live_name_strong st k n l I Ek P) as S. pose proof (nn_live_name_strong st' k n l I' Q P) as S'.
    destruct Pres as [_ Pv]. destruct (Pv l (nn_live_lt st l I S)) as [_ ->]; [|exact S'|reflexivity].
    destruct op; cbn [nn_written]; try solve [intros []];
      (intros [[Ea U]|G]; [|pose proof (nn_live_lt st l I S); lia]);
      pose proof (nn_refs_name_node st k n _ l Ek P Ea); rewrite <- (ni_bal st I) in *; lia.
  - intros a l Ea Ha. pose proof (Fd a Ha) as Q. rewrite Ea in Q. split; [exact Q|].
    unfold nn_vnode. rewrite Q, Ea.
    pose proof (nn_live_node_strong st a l I Ea) as S. pose proof (nn_live_node_strong st' a l I' Q) as S'.
    destruct Pres as [_ Pv]. destruct (Pv l (nn_live_lt st l I S)) as [_ ->]; [|exact S'|reflexivity].
    destruct op; cbn [nn_written]; try solve [intros []];
      (intros [[Eb U]|G]; [|pose proof (nn_live_lt st l I S); lia]);
      cbn [nn_wr_nodes] in Ha; pose proof (nn_not_in1 Ha) as Hne;
      pose proof (nn_refs_node_node st _ a l Hne Eb Ea); rewrite <- (ni_bal st I) in *; lia.
Qed.

(* ... and therefore any number of operations that do not assign / move / drop / mutate variable k *)
Fixpoint nn_untouched_name (k : nat) (h : list (nat * nn_op)) : Prop :=
  match h with [] => True | (t, op) :: r => ~ In k (nn_wr_names t op) /\ nn_untouched_name k r end.
Fixpoint nn_untouched_node (a : nat) (h : list (nat * nn_op)) : Prop :=
  match h with [] => True | (t, op) :: r => ~ In a (nn_wr_nodes t op) /\ nn_untouched_node a r end.

Lemma nn_run_cons st t op r :
  nn_run st ((t, op) :: r) =
  match nn_step st t op with
  | HpOk so => match nn_run (fst so) r with HpOk sr => HpOk (fst sr, snd so :: snd sr) | HpPanic w => HpPanic w end
  | HpPanic w => HpPanic w
  end.
Proof. reflexivity. Qed.

Theorem nn_frame_run h : forall st ln ld st' obs,
  nn_inv st -> nn_agree ln ld st -> nn_ws ln ld h = true -> nn_run st h = HpOk (st', obs) ->
  (forall k n, nth_error (nn_names st) k = Some (NnLive n) -> nn_untouched_name k h -> nn_vname st' k = nn_vname st k) /\
  (forall a l, nth_error (nn_nodes st) a = Some (NnLive l) -> nn_untouched_node a h -> nn_vnode st' a = nn_vnode st a).
Proof.
  induction h as [|[t op] r IH]; intros st ln ld st' obs I A W E.
  - cbn [nn_run] in E. injection E as <- <-. split; reflexivity.
  - cbn [nn_ws] in W. destruct (nn_ws_step ln ld t op) as [[ln2 ld2]|] eqn:S; [|discriminate].
    destruct (nn_step_ok st ln ld t op ln2 ld2 I A S) as (st2 & o & E2 & A2 & I2 & _).
    rewrite nn_run_cons, E2 in E. cbn [fst snd] in E.
    destruct (nn_run st2 r) as [[st3 obs3]|] eqn:E3; [|discriminate]. cbn [fst snd] in E. injection E as <- <-.
    destruct (nn_frame_step st ln ld t op ln2 ld2 st2 o I A S E2) as [F1 F2].
    destruct (IH st2 ln2 ld2 st3 obs3 I2 A2 W E3) as [G1 G2]. split.
    + intros k n Ek [U1 U2]. destruct (F1 k n Ek U1) as [Ek2 V]. rewrite (G1 k n Ek2 U2). exact V.
    + intros a l Ea [U1 U2]. destruct (F2 a l Ea U1) as [Ea2 V]. rewrite (G2 a l Ea2 U2). exact V.
Qed.

(* ------------------------------------------------------------------ observations are functions of the views *)
Definition nn_loc_of (start tagged : N) (s : str) : option hp_span :=
  let f := tfi_file_id tagged in if f =? nn_FILE_NONE then None else Some (f, start, start + blen s).

Lemma nn_read_view st t i s start tagged :
  nn_vname st (nn_nidx t i) = Some (s, start, tagged) ->
  nn_step st t (NnRead i) = HpOk (st, NnORead s (nn_loc_of start tagged s) (if tfi_tag tagged then None else Some s)).
Proof.
  unfold nn_vname. intro V. cbn [nn_step].
  destruct (nth_error (nn_names st) (nn_nidx t i)) as [[|n|n]|]; try discriminate V.
  cbn [nn_handle]. destruct (nn_text (nn_heap st) n) as [x|]; [|discriminate V]. injection V as <- <- <-. reflexivity.
Qed.

Lemma nd_read_view st t a s sp :
  nn_vnode st (nn_didx t a) = Some (s, sp) -> nn_step st t (NdRead a) = HpOk (st, NdORead s sp).
Proof.
  unfold nn_vnode, hp_view. intro V. cbn [nn_step].
  destruct (nth_error (nn_nodes st) (nn_didx t a)) as [[|l|l]|]; try discriminate V.
  cbn [nn_handle]. unfold hp_get. destruct (hp_find l (hp_cells (nn_heap st))) as [c|]; [|discriminate V].
  injection V as <- <-. reflexivity.
Qed.

(* ==, hash equality and cmp of names look at the texts only (so never at locations) *)
Lemma nn_cmp_view st t i j a sa ta b sb tb :
  nn_vname st (nn_nidx t i) = Some (a, sa, ta) -> nn_vname st (nn_nidx t j) = Some (b, sb, tb) ->
  nn_step st t (NnCmp i j) = HpOk (st, NnOCmp (nn_str_eqb a b) (nn_str_eqb a b) (nn_str_cmp a b)).
Proof.
  unfold nn_vname. intros V1 V2. cbn [nn_step].
  destruct (nth_error (nn_names st) (nn_nidx t i)) as [[|n|n]|]; try discriminate V1.
  destruct (nth_error (nn_names st) (nn_nidx t j)) as [[|m|m]|]; try discriminate V2.
  cbn [nn_handle]. destruct (nn_text (nn_heap st) n) as [x|]; [|discriminate V1].
  destruct (nn_text (nn_heap st) m) as [y|]; [|discriminate V2].
  injection V1 as <- _ _. injection V2 as <- _ _. reflexivity.
Qed.

Lemma nn_str_cmp_refl s : nn_str_cmp s s = 1.
Proof. induction s as [|x r IH]; cbn [nn_str_cmp]; [reflexivity|]. rewrite N.ltb_irrefl. exact IH. Qed.

(* == and hash equality of nodes: the values only, whatever the two Header.locations are *)
Lemma nd_cmp_view st t a b s1 sp1 s2 sp2 :
  nn_vnode st (nn_didx t a) = Some (s1, sp1) -> nn_vnode st (nn_didx t b) = Some (s2, sp2) ->
  exists peq, nn_step st t (NdCmp a b) = HpOk (st, NdOCmp peq (peq || nn_str_eqb s1 s2) (nn_str_eqb s1 s2)).
Proof.
  unfold nn_vnode, hp_view. intros V1 V2. cbn [nn_step].
  destruct (nth_error (nn_nodes st) (nn_didx t a)) as [[|l|l]|]; try discriminate V1.
  destruct (nth_error (nn_nodes st) (nn_didx t b)) as [[|m|m]|]; try discriminate V2.
  cbn [nn_handle]. unfold hp_get.
  destruct (hp_find l (hp_cells (nn_heap st))) as [c|]; [|discriminate V1].
  destruct (hp_find m (hp_cells (nn_heap st))) as [d|]; [|discriminate V2].
  injection V1 as <- _. injection V2 as <- _. exists (l =? m). reflexivity.
Qed.

(* ------------------------------------------------------------------ what creation, with_location and clone establish *)
Lemma nn_vname_live st k n s :
  nth_error (nn_names st) k = Some (NnLive n) -> nn_text (nn_heap st) n = HpOk s ->
  nn_vname st k = Some (s, nn_start n, nn_tagged n).
Proof. intros E T. unfold nn_vname. rewrite E, T. reflexivity. Qed.

Lemma nn_create_view st ln ld t i ln' ld' op s arc :
  (op = NnNewHeap i s /\ arc = true) \/ (op = NnFromArc i s /\ arc = true) \/
  (exists k, op = NnNewStatic i k /\ s = nth k nn_statics [] /\ arc = false) ->
  nn_inv st -> nn_agree ln ld st -> nn_ws_step ln ld t op = Some (ln', ld') ->
  exists st', nn_step st t op = HpOk (st', NnONone) /\
              nn_vname st' (nn_nidx t i) = Some (s, 0, tfi_pack arc nn_FILE_NONE).
Proof.
  intros Hop I [-> ->] W.
  destruct Hop as [[-> ->]|[[-> ->]|(k & -> & -> & ->)]]; cbn [nn_ws_step] in W;
    (destruct (nn_deadb _ _) eqn:D; [|discriminate]); destruct (nn_deadb_get _ _ D) as (s0 & E0 & Hd);
    cbn [nn_step]; rewrite (nn_in_names_lt _ _ _ E0).
  - destruct (hp_alloc (nn_heap st) s None) as [h l] eqn:Al.
    destruct (hp_alloc_ok _ _ _ _ _ (ni_wf st I) Al) as (_ & _ & _ & _ & Hv & _).
    eexists. split; [reflexivity|]. apply (nn_vname_live _ _ (nn_fresh_name (NnPHeap l) true)).
    + cbn [nn_set_name nn_set_heap nn_names]. apply nn_upd_same. exact (nn_nth_lt _ _ _ E0).
    + rewrite nn_text_view. cbn [nn_fresh_name nn_ptr_of nn_set_name nn_set_heap nn_heap]. rewrite Hv. reflexivity.
  - destruct (hp_alloc (nn_heap st) s None) as [h l] eqn:Al.
    destruct (hp_alloc_ok _ _ _ _ _ (ni_wf st I) Al) as (Hl & W1 & S0 & Hs1 & Hv & _).
    assert (S1 : 1 <= hp_strong_of h l) by (rewrite Hs1, S0; unfold hp_ind; rewrite N.eqb_refl; lia).
    destruct (hp_incr_ok h l W1 S1) as (h2 & E2 & _ & _ & Hv3 & _). rewrite E2.
    eexists. split; [reflexivity|]. apply (nn_vname_live _ _ (nn_fresh_name (NnPHeap l) true)).
    + cbn [nn_set_name nn_names]. apply nn_upd_same. exact (nn_nth_lt _ _ _ E0).
    + rewrite nn_text_view. cbn [nn_fresh_name nn_ptr_of nn_set_name nn_heap]. rewrite Hv3, Hv. reflexivity.
  - eexists. split; [reflexivity|]. apply (nn_vname_live _ _ (nn_fresh_name (NnPStatic (nth k nn_statics [])) false)).
    + cbn [nn_set_name nn_names]. apply nn_upd_same. exact (nn_nth_lt _ _ _ E0).
    + reflexivity.
Qed.

Lemma nn_with_loc_view st ln ld t i file start ln' ld' s s0 tg :
  nn_inv st -> nn_agree ln ld st -> nn_ws_step ln ld t (NnWithLoc i file start) = Some (ln', ld') ->
  nn_vname st (nn_nidx t i) = Some (s, s0, tg) ->
  exists st', nn_step st t (NnWithLoc i file start) = HpOk (st', NnONone) /\
    nn_vname st' (nn_nidx t i) = Some (s, start, tfi_pack (tfi_tag tg) file) /\
    tfi_file_id (tfi_pack (tfi_tag tg) file) = file /\ tfi_tag (tfi_pack (tfi_tag tg) file) = tfi_tag tg.
Proof.
  intros I [-> ->] W V. cbn [nn_ws_step] in W.
  destruct (nn_livb _ _) eqn:L; [|discriminate]. destruct (nn_file_ok file) eqn:F; [|discriminate].
  destruct (nn_livb_get _ _ L) as (n & E). unfold nn_vname in V. rewrite E in V.
  destruct (nn_text (nn_heap st) n) as [x|] eqn:T; [|discriminate V]. injection V as <- <- <-.
  cbn [nn_step]. rewrite E. cbn [nn_handle]. eexists. split; [reflexivity|]. split.
  - apply (nn_vname_live _ _ (NnName (nn_ptr_of n) start (tfi_pack (tfi_tag (nn_tagged n)) file))).
    + cbn [nn_set_name nn_names]. apply nn_upd_same. exact (nn_nth_lt _ _ _ E).
    + rewrite nn_text_view in *. cbn [nn_ptr_of nn_set_name nn_heap]. exact T.
  - unfold nn_file_ok in F. assert (0 < file /\ file < fi_TAGN) as [F1 F2] by lia.
    destruct (pack_roundtrip file (tfi_tag (nn_tagged n)) F1 F2) as (R1 & R2 & _). split; assumption.
Qed.

Lemma nn_clone_view st ln ld t i j ln' ld' v :
  nn_inv st -> nn_agree ln ld st -> nn_ws_step ln ld t (NnClone i j) = Some (ln', ld') ->
  nn_vname st (nn_nidx t i) = Some v ->
  exists st', nn_step st t (NnClone i j) = HpOk (st', NnONone) /\
    nn_vname st' (nn_nidx t j) = Some v /\ nn_vname st' (nn_nidx t i) = Some v.
Proof.
  intros I A W V. pose proof A as [-> ->]. pose proof W as W0. cbn [nn_ws_step] in W.
  destruct (nn_livb _ _) eqn:L; [|discriminate]. destruct (nn_deadb _ _) eqn:D; [|discriminate].
  destruct (nn_livb_get _ _ L) as (n & E). destruct (nn_deadb_get _ _ D) as (s0 & E0 & Hd).
  assert (Hij : nn_nidx t i <> nn_nidx t j) by (intro Q; rewrite Q in E; rewrite E in E0; injection E0 as <-; discriminate Hd).
  destruct (nn_step_ok st _ _ t (NnClone i j) ln' ld' I A W0) as (st' & o & Es & _ & I' & Fn & _ & Pres).
  assert (o = NnONone /\ nth_error (nn_names st') (nn_nidx t j) = Some (NnLive n)) as [-> Ej].
  { cbn [nn_step] in Es. rewrite E in Es. cbn [nn_handle] in Es. rewrite (nn_in_names_lt _ _ _ E0) in Es.
    destruct (nn_clone_into st _ n _ s0 I E E0 Hd) as (st2 & C & N2 & _). rewrite C in Es. injection Es as <- <-.
    split; [reflexivity|]. cbn [nn_set_name nn_names]. rewrite N2. apply nn_upd_same. exact (nn_nth_lt _ _ _ E0). }
  exists st'. split; [exact Es|].
  destruct (nn_frame_step st _ _ t (NnClone i j) ln' ld' st' NnONone I A W0 Es) as [F1 _].
  assert (Hni : ~ In (nn_nidx t i) (nn_wr_names t (NnClone i j))) by (cbn [nn_wr_names]; intros [Q|[]]; congruence).
  destruct (F1 _ n E Hni) as [Ei Vi]. rewrite V in Vi. split; [|exact Vi].
  unfold nn_vname in *. rewrite Ej. rewrite Ei in Vi. exact Vi.
Qed.

(* make_mut then write: the writing handle reads the new value at its old location *)
Lemma nn_make_mut_view st ln ld t a s ln' ld' old sp :
  nn_inv st -> nn_agree ln ld st -> nn_ws_step ln ld t (NdMakeMut a s) = Some (ln', ld') ->
  nn_vnode st (nn_didx t a) = Some (old, sp) ->
  exists st', nn_step st t (NdMakeMut a s) = HpOk (st', NnONone) /\ nn_vnode st' (nn_didx t a) = Some (s, sp).
Proof.
  intros I [-> ->] W V. cbn [nn_ws_step] in W. destruct (nn_livb _ _) eqn:L; [|discriminate].
  destruct (nn_livb_get _ _ L) as (l & E). pose proof (nn_live_node_strong st _ l I E) as S.
  destruct (hp_get_ok _ l S) as (c & G & Hc & Vc). unfold nn_vnode in V. rewrite E, Vc in V. injection V as <- <-.
  cbn [nn_step]. rewrite E. cbn [nn_handle]. rewrite G.
  destruct (N.eqb_spec (hp_strong c) 1) as [U|NU].
  - destruct (hp_set_text_ok _ l s (ni_wf st I) S) as (h2 & E2 & _ & _ & (o1 & sp1 & V1 & V2) & _). rewrite E2.
    eexists. split; [reflexivity|]. unfold nn_vnode. cbn [nn_set_heap nn_nodes nn_heap]. rewrite E, V2.
    rewrite Vc in V1. injection V1 as _ <-. reflexivity.
  - destruct (hp_alloc (nn_heap st) (hp_text c) (hp_span_of c)) as [h1 l2] eqn:Al.
    destruct (hp_alloc_ok _ _ _ _ _ (ni_wf st I) Al) as (Hl & W1 & S0 & Hs1 & Hv1 & Hv2 & Hn1).
    assert (Hne : l <> l2) by (intro Q; subst l2; rewrite Q in S; lia).
    assert (S1 : 1 <= hp_strong_of h1 l) by (rewrite Hs1; lia).
    destruct (hp_decr_ok h1 l W1 S1) as (h2 & E2 & W2 & Hs2 & Hv3 & Hn2). rewrite E2.
    assert (S2 : 1 <= hp_strong_of h2 l2).
    { pose proof (Hs2 l2) as Q. pose proof (Hs1 l2) as Q1. unfold hp_ind in *.
      rewrite N.eqb_refl in Q1. destruct (N.eqb_spec l2 l); [congruence|]. lia. }
    destruct (hp_set_text_ok h2 l2 s W2 S2) as (h3 & E3 & _ & _ & (o1 & sp1 & V1 & V2) & _). rewrite E3.
    eexists. split; [reflexivity|]. unfold nn_vnode. cbn [nn_set_node nn_set_heap nn_nodes nn_heap].
    rewrite nn_upd_same by exact (nn_nth_lt _ _ _ E). rewrite V2.
    rewrite (Hv3 l2) in V1 by (left; congruence). rewrite Hv1 in V1. injection V1 as _ <-. reflexivity.
Qed.

(* ------------------------------------------------------------------ interleavings *)
(* l is an interleaving of the histories hs (each keeps its order) *)
Inductive nn_shuffle : list (list (nat * nn_op)) -> list (nat * nn_op) -> Prop :=
| NnShDone hs : Forall (fun h => h = []) hs -> nn_shuffle hs []
| NnShStep hs1 x r hs2 l : nn_shuffle (hs1 ++ r :: hs2) l -> nn_shuffle (hs1 ++ (x :: r) :: hs2) (x :: l).

Theorem nn_safe_interleavings : forall (threads : nat) (hs : list (list (nat * nn_op))) (l : list (nat * nn_op)),
  nn_shuffle hs l -> nn_well_scoped threads l = true ->
  exists st obs st', nn_run (nn_init threads) l = HpOk (st, obs) /\
    (forall x, hp_strong_of (nn_heap st) x = nn_refs st x) /\
    nn_drop_all st = HpOk st' /\ hp_live_count (nn_heap st') = 0.
Proof.
  intros threads hs l _ W.
  destruct (nn_run_ok l _ _ _ (nn_inv_init threads) (nn_agree_init threads) W) as (st & obs & ? & ? & E & I & _).
  destruct (nn_no_leak_inv st I) as (st' & D & _ & L). exists st, obs, st'. split; [exact E|].
  split; [exact (ni_bal st I)|]. split; assumption.
Qed.
