(* C30 — a reference-counted heap: allocations loc -> (strong count, payload), a freed set.
   What Arc<str> (std) and triomphe::Arc<HeaderSlice<Header, T>> provide to name.rs / node.rs, reduced to
   counts, liveness and payloads.  An access to a location that is not allocated is a Panic "use after free";
   releasing a location that was already freed is a Panic "double free".
   Definitions only (extracted).  Proofs: Mem/HeapProofs.v. *)
From ApolloVerif Require Import Base.Chars.

Definition hp_span := (N * N * N)%type.          (* file id, start offset, end offset *)

Record hp_cell := HpCell { hp_strong : N; hp_text : str; hp_span_of : option hp_span }.
Record hp_heap := HpHeap { hp_cells : list (N * hp_cell); hp_freed : list N; hp_next : N }.

Inductive hp_why := HpUseAfterFree | HpDoubleFree.
Inductive hp_res (A : Type) := HpOk (a : A) | HpPanic (w : hp_why).
Arguments HpOk {A} a.
Arguments HpPanic {A} w.

Definition hp_empty : hp_heap := HpHeap [] [] 0.

Fixpoint hp_find (l : N) (cs : list (N * hp_cell)) : option hp_cell :=
  match cs with
  | [] => None
  | (k, c) :: r => if k =? l then Some c else hp_find l r
  end.

(* replace the cell at l (no effect if l is not allocated) *)
Fixpoint hp_put (l : N) (c : hp_cell) (cs : list (N * hp_cell)) : list (N * hp_cell) :=
  match cs with
  | [] => []
  | (k, d) :: r => if k =? l then (k, c) :: r else (k, d) :: hp_put l c r
  end.

Fixpoint hp_del (l : N) (cs : list (N * hp_cell)) : list (N * hp_cell) :=
  match cs with
  | [] => []
  | (k, d) :: r => if k =? l then hp_del l r else (k, d) :: hp_del l r
  end.

Definition hp_alloc (h : hp_heap) (text : str) (span : option hp_span) : hp_heap * N :=
  (HpHeap ((hp_next h, HpCell 1 text span) :: hp_cells h) (hp_freed h) (hp_next h + 1), hp_next h).

Definition hp_get (h : hp_heap) (l : N) : hp_res hp_cell :=
  match hp_find l (hp_cells h) with Some c => HpOk c | None => HpPanic HpUseAfterFree end.

(* Arc::clone *)
Definition hp_incr (h : hp_heap) (l : N) : hp_res hp_heap :=
  match hp_find l (hp_cells h) with
  | Some c => HpOk (HpHeap (hp_put l (HpCell (hp_strong c + 1) (hp_text c) (hp_span_of c)) (hp_cells h))
                           (hp_freed h) (hp_next h))
  | None => HpPanic HpUseAfterFree
  end.

(* drop of one Arc handle: the last one frees the allocation *)
Definition hp_decr (h : hp_heap) (l : N) : hp_res hp_heap :=
  match hp_find l (hp_cells h) with
  | Some c =>
      if hp_strong c <=? 1 then HpOk (HpHeap (hp_del l (hp_cells h)) (l :: hp_freed h) (hp_next h))
      else HpOk (HpHeap (hp_put l (HpCell (hp_strong c - 1) (hp_text c) (hp_span_of c)) (hp_cells h))
                        (hp_freed h) (hp_next h))
  | None => HpPanic (if existsb (N.eqb l) (hp_freed h) then HpDoubleFree else HpUseAfterFree)
  end.

(* write through a unique reference *)
Definition hp_set_text (h : hp_heap) (l : N) (s : str) : hp_res hp_heap :=
  match hp_find l (hp_cells h) with
  | Some c => HpOk (HpHeap (hp_put l (HpCell (hp_strong c) s (hp_span_of c)) (hp_cells h)) (hp_freed h) (hp_next h))
  | None => HpPanic HpUseAfterFree
  end.

Definition hp_strong_of (h : hp_heap) (l : N) : N :=
  match hp_find l (hp_cells h) with Some c => hp_strong c | None => 0 end.

Definition hp_live_count (h : hp_heap) : N := N.of_nat (length (hp_cells h)).
