(* Renaming of extension ids, the canonical (per type / per schema definition) numbering by discovery
   order, schema equivalence up to renaming, and the decidable class of schemas on which D10 bites. *)
From ApolloVerif Require Import Base.Chars Ast.Ast Schema.Model Schema.Build Schema.ToAst.

(* ---------------------------------------------------------------- renaming *)
Definition rn_origin (f : N -> N) (o : origin) : origin :=
  match o with ODef => ODef | OExt i => OExt (f i) end.

Definition rn_comps {A : Type} (f : N -> N) (l : list (comp A)) : list (comp A) :=
  map (fun c => mkcomp (rn_origin f (c_origin c)) (c_val c)) l.

Definition rn_type (f : N -> N) (t : ext_type) : ext_type :=
  match t with
  | EScalar d n dirs b => EScalar d n (rn_comps f dirs) b
  | EObject d n impls dirs fields b => EObject d n (rn_comps f impls) (rn_comps f dirs) (rn_comps f fields) b
  | EInterface d n impls dirs fields b =>
    EInterface d n (rn_comps f impls) (rn_comps f dirs) (rn_comps f fields) b
  | EUnion d n dirs members b => EUnion d n (rn_comps f dirs) (rn_comps f members) b
  | EEnum d n dirs values b => EEnum d n (rn_comps f dirs) (rn_comps f values) b
  | EInput d n dirs fields b => EInput d n (rn_comps f dirs) (rn_comps f fields) b
  end.

Definition rn_opt {A : Type} (f : N -> N) (c : option (comp A)) : option (comp A) :=
  match c with Some c => Some (mkcomp (rn_origin f (c_origin c)) (c_val c)) | None => None end.

Definition rn_sd (f : N -> N) (sd : schema_def) : schema_def :=
  {| sd_desc := sd_desc sd; sd_dirs := rn_comps f (sd_dirs sd); sd_query := rn_opt f (sd_query sd);
     sd_mutation := rn_opt f (sd_mutation sd); sd_subscription := rn_opt f (sd_subscription sd) |}.

Definition rn_schema (f : N -> N) (s : schema) : schema :=
  {| sch_def := rn_sd f (sch_def s); sch_dirdefs := sch_dirdefs s; sch_types := map (rn_type f) (sch_types s) |}.

(* ---------------------------------------------------------------- canonical numbering *)
Fixpoint cn_index (i : N) (l : list N) : N :=
  match l with
  | [] => 0
  | j :: r => if i =? j then 0 else 1 + cn_index i r
  end.

(* every type (and the schema definition) numbered on its own, by the discovery order of its extensions *)
Definition cn_type (t : ext_type) : ext_type :=
  let disc := ta_type_extensions t in rn_type (fun i => cn_index i disc) t.

Definition cn_sd (sd : schema_def) : schema_def :=
  let disc := ta_sd_extensions sd in rn_sd (fun i => cn_index i disc) sd.

Definition sch_canon (s : schema) : schema :=
  {| sch_def := cn_sd (sch_def s); sch_dirdefs := sch_dirdefs s; sch_types := map cn_type (sch_types s) |}.

(* equal including every order and the partition of the components of each type into definition and
   extensions, up to a renaming of the extension ids *)
Definition sch_equiv (a b : schema) : Prop := sch_canon a = sch_canon b.

(* ---------------------------------------------------------------- the class of D10 *)
(* position of a component in the re-built list: the definition's components come first, then those of
   the extensions in the order `disc` in which `extensions()` discovers them *)
Definition c12_rank (disc : list N) (o : origin) : N :=
  match o with ODef => 0 | OExt i => 1 + cn_index i disc end.

Fixpoint c12_nondecr (l : list N) : bool :=
  match l with
  | a :: (b :: _) as r => (a <=? b) && c12_nondecr r
  | _ => true
  end.

(* the list is already in the order in which it will be re-built *)
Definition c12_list_ok {A : Type} (disc : list N) (l : list (comp A)) : bool :=
  c12_nondecr (map (fun c => c12_rank disc (c_origin c)) l).

Definition c12_type_ok (t : ext_type) : bool :=
  let disc := ta_type_extensions t in
  match t with
  | EScalar _ _ dirs _ => c12_list_ok disc dirs
  | EObject _ _ impls dirs fields _ | EInterface _ _ impls dirs fields _ =>
    c12_list_ok disc dirs && c12_list_ok disc impls && c12_list_ok disc fields
  | EUnion _ _ dirs members _ => c12_list_ok disc dirs && c12_list_ok disc members
  | EEnum _ _ dirs values _ => c12_list_ok disc dirs && c12_list_ok disc values
  | EInput _ _ dirs fields _ => c12_list_ok disc dirs && c12_list_ok disc fields
  end.

Definition c12_sd_ok (sd : schema_def) : bool := c12_list_ok (ta_sd_extensions sd) (sd_dirs sd).

(* Known_C12: some component list is not in the order [components of the definition; components of the
   extensions, grouped, in discovery order].  For a schema returned by the builder (every list = the
   definition's components followed by one block per applied extension, in application order) this says:
   two extensions that contribute to a common component list are discovered (directives, then
   interfaces, then fields / values / members) in the opposite order — the defect D10.  (The directive
   list of the schema definition is discovered first, so for built schemas c12_sd_ok always holds.) *)
Definition c12_known (s : schema) : bool :=
  negb (forallb c12_type_ok (sch_types s) && c12_sd_ok (sch_def s)).
