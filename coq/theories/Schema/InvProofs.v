(* The invariant of the schema builder that makes every schema it returns well-formed in the sense of
   RebuildProofs.rb_wf (C12, part I): component lists are built by appending blocks (the definition's
   components, then one block per applied extension, extension ids increasing), map keys stay unique,
   built-in definitions are only ever extended. *)
From ApolloVerif Require Import Base.Chars Ast.Ast Schema.Model Schema.Build Schema.ToAst Schema.Canon
  Schema.BuildProofs Schema.CanonProofs Schema.RebuildProofs.
From Coq Require Import Sorting.Sorted.

(* ---------------------------------------------------------------- origins in increasing order *)
Definition iv_rank (o : origin) : N := match o with ODef => 0 | OExt i => i + 1 end.

Definition iv_ranks {A} (L : list (comp A)) : list N := map (fun c => iv_rank (c_origin c)) L.

(* definition components first, then extension components with non-decreasing ids, all below `next` *)
Definition iv_olist {A} (next : N) (L : list (comp A)) : Prop :=
  StronglySorted N.le (iv_ranks L) /\ Forall (fun r => r <= next) (iv_ranks L).

Lemma StronglySorted_app_block (l : list N) (x : N) (k : nat) :
  StronglySorted N.le l -> Forall (fun r => r <= x) l -> StronglySorted N.le (l ++ repeat x k).
Proof.
  induction l as [|a l IH]; cbn; intros Hs Hf.
  - induction k as [|k IHk]; cbn; constructor; [exact IHk|]. apply Forall_forall. intros y Hy.
    apply repeat_spec in Hy. subst. apply N.le_refl.
  - inversion Hs as [|? ? Hs' Ha]; subst. inversion Hf as [|? ? Hax Hf']; subst.
    constructor; [apply IH; assumption|]. apply Forall_app. split; [exact Ha|].
    apply Forall_forall. intros y Hy. apply repeat_spec in Hy. subst. exact Hax.
Qed.

Lemma iv_ranks_block {A} o (xs : list A) : iv_ranks (map (mkcomp o) xs) = repeat (iv_rank o) (length xs).
Proof. unfold iv_ranks. rewrite map_map. cbn. induction xs; cbn; [reflexivity|f_equal; assumption]. Qed.

Lemma iv_olist_app_block {A} next (L : list (comp A)) xs :
  iv_olist next L -> iv_olist (next + 1) (L ++ map (mkcomp (OExt next)) xs).
Proof.
  intros [Hs Hf]. unfold iv_olist, iv_ranks in *. rewrite map_app. fold (iv_ranks (map (mkcomp (OExt next)) xs)).
  rewrite iv_ranks_block. cbn [iv_rank]. split.
  - apply StronglySorted_app_block; [exact Hs|]. eapply Forall_impl; [|exact Hf]. cbn. intros; lia.
  - apply Forall_app. split; [eapply Forall_impl; [|exact Hf]; cbn; intros; lia|].
    apply Forall_forall. intros y Hy. apply repeat_spec in Hy. subst. lia.
Qed.

Lemma iv_olist_mono {A} n m (L : list (comp A)) : n <= m -> iv_olist n L -> iv_olist m L.
Proof. intros Hnm [Hs Hf]. split; [exact Hs|]. eapply Forall_impl; [|exact Hf]. cbn. intros; lia. Qed.

Lemma iv_olist_def {A} n (xs : list A) : iv_olist n (map (mkcomp ODef) xs).
Proof.
  unfold iv_olist. rewrite iv_ranks_block. cbn [iv_rank]. split.
  - apply (StronglySorted_app_block [] 0 (length xs)); constructor.
  - apply Forall_forall. intros y Hy. apply repeat_spec in Hy. subst. lia.
Qed.

Lemma iv_olist_nil {A} n : iv_olist n (@nil (comp A)).
Proof. split; constructor. Qed.

Lemma NoDup_snoc_local {A} (l : list A) x : NoDup l -> ~ In x l -> NoDup (l ++ [x]).
Proof.
  induction l as [|y l IH]; cbn; intros H Hx.
  - constructor; [tauto|constructor].
  - inversion H as [|? ? Hy Hl]; subst. constructor.
    + rewrite in_app_iff. cbn. intuition.
    + apply IH; [exact Hl|tauto].
Qed.

(* ---------------------------------------------------------------- the shape of a sticky extension *)
Lemma sb_extend_sticky_shape {A} (key : A -> str) o (new : list A) : forall L,
  exists kept, fst (sb_extend_sticky key o L new) = L ++ map (mkcomp o) kept /\
               (rb_keys key L -> rb_keys key (L ++ map (mkcomp o) kept)).
Proof.
  induction new as [|x new IH]; intros L; cbn [sb_extend_sticky].
  - exists []. cbn. rewrite app_nil_r. auto.
  - destruct (sb_has key (key x) L) eqn:E.
    + destruct (IH L) as [kept [H1 H2]]. exists kept. destruct (sb_extend_sticky key o L new). cbn in *. auto.
    + destruct (IH (L ++ [mkcomp o x])) as [kept [H1 H2]]. exists (x :: kept). cbn [map]. split.
      * rewrite H1, <- app_assoc. reflexivity.
      * intros Hk. replace (L ++ mkcomp o x :: map (mkcomp o) kept) with ((L ++ [mkcomp o x]) ++ map (mkcomp o) kept)
          by (rewrite <- app_assoc; reflexivity).
        apply H2. unfold rb_keys in *. rewrite map_app. cbn [map c_val].
        apply NoDup_snoc_local; [exact Hk|].
        intros Hin. apply in_map_iff in Hin. destruct Hin as [c [Hc Hin]].
        apply (proj1 (sb_has_false key (key x) L) E c Hin). exact Hc.
Qed.

(* ---------------------------------------------------------------- a type *)
Definition iv_type_olists (next : N) (t : ext_type) : Prop :=
  match t with
  | EScalar _ _ dirs _ => iv_olist next dirs
  | EObject _ _ impls dirs fields _ | EInterface _ _ impls dirs fields _ =>
    iv_olist next impls /\ iv_olist next dirs /\ iv_olist next fields
  | EUnion _ _ dirs members _ => iv_olist next dirs /\ iv_olist next members
  | EEnum _ _ dirs values _ => iv_olist next dirs /\ iv_olist next values
  | EInput _ _ dirs fields _ => iv_olist next dirs /\ iv_olist next fields
  end.

Definition iv_type (next : N) (t : ext_type) : Prop := rb_type_keys t /\ iv_type_olists next t.

(* the definition's part of a type: what the type was before any extension was applied *)
Definition iv_defpart (t : ext_type) : ext_type := rb_type_partial (fun i => i) t [].

Lemma iv_type_mono n m t : n <= m -> iv_type n t -> iv_type m t.
Proof.
  intros Hnm [Hk Ho]. split; [exact Hk|]. destruct t; cbn [iv_type_olists] in *;
    repeat match goal with H : _ /\ _ |- _ => destruct H end; repeat split; eapply iv_olist_mono; eassumption.
Qed.

Lemma ta_components_app {A} ext (a b : list (comp A)) :
  ta_components ext (a ++ b) = ta_components ext a ++ ta_components ext b.
Proof. unfold ta_components. rewrite filter_app, map_app. reflexivity. Qed.

Lemma ta_components_def_block {A} i (xs : list A) : ta_components None (map (mkcomp (OExt i)) xs) = [].
Proof. unfold ta_components. induction xs; cbn; [reflexivity|assumption]. Qed.

Lemma rb_part_nil_app_block {A} (L : list (comp A)) i xs :
  rb_part (L ++ map (mkcomp (OExt i)) xs) (fun j => j) [] = rb_part L (fun j => j) [].
Proof. unfold rb_part. rewrite ta_components_app, ta_components_def_block, (app_nil_r (ta_components None L)). reflexivity. Qed.

Ltac iv_sticky key o L new :=
  let kept := fresh "kept" in let H1 := fresh "Hshape" in let H2 := fresh "Hkeys" in
  destruct (sb_extend_sticky_shape key o new L) as [kept [H1 H2]];
  destruct (sb_extend_sticky key o L new) as [? ?]; cbn [fst] in H1; subst.

Lemma iv_extend_type next t x t' e :
  iv_type next t -> sb_extend_type next t x = Some (t', e) ->
  iv_type (next + 1) t' /\ iv_defpart t' = iv_defpart t.
Proof.
  intros [Hk Ho] Hx. destruct t, x; cbn [sb_extend_type] in Hx; try discriminate;
    cbn [rb_type_keys iv_type_olists] in Hk, Ho; repeat match goal with H : _ /\ _ |- _ => destruct H end.
  - injection Hx as <- <-. split; [split; [exact I|]|].
    + cbn [iv_type_olists]. apply iv_olist_app_block. assumption.
    + unfold iv_defpart, sb_comp_dirs. cbn [rb_type_partial]. rewrite rb_part_nil_app_block. reflexivity.
  - iv_sticky sb_name_key (OExt next) impls impls0. iv_sticky fd_name (OExt next) fields fields0.
    injection Hx as <- <-. split; [split|].
    + cbn [rb_type_keys]. auto.
    + cbn [iv_type_olists]. repeat split; apply iv_olist_app_block; assumption.
    + unfold iv_defpart, sb_comp_dirs. cbn [rb_type_partial]. rewrite !rb_part_nil_app_block. reflexivity.
  - iv_sticky sb_name_key (OExt next) impls impls0. iv_sticky fd_name (OExt next) fields fields0.
    injection Hx as <- <-. split; [split|].
    + cbn [rb_type_keys]. auto.
    + cbn [iv_type_olists]. repeat split; apply iv_olist_app_block; assumption.
    + unfold iv_defpart, sb_comp_dirs. cbn [rb_type_partial]. rewrite !rb_part_nil_app_block. reflexivity.
  - iv_sticky sb_name_key (OExt next) members members0.
    injection Hx as <- <-. split; [split|].
    + cbn [rb_type_keys]. auto.
    + cbn [iv_type_olists]. repeat split; apply iv_olist_app_block; assumption.
    + unfold iv_defpart, sb_comp_dirs. cbn [rb_type_partial]. rewrite !rb_part_nil_app_block. reflexivity.
  - iv_sticky ev_value (OExt next) values values0.
    injection Hx as <- <-. split; [split|].
    + cbn [rb_type_keys]. auto.
    + cbn [iv_type_olists]. repeat split; apply iv_olist_app_block; assumption.
    + unfold iv_defpart, sb_comp_dirs. cbn [rb_type_partial]. rewrite !rb_part_nil_app_block. reflexivity.
  - iv_sticky iv_name (OExt next) fields fields0.
    injection Hx as <- <-. split; [split|].
    + cbn [rb_type_keys]. auto.
    + cbn [iv_type_olists]. repeat split; apply iv_olist_app_block; assumption.
    + unfold iv_defpart, sb_comp_dirs. cbn [rb_type_partial]. rewrite !rb_part_nil_app_block. reflexivity.
Qed.

Lemma rb_keys_nil {A} (key : A -> str) : rb_keys key [].
Proof. constructor. Qed.

Lemma iv_type_of_def d t e n : sb_type_of_def d = Some (t, e) -> iv_type n t.
Proof.
  intros Hd. destruct d; cbn [sb_type_of_def] in Hd; try discriminate; unfold sb_comp_dirs in Hd.
  - injection Hd as <- <-. split; [exact I|apply iv_olist_def].
  - iv_sticky sb_name_key ODef (@nil (comp str)) impls. iv_sticky fd_name ODef (@nil (comp fielddef)) fields.
    injection Hd as <- <-. split; [split; [apply Hkeys|apply Hkeys0]; apply rb_keys_nil|].
    cbn [iv_type_olists app]. repeat match goal with |- _ /\ _ => split end; apply iv_olist_def.
  - iv_sticky sb_name_key ODef (@nil (comp str)) impls. iv_sticky fd_name ODef (@nil (comp fielddef)) fields.
    injection Hd as <- <-. split; [split; [apply Hkeys|apply Hkeys0]; apply rb_keys_nil|].
    cbn [iv_type_olists app]. repeat match goal with |- _ /\ _ => split end; apply iv_olist_def.
  - iv_sticky sb_name_key ODef (@nil (comp str)) members.
    injection Hd as <- <-. split; [apply Hkeys, rb_keys_nil|].
    cbn [iv_type_olists app]. repeat match goal with |- _ /\ _ => split end; apply iv_olist_def.
  - iv_sticky ev_value ODef (@nil (comp enumvaldef)) values.
    injection Hd as <- <-. split; [apply Hkeys, rb_keys_nil|].
    cbn [iv_type_olists app]. repeat match goal with |- _ /\ _ => split end; apply iv_olist_def.
  - iv_sticky iv_name ODef (@nil (comp inputvaldef)) fields.
    injection Hd as <- <-. split; [apply Hkeys, rb_keys_nil|].
    cbn [iv_type_olists app]. repeat match goal with |- _ /\ _ => split end; apply iv_olist_def.
Qed.

Lemma iv_apply_queued q : forall t next t' n' e,
  iv_type next t -> sb_apply_queued t next q = (t', n', e) ->
  iv_type n' t' /\ next <= n' /\ iv_defpart t' = iv_defpart t.
Proof.
  induction q as [|x q IH]; intros t next t' n' e Ht; cbn [sb_apply_queued].
  - intros [= <- <- <-]. split; [exact Ht|]. split; [lia|reflexivity].
  - destruct (sb_extend_type next t x) as [[t1 e1]|] eqn:E.
    + destruct (sb_apply_queued t1 (next + 1) q) as [[t2 n2] e2] eqn:E2. intros [= <- <- <-].
      destruct (iv_extend_type _ _ _ _ _ Ht E) as [Ht1 Hd1].
      destruct (IH _ _ _ _ _ Ht1 E2) as [Ht2 [Hle Hd2]]. split; [exact Ht2|]. split; [lia|congruence].
    + apply IH. exact Ht.
Qed.

Lemma iv_empty_type k n next : iv_type next (sb_empty_type k n).
Proof.
  destruct k; split; cbn [sb_empty_type rb_type_keys iv_type_olists];
    repeat match goal with |- _ /\ _ => split end; try apply rb_keys_nil; try apply iv_olist_nil; exact Logic.I.
Qed.

Lemma iv_adopt_loop k q : forall t next t' n' e,
  iv_type next t -> sb_adopt_loop k t next q = Some (t', n', e) -> iv_type n' t' /\ next <= n' /\ et_name t' = et_name t
  /\ et_builtin t' = et_builtin t.
Proof.
  induction q as [|x q IH]; intros t next t' n' e Ht; cbn [sb_adopt_loop].
  - intros [= <- <- <-]. split; [exact Ht|]. split; [lia|auto].
  - destruct (sb_extend_type next t x) as [[t1 e1]|] eqn:E.
    + destruct (sb_adopt_loop k t1 (next + 1) q) as [[[t2 n2] e2]|] eqn:E2; [|discriminate]. intros [= <- <- <-].
      destruct (iv_extend_type _ _ _ _ _ Ht E) as [Ht1 _].
      destruct (sb_extend_type_some _ _ _ _ _ E) as [Hn1 [Hb1 _]].
      destruct (IH _ _ _ _ _ Ht1 E2) as [Ht2 [Hle [Hn2 Hb2]]]. split; [exact Ht2|]. split; [lia|]. split; congruence.
    + destruct (sb_ext_name x), (sb_ext_kind x); try discriminate.
      destruct (sb_adopt_loop k t next q) as [[[t2 n2] e2]|] eqn:E2; [|discriminate]. intros [= <- <- <-].
      apply (IH _ _ _ _ _ Ht E2).
Qed.

Lemma iv_adopt n next q t n' e :
  sb_adopt n next q = Some (t, n', e) -> iv_type n' t /\ next <= n' /\ et_name t = n /\ et_builtin t = false.
Proof.
  unfold sb_adopt. destruct q as [|x q]; [discriminate|]. destruct (sb_ext_kind x) as [k|]; [|discriminate].
  intros H. destruct (iv_adopt_loop k (x :: q) _ _ _ _ _ (iv_empty_type k n next) H) as [H1 [H2 [H3 H4]]].
  split; [exact H1|]. split; [exact H2|]. destruct k; cbn in *; auto.
Qed.

(* ---------------------------------------------------------------- the types map *)
Definition iv_types (T0 T : list ext_type) (next : N) : Prop :=
  NoDup (map et_name T) /\ Forall (iv_type next) T /\
  exists Du, map iv_defpart T = T0 ++ Du /\ Forall (fun t => et_builtin t = false) Du.

Lemma sb_update_type_names n t' T : et_name t' = n -> map et_name (sb_update_type n t' T) = map et_name T.
Proof.
  intros H. induction T as [|t T IH]; cbn; [reflexivity|].
  destruct (streq n (et_name t)) eqn:E; cbn; [|f_equal; exact IH]. apply streq_eq in E. congruence.
Qed.

Lemma sb_update_type_defparts n t' T t :
  sch_find_type n T = Some t -> iv_defpart t' = iv_defpart t ->
  map iv_defpart (sb_update_type n t' T) = map iv_defpart T.
Proof.
  induction T as [|t0 T IH]; cbn; [discriminate|].
  destruct (streq n (et_name t0)); [intros [= ->] H; cbn; congruence|]. intros H1 H2. cbn. f_equal. apply IH; assumption.
Qed.

Lemma sb_update_type_Forall (P : ext_type -> Prop) n t' T : Forall P T -> P t' -> Forall P (sb_update_type n t' T).
Proof.
  intros HT Ht. induction HT as [|t T Hp HT IH]; cbn; [constructor|].
  destruct (streq n (et_name t)); constructor; assumption.
Qed.

Lemma iv_types_mono T0 T n m : n <= m -> iv_types T0 T n -> iv_types T0 T m.
Proof.
  intros Hnm [H1 [H2 H3]]. split; [exact H1|]. split; [|exact H3].
  eapply Forall_impl; [|exact H2]. intros t. apply iv_type_mono, Hnm.
Qed.

Lemma iv_types_update T0 T next next' n t t' :
  iv_types T0 T next -> sch_find_type n T = Some t -> iv_type next' t' -> next <= next' ->
  et_name t' = n -> iv_defpart t' = iv_defpart t -> iv_types T0 (sb_update_type n t' T) next'.
Proof.
  intros [H1 [H2 [Du [H3 H4]]]] Hf Ht' Hle Hn Hd. split; [|split].
  - rewrite sb_update_type_names by exact Hn. exact H1.
  - apply sb_update_type_Forall; [|exact Ht']. eapply Forall_impl; [|exact H2]. intros x. apply iv_type_mono, Hle.
  - exists Du. rewrite (sb_update_type_defparts _ _ _ _ Hf Hd). auto.
Qed.

Lemma iv_defpart_builtin t : et_builtin (iv_defpart t) = et_builtin t.
Proof. apply rb_type_partial_props. Qed.

Lemma iv_types_snoc T0 T next next' t1 :
  iv_types T0 T next -> sch_find_type (et_name t1) T = None -> et_builtin t1 = false ->
  iv_type next' t1 -> next <= next' -> iv_types T0 (T ++ [t1]) next'.
Proof.
  intros [H1 [H2 [Du [H3 H4]]]] Hf Hb Ht Hle. split; [|split].
  - rewrite map_app. cbn [map]. apply NoDup_snoc_local; [exact H1|]. apply sch_find_type_none, Hf.
  - apply Forall_app. split; [|constructor; [exact Ht|constructor]].
    eapply Forall_impl; [|exact H2]. intros x. apply iv_type_mono, Hle.
  - exists (Du ++ [iv_defpart t1]). rewrite map_app, H3, <- app_assoc. split; [reflexivity|].
    apply Forall_app. split; [exact H4|]. constructor; [|constructor]. rewrite iv_defpart_builtin. exact Hb.
Qed.

Lemma iv_types_find T0 T next n t : iv_types T0 T next -> sch_find_type n T = Some t -> iv_type next t.
Proof.
  intros [_ [H _]] Hf. rewrite Forall_forall in H. apply H. apply (sb_find_type_name _ _ _ Hf).
Qed.

(* ---------------------------------------------------------------- directive definitions *)
Lemma iv_dirdefs_append D0 D dd :
  rb_dirdefs_wf D0 D -> sch_find_dirdef (dd_name dd) D = None -> dd_builtin dd = false -> rb_dirdefs_wf D0 (D ++ [dd]).
Proof.
  intros [Db [Du [-> [H2 [Hb0 [Hbu Hnd]]]]]] Hf Hb. exists Db, (Du ++ [dd]). rewrite <- app_assoc.
  split; [reflexivity|]. split; [exact H2|]. split; [exact Hb0|]. split.
  - apply Forall_app. split; [exact Hbu|constructor; [exact Hb|constructor]].
  - rewrite app_assoc, map_app. cbn [map]. apply NoDup_snoc_local; [exact Hnd|]. apply sch_find_dirdef_none, Hf.
Qed.

Lemma sb_update_dirdef_names n d' D : dd_name d' = n -> map dd_name (sb_update_dirdef n d' D) = map dd_name D.
Proof.
  intros H. induction D as [|d D IH]; cbn; [reflexivity|].
  destruct (streq n (dd_name d)) eqn:E; cbn; [|f_equal; exact IH]. apply streq_eq in E. congruence.
Qed.

Lemma iv_dirdefs_replace D0 D dd prev :
  rb_dirdefs_wf D0 D -> sch_find_dirdef (dd_name dd) D = Some prev -> dd_builtin prev = true ->
  dd_builtin dd = false -> rb_dirdefs_wf D0 (sb_update_dirdef (dd_name dd) dd D).
Proof.
  intros [Db [Du [-> [H2 [Hb0 [Hbu Hnd]]]]]] Hf Hp Hb.
  exists (sb_update_dirdef (dd_name dd) dd Db), Du.
  assert (Hin : exists d, sch_find_dirdef (dd_name dd) Db = Some d).
  { clear -Hf Hp Hbu. induction Db as [|d Db IH]; cbn in *.
    - exfalso. induction Du as [|u Du IHu]; cbn in *; [discriminate|]. inversion Hbu; subst.
      destruct (streq (dd_name dd) (dd_name u)); [injection Hf as ->; congruence|auto].
    - destruct (streq (dd_name dd) (dd_name d)); [eauto|auto]. }
  destruct Hin as [d Hd].
  split; [|split; [|split; [exact Hb0|split; [exact Hbu|]]]].
  - clear -Hd. induction Db as [|d0 Db IH]; cbn in *; [discriminate|].
    destruct (streq (dd_name dd) (dd_name d0)); [reflexivity|]. cbn [app]. f_equal. apply IH, Hd.
  - clear -H2 Hb. induction H2 as [|d1 d0 Db D0 [Hn Hr] H2 IH]; cbn; [constructor|].
    destruct (streq (dd_name dd) (dd_name d1)) eqn:E; constructor; auto.
    apply streq_eq in E. split; [congruence|right; exact Hb].
  - rewrite sb_update_dirdef_names by reflexivity. exact Hnd.
Qed.

(* ---------------------------------------------------------------- the schema definition *)
Definition iv_def_root (sd : schema_def) : Prop :=
  exists op c, sb_sd_root sd op = Some c /\ c_origin c = ODef.

Lemma iv_def_root_iff sd : iv_def_root sd <-> ta_root_ops sd None <> [].
Proof.
  destruct sd as [d dirs q m s]. unfold iv_def_root, ta_root_ops. cbn [sd_query sd_mutation sd_subscription].
  split.
  - intros [op [c [Hs Ho]]] H. destruct op; cbn in Hs; subst; cbn [ta_root_op] in H; rewrite Ho in H; cbn [ta_origin_is] in H.
    + discriminate.
    + apply app_eq_nil in H. destruct H as [_ H]. discriminate.
    + apply app_eq_nil in H. destruct H as [_ H]. apply app_eq_nil in H. destruct H as [_ H]. discriminate.
  - intros H.
    destruct q as [[[|jq] vq]|]; [exists OpQuery; eexists; split; [reflexivity|reflexivity]| |];
    (destruct m as [[[|jm] vm]|]; [exists OpMutation; eexists; split; [reflexivity|reflexivity]| |]);
    (destruct s as [[[|js] vs]|]; [exists OpSubscription; eexists; split; [reflexivity|reflexivity]| |]);
    exfalso; apply H; reflexivity.
Qed.

Lemma sb_sd_root_set sd op v op' :
  sb_sd_root (sb_sd_set_root sd op v) op' =
  match op, op' with
  | OpQuery, OpQuery | OpMutation, OpMutation | OpSubscription, OpSubscription => v
  | _, _ => sb_sd_root sd op'
  end.
Proof. destruct op, op'; reflexivity. Qed.

Lemma sb_sd_set_root_dirs sd op v : sd_dirs (sb_sd_set_root sd op v) = sd_dirs sd /\ sd_desc (sb_sd_set_root sd op v) = sd_desc sd.
Proof. destruct op; auto. Qed.

Lemma iv_add_roots o roots : forall sd sd' e,
  sb_add_roots o sd roots = (sd', e) ->
  sd_dirs sd' = sd_dirs sd /\ sd_desc sd' = sd_desc sd /\ (iv_def_root sd -> iv_def_root sd') /\
  (o = ODef -> roots <> [] -> e = [] -> iv_def_root sd').
Proof.
  induction roots as [|[op n] roots IH]; intros sd sd' e; cbn [sb_add_roots].
  - intros [= <- <-]. repeat split; auto. congruence.
  - destruct (sb_sd_root sd op) as [c|] eqn:Er.
    + destruct (sb_add_roots o sd roots) as [sd1 e1] eqn:E1. intros [= <- <-].
      destruct (IH _ _ _ E1) as [H1 [H2 [H3 H4]]]. repeat split; auto. discriminate.
    + intros H. destruct (IH _ _ _ H) as [H1 [H2 [H3 H4]]].
      destruct (sb_sd_set_root_dirs sd op (Some (mkcomp o n))) as [Hd1 Hd2].
      assert (Hkeep : iv_def_root sd -> iv_def_root (sb_sd_set_root sd op (Some (mkcomp o n)))).
      { intros [op' [c [Hc Ho]]]. exists op', c. split; [|exact Ho]. rewrite sb_sd_root_set.
        destruct op, op'; try exact Hc; congruence. }
      repeat split; try congruence; auto.
      intros -> _ _. apply H3. exists op, (mkcomp ODef n). split; [|reflexivity]. rewrite sb_sd_root_set. destruct op; reflexivity.
Qed.

Lemma iv_extend_schema_def next sd dirs roots sd' e :
  sb_extend_schema_def next sd dirs roots = (sd', e) -> iv_olist next (sd_dirs sd) ->
  iv_olist (next + 1) (sd_dirs sd') /\ sd_desc sd' = sd_desc sd /\ (iv_def_root sd -> iv_def_root sd')
  /\ ta_components None (sd_dirs sd') = ta_components None (sd_dirs sd).
Proof.
  unfold sb_extend_schema_def. intros H Ho. destruct (iv_add_roots _ _ _ _ _ H) as [H1 [H2 [H3 _]]].
  cbn [sb_sd_add_dirs sd_dirs sd_desc] in *. rewrite H1, H2. split; [apply iv_olist_app_block, Ho|]. split; [reflexivity|].
  split.
  - intros Hr. apply H3. destruct Hr as [op [c [Hc Hco]]]. exists op, c. split; [|exact Hco]. destruct op; exact Hc.
  - unfold sb_comp_dirs. rewrite ta_components_app, ta_components_def_block, app_nil_r. reflexivity.
Qed.

Lemma iv_extend_schema_def_all q : forall next sd sd' n' e,
  sb_extend_schema_def_all next sd q = (sd', n', e) -> iv_olist next (sd_dirs sd) ->
  iv_olist n' (sd_dirs sd') /\ next <= n' /\ sd_desc sd' = sd_desc sd /\ (iv_def_root sd -> iv_def_root sd')
  /\ ta_components None (sd_dirs sd') = ta_components None (sd_dirs sd).
Proof.
  induction q as [|[dirs roots] q IH]; intros next sd sd' n' e; cbn [sb_extend_schema_def_all].
  - intros [= <- <- <-] Ho. split; [exact Ho|]. split; [lia|]. split; [reflexivity|]. split; [auto|reflexivity].
  - destruct (sb_extend_schema_def next sd dirs roots) as [sd1 e1] eqn:E1.
    destruct (sb_extend_schema_def_all (next + 1) sd1 q) as [[sd2 n2] e2] eqn:E2. intros [= <- <- <-] Ho.
    destruct (iv_extend_schema_def _ _ _ _ _ _ E1 Ho) as [A1 [A2 [A3 A4]]].
    destruct (IH _ _ _ _ _ E2 A1) as [B1 [B2 [B3 [B4 B5]]]].
    split; [exact B1|]. split; [lia|]. split; [congruence|]. split; [auto|congruence].
Qed.

(* ---------------------------------------------------------------- the builder state *)
Definition iv_state (b0 : schema) (st : sb_state) : Prop :=
  rb_dirdefs_wf (sch_dirdefs b0) (sbs_dirdefs st) /\
  iv_types (sch_types b0) (sbs_types st) (sbs_next st) /\
  iv_olist (sbs_next st) (sd_dirs (sbs_def st)) /\
  (sbs_found st = false -> sbs_def st = sb_empty_schema_def) /\
  (sbs_found st = true -> iv_def_root (sbs_def st)).

(* a schema definition as the parser produces it: with at least one root operation *)
Definition iv_def_ok (d : definition) : Prop :=
  match d with DSchema _ _ [] => False | _ => True end.

Lemma iv_with_errs b0 st e : iv_state b0 st -> iv_state b0 (sb_with_errs st e).
Proof. intros H. exact H. Qed.

Lemma iv_type_definition cfg b0 st n d :
  iv_state b0 st -> def_name d = Some n -> iv_state b0 (sb_type_definition cfg st n d).
Proof.
  intros Hst Hn. unfold sb_type_definition.
  destruct (sch_find_type n (sbs_types st)) as [prev|] eqn:Efind.
  - destruct (sbc_ignore_builtin cfg && et_builtin prev); [exact Hst|].
    destruct (sb_is_scalar_def d && et_builtin prev); apply iv_with_errs, Hst.
  - destruct (sb_type_of_def d) as [[t0 e0]|] eqn:Eof; [|exact Hst].
    destruct Hst as [HD [HT [Hsd [Hnf Hf]]]].
    destruct (sb_orphan_take n (sbs_orphans st)) as [q orph'].
    destruct (sb_apply_queued t0 (sbs_next st) q) as [[t1 n1] e1] eqn:Eq.
    destruct (iv_apply_queued q _ _ _ _ _ (iv_type_of_def _ _ _ (sbs_next st) Eof) Eq) as [Ht1 [Hle _]].
    destruct (sb_apply_queued_props _ _ _ _ _ _ Eq) as [Hn1 [Hb1 _]].
    destruct (sb_type_of_def_name _ _ _ Eof) as [Hn0 Hb0].
    assert (HN : et_name t1 = n) by congruence.
    split; [exact HD|]. cbn [sbs_types sbs_next sbs_def sbs_found]. split.
    + apply (iv_types_snoc _ _ (sbs_next st)); try assumption; [rewrite HN; exact Efind|congruence].
    + split; [eapply iv_olist_mono; eassumption|]. split; assumption.
Qed.

Lemma iv_type_extension b0 st n k x :
  iv_state b0 st -> iv_state b0 (sb_type_extension st n k x).
Proof.
  intros Hst. unfold sb_type_extension.
  destruct (sch_find_type n (sbs_types st)) as [t|] eqn:Efind; [|exact Hst].
  destruct (sb_extend_type (sbs_next st) t x) as [[t' e]|] eqn:Ex; [|apply iv_with_errs, Hst].
  destruct Hst as [HD [HT [Hsd [Hnf Hf]]]].
  destruct (iv_extend_type _ _ _ _ _ (iv_types_find _ _ _ _ _ HT Efind) Ex) as [Ht' Hd'].
  destruct (sb_extend_type_some _ _ _ _ _ Ex) as [Hn' _].
  destruct (sb_find_type_name _ _ _ Efind) as [Hnt _].
  split; [exact HD|]. cbn [sbs_types sbs_next sbs_def sbs_found]. split.
  - apply (iv_types_update _ _ (sbs_next st) _ n t t'); try assumption; [lia|congruence].
  - split; [eapply iv_olist_mono; [|exact Hsd]; lia|]. split; assumption.
Qed.

Lemma iv_add_def cfg b0 st d :
  iv_state b0 st -> iv_def_ok d -> iv_state b0 (sb_add_def cfg st d).
Proof.
  intros Hst Hok. destruct d; cbn [sb_add_def];
    try (apply iv_type_definition; [exact Hst|reflexivity]); try (apply iv_type_extension; exact Hst);
    try (apply iv_with_errs, Hst).
  - (* directive definition *)
    destruct Hst as [HD [HT [Hsd [Hnf Hf]]]].
    destruct (sch_find_dirdef name (sbs_dirdefs st)) as [prev|] eqn:Efind.
    + destruct (dd_builtin prev) eqn:Eb; [|apply iv_with_errs; repeat (split; try assumption)].
      split; [|split; [exact HT|split; [exact Hsd|split; assumption]]]. cbn [sbs_dirdefs].
      apply (iv_dirdefs_replace _ _ {| dd_desc := desc; dd_name := name; dd_args := args; dd_repeatable := repeatable;
                                        dd_locs := locs; dd_builtin := false |} prev); auto.
    + split; [|split; [exact HT|split; [exact Hsd|split; assumption]]]. cbn [sbs_dirdefs].
      apply (iv_dirdefs_append _ _ {| dd_desc := desc; dd_name := name; dd_args := args; dd_repeatable := repeatable;
                                       dd_locs := locs; dd_builtin := false |}); auto.
  - (* schema definition *)
    destruct (sbs_found st) eqn:Efound; [apply iv_with_errs, Hst|].
    destruct Hst as [HD [HT [Hsd [Hnf Hf]]]].
    destruct (sb_add_roots ODef _ roots) as [sd1 e1] eqn:E1.
    destruct (sb_extend_schema_def_all (sbs_next st) sd1 (sbs_orphan_sx st)) as [[sd2 n2] e2] eqn:E2.
    destruct (iv_add_roots _ _ _ _ _ E1) as [A1 [A2 [_ A4]]]. cbn [sd_dirs sd_desc] in A1, A2.
    assert (Ho1 : iv_olist (sbs_next st) (sd_dirs sd1)) by (rewrite A1; apply iv_olist_def).
    destruct (iv_extend_schema_def_all _ _ _ _ _ _ E2 Ho1) as [B1 [B2 [B3 [B4 _]]]].
    split; [exact HD|]. cbn [sbs_types sbs_next sbs_def sbs_found]. split; [eapply iv_types_mono; eassumption|].
    split; [exact B1|]. split; [discriminate|]. intros _. apply B4.
    (* the first root operation of the definition is set with origin Definition *)
    clear -E1 Hok. destruct roots as [|[op n] roots]; [contradiction|]. cbn [sb_add_roots] in E1.
    assert (Hnone : forall op, sb_sd_root {| sd_desc := desc; sd_dirs := sb_comp_dirs ODef dirs; sd_query := None; sd_mutation := None; sd_subscription := None |} op = None)
      by (intros []; reflexivity).
    rewrite Hnone in E1. destruct (iv_add_roots _ _ _ _ _ E1) as [_ [_ [H3 _]]]. apply H3.
    exists op, (mkcomp ODef n). split; [|reflexivity]. rewrite sb_sd_root_set. destruct op; reflexivity.
  - (* schema extension *)
    destruct Hst as [HD [HT [Hsd [Hnf Hf]]]].
    destruct (sbs_found st) eqn:Efound;
      [|split; [exact HD|split; [exact HT|split; [exact Hsd|split; [intros _; apply Hnf; reflexivity|discriminate]]]]].
    destruct (sb_extend_schema_def (sbs_next st) (sbs_def st) dirs roots) as [sd' e] eqn:E.
    destruct (iv_extend_schema_def _ _ _ _ _ _ E Hsd) as [A1 [_ [A3 _]]].
    split; [exact HD|]. cbn [sbs_types sbs_next sbs_def sbs_found]. split; [eapply iv_types_mono; [|exact HT]; lia|].
    split; [exact A1|]. split; [discriminate|]. intros _. apply A3, Hf. reflexivity.
Qed.

Lemma iv_add_doc cfg b0 doc : forall st,
  Forall iv_def_ok doc -> iv_state b0 st -> iv_state b0 (sb_add_doc cfg st doc).
Proof.
  induction doc as [|d doc IH]; intros st Hok Hst; cbn; [exact Hst|].
  inversion Hok; subst. apply IH; [assumption|]. apply iv_add_def; assumption.
Qed.

(* ---------------------------------------------------------------- outside Known_C12 every list is canonical *)
Lemma c12_nondecr_cons a l :
  c12_nondecr (a :: l) = true -> Forall (fun b => a <= b) l /\ c12_nondecr l = true.
Proof.
  revert a. induction l as [|b l IH]; intros a H; [split; [constructor|reflexivity]|].
  cbn [c12_nondecr] in H. apply andb_true_iff in H. destruct H as [Hab Hr]. apply N.leb_le in Hab.
  split; [|exact Hr]. constructor; [exact Hab|]. destruct (IH b Hr) as [Hf _].
  eapply Forall_impl; [|exact Hf]. cbn. intros; lia.
Qed.

Lemma flat_map_nil_all {A B} (f : A -> list B) l : (forall x, In x l -> f x = []) -> flat_map f l = [].
Proof.
  induction l as [|x l IH]; intros H; cbn; [reflexivity|]. rewrite (H x) by (left; reflexivity).
  apply IH. intros; apply H; right; assumption.
Qed.

Lemma filter_all_false {A} (p : A -> bool) l : (forall x, In x l -> p x = false) -> filter p l = [].
Proof.
  induction l as [|x l IH]; intros H; cbn; [reflexivity|].
  rewrite (H x) by (left; reflexivity). apply IH. intros; apply H; right; assumption.
Qed.

Lemma filter_cons {A} (p : A -> bool) x l : filter p (x :: l) = if p x then x :: filter p l else filter p l.
Proof. reflexivity. Qed.

Lemma cn_index_lt i a b : In i a -> cn_index i (a ++ b) < N.of_nat (length a).
Proof.
  induction a as [|j a IH]; cbn [In app cn_index length]; [tauto|]. intros H.
  destruct (i =? j) eqn:E; [lia|]. destruct H as [H|H]; [apply N.eqb_neq in E; congruence|].
  specialize (IH H). lia.
Qed.

Lemma rb_canonical_of_ok {A} (disc : list N) (L : list (comp A)) :
  c12_list_ok disc L = true -> NoDup disc ->
  (forall i, In (OExt i) (ta_origins L) -> In i disc) ->
  L = rb_regroup disc L.
Proof.
  intros Hok Hnd. unfold c12_list_ok in Hok. induction L as [|c L IH]; intros Hin.
  - unfold rb_regroup. cbn [filter]. rewrite flat_map_nil_all; [reflexivity|reflexivity].
  - cbn [map] in Hok. destruct (c12_nondecr_cons _ _ Hok) as [Hge Hok'].
    assert (Hin' : forall i, In (OExt i) (ta_origins L) -> In i disc) by (intros i Hi; apply Hin; right; exact Hi).
    specialize (IH Hok' Hin'). unfold rb_regroup in *. rewrite (filter_cons rb_is_def).
    destruct (c_origin c) as [|j] eqn:Eo.
    + (* a component of the definition *)
      unfold rb_is_def at 1. rewrite Eo. cbn [ta_origin_is app]. f_equal.
      rewrite (flat_map_ext_in (fun i => filter (rb_is_ext i) (c :: L)) (fun i => filter (rb_is_ext i) L)).
      * exact IH.
      * intros i _. cbn [filter]. unfold rb_is_ext at 1. rewrite Eo. reflexivity.
    + (* a component of extension j *)
      assert (Hj : In j disc) by (apply Hin; left; exact Eo).
      destruct (in_split _ _ Hj) as [d1 [d2 Hd]]. subst disc.
      assert (Hjd1 : ~ In j d1).
      { apply NoDup_remove_2 in Hnd. intros H. apply Hnd. apply in_app_iff. left. exact H. }
      assert (Hjd2 : ~ In j d2).
      { apply NoDup_remove_2 in Hnd. intros H. apply Hnd. apply in_app_iff. right. exact H. }
      cbn [c12_rank] in Hge. rewrite cn_index_app_notin in Hge by exact Hjd1.
      (* every later component belongs to an extension that is not in d1 *)
      assert (Hlater : forall c', In c' L -> exists i, c_origin c' = OExt i /\ ~ In i d1).
      { intros c' Hc'. rewrite Forall_forall in Hge.
        specialize (Hge _ (in_map (fun c => c12_rank (d1 ++ j :: d2) (c_origin c)) _ _ Hc')). cbn beta in Hge.
        destruct (c_origin c') as [|i]; cbn [c12_rank] in Hge; [lia|]. exists i. split; [reflexivity|].
        intros Hi. pose proof (cn_index_lt i d1 (j :: d2) Hi). lia. }
      unfold rb_is_def at 1. rewrite Eo. cbn [ta_origin_is].
      assert (Hnodef : filter rb_is_def L = []).
      { apply filter_all_false. intros c' Hc'. destruct (Hlater c' Hc') as [i [Hi _]]. unfold rb_is_def. rewrite Hi. reflexivity. }
      rewrite Hnodef in *. cbn [app] in *.
      assert (Hd1 : forall (M : list (comp A)), (forall c', In c' M -> c' = c \/ In c' L) ->
                      flat_map (fun i => filter (rb_is_ext i) M) d1 = []).
      { intros M HM. apply flat_map_nil_all. intros i Hi. apply filter_all_false. intros c' Hc'.
        unfold rb_is_ext. destruct (HM c' Hc') as [->|Hc2].
        - rewrite Eo. cbn. apply N.eqb_neq. intros ->. contradiction.
        - destruct (Hlater c' Hc2) as [i' [Ho Hn]]. rewrite Ho. cbn. apply N.eqb_neq. intros ->. contradiction. }
      rewrite flat_map_app in *. rewrite (Hd1 (c :: L)) by (intros c' [<-|H]; auto).
      rewrite (Hd1 L) in IH by auto. cbn [app flat_map] in *. rewrite (filter_cons (rb_is_ext j)).
      unfold rb_is_ext at 1. rewrite Eo. cbn [ta_origin_is]. rewrite N.eqb_refl. cbn [app]. f_equal.
      rewrite (flat_map_ext_in (fun i => filter (rb_is_ext i) (c :: L)) (fun i => filter (rb_is_ext i) L) d2).
      * exact IH.
      * intros i Hi. cbn [filter]. unfold rb_is_ext at 1. rewrite Eo. cbn [ta_origin_is].
        destruct (i =? j) eqn:E; [apply N.eqb_eq in E; subst; contradiction|reflexivity].
Qed.

Lemma rb_type_canonical_of_ok t : c12_type_ok t = true -> rb_type_canonical t.
Proof.
  intros H.
  assert (HR : forall {A} (L : list (comp A)),
             (forall i, In (OExt i) (ta_origins L) -> In (OExt i) (ta_type_origins t)) ->
             c12_list_ok (ta_type_extensions t) L = true -> L = rb_regroup (ta_type_extensions t) L).
  { intros A L Hsub Hok. apply rb_canonical_of_ok; [exact Hok|apply ta_ext_ids_NoDup|].
    intros i Hi. apply ta_type_extensions_In, Hsub, Hi. }
  destruct t; cbn [c12_type_ok rb_type_canonical ta_type_origins] in *;
    repeat (apply andb_true_iff in H; destruct H as [H ?]);
    repeat match goal with |- _ /\ _ => split end; apply HR; try assumption;
    intros i Hi; rewrite ?in_app_iff; auto.
Qed.

Lemma rb_sd_canonical_of_ok sd :
  c12_sd_ok sd = true -> sd_dirs sd = rb_regroup (ta_sd_extensions sd) (sd_dirs sd).
Proof.
  intros H. apply rb_canonical_of_ok; [exact H|apply ta_ext_ids_NoDup|].
  intros i Hi. apply ta_ext_ids_In. unfold ta_sd_origins. apply in_app_iff. left. exact Hi.
Qed.

(* ---------------------------------------------------------------- the initial state *)
(* the built-in definitions the builder starts from: an empty schema definition; directive definitions
   and types flagged built-in, with distinct names; no extension components *)
Definition iv_b0 (b0 : schema) : Prop :=
  sch_def b0 = sb_empty_schema_def /\
  Forall (fun d => dd_builtin d = true) (sch_dirdefs b0) /\ NoDup (map dd_name (sch_dirdefs b0)) /\
  Forall (fun t => et_builtin t = true /\ iv_defpart t = t /\ rb_type_keys t) (sch_types b0) /\
  NoDup (map et_name (sch_types b0)).

Lemma iv_olist_of_defpart {A} n (L : list (comp A)) : rb_part L (fun i => i) [] = L -> iv_olist n L.
Proof. intros H. rewrite <- H. unfold rb_part. cbn [flat_map]. rewrite app_nil_r. apply iv_olist_def. Qed.

Lemma iv_type_of_pristine n t : iv_defpart t = t -> rb_type_keys t -> iv_type n t.
Proof.
  intros Hd Hk. split; [exact Hk|]. unfold iv_defpart in Hd.
  destruct t; cbn [rb_type_partial iv_type_olists] in *; injection Hd as ?;
    repeat match goal with |- _ /\ _ => split end; apply iv_olist_of_defpart; assumption.
Qed.

Lemma Forall2_refl_map {A} (R : A -> A -> Prop) l : (forall x, R x x) -> Forall2 R l l.
Proof. intros H. induction l; constructor; auto. Qed.

Lemma iv_init b0 : iv_b0 b0 -> iv_state b0 (sb_init b0).
Proof.
  intros [Hsd [Hdb [Hdn [Ht Htn]]]]. unfold iv_state, sb_init. cbn [sbs_def sbs_dirdefs sbs_types sbs_found sbs_next].
  split; [|split; [|split; [|split]]].
  - exists (sch_dirdefs b0), []. rewrite app_nil_r. split; [reflexivity|]. split; [apply Forall2_refl_map; auto|].
    split; [exact Hdb|]. split; [constructor|exact Hdn].
  - split; [exact Htn|]. split.
    + eapply Forall_impl; [|exact Ht]. intros t [_ [Hd Hk]]. apply iv_type_of_pristine; assumption.
    + exists []. rewrite app_nil_r. split; [|constructor].
      clear -Ht. induction Ht as [|t T [_ [Hd _]] Ht IH]; cbn; [reflexivity|]. rewrite Hd, IH. reflexivity.
  - rewrite Hsd. apply iv_olist_nil.
  - intros _. exact Hsd.
  - discriminate.
Qed.

(* ---------------------------------------------------------------- build_inner *)
Lemma iv_adopt_all T0 q : forall types next types' n' e,
  iv_types T0 types next -> sb_adopt_all types next q = Some (types', n', e) -> iv_types T0 types' n'.
Proof.
  induction q as [|[n l] q IH]; intros types next types' n' e HT; cbn [sb_adopt_all].
  - intros [= <- <- <-]. exact HT.
  - destruct (sb_adopt n next l) as [[[t n1] e1]|] eqn:Ea; [|discriminate].
    destruct (sch_find_type n types) eqn:Ef; [discriminate|].
    destruct (sb_adopt_all (types ++ [t]) n1 q) as [[[ts n2] e2]|] eqn:Eq; [|discriminate]. intros [= <- <- <-].
    destruct (iv_adopt _ _ _ _ _ _ Ea) as [Ht [Hle [Hn Hb]]].
    apply (IH _ _ _ _ _ (iv_types_snoc _ _ next n1 t HT ltac:(rewrite Hn; exact Ef) Hb Ht Hle) Eq).
Qed.

Ltac iv_implicit_cases T :=
  destruct (sb_has_object T (sb_default_type_name OpQuery)) eqn:?; cbn beta iota;
  destruct (sb_has_object T (sb_default_type_name OpMutation)) eqn:?; cbn beta iota;
  destruct (sb_has_object T (sb_default_type_name OpSubscription)) eqn:?; cbn beta iota.

Lemma iv_implicit_dirs sd T :
  sd_dirs (fst (sb_add_implicit_roots sd T)) = sd_dirs sd /\ sd_desc (fst (sb_add_implicit_roots sd T)) = sd_desc sd.
Proof.
  unfold sb_add_implicit_roots. cbn [fold_left]. iv_implicit_cases T; cbn [fst]; rewrite ?(proj1 (sb_sd_set_root_dirs _ _ _)), ?(proj2 (sb_sd_set_root_dirs _ _ _)); auto.
Qed.

Lemma iv_implicit_all_none sd T :
  sb_roots_all_none (fst (sb_add_implicit_roots sd T)) = true ->
  forall op, sb_has_object T (sb_default_type_name op) = false.
Proof.
  unfold sb_add_implicit_roots. cbn [fold_left]. iv_implicit_cases T; cbn [fst];
    try (intros _ [| |]; assumption); destruct sd as [d dirs [q|] [m|] [s|]]; cbn; discriminate.
Qed.

Lemma iv_implicit_has sd T :
  snd (sb_add_implicit_roots sd T) = true -> iv_def_root (fst (sb_add_implicit_roots sd T)).
Proof.
  unfold sb_add_implicit_roots. cbn [fold_left]. iv_implicit_cases T; cbn [fst snd]; try discriminate; intros _.
  all: try (exists OpSubscription; eexists; split; [rewrite sb_sd_root_set; reflexivity|reflexivity]).
  all: try (exists OpMutation; eexists; split; [rewrite ?sb_sd_root_set; reflexivity|reflexivity]).
  all: try (exists OpQuery; eexists; split; [rewrite ?sb_sd_root_set; reflexivity|reflexivity]).
Qed.

Lemma ta_components_none_nil {A} (L : list (comp A)) : ta_components None L = [] -> filter rb_is_def L = [].
Proof. unfold ta_components. intros H. apply map_eq_nil in H. exact H. Qed.

Definition iv_final (cfg : sb_cfg) (b0 s : schema) : Prop :=
  rb_dirdefs_wf (sch_dirdefs b0) (sch_dirdefs s) /\
  (exists n, iv_types (sch_types b0) (sch_types s) n) /\
  (ta_root_ops (sch_def s) None = [] ->
     sd_desc (sch_def s) = None /\ filter rb_is_def (sd_dirs (sch_def s)) = [] /\
     (sb_roots_all_none (sch_def s) = true ->
      forall op, sb_has_object (sch_types s) (sb_default_type_name op) = false) /\
     (sbc_adopt cfg = false -> ta_sd_extensions (sch_def s) = [])).

Lemma iv_build_inner cfg b0 st s :
  iv_state b0 st -> sb_build_inner cfg st = SbBuilt s [] -> iv_final cfg b0 s.
Proof.
  intros [HD [HT [Hsd [Hnf Hf]]]]. unfold sb_build_inner.
  assert (Hvac : forall sd, iv_def_root sd -> ta_root_ops sd None = [] -> False).
  { intros sd Hr Hn. apply iv_def_root_iff in Hr. contradiction. }
  destruct (sbc_adopt cfg) eqn:Eadopt.
  - destruct (sb_adopt_all (sbs_types st) (sbs_next st) (sbs_orphans st)) as [[[types' n'] e1]|] eqn:Ea; [|discriminate].
    pose proof (iv_adopt_all _ _ _ _ _ _ _ HT Ea) as HT'.
    destruct (sbs_found st) eqn:Efound.
    + intros [= <- _]. split; [exact HD|]. split; [exists n'; exact HT'|]. cbn [sch_def].
      intros Hn. exfalso. apply (Hvac _ (Hf eq_refl) Hn).
    + rewrite (Hnf eq_refl).
      destruct (sb_extend_schema_def_all n' sb_empty_schema_def (sbs_orphan_sx st)) as [[sd1 n1] e2] eqn:E.
      destruct (iv_extend_schema_def_all _ _ _ _ _ _ E (iv_olist_nil n')) as [_ [_ [Hdesc [_ Hcomp]]]].
      cbn beta iota. intros [= <- _]. split; [exact HD|]. split; [exists n'; exact HT'|]. cbn [sch_def sch_types].
      intros _.
      assert (Hd2 : sd_desc (if sb_roots_all_none sd1 then fst (sb_add_implicit_roots sd1 types') else sd1) = None
                  /\ sd_dirs (if sb_roots_all_none sd1 then fst (sb_add_implicit_roots sd1 types') else sd1) = sd_dirs sd1).
      { destruct (sb_roots_all_none sd1); [|auto]. destruct (iv_implicit_dirs sd1 types') as [-> ->]. auto. }
      destruct Hd2 as [Hdesc2 Hdirs2]. rewrite Hdesc2, Hdirs2. split; [reflexivity|]. split.
      * apply ta_components_none_nil. rewrite Hcomp. reflexivity.
      * split; [|intros Hc; congruence]. destruct (sb_roots_all_none sd1) eqn:En.
        -- apply iv_implicit_all_none.
        -- intros Hc. congruence.
  - destruct (sb_all_orphan_errors (sbs_orphans st)) as [e1|]; [|discriminate].
    destruct (sbs_found st) eqn:Efound.
    + intros [= <- _]. split; [exact HD|]. split; [exists (sbs_next st); exact HT|]. cbn [sch_def].
      intros Hn. exfalso. apply (Hvac _ (Hf eq_refl) Hn).
    + rewrite (Hnf eq_refl).
      destruct (sb_add_implicit_roots sb_empty_schema_def (sbs_types st)) as [sd1 has] eqn:Ei.
      destruct has.
      * destruct (sb_extend_schema_def_all (sbs_next st) sd1 (sbs_orphan_sx st)) as [[sd2 n2] e2] eqn:E.
        cbn beta iota. intros [= <- _]. split; [exact HD|]. split; [exists (sbs_next st); exact HT|]. cbn [sch_def].
        intros Hn. exfalso. apply (Hvac sd2); [|exact Hn].
        assert (Hr1 : iv_def_root sd1).
        { pose proof (iv_implicit_has sb_empty_schema_def (sbs_types st)) as H. rewrite Ei in H. apply H. reflexivity. }
        assert (Ho1 : iv_olist (sbs_next st) (sd_dirs sd1)).
        { pose proof (iv_implicit_dirs sb_empty_schema_def (sbs_types st)) as [H _]. rewrite Ei in H. cbn [fst] in H.
          rewrite H. apply iv_olist_nil. }
        destruct (iv_extend_schema_def_all _ _ _ _ _ _ E Ho1) as [_ [_ [_ [H4 _]]]]. apply H4, Hr1.
      * cbn beta iota. intros [= <- Herr]. split; [exact HD|]. split; [exists (sbs_next st); exact HT|]. cbn [sch_def sch_types].
        assert (Hno : forall op, sb_has_object (sbs_types st) (sb_default_type_name op) = false).
        { apply (sb_add_implicit_roots_has sb_empty_schema_def). rewrite Ei. reflexivity. }
        rewrite (sb_add_implicit_roots_none _ _ Hno) in Ei. injection Ei as <-.
        intros _. split; [reflexivity|]. split; [reflexivity|]. split; [intros _; exact Hno|reflexivity].
Qed.

(* ---------------------------------------------------------------- the builder returns well-formed schemas *)
Lemma map_eq_app_local {A B} (f : A -> B) l : forall l1 l2,
  map f l = l1 ++ l2 -> exists a b, l = a ++ b /\ map f a = l1 /\ map f b = l2.
Proof.
  induction l as [|x l IH]; intros l1 l2 H; cbn in H.
  - symmetry in H. apply app_eq_nil in H. destruct H as [-> ->]. exists [], []. auto.
  - destruct l1 as [|y l1]; cbn in H.
    + exists [], (x :: l). auto.
    + injection H as Hy H. destruct (IH _ _ H) as [a [b [-> [Ha Hb]]]]. exists (x :: a), b. cbn. rewrite Hy, Ha. auto.
Qed.

Lemma iv_final_wf cfg b0 s :
  iv_b0 b0 -> iv_final cfg b0 s -> c12_known s = false -> rb_wf cfg b0 s.
Proof.
  intros [Hsd0 [_ [_ [Ht0 _]]]] [HD [[n [Hnd [Hty [Du [Hmap Hdu]]]]] Horph]] Hk.
  unfold c12_known in Hk. apply negb_false_iff, andb_true_iff in Hk. destruct Hk as [Hkt Hks].
  rewrite forallb_forall in Hkt.
  split; [exact Hsd0|]. split; [exact HD|]. split.
  - destruct (map_eq_app_local _ _ _ _ Hmap) as [Tb [Tu [HT [Hb Hu]]]]. exists Tb, Tu.
    split; [exact HT|]. split; [|split; [|split; [|split]]].
    + clear -Hb. revert Hb. generalize (sch_types b0). induction Tb as [|t Tb IH]; intros T0 H; destruct T0; try discriminate;
        constructor; [injection H as H _; symmetry; exact H|apply IH; injection H as _ H; exact H].
    + eapply Forall_impl; [|exact Ht0]. intros t H. apply H.
    + rewrite <- Hu in Hdu. clear -Hdu. induction Tu as [|t Tu IH]; [constructor|]. inversion Hdu; subst.
      constructor; [rewrite <- iv_defpart_builtin; assumption|apply IH; assumption].
    + exact Hnd.
    + rewrite Forall_forall in *. intros t Ht. split; [apply (Hty t Ht)|apply rb_type_canonical_of_ok, Hkt, Ht].
  - split; [apply rb_sd_canonical_of_ok, Hks|exact Horph].
Qed.

Theorem iv_rebuild cfg b0 docs s :
  iv_b0 b0 -> Forall (Forall iv_def_ok) docs ->
  sb_build_docs cfg b0 docs = SbBuilt s [] -> c12_known s = false ->
  exists s', sb_build cfg b0 (sch_to_ast s) = SbBuilt s' [] /\ sch_equiv s' s /\ sch_to_ast s' = sch_to_ast s.
Proof.
  intros Hb0 Hok Hb Hk. apply rb_rebuild. apply (iv_final_wf cfg b0 s Hb0); [|exact Hk].
  unfold sb_build_docs in Hb. apply (iv_build_inner cfg b0 (sb_add_docs cfg (sb_init b0) docs) s); [|exact Hb].
  clear Hb. unfold sb_add_docs. revert Hok. generalize (iv_init b0 Hb0). generalize (sb_init b0).
  induction docs as [|d docs IH]; intros st Hst Hok; cbn [fold_left]; [exact Hst|].
  inversion Hok; subst. apply IH; [apply iv_add_doc; assumption|assumption].
Qed.
