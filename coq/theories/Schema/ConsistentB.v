(* C15 — the boolean evaluated by the model side of the C15 tie on the dumped Valid<Schema>:
   cs_consistent_b (proved to imply the declarative Consistent of Schema/Consistent.v in ValidProofs.v;
   it is the conjunction of the specification rules that speak about consistency) and
   cs_scalars_exact_b (the built-in scalar sentence, on the schema after validation).  Extracted. *)
From ApolloVerif Require Import Base.Chars Ast.Ast Schema.Model Schema.Valid.

Definition cs_consistent_rules : list (schema -> bool) :=
  [ sv_rule_root_query; sv_rule_root_object; sv_rule_root_distinct; sv_rule_reserved_names;
    sv_rule_field_output_types; sv_rule_arg_input_types; sv_rule_input_field_types; sv_rule_dirdef_arg_types;
    sv_rule_union_members_object; sv_rule_implements_targets; sv_rule_transitive_interfaces;
    sv_rule_interface_fields_present; sv_rule_interface_field_types; sv_rule_interface_field_args;
    sv_rule_interface_extra_args; sv_rule_input_no_nonnull_cycle ].

Definition cs_consistent_b (s : schema) : bool := forallb (fun r => r s) cs_consistent_rules.
Definition cs_consistent_vector (s : schema) : list bool := map (fun r => r s) cs_consistent_rules.

(* the named types referenced by fields, arguments, input fields and directive definition arguments *)
Definition cs_ivd_refs (args : list inputvaldef) : list str := map (fun a => inner_named_type (iv_ty a)) args.
Definition cs_type_refs (t : ext_type) : list str :=
  flat_map (fun f => inner_named_type (fd_ty f) :: cs_ivd_refs (fd_args f)) (sv_fields_of t)
  ++ match t with EInput _ _ _ fs _ => cs_ivd_refs (sv_vals fs) | _ => [] end.
Definition cs_referenced_names (s : schema) : list str :=
  flat_map cs_type_refs (sch_types s) ++ flat_map (fun d => cs_ivd_refs (dd_args d)) (sch_dirdefs s).

(* a built-in scalar is in the type map iff it is referenced *)
Definition cs_scalars_exact_b (s : schema) : bool :=
  forallb (fun n => Bool.eqb (sv_is_some (sch_get_type s n)) (sv_mem n (cs_referenced_names s)))
          sv_builtin_scalar_names.
