(* SchemaBuilder of crates/apollo-compiler/src/schema/from_ast.rs as a fold over ast definitions.
   Input: Ast.v documents.  Output: Schema/Model.v's schema plus the list of build errors (a small class
   per BuildError variant carrying the names the message is a function of).
   ExtensionId (identity of an Arc) is a fresh number taken from a counter each time an extension is
   applied (`ExtensionId::new` in every `extend_ast`).
   The builder starts from the built-in definitions (the state after adding built_in_types.graphql);
   that state is a parameter `b0 : schema` which the tie obtains from the real crate. *)
From ApolloVerif Require Import Base.Chars Ast.Ast Schema.Model.

Inductive sbkind := SbScalar | SbObject | SbInterface | SbUnion | SbEnum | SbInput.

Definition sbkind_eqb (a b : sbkind) : bool :=
  match a, b with
  | SbScalar, SbScalar | SbObject, SbObject | SbInterface, SbInterface | SbUnion, SbUnion
  | SbEnum, SbEnum | SbInput, SbInput => true
  | _, _ => false
  end.

(* BuildError (schema/mod.rs), locations erased *)
Inductive sberr :=
| SbeExecutableDefinition
| SbeSchemaDefinitionCollision
| SbeDirectiveDefinitionCollision (name : str)
| SbeTypeDefinitionCollision (name : str)
| SbeBuiltInScalarTypeRedefinition
| SbeOrphanSchemaExtension
| SbeOrphanTypeExtension (name : str)
| SbeTypeExtensionKindMismatch (name : str) (ext def : sbkind)
| SbeDuplicateRootOperation (op : optype)
| SbeDupImplObject (iface tname : str)
| SbeDupImplInterface (iface tname : str)
| SbeObjectFieldCollision (field tname : str)
| SbeInterfaceFieldCollision (field tname : str)
| SbeEnumValueCollision (value tname : str)
| SbeUnionMemberCollision (member tname : str)
| SbeInputFieldCollision (field tname : str).

Record sb_cfg := { sbc_adopt : bool; sbc_ignore_builtin : bool }.

Definition sb_et_kind (t : ext_type) : sbkind :=
  match t with
  | EScalar _ _ _ _ => SbScalar | EObject _ _ _ _ _ _ => SbObject | EInterface _ _ _ _ _ _ => SbInterface
  | EUnion _ _ _ _ _ => SbUnion | EEnum _ _ _ _ _ => SbEnum | EInput _ _ _ _ _ => SbInput
  end.

(* kind and name of a type extension *)
Definition sb_ext_kind (d : definition) : option sbkind :=
  match d with
  | XScalar _ _ => Some SbScalar | XObject _ _ _ _ => Some SbObject | XInterface _ _ _ _ => Some SbInterface
  | XUnion _ _ _ => Some SbUnion | XEnum _ _ _ => Some SbEnum | XInput _ _ _ => Some SbInput
  | _ => None
  end.

Definition sb_ext_name (d : definition) : option str :=
  match d with
  | XScalar n _ | XObject n _ _ _ | XInterface n _ _ _ | XUnion n _ _ | XEnum n _ _ | XInput n _ _ => Some n
  | _ => None
  end.

(* ---------------------------------------------------------------- sticky collections *)
(* extend_sticky / extend_sticky_set: a key already present keeps its first value; the duplicate's key is
   reported.  collect_sticky = extend_sticky on the empty map. *)
Section Sticky.
  Context {A : Type} (key : A -> str).

  Definition sb_has (k : str) (l : list (comp A)) : bool :=
    existsb (fun c => streq k (key (c_val c))) l.

  Fixpoint sb_extend_sticky (o : origin) (l : list (comp A)) (new : list A) : list (comp A) * list str :=
    match new with
    | [] => (l, [])
    | x :: r =>
      if sb_has (key x) l then
        let '(l', dups) := sb_extend_sticky o l r in (l', key x :: dups)
      else sb_extend_sticky o (l ++ [mkcomp o x]) r
    end.
End Sticky.

Definition sb_name_key (n : str) : str := n.

Definition sb_comp_dirs (o : origin) (ds : list directive) : sdirs := map (mkcomp o) ds.

(* ---------------------------------------------------------------- extend_ast of the six kinds *)
(* None: the extension is of another kind than the type *)
Definition sb_extend_type (id : N) (t : ext_type) (x : definition) : option (ext_type * list sberr) :=
  let o := OExt id in
  match t, x with
  | EScalar d n dirs b, XScalar _ xd =>
    Some (EScalar d n (dirs ++ sb_comp_dirs o xd) b, [])
  | EObject d n impls dirs fields b, XObject xn xi xd xf =>
    let '(impls', e1) := sb_extend_sticky sb_name_key o impls xi in
    let '(fields', e2) := sb_extend_sticky fd_name o fields xf in
    Some (EObject d n impls' (dirs ++ sb_comp_dirs o xd) fields' b,
          map (fun k => SbeDupImplObject k xn) e1 ++ map (fun k => SbeObjectFieldCollision k xn) e2)
  | EInterface d n impls dirs fields b, XInterface xn xi xd xf =>
    let '(impls', e1) := sb_extend_sticky sb_name_key o impls xi in
    let '(fields', e2) := sb_extend_sticky fd_name o fields xf in
    Some (EInterface d n impls' (dirs ++ sb_comp_dirs o xd) fields' b,
          map (fun k => SbeDupImplInterface k xn) e1 ++ map (fun k => SbeInterfaceFieldCollision k xn) e2)
  | EUnion d n dirs members b, XUnion xn xd xm =>
    let '(members', e1) := sb_extend_sticky sb_name_key o members xm in
    Some (EUnion d n (dirs ++ sb_comp_dirs o xd) members' b, map (fun k => SbeUnionMemberCollision k xn) e1)
  | EEnum d n dirs values b, XEnum xn xd xv =>
    let '(values', e1) := sb_extend_sticky ev_value o values xv in
    Some (EEnum d n (dirs ++ sb_comp_dirs o xd) values' b, map (fun k => SbeEnumValueCollision k xn) e1)
  | EInput d n dirs fields b, XInput xn xd xf =>
    let '(fields', e1) := sb_extend_sticky iv_name o fields xf in
    Some (EInput d n (dirs ++ sb_comp_dirs o xd) fields' b, map (fun k => SbeInputFieldCollision k xn) e1)
  | _, _ => None
  end.

(* `*Type::from_ast` without the queued extensions: the definition's own components *)
Definition sb_type_of_def (d : definition) : option (ext_type * list sberr) :=
  match d with
  | DScalar desc n dirs => Some (EScalar desc n (sb_comp_dirs ODef dirs) false, [])
  | DObject desc n impls dirs fields =>
    let '(impls', e1) := sb_extend_sticky sb_name_key ODef [] impls in
    let '(fields', e2) := sb_extend_sticky fd_name ODef [] fields in
    Some (EObject desc n impls' (sb_comp_dirs ODef dirs) fields' false,
          map (fun k => SbeDupImplObject k n) e1 ++ map (fun k => SbeObjectFieldCollision k n) e2)
  | DInterface desc n impls dirs fields =>
    let '(impls', e1) := sb_extend_sticky sb_name_key ODef [] impls in
    let '(fields', e2) := sb_extend_sticky fd_name ODef [] fields in
    Some (EInterface desc n impls' (sb_comp_dirs ODef dirs) fields' false,
          map (fun k => SbeDupImplInterface k n) e1 ++ map (fun k => SbeInterfaceFieldCollision k n) e2)
  | DUnion desc n dirs members =>
    let '(members', e1) := sb_extend_sticky sb_name_key ODef [] members in
    Some (EUnion desc n (sb_comp_dirs ODef dirs) members' false, map (fun k => SbeUnionMemberCollision k n) e1)
  | DEnum desc n dirs values =>
    let '(values', e1) := sb_extend_sticky ev_value ODef [] values in
    Some (EEnum desc n (sb_comp_dirs ODef dirs) values' false, map (fun k => SbeEnumValueCollision k n) e1)
  | DInput desc n dirs fields =>
    let '(fields', e1) := sb_extend_sticky iv_name ODef [] fields in
    Some (EInput desc n (sb_comp_dirs ODef dirs) fields' false, map (fun k => SbeInputFieldCollision k n) e1)
  | _ => None
  end.

(* the loop `for def in &extensions { if let $Extension(ext) = def { ty.extend_ast(errors, ext) } }`:
   extensions of another kind are skipped here (and reported by the caller) *)
Fixpoint sb_apply_queued (t : ext_type) (next : N) (q : list definition) : ext_type * N * list sberr :=
  match q with
  | [] => (t, next, [])
  | x :: r =>
    match sb_extend_type next t x with
    | Some (t', e) => let '(t'', n', e') := sb_apply_queued t' (next + 1) r in (t'', n', e ++ e')
    | None => sb_apply_queued t next r
    end
  end.

Definition sb_kind_matches (k : sbkind) (x : definition) : bool :=
  match sb_ext_kind x with Some k' => sbkind_eqb k k' | None => false end.

(* the mismatch errors of queued extensions (type_definition!), in queue order *)
Definition sb_queued_mismatches (name : str) (k : sbkind) (q : list definition) : list sberr :=
  flat_map (fun x =>
    match sb_ext_kind x with
    | Some k' => if sbkind_eqb k k' then [] else [SbeTypeExtensionKindMismatch name k' k]
    | None => []
    end) q.

(* ---------------------------------------------------------------- schema definition *)
Definition sb_empty_schema_def : schema_def :=
  {| sd_desc := None; sd_dirs := []; sd_query := None; sd_mutation := None; sd_subscription := None |}.

Definition sb_sd_root (sd : schema_def) (op : optype) : option (comp str) :=
  match op with OpQuery => sd_query sd | OpMutation => sd_mutation sd | OpSubscription => sd_subscription sd end.

Definition sb_sd_set_root (sd : schema_def) (op : optype) (v : option (comp str)) : schema_def :=
  match op with
  | OpQuery => {| sd_desc := sd_desc sd; sd_dirs := sd_dirs sd; sd_query := v;
                  sd_mutation := sd_mutation sd; sd_subscription := sd_subscription sd |}
  | OpMutation => {| sd_desc := sd_desc sd; sd_dirs := sd_dirs sd; sd_query := sd_query sd;
                     sd_mutation := v; sd_subscription := sd_subscription sd |}
  | OpSubscription => {| sd_desc := sd_desc sd; sd_dirs := sd_dirs sd; sd_query := sd_query sd;
                         sd_mutation := sd_mutation sd; sd_subscription := v |}
  end.

Definition sb_sd_add_dirs (sd : schema_def) (ds : sdirs) : schema_def :=
  {| sd_desc := sd_desc sd; sd_dirs := sd_dirs sd ++ ds; sd_query := sd_query sd;
     sd_mutation := sd_mutation sd; sd_subscription := sd_subscription sd |}.

(* add_root_operations *)
Fixpoint sb_add_roots (o : origin) (sd : schema_def) (roots : list rootop) : schema_def * list sberr :=
  match roots with
  | [] => (sd, [])
  | (op, n) :: r =>
    match sb_sd_root sd op with
    | None => sb_add_roots o (sb_sd_set_root sd op (Some (mkcomp o n))) r
    | Some _ => let '(sd', e) := sb_add_roots o sd r in (sd', SbeDuplicateRootOperation op :: e)
    end
  end.

(* SchemaDefinition::extend_ast *)
Definition sb_extend_schema_def (id : N) (sd : schema_def) (dirs : list directive) (roots : list rootop)
  : schema_def * list sberr :=
  sb_add_roots (OExt id) (sb_sd_add_dirs sd (sb_comp_dirs (OExt id) dirs)) roots.

Fixpoint sb_extend_schema_def_all (next : N) (sd : schema_def) (q : list (list directive * list rootop))
  : schema_def * N * list sberr :=
  match q with
  | [] => (sd, next, [])
  | (dirs, roots) :: r =>
    let '(sd', e) := sb_extend_schema_def next sd dirs roots in
    let '(sd'', n', e') := sb_extend_schema_def_all (next + 1) sd' r in
    (sd'', n', e ++ e')
  end.

(* ---------------------------------------------------------------- builder state *)
Record sb_state := mk_sb_state {
  sbs_def : schema_def;
  sbs_dirdefs : list dirdef;
  sbs_types : list ext_type;
  sbs_found : bool;                                         (* SchemaDefinitionStatus::Found *)
  sbs_orphan_sx : list (list directive * list rootop);      (* NoneSoFar { orphan_extensions } *)
  sbs_orphans : list (str * list definition);               (* orphan_type_extensions *)
  sbs_next : N;                                             (* next fresh extension id *)
  sbs_errs : list sberr }.                                  (* in push order *)

Definition sb_init (b0 : schema) : sb_state :=
  {| sbs_def := sch_def b0; sbs_dirdefs := sch_dirdefs b0; sbs_types := sch_types b0;
     sbs_found := false; sbs_orphan_sx := []; sbs_orphans := []; sbs_next := 0; sbs_errs := [] |}.

Definition sb_with_errs (st : sb_state) (e : list sberr) : sb_state :=
  {| sbs_def := sbs_def st; sbs_dirdefs := sbs_dirdefs st; sbs_types := sbs_types st;
     sbs_found := sbs_found st; sbs_orphan_sx := sbs_orphan_sx st; sbs_orphans := sbs_orphans st;
     sbs_next := sbs_next st; sbs_errs := sbs_errs st ++ e |}.

(* IndexMap<Name, Vec<Definition>>: entry(name).or_default().push(x) *)
Fixpoint sb_orphan_push (n : str) (x : definition) (q : list (str * list definition))
  : list (str * list definition) :=
  match q with
  | [] => [(n, [x])]
  | (k, l) :: r => if streq n k then (k, l ++ [x]) :: r else (k, l) :: sb_orphan_push n x r
  end.

(* shift_remove(name).unwrap_or_default() *)
Fixpoint sb_orphan_take (n : str) (q : list (str * list definition))
  : list definition * list (str * list definition) :=
  match q with
  | [] => ([], [])
  | (k, l) :: r =>
    if streq n k then (l, r) else let '(got, r') := sb_orphan_take n r in (got, (k, l) :: r')
  end.

(* get_mut(name) = new value, in place *)
Fixpoint sb_update_type (n : str) (t' : ext_type) (ts : list ext_type) : list ext_type :=
  match ts with
  | [] => []
  | t :: r => if streq n (et_name t) then t' :: r else t :: sb_update_type n t' r
  end.

Fixpoint sb_update_dirdef (n : str) (d' : dirdef) (ds : list dirdef) : list dirdef :=
  match ds with
  | [] => []
  | d :: r => if streq n (dd_name d) then d' :: r else d :: sb_update_dirdef n d' r
  end.

Definition sb_is_scalar_def (d : definition) : bool :=
  match d with DScalar _ _ _ => true | _ => false end.

(* type_definition! *)
Definition sb_type_definition (cfg : sb_cfg) (st : sb_state) (name : str) (d : definition) : sb_state :=
  match sch_find_type name (sbs_types st) with
  | None =>
    match sb_type_of_def d with
    | None => st (* not reached: d is a type definition *)
    | Some (t0, e0) =>
      let '(q, orphans') := sb_orphan_take name (sbs_orphans st) in
      let '(t1, next', e1) := sb_apply_queued t0 (sbs_next st) q in
      let e2 := sb_queued_mismatches name (sb_et_kind t0) q in
      {| sbs_def := sbs_def st; sbs_dirdefs := sbs_dirdefs st; sbs_types := sbs_types st ++ [t1];
         sbs_found := sbs_found st; sbs_orphan_sx := sbs_orphan_sx st; sbs_orphans := orphans';
         sbs_next := next'; sbs_errs := sbs_errs st ++ e0 ++ e1 ++ e2 |}
    end
  | Some prev =>
    if sbc_ignore_builtin cfg && et_builtin prev then st
    else if sb_is_scalar_def d && et_builtin prev then sb_with_errs st [SbeBuiltInScalarTypeRedefinition]
    else sb_with_errs st [SbeTypeDefinitionCollision name]
  end.

(* type_extension! *)
Definition sb_type_extension (st : sb_state) (name : str) (k : sbkind) (x : definition) : sb_state :=
  match sch_find_type name (sbs_types st) with
  | Some t =>
    match sb_extend_type (sbs_next st) t x with
    | Some (t', e) =>
      {| sbs_def := sbs_def st; sbs_dirdefs := sbs_dirdefs st;
         sbs_types := sb_update_type name t' (sbs_types st);
         sbs_found := sbs_found st; sbs_orphan_sx := sbs_orphan_sx st; sbs_orphans := sbs_orphans st;
         sbs_next := sbs_next st + 1; sbs_errs := sbs_errs st ++ e |}
    | None => sb_with_errs st [SbeTypeExtensionKindMismatch name k (sb_et_kind t)]
    end
  | None =>
    {| sbs_def := sbs_def st; sbs_dirdefs := sbs_dirdefs st; sbs_types := sbs_types st;
       sbs_found := sbs_found st; sbs_orphan_sx := sbs_orphan_sx st;
       sbs_orphans := sb_orphan_push name x (sbs_orphans st);
       sbs_next := sbs_next st; sbs_errs := sbs_errs st |}
  end.

(* one iteration of the loop of add_ast_document_not_adding_sources (executable definitions are errors) *)
Definition sb_add_def (cfg : sb_cfg) (st : sb_state) (d : definition) : sb_state :=
  match d with
  | DSchema desc dirs roots =>
    if sbs_found st then sb_with_errs st [SbeSchemaDefinitionCollision]
    else
      let sd0 := {| sd_desc := desc; sd_dirs := sb_comp_dirs ODef dirs; sd_query := None;
                    sd_mutation := None; sd_subscription := None |} in
      let '(sd1, e1) := sb_add_roots ODef sd0 roots in
      let '(sd2, next', e2) := sb_extend_schema_def_all (sbs_next st) sd1 (sbs_orphan_sx st) in
      {| sbs_def := sd2; sbs_dirdefs := sbs_dirdefs st; sbs_types := sbs_types st;
         sbs_found := true; sbs_orphan_sx := []; sbs_orphans := sbs_orphans st;
         sbs_next := next'; sbs_errs := sbs_errs st ++ e1 ++ e2 |}
  | DDirective desc name args rep locs =>
    let dd := {| dd_desc := desc; dd_name := name; dd_args := args; dd_repeatable := rep;
                 dd_locs := locs; dd_builtin := false |} in
    match sch_find_dirdef name (sbs_dirdefs st) with
    | None =>
      {| sbs_def := sbs_def st; sbs_dirdefs := sbs_dirdefs st ++ [dd]; sbs_types := sbs_types st;
         sbs_found := sbs_found st; sbs_orphan_sx := sbs_orphan_sx st; sbs_orphans := sbs_orphans st;
         sbs_next := sbs_next st; sbs_errs := sbs_errs st |}
    | Some prev =>
      if dd_builtin prev then
        {| sbs_def := sbs_def st; sbs_dirdefs := sb_update_dirdef name dd (sbs_dirdefs st);
           sbs_types := sbs_types st;
           sbs_found := sbs_found st; sbs_orphan_sx := sbs_orphan_sx st; sbs_orphans := sbs_orphans st;
           sbs_next := sbs_next st; sbs_errs := sbs_errs st |}
      else sb_with_errs st [SbeDirectiveDefinitionCollision name]
    end
  | DScalar _ n _ | DObject _ n _ _ _ | DInterface _ n _ _ _ | DUnion _ n _ _ | DEnum _ n _ _
  | DInput _ n _ _ => sb_type_definition cfg st n d
  | XSchema dirs roots =>
    if sbs_found st then
      let '(sd', e) := sb_extend_schema_def (sbs_next st) (sbs_def st) dirs roots in
      {| sbs_def := sd'; sbs_dirdefs := sbs_dirdefs st; sbs_types := sbs_types st;
         sbs_found := true; sbs_orphan_sx := sbs_orphan_sx st; sbs_orphans := sbs_orphans st;
         sbs_next := sbs_next st + 1; sbs_errs := sbs_errs st ++ e |}
    else
      {| sbs_def := sbs_def st; sbs_dirdefs := sbs_dirdefs st; sbs_types := sbs_types st;
         sbs_found := false; sbs_orphan_sx := sbs_orphan_sx st ++ [(dirs, roots)];
         sbs_orphans := sbs_orphans st; sbs_next := sbs_next st; sbs_errs := sbs_errs st |}
  | XScalar n _ => sb_type_extension st n SbScalar d
  | XObject n _ _ _ => sb_type_extension st n SbObject d
  | XInterface n _ _ _ => sb_type_extension st n SbInterface d
  | XUnion n _ _ => sb_type_extension st n SbUnion d
  | XEnum n _ _ => sb_type_extension st n SbEnum d
  | XInput n _ _ => sb_type_extension st n SbInput d
  | DOperation _ _ _ _ _ | DFragment _ _ _ _ => sb_with_errs st [SbeExecutableDefinition]
  end.

(* add_ast_document: a fold; several documents = the fold over their concatenation (C13_schema_fold) *)
Definition sb_add_doc (cfg : sb_cfg) (st : sb_state) (doc : document) : sb_state :=
  fold_left (sb_add_def cfg) doc st.

Definition sb_add_docs (cfg : sb_cfg) (st : sb_state) (docs : list document) : sb_state :=
  fold_left (sb_add_doc cfg) docs st.

(* ---------------------------------------------------------------- build_inner *)
Definition sb_str_Query : str := [81; 117; 101; 114; 121].
Definition sb_str_Mutation : str := [77; 117; 116; 97; 116; 105; 111; 110].
Definition sb_str_Subscription : str := [83; 117; 98; 115; 99; 114; 105; 112; 116; 105; 111; 110].

Definition sb_default_type_name (op : optype) : str :=
  match op with OpQuery => sb_str_Query | OpMutation => sb_str_Mutation | OpSubscription => sb_str_Subscription end.

Definition sb_is_object (t : ext_type) : bool :=
  match t with EObject _ _ _ _ _ _ => true | _ => false end.

Definition sb_has_object (types : list ext_type) (n : str) : bool :=
  match sch_find_type n types with Some t => sb_is_object t | None => false end.

(* add_implicit_root_types: (new schema definition, has_implicit_root_operation) *)
Definition sb_add_implicit_roots (sd : schema_def) (types : list ext_type) : schema_def * bool :=
  fold_left (fun '(sd, has) op =>
    let n := sb_default_type_name op in
    if sb_has_object types n then (sb_sd_set_root sd op (Some (mkcomp ODef n)), true) else (sd, has))
    [OpQuery; OpMutation; OpSubscription] (sd, false).

Definition sb_empty_type (k : sbkind) (n : str) : ext_type :=
  match k with
  | SbScalar => EScalar None n [] false
  | SbObject => EObject None n [] [] [] false
  | SbInterface => EInterface None n [] [] [] false
  | SbUnion => EUnion None n [] [] false
  | SbEnum => EEnum None n [] [] false
  | SbInput => EInput None n [] [] false
  end.

(* the loop of adopt_type_extensions over all queued extensions, the kind fixed by the first *)
Fixpoint sb_adopt_loop (k : sbkind) (t : ext_type) (next : N) (q : list definition)
  : option (ext_type * N * list sberr) :=
  match q with
  | [] => Some (t, next, [])
  | x :: r =>
    match sb_extend_type next t x with
    | Some (t', e) =>
      match sb_adopt_loop k t' (next + 1) r with
      | Some (t'', n', e') => Some (t'', n', e ++ e')
      | None => None
      end
    | None =>
      match sb_ext_name x, sb_ext_kind x with
      | Some xn, Some xk =>
        match sb_adopt_loop k t next r with
        | Some (t'', n', e') => Some (t'', n', SbeTypeExtensionKindMismatch xn xk k :: e')
        | None => None
        end
      | _, _ => None (* ext.name().unwrap() on something that is not a type extension: panic *)
      end
    end
  end.

(* adopt_type_extensions; None = panic (`extensions[0]` on an empty queue, `unreachable!()`) *)
Definition sb_adopt (n : str) (next : N) (q : list definition) : option (ext_type * N * list sberr) :=
  match q with
  | [] => None
  | x :: _ =>
    match sb_ext_kind x with
    | None => None
    | Some k => sb_adopt_loop k (sb_empty_type k n) next q
    end
  end.

Inductive sb_result :=
| SbBuilt (s : schema) (errs : list sberr)
| SbPanic.

(* `for (type_name, extensions) in orphan_type_extensions { insert; assert!(previous.is_none()) }` *)
Fixpoint sb_adopt_all (types : list ext_type) (next : N) (q : list (str * list definition))
  : option (list ext_type * N * list sberr) :=
  match q with
  | [] => Some (types, next, [])
  | (n, l) :: r =>
    match sb_adopt n next l with
    | None => None
    | Some (t, next', e) =>
      match sch_find_type n types with
      | Some _ => None (* assert!(previous.is_none()) *)
      | None =>
        match sb_adopt_all (types ++ [t]) next' r with
        | Some (ts, n', e') => Some (ts, n', e ++ e')
        | None => None
        end
      end
    end
  end.

(* `name = ext.name().unwrap()` for every queued extension *)
Fixpoint sb_orphan_errors (q : list definition) : option (list sberr) :=
  match q with
  | [] => Some []
  | x :: r =>
    match sb_ext_name x, sb_orphan_errors r with
    | Some n, Some e => Some (SbeOrphanTypeExtension n :: e)
    | _, _ => None
    end
  end.

Fixpoint sb_all_orphan_errors (q : list (str * list definition)) : option (list sberr) :=
  match q with
  | [] => Some []
  | (_, l) :: r =>
    match sb_orphan_errors l, sb_all_orphan_errors r with
    | Some e, Some e' => Some (e ++ e')
    | _, _ => None
    end
  end.

Definition sb_roots_all_none (sd : schema_def) : bool :=
  match sd_query sd, sd_mutation sd, sd_subscription sd with
  | None, None, None => true
  | _, _, _ => false
  end.

Definition sb_build_inner (cfg : sb_cfg) (st : sb_state) : sb_result :=
  let step1 :=
    if sbc_adopt cfg then sb_adopt_all (sbs_types st) (sbs_next st) (sbs_orphans st)
    else match sb_all_orphan_errors (sbs_orphans st) with
         | Some e => Some (sbs_types st, sbs_next st, e)
         | None => None
         end in
  match step1 with
  | None => SbPanic
  | Some (types, next, e1) =>
    let errs := sbs_errs st ++ e1 in
    if sbs_found st then
      SbBuilt {| sch_def := sbs_def st; sch_dirdefs := sbs_dirdefs st; sch_types := types |} errs
    else if sbc_adopt cfg then
      let '(sd1, _, e2) := sb_extend_schema_def_all next (sbs_def st) (sbs_orphan_sx st) in
      let sd2 := if sb_roots_all_none sd1 then fst (sb_add_implicit_roots sd1 types) else sd1 in
      SbBuilt {| sch_def := sd2; sch_dirdefs := sbs_dirdefs st; sch_types := types |} (errs ++ e2)
    else
      let '(sd1, has) := sb_add_implicit_roots (sbs_def st) types in
      if has then
        let '(sd2, _, e2) := sb_extend_schema_def_all next sd1 (sbs_orphan_sx st) in
        SbBuilt {| sch_def := sd2; sch_dirdefs := sbs_dirdefs st; sch_types := types |} (errs ++ e2)
      else
        SbBuilt {| sch_def := sd1; sch_dirdefs := sbs_dirdefs st; sch_types := types |}
                (errs ++ map (fun _ => SbeOrphanSchemaExtension) (sbs_orphan_sx st))
  end.

(* Schema::builder().add_ast(doc1)...add_ast(docn).build() *)
Definition sb_build_docs (cfg : sb_cfg) (b0 : schema) (docs : list document) : sb_result :=
  sb_build_inner cfg (sb_add_docs cfg (sb_init b0) docs).

Definition sb_build (cfg : sb_cfg) (b0 : schema) (doc : document) : sb_result :=
  sb_build_docs cfg b0 [doc].
