(* C14 — LITERAL models of apollo-compiler's two cycle searches (validation/input_object.rs
   FindRecursiveInputValue, validation/directive.rs FindRecursiveDirective) with their RecursionStack
   (validation/mod.rs: an IndexSet of names, `push` fails when more than `limit` = 32 names are on it,
   `first()` is the root, a dropped guard pops).  The stack is threaded functionally: a callee receives
   the extended stack and the caller keeps its own, which is what push + drop amount to.
   These are models of THE CODE, separate from the declarative statements (Consistent.CsNNPath,
   Consistent.CsRefPath) and from the specification's rule functions in Valid.v.
   Recursion is fuel-bounded; CyFuel is a distinct result, excluded by theorem for cy_input_check. *)
From ApolloVerif Require Import Base.Chars Ast.Ast Schema.Model.

Inductive cy_res := CyOk | CyRecursed | CyLimit | CyFuel.

Definition cy_mem (x : str) (l : list str) : bool := existsb (streq x) l.

(* RecursionStack::first *)
Definition cy_first_is (seen : list str) (n : str) : bool :=
  match seen with x :: _ => streq x n | [] => false end.

(* Schema::get_input_object *)
Definition cy_get_input_object (s : schema) (n : str) : option (list inputvaldef) :=
  match sch_get_type s n with
  | Some (EInput _ _ _ fs _) => Some (map c_val fs)
  | _ => None
  end.

Definition cy_default_limit : nat := 32.

(* FindRecursiveInputValue::input_object_definition (the loop) with input_value_definition inlined *)
Fixpoint cy_input_fields (s : schema) (limit : nat) (fuel : nat) (seen : list str)
  (fs : list inputvaldef) {struct fuel} : cy_res :=
  match fuel with
  | O => CyFuel
  | S k =>
      (fix loop (fs : list inputvaldef) : cy_res :=
         match fs with
         | [] => CyOk
         | f :: r =>
             let res :=
               match iv_ty f with
               | TNonNullNamed name =>
                   if negb (cy_mem name seen) then
                     match cy_get_input_object s name with
                     | Some fields' =>
                         (* seen.push(name)? *)
                         let seen' := seen ++ [name] in
                         if Nat.ltb limit (length seen') then CyLimit
                         else cy_input_fields s limit k seen' fields'
                     | None => CyOk
                     end
                   else if cy_first_is seen name then CyRecursed
                        else CyOk
               | _ => CyOk
               end in
             match res with CyOk => loop r | CyRecursed => CyRecursed | CyLimit => CyLimit | CyFuel => CyFuel end
         end) fs
  end.

(* FindRecursiveInputValue::check: RecursionStack::with_root(name) *)
Definition cy_input_check_limit (s : schema) (limit : nat) (name : str) (fields : list inputvaldef) : cy_res :=
  cy_input_fields s limit (S (S limit)) [name] fields.
Definition cy_input_check (s : schema) (name : str) (fields : list inputvaldef) : cy_res :=
  cy_input_check_limit s cy_default_limit name fields.

(* validate_input_object_definition reports an error for Recursed and for Limit *)
Definition cy_find_recursive_input (s : schema) (name : str) (fields : list inputvaldef) : bool :=
  match cy_input_check s name fields with CyRecursed => true | _ => false end.

(* ---------------------------------------------------------------- FindRecursiveDirective *)

Definition cy_type_dirs (t : ext_type) : list directive :=
  match t with
  | EScalar _ _ d _ | EObject _ _ _ d _ _ | EInterface _ _ _ d _ _ | EUnion _ _ d _ _
  | EEnum _ _ d _ _ | EInput _ _ d _ _ => map c_val d
  end.

(* One level of the mutually recursive functions of FindRecursiveDirective; `rec dg tg ivs` is the
   recursive call "for input_value in ivs { self.input_value(dg, tg, input_value)? }" (directive_definition
   for a directive's arguments, the field loop of type_definition for an input object).  Both stacks are
   passed down explicitly: the callee gets the extended stack, the caller keeps its own (push + drop). *)
Section CyDirLevel.
  Context (s : schema) (limit : nat) (rec : list str -> list str -> list inputvaldef -> cy_res).

  (* fn directive *)
  Definition cy_on_directive (dg tg : list str) (d : directive) : cy_res :=
    if negb (cy_mem (d_name d) dg) then
      match sch_find_dirdef (d_name d) (sch_dirdefs s) with
      | Some def =>
          let dg' := dg ++ [d_name d] in
          if Nat.ltb limit (length dg') then CyLimit           (* directive_guard.push(..)? *)
          else rec dg' tg (dd_args def)                         (* fn directive_definition *)
      | None => CyOk
      end
    else if cy_first_is dg (d_name d) then CyRecursed
         else CyOk.

  (* fn directives, and the loops over an input value's / enum value's directives *)
  Fixpoint cy_on_directives (dg tg : list str) (l : list directive) : cy_res :=
    match l with
    | [] => CyOk
    | d :: r =>
        match cy_on_directive dg tg d with
        | CyOk => cy_on_directives dg tg r
        | CyRecursed => CyRecursed | CyLimit => CyLimit | CyFuel => CyFuel
        end
    end.

  (* the loop over enum values calling fn enum_value *)
  Fixpoint cy_on_enum_values (dg tg : list str) (l : list (comp enumvaldef)) : cy_res :=
    match l with
    | [] => CyOk
    | v :: r =>
        match cy_on_directives dg tg (ev_dirs (c_val v)) with
        | CyOk => cy_on_enum_values dg tg r
        | CyRecursed => CyRecursed | CyLimit => CyLimit | CyFuel => CyFuel
        end
    end.

  (* fn type_definition *)
  Definition cy_type_definition (dg tg : list str) (t : ext_type) : cy_res :=
    match cy_on_directives dg tg (cy_type_dirs t) with
    | CyOk =>
        match t with
        | EEnum _ _ _ vs _ => cy_on_enum_values dg tg vs
        | EInput _ _ _ fs _ => rec dg tg (map c_val fs)
        | _ => CyOk
        end
    | CyRecursed => CyRecursed | CyLimit => CyLimit | CyFuel => CyFuel
    end.

  (* the second half of fn input_value: the type of the input value *)
  Definition cy_on_type (dg tg : list str) (iv : inputvaldef) : cy_res :=
    match sch_get_type s (inner_named_type (iv_ty iv)) with
    | Some t =>
        if cy_mem (et_name t) tg then CyOk                      (* input type was already processed *)
        else if negb (et_builtin t) then
               let tg' := tg ++ [et_name t] in
               if Nat.ltb limit (length tg') then CyLimit        (* type_guard.push(..)? *)
               else cy_type_definition dg tg' t
             else cy_type_definition dg tg t
    | None => CyOk
    end.

  (* "for input_value in ..": fn input_value = directives first, then the type *)
  Fixpoint cy_ivd_loop (dg tg : list str) (ivs : list inputvaldef) : cy_res :=
    match ivs with
    | [] => CyOk
    | iv :: r =>
        match cy_on_directives dg tg (iv_dirs iv) with
        | CyOk =>
            match cy_on_type dg tg iv with
            | CyOk => cy_ivd_loop dg tg r
            | CyRecursed => CyRecursed | CyLimit => CyLimit | CyFuel => CyFuel
            end
        | CyRecursed => CyRecursed | CyLimit => CyLimit | CyFuel => CyFuel
        end
    end.
End CyDirLevel.

Fixpoint cy_dir_ivds (s : schema) (limit : nat) (fuel : nat) (dg tg : list str)
  (ivs : list inputvaldef) {struct fuel} : cy_res :=
  match fuel with
  | O => CyFuel
  | S k => cy_ivd_loop s limit (cy_dir_ivds s limit k) dg tg ivs
  end.

(* FindRecursiveDirective::check; both stacks are bounded by the limit, so 2 * limit + 3 nested calls
   are the most there can be *)
Definition cy_dir_check_limit (s : schema) (limit : nat) (def : dirdef) : cy_res :=
  cy_dir_ivds s limit (limit + limit + 3) [dd_name def] [] (dd_args def).
Definition cy_dir_check (s : schema) (def : dirdef) : cy_res := cy_dir_check_limit s cy_default_limit def.

Definition cy_find_recursive_directive (s : schema) (def : dirdef) : bool :=
  match cy_dir_check s def with CyRecursed => true | _ => false end.
