(* The high-level Schema of crates/apollo-compiler/src/schema/mod.rs as Gallina data.
   IndexMap / IndexSet are association lists / lists in insertion order (order is data).
   Every component carries its origin: the definition or an extension (ExtensionId: identity = a number). *)
From ApolloVerif Require Import Base.Chars Ast.Ast.

Inductive origin := ODef | OExt (id : N).

Definition origin_eqb (a b : origin) : bool :=
  match a, b with
  | ODef, ODef => true
  | OExt x, OExt y => x =? y
  | _, _ => false
  end.

(* Component<T> *)
Record comp (A : Type) := mkcomp { c_origin : origin; c_val : A }.
Arguments mkcomp {A}. Arguments c_origin {A}. Arguments c_val {A}.

Definition sdirs := list (comp directive).

Record schema_def := {
  sd_desc : option str;
  sd_dirs : sdirs;
  sd_query : option (comp str);
  sd_mutation : option (comp str);
  sd_subscription : option (comp str) }.

Record dirdef := {
  dd_desc : option str; dd_name : str; dd_args : list inputvaldef; dd_repeatable : bool;
  dd_locs : list dirloc; dd_builtin : bool }.

(* ExtendedType; maps keyed by the component's own name (as built from parsed text) *)
Inductive ext_type :=
| EScalar (desc : option str) (name : str) (dirs : sdirs) (builtin : bool)
| EObject (desc : option str) (name : str) (impls : list (comp str)) (dirs : sdirs)
          (fields : list (comp fielddef)) (builtin : bool)
| EInterface (desc : option str) (name : str) (impls : list (comp str)) (dirs : sdirs)
             (fields : list (comp fielddef)) (builtin : bool)
| EUnion (desc : option str) (name : str) (dirs : sdirs) (members : list (comp str)) (builtin : bool)
| EEnum (desc : option str) (name : str) (dirs : sdirs) (values : list (comp enumvaldef)) (builtin : bool)
| EInput (desc : option str) (name : str) (dirs : sdirs) (fields : list (comp inputvaldef)) (builtin : bool).

Record schema := {
  sch_def : schema_def;
  sch_dirdefs : list dirdef;
  sch_types : list ext_type }.

Definition et_name (t : ext_type) : str :=
  match t with
  | EScalar _ n _ _ | EObject _ n _ _ _ _ | EInterface _ n _ _ _ _ | EUnion _ n _ _ _
  | EEnum _ n _ _ _ | EInput _ n _ _ _ => n
  end.

Definition et_builtin (t : ext_type) : bool :=
  match t with
  | EScalar _ _ _ b | EObject _ _ _ _ _ b | EInterface _ _ _ _ _ b | EUnion _ _ _ _ b
  | EEnum _ _ _ _ b | EInput _ _ _ _ b => b
  end.

Fixpoint sch_find_type (n : str) (ts : list ext_type) : option ext_type :=
  match ts with
  | [] => None
  | t :: r => if streq n (et_name t) then Some t else sch_find_type n r
  end.

Definition sch_get_type (s : schema) (n : str) : option ext_type := sch_find_type n (sch_types s).

Fixpoint sch_find_dirdef (n : str) (ds : list dirdef) : option dirdef :=
  match ds with
  | [] => None
  | d :: r => if streq n (dd_name d) then Some d else sch_find_dirdef n r
  end.

Definition sch_type_count (s : schema) : N := N.of_nat (length (sch_types s)).
