(* Proofs about Schema/Scalars.v: post_validate is idempotent on its own output; adding a field of a
   pruned built-in scalar type restores exactly that scalar, appended to `types`. *)
From ApolloVerif Require Import Base.Chars Ast.Ast Schema.Model Schema.Scalars.

Lemma vs_mem_In n l : vs_mem n l = true <-> In n l.
Proof.
  unfold vs_mem. rewrite existsb_exists. split.
  - intros [x [Hx He]]. apply streq_eq in He. subst. exact Hx.
  - intros H. exists n. split; [exact H|apply streq_refl].
Qed.

Lemma vs_mem_false n l : vs_mem n l = false <-> ~ In n l.
Proof. rewrite <- vs_mem_In. destruct (vs_mem n l); split; congruence. Qed.

(* ---- sets as lists *)
Definition vs_ins_all (l acc : list str) : list str := fold_left (fun a n => vs_set_insert n a) l acc.

Lemma vs_set_insert_In x n l : In x (vs_set_insert n l) <-> In x l \/ x = n.
Proof.
  unfold vs_set_insert. destruct (vs_mem n l) eqn:E.
  - apply vs_mem_In in E. split; [auto|intros [H| ->]; auto].
  - rewrite in_app_iff. cbn. intuition.
Qed.

Lemma NoDup_snoc {A} (l : list A) x : NoDup l -> ~ In x l -> NoDup (l ++ [x]).
Proof.
  induction l as [|y l IH]; cbn; intros H Hx.
  - constructor; [tauto|constructor].
  - inversion H as [|? ? Hy Hl]; subst. constructor.
    + rewrite in_app_iff. cbn. intuition.
    + apply IH; [exact Hl|tauto].
Qed.

Lemma vs_set_insert_NoDup n l : NoDup l -> NoDup (vs_set_insert n l).
Proof.
  intros H. unfold vs_set_insert. destruct (vs_mem n l) eqn:E; [exact H|].
  apply vs_mem_false in E. apply NoDup_snoc; assumption.
Qed.

Lemma vs_ins_all_In x l : forall acc, In x (vs_ins_all l acc) <-> In x acc \/ In x l.
Proof.
  induction l as [|n l IH]; intros acc; cbn [vs_ins_all fold_left].
  - cbn. tauto.
  - fold (vs_ins_all l (vs_set_insert n acc)). rewrite IH, vs_set_insert_In. cbn. intuition.
Qed.

Lemma vs_ins_all_NoDup l : forall acc, NoDup acc -> NoDup (vs_ins_all l acc).
Proof.
  induction l as [|n l IH]; intros acc H; cbn [vs_ins_all fold_left]; [exact H|].
  apply IH, vs_set_insert_NoDup, H.
Qed.

(* ---- the scan *)
Definition vs_pd (all types : list ext_type) (r : str) : bool := vs_contains all r && vs_contains types r.
Definition vs_pu (all types : list ext_type) (r : str) : bool := vs_contains all r && negb (vs_contains types r).

Lemma vs_scan_fold all types refs : forall st,
  fold_left (vs_record all types) refs st =
  {| vs_used_defined := vs_ins_all (filter (vs_pd all types) refs) (vs_used_defined st);
     vs_used_undefined := vs_ins_all (filter (vs_pu all types) refs) (vs_used_undefined st) |}.
Proof.
  induction refs as [|r refs IH]; intros [d u]; cbn [fold_left filter vs_ins_all]; [reflexivity|].
  rewrite IH. unfold vs_record, vs_pd, vs_pu.
  destruct (vs_contains all r), (vs_contains types r); reflexivity.
Qed.

Definition vs_defined (all : list ext_type) (s : schema) : list str :=
  vs_ins_all (filter (vs_pd all (sch_types s)) (vs_schema_refs s)) [].
Definition vs_undefined (all : list ext_type) (s : schema) : list str :=
  vs_ins_all (filter (vs_pu all (sch_types s)) (vs_schema_refs s)) [].

Lemma vs_scan_eq all s :
  vs_scan all s = {| vs_used_defined := vs_defined all s; vs_used_undefined := vs_undefined all s |}.
Proof. unfold vs_scan. rewrite vs_scan_fold. reflexivity. Qed.

Lemma vs_contains_find ts n : vs_contains ts n = true <-> exists t, sch_find_type n ts = Some t.
Proof.
  unfold vs_contains. destruct (sch_find_type n ts) as [t|]; split; try congruence.
  - eauto. - intros [t H]. discriminate.
Qed.

Lemma sch_find_type_name n ts t : sch_find_type n ts = Some t -> et_name t = n /\ In t ts.
Proof.
  induction ts as [|t0 ts IH]; cbn; [discriminate|].
  destruct (streq n (et_name t0)) eqn:E.
  - intros [= ->]. apply streq_eq in E. auto.
  - intros H. destruct (IH H). auto.
Qed.

Lemma vs_contains_In ts n : vs_contains ts n = true <-> In n (map et_name ts).
Proof.
  induction ts as [|t ts IH]; unfold vs_contains in *; cbn; [split; [discriminate|tauto]|].
  destruct (streq n (et_name t)) eqn:E.
  - apply streq_eq in E. split; auto.
  - rewrite IH. split; [auto|]. intros [H|H]; [|exact H]. subst. rewrite streq_refl in E. discriminate.
Qed.

Lemma vs_contains_app a b n : vs_contains (a ++ b) n = vs_contains a n || vs_contains b n.
Proof.
  apply eq_true_iff_eq. rewrite orb_true_iff, !vs_contains_In, map_app, in_app_iff. tauto.
Qed.

(* ---- inserting the missing definitions *)
Definition vs_defs_of (all : list ext_type) (names : list str) : list ext_type :=
  flat_map (fun n => match sch_find_type n all with Some d => [d] | None => [] end) names.

Lemma vs_insert_absent d ts : vs_contains ts (et_name d) = false -> vs_insert d ts = ts ++ [d].
Proof.
  induction ts as [|t ts IH]; cbn; [reflexivity|].
  unfold vs_contains. cbn. destruct (streq (et_name d) (et_name t)); [discriminate|].
  intros H. f_equal. apply IH. exact H.
Qed.

Lemma vs_insert_missing_app all : forall names ts,
  NoDup names ->
  (forall n, In n names -> vs_contains ts n = false) ->
  (forall n, In n names -> vs_contains all n = true) ->
  vs_insert_missing all names ts = Some (ts ++ vs_defs_of all names).
Proof.
  induction names as [|n names IH]; intros ts Hnd Habs Hall; cbn [vs_insert_missing vs_defs_of flat_map].
  - rewrite app_nil_r. reflexivity.
  - assert (Hn : vs_contains all n = true) by (apply Hall; left; reflexivity).
    apply vs_contains_find in Hn. destruct Hn as [d Hd]. rewrite Hd.
    destruct (sch_find_type_name _ _ _ Hd) as [Hname _].
    rewrite vs_insert_absent by (rewrite Hname; apply Habs; left; reflexivity).
    inversion Hnd as [|? ? Hnotin Hnd']; subst.
    rewrite IH; [rewrite <- app_assoc; reflexivity|exact Hnd'| |].
    + intros n' Hin. rewrite vs_contains_app, (Habs n') by (right; exact Hin). cbn.
      unfold vs_contains. cbn. destruct (streq n' (et_name d)) eqn:E; [|reflexivity].
      apply streq_eq in E. subst. contradiction.
    + intros n' Hin. apply Hall. right. exact Hin.
Qed.

Lemma vs_defs_of_names all names :
  (forall n, In n names -> vs_contains all n = true) -> map et_name (vs_defs_of all names) = names.
Proof.
  induction names as [|n names IH]; intros H; cbn; [reflexivity|].
  assert (Hn : vs_contains all n = true) by (apply H; left; reflexivity).
  apply vs_contains_find in Hn. destruct Hn as [d Hd]. rewrite Hd. cbn.
  destruct (sch_find_type_name _ _ _ Hd) as [-> _]. f_equal. apply IH. intros; apply H; right; assumption.
Qed.

Lemma vs_defs_of_in_all all names d : In d (vs_defs_of all names) -> In d all.
Proof.
  unfold vs_defs_of. rewrite in_flat_map. intros [n [_ H]].
  destruct (sch_find_type n all) as [d'|] eqn:E; [|contradiction].
  destruct H as [<-|[]]. apply sch_find_type_name in E. tauto.
Qed.

(* ---- facts about the two sets *)
Lemma vs_defined_In all s n :
  In n (vs_defined all s) <-> In n (vs_schema_refs s) /\ vs_contains all n = true /\ vs_contains (sch_types s) n = true.
Proof.
  unfold vs_defined. rewrite vs_ins_all_In, filter_In. unfold vs_pd. rewrite andb_true_iff. cbn. tauto.
Qed.

Lemma vs_undefined_In all s n :
  In n (vs_undefined all s) <-> In n (vs_schema_refs s) /\ vs_contains all n = true /\ vs_contains (sch_types s) n = false.
Proof.
  unfold vs_undefined. rewrite vs_ins_all_In, filter_In. unfold vs_pu. rewrite andb_true_iff, negb_true_iff. cbn. tauto.
Qed.

Lemma vs_defined_NoDup all s : NoDup (vs_defined all s).
Proof. apply vs_ins_all_NoDup. constructor. Qed.
Lemma vs_undefined_NoDup all s : NoDup (vs_undefined all s).
Proof. apply vs_ins_all_NoDup. constructor. Qed.

Definition vs_is_scalar (t : ext_type) : bool := match t with EScalar _ _ _ _ => true | _ => false end.

Lemma vs_scalar_refs t : vs_is_scalar t = true -> vs_type_refs t = [].
Proof. destruct t; cbn; congruence. Qed.

(* the shape of the result *)
Definition vs_pruned (all : list ext_type) (s : schema) : list ext_type :=
  let st := vs_scan all s in
  if vs_all_used all st then sch_types s else filter (vs_keep all st) (sch_types s).

Lemma vs_post_validate_shape all s :
  vs_post_validate all s =
  Some {| sch_def := sch_def s; sch_dirdefs := sch_dirdefs s;
          sch_types := vs_pruned all s ++ vs_defs_of all (vs_undefined all s) |}.
Proof.
  unfold vs_post_validate, vs_pruned. set (st := vs_scan all s).
  assert (Hu : vs_used_undefined st = vs_undefined all s) by (unfold st; rewrite vs_scan_eq; reflexivity).
  rewrite Hu. rewrite vs_insert_missing_app; [reflexivity|apply vs_undefined_NoDup| |].
  - intros n Hn. apply vs_undefined_In in Hn. destruct Hn as [_ [_ Hn]].
    destruct (vs_all_used all st); [exact Hn|].
    apply not_true_is_false. intros Hc. apply vs_contains_In in Hc.
    apply in_map_iff in Hc. destruct Hc as [t [Ht Hin]]. apply filter_In in Hin.
    assert (vs_contains (sch_types s) n = true); [|congruence].
    apply vs_contains_In, in_map_iff. exists t. tauto.
  - intros n Hn. apply vs_undefined_In in Hn. tauto.
Qed.

(* post_validate never panics *)
Lemma vs_post_validate_total all s : exists s', vs_post_validate all s = Some s'.
Proof. rewrite vs_post_validate_shape. eauto. Qed.

(* ---- well-formedness used by the theorems: the table of built-in scalars has distinct names and
   consists of scalar definitions; a type flagged built-in that carries the name of a built-in scalar
   is a scalar (so pruning it removes no type reference) *)
Definition vs_wf (all : list ext_type) (s : schema) : Prop :=
  NoDup (map et_name all) /\
  Forall (fun t => vs_is_scalar t = true) all /\
  Forall (fun t => et_builtin t = true -> vs_contains all (et_name t) = true -> vs_is_scalar t = true)
         (sch_types s).

Lemma flat_map_filter_nil {A B} (f : A -> list B) (p : A -> bool) l :
  (forall x, In x l -> p x = false -> f x = []) -> flat_map f (filter p l) = flat_map f l.
Proof.
  induction l as [|x l IH]; intros H; cbn; [reflexivity|].
  destruct (p x) eqn:E; cbn.
  - f_equal. apply IH. intros; apply H; [right|]; assumption.
  - rewrite (H x) by (auto; left; reflexivity). cbn. apply IH. intros; apply H; [right|]; assumption.
Qed.

Lemma flat_map_all_nil {A B} (f : A -> list B) l : (forall x, In x l -> f x = []) -> flat_map f l = [].
Proof.
  induction l as [|x l IH]; intros H; cbn; [reflexivity|].
  rewrite (H x) by (left; reflexivity). apply IH. intros; apply H; right; assumption.
Qed.

Lemma vs_keep_false_scalar all s t :
  vs_wf all s -> In t (sch_types s) -> vs_keep all (vs_scan all s) t = false -> vs_is_scalar t = true.
Proof.
  intros [_ [_ Hw]] Hin Hk. unfold vs_keep in Hk.
  apply orb_false_iff in Hk. destruct Hk as [Hk _]. apply orb_false_iff in Hk. destruct Hk as [Hb Hc].
  apply negb_false_iff in Hb, Hc. rewrite Forall_forall in Hw. apply Hw; assumption.
Qed.

Lemma vs_refs_preserved all s s1 :
  vs_wf all s -> vs_post_validate all s = Some s1 -> vs_schema_refs s1 = vs_schema_refs s.
Proof.
  intros Hwf. rewrite vs_post_validate_shape. intros [= <-]. unfold vs_schema_refs. cbn [sch_dirdefs sch_types].
  f_equal. rewrite flat_map_app.
  rewrite (flat_map_all_nil _ (vs_defs_of all _)).
  2:{ intros d Hd. apply vs_defs_of_in_all in Hd. destruct Hwf as [_ [Hs _]].
      rewrite Forall_forall in Hs. apply vs_scalar_refs, Hs, Hd. }
  rewrite app_nil_r. unfold vs_pruned. destruct (vs_all_used all (vs_scan all s)); [reflexivity|].
  apply flat_map_filter_nil. intros t Hin Hk. apply vs_scalar_refs. eapply vs_keep_false_scalar; eassumption.
Qed.

Lemma vs_all_used_spec all s :
  vs_all_used all (vs_scan all s) = true <->
  length (vs_defined all s ++ vs_undefined all s) = length (map et_name all).
Proof.
  unfold vs_all_used. rewrite vs_scan_eq. cbn [vs_used_defined vs_used_undefined].
  rewrite N.eqb_eq, app_length, map_length. lia.
Qed.

Lemma NoDup_app_disjoint {A} (a b : list A) :
  NoDup a -> NoDup b -> (forall x, In x a -> ~ In x b) -> NoDup (a ++ b).
Proof.
  induction a as [|x a IH]; cbn; intros Ha Hb Hd; [exact Hb|].
  inversion Ha as [|? ? Hx Ha']; subst. constructor.
  - rewrite in_app_iff. intros [H|H]; [contradiction|]. apply (Hd x); [left; reflexivity|exact H].
  - apply IH; [exact Ha'|exact Hb|]. intros y Hy. apply Hd. right. exact Hy.
Qed.

Lemma vs_used_NoDup all s : NoDup (vs_defined all s ++ vs_undefined all s).
Proof.
  apply NoDup_app_disjoint; [apply vs_defined_NoDup|apply vs_undefined_NoDup|].
  intros x Hd Hu. apply vs_defined_In in Hd. apply vs_undefined_In in Hu.
  destruct Hd as [_ [_ Hd]], Hu as [_ [_ Hu]]. congruence.
Qed.

(* when every built-in scalar counts as used, every built-in scalar name is referenced *)
Lemma vs_all_used_referenced all s n :
  NoDup (map et_name all) -> vs_all_used all (vs_scan all s) = true ->
  vs_contains all n = true -> In n (vs_defined all s ++ vs_undefined all s).
Proof.
  intros Hnd Hau Hn. apply vs_all_used_spec in Hau.
  assert (Hincl : incl (map et_name all) (vs_defined all s ++ vs_undefined all s)).
  { apply NoDup_length_incl.
    - apply vs_used_NoDup.
    - lia.
    - intros x Hx. apply in_app_iff in Hx. apply vs_contains_In.
      destruct Hx as [Hx|Hx]; [apply vs_defined_In in Hx|apply vs_undefined_In in Hx]; tauto. }
  apply Hincl, vs_contains_In, Hn.
Qed.

(* every type of the result that is flagged built-in and named like a built-in scalar is referenced *)
Lemma vs_result_builtins_referenced all s s1 t :
  vs_wf all s -> vs_post_validate all s = Some s1 ->
  In t (sch_types s1) -> et_builtin t = true -> vs_contains all (et_name t) = true ->
  In (et_name t) (vs_schema_refs s).
Proof.
  intros Hwf. rewrite vs_post_validate_shape. intros [= <-]. cbn [sch_types].
  intros Hin Hb Hc. apply in_app_iff in Hin. destruct Hin as [Hin|Hin].
  - unfold vs_pruned in Hin. destruct (vs_all_used all (vs_scan all s)) eqn:Hau.
    + destruct Hwf as [Hnd _].
      pose proof (vs_all_used_referenced all s (et_name t) Hnd Hau Hc) as H.
      apply in_app_iff in H. destruct H as [H|H]; [apply vs_defined_In in H|apply vs_undefined_In in H]; tauto.
    + apply filter_In in Hin. destruct Hin as [_ Hk]. unfold vs_keep in Hk.
      rewrite Hb, Hc in Hk. cbn [negb orb] in Hk. rewrite vs_scan_eq in Hk. cbn [vs_used_defined] in Hk.
      apply vs_mem_In, vs_defined_In in Hk. tauto.
  - assert (Hn : In (et_name t) (map et_name (vs_defs_of all (vs_undefined all s)))) by (apply in_map; exact Hin).
    rewrite vs_defs_of_names in Hn.
    + apply vs_undefined_In in Hn. tauto.
    + intros n H. apply vs_undefined_In in H. tauto.
Qed.

(* every referenced built-in scalar is defined in the result *)
Lemma vs_result_defines_referenced all s s1 n :
  vs_post_validate all s = Some s1 ->
  In n (vs_schema_refs s) -> vs_contains all n = true -> vs_contains (sch_types s1) n = true.
Proof.
  rewrite vs_post_validate_shape. intros [= <-] Hr Hc. cbn [sch_types]. rewrite vs_contains_app.
  destruct (vs_contains (sch_types s) n) eqn:Hd.
  - apply orb_true_iff. left. unfold vs_pruned.
    destruct (vs_all_used all (vs_scan all s)); [exact Hd|].
    apply vs_contains_In in Hd. apply in_map_iff in Hd. destruct Hd as [t [Hname Hin]].
    apply vs_contains_In, in_map_iff. exists t. split; [exact Hname|]. apply filter_In. split; [exact Hin|].
    unfold vs_keep. rewrite vs_scan_eq. cbn [vs_used_defined].
    assert (Hm : vs_mem (et_name t) (vs_defined all s) = true).
    { apply vs_mem_In, vs_defined_In. rewrite Hname. repeat split; try assumption.
      apply vs_contains_In, in_map_iff. exists t. tauto. }
    rewrite Hm. apply orb_true_r.
  - apply orb_true_iff. right. apply vs_contains_In. rewrite vs_defs_of_names.
    + apply vs_undefined_In. tauto.
    + intros m H. apply vs_undefined_In in H. tauto.
Qed.

Lemma filter_all_true {A} (p : A -> bool) l : (forall x, In x l -> p x = true) -> filter p l = l.
Proof.
  induction l as [|x l IH]; intros H; cbn; [reflexivity|].
  rewrite (H x) by (left; reflexivity). f_equal. apply IH. intros; apply H; right; assumption.
Qed.

Lemma filter_all_false {A} (p : A -> bool) l : (forall x, In x l -> p x = false) -> filter p l = [].
Proof.
  induction l as [|x l IH]; intros H; cbn; [reflexivity|].
  rewrite (H x) by (left; reflexivity). apply IH. intros; apply H; right; assumption.
Qed.

Lemma vs_wf_result all s s1 : vs_wf all s -> vs_post_validate all s = Some s1 -> vs_wf all s1.
Proof.
  intros [Hnd [Hs Hw]]. rewrite vs_post_validate_shape. intros [= <-].
  split; [exact Hnd|]. split; [exact Hs|]. cbn [sch_types]. rewrite Forall_forall in *.
  intros t Hin. apply in_app_iff in Hin. destruct Hin as [Hin|Hin].
  - apply Hw. unfold vs_pruned in Hin. destruct (vs_all_used all (vs_scan all s)); [exact Hin|].
    apply filter_In in Hin. tauto.
  - intros _ _. apply Hs. eapply vs_defs_of_in_all. exact Hin.
Qed.

Theorem vs_idempotent all s s1 :
  vs_wf all s -> vs_post_validate all s = Some s1 -> vs_post_validate all s1 = Some s1.
Proof.
  intros Hwf Hpv.
  pose proof (vs_refs_preserved all s s1 Hwf Hpv) as Hrefs.
  rewrite vs_post_validate_shape.
  assert (Hund : vs_undefined all s1 = []).
  { unfold vs_undefined. rewrite filter_all_false; [reflexivity|].
    intros n Hn. unfold vs_pu. rewrite Hrefs in Hn.
    destruct (vs_contains all n) eqn:Hc; [|reflexivity].
    rewrite (vs_result_defines_referenced all s s1 n Hpv Hn Hc). reflexivity. }
  rewrite Hund. cbn [vs_defs_of flat_map]. rewrite app_nil_r.
  assert (Hpr : vs_pruned all s1 = sch_types s1).
  { unfold vs_pruned. destruct (vs_all_used all (vs_scan all s1)); [reflexivity|].
    apply filter_all_true. intros t Hin. unfold vs_keep.
    destruct (et_builtin t) eqn:Hb; [|reflexivity]. destruct (vs_contains all (et_name t)) eqn:Hc; [|reflexivity].
    cbn [negb orb]. rewrite vs_scan_eq. cbn [vs_used_defined]. apply vs_mem_In, vs_defined_In. rewrite Hrefs.
    pose proof (vs_result_builtins_referenced all s s1 t Hwf Hpv Hin Hb Hc) as Hr.
    repeat split; try assumption.
    apply vs_contains_In, in_map. exact Hin. }
  rewrite Hpr. destruct s1; reflexivity.
Qed.

(* ---- restoring a pruned scalar *)
Lemma vs_fixpoint_facts all s :
  vs_post_validate all s = Some s -> vs_undefined all s = [] /\ vs_pruned all s = sch_types s.
Proof.
  rewrite vs_post_validate_shape. intros [= H].
  assert (Hu : vs_undefined all s = []).
  { destruct (vs_undefined all s) as [|n r] eqn:E; [reflexivity|exfalso].
    assert (Hn : In n (vs_undefined all s)) by (rewrite E; left; reflexivity).
    apply vs_undefined_In in Hn. destruct Hn as [_ [Hc Hd]].
    assert (Hin : vs_contains (sch_types s) n = true).
    { rewrite <- H. cbn [sch_types]. rewrite vs_contains_app. apply orb_true_iff. right.
      apply vs_contains_In. rewrite vs_defs_of_names.
      - left; reflexivity.
      - intros m Hm. rewrite <- E in Hm. apply vs_undefined_In in Hm. tauto. }
    congruence. }
  split; [exact Hu|]. rewrite Hu in H. cbn in H. rewrite app_nil_r in H.
  destruct s as [sd dd ts]. cbn in *. congruence.
Qed.

Lemma vs_add_field_names tname fd ts : map et_name (vs_add_field_types tname fd ts) = map et_name ts.
Proof.
  induction ts as [|t ts IH]; cbn; [reflexivity|].
  destruct (streq tname (et_name t)); cbn; [|f_equal; exact IH].
  f_equal. destruct t; reflexivity.
Qed.

Lemma vs_add_field_contains tname fd ts n :
  vs_contains (vs_add_field_types tname fd ts) n = vs_contains ts n.
Proof.
  apply eq_true_iff_eq. rewrite !vs_contains_In, vs_add_field_names. tauto.
Qed.

Lemma vs_add_field_in tname fd ts t2 :
  In t2 (vs_add_field_types tname fd ts) ->
  exists t, In t ts /\ et_name t = et_name t2 /\ et_builtin t = et_builtin t2.
Proof.
  induction ts as [|t ts IH]; cbn; [tauto|].
  destruct (streq tname (et_name t)).
  - intros [<-|H].
    + exists t. split; [left; reflexivity|]. destruct t; cbn; auto.
    + exists t2. auto.
  - intros [<-|H]; [exists t; auto|]. destruct (IH H) as [t' [? ?]]. exists t'. auto.
Qed.

Lemma vs_add_field_refs tname fd ts d n impls dirs fields b r :
  sch_find_type tname ts = Some (EObject d n impls dirs fields b) ->
  (In r (flat_map vs_type_refs (vs_add_field_types tname fd ts)) <->
   In r (flat_map vs_type_refs ts) \/ In r (vs_args_refs (fd_args fd)) \/ r = inner_named_type (fd_ty fd)).
Proof.
  induction ts as [|t ts IH]; cbn [sch_find_type vs_add_field_types flat_map]; [discriminate|].
  destruct (streq tname (et_name t)).
  - intros [= ->]. cbn [vs_add_field_to vs_type_refs flat_map]. unfold vs_fields_refs.
    rewrite flat_map_app. cbn [flat_map c_val]. rewrite !in_app_iff. cbn [In]. intuition.
  - intros H. cbn [flat_map]. rewrite !in_app_iff, (IH H). tauto.
Qed.

Lemma vs_ins_all_single B l : l <> [] -> (forall x, In x l -> x = B) -> vs_ins_all l [] = [B].
Proof.
  destruct l as [|x l]; [congruence|]. intros _ H.
  assert (x = B) by (apply H; left; reflexivity). subst x.
  cbn [vs_ins_all fold_left]. unfold vs_set_insert at 2. cbn.
  assert (Hl : forall y, In y l -> y = B) by (intros; apply H; right; assumption).
  clear H. induction l as [|y l IH]; cbn; [reflexivity|].
  rewrite (Hl y) by (left; reflexivity). unfold vs_set_insert at 2. cbn. rewrite streq_refl. cbn.
  apply IH. intros; apply Hl; right; assumption.
Qed.

Theorem vs_restore all s1 tname fd B defB d n impls dirs fields b :
  NoDup (map et_name all) ->
  vs_post_validate all s1 = Some s1 ->
  sch_find_type B all = Some defB ->
  vs_contains (sch_types s1) B = false ->
  sch_find_type tname (sch_types s1) = Some (EObject d n impls dirs fields b) ->
  inner_named_type (fd_ty fd) = B ->
  (forall r, In r (vs_args_refs (fd_args fd)) -> vs_contains all r = true -> vs_contains (sch_types s1) r = true) ->
  vs_post_validate all (vs_add_field tname fd s1) =
  Some {| sch_def := sch_def s1; sch_dirdefs := sch_dirdefs s1;
          sch_types := vs_add_field_types tname fd (sch_types s1) ++ [defB] |}.
Proof.
  intros Hnd Hfix HB Habs Hobj Hty Hargs.
  destruct (vs_fixpoint_facts all s1 Hfix) as [Hund1 Hpr1].
  set (s2 := vs_add_field tname fd s1).
  assert (HBall : vs_contains all B = true) by (apply vs_contains_find; eauto).
  assert (Hrefs : forall r, In r (vs_schema_refs s2) <->
            In r (vs_schema_refs s1) \/ In r (vs_args_refs (fd_args fd)) \/ r = B).
  { intros r. unfold vs_schema_refs, s2. cbn [vs_add_field sch_dirdefs sch_types].
    rewrite !in_app_iff, (vs_add_field_refs tname fd _ _ _ _ _ _ _ r Hobj), Hty. tauto. }
  assert (Hcont : forall r, vs_contains (sch_types s2) r = vs_contains (sch_types s1) r).
  { intros r. apply vs_add_field_contains. }
  (* the undefined set is exactly [B] *)
  assert (Hund2 : vs_undefined all s2 = [B]).
  { unfold vs_undefined. apply vs_ins_all_single.
    - intros Hnil. assert (Hin : In B (filter (vs_pu all (sch_types s2)) (vs_schema_refs s2))).
      { apply filter_In. split; [apply Hrefs; auto|]. unfold vs_pu. rewrite HBall, Hcont, Habs. reflexivity. }
      rewrite Hnil in Hin. contradiction.
    - intros r Hr. apply filter_In in Hr. destruct Hr as [Hr Hpu]. unfold vs_pu in Hpu.
      apply andb_true_iff in Hpu. destruct Hpu as [Hc Hd]. apply negb_true_iff in Hd. rewrite Hcont in Hd.
      apply Hrefs in Hr. destruct Hr as [Hr|[Hr|Hr]]; [exfalso|exfalso|exact Hr].
      + assert (Hin : In r (vs_undefined all s1)) by (apply vs_undefined_In; tauto).
        rewrite Hund1 in Hin. contradiction.
      + rewrite (Hargs r Hr Hc) in Hd. discriminate. }
  (* nothing is pruned *)
  assert (Hdef12 : forall m, In m (vs_defined all s1) -> In m (vs_defined all s2)).
  { intros m Hm. apply vs_defined_In in Hm. apply vs_defined_In. rewrite Hcont. split; [apply Hrefs|]; tauto. }
  assert (Hpr2 : vs_pruned all s2 = sch_types s2).
  { unfold vs_pruned. destruct (vs_all_used all (vs_scan all s2)); [reflexivity|].
    apply filter_all_true. intros t2 Hin2. unfold vs_keep.
    destruct (et_builtin t2) eqn:Hb; [|reflexivity]. destruct (vs_contains all (et_name t2)) eqn:Hc; [|reflexivity].
    cbn [negb orb]. rewrite vs_scan_eq. cbn [vs_used_defined]. apply vs_mem_In, Hdef12.
    destruct (vs_add_field_in _ _ _ _ Hin2) as [t [Hin [Hname Hbi]]]. rewrite <- Hname.
    unfold vs_pruned in Hpr1. destruct (vs_all_used all (vs_scan all s1)) eqn:Hau.
    - exfalso. pose proof (vs_all_used_referenced all s1 B Hnd Hau HBall) as H.
      rewrite Hund1, app_nil_r in H. apply vs_defined_In in H. destruct H as [_ [_ H]]. congruence.
    - rewrite <- Hpr1 in Hin. apply filter_In in Hin. destruct Hin as [_ Hk]. unfold vs_keep in Hk.
      rewrite Hbi, Hb, Hname, Hc in Hk. cbn [negb orb] in Hk. rewrite vs_scan_eq in Hk. cbn [vs_used_defined] in Hk.
      apply vs_mem_In in Hk. rewrite Hname. exact Hk. }
  rewrite vs_post_validate_shape, Hpr2, Hund2. cbn [vs_defs_of flat_map]. rewrite HB. reflexivity.
Qed.
