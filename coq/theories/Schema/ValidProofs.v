(* Proofs connecting the executable rules of Schema/Valid.v with the declarative statements of
   Schema/Consistent.v: reflection lemmas, the interface contract (C14_interface_contract), soundness of
   the saturating closure, and C15_valid_consistent. *)
From ApolloVerif Require Import Base.Chars Ast.Ast Schema.Model Schema.Valid Schema.Consistent.
From Coq Require Import Relations.

(* ---------------------------------------------------------------- basics *)

Lemma sv_mem_In x l : sv_mem x l = true <-> In x l.
Proof.
  unfold sv_mem. rewrite existsb_exists. split.
  - intros [y [Hin Heq]]. apply streq_eq in Heq. now subst.
  - intros Hin. exists x. split; [assumption|apply streq_refl].
Qed.

Lemma sv_mem_false x l : sv_mem x l = false <-> ~ In x l.
Proof.
  rewrite <- sv_mem_In. destruct (sv_mem x l); split; intros H; try congruence; try (exfalso; now auto).
Qed.

Lemma streq_false a b : streq a b = false <-> a <> b.
Proof.
  rewrite <- streq_eq. destruct (streq a b); split; intros H; try congruence; try (exfalso; now auto).
Qed.

Lemma sv_nodup_NoDup l : sv_nodup l = true <-> NoDup l.
Proof.
  induction l as [|x l IH]; cbn [sv_nodup].
  - split; [constructor|reflexivity].
  - rewrite andb_true_iff, negb_true_iff, sv_mem_false, IH. split.
    + intros [H1 H2]. now constructor.
    + intros H. inversion H; subst. now split.
Qed.

Lemma sv_builtin_scalar_name n : sv_mem n sv_builtin_scalar_names = true <-> CsBuiltinScalarName n.
Proof.
  rewrite sv_mem_In. unfold sv_builtin_scalar_names, CsBuiltinScalarName, sv_n_Int, sv_n_Float, sv_n_String,
    sv_n_Boolean, sv_n_ID. cbn [In]. intuition (subst; auto).
Qed.

Lemma sv_lookup_resolves s n t : sv_lookup s n = Some t <-> CsResolves s n t.
Proof.
  unfold sv_lookup, CsResolves. destruct (sch_get_type s n) as [u|] eqn:Hg.
  - split.
    + intros [= ->]. now left.
    + intros [[= ->]|[Hn _]]; [reflexivity|discriminate].
  - destruct (sv_mem n sv_builtin_scalar_names) eqn:Hb.
    + apply sv_builtin_scalar_name in Hb. split.
      * intros [= <-]. right. auto.
      * intros [H|[_ [_ ->]]]; [discriminate|reflexivity].
    + split; [discriminate|]. intros [H|[_ [Hn _]]]; [discriminate|].
      apply sv_builtin_scalar_name in Hn. congruence.
Qed.

Lemma CsResolves_fun s n t u : CsResolves s n t -> CsResolves s n u -> t = u.
Proof. rewrite <- !sv_lookup_resolves. congruence. Qed.

Lemma sch_find_type_In n ts t : sch_find_type n ts = Some t -> In t ts /\ et_name t = n.
Proof.
  induction ts as [|u ts IH]; cbn [sch_find_type]; [discriminate|].
  destruct (streq n (et_name u)) eqn:He.
  - intros [= ->]. apply streq_eq in He. split; [now left|auto].
  - intros H. destruct (IH H). split; [now right|assumption].
Qed.

Lemma sch_get_type_In s n t : sch_get_type s n = Some t -> In t (sch_types s) /\ et_name t = n.
Proof. apply sch_find_type_In. Qed.

Lemma sv_ref_is_spec s p n : sv_ref_is s p n = true <-> exists t, CsResolves s n t /\ p t = true.
Proof.
  unfold sv_ref_is. destruct (sv_lookup s n) as [t|] eqn:Hl.
  - apply sv_lookup_resolves in Hl. split.
    + intros H. exists t. auto.
    + intros [u [Hu Hp]]. now rewrite (CsResolves_fun _ _ _ _ Hl Hu).
  - split; [discriminate|]. intros [u [Hu _]]. apply sv_lookup_resolves in Hu. congruence.
Qed.

Lemma sv_is_object_spec t : sv_is_object t = true <-> CsObject t.
Proof. destruct t; cbn; intuition discriminate. Qed.
Lemma sv_is_interface_spec t : sv_is_interface t = true <-> CsInterface t.
Proof. destruct t; cbn; intuition discriminate. Qed.
Lemma sv_is_input_object_spec t : sv_is_input_object t = true <-> CsInputObject t.
Proof. destruct t; cbn; intuition discriminate. Qed.
Lemma sv_is_input_type_spec t : sv_is_input_type t = true <-> CsInputKind t.
Proof. destruct t; cbn; intuition discriminate. Qed.
Lemma sv_is_output_type_spec t : sv_is_output_type t = true <-> CsOutputKind t.
Proof. destruct t; cbn; intuition discriminate. Qed.

Lemma sv_ref_is_refers s p (K : ext_type -> Prop) n :
  (forall t, p t = true <-> K t) -> (sv_ref_is s p n = true <-> CsRefersTo s K n).
Proof.
  intros HK. rewrite sv_ref_is_spec. unfold CsRefersTo. split; intros [t [H1 H2]]; exists t; split; auto;
    now apply HK.
Qed.

Lemma sv_fields_cs t : sv_fields_of t = cs_fields_of t.
Proof. destruct t; reflexivity. Qed.
Lemma sv_impls_cs t : sv_impls_of t = cs_impls_of t.
Proof. destruct t; reflexivity. Qed.

Lemma sv_ty_eqb_eq a b : sv_ty_eqb a b = true <-> a = b.
Proof.
  revert b. induction a as [x|x|a IH|a IH]; destruct b as [y|y|b|b]; cbn [sv_ty_eqb];
    try (split; [discriminate|congruence]).
  - rewrite streq_eq. split; congruence.
  - rewrite streq_eq. split; congruence.
  - rewrite IH. split; congruence.
  - rewrite IH. split; congruence.
Qed.

(* first-match lookups *)
Lemma find_first_spec {A : Type} (name : A -> str) (find : str -> list A -> option A)
  (Hnil : forall n, find n [] = None)
  (Hcons : forall n x r, find n (x :: r) = if streq n (name x) then Some x else find n r) :
  forall l n x, find n l = Some x <-> CsFirst name l n x.
Proof.
  induction l as [|y l IH]; intros n x.
  - rewrite Hnil. split; [discriminate|]. intros [pre [post [H _]]]. destruct pre; discriminate.
  - rewrite Hcons. destruct (streq n (name y)) eqn:He.
    + apply streq_eq in He. split.
      * intros [= ->]. exists [], l. split; [reflexivity|]. split; [auto|]. intros z [].
      * intros [pre [post [Hl [Hn Hpre]]]]. destruct pre as [|z pre].
        -- cbn in Hl. congruence.
        -- cbn in Hl. injection Hl as Hyz _. exfalso. apply (Hpre z); [now left|congruence].
    + apply streq_false in He. rewrite IH. split.
      * intros [pre [post [Hl [Hn Hpre]]]]. exists (y :: pre), post. split; [cbn; congruence|].
        split; [assumption|]. intros z [<-|Hz]; [congruence|auto].
      * intros [pre [post [Hl [Hn Hpre]]]]. destruct pre as [|z pre].
        -- cbn in Hl. injection Hl as <- _. congruence.
        -- cbn in Hl. injection Hl as <- ->. exists pre, post. split; [reflexivity|]. split; [assumption|].
           intros w Hw. apply Hpre. now right.
Qed.

Lemma sv_find_field_spec fs n f : sv_find_field n fs = Some f <-> CsFirst fd_name fs n f.
Proof. apply (find_first_spec fd_name sv_find_field); reflexivity. Qed.
Lemma sv_find_arg_spec args n a : sv_find_arg n args = Some a <-> CsFirst iv_name args n a.
Proof. apply (find_first_spec iv_name sv_find_arg); reflexivity. Qed.

Lemma CsFirst_In {A : Type} (name : A -> str) l n (x : A) : CsFirst name l n x -> In x l /\ name x = n.
Proof. intros [pre [post [-> [Hn _]]]]. split; [apply in_elt|assumption]. Qed.

Lemma sv_find_arg_none n args : sv_find_arg n args = None <-> forall a, In a args -> iv_name a <> n.
Proof.
  induction args as [|x r IH]; cbn [sv_find_arg].
  - split; [intros _ a []|reflexivity].
  - destruct (streq n (iv_name x)) eqn:He.
    + apply streq_eq in He. split; [discriminate|]. intros H. exfalso. apply (H x); [now left|auto].
    + apply streq_false in He. rewrite IH. split.
      * intros H a [<-|Ha]; [congruence|auto].
      * intros H a Ha. apply H. now right.
Qed.

Lemma sv_is_some_true {A : Type} (o : option A) : sv_is_some o = true <-> exists x, o = Some x.
Proof. destruct o; cbn; split; eauto; try discriminate. intros [x H]; discriminate. Qed.

(* ---------------------------------------------------------------- IsValidImplementation *)

Lemma sv_unwrap_nn_cs t : sv_unwrap_nn t = cs_nullable t.
Proof. destruct t; reflexivity. Qed.

Lemma sv_spec_subtype_spec s n m : sv_spec_subtype s n m = true <-> CsSubtype s n m.
Proof.
  unfold sv_spec_subtype, CsSubtype. split.
  - destruct (sv_lookup s n) as [tn|] eqn:Hn; [|discriminate].
    destruct (sv_lookup s m) as [tm|] eqn:Hm; [|destruct tn; discriminate].
    apply sv_lookup_resolves in Hn, Hm. intros H. exists tn, tm. split; [assumption|]. split; [assumption|].
    destruct tn, tm; try discriminate; apply sv_mem_In in H; cbn; auto.
  - intros [tn [tm [Hn [Hm H]]]]. apply sv_lookup_resolves in Hn, Hm. rewrite Hn, Hm.
    destruct H as [[Ho Hin]|[Hk [Hi Hin]]].
    + destruct tn; cbn in Ho; try contradiction. destruct tm; cbn in Hin; try contradiction.
      now apply sv_mem_In.
    + destruct tm; cbn in Hi; try contradiction.
      destruct tn; cbn in Hk, Hin; try (destruct Hk; contradiction); now apply sv_mem_In.
Qed.

Lemma sv_ift_named s n it :
  sv_impl_field_type s (TNamed n) it =
  match it with TNamed m => streq n m || sv_spec_subtype s n m | _ => false end.
Proof. reflexivity. Qed.
Lemma sv_ift_list s t it :
  sv_impl_field_type s (TList t) it =
  match it with TList u => sv_impl_field_type s t u | _ => false end.
Proof. reflexivity. Qed.
Lemma sv_ift_nn_named s n it :
  sv_impl_field_type s (TNonNullNamed n) it = sv_impl_field_type s (TNamed n) (sv_unwrap_nn it).
Proof. reflexivity. Qed.
Lemma sv_ift_nn_list s t it :
  sv_impl_field_type s (TNonNullList t) it = sv_impl_field_type s (TList t) (sv_unwrap_nn it).
Proof. reflexivity. Qed.

Lemma sv_impl_field_type_sound s ft : forall it,
  sv_impl_field_type s ft it = true -> ValidImplFieldType s ft it.
Proof.
  induction ft as [n|n|t IH|t IH]; intros it.
  - rewrite sv_ift_named. destruct it as [m| | |]; try discriminate.
    rewrite orb_true_iff, streq_eq, sv_spec_subtype_spec. intros [->|H]; [apply VIFT_same|now apply VIFT_sub].
  - rewrite sv_ift_nn_named, sv_unwrap_nn_cs, sv_ift_named. intros H. apply VIFT_nonnull_named.
    destruct (cs_nullable it) as [m| | |]; try discriminate.
    rewrite orb_true_iff, streq_eq, sv_spec_subtype_spec in H.
    destruct H as [->|H]; [apply VIFT_same|now apply VIFT_sub].
  - rewrite sv_ift_list. destruct it as [| |u|]; try discriminate. intros H. apply VIFT_list. now apply IH.
  - rewrite sv_ift_nn_list, sv_unwrap_nn_cs, sv_ift_list. intros H. apply VIFT_nonnull_list.
    destruct (cs_nullable it) as [| |u|]; try discriminate. apply VIFT_list. now apply IH.
Qed.

Lemma sv_impl_field_type_complete s ft it :
  ValidImplFieldType s ft it -> sv_impl_field_type s ft it = true.
Proof.
  induction 1 as [n it _ IH|t it _ IH|t u _ IH|n|n m H].
  - now rewrite sv_ift_nn_named, sv_unwrap_nn_cs.
  - now rewrite sv_ift_nn_list, sv_unwrap_nn_cs.
  - now rewrite sv_ift_list.
  - rewrite sv_ift_named, streq_refl. reflexivity.
  - rewrite sv_ift_named. apply sv_spec_subtype_spec in H. rewrite H. apply orb_true_r.
Qed.

Lemma sv_impl_field_type_spec s ft it :
  sv_impl_field_type s ft it = true <-> ValidImplFieldType s ft it.
Proof. split; [apply sv_impl_field_type_sound|apply sv_impl_field_type_complete]. Qed.

Lemma sv_required_spec a : sv_required a = true <-> CsRequired a.
Proof.
  unfold sv_required, CsRequired. rewrite andb_true_iff, negb_true_iff. split.
  - intros [Hn Hd]. split.
    + destruct (iv_ty a) as [n|n|t|t]; try discriminate; exists n || exists []; eauto.
    + destruct (iv_default a); [discriminate|reflexivity].
  - intros [[n [H|[t H]]] Hd]; rewrite H, Hd; auto.
Qed.

Lemma sv_find_arg_some_iff n args :
  sv_is_some (sv_find_arg n args) = true <-> exists a, In a args /\ iv_name a = n.
Proof.
  destruct (sv_find_arg n args) as [a|] eqn:Hf; cbn [sv_is_some].
  - apply sv_find_arg_spec, CsFirst_In in Hf. split; [intros _; exists a; assumption|reflexivity].
  - split; [discriminate|]. intros [a [Hin Hn]]. exfalso.
    exact (proj1 (sv_find_arg_none n args) Hf a Hin Hn).
Qed.

Lemma sv_impl_args_ok_spec f ifd :
  sv_impl_args_ok f ifd = true <->
  (forall ia, In ia (fd_args ifd) ->
     exists a, CsFirst iv_name (fd_args f) (iv_name ia) a /\ iv_ty a = iv_ty ia).
Proof.
  unfold sv_impl_args_ok. rewrite forallb_forall. split; intros H ia Hia; specialize (H ia Hia).
  - destruct (sv_find_arg (iv_name ia) (fd_args f)) as [a|] eqn:Hf; [|discriminate].
    exists a. split; [now apply sv_find_arg_spec|now apply sv_ty_eqb_eq].
  - destruct H as [a [Hf Ht]]. apply sv_find_arg_spec in Hf. rewrite Hf. now apply sv_ty_eqb_eq.
Qed.

Lemma sv_impl_extra_args_ok_spec f ifd :
  sv_impl_extra_args_ok f ifd = true <->
  (forall a, In a (fd_args f) ->
     (exists ia, In ia (fd_args ifd) /\ iv_name ia = iv_name a) \/ ~ CsRequired a).
Proof.
  unfold sv_impl_extra_args_ok. rewrite forallb_forall. split; intros H a Ha; specialize (H a Ha).
  - apply orb_true_iff in H. destruct H as [H|H].
    + left. now apply sv_find_arg_some_iff.
    + right. rewrite <- sv_required_spec. now destruct (sv_required a).
  - apply orb_true_iff. destruct H as [H|H].
    + left. now apply sv_find_arg_some_iff.
    + right. rewrite <- sv_required_spec in H. now destruct (sv_required a).
Qed.

Lemma sv_impl_field_ok_spec s tfields ifd :
  sv_impl_field_ok s tfields ifd = true <->
  exists f, CsFirst fd_name tfields (fd_name ifd) f /\
    (forall ia, In ia (fd_args ifd) ->
       exists a, CsFirst iv_name (fd_args f) (iv_name ia) a /\ iv_ty a = iv_ty ia) /\
    (forall a, In a (fd_args f) ->
       (exists ia, In ia (fd_args ifd) /\ iv_name ia = iv_name a) \/ ~ CsRequired a) /\
    ValidImplFieldType s (fd_ty f) (fd_ty ifd).
Proof.
  unfold sv_impl_field_ok. destruct (sv_find_field (fd_name ifd) tfields) as [f|] eqn:Hf.
  - rewrite !andb_true_iff, sv_impl_args_ok_spec, sv_impl_extra_args_ok_spec, sv_impl_field_type_spec.
    apply sv_find_field_spec in Hf. split.
    + intros [[H1 H2] H3]. exists f. auto.
    + intros [g [Hg [H1 [H2 H3]]]]. apply sv_find_field_spec in Hf, Hg.
      assert (g = f) by congruence. subst g. auto.
  - split; [discriminate|]. intros [g [Hg _]]. apply sv_find_field_spec in Hg. congruence.
Qed.

(* C14_interface_contract *)
Theorem sv_implements_ok_spec s t i : sv_implements_ok s t i = true <-> ImplementsSpec s t i.
Proof.
  unfold sv_implements_ok, ImplementsSpec. split.
  - destruct (sv_lookup s i) as [ti|] eqn:Hl; [|discriminate].
    destruct ti as [| |d n iimpls dirs ifields b| | |]; try discriminate.
    apply sv_lookup_resolves in Hl. rewrite andb_true_iff. intros [H1 H2].
    exists d, n, iimpls, dirs, ifields, b. split; [assumption|]. split.
    + unfold sv_impl_transitive in H1. rewrite forallb_forall in H1. intros j Hj.
      rewrite <- sv_impls_cs. apply sv_mem_In. now apply H1.
    + rewrite forallb_forall in H2. intros ifd Hifd. specialize (H2 ifd Hifd).
      apply sv_impl_field_ok_spec in H2. now rewrite <- sv_fields_cs.
  - intros [d [n [iimpls [dirs [ifields [b [Hr [H1 H2]]]]]]]]. apply sv_lookup_resolves in Hr. rewrite Hr.
    apply andb_true_iff. split.
    + unfold sv_impl_transitive. apply forallb_forall. intros j Hj. apply sv_mem_In.
      rewrite sv_impls_cs. now apply H1.
    + apply forallb_forall. intros ifd Hifd. apply sv_impl_field_ok_spec. rewrite sv_fields_cs. now apply H2.
Qed.

(* ---------------------------------------------------------------- the saturating closure is sound *)

Section ClosureSound.
  Context {A : Type} (eqb : A -> A -> bool) (Heqb : forall x y, eqb x y = true <-> x = y)
          (succ : A -> list A).
  Let R (a b : A) : Prop := In b (succ a).

  Lemma sv_in_In x l : sv_in eqb x l = true <-> In x l.
  Proof.
    unfold sv_in. rewrite existsb_exists. split.
    - intros [y [Hy He]]. apply Heqb in He. now subst.
    - intros Hx. exists x. split; [assumption|now apply Heqb].
  Qed.

  Lemma sv_union_incl_l acc new x : In x acc -> In x (sv_union eqb acc new).
  Proof.
    intros Hx. induction new as [|y new IH]; cbn [sv_union fold_right]; [assumption|].
    fold (sv_union eqb acc new). destruct (sv_in eqb y (sv_union eqb acc new)); [assumption|now right].
  Qed.

  Lemma sv_close_incl fuel : forall acc x, In x acc -> In x (sv_close eqb succ fuel acc).
  Proof.
    induction fuel as [|k IH]; intros acc x Hx; cbn [sv_close]; [assumption|].
    destruct (sv_saturated eqb succ acc); [assumption|]. apply IH. now apply sv_union_incl_l.
  Qed.

  Lemma sv_saturated_step acc :
    sv_saturated eqb succ acc = true -> forall x y, In x acc -> R x y -> In y acc.
  Proof.
    unfold sv_saturated. rewrite forallb_forall. intros H x y Hx Hy. apply sv_in_In. apply H.
    apply in_flat_map. exists x. auto.
  Qed.

  Lemma sv_no_self_reach_sound fuel x :
    sv_no_self_reach eqb succ fuel x = true -> ~ clos_trans A R x x.
  Proof.
    unfold sv_no_self_reach. set (r := sv_close eqb succ fuel (succ x)).
    rewrite andb_true_iff, negb_true_iff. intros [Hsat Hx] Hp.
    assert (Hall : forall a b, clos_trans A R a b -> (a = x \/ In a r) -> In b r).
    { induction 1 as [a b Hab|a b c _ IH1 _ IH2]; intros Ha.
      - destruct Ha as [->|Ha].
        + apply sv_close_incl. exact Hab.
        + exact (sv_saturated_step r Hsat a b Ha Hab).
      - apply IH2. right. now apply IH1. }
    assert (Hin : In x r) by (apply (Hall x x Hp); now left).
    apply sv_in_In in Hin. congruence.
  Qed.
End ClosureSound.

Lemma clos_trans_mono {A : Type} (R S : A -> A -> Prop) :
  (forall a b, R a b -> S a b) -> forall a b, clos_trans A R a b -> clos_trans A S a b.
Proof. intros H a b Hp. induction Hp; [apply t_step; auto|eapply t_trans; eauto]. Qed.

Lemma clos_trans_first {A : Type} (R : A -> A -> Prop) a b : clos_trans A R a b -> exists c, R a c.
Proof. induction 1 as [a b H|a b c _ IH _ _]; [eauto|exact IH]. Qed.

(* ---------------------------------------------------------------- input object cycles *)

Lemma CsNNStep_succ s a b : CsNNStep s a b -> In b (sv_nn_succ s a).
Proof.
  intros [ta [tb [f [Ha [Hf [Hty [Hb Hk]]]]]]]. unfold sv_nn_succ.
  apply sv_lookup_resolves in Ha. rewrite Ha.
  destruct ta as [| | | | |d n dirs fs bl]; cbn [cs_input_fields_of] in Hf; try contradiction.
  apply in_flat_map. exists f. split; [exact Hf|]. rewrite Hty.
  assert (Hr : sv_ref_is s sv_is_input_object b = true).
  { apply sv_ref_is_spec. exists tb. split; [assumption|now apply sv_is_input_object_spec]. }
  rewrite Hr. now left.
Qed.

Lemma CsNNStep_source s a b : CsNNStep s a b -> exists t, In t (sch_types s) /\ et_name t = a /\ CsInputObject t.
Proof.
  intros [ta [tb [f [Ha [Hf _]]]]]. exists ta.
  destruct ta as [| | | | |d n dirs fs bl]; cbn [cs_input_fields_of] in Hf; try contradiction.
  destruct Ha as [Ha|[_ [_ Ha]]]; [|discriminate].
  apply sch_get_type_In in Ha. destruct Ha. split; [assumption|]. split; [assumption|exact I].
Qed.

Lemma sv_input_cycle_sound s :
  sv_rule_input_no_nonnull_cycle s = true -> forall n, ~ CsNNPath s n n.
Proof.
  unfold sv_rule_input_no_nonnull_cycle. rewrite forallb_forall. intros Hr n Hp.
  destruct (clos_trans_first _ _ _ Hp) as [c Hc].
  destruct (CsNNStep_source _ _ _ Hc) as [t [Ht [Hn Hk]]].
  specialize (Hr t Ht). apply sv_is_input_object_spec in Hk. rewrite Hk, Hn in Hr. cbn in Hr.
  unfold sv_input_no_cycle in Hr.
  apply (sv_no_self_reach_sound streq streq_eq (sv_nn_succ s) _ _ Hr).
  apply (clos_trans_mono (CsNNStep s)); [apply CsNNStep_succ|exact Hp].
Qed.

(* ---------------------------------------------------------------- reserved names *)

Lemma sv_reserved_spec n : sv_reserved n = true <-> CsReserved n.
Proof.
  unfold sv_reserved, CsReserved. destruct n as [|a [|b r]].
  - split; [discriminate|]. intros [r H]; discriminate.
  - split; [discriminate|]. intros [r H]; discriminate.
  - rewrite andb_true_iff, !N.eqb_eq. split.
    + intros [-> ->]. now exists r.
    + intros [r' [= -> -> _]]. auto.
Qed.

Lemma sv_not_reserved n : negb (sv_reserved n) = true <-> ~ CsReserved n.
Proof. rewrite negb_true_iff, <- sv_reserved_spec. destruct (sv_reserved n); intuition congruence. Qed.

Lemma sv_exempt_user {A : Type} b (c : comp A) : CsUserComp b c -> sv_exempt b c = false.
Proof.
  unfold sv_exempt. intros [->|[id H]]; [reflexivity|]. rewrite H. apply andb_false_r.
Qed.

Lemma sv_args_names_ok_spec args :
  sv_args_names_ok args = true -> forall a, In a args -> ~ CsReserved (iv_name a).
Proof.
  unfold sv_args_names_ok. rewrite forallb_forall. intros H a Ha. apply sv_not_reserved. now apply H.
Qed.

Lemma sv_reserved_sound s : sv_rule_reserved_names s = true -> CsNoReservedNames s.
Proof.
  unfold sv_rule_reserved_names, CsNoReservedNames. rewrite andb_true_iff, !forallb_forall.
  intros [Ht Hd]. split.
  - intros t Hin. specialize (Ht t Hin). unfold sv_type_names_ok in Ht. apply andb_true_iff in Ht.
    destruct Ht as [Hname Hbody]. split.
    + intros Hb. rewrite Hb in Hname. cbn in Hname. now apply sv_not_reserved.
    + destruct t as [| d n is dirs fs b | d n is dirs fs b | | d n dirs vs b | d n dirs fs b]; try exact I;
        rewrite forallb_forall in Hbody; intros c Hc Hu; specialize (Hbody c Hc);
        rewrite (sv_exempt_user _ _ Hu) in Hbody; cbn [orb] in Hbody.
      * unfold sv_field_names_ok in Hbody. apply andb_true_iff in Hbody. destruct Hbody as [H1 H2].
        split; [now apply sv_not_reserved|now apply sv_args_names_ok_spec].
      * unfold sv_field_names_ok in Hbody. apply andb_true_iff in Hbody. destruct Hbody as [H1 H2].
        split; [now apply sv_not_reserved|now apply sv_args_names_ok_spec].
      * now apply sv_not_reserved.
      * now apply sv_not_reserved.
  - intros d Hin Hb. specialize (Hd d Hin). unfold sv_dirdef_names_ok in Hd. rewrite Hb in Hd. cbn in Hd.
    apply andb_true_iff in Hd. destruct Hd as [H1 H2].
    split; [now apply sv_not_reserved|now apply sv_args_names_ok_spec].
Qed.

(* ---------------------------------------------------------------- roots *)

Lemma sv_roots_cs s : sv_roots s = map snd (cs_roots s).
Proof.
  unfold sv_roots, cs_roots, sv_vals, sv_opt_list.
  destruct (sd_query (sch_def s)), (sd_mutation (sch_def s)), (sd_subscription (sch_def s)); reflexivity.
Qed.

Lemma NoDup_map_snd_fun {A B : Type} (l : list (A * B)) a b n :
  NoDup (map snd l) -> In (a, n) l -> In (b, n) l -> a = b.
Proof.
  induction l as [|[x m] l IH]; cbn [map snd In]; intros Hnd Ha Hb; [contradiction|].
  inversion Hnd as [|? ? Hnot Hnd']; subst.
  destruct Ha as [Ha|Ha], Hb as [Hb|Hb].
  - congruence.
  - exfalso. apply Hnot. apply (in_map snd) in Hb. cbn [snd] in Hb. congruence.
  - exfalso. apply Hnot. apply (in_map snd) in Ha. cbn [snd] in Ha. congruence.
  - auto.
Qed.

(* ---------------------------------------------------------------- the interface contract from the split rules *)

Lemma sv_over_impls_elim s p t i d n iimpls dirs ifields b :
  sv_over_impls s p = true -> In t (sch_types s) -> In i (sv_impls_of t) ->
  sv_lookup s i = Some (EInterface d n iimpls dirs ifields b) ->
  p t (sv_vals iimpls) (sv_vals ifields) = true.
Proof.
  unfold sv_over_impls. rewrite forallb_forall. intros H Ht Hi Hl. specialize (H t Ht).
  rewrite forallb_forall in H. specialize (H i Hi). now rewrite Hl in H.
Qed.

Lemma sv_implements_ok_from_rules s t i :
  sv_rule_implements_targets s = true -> sv_rule_transitive_interfaces s = true ->
  sv_rule_interface_fields_present s = true -> sv_rule_interface_field_types s = true ->
  sv_rule_interface_field_args s = true -> sv_rule_interface_extra_args s = true ->
  In t (sch_types s) -> In i (sv_impls_of t) -> sv_implements_ok s t i = true.
Proof.
  intros Htg Htr Hfp Hft Hfa Hfe Ht Hi.
  unfold sv_rule_implements_targets in Htg. rewrite forallb_forall in Htg. specialize (Htg t Ht).
  rewrite forallb_forall in Htg. specialize (Htg i Hi). apply sv_ref_is_spec in Htg.
  destruct Htg as [ti [Hr Hk]]. apply sv_lookup_resolves in Hr.
  destruct ti as [| |d n iimpls dirs ifields b| | |]; try discriminate.
  unfold sv_implements_ok. rewrite Hr.
  pose proof (sv_over_impls_elim s _ t i d n iimpls dirs ifields b Htr Ht Hi Hr) as H1. cbv beta in H1.
  pose proof (sv_over_impls_elim s _ t i d n iimpls dirs ifields b Hfp Ht Hi Hr) as H2. cbv beta in H2.
  pose proof (sv_over_impls_elim s _ t i d n iimpls dirs ifields b Hft Ht Hi Hr) as H3. cbv beta in H3.
  pose proof (sv_over_impls_elim s _ t i d n iimpls dirs ifields b Hfa Ht Hi Hr) as H4. cbv beta in H4.
  pose proof (sv_over_impls_elim s _ t i d n iimpls dirs ifields b Hfe Ht Hi Hr) as H5. cbv beta in H5.
  rewrite H1. cbn [andb]. rewrite forallb_forall in *. intros ifd Hifd.
  specialize (H2 ifd Hifd). specialize (H3 ifd Hifd). specialize (H4 ifd Hifd). specialize (H5 ifd Hifd).
  unfold sv_impl_field_present in H2. unfold sv_impl_field_ok.
  destruct (sv_find_field (fd_name ifd) (sv_fields_of t)) as [f|]; [|discriminate].
  now rewrite H3, H4, H5.
Qed.

Lemma CsImplementsTrans_declared s t i :
  sv_rule_transitive_interfaces s = true -> In t (sch_types s) ->
  CsImplementsTrans s t i -> In i (cs_impls_of t).
Proof.
  intros Htr Ht H. induction H as [i Hi|j i tj _ IH Hr Hk Hi]; [assumption|].
  destruct tj as [| |d n iimpls dirs ifields b| | |]; cbn in Hk; try contradiction.
  apply sv_lookup_resolves in Hr. rewrite <- sv_impls_cs in IH.
  pose proof (sv_over_impls_elim s _ t j d n iimpls dirs ifields b Htr Ht IH Hr) as H1. cbv beta in H1.
  unfold sv_impl_transitive in H1. rewrite forallb_forall in H1.
  rewrite <- sv_impls_cs. apply sv_mem_In. apply H1. exact Hi.
Qed.

(* ---------------------------------------------------------------- directive definitions referencing themselves:
   the specification rule is sound for the declarative statement CsRefPath *)

Definition cs2sv (x : cs_node) : sv_node :=
  match x with CsD n => SvD n | CsT n => SvT n end.

Lemma sv_node_eqb_eq a b : sv_node_eqb a b = true <-> a = b.
Proof.
  destruct a as [x|x], b as [y|y]; cbn [sv_node_eqb]; try (split; [discriminate|congruence]);
    rewrite streq_eq; split; congruence.
Qed.

Lemma sv_dir_nodes_In s ds d def :
  In d ds -> sch_find_dirdef (d_name d) (sch_dirdefs s) = Some def -> In (SvD (d_name d)) (sv_dir_nodes s ds).
Proof.
  intros Hin Hf. unfold sv_dir_nodes. apply in_flat_map. exists d. split; [assumption|].
  rewrite Hf. now left.
Qed.

Lemma CsIvdRefs_nodes s a y : CsIvdRefs s a y -> In (cs2sv y) (sv_ivd_nodes s a).
Proof.
  unfold sv_ivd_nodes. intros [[d [Hd [-> [def Hf]]]]|[-> [t Hr]]]; apply in_or_app.
  - left. exact (sv_dir_nodes_In s _ d def Hd Hf).
  - right. unfold sv_type_node. apply sv_lookup_resolves in Hr. rewrite Hr. now left.
Qed.

Lemma sv_et_dirs_cs t : sv_et_dirs t = cs_type_dirs t.
Proof. destruct t; reflexivity. Qed.

Lemma CsRefStep_succ s x y : CsRefStep s x y -> In (cs2sv y) (sv_node_succ s (cs2sv x)).
Proof.
  destruct x as [d|n]; cbn [CsRefStep cs2sv sv_node_succ].
  - intros [def [a [Hf [Ha Hr]]]]. rewrite Hf. apply in_flat_map. exists a. split; [assumption|].
    now apply CsIvdRefs_nodes.
  - intros [t [Hr H]]. apply sv_lookup_resolves in Hr. rewrite Hr. apply in_or_app.
    destruct H as [[d [Hd [-> [def Hf]]]]|[[v [d [Hv [Hd [-> [def Hf]]]]]]|[f [Hf Hrf]]]].
    + left. rewrite sv_et_dirs_cs. exact (sv_dir_nodes_In s _ d def Hd Hf).
    + right. destruct t as [| | | |d0 n0 dirs vs b|]; cbn [cs_enum_values_of] in Hv; try contradiction.
      apply in_flat_map. exists v. split; [exact Hv|]. exact (sv_dir_nodes_In s _ d def Hd Hf).
    + right. destruct t as [| | | | |d0 n0 dirs fs b]; cbn [cs_input_fields_of] in Hf; try contradiction.
      apply in_flat_map. exists f. split; [exact Hf|]. now apply CsIvdRefs_nodes.
Qed.

Lemma sv_dirdef_no_self_ref_sound s d :
  sv_dirdef_no_self_ref s d = true -> ~ CsRefPath s (CsD d) (CsD d).
Proof.
  unfold sv_dirdef_no_self_ref. intros H Hp.
  apply (sv_no_self_reach_sound sv_node_eqb sv_node_eqb_eq (sv_node_succ s) _ _ H).
  assert (Hgen : forall x y, clos_trans cs_node (CsRefStep s) x y ->
            clos_trans sv_node (fun a b => In b (sv_node_succ s a)) (cs2sv x) (cs2sv y)).
  { intros x y Hxy. induction Hxy as [x y Hxy|x y z _ IH1 _ IH2].
    - apply t_step. now apply CsRefStep_succ.
    - eapply t_trans; eassumption. }
  exact (Hgen _ _ Hp).
Qed.

(* ---------------------------------------------------------------- the closure only contains reachable elements:
   when the closure is saturated the rule is exact *)

Section ClosureComplete.
  Context {A : Type} (eqb : A -> A -> bool) (Heqb : forall x y, eqb x y = true <-> x = y)
          (succ : A -> list A).
  Let R (a b : A) : Prop := In b (succ a).

  Lemma sv_union_In x acc new : In x (sv_union eqb acc new) -> In x acc \/ In x new.
  Proof.
    induction new as [|y new IH]; cbn [sv_union fold_right]; [auto|].
    fold (sv_union eqb acc new). destruct (sv_in eqb y (sv_union eqb acc new)).
    - intros H. destruct (IH H); [now left|right; now right].
    - intros [<-|H]; [right; now left|]. destruct (IH H); [now left|right; now right].
  Qed.

  Lemma sv_close_reach fuel : forall acc y,
    In y (sv_close eqb succ fuel acc) -> exists x, In x acc /\ clos_refl_trans A R x y.
  Proof.
    induction fuel as [|k IH]; intros acc y; cbn [sv_close].
    - intros H. exists y. split; [assumption|apply rt_refl].
    - destruct (sv_saturated eqb succ acc).
      + intros H. exists y. split; [assumption|apply rt_refl].
      + intros H. destruct (IH _ _ H) as [x [Hx Hxy]]. apply sv_union_In in Hx. destruct Hx as [Hx|Hx].
        * exists x. auto.
        * apply in_flat_map in Hx. destruct Hx as [z [Hz Hzx]]. exists z. split; [assumption|].
          eapply rt_trans; [apply rt_step; exact Hzx|exact Hxy].
  Qed.

  Lemma sv_no_self_reach_complete fuel x :
    sv_saturated eqb succ (sv_close eqb succ fuel (succ x)) = true ->
    sv_no_self_reach eqb succ fuel x = false -> clos_trans A R x x.
  Proof.
    unfold sv_no_self_reach. intros Hsat. rewrite Hsat. cbn [andb]. rewrite negb_false_iff.
    intros Hin. apply (sv_in_In eqb Heqb) in Hin. destruct (sv_close_reach _ _ _ Hin) as [z [Hz Hzx]].
    assert (Hgen : forall a b, clos_refl_trans_1n A R a b -> forall c, clos_trans A R c a -> clos_trans A R c b).
    { intros a b Hab. induction Hab as [|a y b Hay _ IH]; intros c Hc; [assumption|].
      apply IH. eapply t_trans; [exact Hc|now apply t_step]. }
    apply clos_rt_rt1n in Hzx. apply (Hgen _ _ Hzx). now apply t_step.
  Qed.
End ClosureComplete.

Lemma sv_nn_succ_step s a b : In b (sv_nn_succ s a) -> CsNNStep s a b.
Proof.
  unfold sv_nn_succ. destruct (sv_lookup s a) as [ta|] eqn:Ha; [|contradiction].
  destruct ta as [| | | | |d n dirs fs bl]; try contradiction.
  intros H. apply in_flat_map in H. destruct H as [f [Hf Hb]].
  destruct (iv_ty f) as [|m| |] eqn:Hty; try contradiction.
  destruct (sv_ref_is s sv_is_input_object m) eqn:Hr; [|contradiction].
  destruct Hb as [<-|[]]. apply sv_ref_is_spec in Hr. destruct Hr as [tb [Hrb Hkb]].
  apply sv_lookup_resolves in Ha. exists (EInput d n dirs fs bl), tb, f.
  split; [assumption|]. split; [exact Hf|]. split; [assumption|]. split; [assumption|].
  now apply sv_is_input_object_spec.
Qed.

(* the specification's input-cycle rule against the declarative statement: sound always, exact when the
   closure saturated within its fuel (the rule is false otherwise) *)
Theorem sv_input_no_cycle_spec s n :
  (sv_input_no_cycle s n = true -> ~ CsNNPath s n n) /\
  (sv_saturated streq (sv_nn_succ s) (sv_close streq (sv_nn_succ s) (sv_type_fuel s) (sv_nn_succ s n)) = true ->
   sv_input_no_cycle s n = false -> CsNNPath s n n).
Proof.
  split.
  - intros H Hp. apply (sv_no_self_reach_sound streq streq_eq (sv_nn_succ s) _ _ H).
    apply (clos_trans_mono (CsNNStep s)); [apply CsNNStep_succ|exact Hp].
  - intros Hsat H. unfold CsNNPath.
    apply (clos_trans_mono (fun a b => In b (sv_nn_succ s a))); [apply sv_nn_succ_step|].
    exact (sv_no_self_reach_complete streq streq_eq (sv_nn_succ s) _ _ Hsat H).
Qed.
