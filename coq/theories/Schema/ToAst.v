(* Schema::to_ast of crates/apollo-compiler/src/schema/serialize.rs: the schema split back into one
   definition plus one extension per ExtensionId, extensions in the order in which `extensions()`
   (schema/mod.rs: iter_origins collected into an IndexSet) discovers them: directives first, then
   implemented interfaces, then fields / values / members. *)
From ApolloVerif Require Import Base.Chars Ast.Ast Schema.Model Schema.Build.

(* origin.extension_id() == ext *)
Definition ta_origin_is (ext : option N) (o : origin) : bool :=
  match ext, o with
  | None, ODef => true
  | Some i, OExt j => i =? j
  | _, _ => false
  end.

(* components(list, ext) and names(set, ext) *)
Definition ta_components {A : Type} (ext : option N) (l : list (comp A)) : list A :=
  map c_val (filter (fun c => ta_origin_is ext (c_origin c)) l).

Definition ta_mem (i : N) (l : list N) : bool := existsb (N.eqb i) l.

(* filter_map(extension_id).collect::<IndexSet>(): first occurrences, in order *)
Fixpoint ta_ext_ids_acc (seen : list N) (os : list origin) : list N :=
  match os with
  | [] => []
  | ODef :: r => ta_ext_ids_acc seen r
  | OExt i :: r => if ta_mem i seen then ta_ext_ids_acc seen r else i :: ta_ext_ids_acc (i :: seen) r
  end.

Definition ta_ext_ids (os : list origin) : list N := ta_ext_ids_acc [] os.

Definition ta_origins {A : Type} (l : list (comp A)) : list origin := map c_origin l.

(* iter_origins of the six kinds *)
Definition ta_type_origins (t : ext_type) : list origin :=
  match t with
  | EScalar _ _ dirs _ => ta_origins dirs
  | EObject _ _ impls dirs fields _ | EInterface _ _ impls dirs fields _ =>
    ta_origins dirs ++ ta_origins impls ++ ta_origins fields
  | EUnion _ _ dirs members _ => ta_origins dirs ++ ta_origins members
  | EEnum _ _ dirs values _ => ta_origins dirs ++ ta_origins values
  | EInput _ _ dirs fields _ => ta_origins dirs ++ ta_origins fields
  end.

Definition ta_type_extensions (t : ext_type) : list N := ta_ext_ids (ta_type_origins t).

(* the definition or one extension of a type *)
Definition ta_type_part (t : ext_type) (ext : option N) : definition :=
  match t, ext with
  | EScalar d n dirs _, None => DScalar d n (ta_components None dirs)
  | EScalar _ n dirs _, Some _ => XScalar n (ta_components ext dirs)
  | EObject d n impls dirs fields _, None =>
    DObject d n (ta_components None impls) (ta_components None dirs) (ta_components None fields)
  | EObject _ n impls dirs fields _, Some _ =>
    XObject n (ta_components ext impls) (ta_components ext dirs) (ta_components ext fields)
  | EInterface d n impls dirs fields _, None =>
    DInterface d n (ta_components None impls) (ta_components None dirs) (ta_components None fields)
  | EInterface _ n impls dirs fields _, Some _ =>
    XInterface n (ta_components ext impls) (ta_components ext dirs) (ta_components ext fields)
  | EUnion d n dirs members _, None => DUnion d n (ta_components None dirs) (ta_components None members)
  | EUnion _ n dirs members _, Some _ => XUnion n (ta_components ext dirs) (ta_components ext members)
  | EEnum d n dirs values _, None => DEnum d n (ta_components None dirs) (ta_components None values)
  | EEnum _ n dirs values _, Some _ => XEnum n (ta_components ext dirs) (ta_components ext values)
  | EInput d n dirs fields _, None => DInput d n (ta_components None dirs) (ta_components None fields)
  | EInput _ n dirs fields _, Some _ => XInput n (ta_components ext dirs) (ta_components ext fields)
  end.

(* ExtendedType::to_ast *)
Definition ta_type_to_ast (t : ext_type) : list definition :=
  ta_type_part t None :: map (fun i => ta_type_part t (Some i)) (ta_type_extensions t).

(* SchemaDefinition::iter_origins / extensions / iter_root_operations *)
Definition ta_opt_origin {A : Type} (c : option (comp A)) : list origin :=
  match c with Some c => [c_origin c] | None => [] end.

Definition ta_sd_origins (sd : schema_def) : list origin :=
  ta_origins (sd_dirs sd) ++ ta_opt_origin (sd_query sd) ++ ta_opt_origin (sd_mutation sd)
  ++ ta_opt_origin (sd_subscription sd).

Definition ta_sd_extensions (sd : schema_def) : list N := ta_ext_ids (ta_sd_origins sd).

Definition ta_root_op (ext : option N) (op : optype) (c : option (comp str)) : list rootop :=
  match c with
  | Some c => if ta_origin_is ext (c_origin c) then [(op, c_val c)] else []
  | None => []
  end.

Definition ta_root_ops (sd : schema_def) (ext : option N) : list rootop :=
  ta_root_op ext OpQuery (sd_query sd) ++ ta_root_op ext OpMutation (sd_mutation sd)
  ++ ta_root_op ext OpSubscription (sd_subscription sd).

Definition ta_opt_streq (a b : option str) : bool :=
  match a, b with
  | None, None => true
  | Some x, Some y => streq x y
  | _, _ => false
  end.

(* what implicit root operation would there be for this operation type == what there is *)
Definition ta_root_matches_implicit (types : list ext_type) (op : optype) (c : option (comp str)) : bool :=
  let dn := sb_default_type_name op in
  let implicit := if sb_has_object types dn then Some dn else None in
  ta_opt_streq (option_map c_val c) implicit.

Definition ta_is_none {A : Type} (o : option A) : bool := match o with None => true | Some _ => false end.
Definition ta_is_nil {A : Type} (l : list A) : bool := match l with [] => true | _ => false end.

Definition ta_sd_implicit (sd : schema_def) (types : list ext_type) : bool :=
  if ta_is_nil (ta_root_ops sd None) then true
  else
    ta_is_none (sd_desc sd) && ta_is_nil (sd_dirs sd) && ta_is_nil (ta_sd_extensions sd)
    && ta_root_matches_implicit types OpQuery (sd_query sd)
    && ta_root_matches_implicit types OpMutation (sd_mutation sd)
    && ta_root_matches_implicit types OpSubscription (sd_subscription sd)
    && negb (ta_is_none (sd_query sd) && ta_is_none (sd_mutation sd) && ta_is_none (sd_subscription sd)).

(* Node<SchemaDefinition>::to_ast *)
Definition ta_sd_to_ast (sd : schema_def) (types : list ext_type) : list definition :=
  (if ta_sd_implicit sd types then []
   else [DSchema (sd_desc sd) (ta_components None (sd_dirs sd)) (ta_root_ops sd None)])
  ++ map (fun i => XSchema (ta_components (Some i) (sd_dirs sd)) (ta_root_ops sd (Some i)))
         (ta_sd_extensions sd).

Definition ta_dirdef_to_ast (d : dirdef) : definition :=
  DDirective (dd_desc d) (dd_name d) (dd_args d) (dd_repeatable d) (dd_locs d).

(* Schema::to_ast: built-in directive definitions are left out; of a built-in type only the extensions *)
Definition sch_to_ast (s : schema) : document :=
  ta_sd_to_ast (sch_def s) (sch_types s)
  ++ map ta_dirdef_to_ast (filter (fun d => negb (dd_builtin d)) (sch_dirdefs s))
  ++ flat_map (fun t => if et_builtin t then tl (ta_type_to_ast t) else ta_type_to_ast t) (sch_types s).
