(* C15: the executable checker implies the declarative Consistent. *)
From ApolloVerif Require Import Base.Chars Ast.Ast Schema.Model Schema.Valid Schema.Consistent
  Schema.ConsistentB Schema.ValidProofs.
From Coq Require Import Relations.

Lemma cs_rule_in s r : cs_consistent_b s = true -> In r cs_consistent_rules -> r s = true.
Proof. unfold cs_consistent_b. rewrite forallb_forall. auto. Qed.

Ltac cs_rule H s r := assert (r s = true) by (apply (cs_rule_in s r H); cbn; tauto).

Theorem cs_consistent_b_sound s : cs_consistent_b s = true -> Consistent s.
Proof.
  intros H.
  assert (Hq : sv_rule_root_query s = true) by (apply (cs_rule_in s _ H); cbn; tauto).
  assert (Hro : sv_rule_root_object s = true) by (apply (cs_rule_in s _ H); cbn; tauto).
  assert (Hrd : sv_rule_root_distinct s = true) by (apply (cs_rule_in s _ H); cbn; tauto).
  assert (Hrn : sv_rule_reserved_names s = true) by (apply (cs_rule_in s _ H); cbn; tauto).
  assert (Hfo : sv_rule_field_output_types s = true) by (apply (cs_rule_in s _ H); cbn; tauto).
  assert (Hai : sv_rule_arg_input_types s = true) by (apply (cs_rule_in s _ H); cbn; tauto).
  assert (Hif : sv_rule_input_field_types s = true) by (apply (cs_rule_in s _ H); cbn; tauto).
  assert (Hda : sv_rule_dirdef_arg_types s = true) by (apply (cs_rule_in s _ H); cbn; tauto).
  assert (Hum : sv_rule_union_members_object s = true) by (apply (cs_rule_in s _ H); cbn; tauto).
  assert (Htg : sv_rule_implements_targets s = true) by (apply (cs_rule_in s _ H); cbn; tauto).
  assert (Htr : sv_rule_transitive_interfaces s = true) by (apply (cs_rule_in s _ H); cbn; tauto).
  assert (Hfp : sv_rule_interface_fields_present s = true) by (apply (cs_rule_in s _ H); cbn; tauto).
  assert (Hft : sv_rule_interface_field_types s = true) by (apply (cs_rule_in s _ H); cbn; tauto).
  assert (Hfa : sv_rule_interface_field_args s = true) by (apply (cs_rule_in s _ H); cbn; tauto).
  assert (Hfe : sv_rule_interface_extra_args s = true) by (apply (cs_rule_in s _ H); cbn; tauto).
  assert (Hcy : sv_rule_input_no_nonnull_cycle s = true) by (apply (cs_rule_in s _ H); cbn; tauto).
  clear H. constructor.
  - (* query root *) unfold sv_rule_root_query in Hq. now apply sv_is_some_true.
  - (* roots are objects *)
    intros op n Hin. unfold sv_rule_root_object in Hro. rewrite forallb_forall in Hro.
    apply (sv_ref_is_refers s sv_is_object CsObject n sv_is_object_spec). apply Hro.
    rewrite sv_roots_cs. apply (in_map snd) in Hin. exact Hin.
  - (* roots distinct *)
    intros op1 op2 n H1 H2. unfold sv_rule_root_distinct in Hrd. apply sv_nodup_NoDup in Hrd.
    rewrite sv_roots_cs in Hrd. exact (NoDup_map_snd_fun _ _ _ _ Hrd H1 H2).
  - (* field types *)
    intros t f Ht Hf. unfold sv_rule_field_output_types in Hfo. rewrite forallb_forall in Hfo.
    specialize (Hfo t Ht). rewrite forallb_forall in Hfo. rewrite <- sv_fields_cs in Hf.
    specialize (Hfo f Hf). unfold sv_field_output_ok in Hfo.
    now apply (sv_ref_is_refers s sv_is_output_type CsOutputKind _ sv_is_output_type_spec).
  - (* argument types *)
    intros t f a Ht Hf Ha. unfold sv_rule_arg_input_types in Hai. rewrite forallb_forall in Hai.
    specialize (Hai t Ht). rewrite forallb_forall in Hai. rewrite <- sv_fields_cs in Hf.
    specialize (Hai f Hf). rewrite forallb_forall in Hai. specialize (Hai a Ha). unfold sv_arg_input_ok in Hai.
    now apply (sv_ref_is_refers s sv_is_input_type CsInputKind _ sv_is_input_type_spec).
  - (* input field types *)
    intros t f Ht Hf. unfold sv_rule_input_field_types in Hif. rewrite forallb_forall in Hif.
    specialize (Hif t Ht).
    destruct t as [| | | | |d n dirs fs b]; cbn [cs_input_fields_of] in Hf; try contradiction.
    rewrite forallb_forall in Hif. specialize (Hif f Hf). unfold sv_arg_input_ok in Hif.
    now apply (sv_ref_is_refers s sv_is_input_type CsInputKind _ sv_is_input_type_spec).
  - (* directive definition argument types *)
    intros d a Hd Ha. unfold sv_rule_dirdef_arg_types in Hda. rewrite forallb_forall in Hda.
    specialize (Hda d Hd). rewrite forallb_forall in Hda. specialize (Hda a Ha). unfold sv_arg_input_ok in Hda.
    now apply (sv_ref_is_refers s sv_is_input_type CsInputKind _ sv_is_input_type_spec).
  - (* union members *)
    intros t m Ht Hm. unfold sv_rule_union_members_object in Hum. rewrite forallb_forall in Hum.
    specialize (Hum t Ht).
    destruct t as [| | |d n dirs ms b| |]; cbn [cs_members_of] in Hm; try contradiction.
    rewrite forallb_forall in Hum. specialize (Hum m Hm).
    now apply (sv_ref_is_refers s sv_is_object CsObject _ sv_is_object_spec).
  - (* implements targets *)
    intros t i Ht Hi. unfold sv_rule_implements_targets in Htg. rewrite forallb_forall in Htg.
    specialize (Htg t Ht). rewrite forallb_forall in Htg. rewrite <- sv_impls_cs in Hi. specialize (Htg i Hi).
    now apply (sv_ref_is_refers s sv_is_interface CsInterface _ sv_is_interface_spec).
  - (* contracts *)
    intros t i Ht Hi. apply sv_implements_ok_spec.
    apply sv_implements_ok_from_rules; try assumption.
    rewrite sv_impls_cs. now apply (CsImplementsTrans_declared s t i Htr Ht).
  - (* no input cycle *) now apply sv_input_cycle_sound.
  - (* reserved names *) now apply sv_reserved_sound.
Qed.

Lemma sv_valid_consistent_b p s : sv_schema_valid p s = true -> cs_consistent_b s = true.
Proof.
  unfold sv_schema_valid, cs_consistent_b. rewrite !forallb_forall. intros H r Hr. apply H.
  unfold cs_consistent_rules in Hr. unfold sv_rules. cbn [In] in *.
  repeat (destruct Hr as [<-|Hr]; [tauto|]). contradiction.
Qed.

(* C15_valid_consistent *)
Theorem sv_valid_consistent p s : sv_schema_valid p s = true -> Consistent s.
Proof. intros H. apply cs_consistent_b_sound. exact (sv_valid_consistent_b p s H). Qed.

(* ---------------------------------------------------------------- the built-in scalar sentence *)

Lemma cs_ivd_refs_In args n :
  In n (cs_ivd_refs args) <-> exists a, In a args /\ inner_named_type (iv_ty a) = n.
Proof. unfold cs_ivd_refs. rewrite in_map_iff. split; intros [a [H1 H2]]; exists a; auto. Qed.

Lemma cs_referenced_names_spec s n : In n (cs_referenced_names s) <-> CsReferenced s n.
Proof.
  unfold cs_referenced_names, CsReferenced. rewrite in_app_iff, !in_flat_map. split.
  - intros [[t [Ht Hn]]|[d [Hd Hn]]].
    + unfold cs_type_refs in Hn. rewrite in_app_iff, in_flat_map in Hn. destruct Hn as [[f [Hf Hn]]|Hn].
      * left. exists t, f. rewrite <- sv_fields_cs. split; [assumption|]. split; [assumption|].
        destruct Hn as [Hn|Hn]; [now left|]. right. now apply cs_ivd_refs_In.
      * right. left. destruct t as [| | | | |d nn dirs fs b]; try contradiction.
        apply cs_ivd_refs_In in Hn. destruct Hn as [a [Ha Hn]]. exists (EInput d nn dirs fs b), a. auto.
    + right. right. apply cs_ivd_refs_In in Hn. destruct Hn as [a [Ha Hn]]. exists d, a. auto.
  - intros [[t [f [Ht [Hf Hn]]]]|[[t [f [Ht [Hf Hn]]]]|[d [a [Hd [Ha Hn]]]]]].
    + left. exists t. split; [assumption|]. unfold cs_type_refs. rewrite in_app_iff, in_flat_map. left.
      exists f. rewrite sv_fields_cs. split; [assumption|]. destruct Hn as [Hn|Hn]; [now left|].
      right. now apply cs_ivd_refs_In.
    + left. exists t. split; [assumption|]. unfold cs_type_refs. rewrite in_app_iff. right.
      destruct t as [| | | | |d nn dirs fs b]; cbn [cs_input_fields_of] in Hf; try contradiction.
      apply cs_ivd_refs_In. exists f. auto.
    + right. exists d. split; [assumption|]. apply cs_ivd_refs_In. exists a. auto.
Qed.

Theorem cs_scalars_exact_b_spec s : cs_scalars_exact_b s = true <-> CsScalarsExact s.
Proof.
  unfold cs_scalars_exact_b, CsScalarsExact. rewrite forallb_forall. split.
  - intros H n Hn. apply sv_builtin_scalar_name, sv_mem_In in Hn. specialize (H n Hn).
    apply Bool.eqb_prop in H. rewrite <- cs_referenced_names_spec, <- sv_mem_In, <- H. symmetry. apply sv_is_some_true.
  - intros H n Hn. apply sv_mem_In, sv_builtin_scalar_name in Hn. specialize (H n Hn).
    rewrite <- cs_referenced_names_spec, <- sv_mem_In, <- sv_is_some_true in H.
    destruct (sv_is_some (sch_get_type s n)), (sv_mem n (cs_referenced_names s)); cbn; try reflexivity;
      destruct H as [H1 H2]; [discriminate (H1 eq_refl)|discriminate (H2 eq_refl)].
Qed.
