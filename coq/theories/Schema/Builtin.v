(* Decidable checks of the hypotheses of the C12 theorems, run by the tie on the real data:
   bi_b0_ok: the built-in definitions the builder starts from (as dumped from the real crate) have an
   empty schema definition, are all flagged built-in, have distinct names and carry no extension
   components; bi_doc_ok: every schema definition of a parsed document has a root operation. *)
From ApolloVerif Require Import Base.Chars Ast.Ast Schema.Model Schema.Build.

Definition bi_all_def {A : Type} (l : list (comp A)) : bool :=
  forallb (fun c => match c_origin c with ODef => true | OExt _ => false end) l.

Fixpoint bi_nodup (l : list str) : bool :=
  match l with
  | [] => true
  | x :: r => negb (existsb (streq x) r) && bi_nodup r
  end.

Definition bi_keys {A : Type} (key : A -> str) (l : list (comp A)) : bool :=
  bi_nodup (map (fun c => key (c_val c)) l).

Definition bi_type_ok (t : ext_type) : bool :=
  et_builtin t &&
  match t with
  | EScalar _ _ dirs _ => bi_all_def dirs
  | EObject _ _ impls dirs fields _ | EInterface _ _ impls dirs fields _ =>
    bi_all_def impls && bi_all_def dirs && bi_all_def fields && bi_keys sb_name_key impls && bi_keys fd_name fields
  | EUnion _ _ dirs members _ => bi_all_def dirs && bi_all_def members && bi_keys sb_name_key members
  | EEnum _ _ dirs values _ => bi_all_def dirs && bi_all_def values && bi_keys ev_value values
  | EInput _ _ dirs fields _ => bi_all_def dirs && bi_all_def fields && bi_keys iv_name fields
  end.

Definition bi_sd_empty (sd : schema_def) : bool :=
  match sd_desc sd, sd_dirs sd, sd_query sd, sd_mutation sd, sd_subscription sd with
  | None, [], None, None, None => true
  | _, _, _, _, _ => false
  end.

Definition bi_b0_ok (b0 : schema) : bool :=
  bi_sd_empty (sch_def b0) &&
  forallb dd_builtin (sch_dirdefs b0) && bi_nodup (map dd_name (sch_dirdefs b0)) &&
  forallb bi_type_ok (sch_types b0) && bi_nodup (map et_name (sch_types b0)).

Definition bi_def_ok (d : definition) : bool :=
  match d with DSchema _ _ [] => false | _ => true end.

Definition bi_doc_ok (doc : document) : bool := forallb bi_def_ok doc.
