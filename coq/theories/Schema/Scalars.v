(* The built-in scalar bookkeeping of validate_schema (crates/apollo-compiler/src/schema/validation.rs):
   BuiltInScalars::{record_type_ref, all_used}, the `retain` that prunes unused built-in scalar
   definitions and the loop that inserts the used but undefined ones.  Only this part of validation is
   modelled here; the sequence of record_type_ref calls is the sequence of type references the rule
   functions visit (directive definition arguments; then per type: object / interface fields
   (arguments, then the field type), input object fields). *)
From ApolloVerif Require Import Base.Chars Ast.Ast Schema.Model.

(* `all`: the scalar definitions of SchemaBuilder::built_in() *)
Definition vs_all_of (b0 : schema) : list ext_type :=
  filter (fun t => match t with EScalar _ _ _ _ => true | _ => false end) (sch_types b0).

Definition vs_mem (n : str) (l : list str) : bool := existsb (streq n) l.

Definition vs_set_insert (n : str) (l : list str) : list str := if vs_mem n l then l else l ++ [n].

Record vs_state := { vs_used_defined : list str;       (* HashSet: only len() and contains() are used *)
                     vs_used_undefined : list str }.   (* IndexSet: order of first reference *)

Definition vs_contains (types : list ext_type) (n : str) : bool :=
  match sch_find_type n types with Some _ => true | None => false end.

(* record_type_ref *)
Definition vs_record (all types : list ext_type) (st : vs_state) (n : str) : vs_state :=
  if vs_contains all n then
    if vs_contains types n then
      {| vs_used_defined := vs_set_insert n (vs_used_defined st); vs_used_undefined := vs_used_undefined st |}
    else
      {| vs_used_defined := vs_used_defined st; vs_used_undefined := vs_set_insert n (vs_used_undefined st) |}
  else st.

Definition vs_all_used (all : list ext_type) (st : vs_state) : bool :=
  N.of_nat (length (vs_used_defined st) + length (vs_used_undefined st)) =? N.of_nat (length all).

(* the type references recorded while validating, in order *)
Definition vs_args_refs (args : list inputvaldef) : list str := map (fun a => inner_named_type (iv_ty a)) args.

Definition vs_fields_refs (fields : list (comp fielddef)) : list str :=
  flat_map (fun c => vs_args_refs (fd_args (c_val c)) ++ [inner_named_type (fd_ty (c_val c))]) fields.

Definition vs_type_refs (t : ext_type) : list str :=
  match t with
  | EObject _ _ _ _ fields _ | EInterface _ _ _ _ fields _ => vs_fields_refs fields
  | EInput _ _ _ fields _ => map (fun c => inner_named_type (iv_ty (c_val c))) fields
  | _ => []
  end.

Definition vs_schema_refs (s : schema) : list str :=
  flat_map (fun d => vs_args_refs (dd_args d)) (sch_dirdefs s) ++ flat_map vs_type_refs (sch_types s).

Definition vs_scan (all : list ext_type) (s : schema) : vs_state :=
  fold_left (vs_record all (sch_types s)) (vs_schema_refs s)
            {| vs_used_defined := []; vs_used_undefined := [] |}.

(* the closure of `retain` *)
Definition vs_keep (all : list ext_type) (st : vs_state) (t : ext_type) : bool :=
  negb (et_builtin t) || negb (vs_contains all (et_name t)) || vs_mem (et_name t) (vs_used_defined st).

(* IndexMap::insert: replace in place or append *)
Fixpoint vs_insert (t' : ext_type) (ts : list ext_type) : list ext_type :=
  match ts with
  | [] => [t']
  | t :: r => if streq (et_name t') (et_name t) then t' :: r else t :: vs_insert t' r
  end.

(* `for name in used_and_undefined { types.insert(all[&name]) }`; None: `all[&name]` panics *)
Fixpoint vs_insert_missing (all : list ext_type) (names : list str) (ts : list ext_type)
  : option (list ext_type) :=
  match names with
  | [] => Some ts
  | n :: r =>
    match sch_find_type n all with
    | Some def => vs_insert_missing all r (vs_insert def ts)
    | None => None
    end
  end.

(* what validate_schema does to `schema.types` *)
Definition vs_post_validate (all : list ext_type) (s : schema) : option schema :=
  let st := vs_scan all s in
  let types1 := if vs_all_used all st then sch_types s else filter (vs_keep all st) (sch_types s) in
  match vs_insert_missing all (vs_used_undefined st) types1 with
  | Some types2 => Some {| sch_def := sch_def s; sch_dirdefs := sch_dirdefs s; sch_types := types2 |}
  | None => None
  end.

(* the history step of C16: add a field to an object type through make_mut *)
Definition vs_add_field_to (fd : fielddef) (t : ext_type) : ext_type :=
  match t with
  | EObject d n impls dirs fields b => EObject d n impls dirs (fields ++ [mkcomp ODef fd]) b
  | _ => t
  end.

Fixpoint vs_add_field_types (tname : str) (fd : fielddef) (ts : list ext_type) : list ext_type :=
  match ts with
  | [] => []
  | t :: r => if streq tname (et_name t) then vs_add_field_to fd t :: r else t :: vs_add_field_types tname fd r
  end.

Definition vs_add_field (tname : str) (fd : fielddef) (s : schema) : schema :=
  {| sch_def := sch_def s; sch_dirdefs := sch_dirdefs s;
     sch_types := vs_add_field_types tname fd (sch_types s) |}.

Definition vs_type_names (s : schema) : list str := map et_name (sch_types s).
