(* Re-building a schema from its own to_ast (C12).  Part 1: component lists. *)
From ApolloVerif Require Import Base.Chars Ast.Ast Schema.Model Schema.Build Schema.ToAst Schema.Canon
  Schema.BuildProofs Schema.CanonProofs.

(* ---------------------------------------------------------------- sticky extension with fresh keys *)
Section StickyFresh.
  Context {A : Type} (key : A -> str).

  Lemma sb_has_app k (l1 l2 : list (comp A)) : sb_has key k (l1 ++ l2) = sb_has key k l1 || sb_has key k l2.
  Proof. unfold sb_has. apply existsb_app. Qed.

  Lemma sb_has_false k (l : list (comp A)) :
    sb_has key k l = false <-> forall c, In c l -> key (c_val c) <> k.
  Proof.
    unfold sb_has. split.
    - intros H c Hc Hk. assert (existsb (fun c => streq k (key (c_val c))) l = true); [|congruence].
      apply existsb_exists. exists c. split; [exact Hc|]. rewrite Hk. apply streq_refl.
    - intros H. apply not_true_is_false. intros Ht. apply existsb_exists in Ht.
      destruct Ht as [c [Hc Hs]]. apply streq_eq in Hs. apply (H c Hc). congruence.
  Qed.

  Lemma sb_extend_sticky_fresh o (new : list A) : forall l,
    NoDup (map key new) ->
    (forall x, In x new -> sb_has key (key x) l = false) ->
    sb_extend_sticky key o l new = (l ++ map (mkcomp o) new, []).
  Proof.
    induction new as [|x new IH]; intros l Hnd Hfresh; cbn [sb_extend_sticky map].
    - rewrite app_nil_r. reflexivity.
    - rewrite (Hfresh x) by (left; reflexivity). inversion Hnd as [|? ? Hx Hnd']; subst.
      rewrite IH; [rewrite <- app_assoc; reflexivity|exact Hnd'|].
      intros y Hy. rewrite sb_has_app, (Hfresh y) by (right; exact Hy). cbn.
      destruct (streq (key y) (key x)) eqn:E; [|reflexivity].
      apply streq_eq in E. exfalso. apply Hx. rewrite <- E. apply in_map. exact Hy.
  Qed.
End StickyFresh.

(* ---------------------------------------------------------------- a component list rebuilt group by group *)
Lemma NoDup_map_inj {A B} (f : A -> B) l a b :
  NoDup (map f l) -> In a l -> In b l -> f a = f b -> a = b.
Proof.
  induction l as [|x l IH]; cbn; [tauto|]. intros Hnd Ha Hb Hf. inversion Hnd as [|? ? Hx Hnd']; subst.
  destruct Ha as [<-|Ha], Hb as [<-|Hb]; auto.
  - exfalso. apply Hx. rewrite Hf. apply in_map, Hb.
  - exfalso. apply Hx. rewrite <- Hf. apply in_map, Ha.
Qed.

Lemma NoDup_map_filter {A B} (f : A -> B) p l : NoDup (map f l) -> NoDup (map f (filter p l)).
Proof.
  induction l as [|x l IH]; cbn; intros H; [constructor|]. inversion H as [|? ? Hx H']; subst.
  destruct (p x); cbn; [constructor|]; auto.
  intros Hin. apply Hx. apply in_map_iff in Hin. destruct Hin as [y [Hy Hin]]. apply filter_In in Hin.
  rewrite <- Hy. apply in_map. tauto.
Qed.

Section Regroup.
  Context {A : Type} (key : A -> str).
  Variable L : list (comp A).
  Variable rho : N -> N.

  (* the definition's components, then the components of the extensions `done`, group by group *)
  Definition rb_part (done : list N) : list (comp A) :=
    map (mkcomp ODef) (ta_components None L)
    ++ flat_map (fun i => map (mkcomp (OExt (rho i))) (ta_components (Some i) L)) done.

  Lemma rb_part_snoc done i :
    rb_part (done ++ [i]) = rb_part done ++ map (mkcomp (OExt (rho i))) (ta_components (Some i) L).
  Proof. unfold rb_part. rewrite flat_map_app. cbn [flat_map]. rewrite app_nil_r, app_assoc. reflexivity. Qed.

  (* every element of rb_part done is the value of a component of L whose origin is the definition or
     one of `done` *)
  Lemma rb_part_In done c :
    In c (rb_part done) ->
    exists c0, In c0 L /\ c_val c = c_val c0 /\
               (c_origin c0 = ODef \/ exists j, In j done /\ c_origin c0 = OExt j).
  Proof.
    unfold rb_part, ta_components. rewrite in_app_iff, in_flat_map.
    intros [H|[j [Hj H]]]; rewrite !in_map_iff in H.
    - destruct H as [v [<- Hv]]. apply in_map_iff in Hv. destruct Hv as [c0 [<- Hc0]]. apply filter_In in Hc0.
      destruct Hc0 as [Hin Ho]. exists c0. split; [exact Hin|]. split; [reflexivity|]. left.
      destruct (c_origin c0); [reflexivity|discriminate].
    - destruct H as [v [<- Hv]]. apply in_map_iff in Hv. destruct Hv as [c0 [<- Hc0]]. apply filter_In in Hc0.
      destruct Hc0 as [Hin Ho]. exists c0. split; [exact Hin|]. split; [reflexivity|]. right. exists j.
      split; [exact Hj|]. destruct (c_origin c0) as [|i']; [discriminate|]. cbn in Ho. apply N.eqb_eq in Ho. congruence.
  Qed.

  Hypothesis Hkeys : NoDup (map (fun c => key (c_val c)) L).

  Lemma rb_components_NoDup ext : NoDup (map key (ta_components ext L)).
  Proof.
    unfold ta_components. rewrite map_map. apply NoDup_map_filter. exact Hkeys.
  Qed.

  Lemma rb_sticky_start : sb_extend_sticky key ODef [] (ta_components None L) = (rb_part [], []).
  Proof.
    rewrite sb_extend_sticky_fresh; [unfold rb_part; cbn; rewrite app_nil_r; reflexivity|apply rb_components_NoDup|].
    reflexivity.
  Qed.

  Lemma rb_sticky_step done i :
    ~ In i done ->
    sb_extend_sticky key (OExt (rho i)) (rb_part done) (ta_components (Some i) L) = (rb_part (done ++ [i]), []).
  Proof.
    intros Hi. rewrite rb_part_snoc. apply sb_extend_sticky_fresh; [apply rb_components_NoDup|].
    intros x Hx. apply sb_has_false. intros c Hc Hk.
    destruct (rb_part_In _ _ Hc) as [c0 [Hin0 [Hv0 Ho0]]].
    unfold ta_components in Hx. apply in_map_iff in Hx. destruct Hx as [c1 [<- Hc1]]. apply filter_In in Hc1.
    destruct Hc1 as [Hin1 Ho1].
    assert (c0 = c1).
    { apply (NoDup_map_inj (fun c => key (c_val c)) L); try assumption. cbn. congruence. }
    subst c1. destruct (c_origin c0) as [|i'] eqn:Eo; [discriminate|]. cbn in Ho1. apply N.eqb_eq in Ho1. subst i'.
    destruct Ho0 as [Ho0|[j [Hj Ho0]]]; [discriminate|]. injection Ho0 as ->. contradiction.
  Qed.
End Regroup.

(* ---------------------------------------------------------------- canonical order of a component list *)
Definition rb_is_def {A} (c : comp A) : bool := ta_origin_is None (c_origin c).
Definition rb_is_ext {A} (i : N) (c : comp A) : bool := ta_origin_is (Some i) (c_origin c).

(* the definition's components first, then those of the extensions in the order `disc` *)
Definition rb_regroup {A} (disc : list N) (L : list (comp A)) : list (comp A) :=
  filter rb_is_def L ++ flat_map (fun i => filter (rb_is_ext i) L) disc.

Lemma rb_part_full {A} (L : list (comp A)) rho disc :
  L = rb_regroup disc L -> rb_part L rho disc = rn_comps rho L.
Proof.
  intros H. transitivity (rn_comps rho (rb_regroup disc L)); [|rewrite <- H; reflexivity].
  unfold rb_part, rb_regroup, rn_comps, ta_components. rewrite map_app. f_equal.
  - rewrite map_map. apply map_ext_in. intros c Hc. apply filter_In in Hc. destruct Hc as [_ Hc].
    unfold rb_is_def in Hc. destruct (c_origin c); [reflexivity|discriminate].
  - clear H. induction disc as [|i disc IH]; cbn [flat_map]; [reflexivity|]. rewrite map_app, IH. f_equal.
    rewrite map_map. apply map_ext_in. intros c Hc. apply filter_In in Hc. destruct Hc as [_ Hc].
    unfold rb_is_ext in Hc. destruct (c_origin c) as [|j]; [discriminate|]. cbn in Hc. apply N.eqb_eq in Hc. subst.
    reflexivity.
Qed.

(* ---------------------------------------------------------------- a whole type *)
Definition rb_type_partial (rho : N -> N) (t : ext_type) (done : list N) : ext_type :=
  match t with
  | EScalar d n dirs b => EScalar d n (rb_part dirs rho done) b
  | EObject d n impls dirs fields b =>
    EObject d n (rb_part impls rho done) (rb_part dirs rho done) (rb_part fields rho done) b
  | EInterface d n impls dirs fields b =>
    EInterface d n (rb_part impls rho done) (rb_part dirs rho done) (rb_part fields rho done) b
  | EUnion d n dirs members b => EUnion d n (rb_part dirs rho done) (rb_part members rho done) b
  | EEnum d n dirs values b => EEnum d n (rb_part dirs rho done) (rb_part values rho done) b
  | EInput d n dirs fields b => EInput d n (rb_part dirs rho done) (rb_part fields rho done) b
  end.

Definition rb_keys {A} (key : A -> str) (L : list (comp A)) : Prop :=
  NoDup (map (fun c => key (c_val c)) L).

(* map keys are unique (as in every IndexMap / IndexSet) *)
Definition rb_type_keys (t : ext_type) : Prop :=
  match t with
  | EScalar _ _ _ _ => True
  | EObject _ _ impls _ fields _ | EInterface _ _ impls _ fields _ =>
    rb_keys sb_name_key impls /\ rb_keys fd_name fields
  | EUnion _ _ _ members _ => rb_keys sb_name_key members
  | EEnum _ _ _ values _ => rb_keys ev_value values
  | EInput _ _ _ fields _ => rb_keys iv_name fields
  end.

(* every component list is in canonical order w.r.t. the discovery order of the type's extensions *)
Definition rb_type_canonical (t : ext_type) : Prop :=
  let disc := ta_type_extensions t in
  match t with
  | EScalar _ _ dirs _ => dirs = rb_regroup disc dirs
  | EObject _ _ impls dirs fields _ | EInterface _ _ impls dirs fields _ =>
    impls = rb_regroup disc impls /\ dirs = rb_regroup disc dirs /\ fields = rb_regroup disc fields
  | EUnion _ _ dirs members _ => dirs = rb_regroup disc dirs /\ members = rb_regroup disc members
  | EEnum _ _ dirs values _ => dirs = rb_regroup disc dirs /\ values = rb_regroup disc values
  | EInput _ _ dirs fields _ => dirs = rb_regroup disc dirs /\ fields = rb_regroup disc fields
  end.

Lemma rb_type_partial_full rho t :
  rb_type_canonical t -> rb_type_partial rho t (ta_type_extensions t) = rn_type rho t.
Proof.
  destruct t; cbn [rb_type_canonical rb_type_partial rn_type]; intros H;
    repeat match goal with H : _ /\ _ |- _ => destruct H end;
    f_equal; apply rb_part_full; assumption.
Qed.

Lemma rb_dirs_snoc (dirs : sdirs) rho done i :
  rb_part dirs rho done ++ sb_comp_dirs (OExt (rho i)) (ta_components (Some i) dirs) = rb_part dirs rho (done ++ [i]).
Proof. rewrite rb_part_snoc. reflexivity. Qed.

Lemma rb_extend_step rho t done i :
  rb_type_keys t -> ~ In i done ->
  sb_extend_type (rho i) (rb_type_partial rho t done) (ta_type_part t (Some i))
  = Some (rb_type_partial rho t (done ++ [i]), []).
Proof.
  intros Hk Hi. destruct t; cbn [rb_type_keys] in Hk;
    repeat match goal with H : _ /\ _ |- _ => destruct H end;
    cbn [rb_type_partial ta_type_part sb_extend_type];
    rewrite ?(rb_sticky_step sb_name_key _ rho) by assumption;
    rewrite ?(rb_sticky_step fd_name _ rho) by assumption;
    rewrite ?(rb_sticky_step ev_value _ rho) by assumption;
    rewrite ?(rb_sticky_step iv_name _ rho) by assumption;
    rewrite rb_dirs_snoc; reflexivity.
Qed.

Lemma rb_of_def rho t :
  rb_type_keys t -> et_builtin t = false ->
  sb_type_of_def (ta_type_part t None) = Some (rb_type_partial rho t [], []).
Proof.
  intros Hk Hb. destruct t; cbn [rb_type_keys et_builtin] in *; subst;
    repeat match goal with H : _ /\ _ |- _ => destruct H end;
    cbn [rb_type_partial ta_type_part sb_type_of_def];
    rewrite ?(rb_sticky_start sb_name_key _ rho) by assumption;
    rewrite ?(rb_sticky_start fd_name _ rho) by assumption;
    rewrite ?(rb_sticky_start ev_value _ rho) by assumption;
    rewrite ?(rb_sticky_start iv_name _ rho) by assumption;
    unfold rb_part, sb_comp_dirs; cbn [flat_map]; rewrite ?app_nil_r; reflexivity.
Qed.

(* ---------------------------------------------------------------- all extensions, in discovery order *)
Lemma cn_index_app_notin i a b : ~ In i a -> cn_index i (a ++ i :: b) = N.of_nat (length a).
Proof.
  induction a as [|j a IH]; intros H; cbn [app cn_index length].
  - rewrite N.eqb_refl. reflexivity.
  - destruct (i =? j) eqn:E; [apply N.eqb_eq in E; subst; exfalso; apply H; left; reflexivity|].
    rewrite IH by (intros Hin; apply H; right; exact Hin). lia.
Qed.

Definition rb_rho (next : N) (disc : list N) (i : N) : N := next + cn_index i disc.

Lemma rb_apply_all next t : forall todo done,
  rb_type_keys t -> NoDup (done ++ todo) ->
  sb_apply_queued (rb_type_partial (rb_rho next (done ++ todo)) t done) (next + N.of_nat (length done))
                  (map (fun i => ta_type_part t (Some i)) todo)
  = (rb_type_partial (rb_rho next (done ++ todo)) t (done ++ todo),
     next + N.of_nat (length (done ++ todo)), []).
Proof.
  induction todo as [|i todo IH]; intros done Hk Hnd; cbn [map sb_apply_queued].
  - rewrite app_nil_r. reflexivity.
  - assert (Hi : ~ In i done).
    { apply NoDup_remove_2 in Hnd. intros H. apply Hnd. apply in_app_iff. left. exact H. }
    assert (Hrho : rb_rho next (done ++ i :: todo) i = next + N.of_nat (length done)).
    { unfold rb_rho. rewrite cn_index_app_notin by exact Hi. reflexivity. }
    rewrite <- Hrho. rewrite rb_extend_step by assumption.
    assert (Heq : done ++ i :: todo = (done ++ [i]) ++ todo) by (rewrite <- app_assoc; reflexivity).
    rewrite Hrho. rewrite Heq in *.
    replace (next + N.of_nat (length done) + 1) with (next + N.of_nat (length (done ++ [i])))
      by (rewrite app_length; cbn [length]; lia).
    rewrite IH by assumption. reflexivity.
Qed.

(* ---------------------------------------------------------------- the fold over the builder state *)
Lemma sb_update_type_twice n t1 t2 ts :
  et_name t1 = n -> sb_update_type n t2 (sb_update_type n t1 ts) = sb_update_type n t2 ts.
Proof.
  intros H. induction ts as [|t ts IH]; cbn; [reflexivity|].
  destruct (streq n (et_name t)) eqn:E; cbn.
  - rewrite H, streq_refl. reflexivity.
  - rewrite E. f_equal. exact IH.
Qed.

Lemma sb_update_type_same n ts t : sch_find_type n ts = Some t -> sb_update_type n t ts = ts.
Proof.
  induction ts as [|t0 ts IH]; cbn; [reflexivity|].
  destruct (streq n (et_name t0)); [intros [= ->]; reflexivity|]. intros H. f_equal. apply IH, H.
Qed.

(* extensions of one existing type, all of its kind, arriving one after another = sb_apply_queued *)
Lemma rb_fold_exts cfg n : forall xs st t0 t1 n1 e1,
  sch_find_type n (sbs_types st) = Some t0 ->
  Forall (fun x => sb_ext_name x = Some n /\ sb_ext_kind x = Some (sb_et_kind t0)) xs ->
  sb_apply_queued t0 (sbs_next st) xs = (t1, n1, e1) ->
  fold_left (sb_add_def cfg) xs st =
  {| sbs_def := sbs_def st; sbs_dirdefs := sbs_dirdefs st; sbs_types := sb_update_type n t1 (sbs_types st);
     sbs_found := sbs_found st; sbs_orphan_sx := sbs_orphan_sx st; sbs_orphans := sbs_orphans st;
     sbs_next := n1; sbs_errs := sbs_errs st ++ e1 |}.
Proof.
  induction xs as [|x xs IH]; intros st t0 t1 n1 e1 Hfind Hall Hq; cbn [fold_left sb_apply_queued] in *.
  - injection Hq as <- <- <-. rewrite (sb_update_type_same _ _ _ Hfind), app_nil_r. destruct st; reflexivity.
  - inversion Hall as [|? ? [Hn Hk] Hall']; subst.
    rewrite (sb_add_def_ext cfg st x n _ Hn Hk). unfold sb_type_extension. rewrite Hfind.
    destruct (sb_extend_type (sbs_next st) t0 x) as [[t' e']|] eqn:Hext.
    + destruct (sb_apply_queued t' (sbs_next st + 1) xs) as [[t2 n2] e2] eqn:Hq2.
      injection Hq as <- <- <-.
      destruct (sb_extend_type_some _ _ _ _ _ Hext) as [Hname [_ [Hkind _]]].
      destruct (sb_find_type_name _ _ _ Hfind) as [Hn0 _].
      erewrite IH; [| |rewrite Hkind; exact Hall'|exact Hq2].
      2:{ cbn [sbs_types]. apply (sch_find_type_update n t' _ t0 Hfind). congruence. }
      cbn [sbs_def sbs_dirdefs sbs_types sbs_found sbs_orphan_sx sbs_orphans sbs_next sbs_errs].
      rewrite sb_update_type_twice by congruence. rewrite app_assoc. reflexivity.
    + exfalso. pose proof (sb_extend_type_none _ _ _ _ Hk Hext) as H. rewrite sbkind_eqb_refl in H. discriminate.
Qed.

(* ---------------------------------------------------------------- facts about to_ast of a type *)
Lemma ta_type_part_ext t i :
  sb_ext_name (ta_type_part t (Some i)) = Some (et_name t) /\
  sb_ext_kind (ta_type_part t (Some i)) = Some (sb_et_kind t).
Proof. destruct t; cbn; auto. Qed.

Lemma ta_type_part_def_name t : def_name (ta_type_part t None) = Some (et_name t).
Proof. destruct t; reflexivity. Qed.

Lemma rb_type_partial_props rho t done :
  et_name (rb_type_partial rho t done) = et_name t /\ sb_et_kind (rb_type_partial rho t done) = sb_et_kind t
  /\ et_builtin (rb_type_partial rho t done) = et_builtin t.
Proof. destruct t; cbn; auto. Qed.

Lemma ta_mem_In i l : ta_mem i l = true <-> In i l.
Proof.
  unfold ta_mem. rewrite existsb_exists. split.
  - intros [x [Hx He]]. apply N.eqb_eq in He. subst. exact Hx.
  - intros H. exists i. split; [exact H|apply N.eqb_refl].
Qed.

Lemma ta_ext_ids_acc_spec os : forall seen,
  NoDup (ta_ext_ids_acc seen os) /\
  (forall i, In i (ta_ext_ids_acc seen os) <-> In (OExt i) os /\ ~ In i seen).
Proof.
  induction os as [|o os IH]; intros seen; cbn [ta_ext_ids_acc].
  - split; [constructor|]. cbn. tauto.
  - destruct o as [|j].
    + destruct (IH seen) as [Hnd Hin]. split; [exact Hnd|]. intros i. rewrite Hin. cbn. intuition discriminate.
    + destruct (ta_mem j seen) eqn:E.
      * apply ta_mem_In in E. destruct (IH seen) as [Hnd Hin]. split; [exact Hnd|]. intros i. rewrite Hin. cbn [In].
        split; [intros [H1 H2]; split; [right; exact H1|exact H2]|].
        intros [[H1|H1] H2]; [injection H1 as ->; contradiction|split; assumption].
      * assert (Hj : ~ In j seen) by (intros H; apply ta_mem_In in H; congruence).
        destruct (IH (j :: seen)) as [Hnd Hin]. split.
        -- constructor; [|exact Hnd]. rewrite Hin. cbn. tauto.
        -- intros i. cbn [In]. rewrite Hin. cbn [In]. split.
           ++ intros [->|[H1 H2]]; [split; [left; reflexivity|exact Hj]|]. split; [right; exact H1|tauto].
           ++ intros [[H1|H1] H2]; [injection H1 as ->; left; reflexivity|].
              destruct (N.eq_dec j i) as [->|Hne]; [left; reflexivity|]. right. split; [exact H1|]. tauto.
Qed.

Lemma ta_ext_ids_NoDup os : NoDup (ta_ext_ids os).
Proof. apply ta_ext_ids_acc_spec. Qed.

Lemma ta_ext_ids_In os i : In i (ta_ext_ids os) <-> In (OExt i) os.
Proof. unfold ta_ext_ids. rewrite (proj2 (ta_ext_ids_acc_spec os [])). cbn. tauto. Qed.

(* ---------------------------------------------------------------- one type rebuilt from its own to_ast *)
Definition rb_set_types (st : sb_state) (ts : list ext_type) (next : N) : sb_state :=
  {| sbs_def := sbs_def st; sbs_dirdefs := sbs_dirdefs st; sbs_types := ts;
     sbs_found := sbs_found st; sbs_orphan_sx := sbs_orphan_sx st; sbs_orphans := sbs_orphans st;
     sbs_next := next; sbs_errs := sbs_errs st |}.

Lemma rb_exts_forall t disc :
  Forall (fun x => sb_ext_name x = Some (et_name t) /\ sb_ext_kind x = Some (sb_et_kind t))
         (map (fun i => ta_type_part t (Some i)) disc).
Proof. apply Forall_forall. intros x Hx. apply in_map_iff in Hx. destruct Hx as [i [<- _]]. apply ta_type_part_ext. Qed.

Theorem rb_user_type cfg st t :
  et_builtin t = false -> rb_type_keys t -> rb_type_canonical t ->
  sch_find_type (et_name t) (sbs_types st) = None -> sbs_orphans st = [] ->
  fold_left (sb_add_def cfg) (ta_type_to_ast t) st =
  rb_set_types st (sbs_types st ++ [rn_type (rb_rho (sbs_next st) (ta_type_extensions t)) t])
               (sbs_next st + N.of_nat (length (ta_type_extensions t))).
Proof.
  intros Hb Hk Hc Hfind Horph. unfold ta_type_to_ast. cbn [fold_left].
  set (disc := ta_type_extensions t). set (rho := rb_rho (sbs_next st) disc).
  destruct (rb_type_partial_props rho t []) as [Hn0 [Hk0 _]].
  rewrite (sb_add_def_typedef cfg st _ (et_name t) _ (rb_of_def rho t Hk Hb) (ta_type_part_def_name t)).
  unfold sb_type_definition. rewrite Hfind, (rb_of_def rho t Hk Hb), Horph. cbn [sb_orphan_take sb_apply_queued sb_queued_mismatches flat_map].
  pose proof (rb_apply_all (sbs_next st) t disc [] Hk (ta_ext_ids_NoDup _)) as Hq. cbn [app length N.of_nat] in Hq.
  rewrite N.add_0_r in Hq. fold rho in Hq.
  erewrite (rb_fold_exts cfg (et_name t)); [| | |cbn [sbs_next]; exact Hq].
  - cbn [sbs_def sbs_dirdefs sbs_types sbs_found sbs_orphan_sx sbs_orphans sbs_next sbs_errs].
    rewrite (sb_update_type_app_none _ _ _ _ Hfind). cbn [sb_update_type]. rewrite Hn0, streq_refl.
    unfold rho, disc. rewrite (rb_type_partial_full _ t Hc). rewrite !app_nil_r.
    unfold rb_set_types. rewrite Horph. reflexivity.
  - cbn [sbs_types]. rewrite (sch_find_type_app_none _ _ _ Hfind). cbn [sch_find_type]. rewrite Hn0, streq_refl. reflexivity.
  - rewrite Hk0. apply rb_exts_forall.
Qed.

(* a built-in type: only its extensions are emitted; the builder applies them to the built-in
   definition t0 it starts from *)
Theorem rb_builtin_type cfg st t t0 :
  rb_type_keys t -> rb_type_canonical t ->
  sch_find_type (et_name t) (sbs_types st) = Some t0 ->
  t0 = rb_type_partial (fun i => i) t [] ->
  fold_left (sb_add_def cfg) (tl (ta_type_to_ast t)) st =
  rb_set_types st (sb_update_type (et_name t) (rn_type (rb_rho (sbs_next st) (ta_type_extensions t)) t) (sbs_types st))
               (sbs_next st + N.of_nat (length (ta_type_extensions t))).
Proof.
  intros Hk Hc Hfind Ht0. unfold ta_type_to_ast. cbn [tl].
  set (disc := ta_type_extensions t). set (rho := rb_rho (sbs_next st) disc).
  assert (Ht0' : t0 = rb_type_partial rho t []) by (subst t0; destruct t; reflexivity).
  destruct (rb_type_partial_props rho t []) as [Hn0 [Hk0 _]].
  pose proof (rb_apply_all (sbs_next st) t disc [] Hk (ta_ext_ids_NoDup _)) as Hq. cbn [app length N.of_nat] in Hq.
  rewrite N.add_0_r in Hq. fold rho in Hq. rewrite <- Ht0' in Hq.
  erewrite (rb_fold_exts cfg (et_name t)); [|exact Hfind| |exact Hq].
  - unfold rho, disc. rewrite (rb_type_partial_full _ t Hc), app_nil_r. reflexivity.
  - rewrite Ht0', Hk0. apply rb_exts_forall.
Qed.

(* ---------------------------------------------------------------- all types *)
(* the types renumbered one after another, as the re-build numbers their extensions *)
Fixpoint rb_renumber (next : N) (ts : list ext_type) : list ext_type * N :=
  match ts with
  | [] => ([], next)
  | t :: r =>
    let disc := ta_type_extensions t in
    let '(r', n') := rb_renumber (next + N.of_nat (length disc)) r in
    (rn_type (rb_rho next disc) t :: r', n')
  end.

Lemma rn_type_props f t :
  et_name (rn_type f t) = et_name t /\ et_builtin (rn_type f t) = et_builtin t /\ sb_et_kind (rn_type f t) = sb_et_kind t.
Proof. destruct t; cbn; auto. Qed.

Lemma rb_renumber_names ts : forall next, map et_name (fst (rb_renumber next ts)) = map et_name ts.
Proof.
  induction ts as [|t ts IH]; intros next; cbn [rb_renumber]; [reflexivity|].
  specialize (IH (next + N.of_nat (length (ta_type_extensions t)))).
  destruct (rb_renumber _ ts) as [r' n']. cbn [fst map] in *. rewrite IH.
  f_equal. apply rn_type_props.
Qed.

Lemma sch_find_type_none n ts : sch_find_type n ts = None <-> ~ In n (map et_name ts).
Proof.
  induction ts as [|t ts IH]; cbn; [tauto|].
  destruct (streq n (et_name t)) eqn:E.
  - apply streq_eq in E. split; [discriminate|]. intros H. exfalso. apply H. left. congruence.
  - rewrite IH. split; [|tauto]. intros H [H1|H1]; [|tauto]. subst. rewrite streq_refl in E. discriminate.
Qed.

Definition rb_type_ok (t : ext_type) : Prop := rb_type_keys t /\ rb_type_canonical t.

Lemma rb_set_types_set st ts n ts' n' : rb_set_types (rb_set_types st ts n) ts' n' = rb_set_types st ts' n'.
Proof. reflexivity. Qed.

Lemma rb_fold_user cfg : forall Tu st,
  Forall (fun t => et_builtin t = false /\ rb_type_ok t) Tu ->
  NoDup (map et_name Tu) ->
  (forall n, In n (map et_name Tu) -> ~ In n (map et_name (sbs_types st))) ->
  sbs_orphans st = [] ->
  fold_left (sb_add_def cfg) (flat_map ta_type_to_ast Tu) st =
  rb_set_types st (sbs_types st ++ fst (rb_renumber (sbs_next st) Tu)) (snd (rb_renumber (sbs_next st) Tu)).
Proof.
  induction Tu as [|t Tu IH]; intros st Hall Hnd Hdisj Horph; cbn [flat_map rb_renumber].
  - cbn. rewrite app_nil_r. destruct st; reflexivity.
  - inversion Hall as [|? ? [Hb [Hk Hc]] Hall']; subst. inversion Hnd as [|? ? Hnotin Hnd']; subst.
    rewrite fold_left_app.
    rewrite (rb_user_type cfg st t Hb Hk Hc); [| |exact Horph].
    2:{ apply sch_find_type_none. apply Hdisj. left. reflexivity. }
    set (disc := ta_type_extensions t).
    rewrite IH; [| exact Hall' | exact Hnd' | | exact Horph].
    + cbn [rb_set_types sbs_types sbs_next].
      destruct (rb_renumber (sbs_next st + N.of_nat (length disc)) Tu) as [r' n'].
      cbn [fst snd]. rewrite rb_set_types_set, <- app_assoc. reflexivity.
    + intros n Hn. cbn [rb_set_types sbs_types]. rewrite map_app, in_app_iff. cbn [map In].
      intros [H|[H|[]]].
      * apply (Hdisj n); [right; exact Hn|exact H].
      * destruct (rn_type_props (rb_rho (sbs_next st) disc) t) as [Hname _]. rewrite Hname in H. subst n. contradiction.
Qed.

Lemma sch_find_type_app_skip n P t0 rest :
  ~ In n (map et_name P) -> et_name t0 = n -> sch_find_type n (P ++ t0 :: rest) = Some t0.
Proof.
  intros HP Hn. rewrite sch_find_type_app_none by (apply sch_find_type_none; exact HP).
  cbn. rewrite Hn, streq_refl. reflexivity.
Qed.

Lemma sb_update_type_app_skip n t' P t0 rest :
  ~ In n (map et_name P) -> et_name t0 = n -> sb_update_type n t' (P ++ t0 :: rest) = P ++ t' :: rest.
Proof.
  intros HP Hn. rewrite sb_update_type_app_none by (apply sch_find_type_none; exact HP).
  cbn. rewrite Hn, streq_refl. reflexivity.
Qed.

Lemma rb_fold_builtin cfg : forall Tb T0 P st,
  Forall2 (fun t t0 => t0 = rb_type_partial (fun i => i) t []) Tb T0 ->
  Forall rb_type_ok Tb ->
  NoDup (map et_name P ++ map et_name Tb) ->
  sbs_types st = P ++ T0 ->
  fold_left (sb_add_def cfg) (flat_map (fun t => tl (ta_type_to_ast t)) Tb) st =
  rb_set_types st (P ++ fst (rb_renumber (sbs_next st) Tb)) (snd (rb_renumber (sbs_next st) Tb)).
Proof.
  induction Tb as [|t Tb IH]; intros T0 P st H2 Hall Hnd Hty; inversion H2 as [|? t0 ? T0' Ht0 H2']; subst;
    cbn [flat_map rb_renumber].
  - cbn. rewrite <- Hty. destruct st; reflexivity.
  - inversion Hall as [|? ? [Hk Hc] Hall']; subst.
    assert (HnP : ~ In (et_name t) (map et_name P)).
    { intros H. apply NoDup_remove_2 in Hnd. apply Hnd. apply in_app_iff. left. exact H. }
    assert (Hn0 : et_name (rb_type_partial (fun i => i) t []) = et_name t) by apply rb_type_partial_props.
    rewrite fold_left_app.
    rewrite (rb_builtin_type cfg st t (rb_type_partial (fun i => i) t []) Hk Hc); [| |reflexivity].
    2:{ rewrite Hty. apply sch_find_type_app_skip; assumption. }
    set (disc := ta_type_extensions t). rewrite Hty, sb_update_type_app_skip by assumption.
    set (t' := rn_type (rb_rho (sbs_next st) disc) t).
    rewrite (IH T0' (P ++ [t'])); [|exact H2'|exact Hall'| |].
    + cbn [rb_set_types sbs_types sbs_next].
      destruct (rb_renumber (sbs_next st + N.of_nat (length disc)) Tb) as [r' n'].
      cbn [fst snd]. rewrite rb_set_types_set, <- app_assoc. reflexivity.
    + rewrite map_app. cbn [map]. unfold t'. rewrite (proj1 (rn_type_props _ t)). rewrite <- app_assoc. exact Hnd.
    + cbn [rb_set_types sbs_types]. rewrite <- app_assoc. reflexivity.
Qed.

(* ---------------------------------------------------------------- directive definitions *)
Lemma sch_find_dirdef_none n ds : sch_find_dirdef n ds = None <-> ~ In n (map dd_name ds).
Proof.
  induction ds as [|d ds IH]; cbn; [tauto|].
  destruct (streq n (dd_name d)) eqn:E.
  - apply streq_eq in E. split; [discriminate|]. intros H. exfalso. apply H. left. congruence.
  - rewrite IH. split; [|tauto]. intros H [H1|H1]; [|tauto]. subst. rewrite streq_refl in E. discriminate.
Qed.

Lemma sch_find_dirdef_app_none n a b : sch_find_dirdef n a = None -> sch_find_dirdef n (a ++ b) = sch_find_dirdef n b.
Proof. induction a as [|d a IH]; cbn; [reflexivity|]. destruct (streq n (dd_name d)); [discriminate|exact IH]. Qed.

Lemma sb_update_dirdef_app_none n d' a b :
  sch_find_dirdef n a = None -> sb_update_dirdef n d' (a ++ b) = a ++ sb_update_dirdef n d' b.
Proof.
  induction a as [|d a IH]; cbn; [reflexivity|]. destruct (streq n (dd_name d)); [discriminate|].
  intros H. f_equal. apply IH, H.
Qed.

Definition rb_set_dirdefs (st : sb_state) (ds : list dirdef) : sb_state :=
  {| sbs_def := sbs_def st; sbs_dirdefs := ds; sbs_types := sbs_types st;
     sbs_found := sbs_found st; sbs_orphan_sx := sbs_orphan_sx st; sbs_orphans := sbs_orphans st;
     sbs_next := sbs_next st; sbs_errs := sbs_errs st |}.

Definition rb_nb (d : dirdef) : bool := negb (dd_builtin d).

Lemma rb_dirdef_eta d : dd_builtin d = false ->
  {| dd_desc := dd_desc d; dd_name := dd_name d; dd_args := dd_args d; dd_repeatable := dd_repeatable d;
     dd_locs := dd_locs d; dd_builtin := false |} = d.
Proof. destruct d; cbn; intros ->; reflexivity. Qed.

Lemma rb_fold_dirs_builtin cfg : forall Db D0 P st,
  Forall2 (fun d d0 => dd_name d = dd_name d0 /\ (d = d0 \/ dd_builtin d = false)) Db D0 ->
  Forall (fun d => dd_builtin d = true) D0 ->
  NoDup (map dd_name P ++ map dd_name Db) ->
  sbs_dirdefs st = P ++ D0 ->
  fold_left (sb_add_def cfg) (map ta_dirdef_to_ast (filter rb_nb Db)) st = rb_set_dirdefs st (P ++ Db).
Proof.
  induction Db as [|d Db IH]; intros D0 P st H2 Hb Hnd Hst; inversion H2 as [|? d0 ? D0' [Hname Hd] H2']; subst.
  - cbn. rewrite <- Hst. destruct st; reflexivity.
  - inversion Hb as [|? ? Hb0 Hb']; subst.
    assert (HnP : ~ In (dd_name d) (map dd_name P)).
    { intros H. apply NoDup_remove_2 in Hnd. apply Hnd. apply in_app_iff. left. exact H. }
    assert (Hnd' : NoDup (map dd_name (P ++ [d]) ++ map dd_name Db)).
    { rewrite map_app. cbn [map]. rewrite <- app_assoc. exact Hnd. }
    cbn [filter]. unfold rb_nb at 1. destruct Hd as [->|Hd].
    + rewrite Hb0. cbn [negb]. rewrite (IH D0' (P ++ [d0]) st H2' Hb' Hnd'); [|rewrite Hst, <- app_assoc; reflexivity].
      rewrite <- app_assoc. reflexivity.
    + rewrite Hd. cbn [negb map fold_left ta_dirdef_to_ast sb_add_def].
      rewrite Hst, sch_find_dirdef_app_none by (apply sch_find_dirdef_none; exact HnP).
      cbn [sch_find_dirdef]. rewrite Hname, streq_refl, Hb0.
      rewrite sb_update_dirdef_app_none by (apply sch_find_dirdef_none; rewrite <- Hname; exact HnP).
      cbn [sb_update_dirdef]. rewrite streq_refl. rewrite <- Hname, (rb_dirdef_eta d Hd).
      rewrite (IH D0' (P ++ [d]) _ H2' Hb' Hnd'); [|cbn [sbs_dirdefs]; rewrite <- app_assoc; reflexivity].
      unfold rb_set_dirdefs. cbn. rewrite <- app_assoc. reflexivity.
Qed.

Lemma rb_fold_dirs_user cfg : forall Du st,
  Forall (fun d => dd_builtin d = false) Du ->
  NoDup (map dd_name (sbs_dirdefs st) ++ map dd_name Du) ->
  fold_left (sb_add_def cfg) (map ta_dirdef_to_ast Du) st = rb_set_dirdefs st (sbs_dirdefs st ++ Du).
Proof.
  induction Du as [|d Du IH]; intros st Hb Hnd.
  - cbn. rewrite app_nil_r. destruct st; reflexivity.
  - inversion Hb as [|? ? Hd Hb']; subst. cbn [map fold_left ta_dirdef_to_ast sb_add_def].
    assert (Hn : sch_find_dirdef (dd_name d) (sbs_dirdefs st) = None).
    { apply sch_find_dirdef_none. intros H. apply NoDup_remove_2 in Hnd. apply Hnd. apply in_app_iff. left. exact H. }
    rewrite Hn, (rb_dirdef_eta d Hd). rewrite IH; [|exact Hb'|].
    + unfold rb_set_dirdefs. cbn. rewrite <- app_assoc. reflexivity.
    + cbn [sbs_dirdefs]. rewrite map_app. cbn [map]. rewrite <- app_assoc. exact Hnd.
Qed.

Lemma NoDup_app_l {A} (a b : list A) : NoDup (a ++ b) -> NoDup a.
Proof.
  induction a as [|x a IH]; cbn; intros H; [constructor|]. inversion H as [|? ? Hx H']; subst.
  constructor; [|apply IH, H']. intros Hin. apply Hx. apply in_app_iff. left. exact Hin.
Qed.

Lemma filter_all_true' {A} (p : A -> bool) l : Forall (fun x => p x = true) l -> filter p l = l.
Proof. induction 1; cbn; [reflexivity|]. rewrite H. f_equal. assumption. Qed.

(* the directive definitions of a schema relative to the built-in ones: a built-in definition may have
   been replaced (in place) by a user definition; user definitions follow *)
Definition rb_dirdefs_wf (D0 D : list dirdef) : Prop :=
  exists Db Du, D = Db ++ Du /\
    Forall2 (fun d d0 => dd_name d = dd_name d0 /\ (d = d0 \/ dd_builtin d = false)) Db D0 /\
    Forall (fun d => dd_builtin d = true) D0 /\
    Forall (fun d => dd_builtin d = false) Du /\
    NoDup (map dd_name D).

Lemma rb_fold_dirdefs cfg D0 D st :
  rb_dirdefs_wf D0 D -> sbs_dirdefs st = D0 ->
  fold_left (sb_add_def cfg) (map ta_dirdef_to_ast (filter rb_nb D)) st = rb_set_dirdefs st D.
Proof.
  intros [Db [Du [-> [H2 [Hb0 [Hbu Hnd]]]]]] Hst. rewrite filter_app, map_app, fold_left_app.
  rewrite map_app in Hnd.
  rewrite (rb_fold_dirs_builtin cfg Db D0 [] st H2 Hb0); [| |exact Hst].
  2:{ cbn. apply NoDup_app_l in Hnd. exact Hnd. }
  rewrite (filter_all_true' rb_nb Du).
  2:{ rewrite Forall_forall in *. intros d Hd. unfold rb_nb. rewrite (Hbu d Hd). reflexivity. }
  rewrite rb_fold_dirs_user; [|exact Hbu|cbn [rb_set_dirdefs sbs_dirdefs app]; exact Hnd].
  reflexivity.
Qed.

(* ---------------------------------------------------------------- the schema definition *)
Definition rb_root_partial (rho : N -> N) (done : list N) (c : option (comp str)) : option (comp str) :=
  match c with
  | None => None
  | Some c =>
    match c_origin c with
    | ODef => Some (mkcomp ODef (c_val c))
    | OExt j => if ta_mem j done then Some (mkcomp (OExt (rho j)) (c_val c)) else None
    end
  end.

Definition rb_sd_partial (rho : N -> N) (sd : schema_def) (done : list N) : schema_def :=
  {| sd_desc := sd_desc sd; sd_dirs := rb_part (sd_dirs sd) rho done;
     sd_query := rb_root_partial rho done (sd_query sd);
     sd_mutation := rb_root_partial rho done (sd_mutation sd);
     sd_subscription := rb_root_partial rho done (sd_subscription sd) |}.

Lemma ta_mem_snoc j done i : ta_mem j (done ++ [i]) = ta_mem j done || (j =? i).
Proof. unfold ta_mem. rewrite existsb_app. cbn. rewrite orb_false_r. reflexivity. Qed.

Lemma rb_sd_step rho sd done i :
  ~ In i done ->
  sb_extend_schema_def (rho i) (rb_sd_partial rho sd done) (ta_components (Some i) (sd_dirs sd)) (ta_root_ops sd (Some i))
  = (rb_sd_partial rho sd (done ++ [i]), []).
Proof.
  intros Hi. assert (Hm : ta_mem i done = false).
  { apply not_true_is_false. intros H. apply ta_mem_In in H. contradiction. }
  unfold sb_extend_schema_def, sb_sd_add_dirs, rb_sd_partial.
  cbn [sd_desc sd_dirs sd_query sd_mutation sd_subscription]. rewrite rb_dirs_snoc.
  destruct sd as [d dirs q m s]. unfold ta_root_ops. cbn [sd_desc sd_dirs sd_query sd_mutation sd_subscription].
  destruct q as [[[|jq] vq]|], m as [[[|jm] vm]|], s as [[[|js] vs]|];
    cbn [ta_root_op rb_root_partial c_origin c_val ta_origin_is app];
    rewrite ?ta_mem_snoc;
    repeat match goal with
           | |- context [?a =? ?b] =>
             let E := fresh "E" in destruct (a =? b) eqn:E;
             [apply N.eqb_eq in E; subst; rewrite ?N.eqb_refl, ?Hm in *|
              try (rewrite N.eqb_sym in E); rewrite ?E in *; try (rewrite N.eqb_sym in E); rewrite ?E in *]
           end;
    cbn [app sb_add_roots sb_sd_root sb_sd_set_root sd_desc sd_dirs sd_query sd_mutation sd_subscription orb];
    rewrite ?orb_false_r, ?orb_true_r; try reflexivity; try congruence.
Qed.

Definition rb_sx_of (sd : schema_def) (i : N) : list directive * list rootop :=
  (ta_components (Some i) (sd_dirs sd), ta_root_ops sd (Some i)).

Lemma rb_sd_all next sd : forall todo done,
  NoDup (done ++ todo) ->
  sb_extend_schema_def_all (next + N.of_nat (length done)) (rb_sd_partial (rb_rho next (done ++ todo)) sd done)
                           (map (rb_sx_of sd) todo)
  = (rb_sd_partial (rb_rho next (done ++ todo)) sd (done ++ todo), next + N.of_nat (length (done ++ todo)), []).
Proof.
  induction todo as [|i todo IH]; intros done Hnd; cbn [map sb_extend_schema_def_all].
  - rewrite app_nil_r. reflexivity.
  - assert (Hi : ~ In i done).
    { apply NoDup_remove_2 in Hnd. intros H. apply Hnd. apply in_app_iff. left. exact H. }
    assert (Hrho : rb_rho next (done ++ i :: todo) i = next + N.of_nat (length done)).
    { unfold rb_rho. rewrite cn_index_app_notin by exact Hi. reflexivity. }
    unfold rb_sx_of at 1. rewrite <- Hrho, rb_sd_step by exact Hi.
    assert (Heq : done ++ i :: todo = (done ++ [i]) ++ todo) by (rewrite <- app_assoc; reflexivity).
    rewrite Hrho. rewrite Heq in *.
    replace (next + N.of_nat (length done) + 1) with (next + N.of_nat (length (done ++ [i])))
      by (rewrite app_length; cbn [length]; lia).
    rewrite IH by assumption. reflexivity.
Qed.

Lemma rb_sd_partial_full rho sd :
  sd_dirs sd = rb_regroup (ta_sd_extensions sd) (sd_dirs sd) ->
  rb_sd_partial rho sd (ta_sd_extensions sd) = rn_sd rho sd.
Proof.
  intros Hd. unfold rb_sd_partial, rn_sd. rewrite (rb_part_full _ rho _ Hd).
  assert (H : forall c : option (comp str), incl (ta_opt_origin c) (ta_sd_origins sd) ->
              rb_root_partial rho (ta_sd_extensions sd) c = rn_opt rho c).
  { intros [c|] Hc; cbn; [|reflexivity]. destruct (c_origin c) as [|j] eqn:E; [reflexivity|].
    assert (Hm : ta_mem j (ta_sd_extensions sd) = true).
    { apply ta_mem_In, ta_ext_ids_In. apply Hc. cbn. rewrite E. left. reflexivity. }
    rewrite Hm. reflexivity. }
  rewrite !H; [reflexivity| | |]; unfold ta_sd_origins; intros o Ho; rewrite !in_app_iff; auto.
Qed.

Lemma rb_sd_start rho sd :
  sb_add_roots ODef {| sd_desc := sd_desc sd; sd_dirs := sb_comp_dirs ODef (ta_components None (sd_dirs sd));
                       sd_query := None; sd_mutation := None; sd_subscription := None |} (ta_root_ops sd None)
  = (rb_sd_partial rho sd [], []).
Proof.
  unfold rb_sd_partial, rb_part, sb_comp_dirs. cbn [flat_map]. rewrite app_nil_r.
  destruct sd as [d dirs q m s]. unfold ta_root_ops. cbn [sd_desc sd_dirs sd_query sd_mutation sd_subscription].
  destruct q as [[[|jq] vq]|], m as [[[|jm] vm]|], s as [[[|js] vs]|]; reflexivity.
Qed.

Lemma rb_sd_start_orphan rho sd :
  sd_desc sd = None -> filter rb_is_def (sd_dirs sd) = [] -> ta_root_ops sd None = [] ->
  rb_sd_partial rho sd [] = sb_empty_schema_def.
Proof.
  intros Hd Hf Hr. unfold rb_sd_partial, rb_part, ta_components. cbn [flat_map]. unfold rb_is_def in Hf. rewrite Hf, Hd.
  destruct sd as [d dirs q m s]. unfold ta_root_ops in Hr. cbn [sd_desc sd_dirs sd_query sd_mutation sd_subscription] in *.
  destruct q as [[[|jq] vq]|], m as [[[|jm] vm]|], s as [[[|js] vs]|]; cbn in Hr; try discriminate; reflexivity.
Qed.

Definition rb_set_sd (st : sb_state) (sd : schema_def) (found : bool) (osx : list (list directive * list rootop)) (next : N)
  : sb_state :=
  {| sbs_def := sd; sbs_dirdefs := sbs_dirdefs st; sbs_types := sbs_types st;
     sbs_found := found; sbs_orphan_sx := osx; sbs_orphans := sbs_orphans st;
     sbs_next := next; sbs_errs := sbs_errs st |}.

Definition rb_xschema (p : list directive * list rootop) : definition := XSchema (fst p) (snd p).

Lemma rb_fold_sx_found cfg : forall q st sd' n',
  sbs_found st = true ->
  sb_extend_schema_def_all (sbs_next st) (sbs_def st) q = (sd', n', []) ->
  fold_left (sb_add_def cfg) (map rb_xschema q) st = rb_set_sd st sd' true (sbs_orphan_sx st) n'.
Proof.
  induction q as [|[dirs roots] q IH]; intros st sd' n' Hf Hq; cbn [map fold_left sb_extend_schema_def_all] in *.
  - injection Hq as <- <-. destruct st; cbn in *; subst; reflexivity.
  - cbn [rb_xschema fst snd sb_add_def]. rewrite Hf.
    destruct (sb_extend_schema_def (sbs_next st) (sbs_def st) dirs roots) as [sd1 e1] eqn:E1.
    destruct (sb_extend_schema_def_all (sbs_next st + 1) sd1 q) as [[sd2 n2] e2] eqn:E2.
    injection Hq as <- <- He. apply app_eq_nil in He. destruct He as [-> ->].
    rewrite (IH _ sd2 n2); [|reflexivity|exact E2]. unfold rb_set_sd. cbn. rewrite app_nil_r. reflexivity.
Qed.

Lemma rb_fold_sx_orphan cfg : forall q st,
  sbs_found st = false ->
  fold_left (sb_add_def cfg) (map rb_xschema q) st =
  rb_set_sd st (sbs_def st) false (sbs_orphan_sx st ++ q) (sbs_next st).
Proof.
  induction q as [|[dirs roots] q IH]; intros st Hf; cbn [map fold_left].
  - rewrite app_nil_r. destruct st; cbn in *; subst; reflexivity.
  - cbn [rb_xschema fst snd sb_add_def]. rewrite Hf. rewrite IH by reflexivity.
    unfold rb_set_sd. cbn. rewrite <- app_assoc. reflexivity.
Qed.

(* ---------------------------------------------------------------- renumbering: canon and to_ast *)
Lemma rb_rho_inj next disc : inj_on (rb_rho next disc) disc.
Proof. intros a b Ha Hb H. unfold rb_rho in H. apply (cn_index_inj a b disc Ha Hb). lia. Qed.

Lemma rb_renumber_app a : forall b n,
  rb_renumber n (a ++ b) =
  (fst (rb_renumber n a) ++ fst (rb_renumber (snd (rb_renumber n a)) b), snd (rb_renumber (snd (rb_renumber n a)) b)).
Proof.
  induction a as [|t a IH]; intros b n; cbn [app rb_renumber].
  - cbn. destruct (rb_renumber n b); reflexivity.
  - rewrite IH. destruct (rb_renumber (n + N.of_nat (length (ta_type_extensions t))) a) as [a' n1]. cbn [fst snd].
    destruct (rb_renumber n1 b) as [b' n2]. reflexivity.
Qed.

Lemma rb_renumber_canon ts : forall n, map cn_type (fst (rb_renumber n ts)) = map cn_type ts.
Proof.
  induction ts as [|t ts IH]; intros n; cbn [rb_renumber]; [reflexivity|].
  specialize (IH (n + N.of_nat (length (ta_type_extensions t)))). destruct (rb_renumber _ ts) as [r' n'].
  cbn [fst map] in *. rewrite IH. f_equal. apply cn_type_rn, rb_rho_inj.
Qed.

Lemma rb_renumber_to_ast ts : forall n,
  map (fun t => (et_builtin t, ta_type_to_ast t)) (fst (rb_renumber n ts))
  = map (fun t => (et_builtin t, ta_type_to_ast t)) ts.
Proof.
  induction ts as [|t ts IH]; intros n; cbn [rb_renumber]; [reflexivity|].
  specialize (IH (n + N.of_nat (length (ta_type_extensions t)))). destruct (rb_renumber _ ts) as [r' n'].
  cbn [fst map] in *. rewrite IH. f_equal. rewrite ta_type_to_ast_rn by apply rb_rho_inj.
  rewrite (proj1 (proj2 (rn_type_props _ t))). reflexivity.
Qed.

Lemma rb_renumber_has_object ts x : forall n, sb_has_object (fst (rb_renumber n ts)) x = sb_has_object ts x.
Proof.
  unfold sb_has_object. induction ts as [|t ts IH]; intros n; cbn [rb_renumber]; [reflexivity|].
  specialize (IH (n + N.of_nat (length (ta_type_extensions t)))). destruct (rb_renumber _ ts) as [r' n'].
  cbn [fst sch_find_type] in *. rewrite (proj1 (rn_type_props _ t)).
  destruct (streq x (et_name t)); [destruct t; reflexivity|exact IH].
Qed.

Lemma flat_map_ext_in {A B} (f g : A -> list B) l : (forall x, In x l -> f x = g x) -> flat_map f l = flat_map g l.
Proof.
  induction l as [|x l IH]; intros H; cbn; [reflexivity|]. rewrite (H x) by (left; reflexivity).
  f_equal. apply IH. intros; apply H; right; assumption.
Qed.

Definition rb_type_docs (t : ext_type) : list definition :=
  if et_builtin t then tl (ta_type_to_ast t) else ta_type_to_ast t.

Lemma rb_type_docs_map ts ts' :
  map (fun t => (et_builtin t, ta_type_to_ast t)) ts' = map (fun t => (et_builtin t, ta_type_to_ast t)) ts ->
  flat_map rb_type_docs ts' = flat_map rb_type_docs ts.
Proof.
  revert ts'. induction ts as [|t ts IH]; intros [|t' ts'] H; try discriminate; [reflexivity|].
  cbn [map flat_map] in *.
  pose proof (f_equal (fun l => match l with x :: _ => fst x | [] => false end) H) as Hb.
  pose proof (f_equal (fun l => match l with x :: _ => snd x | [] => [] end) H) as Ha.
  pose proof (f_equal (@tl _) H) as Ht. cbn [fst snd tl] in Hb, Ha, Ht.
  unfold rb_type_docs at 1 3. rewrite Hb, Ha. f_equal. apply IH, Ht.
Qed.

(* ---------------------------------------------------------------- well-formedness of a schema w.r.t. the built-ins *)
Definition rb_types_wf (T0 T : list ext_type) : Prop :=
  exists Tb Tu, T = Tb ++ Tu /\
    Forall2 (fun t t0 => t0 = rb_type_partial (fun i => i) t []) Tb T0 /\
    Forall (fun t0 => et_builtin t0 = true) T0 /\
    Forall (fun t => et_builtin t = false) Tu /\
    NoDup (map et_name T) /\ Forall rb_type_ok T.

Lemma rb_fold_types cfg T0 T st :
  rb_types_wf T0 T -> sbs_types st = T0 -> sbs_orphans st = [] ->
  fold_left (sb_add_def cfg) (flat_map rb_type_docs T) st =
  rb_set_types st (fst (rb_renumber (sbs_next st) T)) (snd (rb_renumber (sbs_next st) T)).
Proof.
  intros [Tb [Tu [-> [H2 [Hb0 [Hbu [Hnd Hok]]]]]]] Hst Horph.
  rewrite flat_map_app, fold_left_app. apply Forall_app in Hok. destruct Hok as [Hokb Hoku].
  rewrite map_app in Hnd.
  assert (Hbb : Forall (fun t => et_builtin t = true) Tb).
  { clear -H2 Hb0. induction H2 as [|t t0 Tb T0 Ht H2 IH]; [constructor|]. inversion Hb0; subst.
    constructor; [|apply IH; assumption]. rewrite <- (proj2 (proj2 (rb_type_partial_props (fun i => i) t []))). assumption. }
  rewrite (flat_map_ext_in rb_type_docs (fun t => tl (ta_type_to_ast t)) Tb).
  2:{ rewrite Forall_forall in Hbb. intros t Ht. unfold rb_type_docs. rewrite (Hbb t Ht). reflexivity. }
  rewrite (rb_fold_builtin cfg Tb T0 [] st H2 Hokb); [|cbn; apply NoDup_app_l in Hnd; exact Hnd|exact Hst].
  rewrite (flat_map_ext_in rb_type_docs ta_type_to_ast Tu).
  2:{ rewrite Forall_forall in Hbu. intros t Ht. unfold rb_type_docs. rewrite (Hbu t Ht). reflexivity. }
  cbn [app]. rewrite rb_fold_user.
  - cbn [rb_set_types sbs_types sbs_next]. rewrite rb_set_types_set, rb_renumber_app. reflexivity.
  - rewrite Forall_forall in *. intros t Ht. split; [apply Hbu, Ht|apply Hoku, Ht].
  - clear -Hnd. induction Tb as [|t Tb IH]; cbn in *; [exact Hnd|]. inversion Hnd; subst. apply IH; assumption.
  - cbn [rb_set_types sbs_types]. rewrite rb_renumber_names. intros n Hn Hin.
    clear -Hnd Hn Hin. induction Tb as [|t Tb IH]; cbn in *; [contradiction|]. inversion Hnd as [|? ? Hx Hnd']; subst.
    destruct Hin as [<-|Hin]; [apply Hx; apply in_app_iff; right; exact Hn|apply IH; assumption].
  - exact Horph.
Qed.

(* ---------------------------------------------------------------- the whole schema *)
Definition rb_sd_wf (cfg : sb_cfg) (sd : schema_def) (T : list ext_type) : Prop :=
  sd_dirs sd = rb_regroup (ta_sd_extensions sd) (sd_dirs sd) /\
  (ta_root_ops sd None = [] ->
     sd_desc sd = None /\ filter rb_is_def (sd_dirs sd) = [] /\
     (sb_roots_all_none sd = true -> forall op, sb_has_object T (sb_default_type_name op) = false) /\
     (sbc_adopt cfg = false -> ta_sd_extensions sd = [])).

Definition rb_wf (cfg : sb_cfg) (b0 s : schema) : Prop :=
  sch_def b0 = sb_empty_schema_def /\
  rb_dirdefs_wf (sch_dirdefs b0) (sch_dirdefs s) /\
  rb_types_wf (sch_types b0) (sch_types s) /\
  rb_sd_wf cfg (sch_def s) (sch_types s).

Lemma sch_to_ast_eq s :
  sch_to_ast s = ta_sd_to_ast (sch_def s) (sch_types s)
                 ++ map ta_dirdef_to_ast (filter rb_nb (sch_dirdefs s)) ++ flat_map rb_type_docs (sch_types s).
Proof. reflexivity. Qed.

Lemma ta_sd_to_ast_eq sd T :
  ta_sd_to_ast sd T =
  (if ta_sd_implicit sd T then []
   else [DSchema (sd_desc sd) (ta_components None (sd_dirs sd)) (ta_root_ops sd None)])
  ++ map rb_xschema (map (rb_sx_of sd) (ta_sd_extensions sd)).
Proof. unfold ta_sd_to_ast. rewrite map_map. reflexivity. Qed.

Lemma ta_sd_to_ast_types_ext sd T T' :
  (forall n, sb_has_object T' n = sb_has_object T n) -> ta_sd_to_ast sd T' = ta_sd_to_ast sd T.
Proof.
  intros H. unfold ta_sd_to_ast, ta_sd_implicit, ta_root_matches_implicit. rewrite !H. reflexivity.
Qed.

Lemma rb_phases cfg b0 s st1 :
  rb_dirdefs_wf (sch_dirdefs b0) (sch_dirdefs s) -> rb_types_wf (sch_types b0) (sch_types s) ->
  sbs_dirdefs st1 = sch_dirdefs b0 -> sbs_types st1 = sch_types b0 -> sbs_orphans st1 = [] ->
  fold_left (sb_add_def cfg)
            (map ta_dirdef_to_ast (filter rb_nb (sch_dirdefs s)) ++ flat_map rb_type_docs (sch_types s)) st1 =
  {| sbs_def := sbs_def st1; sbs_dirdefs := sch_dirdefs s;
     sbs_types := fst (rb_renumber (sbs_next st1) (sch_types s));
     sbs_found := sbs_found st1; sbs_orphan_sx := sbs_orphan_sx st1; sbs_orphans := [];
     sbs_next := snd (rb_renumber (sbs_next st1) (sch_types s)); sbs_errs := sbs_errs st1 |}.
Proof.
  intros HD HT Hd Ht Ho. rewrite fold_left_app, (rb_fold_dirdefs cfg _ _ st1 HD Hd).
  rewrite (rb_fold_types cfg _ _ _ HT); [|exact Ht|exact Ho].
  unfold rb_set_types, rb_set_dirdefs. cbn. rewrite Ho. reflexivity.
Qed.

Lemma sb_add_implicit_roots_empty T :
  fst (sb_add_implicit_roots sb_empty_schema_def T) =
  {| sd_desc := None; sd_dirs := [];
     sd_query := if sb_has_object T sb_str_Query then Some (mkcomp ODef sb_str_Query) else None;
     sd_mutation := if sb_has_object T sb_str_Mutation then Some (mkcomp ODef sb_str_Mutation) else None;
     sd_subscription := if sb_has_object T sb_str_Subscription then Some (mkcomp ODef sb_str_Subscription) else None |}.
Proof.
  unfold sb_add_implicit_roots, sb_empty_schema_def. cbn [fold_left].
  change sb_str_Query with (sb_default_type_name OpQuery).
  change sb_str_Mutation with (sb_default_type_name OpMutation).
  change sb_str_Subscription with (sb_default_type_name OpSubscription).
  destruct (sb_has_object T (sb_default_type_name OpQuery)); cbn beta iota;
  destruct (sb_has_object T (sb_default_type_name OpMutation)); cbn beta iota;
  destruct (sb_has_object T (sb_default_type_name OpSubscription)); reflexivity.
Qed.

Lemma sb_add_implicit_roots_none sd T :
  (forall op, sb_has_object T (sb_default_type_name op) = false) -> sb_add_implicit_roots sd T = (sd, false).
Proof.
  intros H. unfold sb_add_implicit_roots. cbn [fold_left].
  rewrite (H OpQuery). cbn beta iota. rewrite (H OpMutation). cbn beta iota. rewrite (H OpSubscription). reflexivity.
Qed.

Lemma sb_add_implicit_roots_has sd T :
  snd (sb_add_implicit_roots sd T) = false -> forall op, sb_has_object T (sb_default_type_name op) = false.
Proof.
  unfold sb_add_implicit_roots. cbn [fold_left].
  destruct (sb_has_object T (sb_default_type_name OpQuery)) eqn:E1; cbn beta iota;
  destruct (sb_has_object T (sb_default_type_name OpMutation)) eqn:E2; cbn beta iota;
  destruct (sb_has_object T (sb_default_type_name OpSubscription)) eqn:E3; cbn [snd]; try discriminate.
  intros _ [| |]; assumption.
Qed.

Lemma rb_root_origin_def sd (c : comp str) :
  ta_sd_extensions sd = [] -> In (c_origin c) (ta_sd_origins sd) -> c_origin c = ODef.
Proof.
  intros He Hin. destruct (c_origin c) as [|j]; [reflexivity|]. apply ta_ext_ids_In in Hin.
  unfold ta_sd_extensions in He. rewrite He in Hin. contradiction.
Qed.

(* ---------------------------------------------------------------- re-building the schema from its own to_ast *)
Lemma sb_build_unfold cfg b0 doc :
  sb_build cfg b0 doc = sb_build_inner cfg (fold_left (sb_add_def cfg) doc (sb_init b0)).
Proof. reflexivity. Qed.

Lemma rb_build_inner_found cfg st :
  sbs_found st = true -> sbs_orphans st = [] ->
  sb_build_inner cfg st =
  SbBuilt {| sch_def := sbs_def st; sch_dirdefs := sbs_dirdefs st; sch_types := sbs_types st |} (sbs_errs st).
Proof.
  intros Hf Ho. unfold sb_build_inner. rewrite Ho, Hf. destruct (sbc_adopt cfg); cbn; rewrite app_nil_r; reflexivity.
Qed.

(* explicit schema definition *)
Lemma rb_rebuild_explicit cfg b0 s :
  rb_wf cfg b0 s -> ta_sd_implicit (sch_def s) (sch_types s) = false ->
  exists rho, inj_on rho (ta_sd_extensions (sch_def s)) /\
  sb_build cfg b0 (sch_to_ast s) =
  SbBuilt {| sch_def := rn_sd rho (sch_def s); sch_dirdefs := sch_dirdefs s;
             sch_types := fst (rb_renumber (N.of_nat (length (ta_sd_extensions (sch_def s)))) (sch_types s)) |} [].
Proof.
  intros [Hb0 [HD [HT [Hdirs Horph]]]] Himp.
  set (sd := sch_def s) in *. set (disc := ta_sd_extensions sd).
  exists (rb_rho 0 disc). split; [apply rb_rho_inj|].
  rewrite sb_build_unfold, sch_to_ast_eq, ta_sd_to_ast_eq. fold sd. rewrite Himp.
  rewrite fold_left_app. cbn [app fold_left].
  (* the schema definition *)
  unfold sb_init at 1. cbn [sb_add_def sbs_found sbs_next sbs_orphan_sx sbs_errs sbs_def sbs_dirdefs sbs_types sbs_orphans].
  rewrite (rb_sd_start (rb_rho 0 disc) sd). cbn [sb_extend_schema_def_all app].
  (* its extensions *)
  pose proof (rb_sd_all 0 sd disc [] (ta_ext_ids_NoDup _)) as Hall. cbn [app length N.of_nat] in Hall. rewrite N.add_0_r in Hall.
  fold disc in Hall.
  erewrite (rb_fold_sx_found cfg); [|reflexivity|cbn [sbs_next sbs_def]; exact Hall].
  unfold rb_set_sd. cbn [sbs_def sbs_dirdefs sbs_types sbs_found sbs_orphan_sx sbs_orphans sbs_next sbs_errs].
  unfold disc at 2. rewrite (rb_sd_partial_full _ sd Hdirs).
  (* directive definitions and types *)
  rewrite (rb_phases cfg b0 s); try reflexivity; try assumption.
  rewrite rb_build_inner_found by reflexivity.
  cbn [sbs_def sbs_dirdefs sbs_types sbs_found sbs_orphan_sx sbs_orphans sbs_next sbs_errs]. rewrite N.add_0_l.
  reflexivity.
Qed.

Lemma ta_is_nil_true {A} (l : list A) : ta_is_nil l = true -> l = [].
Proof. destruct l; [reflexivity|discriminate]. Qed.
Lemma ta_is_none_true {A} (o : option A) : ta_is_none o = true -> o = None.
Proof. destruct o; [discriminate|reflexivity]. Qed.

(* implicit schema definition with default-named root types *)
Lemma rb_rebuild_implicit_roots cfg b0 s :
  rb_wf cfg b0 s -> ta_sd_implicit (sch_def s) (sch_types s) = true -> ta_root_ops (sch_def s) None <> [] ->
  sb_build cfg b0 (sch_to_ast s) =
  SbBuilt {| sch_def := sch_def s; sch_dirdefs := sch_dirdefs s; sch_types := fst (rb_renumber 0 (sch_types s)) |} [].
Proof.
  intros [Hb0 [HD [HT [Hdirs Horph]]]] Himp Hroots.
  set (sd := sch_def s) in *. set (T := sch_types s) in *.
  pose proof Himp as Himp'. unfold ta_sd_implicit in Himp'.
  destruct (ta_is_nil (ta_root_ops sd None)) eqn:Enil; [apply ta_is_nil_true in Enil; contradiction|].
  repeat (apply andb_true_iff in Himp'; destruct Himp' as [Himp' ?]).
  apply ta_is_none_true in Himp'.
  match goal with H : ta_is_nil (sd_dirs sd) = true |- _ => apply ta_is_nil_true in H; rename H into Hd end.
  match goal with H : ta_is_nil (ta_sd_extensions sd) = true |- _ => apply ta_is_nil_true in H; rename H into He end.
  rewrite sb_build_unfold, sch_to_ast_eq, ta_sd_to_ast_eq. fold sd T. rewrite Himp, He. cbn [map app].
  rewrite (rb_phases cfg b0 s); try reflexivity; try assumption.
  set (T' := fst (rb_renumber (sbs_next (sb_init b0)) (sch_types s))).
  assert (HT' : forall n, sb_has_object T' n = sb_has_object T n) by (intros n; apply rb_renumber_has_object).
  assert (Hsd : fst (sb_add_implicit_roots sb_empty_schema_def T') = sd).
  { rewrite sb_add_implicit_roots_empty, !HT'.
    destruct sd as [d dirs q m su]. cbn [sd_desc sd_dirs sd_query sd_mutation sd_subscription] in *. subst d dirs.
    unfold ta_root_matches_implicit in *. cbn [sb_default_type_name] in *.
    assert (Ho : forall c : option (comp str), incl (ta_opt_origin c) (ta_sd_origins {| sd_desc := None; sd_dirs := []; sd_query := q; sd_mutation := m; sd_subscription := su |}) ->
                 forall dn, ta_opt_streq (option_map c_val c) (if sb_has_object T dn then Some dn else None) = true ->
                 c = if sb_has_object T dn then Some (mkcomp ODef dn) else None).
    { intros [c|] Hc dn Hm; cbn in Hm; destruct (sb_has_object T dn); try discriminate; try reflexivity.
      apply streq_eq in Hm. assert (c_origin c = ODef).
      { eapply rb_root_origin_def; [exact He|]. apply Hc. cbn. left. reflexivity. }
      destruct c as [o v]. cbn in *. subst. reflexivity. }
    f_equal; symmetry; apply Ho; try assumption; unfold ta_sd_origins; cbn [sd_dirs sd_query sd_mutation sd_subscription ta_origins map app];
      intros o Hin; rewrite ?in_app_iff; auto. }
  unfold sb_build_inner. cbn [sbs_orphans sbs_types sbs_next sbs_found sbs_errs sbs_def sbs_orphan_sx sbs_dirdefs sb_init].
  rewrite Hb0. fold T'.
  destruct (sbc_adopt cfg); cbn [sb_adopt_all sb_all_orphan_errors sb_extend_schema_def_all app].
  - cbn [sb_roots_all_none sb_empty_schema_def sd_query sd_mutation sd_subscription]. rewrite Hsd. reflexivity.
  - destruct (sb_add_implicit_roots sb_empty_schema_def T') as [sd1 has] eqn:E. cbn [fst] in Hsd. subst sd1.
    destruct has; cbn [sb_extend_schema_def_all map app]; reflexivity.
Qed.

Lemma sb_roots_all_none_rn f sd : sb_roots_all_none (rn_sd f sd) = sb_roots_all_none sd.
Proof. destruct sd as [d dirs [q|] [m|] [s|]]; reflexivity. Qed.

(* no root operation comes from the definition: only extensions are emitted (adopt_orphan_extensions),
   or there is nothing at all *)
Lemma rb_rebuild_orphan cfg b0 s :
  rb_wf cfg b0 s -> ta_root_ops (sch_def s) None = [] ->
  exists rho, inj_on rho (ta_sd_extensions (sch_def s)) /\
  sb_build cfg b0 (sch_to_ast s) =
  SbBuilt {| sch_def := rn_sd rho (sch_def s); sch_dirdefs := sch_dirdefs s;
             sch_types := fst (rb_renumber 0 (sch_types s)) |} [].
Proof.
  intros [Hb0 [HD [HT [Hdirs Horph]]]] Hroots.
  set (sd := sch_def s) in *. set (T := sch_types s) in *. set (disc := ta_sd_extensions sd).
  destruct (Horph Hroots) as [Hdesc [Hnodef [Hnone Hnonadopt]]].
  assert (Himp : ta_sd_implicit sd T = true) by (unfold ta_sd_implicit; rewrite Hroots; reflexivity).
  set (n' := snd (rb_renumber 0 T)).
  exists (rb_rho n' disc). split; [apply rb_rho_inj|].
  rewrite sb_build_unfold, sch_to_ast_eq, ta_sd_to_ast_eq. fold sd T. rewrite Himp. cbn [app].
  rewrite fold_left_app. rewrite rb_fold_sx_orphan by reflexivity.
  rewrite (rb_phases cfg b0 s); try reflexivity; try assumption.
  unfold rb_set_sd. cbn [sbs_def sbs_dirdefs sbs_types sbs_found sbs_orphan_sx sbs_orphans sbs_next sbs_errs sb_init app].
  fold T n'. set (T' := fst (rb_renumber 0 T)).
  assert (HT' : forall n, sb_has_object T' n = sb_has_object T n) by (intros n; apply rb_renumber_has_object).
  unfold sb_build_inner. cbn [sbs_orphans sbs_types sbs_next sbs_found sbs_errs sbs_def sbs_orphan_sx sbs_dirdefs].
  rewrite Hb0.
  pose proof (rb_sd_all n' sd disc [] (ta_ext_ids_NoDup _)) as Hall. cbn [app length N.of_nat] in Hall.
  rewrite N.add_0_r in Hall. fold disc in Hall.
  rewrite (rb_sd_start_orphan _ sd Hdesc Hnodef Hroots) in Hall.
  unfold disc in Hall at 3. rewrite (rb_sd_partial_full _ sd Hdirs) in Hall. fold disc in Hall.
  destruct (sbc_adopt cfg) eqn:Eadopt; cbn [sb_adopt_all sb_all_orphan_errors app].
  - fold disc. rewrite Hall. rewrite sb_roots_all_none_rn.
    destruct (sb_roots_all_none sd) eqn:Enone; [|reflexivity].
    rewrite sb_add_implicit_roots_none; [reflexivity|]. intros op. rewrite HT'. apply Hnone. reflexivity.
  - assert (Hdisc : disc = []) by (apply Hnonadopt; reflexivity).
    fold disc. rewrite Hdisc in *. cbn [map sb_extend_schema_def_all] in *. pose proof (f_equal (fun p => fst (fst p)) Hall) as Hsd. cbn [fst] in Hsd.
    assert (Hallnone : sb_roots_all_none sd = true).
    { pose proof (sb_roots_all_none_rn (rb_rho n' []) sd) as Hrn. rewrite <- Hsd in Hrn. symmetry. exact Hrn. }
    rewrite sb_add_implicit_roots_none by (intros op; rewrite HT'; apply Hnone, Hallnone).
    cbn [map app]. rewrite <- Hsd. reflexivity.
Qed.

Lemma rb_final s sd' n :
  cn_sd sd' = cn_sd (sch_def s) -> (forall X, ta_sd_to_ast sd' X = ta_sd_to_ast (sch_def s) X) ->
  let s' := {| sch_def := sd'; sch_dirdefs := sch_dirdefs s; sch_types := fst (rb_renumber n (sch_types s)) |} in
  sch_equiv s' s /\ sch_to_ast s' = sch_to_ast s.
Proof.
  intros Hcn Hast s'. split.
  - unfold sch_equiv, sch_canon, s'. cbn [sch_def sch_dirdefs sch_types]. rewrite Hcn, rb_renumber_canon. reflexivity.
  - rewrite !sch_to_ast_eq. unfold s'. cbn [sch_def sch_dirdefs sch_types]. rewrite Hast.
    rewrite (ta_sd_to_ast_types_ext _ (sch_types s) (fst (rb_renumber n (sch_types s)))) by (intros x; apply rb_renumber_has_object).
    rewrite (rb_type_docs_map (sch_types s) _ (rb_renumber_to_ast (sch_types s) n)). reflexivity.
Qed.

Theorem rb_rebuild cfg b0 s :
  rb_wf cfg b0 s ->
  exists s', sb_build cfg b0 (sch_to_ast s) = SbBuilt s' [] /\ sch_equiv s' s /\ sch_to_ast s' = sch_to_ast s.
Proof.
  intros Hwf. destruct (ta_sd_implicit (sch_def s) (sch_types s)) eqn:Himp.
  - destruct (ta_root_ops (sch_def s) None) as [|r rs] eqn:Hroots.
    + destruct (rb_rebuild_orphan cfg b0 s Hwf Hroots) as [rho [Hinj Hb]]. eexists. split; [exact Hb|].
      apply rb_final; [apply cn_sd_rn, Hinj|intros X; apply ta_sd_to_ast_rn, Hinj].
    + eexists. split; [apply rb_rebuild_implicit_roots; [exact Hwf|exact Himp|rewrite Hroots; discriminate]|].
      apply rb_final; reflexivity.
  - destruct (rb_rebuild_explicit cfg b0 s Hwf Himp) as [rho [Hinj Hb]]. eexists. split; [exact Hb|].
    apply rb_final; [apply cn_sd_rn, Hinj|intros X; apply ta_sd_to_ast_rn, Hinj].
Qed.
