(* The literal model of FindRecursiveInputValue (Schema/Cycles.v) finds exactly the cycles of the
   declarative statement CsNNPath (Schema/Consistent.v), for chains within the recursion limit. *)
From ApolloVerif Require Import Base.Chars Ast.Ast Schema.Model Schema.Consistent Schema.Cycles.
From Coq Require Import Relations.

Lemma cy_mem_In x l : cy_mem x l = true <-> In x l.
Proof.
  unfold cy_mem. rewrite existsb_exists. split.
  - intros [y [Hin Heq]]. apply streq_eq in Heq. now subst.
  - intros Hin. exists x. split; [assumption|apply streq_refl].
Qed.

(* ---------------------------------------------------------------- unfolding the nested loop *)

Definition cy_field_res (s : schema) (limit k : nat) (seen : list str) (f : inputvaldef) : cy_res :=
  match iv_ty f with
  | TNonNullNamed name =>
      if negb (cy_mem name seen) then
        match cy_get_input_object s name with
        | Some fields' =>
            if Nat.ltb limit (length (seen ++ [name])) then CyLimit
            else cy_input_fields s limit k (seen ++ [name]) fields'
        | None => CyOk
        end
      else if cy_first_is seen name then CyRecursed else CyOk
  | _ => CyOk
  end.

Fixpoint cy_loop (s : schema) (limit k : nat) (seen : list str) (fs : list inputvaldef) : cy_res :=
  match fs with
  | [] => CyOk
  | f :: r => match cy_field_res s limit k seen f with
              | CyOk => cy_loop s limit k seen r
              | CyRecursed => CyRecursed | CyLimit => CyLimit | CyFuel => CyFuel
              end
  end.

Lemma cy_input_fields_S s limit k seen fs :
  cy_input_fields s limit (S k) seen fs = cy_loop s limit k seen fs.
Proof.
  induction fs as [|f r IH]; [reflexivity|].
  cbn [cy_loop]. rewrite <- IH. reflexivity.
Qed.

(* ---------------------------------------------------------------- the step relation on the real type map *)

Definition cy_step (s : schema) (a b : str) : Prop :=
  exists fsa f fsb, cy_get_input_object s a = Some fsa /\ In f fsa /\ iv_ty f = TNonNullNamed b
                    /\ cy_get_input_object s b = Some fsb.

Lemma cy_get_input_object_resolves s n fs :
  cy_get_input_object s n = Some fs <->
  exists t, CsResolves s n t /\ CsInputObject t /\ cs_input_fields_of t = fs.
Proof.
  unfold cy_get_input_object, CsResolves. split.
  - destruct (sch_get_type s n) as [t|] eqn:Hg; [|discriminate].
    destruct t; try discriminate. intros [= <-]. eexists. split; [left; reflexivity|]. split; [exact I|reflexivity].
  - intros [t [[Hr|[_ [_ ->]]] [Hk Hf]]]; [|contradiction].
    rewrite Hr. destruct t; cbn in Hk; try contradiction. cbn in Hf. now rewrite Hf.
Qed.

Lemma cy_step_spec s a b : cy_step s a b <-> CsNNStep s a b.
Proof.
  unfold cy_step, CsNNStep. split.
  - intros [fsa [f [fsb [Ha [Hf [Hty Hb]]]]]].
    apply cy_get_input_object_resolves in Ha, Hb.
    destruct Ha as [ta [Hra [_ Hfa]]], Hb as [tb [Hrb [Hkb _]]].
    exists ta, tb, f. rewrite Hfa. auto.
  - intros [ta [tb [f [Hra [Hf [Hty [Hrb Hkb]]]]]]].
    assert (Hka : CsInputObject ta) by (destruct ta; cbn in Hf; try contradiction; exact I).
    exists (cs_input_fields_of ta), f, (cs_input_fields_of tb). split.
    + apply cy_get_input_object_resolves. exists ta. auto.
    + split; [assumption|]. split; [assumption|]. apply cy_get_input_object_resolves. exists tb. auto.
Qed.

(* ---------------------------------------------------------------- soundness: Recursed -> a cycle through the root *)

Lemma cy_first_is_spec root rest n : cy_first_is (root :: rest) n = true <-> root = n.
Proof. cbn. apply streq_eq. Qed.

Lemma cy_sound s limit root : forall fuel rest cur fs,
  clos_refl_trans str (cy_step s) root cur ->
  (exists fs0, cy_get_input_object s cur = Some fs0 /\ incl fs fs0) ->
  (exists fsr, cy_get_input_object s root = Some fsr) ->
  cy_input_fields s limit fuel (root :: rest) fs = CyRecursed ->
  clos_trans str (cy_step s) root root.
Proof.
  induction fuel as [|k IHk]; intros rest cur fs Hpath Hcur Hroot; [discriminate|].
  rewrite cy_input_fields_S. induction fs as [|f r IHr]; [discriminate|].
  cbn [cy_loop]. destruct Hcur as [fs0 [Hget Hincl]].
  assert (Hf0 : In f fs0) by (apply Hincl; now left).
  assert (Hr0 : incl r fs0) by (intros x Hx; apply Hincl; now right).
  destruct (cy_field_res s limit k (root :: rest) f) eqn:Hres.
  - apply IHr. exists fs0. auto.
  - intros _. clear IHr. unfold cy_field_res in Hres.
    destruct (iv_ty f) as [|name| |] eqn:Hty; try discriminate.
    destruct (negb (cy_mem name (root :: rest))) eqn:Hmem.
    + destruct (cy_get_input_object s name) as [fields'|] eqn:Hgn; [|discriminate].
      destruct (Nat.ltb limit (length ((root :: rest) ++ [name]))); [discriminate|].
      change ((root :: rest) ++ [name]) with (root :: (rest ++ [name])) in Hres.
      apply (IHk (rest ++ [name]) name fields'); try assumption.
      * eapply rt_trans; [exact Hpath|]. apply rt_step. exists fs0, f, fields'. auto.
      * exists fields'. split; [assumption|apply incl_refl].
    + destruct (cy_first_is (root :: rest) name) eqn:Hfirst; [|discriminate].
      apply cy_first_is_spec in Hfirst. subst name. destruct Hroot as [fsr Hroot].
      assert (Hstep : cy_step s cur root) by (exists fs0, f, fsr; auto).
      apply clos_rt_rtn1 in Hpath. clear -Hpath Hstep.
      apply clos_rt_t with cur; [now apply clos_rtn1_rt|now apply t_step].
  - discriminate.
  - discriminate.
Qed.

(* ---------------------------------------------------------------- fuel is enough *)

Lemma cy_fuel_enough s limit : forall fuel seen fs,
  fuel <> O -> (limit + 2 <= fuel + length seen)%nat -> cy_input_fields s limit fuel seen fs <> CyFuel.
Proof.
  induction fuel as [|k IHk]; intros seen fs Hne Hsum; [congruence|].
  rewrite cy_input_fields_S. induction fs as [|f r IHr]; [discriminate|].
  cbn [cy_loop]. destruct (cy_field_res s limit k seen f) eqn:Hres; try discriminate; [exact IHr|].
  exfalso. unfold cy_field_res in Hres.
  destruct (iv_ty f) as [|name| |]; try discriminate.
  destruct (negb (cy_mem name seen)).
  - destruct (cy_get_input_object s name) as [fields'|]; [|discriminate].
    destruct (Nat.ltb limit (length (seen ++ [name]))) eqn:Hlt; [discriminate|].
    apply PeanoNat.Nat.ltb_ge in Hlt. rewrite app_length in *. cbn [length] in *.
    revert Hres. apply IHk; rewrite ?app_length; cbn [length]; lia.
  - destruct (cy_first_is seen name); discriminate.
Qed.

(* ---------------------------------------------------------------- chains and simple chains *)

Inductive cy_chain (s : schema) : str -> list str -> str -> Prop :=
| cy_chain_one a b : cy_step s a b -> cy_chain s a [] b
| cy_chain_cons a c l b : cy_step s a c -> cy_chain s c l b -> cy_chain s a (c :: l) b.

Lemma cy_clos_chain s a b : clos_trans str (cy_step s) a b -> exists l, cy_chain s a l b.
Proof.
  intros H. apply clos_trans_t1n in H. induction H as [a b H|a c b H _ [l IH]].
  - exists []. now constructor.
  - exists (c :: l). now constructor.
Qed.

Lemma cy_chain_clos s a l b : cy_chain s a l b -> clos_trans str (cy_step s) a b.
Proof. induction 1; [now apply t_step|eapply t_trans; [apply t_step; eassumption|assumption]]. Qed.

Lemma cy_chain_suffix s a q b : forall p c l,
  cy_chain s c l b -> c :: l = p ++ a :: q -> cy_chain s a q b.
Proof.
  induction p as [|x p IH]; intros c l Hc Heq.
  - cbn in Heq. injection Heq as -> ->. exact Hc.
  - cbn in Heq. injection Heq as -> Hl. inversion Hc as [? ? Hs|? c' l' ? Hs Hc']; subst.
    + destruct p; discriminate.
    + eapply IH; [exact Hc'|eassumption].
Qed.

Lemma NoDup_app_r {A : Type} (l l' : list A) : NoDup (l ++ l') -> NoDup l'.
Proof.
  induction l as [|x l IH]; cbn; [auto|]. intros H. inversion H; subst. auto.
Qed.

Definition str_eq_dec : forall a b : str, {a = b} + {a <> b} := list_eq_dec N.eq_dec.

Lemma cy_chain_simple s a l b :
  cy_chain s a l b -> exists l', cy_chain s a l' b /\ NoDup (a :: l') /\ ~ In b l'.
Proof.
  induction 1 as [a b Hs|a c l b Hs _ [l1 [Hc [Hnd Hnb]]]].
  - exists []. split; [now constructor|]. split; [constructor; [intros []|constructor]|intros []].
  - destruct (str_eq_dec c b) as [->|Hcb].
    + exists []. split; [now constructor|]. split; [constructor; [intros []|constructor]|intros []].
    + destruct (in_dec str_eq_dec a (c :: l1)) as [Hin|Hnin].
      * apply in_split in Hin. destruct Hin as [p [q Heq]]. exists q.
        split; [exact (cy_chain_suffix s a q b p c l1 Hc Heq)|]. split.
        -- rewrite Heq in Hnd. exact (NoDup_app_r p (a :: q) Hnd).
        -- intros Hbq. assert (Hb : In b (c :: l1)) by (rewrite Heq; apply in_or_app; right; now right).
           destruct Hb as [Hb|Hb]; [congruence|auto].
      * exists (c :: l1). split; [now constructor|]. split; [now constructor|].
        intros [Hb|Hb]; [congruence|auto].
Qed.

(* ---------------------------------------------------------------- completeness: Ok -> no cycle through the root *)

Lemma cy_complete s limit root : forall fuel rest fs,
  cy_input_fields s limit fuel (root :: rest) fs = CyOk ->
  forall f name, In f fs -> iv_ty f = TNonNullNamed name ->
    (exists fsn, cy_get_input_object s name = Some fsn) ->
    name <> root /\
    forall l, cy_chain s name l root -> NoDup (name :: l) ->
              (forall x, In x (name :: l) -> ~ In x (root :: rest)) -> False.
Proof.
  induction fuel as [|k IHk]; intros rest fs Hok; [discriminate|].
  rewrite cy_input_fields_S in Hok. induction fs as [|f0 r IHr]; intros f name Hin Hty Hget; [contradiction|].
  cbn [cy_loop] in Hok. destruct (cy_field_res s limit k (root :: rest) f0) eqn:Hres; try discriminate.
  destruct Hin as [->|Hin]; [|exact (IHr Hok f name Hin Hty Hget)].
  clear IHr Hok. unfold cy_field_res in Hres. rewrite Hty in Hres.
  destruct (negb (cy_mem name (root :: rest))) eqn:Hmem.
  - apply negb_true_iff in Hmem.
    assert (Hnin : ~ In name (root :: rest)).
    { intros Hc. apply cy_mem_In in Hc. congruence. }
    destruct Hget as [fsn Hget]. rewrite Hget in Hres.
    destruct (Nat.ltb limit (length ((root :: rest) ++ [name]))); [discriminate|].
    change ((root :: rest) ++ [name]) with (root :: (rest ++ [name])) in Hres.
    pose proof (IHk (rest ++ [name]) fsn Hres) as IH. split.
    + intros ->. apply Hnin. now left.
    + intros l Hc Hnd Havoid. inversion Hc as [? ? Hs|? c l' ? Hs Hc']; subst.
      * destruct Hs as [fsa [g [fsb [Ha [Hg [Hgt Hb]]]]]].
        assert (fsa = fsn) by congruence. subst fsa.
        destruct (IH g root Hg Hgt (ex_intro _ fsb Hb)) as [Hne _]. now apply Hne.
      * destruct Hs as [fsa [g [fsb [Ha [Hg [Hgt Hb]]]]]].
        assert (fsa = fsn) by congruence. subst fsa.
        destruct (IH g c Hg Hgt (ex_intro _ fsb Hb)) as [_ Hno].
        apply (Hno l' Hc').
        -- now inversion Hnd.
        -- intros x Hx Hxin. change (root :: rest ++ [name]) with ((root :: rest) ++ [name]) in Hxin.
           apply in_app_or in Hxin. destruct Hxin as [Hxin|[<-|[]]].
           ++ apply (Havoid x); [now right|assumption].
           ++ inversion Hnd as [|? ? Hnn _]; subst. now apply Hnn.
  - apply negb_false_iff in Hmem. destruct (cy_first_is (root :: rest) name) eqn:Hfirst; [discriminate|].
    split.
    + intros ->. cbn in Hfirst. rewrite streq_refl in Hfirst. discriminate.
    + intros l _ _ Havoid. apply (Havoid name); [now left|]. now apply cy_mem_In.
Qed.

(* ---------------------------------------------------------------- the theorem *)

Theorem cy_input_check_correct s limit root fs :
  cy_get_input_object s root = Some fs ->
  cy_input_check_limit s limit root fs <> CyLimit ->
  (cy_input_check_limit s limit root fs = CyRecursed <-> clos_trans str (cy_step s) root root).
Proof.
  intros Hget Hlim. unfold cy_input_check_limit in *. split.
  - apply (cy_sound s limit root _ [] root fs).
    + apply rt_refl.
    + exists fs. split; [assumption|apply incl_refl].
    + now exists fs.
  - intros Hp.
    assert (Hfuel : cy_input_fields s limit (S (S limit)) [root] fs <> CyFuel).
    { apply cy_fuel_enough; [discriminate|cbn [length]; lia]. }
    destruct (cy_input_fields s limit (S (S limit)) [root] fs) eqn:Hres; try congruence.
    exfalso. destruct (cy_clos_chain _ _ _ Hp) as [l Hc].
    destruct (cy_chain_simple _ _ _ _ Hc) as [l' [Hc' [Hnd Hnr]]].
    inversion Hc' as [? ? Hs|? c l'' ? Hs Hc'']; subst.
    + destruct Hs as [fsa [g [fsb [Ha [Hg [Hgt Hb]]]]]]. assert (fsa = fs) by congruence. subst fsa.
      destruct (cy_complete s limit root _ [] fs Hres g root Hg Hgt (ex_intro _ fsb Hb)) as [Hne _].
      now apply Hne.
    + destruct Hs as [fsa [g [fsb [Ha [Hg [Hgt Hb]]]]]]. assert (fsa = fs) by congruence. subst fsa.
      destruct (cy_complete s limit root _ [] fs Hres g c Hg Hgt (ex_intro _ fsb Hb)) as [_ Hno].
      apply (Hno l'' Hc'').
      * now inversion Hnd.
      * intros x Hx [<-|[]]. inversion Hnd as [|? ? Hnn _]; subst. now apply Hnn.
Qed.

Lemma cy_clos_iff s a b : clos_trans str (cy_step s) a b <-> CsNNPath s a b.
Proof.
  unfold CsNNPath. split; intros H; induction H.
  - apply t_step. now apply cy_step_spec.
  - eapply t_trans; eassumption.
  - apply t_step. now apply cy_step_spec.
  - eapply t_trans; eassumption.
Qed.

(* C14_input_cycle *)
Theorem cy_find_recursive_input_spec s d n dirs fs b :
  sch_get_type s n = Some (EInput d n dirs fs b) ->
  cy_input_check s n (map c_val fs) <> CyLimit ->
  (cy_find_recursive_input s n (map c_val fs) = true <-> CsNNPath s n n).
Proof.
  intros Hg Hlim. rewrite <- cy_clos_iff.
  assert (Hget : cy_get_input_object s n = Some (map c_val fs)) by (unfold cy_get_input_object; now rewrite Hg).
  rewrite <- (cy_input_check_correct s cy_default_limit n (map c_val fs) Hget Hlim).
  unfold cy_find_recursive_input, cy_input_check.
  destruct (cy_input_check_limit s cy_default_limit n (map c_val fs)); split; congruence.
Qed.

(* and the search never runs out of fuel *)
Theorem cy_input_check_total s n fs : cy_input_check s n fs <> CyFuel.
Proof.
  unfold cy_input_check, cy_input_check_limit. apply cy_fuel_enough; [discriminate|cbn [length]; lia].
Qed.

(* ================================================================ FindRecursiveDirective: soundness
   Recursed -> the root directive definition references itself (CsRefPath). *)

Section DirSound.
  Context (s : schema) (limit : nat) (root : str).
  Hypothesis Hroot : exists def0, sch_find_dirdef root (sch_dirdefs s) = Some def0.

  Let Path := clos_refl_trans cs_node (CsRefStep s) (CsD root).
  Let Cycle := clos_trans cs_node (CsRefStep s) (CsD root) (CsD root).

  (* the input value definitions `ivs` belong to the node `cur` *)
  Definition cy_src (cur : cs_node) (ivs : list inputvaldef) : Prop :=
    match cur with
    | CsD d => exists def, sch_find_dirdef d (sch_dirdefs s) = Some def /\ incl ivs (dd_args def)
    | CsT n => exists t, CsResolves s n t /\ incl ivs (cs_input_fields_of t)
    end.

  Lemma cy_src_step cur ivs iv y : cy_src cur ivs -> In iv ivs -> CsIvdRefs s iv y -> CsRefStep s cur y.
  Proof.
    destruct cur as [d|n]; cbn [cy_src CsRefStep].
    - intros [def [Hf Hincl]] Hin Hr. exists def, iv. auto.
    - intros [t [Hr Hincl]] Hin Hy. exists t. split; [assumption|]. right. right. exists iv. auto.
  Qed.

  Definition cy_good_rec (rec : list str -> list str -> list inputvaldef -> cy_res) : Prop :=
    forall rest tg cur ivs, Path cur -> cy_src cur ivs -> rec (root :: rest) tg ivs = CyRecursed -> Cycle.

  Lemma cy_close cur : Path cur -> CsRefStep s cur (CsD root) -> Cycle.
  Proof.
    intros Hp Hs. unfold Path in Hp. apply clos_rt_rtn1 in Hp.
    apply clos_rt_t with cur; [now apply clos_rtn1_rt|now apply t_step].
  Qed.

  Section Level.
    Context (rec : list str -> list str -> list inputvaldef -> cy_res) (Hrec : cy_good_rec rec).

    Lemma cy_on_directive_sound rest tg cur d :
      Path cur ->
      (forall def, sch_find_dirdef (d_name d) (sch_dirdefs s) = Some def -> CsRefStep s cur (CsD (d_name d))) ->
      cy_on_directive s limit rec (root :: rest) tg d = CyRecursed -> Cycle.
    Proof.
      intros Hp Hstep. unfold cy_on_directive.
      destruct (negb (cy_mem (d_name d) (root :: rest))).
      - destruct (sch_find_dirdef (d_name d) (sch_dirdefs s)) as [def|] eqn:Hf; [|discriminate].
        destruct (Nat.ltb limit (length ((root :: rest) ++ [d_name d]))); [discriminate|].
        change ((root :: rest) ++ [d_name d]) with (root :: (rest ++ [d_name d])).
        apply (Hrec _ tg (CsD (d_name d))).
        + eapply rt_trans; [exact Hp|apply rt_step; now apply (Hstep def)].
        + cbn. exists def. split; [assumption|apply incl_refl].
      - destruct (cy_first_is (root :: rest) (d_name d)) eqn:Hfirst; [|discriminate].
        intros _. apply cy_first_is_spec in Hfirst. destruct Hroot as [def0 Hd0].
        apply (cy_close cur Hp). rewrite Hfirst. apply (Hstep def0). now rewrite <- Hfirst.
    Qed.

    Lemma cy_on_directives_sound rest tg cur l :
      Path cur ->
      (forall d def, In d l -> sch_find_dirdef (d_name d) (sch_dirdefs s) = Some def ->
                     CsRefStep s cur (CsD (d_name d))) ->
      cy_on_directives s limit rec (root :: rest) tg l = CyRecursed -> Cycle.
    Proof.
      intros Hp. induction l as [|d r IH]; intros Hstep; cbn [cy_on_directives]; [discriminate|].
      destruct (cy_on_directive s limit rec (root :: rest) tg d) eqn:Hd; try discriminate.
      - apply IH. intros d' def Hin. apply Hstep. now right.
      - intros _. apply (cy_on_directive_sound rest tg cur d Hp); [|exact Hd].
        intros def. apply Hstep. now left.
    Qed.

    Lemma cy_type_definition_sound rest tg n t :
      Path (CsT n) -> CsResolves s n t ->
      cy_type_definition s limit rec (root :: rest) tg t = CyRecursed -> Cycle.
    Proof.
      intros Hp Hr. unfold cy_type_definition.
      destruct (cy_on_directives s limit rec (root :: rest) tg (cy_type_dirs t)) eqn:Hd; try discriminate.
      - destruct t as [| | | |d0 n0 dirs vs b|d0 n0 dirs fs b]; try discriminate.
        + (* enum values *)
          assert (Hall : forall l, incl l vs ->
                   cy_on_enum_values s limit rec (root :: rest) tg l = CyRecursed -> Cycle).
          { induction l as [|v r IH]; intros Hincl; cbn [cy_on_enum_values]; [discriminate|].
            destruct (cy_on_directives s limit rec (root :: rest) tg (ev_dirs (c_val v))) eqn:Hv; try discriminate.
            - apply IH. intros x Hx. apply Hincl. now right.
            - intros _. apply (cy_on_directives_sound rest tg (CsT n) (ev_dirs (c_val v)) Hp); [|exact Hv].
              intros d def Hin Hf. cbn [CsRefStep]. eexists. split; [exact Hr|]. right. left.
              exists (c_val v), d. split; [cbn [cs_enum_values_of]; apply in_map; apply Hincl; now left|].
              split; [assumption|]. split; [reflexivity|]. now exists def. }
          apply Hall. apply incl_refl.
        + (* input fields *)
          apply (Hrec rest tg (CsT n)); [exact Hp|]. cbn. eexists. split; [exact Hr|]. apply incl_refl.
      - intros _. apply (cy_on_directives_sound rest tg (CsT n) (cy_type_dirs t) Hp); [|exact Hd].
        intros d def Hin Hf. cbn [CsRefStep]. exists t. split; [exact Hr|]. left.
        exists d. split; [|split; [reflexivity|now exists def]].
        destruct t; exact Hin.
    Qed.

    Lemma cy_on_type_sound rest tg cur ivs iv :
      Path cur -> cy_src cur ivs -> In iv ivs ->
      cy_on_type s limit rec (root :: rest) tg iv = CyRecursed -> Cycle.
    Proof.
      intros Hp Hsrc Hin. unfold cy_on_type.
      destruct (sch_get_type s (inner_named_type (iv_ty iv))) as [t|] eqn:Hg; [|discriminate].
      assert (Hr : CsResolves s (inner_named_type (iv_ty iv)) t) by now left.
      assert (Hp' : Path (CsT (inner_named_type (iv_ty iv)))).
      { eapply rt_trans; [exact Hp|]. apply rt_step. apply (cy_src_step cur ivs iv _ Hsrc Hin).
        right. split; [reflexivity|now exists t]. }
      destruct (cy_mem (et_name t) tg); [discriminate|].
      destruct (negb (et_builtin t)).
      - destruct (Nat.ltb limit (length (tg ++ [et_name t]))); [discriminate|].
        now apply cy_type_definition_sound with (n := inner_named_type (iv_ty iv)).
      - now apply cy_type_definition_sound with (n := inner_named_type (iv_ty iv)).
    Qed.

    Lemma cy_ivd_loop_sound rest tg cur ivs0 : Path cur -> cy_src cur ivs0 ->
      forall ivs, incl ivs ivs0 -> cy_ivd_loop s limit rec (root :: rest) tg ivs = CyRecursed -> Cycle.
    Proof.
      intros Hp Hsrc. induction ivs as [|iv r IH]; intros Hincl; cbn [cy_ivd_loop]; [discriminate|].
      assert (Hin : In iv ivs0) by (apply Hincl; now left).
      destruct (cy_on_directives s limit rec (root :: rest) tg (iv_dirs iv)) eqn:Hd; try discriminate.
      - destruct (cy_on_type s limit rec (root :: rest) tg iv) eqn:Ht; try discriminate.
        + apply IH. intros x Hx. apply Hincl. now right.
        + intros _. exact (cy_on_type_sound rest tg cur ivs0 iv Hp Hsrc Hin Ht).
      - intros _. apply (cy_on_directives_sound rest tg cur (iv_dirs iv) Hp); [|exact Hd].
        intros d def Hdin Hf. apply (cy_src_step cur ivs0 iv _ Hsrc Hin). left.
        exists d. split; [assumption|]. split; [reflexivity|now exists def].
    Qed.
  End Level.

  Lemma cy_dir_ivds_good fuel : cy_good_rec (cy_dir_ivds s limit fuel).
  Proof.
    induction fuel as [|k IH]; intros rest tg cur ivs Hp Hsrc; cbn [cy_dir_ivds]; [discriminate|].
    apply (cy_ivd_loop_sound _ IH rest tg cur ivs Hp Hsrc ivs). apply incl_refl.
  Qed.
End DirSound.

(* C14_directive_cycle, the direction that is proved: what the literal search reports is a cycle *)
Theorem cy_find_recursive_directive_sound s def :
  sch_find_dirdef (dd_name def) (sch_dirdefs s) = Some def ->
  cy_find_recursive_directive s def = true ->
  CsRefPath s (CsD (dd_name def)) (CsD (dd_name def)).
Proof.
  intros Hf. unfold cy_find_recursive_directive, cy_dir_check, cy_dir_check_limit.
  destruct (cy_dir_ivds s cy_default_limit (cy_default_limit + cy_default_limit + 3) [dd_name def] []
              (dd_args def)) eqn:Hres; try discriminate.
  intros _. unfold CsRefPath.
  apply (cy_dir_ivds_good s cy_default_limit (dd_name def) (ex_intro _ def Hf)
           (cy_default_limit + cy_default_limit + 3)%nat [] [] (CsD (dd_name def))
           (dd_args def)); [apply rt_refl| |exact Hres].
  cbn. exists def. split; [assumption|apply incl_refl].
Qed.
