(* The literal model of FindRecursiveInputValue (Schema/Cycles.v) finds exactly the cycles of the
   declarative statement CsNNPath (Schema/Consistent.v), for chains within the recursion limit. *)
From ApolloVerif Require Import Base.Chars Ast.Ast Schema.Model Schema.Consistent Schema.Cycles.
From Coq Require Import Relations.

Lemma cy_mem_In x l : cy_mem x l = true <-> In x l.
Proof.
  unfold cy_mem. rewrite existsb_exists. split.
  - intros [y [Hin Heq]]. apply streq_eq in Heq. now subst.
  - intros Hin. exists x. split; [assumption|apply streq_refl].
Qed.

(* ---------------------------------------------------------------- unfolding the nested loop *)

Definition cy_field_res (s : schema) (limit k : nat) (seen : list str) (f : inputvaldef) : cy_res :=
  match iv_ty f with
  | TNonNullNamed name =>
      if negb (cy_mem name seen) then
        match cy_get_input_object s name with
        | Some fields' =>
            if Nat.ltb limit (length (seen ++ [name])) then CyLimit
            else cy_input_fields s limit k (seen ++ [name]) fields'
        | None => CyOk
        end
      else if cy_first_is seen name then CyRecursed else CyOk
  | _ => CyOk
  end.

Fixpoint cy_loop (s : schema) (limit k : nat) (seen : list str) (fs : list inputvaldef) : cy_res :=
  match fs with
  | [] => CyOk
  | f :: r => match cy_field_res s limit k seen f with
              | CyOk => cy_loop s limit k seen r
              | CyRecursed => CyRecursed | CyLimit => CyLimit | CyFuel => CyFuel
              end
  end.

Lemma cy_input_fields_S s limit k seen fs :
  cy_input_fields s limit (S k) seen fs = cy_loop s limit k seen fs.
Proof.
  induction fs as [|f r IH]; [reflexivity|].
  cbn [cy_loop]. rewrite <- IH. reflexivity.
Qed.

(* ---------------------------------------------------------------- the step relation on the real type map *)

Definition cy_step (s : schema) (a b : str) : Prop :=
  exists fsa f fsb, cy_get_input_object s a = Some fsa /\ In f fsa /\ iv_ty f = TNonNullNamed b
                    /\ cy_get_input_object s b = Some fsb.

Lemma cy_get_input_object_resolves s n fs :
  cy_get_input_object s n = Some fs <->
  exists t, CsResolves s n t /\ CsInputObject t /\ cs_input_fields_of t = fs.
Proof.
  unfold cy_get_input_object, CsResolves. split.
  - destruct (sch_get_type s n) as [t|] eqn:Hg; [|discriminate].
    destruct t; try discriminate. intros [= <-]. eexists. split; [left; reflexivity|]. split; [exact I|reflexivity].
  - intros [t [[Hr|[_ [_ ->]]] [Hk Hf]]]; [|contradiction].
    rewrite Hr. destruct t; cbn in Hk; try contradiction. cbn in Hf. now rewrite Hf.
Qed.

Lemma cy_step_spec s a b : cy_step s a b <-> CsNNStep s a b.
Proof.
  unfold cy_step, CsNNStep. split.
  - intros [fsa [f [fsb [Ha [Hf [Hty Hb]]]]]].
    apply cy_get_input_object_resolves in Ha, Hb.
    destruct Ha as [ta [Hra [_ Hfa]]], Hb as [tb [Hrb [Hkb _]]].
    exists ta, tb, f. rewrite Hfa. auto.
  - intros [ta [tb [f [Hra [Hf [Hty [Hrb Hkb]]]]]]].
    assert (Hka : CsInputObject ta) by (destruct ta; cbn in Hf; try contradiction; exact I).
    exists (cs_input_fields_of ta), f, (cs_input_fields_of tb). split.
    + apply cy_get_input_object_resolves. exists ta. auto.
    + split; [assumption|]. split; [assumption|]. apply cy_get_input_object_resolves. exists tb. auto.
Qed.

(* ---------------------------------------------------------------- soundness: Recursed -> a cycle through the root *)

Lemma cy_first_is_spec root rest n : cy_first_is (root :: rest) n = true <-> root = n.
Proof. cbn. apply streq_eq. Qed.

Lemma cy_sound s limit root : forall fuel rest cur fs,
  clos_refl_trans str (cy_step s) root cur ->
  (exists fs0, cy_get_input_object s cur = Some fs0 /\ incl fs fs0) ->
  (exists fsr, cy_get_input_object s root = Some fsr) ->
  cy_input_fields s limit fuel (root :: rest) fs = CyRecursed ->
  clos_trans str (cy_step s) root root.
Proof.
  induction fuel as [|k IHk]; intros rest cur fs Hpath Hcur Hroot; [discriminate|].
  rewrite cy_input_fields_S. induction fs as [|f r IHr]; [discriminate|].
  cbn [cy_loop]. destruct Hcur as [fs0 [Hget Hincl]].
  assert (Hf0 : In f fs0) by (apply Hincl; now left).
  assert (Hr0 : incl r fs0) by (intros x Hx; apply Hincl; now right).
  destruct (cy_field_res s limit k (root :: rest) f) eqn:Hres.
  - apply IHr. exists fs0. auto.
  - intros _. clear IHr. unfold cy_field_res in Hres.
    destruct (iv_ty f) as [|name| |] eqn:Hty; try discriminate.
    destruct (negb (cy_mem name (root :: rest))) eqn:Hmem.
    + destruct (cy_get_input_object s name) as [fields'|] eqn:Hgn; [|discriminate].
      destruct (Nat.ltb limit (length ((root :: rest) ++ [name]))); [discriminate|].
      change ((root :: rest) ++ [name]) with (root :: (rest ++ [name])) in Hres.
      apply (IHk (rest ++ [name]) name fields'); try assumption.
      * eapply rt_trans; [exact Hpath|]. apply rt_step. exists fs0, f, fields'. auto.
      * exists fields'. split; [assumption|apply incl_refl].
    + destruct (cy_first_is (root :: rest) name) eqn:Hfirst; [|discriminate].
      apply cy_first_is_spec in Hfirst. subst name. destruct Hroot as [fsr Hroot].
      assert (Hstep : cy_step s cur root) by (exists fs0, f, fsr; auto).
      apply clos_rt_rtn1 in Hpath. clear -Hpath Hstep.
      apply clos_rt_t with cur; [now apply clos_rtn1_rt|now apply t_step].
  - discriminate.
  - discriminate.
Qed.

(* ---------------------------------------------------------------- fuel is enough *)

Lemma cy_fuel_enough s limit : forall fuel seen fs,
  fuel <> O -> (limit + 2 <= fuel + length seen)%nat -> cy_input_fields s limit fuel seen fs <> CyFuel.
Proof.
  induction fuel as [|k IHk]; intros seen fs Hne Hsum; [congruence|].
  rewrite cy_input_fields_S. induction fs as [|f r IHr]; [discriminate|].
  cbn [cy_loop]. destruct (cy_field_res s limit k seen f) eqn:Hres; try discriminate; [exact IHr|].
  exfalso. unfold cy_field_res in Hres.
  destruct (iv_ty f) as [|name| |]; try discriminate.
  destruct (negb (cy_mem name seen)).
  - destruct (cy_get_input_object s name) as [fields'|]; [|discriminate].
    destruct (Nat.ltb limit (length (seen ++ [name]))) eqn:Hlt; [discriminate|].
    apply PeanoNat.Nat.ltb_ge in Hlt. rewrite app_length in *. cbn [length] in *.
    revert Hres. apply IHk; rewrite ?app_length; cbn [length]; lia.
  - destruct (cy_first_is seen name); discriminate.
Qed.
