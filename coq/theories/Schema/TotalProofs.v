(* The builder model never reaches a panic: the `assert!(previous.is_none())`, `extensions[0]`,
   `unreachable!()` and `ext.name().unwrap()` of build_inner / adopt_type_extensions (from_ast.rs) are
   unreachable, because a queue of orphan extensions is never empty, holds only type extensions of the
   queue's name, and exists only for names that are not defined. *)
From ApolloVerif Require Import Base.Chars Ast.Ast Schema.Model Schema.Build Schema.ToAst Schema.Canon
  Schema.BuildProofs Schema.CanonProofs Schema.RebuildProofs Schema.InvProofs.

Definition tp_queue_ok (types : list ext_type) (p : str * list definition) : Prop :=
  snd p <> [] /\ Forall (fun x => sb_ext_name x = Some (fst p)) (snd p) /\ sch_find_type (fst p) types = None.

Definition tp_orphans_ok (types : list ext_type) (q : list (str * list definition)) : Prop :=
  NoDup (map fst q) /\ Forall (tp_queue_ok types) q.

Lemma tp_push types n x q :
  tp_orphans_ok types q -> sb_ext_name x = Some n -> sch_find_type n types = None ->
  tp_orphans_ok types (sb_orphan_push n x q).
Proof.
  intros [Hnd Hq] Hx Hf. induction q as [|[k l] q IH]; cbn [sb_orphan_push].
  - split; [constructor; [tauto|constructor]|]. constructor; [|constructor]. split; [discriminate|]. split; [constructor; [exact Hx|constructor]|exact Hf].
  - inversion Hnd as [|? ? Hk Hnd']; subst. inversion Hq as [|? ? Hkl Hq']; subst. destruct (streq n k) eqn:E.
    + apply streq_eq in E. subst k. split; [exact Hnd|]. constructor; [|exact Hq'].
      destruct Hkl as [H1 [H2 H3]]. cbn [fst snd] in *. split; [destruct l; discriminate|]. split; [|exact H3].
      apply Forall_app. split; [exact H2|constructor; [exact Hx|constructor]].
    + destruct (IH Hnd' Hq') as [IH1 IH2]. split.
      * cbn [map fst]. constructor; [|exact IH1]. intros Hin. apply Hk.
        clear -Hin E. induction q as [|[k' l'] q IHq]; cbn [sb_orphan_push map fst] in *.
        -- destruct Hin as [Hin|[]]. subst. rewrite streq_refl in E. discriminate.
        -- destruct (streq n k') eqn:E'; cbn [map fst] in *; [exact Hin|]. destruct Hin as [Hin|Hin]; [left; exact Hin|right; apply IHq, Hin].
      * constructor; assumption.
Qed.

Lemma tp_take types n q l q' :
  tp_orphans_ok types q -> sb_orphan_take n q = (l, q') ->
  tp_orphans_ok types q' /\ ~ In n (map fst q').
Proof.
  intros [Hnd Hq]. revert l q'. induction q as [|[k l0] q IH]; intros l q'; cbn [sb_orphan_take].
  - intros [= <- <-]. split; [split; constructor|cbn; tauto].
  - inversion Hnd as [|? ? Hk Hnd']; subst. inversion Hq as [|? ? Hkl Hq']; subst. destruct (streq n k) eqn:E.
    + intros [= <- <-]. apply streq_eq in E. subst k. split; [split; assumption|exact Hk].
    + destruct (sb_orphan_take n q) as [got r'] eqn:Et. intros [= <- <-].
      destruct (IH Hnd' Hq' _ _ eq_refl) as [[I1 I2] I3]. split.
      * split; [|constructor; assumption]. cbn [map fst]. constructor; [|exact I1]. intros Hin. apply Hk.
        clear -Hin Et. revert got r' Et Hin. induction q as [|[k' l'] q IHq]; intros got r'; cbn [sb_orphan_take].
        -- intros [= <- <-] [].
        -- destruct (streq n k'); [intros [= <- <-] Hin; right; exact Hin|].
           destruct (sb_orphan_take n q) as [g2 r2] eqn:E2. intros [= <- <-] Hin. cbn [map fst] in *.
           destruct Hin as [Hin|Hin]; [left; exact Hin|right; eapply IHq; [reflexivity|exact Hin]].
      * cbn [map fst]. intros [Hin|Hin]; [subst; rewrite streq_refl in E; discriminate|tauto].
Qed.

Lemma sch_find_type_none_update n m t' ts t :
  sch_find_type m ts = Some t -> et_name t' = m ->
  sch_find_type n ts = None -> sch_find_type n (sb_update_type m t' ts) = None.
Proof.
  intros Hm Hn. induction ts as [|x ts IH]; cbn [sch_find_type sb_update_type] in *; [auto|].
  destruct (streq m (et_name x)) eqn:Em.
  - apply streq_eq in Em. intros Hnone. cbn [sch_find_type]. rewrite Hn, Em.
    destruct (streq n (et_name x)); [discriminate|exact Hnone].
  - intros Hnone. cbn [sch_find_type]. destruct (streq n (et_name x)); [discriminate|]. apply IH; assumption.
Qed.

Definition tp_state (st : sb_state) : Prop := tp_orphans_ok (sbs_types st) (sbs_orphans st).

Lemma tp_add_def cfg st d : tp_state st -> tp_state (sb_add_def cfg st d).
Proof.
  intros Hst. unfold tp_state in *.
  assert (Hdef : forall n, def_name d = Some n -> tp_orphans_ok (sbs_types (sb_type_definition cfg st n d)) (sbs_orphans (sb_type_definition cfg st n d))).
  { intros n Hn. unfold sb_type_definition. destruct (sch_find_type n (sbs_types st)) as [prev|] eqn:Ef.
    - destruct (sbc_ignore_builtin cfg && et_builtin prev); [exact Hst|]. destruct (sb_is_scalar_def d && et_builtin prev); exact Hst.
    - destruct (sb_type_of_def d) as [[t0 e0]|] eqn:Eof; [|exact Hst].
      destruct (sb_orphan_take n (sbs_orphans st)) as [q orph'] eqn:Et.
      destruct (sb_apply_queued t0 (sbs_next st) q) as [[t1 n1] e1] eqn:Eq. cbn [sbs_types sbs_orphans].
      destruct (tp_take _ _ _ _ _ Hst Et) as [[H1 H2] H3].
      destruct (sb_apply_queued_props _ _ _ _ _ _ Eq) as [Hn1 _]. destruct (sb_type_of_def_name _ _ _ Eof) as [Hn0 _].
      assert (HN : et_name t1 = n) by congruence.
      split; [exact H1|]. rewrite Forall_forall in *. intros [k l] Hin. destruct (H2 _ Hin) as [A [B C]]. cbn [fst snd] in *.
      split; [exact A|]. split; [exact B|]. rewrite (sch_find_type_app_none _ _ _ C). cbn. rewrite HN.
      destruct (streq k n) eqn:E; [|reflexivity]. apply streq_eq in E. subst k. exfalso. apply H3.
      apply in_map_iff. exists (n, l). auto. }
  assert (Hext : forall n k x, sb_ext_name x = Some n ->
                 tp_orphans_ok (sbs_types (sb_type_extension st n k x)) (sbs_orphans (sb_type_extension st n k x))).
  { intros n k x Hx. unfold sb_type_extension. destruct (sch_find_type n (sbs_types st)) as [t|] eqn:Ef.
    - destruct (sb_extend_type (sbs_next st) t x) as [[t' e]|] eqn:Ex; [|exact Hst]. cbn [sbs_types sbs_orphans].
      destruct Hst as [H1 H2]. split; [exact H1|]. rewrite Forall_forall in *. intros [k' l] Hin. destruct (H2 _ Hin) as [A [B C]].
      cbn [fst snd] in *. split; [exact A|]. split; [exact B|].
      destruct (sb_extend_type_some _ _ _ _ _ Ex) as [Hn' _]. destruct (sb_find_type_name _ _ _ Ef) as [Hnt _].
      apply (sch_find_type_none_update k' n t' _ t Ef); [congruence|exact C].
    - cbn [sbs_types sbs_orphans]. apply tp_push; assumption. }
  destruct d; cbn [sb_add_def]; try (apply Hdef; reflexivity); try (apply Hext; reflexivity);
    unfold sb_with_errs; cbn [sbs_types sbs_orphans];
    repeat match goal with |- context [match ?x with _ => _ end] => destruct x end; exact Hst.
Qed.

Lemma tp_add_doc cfg doc : forall st, tp_state st -> tp_state (sb_add_doc cfg st doc).
Proof. induction doc as [|d doc IH]; intros st H; cbn; [exact H|]. apply IH, tp_add_def, H. Qed.

Lemma tp_add_docs cfg docs : forall st, tp_state st -> tp_state (sb_add_docs cfg st docs).
Proof. induction docs as [|d docs IH]; intros st H; cbn; [exact H|]. apply IH, tp_add_doc, H. Qed.

(* ---------------------------------------------------------------- build_inner *)
Lemma tp_orphan_errors n l : Forall (fun x => sb_ext_name x = Some n) l -> exists e, sb_orphan_errors l = Some e.
Proof.
  induction 1 as [|x l Hx Hl [e IH]]; cbn [sb_orphan_errors]; [eauto|]. rewrite Hx, IH. eauto.
Qed.

Lemma tp_all_orphan_errors types q : Forall (tp_queue_ok types) q -> exists e, sb_all_orphan_errors q = Some e.
Proof.
  induction 1 as [|[n l] q [_ [Hn _]] Hq [e IH]]; cbn [sb_all_orphan_errors]; [eauto|].
  cbn [fst snd] in Hn. destruct (tp_orphan_errors n l Hn) as [e1 ->]. rewrite IH. eauto.
Qed.

Lemma tp_adopt_loop n k q : forall t next,
  Forall (fun x => sb_ext_name x = Some n) q -> exists r, sb_adopt_loop k t next q = Some r.
Proof.
  induction q as [|x q IH]; intros t next H; cbn [sb_adopt_loop]; [eauto|].
  inversion H as [|? ? Hx Hq]; subst. destruct (sb_extend_type next t x) as [[t1 e1]|].
  - destruct (IH t1 (next + 1) Hq) as [[[t2 n2] e2] ->]. eauto.
  - rewrite Hx. destruct (sb_ext_name_kind _ _ Hx) as [k' ->]. destruct (IH t next Hq) as [[[t2 n2] e2] ->]. eauto.
Qed.

Lemma tp_adopt n next l :
  l <> [] -> Forall (fun x => sb_ext_name x = Some n) l -> exists r, sb_adopt n next l = Some r.
Proof.
  intros Hne H. unfold sb_adopt. destruct l as [|x l]; [congruence|]. inversion H as [|? ? Hx _]; subst.
  destruct (sb_ext_name_kind _ _ Hx) as [k ->]. apply (tp_adopt_loop n). exact H.
Qed.

Lemma tp_adopt_all q : forall types next, tp_orphans_ok types q -> exists r, sb_adopt_all types next q = Some r.
Proof.
  induction q as [|[n l] q IH]; intros types next [Hnd Hq]; cbn [sb_adopt_all]; [eauto|].
  inversion Hnd as [|? ? Hn Hnd']; subst. inversion Hq as [|? ? [Hne [Hnames Hfind]] Hq']; subst. cbn [fst snd] in *.
  destruct (tp_adopt n next l Hne Hnames) as [[[t n1] e1] Ea]. rewrite Ea, Hfind.
  destruct (iv_adopt _ _ _ _ _ _ Ea) as [_ [_ [Htn _]]].
  destruct (IH (types ++ [t]) n1) as [[[ts n2] e2] ->]; [|eauto].
  split; [exact Hnd'|]. rewrite Forall_forall in *. intros [k l'] Hin. destruct (Hq' _ Hin) as [A [B C]]. cbn [fst snd] in *.
  split; [exact A|]. split; [exact B|]. rewrite (sch_find_type_app_none _ _ _ C). cbn. rewrite Htn.
  destruct (streq k n) eqn:E; [|reflexivity]. apply streq_eq in E. subst k. exfalso. apply Hn.
  apply in_map_iff. exists (n, l'). auto.
Qed.

Lemma tp_build_inner cfg st : tp_state st -> sb_build_inner cfg st <> SbPanic.
Proof.
  intros Hst. unfold sb_build_inner. destruct (sbc_adopt cfg).
  - destruct (tp_adopt_all _ (sbs_types st) (sbs_next st) Hst) as [[[types n1] e1] ->].
    destruct (sbs_found st); [discriminate|].
    destruct (sb_extend_schema_def_all n1 (sbs_def st) (sbs_orphan_sx st)) as [[sd1 n2] e2]. discriminate.
  - destruct Hst as [_ Hq]. destruct (tp_all_orphan_errors _ _ Hq) as [e ->].
    destruct (sbs_found st); [discriminate|].
    destruct (sb_add_implicit_roots (sbs_def st) (sbs_types st)) as [sd1 has]. destruct has; [|discriminate].
    destruct (sb_extend_schema_def_all (sbs_next st) sd1 (sbs_orphan_sx st)) as [[sd2 n2] e2]. discriminate.
Qed.

(* the builder model is total: whatever the documents and the initial state, no panic *)
Theorem sb_build_total cfg b0 docs : sb_build_docs cfg b0 docs <> SbPanic.
Proof.
  unfold sb_build_docs. apply tp_build_inner, tp_add_docs. unfold tp_state, sb_init. cbn [sbs_types sbs_orphans].
  split; constructor.
Qed.
