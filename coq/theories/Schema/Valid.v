(* C14 — the type-system validation rules of the October 2021 GraphQL specification, section 3,
   as an executable specification over the built Schema (Schema/Model.v).

   This file is a TRANSCRIPTION OF THE SPECIFICATION, rule by rule, not a model of apollo-compiler's
   validation code; the correspondence check compares the two verdicts.  Where the prose is ambiguous
   graphql-js 16's reading is followed and the paragraph is named in a comment.  apollo-compiler's three
   documented deliberate differences are explicit parameters (sv_params).

   Input: the schema as the real builder built it (built-in definitions included).  Collisions that the
   builder reports while building (duplicate type / field / enum value / union member / implements /
   root operation names, orphan extensions, extension kind mismatches) are not visible in the built
   schema: a schema with build errors is invalid (sv_verdict), building itself is C12/C13's subject.

   Every name here reaches the flat extraction: prefix sv_ / Sv / svp_. *)
From ApolloVerif Require Import Base.Chars Ast.Ast Schema.Model.
From Coq Require Import ZArith.

(* ---------------------------------------------------------------- parameters *)

Record sv_params := {
  (* true: default values of arguments and input fields must be values of their type (spec 3.6 / 3.10 via
     graphql-js ValuesOfCorrectType on SDL).  apollo-compiler: false (documented, issue 928). *)
  svp_check_default_values : bool;
  (* true: a definition carrying the name of a specified directive replaces it (once; a second one is a
     build-time collision).  false: such a definition is an error. *)
  svp_builtin_redefinable_once : bool;
  (* true: the values of arguments of directives applied in the schema are type-checked against the
     directive definition. *)
  svp_typecheck_schema_directive_arguments : bool }.

Definition sv_apollo_params : sv_params :=
  {| svp_check_default_values := false;
     svp_builtin_redefinable_once := true;
     svp_typecheck_schema_directive_arguments := true |}.

(* ---------------------------------------------------------------- small helpers *)

Definition sv_mem (x : str) (l : list str) : bool := existsb (streq x) l.

Fixpoint sv_nodup (l : list str) : bool :=
  match l with
  | [] => true
  | x :: r => negb (sv_mem x r) && sv_nodup r
  end.

Definition sv_vals {A : Type} (l : list (comp A)) : list A := map c_val l.

Definition sv_opt_list {A : Type} (o : option A) : list A :=
  match o with Some x => [x] | None => [] end.

Definition sv_is_some {A : Type} (o : option A) : bool :=
  match o with Some _ => true | None => false end.

(* names as code points *)
Definition sv_n_Int : str := [73;110;116].
Definition sv_n_Float : str := [70;108;111;97;116].
Definition sv_n_String : str := [83;116;114;105;110;103].
Definition sv_n_Boolean : str := [66;111;111;108;101;97;110].
Definition sv_n_ID : str := [73;68].
Definition sv_n_true : str := [116;114;117;101].
Definition sv_n_false : str := [102;97;108;115;101].
Definition sv_n_null : str := [110;117;108;108].
Definition sv_n_skip : str := [115;107;105;112].
Definition sv_n_include : str := [105;110;99;108;117;100;101].
Definition sv_n_deprecated : str := [100;101;112;114;101;99;97;116;101;100].
Definition sv_n_specifiedBy : str := [115;112;101;99;105;102;105;101;100;66;121].

(* spec 3.5: the five built-in scalars exist in every schema *)
Definition sv_builtin_scalar_names : list str :=
  [sv_n_Int; sv_n_Float; sv_n_String; sv_n_Boolean; sv_n_ID].
Definition sv_specified_directive_names : list str :=
  [sv_n_skip; sv_n_include; sv_n_deprecated; sv_n_specifiedBy].

(* a type reference resolves in the type map, or to a built-in scalar (which a Schema may have pruned) *)
Definition sv_lookup (s : schema) (n : str) : option ext_type :=
  match sch_get_type s n with
  | Some t => Some t
  | None => if sv_mem n sv_builtin_scalar_names then Some (EScalar None n [] true) else None
  end.

(* spec 3.4.2 IsInputType / IsOutputType on the named type *)
Definition sv_is_input_type (t : ext_type) : bool :=
  match t with
  | EScalar _ _ _ _ | EEnum _ _ _ _ _ | EInput _ _ _ _ _ => true
  | _ => false
  end.
Definition sv_is_output_type (t : ext_type) : bool :=
  match t with
  | EInput _ _ _ _ _ => false
  | _ => true
  end.

Definition sv_is_object (t : ext_type) : bool :=
  match t with EObject _ _ _ _ _ _ => true | _ => false end.
Definition sv_is_interface (t : ext_type) : bool :=
  match t with EInterface _ _ _ _ _ _ => true | _ => false end.
Definition sv_is_input_object (t : ext_type) : bool :=
  match t with EInput _ _ _ _ _ => true | _ => false end.

Definition sv_ref_is (s : schema) (p : ext_type -> bool) (n : str) : bool :=
  match sv_lookup s n with Some t => p t | None => false end.

Definition sv_fields_of (t : ext_type) : list fielddef :=
  match t with
  | EObject _ _ _ _ fs _ | EInterface _ _ _ _ fs _ => sv_vals fs
  | _ => []
  end.
Definition sv_impls_of (t : ext_type) : list str :=
  match t with
  | EObject _ _ is _ _ _ | EInterface _ _ is _ _ _ => sv_vals is
  | _ => []
  end.
Definition sv_has_fields (t : ext_type) : bool :=
  match t with EObject _ _ _ _ _ _ | EInterface _ _ _ _ _ _ => true | _ => false end.

Fixpoint sv_find_field (n : str) (fs : list fielddef) : option fielddef :=
  match fs with
  | [] => None
  | f :: r => if streq n (fd_name f) then Some f else sv_find_field n r
  end.
Fixpoint sv_find_arg (n : str) (args : list inputvaldef) : option inputvaldef :=
  match args with
  | [] => None
  | a :: r => if streq n (iv_name a) then Some a else sv_find_arg n r
  end.

Fixpoint sv_ty_eqb (a b : ty) : bool :=
  match a, b with
  | TNamed x, TNamed y => streq x y
  | TNonNullNamed x, TNonNullNamed y => streq x y
  | TList x, TList y => sv_ty_eqb x y
  | TNonNullList x, TNonNullList y => sv_ty_eqb x y
  | _, _ => false
  end.

(* ---------------------------------------------------------------- 3.3 Schema: root operation types *)

Definition sv_roots (s : schema) : list str :=
  sv_vals (sv_opt_list (sd_query (sch_def s)) ++ sv_opt_list (sd_mutation (sch_def s))
           ++ sv_opt_list (sd_subscription (sch_def s))).

(* "The query root operation type must be provided" *)
Definition sv_rule_root_query (s : schema) : bool := sv_is_some (sd_query (sch_def s)).
(* "... and must be an Object type"; likewise mutation and subscription when provided *)
Definition sv_rule_root_object (s : schema) : bool := forallb (sv_ref_is s sv_is_object) (sv_roots s).
(* "The query, mutation, and subscription root types must all be different types if provided" *)
Definition sv_rule_root_distinct (s : schema) : bool := sv_nodup (sv_roots s).

(* ---------------------------------------------------------------- reserved names (3.4 Types, 3.6, 3.9, 3.10, 3.13)
   "must not have a name which begins with the characters __" for types, fields, arguments, enum values
   (through Name rules of 3.9: graphql-js validateName applies it to every named element), input fields
   and directives.  The introspection system's own definitions are exempt (what a user's extension adds to
   them is not). *)

Definition sv_reserved (n : str) : bool :=
  match n with a :: b :: _ => (a =? 95) && (b =? 95) | _ => false end.

Definition sv_args_names_ok (args : list inputvaldef) : bool :=
  forallb (fun a => negb (sv_reserved (iv_name a))) args.

(* a component written by the built-in definition itself (not added by a user's extension of it) *)
Definition sv_exempt {A : Type} (builtin : bool) (c : comp A) : bool :=
  builtin && match c_origin c with ODef => true | OExt _ => false end.

Definition sv_field_names_ok (f : fielddef) : bool :=
  negb (sv_reserved (fd_name f)) && sv_args_names_ok (fd_args f).

Definition sv_type_names_ok (t : ext_type) : bool :=
  (et_builtin t || negb (sv_reserved (et_name t))) &&
  match t with
  | EObject _ _ _ _ fs b | EInterface _ _ _ _ fs b =>
      forallb (fun c => sv_exempt b c || sv_field_names_ok (c_val c)) fs
  | EEnum _ _ _ vs b => forallb (fun c => sv_exempt b c || negb (sv_reserved (ev_value (c_val c)))) vs
  | EInput _ _ _ fs b => forallb (fun c => sv_exempt b c || negb (sv_reserved (iv_name (c_val c)))) fs
  | _ => true
  end.

Definition sv_dirdef_names_ok (d : dirdef) : bool :=
  dd_builtin d || (negb (sv_reserved (dd_name d)) && sv_args_names_ok (dd_args d)).

Definition sv_rule_reserved_names (s : schema) : bool :=
  forallb sv_type_names_ok (sch_types s) && forallb sv_dirdef_names_ok (sch_dirdefs s).

(* ---------------------------------------------------------------- 3.6 Objects, 3.7 Interfaces *)

(* 3.6 / 3.7 Type Validation 1: "must define one or more fields" *)
Definition sv_rule_fields_nonempty (s : schema) : bool :=
  forallb (fun t => negb (sv_has_fields t) || match sv_fields_of t with [] => false | _ => true end)
          (sch_types s).

(* 2.3: "The field must return a type where IsOutputType(fieldType) returns true" *)
Definition sv_field_output_ok (s : schema) (f : fielddef) : bool :=
  sv_ref_is s sv_is_output_type (inner_named_type (fd_ty f)).
Definition sv_rule_field_output_types (s : schema) : bool :=
  forallb (fun t => forallb (sv_field_output_ok s) (sv_fields_of t)) (sch_types s).

(* 2.4.2: "The argument must accept a type where IsInputType(argumentType) returns true" *)
Definition sv_arg_input_ok (s : schema) (a : inputvaldef) : bool :=
  sv_ref_is s sv_is_input_type (inner_named_type (iv_ty a)).
Definition sv_rule_arg_input_types (s : schema) : bool :=
  forallb (fun t => forallb (fun f => forallb (sv_arg_input_ok s) (fd_args f)) (sv_fields_of t))
          (sch_types s).

(* argument names are unique within a field and within a directive definition.  October 2021 states
   uniqueness for fields ("2.1 The field must have a unique name within that Object type") and is silent
   for arguments; graphql-js UniqueArgumentDefinitionNamesRule requires it (and the June 2018 text does
   in 3.6 "Field Arguments").  Followed. *)
Definition sv_args_unique (args : list inputvaldef) : bool := sv_nodup (map iv_name args).
Definition sv_rule_arg_unique (s : schema) : bool :=
  forallb (fun t => forallb (fun f => sv_args_unique (fd_args f)) (sv_fields_of t)) (sch_types s)
  && forallb (fun d => sv_args_unique (dd_args d)) (sch_dirdefs s).

(* 3.6 "An object type may declare that it implements one or more unique interfaces": each is an
   interface type (uniqueness is a build error) *)
Definition sv_rule_implements_targets (s : schema) : bool :=
  forallb (fun t => forallb (sv_ref_is s sv_is_interface) (sv_impls_of t)) (sch_types s).

(* 3.7 Type Validation 3: "An interface type may declare that it implements one or more unique
   interfaces, but may not implement itself" *)
Definition sv_rule_no_self_implement (s : schema) : bool :=
  forallb (fun t => negb (sv_is_interface t) || negb (sv_mem (et_name t) (sv_impls_of t))) (sch_types s).

(* --- IsValidImplementation(type, implementedType), 3.6 *)

Definition sv_unwrap_nn (t : ty) : ty :=
  match t with
  | TNonNullNamed n => TNamed n
  | TNonNullList t => TList t
  | t => t
  end.

(* IsValidImplementationFieldType steps 4 and 5 on named types *)
Definition sv_spec_subtype (s : schema) (field_t implemented_t : str) : bool :=
  match sv_lookup s field_t, sv_lookup s implemented_t with
  | Some (EObject _ _ _ _ _ _), Some (EUnion _ _ _ ms _) => sv_mem field_t (sv_vals ms)   (* 4 *)
  | Some (EObject _ _ is _ _ _), Some (EInterface _ _ _ _ _ _)
  | Some (EInterface _ _ is _ _ _), Some (EInterface _ _ _ _ _ _) =>
      sv_mem implemented_t (sv_vals is)                                                  (* 5 *)
  | _, _ => false                                                                        (* 6 *)
  end.

(* IsValidImplementationFieldType(fieldType, implementedFieldType) *)
Fixpoint sv_impl_field_type (s : schema) (ft it : ty) {struct ft} : bool :=
  (* 1: a Non-Null fieldType is unwrapped, and implementedFieldType too if it is Non-Null *)
  let it' := if is_non_null ft then sv_unwrap_nn it else it in
  match ft with
  | TList t | TNonNullList t =>
      match it' with
      | TList u => sv_impl_field_type s t u           (* 2 *)
      | _ => false                                    (* 3-5 do not apply to a list type; 6 *)
      end
  | TNamed n | TNonNullNamed n =>
      match it' with
      | TNamed m => streq n m || sv_spec_subtype s n m   (* 3 same type; 4; 5 *)
      | _ => false                                       (* 6 *)
      end
  end.

(* 2.d "any additional argument must not be required, e.g. must not be of a non-nullable type".
   Ambiguous ("e.g."): graphql-js isRequiredArgument = Non-Null type and no default value.  Followed. *)
Definition sv_required (a : inputvaldef) : bool :=
  is_non_null (iv_ty a) && negb (sv_is_some (iv_default a)).

(* 1: "If implementedType declares it implements any interfaces, type must also declare it implements
   those interfaces" *)
Definition sv_impl_transitive (timpls iimpls : list str) : bool :=
  forallb (fun j => sv_mem j timpls) iimpls.
(* 2: "type must include a field of the same name for every field defined in implementedType" *)
Definition sv_impl_field_present (tfields : list fielddef) (ifd : fielddef) : bool :=
  sv_is_some (sv_find_field (fd_name ifd) tfields).
(* 2.c: every argument of implementedField is present (i) with the same type (invariant) *)
Definition sv_impl_args_ok (f ifd : fielddef) : bool :=
  forallb (fun ia => match sv_find_arg (iv_name ia) (fd_args f) with
                     | Some a => sv_ty_eqb (iv_ty a) (iv_ty ia)
                     | None => false
                     end) (fd_args ifd).
(* 2.d additional arguments are not required *)
Definition sv_impl_extra_args_ok (f ifd : fielddef) : bool :=
  forallb (fun a => sv_is_some (sv_find_arg (iv_name a) (fd_args ifd)) || negb (sv_required a)) (fd_args f).

Definition sv_impl_field_ok (s : schema) (tfields : list fielddef) (ifd : fielddef) : bool :=
  match sv_find_field (fd_name ifd) tfields with
  | None => false
  | Some f => sv_impl_args_ok f ifd && sv_impl_extra_args_ok f ifd
              && sv_impl_field_type s (fd_ty f) (fd_ty ifd)
  end.

(* IsValidImplementation for a type t and the interface named i (false when i is not an interface) *)
Definition sv_implements_ok (s : schema) (t : ext_type) (i : str) : bool :=
  match sv_lookup s i with
  | Some (EInterface _ _ iimpls _ ifields _) =>
      sv_impl_transitive (sv_impls_of t) (sv_vals iimpls)
      && forallb (sv_impl_field_ok s (sv_fields_of t)) (sv_vals ifields)
  | _ => false
  end.

(* the same contract split into separately named rules (each vacuous where an earlier one fails, so
   that a disagreement names one rule) *)
Definition sv_over_impls (s : schema) (p : ext_type -> list str -> list fielddef -> bool) : bool :=
  forallb (fun t => forallb (fun i => match sv_lookup s i with
                                      | Some (EInterface _ _ iimpls _ ifields _) =>
                                          p t (sv_vals iimpls) (sv_vals ifields)
                                      | _ => true
                                      end) (sv_impls_of t)) (sch_types s).
Definition sv_over_impl_fields (s : schema) (p : fielddef -> fielddef -> bool) : bool :=
  sv_over_impls s (fun t _ ifields =>
    forallb (fun ifd => match sv_find_field (fd_name ifd) (sv_fields_of t) with
                        | Some f => p f ifd
                        | None => true
                        end) ifields).

Definition sv_rule_transitive_interfaces (s : schema) : bool :=
  sv_over_impls s (fun t iimpls _ => sv_impl_transitive (sv_impls_of t) iimpls).
Definition sv_rule_interface_fields_present (s : schema) : bool :=
  sv_over_impls s (fun t _ ifields => forallb (sv_impl_field_present (sv_fields_of t)) ifields).
Definition sv_rule_interface_field_types (s : schema) : bool :=
  sv_over_impl_fields s (fun f ifd => sv_impl_field_type s (fd_ty f) (fd_ty ifd)).
Definition sv_rule_interface_field_args (s : schema) : bool :=
  sv_over_impl_fields s sv_impl_args_ok.
Definition sv_rule_interface_extra_args (s : schema) : bool :=
  sv_over_impl_fields s sv_impl_extra_args_ok.

(* ---------------------------------------------------------------- 3.8 Unions *)

(* 1: "A Union type must include one or more unique member types" (uniqueness: build error) *)
Definition sv_rule_union_nonempty (s : schema) : bool :=
  forallb (fun t => match t with EUnion _ _ _ [] _ => false | _ => true end) (sch_types s).
(* 2: "The member types of a Union type must all be Object base types" *)
Definition sv_rule_union_members_object (s : schema) : bool :=
  forallb (fun t => match t with
                    | EUnion _ _ _ ms _ => forallb (sv_ref_is s sv_is_object) (sv_vals ms)
                    | _ => true
                    end) (sch_types s).

(* ---------------------------------------------------------------- 3.9 Enums *)

(* 1: "An Enum type must define one or more unique enum values" *)
Definition sv_rule_enum_nonempty (s : schema) : bool :=
  forallb (fun t => match t with EEnum _ _ _ [] _ => false | _ => true end) (sch_types s).
(* EnumValue : Name but not true or false or null *)
Definition sv_enum_value_name_ok (n : str) : bool :=
  negb (streq n sv_n_true || streq n sv_n_false || streq n sv_n_null).
Definition sv_rule_enum_value_names (s : schema) : bool :=
  forallb (fun t => match t with
                    | EEnum _ _ _ vs _ => forallb (fun v => sv_enum_value_name_ok (ev_value v)) (sv_vals vs)
                    | _ => true
                    end) (sch_types s).

(* ---------------------------------------------------------------- 3.10 Input Objects *)

(* 1: "An Input Object type must define one or more input fields" *)
Definition sv_rule_input_nonempty (s : schema) : bool :=
  forallb (fun t => match t with EInput _ _ _ [] _ => false | _ => true end) (sch_types s).
(* 2.3: "The input field must accept a type where IsInputType(inputFieldType) returns true" *)
Definition sv_rule_input_field_types (s : schema) : bool :=
  forallb (fun t => match t with
                    | EInput _ _ _ fs _ => forallb (sv_arg_input_ok s) (sv_vals fs)
                    | _ => true
                    end) (sch_types s).

(* --- a saturating closure, used for the two "references itself" rules.
   sv_close succ fuel acc adds successors until nothing new appears; sv_saturated is checked by the
   rules, so running out of fuel makes a rule FALSE (never silently true). *)
Section SvClosure.
  Context {A : Type} (eqb : A -> A -> bool) (succ : A -> list A).
  Definition sv_in (x : A) (l : list A) : bool := existsb (eqb x) l.
  Definition sv_union (acc new : list A) : list A :=
    fold_right (fun x a => if sv_in x a then a else x :: a) acc new.
  Definition sv_saturated (acc : list A) : bool :=
    forallb (fun x => sv_in x acc) (flat_map succ acc).
  Fixpoint sv_close (fuel : nat) (acc : list A) : list A :=
    match fuel with
    | O => acc
    | S k => if sv_saturated acc then acc else sv_close k (sv_union acc (flat_map succ acc))
    end.
  (* x does not reach itself through one or more succ steps *)
  Definition sv_no_self_reach (fuel : nat) (x : A) : bool :=
    let r := sv_close fuel (succ x) in sv_saturated r && negb (sv_in x r).
End SvClosure.

(* 3: "If an Input Object references itself either directly or through referenced Input Objects, at
   least one of the fields in the chain of references must be either a nullable or a List type."
   A chain link is therefore a field of type exactly T! with T an input object. *)
Definition sv_nn_succ (s : schema) (n : str) : list str :=
  match sv_lookup s n with
  | Some (EInput _ _ _ fs _) =>
      flat_map (fun f => match iv_ty f with
                         | TNonNullNamed m => if sv_ref_is s sv_is_input_object m then [m] else []
                         | _ => []
                         end) (sv_vals fs)
  | _ => []
  end.
Definition sv_type_fuel (s : schema) : nat := S (length (sch_types s)).
Definition sv_input_no_cycle (s : schema) (n : str) : bool :=
  sv_no_self_reach streq (sv_nn_succ s) (sv_type_fuel s) n.
Definition sv_rule_input_no_nonnull_cycle (s : schema) : bool :=
  forallb (fun t => negb (sv_is_input_object t) || sv_input_no_cycle s (et_name t)) (sch_types s).

(* ---------------------------------------------------------------- 3.13 Directive definitions *)

(* 4.2 "The argument must accept a type where IsInputType(argumentType) returns true" *)
Definition sv_rule_dirdef_arg_types (s : schema) : bool :=
  forallb (fun d => forallb (sv_arg_input_ok s) (dd_args d)) (sch_dirdefs s).

(* 1, 2: "A directive definition must not contain the use of a directive which references itself
   directly / indirectly by referencing a Type or Directive which transitively includes a reference to
   this directive."  References of a directive definition: the directives applied to its arguments and
   the named types of its arguments; of a type: the directives applied to it, to its enum values and
   input fields, and the named types of its input fields.  graphql-js has no such rule; this is the
   literal reading.  (For a type that is not an input type only its own directives count: such an
   argument type is already rejected by sv_rule_dirdef_arg_types.)  Unresolved names have no references. *)
Inductive sv_node := SvD (n : str) | SvT (n : str).
Definition sv_node_eqb (a b : sv_node) : bool :=
  match a, b with
  | SvD x, SvD y => streq x y
  | SvT x, SvT y => streq x y
  | _, _ => false
  end.
Definition sv_dir_nodes (s : schema) (ds : list directive) : list sv_node :=
  flat_map (fun d => if sv_is_some (sch_find_dirdef (d_name d) (sch_dirdefs s)) then [SvD (d_name d)] else []) ds.
Definition sv_type_node (s : schema) (t : ty) : list sv_node :=
  if sv_is_some (sv_lookup s (inner_named_type t)) then [SvT (inner_named_type t)] else [].
Definition sv_ivd_nodes (s : schema) (a : inputvaldef) : list sv_node :=
  sv_dir_nodes s (iv_dirs a) ++ sv_type_node s (iv_ty a).
Definition sv_et_dirs (t : ext_type) : list directive :=
  match t with
  | EScalar _ _ d _ | EObject _ _ _ d _ _ | EInterface _ _ _ d _ _ | EUnion _ _ d _ _
  | EEnum _ _ d _ _ | EInput _ _ d _ _ => sv_vals d
  end.
Definition sv_node_succ (s : schema) (x : sv_node) : list sv_node :=
  match x with
  | SvD d => match sch_find_dirdef d (sch_dirdefs s) with
             | Some def => flat_map (sv_ivd_nodes s) (dd_args def)
             | None => []
             end
  | SvT n => match sv_lookup s n with
             | Some t =>
                 sv_dir_nodes s (sv_et_dirs t) ++
                 match t with
                 | EEnum _ _ _ vs _ => flat_map (fun v => sv_dir_nodes s (ev_dirs v)) (sv_vals vs)
                 | EInput _ _ _ fs _ => flat_map (sv_ivd_nodes s) (sv_vals fs)
                 | _ => []
                 end
             | None => []
             end
  end.
Definition sv_node_fuel (s : schema) : nat := length (sch_dirdefs s) + length (sch_types s) + 6.
Definition sv_dirdef_no_self_ref (s : schema) (d : str) : bool :=
  sv_no_self_reach sv_node_eqb (sv_node_succ s) (sv_node_fuel s) (SvD d).
Definition sv_rule_dirdef_no_self_ref (s : schema) : bool :=
  forallb (fun d => sv_dirdef_no_self_ref s (dd_name d)) (sch_dirdefs s).

(* documented difference 2 *)
Definition sv_rule_builtin_redefinition (p : sv_params) (s : schema) : bool :=
  svp_builtin_redefinable_once p ||
  forallb (fun d => dd_builtin d || negb (sv_mem (dd_name d) sv_specified_directive_names)) (sch_dirdefs s).

(* ---------------------------------------------------------------- values of correct type (5.6, 3.5, 3.9-3.11)
   for constant values: Value[Const] has no Variable. *)

Definition sv_is_digit (c : N) : bool := (48 <=? c) && (c <=? 57).

(* digits -> (value, number of digits, rest) *)
Fixpoint sv_take_digits (s : str) (acc cnt : N) : N * N * str :=
  match s with
  | c :: r => if sv_is_digit c then sv_take_digits r (acc * 10 + (c - 48)) (cnt + 1) else (acc, cnt, s)
  | [] => (acc, cnt, [])
  end.

Definition sv_strip_minus (s : str) : bool * str :=
  match s with 45 :: r => (true, r) | _ => (false, s) end.

(* 3.5.1 Int: "a signed 32-bit integer"; "less than -2^31 or greater than or equal to 2^31: error" *)
Definition sv_int_in_range (text : str) : bool :=
  let '(neg, r) := sv_strip_minus text in
  let '(v, _, _) := sv_take_digits r 0 0 in
  if neg then v <=? 2147483648 else v <=? 2147483647.

(* 3.5.2 Float: "If the input value otherwise represents a value not representable by finite IEEE 754, a
   request error should be raised."  A decimal literal m * 10^(e-f) rounds (to nearest, ties to even)
   to a finite double iff it is below 2^1024 - 2^970. *)
Definition sv_f64_limit : N := 2 ^ 1024 - 2 ^ 970.
Definition sv_float_finite (text : str) : bool :=
  let '(_, r) := sv_strip_minus text in
  let '(ip, icnt, r1) := sv_take_digits r 0 0 in
  let '(m, cnt, f, r2) :=
    match r1 with
    | 46 :: r' => let '(m, cnt, r2) := sv_take_digits r' ip icnt in (m, cnt, cnt - icnt, r2)
    | _ => (ip, icnt, 0, r1)
    end in
  let '(eneg, e) :=
    match r2 with
    | c :: r' =>
        if (c =? 101) || (c =? 69) then
          match r' with
          | 43 :: r'' => let '(e, _, _) := sv_take_digits r'' 0 0 in (false, e)
          | 45 :: r'' => let '(e, _, _) := sv_take_digits r'' 0 0 in (true, e)
          | _ => let '(e, _, _) := sv_take_digits r' 0 0 in (false, e)
          end
        else (false, 0)
    | [] => (false, 0)
    end in
  (* value = m * 10^k, k = E - f, E = +-e *)
  let k : Z := ((if eneg then - Z.of_N e else Z.of_N e) - Z.of_N f)%Z in
  if m =? 0 then true
  else if (0 <=? k)%Z then
         if (400 <? k)%Z then false                          (* m >= 1: at least 10^401 *)
         else m * 10 ^ Z.to_N k <? sv_f64_limit
       else
         let j := Z.to_N (- k) in
         if cnt <=? j then true                              (* m < 10^cnt <= 10^j: value < 1 *)
         else m <? sv_f64_limit * 10 ^ j.

Fixpoint sv_value_ok (s : schema) (v : value) (t : ty) {struct v} : bool :=
  match v with
  | VVar _ => false                                          (* not a constant value *)
  | VNull => negb (is_non_null t)                            (* 3.12 Non-Null input coercion *)
  | VList l =>
      match t with
      | TList t' | TNonNullList t' => forallb (fun x => sv_value_ok s x t') l    (* 3.11 *)
      | TNamed n | TNonNullNamed n =>
          (* a list literal for a named type: only a custom scalar can accept it *)
          match sv_lookup s n with
          | Some (EScalar _ _ _ b) => negb (sv_mem n sv_builtin_scalar_names)
          | Some _ => false
          | None => true             (* unresolved type: reported by the type rules, not here *)
          end
      end
  | _ =>
      (* 3.11: "If the value passed as an input to a list type is not a list and not the null value,
         then the result of input coercion is a list of size one, where the single item value is the
         result of input coercion for the list's item type" (recursively): the named type decides *)
      let n := inner_named_type t in
      match sv_lookup s n with
      | None => true
      | Some (EScalar _ _ _ _) =>
          if streq n sv_n_Int then match v with VInt x => sv_int_in_range x | _ => false end
          else if streq n sv_n_Float then
            match v with VInt x | VFloat x => sv_float_finite x | _ => false end
          else if streq n sv_n_String then match v with VString _ => true | _ => false end
          else if streq n sv_n_Boolean then match v with VBool _ => true | _ => false end
          else if streq n sv_n_ID then match v with VString _ | VInt _ => true | _ => false end
          else true        (* custom scalar: coercion is implementation-defined; graphql-js's default
                              parseLiteral accepts every constant literal *)
      | Some (EEnum _ _ _ vs _) =>
          match v with VEnum e => sv_mem e (map ev_value (sv_vals vs)) | _ => false end   (* 3.9 *)
      | Some (EInput _ _ _ fs _) =>                                                        (* 3.10 *)
          match v with
          | VObject fields =>
              forallb (fun nx => match sv_find_arg (fst nx) (sv_vals fs) with
                                    | Some f => sv_value_ok s (snd nx) (iv_ty f)
                                    | None => false          (* 5.6.2 Input Object Field Names *)
                                    end) fields
              && forallb (fun f => negb (sv_required f) || sv_mem (iv_name f) (map fst fields))
                         (sv_vals fs)                          (* 5.6.4 Input Object Required Fields *)
          | _ => false
          end
      | Some _ => false                                       (* not an input type *)
      end
  end.

(* 5.6.3 Input Object Field Uniqueness: "For each input object value inputObject in the document ...
   fields must be the set containing only inputField."  The rule is syntactic: it concerns every object
   literal, whatever type is expected at its position (also inside a custom scalar's literal), as
   graphql-js UniqueInputFieldNamesRule (one of its SDL rules) does. *)
Fixpoint sv_value_fields_unique (v : value) : bool :=
  match v with
  | VList l => forallb sv_value_fields_unique l
  | VObject fs => sv_nodup (map fst fs) && forallb (fun nx => sv_value_fields_unique (snd nx)) fs
  | _ => true
  end.

(* ---------------------------------------------------------------- directives applied in the schema (3.13, 5.7, 5.4) *)

Definition sv_loc_code (l : dirloc) : N :=
  match l with
  | LQuery => 0 | LMutation => 1 | LSubscription => 2 | LField => 3 | LFragmentDefinition => 4
  | LFragmentSpread => 5 | LInlineFragment => 6 | LVariableDefinition => 7 | LSchema => 8
  | LScalar => 9 | LObject => 10 | LFieldDefinition => 11 | LArgumentDefinition => 12
  | LInterface => 13 | LUnion => 14 | LEnum => 15 | LEnumValue => 16 | LInputObject => 17
  | LInputFieldDefinition => 18
  end.
Definition sv_loc_eqb (a b : dirloc) : bool := sv_loc_code a =? sv_loc_code b.

Definition sv_site := (dirloc * list directive)%type.

Definition sv_arg_sites (args : list inputvaldef) : list sv_site :=
  map (fun a => (LArgumentDefinition, iv_dirs a)) args.
Definition sv_field_sites (f : fielddef) : list sv_site :=
  (LFieldDefinition, fd_dirs f) :: sv_arg_sites (fd_args f).
Definition sv_type_sites (t : ext_type) : list sv_site :=
  match t with
  | EScalar _ _ d _ => [(LScalar, sv_vals d)]
  | EObject _ _ _ d fs _ => (LObject, sv_vals d) :: flat_map sv_field_sites (sv_vals fs)
  | EInterface _ _ _ d fs _ => (LInterface, sv_vals d) :: flat_map sv_field_sites (sv_vals fs)
  | EUnion _ _ d _ _ => [(LUnion, sv_vals d)]
  | EEnum _ _ d vs _ => (LEnum, sv_vals d) :: map (fun v => (LEnumValue, ev_dirs v)) (sv_vals vs)
  | EInput _ _ d fs _ =>
      (LInputObject, sv_vals d) :: map (fun f => (LInputFieldDefinition, iv_dirs f)) (sv_vals fs)
  end.
Definition sv_all_sites (s : schema) : list sv_site :=
  (LSchema, sv_vals (sd_dirs (sch_def s)))
  :: flat_map sv_type_sites (sch_types s)
  ++ flat_map (fun d => sv_arg_sites (dd_args d)) (sch_dirdefs s).

Definition sv_over_dirs (s : schema) (p : dirloc -> directive -> bool) : bool :=
  forallb (fun site => forallb (p (fst site)) (snd site)) (sv_all_sites s).
(* p applied to the directives whose definition exists *)
Definition sv_over_defined_dirs (s : schema) (p : dirloc -> directive -> dirdef -> bool) : bool :=
  sv_over_dirs s (fun loc d => match sch_find_dirdef (d_name d) (sch_dirdefs s) with
                               | Some def => p loc d def
                               | None => true
                               end).

(* 5.7.1 Directives Are Defined *)
Definition sv_rule_dir_defined (s : schema) : bool :=
  sv_over_dirs s (fun _ d => sv_is_some (sch_find_dirdef (d_name d) (sch_dirdefs s))).
(* 5.7.2 Directives Are In Valid Locations *)
Definition sv_rule_dir_location (s : schema) : bool :=
  sv_over_defined_dirs s (fun loc _ def => existsb (sv_loc_eqb loc) (dd_locs def)).
(* 5.7.3 Directives Are Unique Per Location (non-repeatable ones) *)
Fixpoint sv_dirs_unique (s : schema) (ds : list directive) : bool :=
  match ds with
  | [] => true
  | d :: r =>
      (negb (sv_mem (d_name d) (map d_name r))
       || match sch_find_dirdef (d_name d) (sch_dirdefs s) with
          | Some def => dd_repeatable def
          | None => true
          end)
      && sv_dirs_unique s r
  end.
Definition sv_rule_dir_unique (s : schema) : bool :=
  forallb (fun site => sv_dirs_unique s (snd site)) (sv_all_sites s).
(* 5.4.1 Argument Names *)
Definition sv_rule_dir_known_args (s : schema) : bool :=
  sv_over_defined_dirs s (fun _ d def =>
    forallb (fun a => sv_is_some (sv_find_arg (fst a) (dd_args def))) (d_args d)).
(* 5.4.2 Argument Uniqueness *)
Definition sv_rule_dir_arg_unique (s : schema) : bool :=
  sv_over_dirs s (fun _ d => sv_nodup (map fst (d_args d))).
(* 5.4.2.1 Required Arguments: present, and not the null literal *)
Fixpoint sv_find_value (n : str) (args : list argument) : option value :=
  match args with
  | [] => None
  | a :: r => if streq n (fst a) then Some (snd a) else sv_find_value n r
  end.
Definition sv_rule_dir_required_args (s : schema) : bool :=
  sv_over_defined_dirs s (fun _ d def =>
    forallb (fun a => negb (sv_required a) ||
                      match sv_find_value (iv_name a) (d_args d) with
                      | Some VNull | None => false
                      | Some _ => true
                      end) (dd_args def)).
(* 5.6.3 on the argument values of every applied directive *)
Definition sv_rule_dir_arg_input_fields_unique (s : schema) : bool :=
  sv_over_dirs s (fun _ d => forallb (fun a => sv_value_fields_unique (snd a)) (d_args d)).
(* 5.6.1 Values of Correct Type (documented difference 3) *)
Definition sv_rule_dir_arg_values (p : sv_params) (s : schema) : bool :=
  negb (svp_typecheck_schema_directive_arguments p) ||
  sv_over_defined_dirs s (fun _ d def =>
    forallb (fun a => match sv_find_arg (fst a) (dd_args def) with
                      | Some ad => sv_value_ok s (snd a) (iv_ty ad)
                      | None => true
                      end) (d_args d)).

(* documented difference 1: default values are values of their type *)
Definition sv_default_ok (s : schema) (a : inputvaldef) : bool :=
  match iv_default a with
  | Some v => sv_value_fields_unique v && sv_value_ok s v (iv_ty a)
  | None => true
  end.
Definition sv_rule_default_values (p : sv_params) (s : schema) : bool :=
  negb (svp_check_default_values p) ||
  (forallb (fun t => forallb (fun f => forallb (sv_default_ok s) (fd_args f)) (sv_fields_of t)
                     && match t with
                        | EInput _ _ _ fs _ => forallb (sv_default_ok s) (sv_vals fs)
                        | _ => true
                        end) (sch_types s)
   && forallb (fun d => forallb (sv_default_ok s) (dd_args d)) (sch_dirdefs s)).

(* ---------------------------------------------------------------- the verdict *)

(* the rules, in a fixed order (sv_rule_names in coq/ocaml/fam_c14.ml gives the same order) *)
Definition sv_rules (p : sv_params) : list (schema -> bool) :=
  [ sv_rule_root_query; sv_rule_root_object; sv_rule_root_distinct;
    sv_rule_reserved_names;
    sv_rule_fields_nonempty; sv_rule_field_output_types; sv_rule_arg_input_types; sv_rule_arg_unique;
    sv_rule_implements_targets; sv_rule_no_self_implement; sv_rule_transitive_interfaces;
    sv_rule_interface_fields_present; sv_rule_interface_field_types; sv_rule_interface_field_args;
    sv_rule_interface_extra_args;
    sv_rule_union_nonempty; sv_rule_union_members_object;
    sv_rule_enum_nonempty; sv_rule_enum_value_names;
    sv_rule_input_nonempty; sv_rule_input_field_types; sv_rule_input_no_nonnull_cycle;
    sv_rule_dirdef_arg_types; sv_rule_dirdef_no_self_ref; sv_rule_builtin_redefinition p;
    sv_rule_dir_defined; sv_rule_dir_location; sv_rule_dir_unique; sv_rule_dir_known_args;
    sv_rule_dir_arg_unique; sv_rule_dir_required_args; sv_rule_dir_arg_input_fields_unique;
    sv_rule_dir_arg_values p;
    sv_rule_default_values p ].

Definition sv_rule_vector (p : sv_params) (s : schema) : list bool := map (fun r => r s) (sv_rules p).

Definition sv_schema_valid (p : sv_params) (s : schema) : bool :=
  forallb (fun r => r s) (sv_rules p).

(* the verdict compared with Schema::parse_and_validate(..).is_ok() *)
Definition sv_verdict (p : sv_params) (build_errors : N) (s : schema) : bool :=
  (build_errors =? 0) && sv_schema_valid p s.

Definition sv_rules_except_fields_unique (p : sv_params) : list (schema -> bool) :=
  [ sv_rule_root_query; sv_rule_root_object; sv_rule_root_distinct;
    sv_rule_reserved_names;
    sv_rule_fields_nonempty; sv_rule_field_output_types; sv_rule_arg_input_types; sv_rule_arg_unique;
    sv_rule_implements_targets; sv_rule_no_self_implement; sv_rule_transitive_interfaces;
    sv_rule_interface_fields_present; sv_rule_interface_field_types; sv_rule_interface_field_args;
    sv_rule_interface_extra_args;
    sv_rule_union_nonempty; sv_rule_union_members_object;
    sv_rule_enum_nonempty; sv_rule_enum_value_names;
    sv_rule_input_nonempty; sv_rule_input_field_types; sv_rule_input_no_nonnull_cycle;
    sv_rule_dirdef_arg_types; sv_rule_dirdef_no_self_ref; sv_rule_builtin_redefinition p;
    sv_rule_dir_defined; sv_rule_dir_location; sv_rule_dir_unique; sv_rule_dir_known_args;
    sv_rule_dir_arg_unique; sv_rule_dir_required_args;
    sv_rule_dir_arg_values p;
    sv_rule_default_values p ].

(* ---------------------------------------------------------------- known-finding classes (decidable, as narrow
   as the defects found by the tie; see known_findings.d/C14.json).  Not part of the specification. *)

(* class builtin_scalar_directives: the schema is invalid only because of directives applied to a built-in
   scalar (reachable only through `extend scalar Int @x`): apollo-compiler does not validate them *)
Definition sv_strip_builtin_scalar_dirs (s : schema) : schema :=
  {| sch_def := sch_def s; sch_dirdefs := sch_dirdefs s;
     sch_types := map (fun t => match t with
                                | EScalar d n _ true => EScalar d n [] true
                                | t => t
                                end) (sch_types s) |}.
Definition sv_known_builtin_scalar_directives (p : sv_params) (s : schema) : bool :=
  negb (sv_schema_valid p s) && sv_schema_valid p (sv_strip_builtin_scalar_dirs s).

(* class nested_scalar_object_dup: the only violated rule is 5.6.3 and every repeated field name sits in an
   object literal nested inside the object literal of a custom scalar (positions a type-directed walk
   does not reach: it stops at the object literal given for a scalar) *)
Definition sv_item_type (t : ty) : ty :=
  match t with TList x | TNonNullList x => x | t => t end.
Fixpoint sv_value_dup_reached (s : schema) (v : value) (t : ty) {struct v} : bool :=
  match v with
  | VList l => forallb (fun x => sv_value_dup_reached s x (sv_item_type t)) l
  | VObject fs =>
      sv_nodup (map fst fs) &&
      match sv_lookup s (inner_named_type t) with
      | Some (EInput _ _ _ ifs _) =>
          forallb (fun nx => match sv_find_arg (fst nx) (sv_vals ifs) with
                             | Some f => sv_value_dup_reached s (snd nx) (iv_ty f)
                             | None => true
                             end) fs
      | _ => true
      end
  | _ => true
  end.
Definition sv_known_nested_scalar_object_dup (p : sv_params) (s : schema) : bool :=
  negb (sv_rule_dir_arg_input_fields_unique s)
  && forallb (fun r => r s) (sv_rules_except_fields_unique p)
  && sv_over_defined_dirs s (fun _ d def =>
       forallb (fun a => match sv_find_arg (fst a) (dd_args def) with
                         | Some ad => sv_value_dup_reached s (snd a) (iv_ty ad)
                         | None => true
                         end) (d_args d)).
