(* Proofs about the schema builder model (Schema/Build.v): the builder is a fold (C13_schema_fold);
   errors are only ever appended; an extension directly before its definition and directly after it
   give the same state up to the order of errors. *)
From ApolloVerif Require Import Base.Chars Ast.Ast Schema.Model Schema.Build.
From Coq Require Import Permutation.

(* ---------------------------------------------------------------- the builder is a fold *)
Lemma sb_add_doc_app cfg st d1 d2 :
  sb_add_doc cfg st (d1 ++ d2) = sb_add_doc cfg (sb_add_doc cfg st d1) d2.
Proof. unfold sb_add_doc. apply fold_left_app. Qed.

Lemma sb_add_docs_app cfg st l1 l2 :
  sb_add_docs cfg st (l1 ++ l2) = sb_add_docs cfg (sb_add_docs cfg st l1) l2.
Proof. unfold sb_add_docs. apply fold_left_app. Qed.

Lemma sb_add_docs_concat cfg docs : forall st,
  sb_add_docs cfg st docs = sb_add_doc cfg st (concat docs).
Proof.
  induction docs as [|d docs IH]; intros st; cbn [concat]; [reflexivity|].
  rewrite sb_add_doc_app. unfold sb_add_docs in *. cbn [fold_left]. apply IH.
Qed.

Lemma sb_build_docs_concat cfg b0 docs : sb_build_docs cfg b0 docs = sb_build cfg b0 (concat docs).
Proof.
  unfold sb_build, sb_build_docs. rewrite !sb_add_docs_concat. cbn [concat]. rewrite app_nil_r. reflexivity.
Qed.

(* ---------------------------------------------------------------- errors are only appended *)
Definition sb_set_errs (st : sb_state) (e : list sberr) : sb_state :=
  {| sbs_def := sbs_def st; sbs_dirdefs := sbs_dirdefs st; sbs_types := sbs_types st;
     sbs_found := sbs_found st; sbs_orphan_sx := sbs_orphan_sx st; sbs_orphans := sbs_orphans st;
     sbs_next := sbs_next st; sbs_errs := e |}.

Ltac sb_break :=
  repeat match goal with
  | |- context [match ?x with _ => _ end] => destruct x eqn:?; cbn [sbs_def sbs_dirdefs sbs_types sbs_found sbs_orphan_sx sbs_orphans sbs_next sbs_errs sb_set_errs sb_with_errs]
  end.

Lemma sb_type_definition_errs cfg st n d :
  sb_type_definition cfg st n d =
  sb_set_errs (sb_type_definition cfg (sb_set_errs st []) n d)
              (sbs_errs st ++ sbs_errs (sb_type_definition cfg (sb_set_errs st []) n d)).
Proof.
  destruct st. unfold sb_type_definition, sb_with_errs, sb_set_errs. cbn.
  sb_break; rewrite ?app_nil_r; reflexivity.
Qed.

Lemma sb_type_extension_errs st n k x :
  sb_type_extension st n k x =
  sb_set_errs (sb_type_extension (sb_set_errs st []) n k x)
              (sbs_errs st ++ sbs_errs (sb_type_extension (sb_set_errs st []) n k x)).
Proof.
  destruct st. unfold sb_type_extension, sb_with_errs, sb_set_errs. cbn.
  sb_break; rewrite ?app_nil_r; reflexivity.
Qed.

Lemma sb_add_def_errs cfg st d :
  sb_add_def cfg st d =
  sb_set_errs (sb_add_def cfg (sb_set_errs st []) d)
              (sbs_errs st ++ sbs_errs (sb_add_def cfg (sb_set_errs st []) d)).
Proof.
  destruct d; cbn [sb_add_def]; try apply sb_type_definition_errs; try apply sb_type_extension_errs;
    destruct st; unfold sb_with_errs, sb_set_errs; cbn; sb_break; rewrite ?app_nil_r; reflexivity.
Qed.

(* equal states up to the order of the errors *)
Definition sb_state_eqv (a b : sb_state) : Prop :=
  sb_set_errs a [] = sb_set_errs b [] /\ Permutation (sbs_errs a) (sbs_errs b).

Lemma sb_state_eqv_refl a : sb_state_eqv a a.
Proof. split; [reflexivity|apply Permutation_refl]. Qed.

Lemma sb_state_eqv_trans a b c : sb_state_eqv a b -> sb_state_eqv b c -> sb_state_eqv a c.
Proof. intros [H1 P1] [H2 P2]. split; [congruence|eapply Permutation_trans; eassumption]. Qed.

Lemma sb_set_errs_idem st e e' : sb_set_errs (sb_set_errs st e) e' = sb_set_errs st e'.
Proof. reflexivity. Qed.

Lemma sb_add_def_eqv cfg a b d : sb_state_eqv a b -> sb_state_eqv (sb_add_def cfg a d) (sb_add_def cfg b d).
Proof.
  intros [H P]. rewrite (sb_add_def_errs cfg a d), (sb_add_def_errs cfg b d). rewrite H.
  split; [reflexivity|]. cbn [sbs_errs sb_set_errs]. apply Permutation_app_tail. exact P.
Qed.

Lemma sb_add_doc_eqv cfg doc : forall a b, sb_state_eqv a b -> sb_state_eqv (sb_add_doc cfg a doc) (sb_add_doc cfg b doc).
Proof.
  induction doc as [|d doc IH]; intros a b H; cbn; [exact H|]. apply IH, sb_add_def_eqv, H.
Qed.

(* results equal up to the order of the errors *)
Definition sb_result_perm (r1 r2 : sb_result) : Prop :=
  match r1, r2 with
  | SbBuilt s1 e1, SbBuilt s2 e2 => s1 = s2 /\ Permutation e1 e2
  | SbPanic, SbPanic => True
  | _, _ => False
  end.

Lemma sb_build_inner_errs cfg st :
  sb_build_inner cfg st =
  match sb_build_inner cfg (sb_set_errs st []) with
  | SbBuilt s e => SbBuilt s (sbs_errs st ++ e)
  | SbPanic => SbPanic
  end.
Proof.
  destruct st. unfold sb_build_inner, sb_set_errs. cbn.
  sb_break; rewrite ?app_nil_r, ?app_assoc; try reflexivity; try congruence.
Qed.

(* ---------------------------------------------------------------- small facts *)
Lemma sb_extend_type_some id t x t' e :
  sb_extend_type id t x = Some (t', e) ->
  et_name t' = et_name t /\ et_builtin t' = et_builtin t /\ sb_et_kind t' = sb_et_kind t
  /\ sb_ext_kind x = Some (sb_et_kind t).
Proof.
  destruct t, x; cbn; try discriminate;
    repeat match goal with |- context [let '(_, _) := ?p in _] => destruct p end;
    intros [= <- <-]; cbn; auto.
Qed.

Lemma sb_extend_type_none id t x k :
  sb_ext_kind x = Some k -> sb_extend_type id t x = None -> sbkind_eqb (sb_et_kind t) k = false.
Proof.
  destruct t, x; cbn; try discriminate; intros [= <-]; try reflexivity;
    repeat match goal with |- context [let '(_, _) := ?p in _] => destruct p end; discriminate.
Qed.

Lemma sbkind_eqb_refl k : sbkind_eqb k k = true.
Proof. destruct k; reflexivity. Qed.

Lemma sbkind_eqb_eq a b : sbkind_eqb a b = true <-> a = b.
Proof. destruct a, b; cbn; split; congruence. Qed.

Lemma sb_apply_queued_props q : forall t next t' n' e,
  sb_apply_queued t next q = (t', n', e) ->
  et_name t' = et_name t /\ et_builtin t' = et_builtin t /\ sb_et_kind t' = sb_et_kind t.
Proof.
  induction q as [|x q IH]; intros t next t' n' e; cbn [sb_apply_queued].
  - intros [= <- <- <-]. auto.
  - destruct (sb_extend_type next t x) as [[t1 e1]|] eqn:E.
    + destruct (sb_apply_queued t1 (next + 1) q) as [[t2 n2] e2] eqn:E2. intros [= <- <- <-].
      destruct (sb_extend_type_some _ _ _ _ _ E) as [? [? [? _]]]. destruct (IH _ _ _ _ _ E2) as [? [? ?]].
      repeat split; congruence.
    + apply IH.
Qed.

Lemma sb_apply_queued_app q1 q2 t next :
  sb_apply_queued t next (q1 ++ q2) =
  let '(t1, n1, e1) := sb_apply_queued t next q1 in
  let '(t2, n2, e2) := sb_apply_queued t1 n1 q2 in (t2, n2, e1 ++ e2).
Proof.
  revert t next. induction q1 as [|x q1 IH]; intros t next; cbn [app sb_apply_queued].
  - destruct (sb_apply_queued t next q2) as [[t2 n2] e2]. reflexivity.
  - destruct (sb_extend_type next t x) as [[t1 e1]|]; [|apply IH].
    rewrite IH. destruct (sb_apply_queued t1 (next + 1) q1) as [[ta na] ea].
    destruct (sb_apply_queued ta na q2) as [[tb nb] eb]. rewrite app_assoc. reflexivity.
Qed.

Lemma sb_type_of_def_name d t e : sb_type_of_def d = Some (t, e) -> def_name d = Some (et_name t) /\ et_builtin t = false.
Proof.
  destruct d; cbn; try discriminate;
    repeat match goal with |- context [let '(_, _) := ?p in _] => destruct p end;
    intros [= <- <-]; cbn; auto.
Qed.

Lemma sch_find_type_app_none n a b : sch_find_type n a = None -> sch_find_type n (a ++ b) = sch_find_type n b.
Proof.
  induction a as [|t a IH]; cbn; [reflexivity|]. destruct (streq n (et_name t)); [discriminate|exact IH].
Qed.

Lemma sb_update_type_app_none n t' a b :
  sch_find_type n a = None -> sb_update_type n t' (a ++ b) = a ++ sb_update_type n t' b.
Proof.
  induction a as [|t a IH]; cbn; [reflexivity|]. destruct (streq n (et_name t)); [discriminate|].
  intros H. f_equal. apply IH, H.
Qed.

Lemma sch_find_type_update n t' ts t :
  sch_find_type n ts = Some t -> et_name t' = n -> sch_find_type n (sb_update_type n t' ts) = Some t'.
Proof.
  induction ts as [|t0 ts IH]; cbn; [discriminate|].
  destruct (streq n (et_name t0)) eqn:E; intros H Hn; cbn.
  - rewrite Hn, streq_refl. reflexivity.
  - rewrite E. apply IH; assumption.
Qed.

Lemma sb_orphan_take_push n x q :
  sb_orphan_take n (sb_orphan_push n x q) =
  let '(l, q') := sb_orphan_take n q in (l ++ [x], q').
Proof.
  induction q as [|[k l] q IH]; cbn.
  - rewrite streq_refl. reflexivity.
  - destruct (streq n k) eqn:E; cbn; rewrite E; [reflexivity|].
    rewrite IH. destruct (sb_orphan_take n q). reflexivity.
Qed.

Lemma sb_extend_schema_def_all_app q1 q2 next sd :
  sb_extend_schema_def_all next sd (q1 ++ q2) =
  let '(sd1, n1, e1) := sb_extend_schema_def_all next sd q1 in
  let '(sd2, n2, e2) := sb_extend_schema_def_all n1 sd1 q2 in (sd2, n2, e1 ++ e2).
Proof.
  revert next sd. induction q1 as [|[dirs roots] q1 IH]; intros next sd; cbn [app sb_extend_schema_def_all].
  - destruct (sb_extend_schema_def_all next sd q2) as [[a b] c]. reflexivity.
  - destruct (sb_extend_schema_def next sd dirs roots) as [sd' e]. rewrite IH.
    destruct (sb_extend_schema_def_all (next + 1) sd' q1) as [[sa na] ea].
    destruct (sb_extend_schema_def_all na sa q2) as [[sb nb] eb]. rewrite app_assoc. reflexivity.
Qed.

Lemma sb_find_type_name n ts t : sch_find_type n ts = Some t -> et_name t = n /\ In t ts.
Proof.
  induction ts as [|t0 ts IH]; cbn; [discriminate|].
  destruct (streq n (et_name t0)) eqn:E.
  - intros [= ->]. apply streq_eq in E. auto.
  - intros H. destruct (IH H). auto.
Qed.

(* ---------------------------------------------------------------- an extension directly before / after its definition *)
Lemma sb_swap_type cfg st N k e d :
  sb_ext_kind e = Some k -> def_name d = Some N -> sb_type_of_def d <> None ->
  sb_state_eqv (sb_type_definition cfg (sb_type_extension st N k e) N d)
               (sb_type_extension (sb_type_definition cfg st N d) N k e).
Proof.
  intros Hk Hd Hdef. destruct st as [sd dds ts found osx orph next errs].
  unfold sb_type_extension at 1. unfold sb_type_definition at 2. cbn [sbs_types sbs_next sbs_errs sbs_orphans sbs_def sbs_dirdefs sbs_found sbs_orphan_sx].
  destruct (sch_find_type N ts) as [t|] eqn:Hfind.
  - (* the type exists: the definition collides (or is ignored), the extension applies to it *)
    destruct (sb_extend_type next t e) as [[t' ee]|] eqn:Hext.
    + destruct (sb_extend_type_some _ _ _ _ _ Hext) as [Hn [Hb _]].
      destruct (sb_find_type_name _ _ _ Hfind) as [HtN _].
      unfold sb_type_definition, sb_type_extension, sb_with_errs.
      cbn [sbs_types sbs_next sbs_errs sbs_orphans sbs_def sbs_dirdefs sbs_found sbs_orphan_sx].
      rewrite (sch_find_type_update N t' ts t Hfind) by congruence. rewrite Hb.
      destruct (sbc_ignore_builtin cfg && et_builtin t);
        [|destruct (sb_is_scalar_def d && et_builtin t)];
        cbn [sbs_types sbs_next sbs_errs sbs_orphans sbs_def sbs_dirdefs sbs_found sbs_orphan_sx];
        rewrite Hfind, Hext; (split; [reflexivity|]); cbn [sbs_errs].
      * apply Permutation_refl.
      * rewrite <- !app_assoc. apply Permutation_app_head, Permutation_app_comm.
      * rewrite <- !app_assoc. apply Permutation_app_head, Permutation_app_comm.
    + unfold sb_type_definition, sb_type_extension, sb_with_errs.
      cbn [sbs_types sbs_next sbs_errs sbs_orphans sbs_def sbs_dirdefs sbs_found sbs_orphan_sx].
      rewrite Hfind.
      destruct (sbc_ignore_builtin cfg && et_builtin t);
        [|destruct (sb_is_scalar_def d && et_builtin t)];
        cbn [sbs_types sbs_next sbs_errs sbs_orphans sbs_def sbs_dirdefs sbs_found sbs_orphan_sx];
        rewrite Hfind, Hext; (split; [reflexivity|]); cbn [sbs_errs].
      * apply Permutation_refl.
      * rewrite <- !app_assoc. apply Permutation_app_head, Permutation_app_comm.
      * rewrite <- !app_assoc. apply Permutation_app_head, Permutation_app_comm.
  - (* the type does not exist yet: queued and applied by the definition vs applied directly *)
    destruct (sb_type_of_def d) as [[t0 e0]|] eqn:Hof; [|congruence].
    unfold sb_type_definition.
    cbn [sbs_types sbs_next sbs_errs sbs_orphans sbs_def sbs_dirdefs sbs_found sbs_orphan_sx].
    rewrite Hfind, Hof, sb_orphan_take_push.
    destruct (sb_orphan_take N orph) as [q orph'].
    rewrite sb_apply_queued_app.
    destruct (sb_apply_queued t0 next q) as [[t1 n1] e1] eqn:Hq.
    cbn [sb_apply_queued].
    destruct (sb_apply_queued_props _ _ _ _ _ _ Hq) as [Hn1 [Hb1 Hk1]].
    destruct (sb_type_of_def_name _ _ _ Hof) as [Hn0 _].
    assert (HN : et_name t1 = N) by congruence.
    unfold sb_type_extension.
    cbn [sbs_types sbs_next sbs_errs sbs_orphans sbs_def sbs_dirdefs sbs_found sbs_orphan_sx].
    rewrite (sch_find_type_app_none _ _ _ Hfind). cbn [sch_find_type]. rewrite HN, streq_refl.
    unfold sb_queued_mismatches. rewrite flat_map_app. cbn [flat_map]. rewrite Hk, app_nil_r.
    destruct (sb_extend_type n1 t1 e) as [[t' ee]|] eqn:Hext.
    + destruct (sb_extend_type_some _ _ _ _ _ Hext) as [_ [_ [_ Hke]]].
      assert (sb_et_kind t0 = k) by congruence. subst k. rewrite sbkind_eqb_refl.
      rewrite (sb_update_type_app_none _ _ _ _ Hfind). cbn [sb_update_type]. rewrite HN, streq_refl.
      rewrite !app_nil_r.
      split; [reflexivity|]. cbn [sbs_errs]. rewrite <- !app_assoc.
      repeat apply Permutation_app_head. apply Permutation_app_comm.
    + pose proof (sb_extend_type_none _ _ _ _ Hk Hext) as Hne. rewrite Hk1 in Hne. rewrite Hne.
      unfold sb_with_errs. cbn [sbs_types sbs_next sbs_errs sbs_orphans sbs_def sbs_dirdefs sbs_found sbs_orphan_sx].
      split; [reflexivity|]. cbn [sbs_errs]. rewrite Hk1, app_nil_r, <- !app_assoc. apply Permutation_refl.
Qed.

Lemma sb_swap_schema cfg st dirs roots desc ddirs droots :
  sb_state_eqv (sb_add_def cfg (sb_add_def cfg st (XSchema dirs roots)) (DSchema desc ddirs droots))
               (sb_add_def cfg (sb_add_def cfg st (DSchema desc ddirs droots)) (XSchema dirs roots)).
Proof.
  destruct st as [sd dds ts found osx orph next errs]. cbn [sb_add_def sbs_found].
  destruct found; cbn [sbs_types sbs_next sbs_errs sbs_orphans sbs_def sbs_dirdefs sbs_found sbs_orphan_sx sb_with_errs].
  - destruct (sb_extend_schema_def next sd dirs roots) as [sd' e] eqn:E.
    unfold sb_state_eqv, sb_set_errs. cbn.
    split; [reflexivity|]. rewrite <- !app_assoc. apply Permutation_app_head, Permutation_app_comm.
  - destruct (sb_add_roots ODef _ droots) as [sd1 e1].
    rewrite sb_extend_schema_def_all_app.
    destruct (sb_extend_schema_def_all next sd1 osx) as [[sd2 n2] e2].
    cbn [sb_extend_schema_def_all sbs_types sbs_next sbs_errs sbs_orphans sbs_def sbs_dirdefs sbs_found sbs_orphan_sx].
    destruct (sb_extend_schema_def n2 sd2 dirs roots) as [sd3 e3].
    cbn [sbs_types sbs_next sbs_errs sbs_orphans sbs_def sbs_dirdefs sbs_found sbs_orphan_sx].
    rewrite app_nil_r. split; [reflexivity|]. cbn [sbs_errs]. rewrite <- !app_assoc. apply Permutation_refl.
Qed.

(* e is an extension of what d defines *)
Definition sb_extends (e d : definition) : bool :=
  match e, d with
  | XSchema _ _, DSchema _ _ _ => true
  | _, _ =>
    match sb_ext_name e, def_name d, sb_type_of_def d with
    | Some n, Some m, Some _ => streq n m
    | _, _, _ => false
    end
  end.

Lemma sb_add_def_ext cfg st e n k :
  sb_ext_name e = Some n -> sb_ext_kind e = Some k -> sb_add_def cfg st e = sb_type_extension st n k e.
Proof. destruct e; cbn; try discriminate; intros [= <-] [= <-]; reflexivity. Qed.

Lemma sb_add_def_typedef cfg st d n p :
  sb_type_of_def d = Some p -> def_name d = Some n -> sb_add_def cfg st d = sb_type_definition cfg st n d.
Proof. destruct d; cbn; try discriminate; intros _ [= <-]; reflexivity. Qed.

Lemma sb_ext_name_kind e n : sb_ext_name e = Some n -> exists k, sb_ext_kind e = Some k.
Proof. destruct e; cbn; try discriminate; eauto. Qed.

Lemma sb_swap_adjacent cfg st e d :
  sb_extends e d = true ->
  sb_state_eqv (sb_add_def cfg (sb_add_def cfg st e) d) (sb_add_def cfg (sb_add_def cfg st d) e).
Proof.
  intros H. unfold sb_extends in H.
  assert (Hcase : (exists dirs roots desc dd dr, e = XSchema dirs roots /\ d = DSchema desc dd dr) \/
                  (exists n p, sb_ext_name e = Some n /\ def_name d = Some n /\ sb_type_of_def d = Some p)).
  { destruct e; cbn in H; try discriminate.
    - destruct d; cbn in H; try discriminate. left. eauto 10.
    - right. destruct d; cbn in H; try discriminate;
        try (match type of H with match ?x with _ => _ end = true => destruct x; discriminate end);
        repeat (match type of H with context [let '(_, _) := ?p in _] => destruct p eqn:? end);
        apply streq_eq in H; subst; cbn;
        repeat match goal with H0 : _ = (_, _) |- _ => rewrite H0 end; eauto.
    - right. destruct d; cbn in H; try discriminate;
        try (match type of H with match ?x with _ => _ end = true => destruct x; discriminate end);
        repeat (match type of H with context [let '(_, _) := ?p in _] => destruct p eqn:? end);
        apply streq_eq in H; subst; cbn;
        repeat match goal with H0 : _ = (_, _) |- _ => rewrite H0 end; eauto.
    - right. destruct d; cbn in H; try discriminate;
        try (match type of H with match ?x with _ => _ end = true => destruct x; discriminate end);
        repeat (match type of H with context [let '(_, _) := ?p in _] => destruct p eqn:? end);
        apply streq_eq in H; subst; cbn;
        repeat match goal with H0 : _ = (_, _) |- _ => rewrite H0 end; eauto.
    - right. destruct d; cbn in H; try discriminate;
        try (match type of H with match ?x with _ => _ end = true => destruct x; discriminate end);
        repeat (match type of H with context [let '(_, _) := ?p in _] => destruct p eqn:? end);
        apply streq_eq in H; subst; cbn;
        repeat match goal with H0 : _ = (_, _) |- _ => rewrite H0 end; eauto.
    - right. destruct d; cbn in H; try discriminate;
        try (match type of H with match ?x with _ => _ end = true => destruct x; discriminate end);
        repeat (match type of H with context [let '(_, _) := ?p in _] => destruct p eqn:? end);
        apply streq_eq in H; subst; cbn;
        repeat match goal with H0 : _ = (_, _) |- _ => rewrite H0 end; eauto.
    - right. destruct d; cbn in H; try discriminate;
        try (match type of H with match ?x with _ => _ end = true => destruct x; discriminate end);
        repeat (match type of H with context [let '(_, _) := ?p in _] => destruct p eqn:? end);
        apply streq_eq in H; subst; cbn;
        repeat match goal with H0 : _ = (_, _) |- _ => rewrite H0 end; eauto. }
  destruct Hcase as [[dirs [roots [desc [dd [dr [-> ->]]]]]]|[n [p [He [Hd Hp]]]]].
  - apply sb_swap_schema.
  - destruct (sb_ext_name_kind _ _ He) as [k Hk].
    rewrite !(sb_add_def_ext cfg _ e n k He Hk), !(sb_add_def_typedef cfg _ d n p Hp Hd).
    apply sb_swap_type; [exact Hk|exact Hd|congruence].
Qed.

Lemma sb_build_inner_eqv cfg a b : sb_state_eqv a b -> sb_result_perm (sb_build_inner cfg a) (sb_build_inner cfg b).
Proof.
  intros [H P]. rewrite (sb_build_inner_errs cfg a), (sb_build_inner_errs cfg b), H.
  destruct (sb_build_inner cfg (sb_set_errs b [])); cbn; [|exact I].
  split; [reflexivity|]. apply Permutation_app_tail, P.
Qed.

Theorem sb_commute_adjacent cfg b0 pre e d post :
  sb_extends e d = true ->
  sb_result_perm (sb_build cfg b0 (pre ++ e :: d :: post)) (sb_build cfg b0 (pre ++ d :: e :: post)).
Proof.
  intros H. unfold sb_build, sb_build_docs, sb_add_docs. cbn [fold_left].
  rewrite !sb_add_doc_app. apply sb_build_inner_eqv.
  unfold sb_add_doc at 1 3. cbn [fold_left]. apply sb_add_doc_eqv, sb_swap_adjacent, H.
Qed.
