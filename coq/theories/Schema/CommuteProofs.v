(* C13, general form: an extension moved across its definition and any definitions in between that do
   not touch its target.  The builder never inspects extension ids, so it commutes with any renaming
   that maps fresh ids to fresh ids (parametricity); two independent steps commute up to such a renaming. *)
From ApolloVerif Require Import Base.Chars Ast.Ast Schema.Model Schema.Build Schema.ToAst Schema.Canon
  Schema.BuildProofs Schema.CanonProofs Schema.RebuildProofs Schema.InvProofs Schema.Builtin Schema.BuiltinProofs.
From Coq Require Import Permutation.

Lemma existsb_map_local {A B} (f : A -> B) p l : existsb p (map f l) = existsb (fun x => p (f x)) l.
Proof. induction l as [|x l IH]; cbn; [reflexivity|]. rewrite IH. reflexivity. Qed.

(* ---------------------------------------------------------------- renaming commutes with the pieces *)
Lemma sb_has_rn {A} (key : A -> str) f k (l : list (comp A)) : sb_has key k (rn_comps f l) = sb_has key k l.
Proof. unfold sb_has, rn_comps. rewrite existsb_map_local. reflexivity. Qed.

Lemma rn_comps_app {A} f (a b : list (comp A)) : rn_comps f (a ++ b) = rn_comps f a ++ rn_comps f b.
Proof. unfold rn_comps. apply map_app. Qed.

Lemma sb_extend_sticky_rn {A} (key : A -> str) f o (new : list A) : forall l,
  sb_extend_sticky key (rn_origin f o) (rn_comps f l) new =
  (rn_comps f (fst (sb_extend_sticky key o l new)), snd (sb_extend_sticky key o l new)).
Proof.
  induction new as [|x new IH]; intros l; cbn [sb_extend_sticky]; [reflexivity|].
  rewrite sb_has_rn. destruct (sb_has key (key x) l).
  - rewrite IH. destruct (sb_extend_sticky key o l new). reflexivity.
  - specialize (IH (l ++ [mkcomp o x])). rewrite rn_comps_app in IH. cbn in IH. exact IH.
Qed.

Lemma rn_comp_dirs f o ds : rn_comps f (sb_comp_dirs o ds) = sb_comp_dirs (rn_origin f o) ds.
Proof. unfold rn_comps, sb_comp_dirs. rewrite map_map. reflexivity. Qed.

Lemma sb_extend_type_rn f id t x :
  sb_extend_type (f id) (rn_type f t) x =
  match sb_extend_type id t x with Some (t', e) => Some (rn_type f t', e) | None => None end.
Proof.
  destruct t, x; cbn [sb_extend_type rn_type]; try reflexivity;
    change (OExt (f id)) with (rn_origin f (OExt id));
    rewrite ?sb_extend_sticky_rn;
    repeat match goal with |- context [sb_extend_sticky ?k ?o ?l ?n] => destruct (sb_extend_sticky k o l n) end;
    cbn [fst snd rn_type]; rewrite ?rn_comps_app, ?rn_comp_dirs; reflexivity.
Qed.

(* f maps the fresh ids of a state with counter `next` to the fresh ids from `nn` on *)
Definition cm_fresh (f : N -> N) (next nn : N) : Prop := forall j, f (next + j) = nn + j.

Lemma cm_fresh_0 f next nn : cm_fresh f next nn -> f next = nn.
Proof. intros H. specialize (H 0). rewrite !N.add_0_r in H. exact H. Qed.

Lemma cm_fresh_S f next nn : cm_fresh f next nn -> cm_fresh f (next + 1) (nn + 1).
Proof. intros H j. specialize (H (1 + j)). rewrite !N.add_assoc in H. exact H. Qed.

Lemma sb_apply_queued_next_le q : forall t next t' n' e, sb_apply_queued t next q = (t', n', e) -> next <= n'.
Proof.
  induction q as [|y q IHq]; intros t n t' n' e; cbn [sb_apply_queued].
  - intros [= _ <- _]. lia.
  - destruct (sb_extend_type n t y) as [[ta ea]|]; [|apply IHq].
    destruct (sb_apply_queued ta (n + 1) q) as [[tb nb] eb] eqn:Eb. intros [= _ <- _]. specialize (IHq _ _ _ _ _ Eb). lia.
Qed.

Lemma sb_extend_schema_def_all_next_le q : forall sd next sd' n' e,
  sb_extend_schema_def_all next sd q = (sd', n', e) -> next <= n'.
Proof.
  induction q as [|[d r] q IHq]; intros sd n sd' n' e; cbn [sb_extend_schema_def_all].
  - intros [= _ <- _]. lia.
  - destruct (sb_extend_schema_def n sd d r) as [sda ea].
    destruct (sb_extend_schema_def_all (n + 1) sda q) as [[sdb nb] eb] eqn:Eb. intros [= _ <- _].
    specialize (IHq _ _ _ _ _ Eb). lia.
Qed.

Lemma sb_apply_queued_rn f q : forall t next nn,
  cm_fresh f next nn ->
  sb_apply_queued (rn_type f t) nn q =
  let '(t', n', e) := sb_apply_queued t next q in (rn_type f t', nn + (n' - next), e).
Proof.
  induction q as [|x q IH]; intros t next nn Hf; cbn [sb_apply_queued].
  - rewrite N.sub_diag, N.add_0_r. reflexivity.
  - rewrite <- (cm_fresh_0 _ _ _ Hf), sb_extend_type_rn.
    destruct (sb_extend_type next t x) as [[t1 e1]|] eqn:E.
    + rewrite (cm_fresh_0 _ _ _ Hf). rewrite (IH t1 (next + 1) (nn + 1) (cm_fresh_S _ _ _ Hf)).
      destruct (sb_apply_queued t1 (next + 1) q) as [[t2 n2] e2] eqn:E2.
      pose proof (sb_apply_queued_next_le _ _ _ _ _ _ E2).
      f_equal. f_equal. lia.
    + rewrite (cm_fresh_0 _ _ _ Hf). apply IH, Hf.
Qed.

Lemma rn_comps_def_block {A} f (xs : list A) : rn_comps f (map (mkcomp ODef) xs) = map (mkcomp ODef) xs.
Proof. unfold rn_comps. rewrite map_map. reflexivity. Qed.

Lemma sb_type_of_def_rn f d t e : sb_type_of_def d = Some (t, e) -> rn_type f t = t.
Proof.
  intros Hd. destruct d; cbn [sb_type_of_def] in Hd; try discriminate; unfold sb_comp_dirs in Hd.
  - injection Hd as <- <-. cbn [rn_type]. rewrite rn_comps_def_block. reflexivity.
  - iv_sticky sb_name_key ODef (@nil (comp str)) impls. iv_sticky fd_name ODef (@nil (comp fielddef)) fields.
    injection Hd as <- <-. cbn [rn_type app]. rewrite !rn_comps_def_block. reflexivity.
  - iv_sticky sb_name_key ODef (@nil (comp str)) impls. iv_sticky fd_name ODef (@nil (comp fielddef)) fields.
    injection Hd as <- <-. cbn [rn_type app]. rewrite !rn_comps_def_block. reflexivity.
  - iv_sticky sb_name_key ODef (@nil (comp str)) members.
    injection Hd as <- <-. cbn [rn_type app]. rewrite !rn_comps_def_block. reflexivity.
  - iv_sticky ev_value ODef (@nil (comp enumvaldef)) values.
    injection Hd as <- <-. cbn [rn_type app]. rewrite !rn_comps_def_block. reflexivity.
  - iv_sticky iv_name ODef (@nil (comp inputvaldef)) fields.
    injection Hd as <- <-. cbn [rn_type app]. rewrite !rn_comps_def_block. reflexivity.
Qed.

Lemma sch_find_type_rn f n ts :
  sch_find_type n (map (rn_type f) ts) = option_map (rn_type f) (sch_find_type n ts).
Proof.
  induction ts as [|t ts IH]; cbn; [reflexivity|]. rewrite (proj1 (rn_type_props f t)).
  destruct (streq n (et_name t)); [reflexivity|exact IH].
Qed.

Lemma sb_update_type_rn f n t' ts :
  sb_update_type n (rn_type f t') (map (rn_type f) ts) = map (rn_type f) (sb_update_type n t' ts).
Proof.
  induction ts as [|t ts IH]; cbn; [reflexivity|]. rewrite (proj1 (rn_type_props f t)).
  destruct (streq n (et_name t)); cbn; [reflexivity|]. f_equal. exact IH.
Qed.

(* ---- the schema definition *)
Lemma sb_sd_root_rn f sd op : sb_sd_root (rn_sd f sd) op = rn_opt f (sb_sd_root sd op).
Proof. destruct op; reflexivity. Qed.

Lemma sb_sd_set_root_rn f sd op v : sb_sd_set_root (rn_sd f sd) op (rn_opt f v) = rn_sd f (sb_sd_set_root sd op v).
Proof. destruct op; reflexivity. Qed.

Lemma sb_add_roots_rn f o roots : forall sd,
  sb_add_roots (rn_origin f o) (rn_sd f sd) roots =
  (rn_sd f (fst (sb_add_roots o sd roots)), snd (sb_add_roots o sd roots)).
Proof.
  induction roots as [|[op n] roots IH]; intros sd; cbn [sb_add_roots]; [reflexivity|].
  rewrite sb_sd_root_rn. destruct (sb_sd_root sd op) as [c|]; cbn [rn_opt].
  - rewrite IH. destruct (sb_add_roots o sd roots). reflexivity.
  - change (Some (mkcomp (rn_origin f o) n)) with (rn_opt f (Some (mkcomp o n))).
    rewrite sb_sd_set_root_rn. apply IH.
Qed.

Lemma sb_extend_schema_def_rn f id sd dirs roots :
  sb_extend_schema_def (f id) (rn_sd f sd) dirs roots =
  (rn_sd f (fst (sb_extend_schema_def id sd dirs roots)), snd (sb_extend_schema_def id sd dirs roots)).
Proof.
  unfold sb_extend_schema_def. change (OExt (f id)) with (rn_origin f (OExt id)).
  rewrite <- sb_add_roots_rn. f_equal. unfold sb_sd_add_dirs, rn_sd. cbn [sd_desc sd_dirs sd_query sd_mutation sd_subscription].
  rewrite rn_comps_app, rn_comp_dirs. reflexivity.
Qed.

Lemma sb_extend_schema_def_all_rn f q : forall sd next nn,
  cm_fresh f next nn ->
  sb_extend_schema_def_all nn (rn_sd f sd) q =
  let '(sd', n', e) := sb_extend_schema_def_all next sd q in (rn_sd f sd', nn + (n' - next), e).
Proof.
  induction q as [|[dirs roots] q IH]; intros sd next nn Hf; cbn [sb_extend_schema_def_all].
  - rewrite N.sub_diag, N.add_0_r. reflexivity.
  - rewrite <- (cm_fresh_0 _ _ _ Hf), sb_extend_schema_def_rn.
    destruct (sb_extend_schema_def next sd dirs roots) as [sd1 e1]. cbn [fst snd].
    rewrite (cm_fresh_0 _ _ _ Hf), (IH sd1 (next + 1) (nn + 1) (cm_fresh_S _ _ _ Hf)).
    destruct (sb_extend_schema_def_all (next + 1) sd1 q) as [[sd2 n2] e2] eqn:E2.
    pose proof (sb_extend_schema_def_all_next_le _ _ _ _ _ _ E2).
    f_equal. f_equal. lia.
Qed.

(* ---------------------------------------------------------------- parametricity of one builder step *)
Definition rn_st (f : N -> N) (nn : N) (st : sb_state) : sb_state :=
  {| sbs_def := rn_sd f (sbs_def st); sbs_dirdefs := sbs_dirdefs st; sbs_types := map (rn_type f) (sbs_types st);
     sbs_found := sbs_found st; sbs_orphan_sx := sbs_orphan_sx st; sbs_orphans := sbs_orphans st;
     sbs_next := nn; sbs_errs := sbs_errs st |}.

Lemma rn_st_same f nn st : rn_st f (nn + (sbs_next st - sbs_next st)) st = rn_st f nn st.
Proof. rewrite N.sub_diag, N.add_0_r. reflexivity. Qed.

Lemma sb_type_definition_rn cfg f st n d nn :
  cm_fresh f (sbs_next st) nn ->
  sb_type_definition cfg (rn_st f nn st) n d =
  rn_st f (nn + (sbs_next (sb_type_definition cfg st n d) - sbs_next st)) (sb_type_definition cfg st n d).
Proof.
  intros Hf. unfold sb_type_definition. cbn [rn_st sbs_types sbs_orphans sbs_next sbs_errs sbs_def sbs_dirdefs sbs_found sbs_orphan_sx].
  rewrite sch_find_type_rn. destruct (sch_find_type n (sbs_types st)) as [prev|]; cbn [option_map].
  - rewrite (proj1 (proj2 (rn_type_props f prev))).
    destruct (sbc_ignore_builtin cfg && et_builtin prev); [rewrite rn_st_same; reflexivity|].
    destruct (sb_is_scalar_def d && et_builtin prev); unfold sb_with_errs; cbn [sbs_next]; rewrite N.sub_diag, N.add_0_r; reflexivity.
  - destruct (sb_type_of_def d) as [[t0 e0]|] eqn:Eof; [|rewrite rn_st_same; reflexivity].
    destruct (sb_orphan_take n (sbs_orphans st)) as [q orph'].
    rewrite <- (sb_type_of_def_rn f _ _ _ Eof) at 1. rewrite (sb_apply_queued_rn f q t0 (sbs_next st) nn Hf).
    destruct (sb_apply_queued t0 (sbs_next st) q) as [[t1 n1] e1] eqn:Eq.
    cbn [sbs_next]. unfold rn_st. cbn [sbs_types sbs_orphans sbs_next sbs_errs sbs_def sbs_dirdefs sbs_found sbs_orphan_sx].
    rewrite map_app. cbn [map]. reflexivity.
Qed.

Lemma sb_type_extension_rn f st n k x nn :
  cm_fresh f (sbs_next st) nn ->
  sb_type_extension (rn_st f nn st) n k x =
  rn_st f (nn + (sbs_next (sb_type_extension st n k x) - sbs_next st)) (sb_type_extension st n k x).
Proof.
  intros Hf. unfold sb_type_extension. cbn [rn_st sbs_types sbs_orphans sbs_next sbs_errs sbs_def sbs_dirdefs sbs_found sbs_orphan_sx].
  rewrite sch_find_type_rn. destruct (sch_find_type n (sbs_types st)) as [t|]; cbn [option_map].
  - rewrite <- (cm_fresh_0 _ _ _ Hf), sb_extend_type_rn.
    destruct (sb_extend_type (sbs_next st) t x) as [[t' e]|].
    + unfold rn_st. cbn [sbs_types sbs_orphans sbs_next sbs_errs sbs_def sbs_dirdefs sbs_found sbs_orphan_sx].
      rewrite sb_update_type_rn, (cm_fresh_0 _ _ _ Hf). f_equal. lia.
    + rewrite (proj2 (proj2 (rn_type_props f t))). unfold sb_with_errs, rn_st. cbn [sbs_types sbs_orphans sbs_next sbs_errs sbs_def sbs_dirdefs sbs_found sbs_orphan_sx].
      rewrite N.sub_diag, N.add_0_r, (cm_fresh_0 _ _ _ Hf). reflexivity.
  - unfold rn_st. cbn [sbs_types sbs_orphans sbs_next sbs_errs sbs_def sbs_dirdefs sbs_found sbs_orphan_sx].
    rewrite N.sub_diag, N.add_0_r. reflexivity.
Qed.

Lemma sb_add_def_rn cfg f st d nn :
  cm_fresh f (sbs_next st) nn ->
  sb_add_def cfg (rn_st f nn st) d =
  rn_st f (nn + (sbs_next (sb_add_def cfg st d) - sbs_next st)) (sb_add_def cfg st d).
Proof.
  intros Hf. destruct d; cbn [sb_add_def]; try (apply sb_type_definition_rn, Hf); try (apply sb_type_extension_rn, Hf);
    try (unfold sb_with_errs, rn_st; cbn [sbs_types sbs_orphans sbs_next sbs_errs sbs_def sbs_dirdefs sbs_found sbs_orphan_sx];
         rewrite N.sub_diag, N.add_0_r; reflexivity).
  - (* directive definition *)
    cbn [rn_st sbs_dirdefs]. destruct (sch_find_dirdef name (sbs_dirdefs st)) as [prev|].
    + destruct (dd_builtin prev); unfold sb_with_errs, rn_st; cbn [sbs_types sbs_orphans sbs_next sbs_errs sbs_def sbs_dirdefs sbs_found sbs_orphan_sx];
        rewrite N.sub_diag, N.add_0_r; reflexivity.
    + unfold rn_st; cbn [sbs_types sbs_orphans sbs_next sbs_errs sbs_def sbs_dirdefs sbs_found sbs_orphan_sx];
        rewrite N.sub_diag, N.add_0_r; reflexivity.
  - (* schema definition *)
    cbn [rn_st sbs_found sbs_next sbs_orphan_sx sbs_errs sbs_def sbs_dirdefs sbs_types sbs_orphans].
    destruct (sbs_found st).
    + unfold sb_with_errs, rn_st; cbn [sbs_types sbs_orphans sbs_next sbs_errs sbs_def sbs_dirdefs sbs_found sbs_orphan_sx];
        rewrite N.sub_diag, N.add_0_r; reflexivity.
    + destruct (sb_add_roots ODef {| sd_desc := desc; sd_dirs := sb_comp_dirs ODef dirs; sd_query := None; sd_mutation := None; sd_subscription := None |} roots) as [sd1 e1] eqn:E1.
      assert (Hsd1 : rn_sd f sd1 = sd1).
      { pose proof (sb_add_roots_rn f ODef roots {| sd_desc := desc; sd_dirs := sb_comp_dirs ODef dirs; sd_query := None; sd_mutation := None; sd_subscription := None |}) as H.
        rewrite E1 in H. cbn [fst snd rn_origin] in H.
        assert (Hz : rn_sd f {| sd_desc := desc; sd_dirs := sb_comp_dirs ODef dirs; sd_query := None; sd_mutation := None; sd_subscription := None |}
                     = {| sd_desc := desc; sd_dirs := sb_comp_dirs ODef dirs; sd_query := None; sd_mutation := None; sd_subscription := None |}).
        { unfold rn_sd. cbn [sd_desc sd_dirs sd_query sd_mutation sd_subscription rn_opt]. rewrite rn_comp_dirs. reflexivity. }
        rewrite Hz, E1 in H. injection H as H. symmetry. exact H. }
      rewrite <- Hsd1 at 1. rewrite (sb_extend_schema_def_all_rn f _ sd1 (sbs_next st) nn Hf).
      destruct (sb_extend_schema_def_all (sbs_next st) sd1 (sbs_orphan_sx st)) as [[sd2 n2] e2].
      unfold rn_st; cbn [sbs_types sbs_orphans sbs_next sbs_errs sbs_def sbs_dirdefs sbs_found sbs_orphan_sx]. reflexivity.
  - (* schema extension *)
    cbn [rn_st sbs_found sbs_next sbs_orphan_sx sbs_errs sbs_def sbs_dirdefs sbs_types sbs_orphans].
    destruct (sbs_found st).
    + rewrite <- (cm_fresh_0 _ _ _ Hf), sb_extend_schema_def_rn.
      destruct (sb_extend_schema_def (sbs_next st) (sbs_def st) dirs roots) as [sd' e]. cbn [fst snd].
      unfold rn_st; cbn [sbs_types sbs_orphans sbs_next sbs_errs sbs_def sbs_dirdefs sbs_found sbs_orphan_sx].
      rewrite (cm_fresh_0 _ _ _ Hf). f_equal. lia.
    + unfold rn_st; cbn [sbs_types sbs_orphans sbs_next sbs_errs sbs_def sbs_dirdefs sbs_found sbs_orphan_sx];
        rewrite N.sub_diag, N.add_0_r; reflexivity.
Qed.

(* ---------------------------------------------------------------- monotone counter *)
Lemma sb_add_def_next_le cfg st d : sbs_next st <= sbs_next (sb_add_def cfg st d).
Proof.
  destruct d; cbn [sb_add_def]; unfold sb_type_definition, sb_type_extension, sb_with_errs;
    repeat match goal with
           | |- context [match ?x with _ => _ end] => destruct x eqn:?
           end; cbn [sbs_next]; try lia;
    repeat match goal with
           | H : sb_apply_queued _ _ _ = _ |- _ => apply sb_apply_queued_next_le in H
           | H : sb_extend_schema_def_all _ _ _ = _ |- _ => apply sb_extend_schema_def_all_next_le in H
           end; lia.
Qed.

Lemma sb_add_def_next_errs cfg st d e : sbs_next (sb_add_def cfg (sb_set_errs st e) d) = sbs_next (sb_add_def cfg st d).
Proof. rewrite (sb_add_def_errs cfg (sb_set_errs st e) d), (sb_add_def_errs cfg st d). reflexivity. Qed.

(* ---------------------------------------------------------------- states equal up to a renaming of ids and the order of errors *)
Definition cm_rel (a b : sb_state) : Prop :=
  sbs_next a = sbs_next b /\
  exists f, (forall x y, f x = f y -> x = y) /\ (forall i, sbs_next a <= i -> f i = i) /\
            sb_set_errs (rn_st f (sbs_next a) a) [] = sb_set_errs b [] /\ Permutation (sbs_errs a) (sbs_errs b).

Lemma rn_st_set_errs f nn st e : rn_st f nn (sb_set_errs st e) = sb_set_errs (rn_st f nn st) e.
Proof. reflexivity. Qed.

Lemma cm_rel_add_def cfg a b d : cm_rel a b -> cm_rel (sb_add_def cfg a d) (sb_add_def cfg b d).
Proof.
  intros [Hn [f [Hinj [Hid [Hst Hp]]]]].
  assert (Hfresh : cm_fresh f (sbs_next a) (sbs_next a)).
  { intros j. apply Hid. lia. }
  pose proof (sb_add_def_rn cfg f (sb_set_errs a []) d (sbs_next a) Hfresh) as HP. cbn [sb_set_errs sbs_next] in HP.
  rewrite rn_st_set_errs, Hst in HP.
  pose proof (sb_add_def_next_le cfg (sb_set_errs a []) d) as Hle. cbn [sb_set_errs sbs_next] in Hle.
  replace (sbs_next a + (sbs_next (sb_add_def cfg (sb_set_errs a []) d) - sbs_next a))
    with (sbs_next (sb_add_def cfg (sb_set_errs a []) d)) in HP by lia.
  assert (Hna : sbs_next (sb_add_def cfg a d) = sbs_next (sb_add_def cfg (sb_set_errs a []) d)).
  { symmetry. apply sb_add_def_next_errs. }
  assert (Hnb : sbs_next (sb_add_def cfg b d) = sbs_next (sb_add_def cfg (sb_set_errs a []) d)).
  { rewrite <- (sb_add_def_next_errs cfg b d []), HP. reflexivity. }
  split; [congruence|]. exists f. split; [exact Hinj|]. split.
  - intros i Hi. apply Hid. rewrite Hna in Hi. lia.
  - rewrite Hna. rewrite (sb_add_def_errs cfg a d), (sb_add_def_errs cfg b d). rewrite HP.
    split.
    + cbn [sb_set_errs rn_st sbs_def sbs_dirdefs sbs_types sbs_found sbs_orphan_sx sbs_orphans sbs_next sbs_errs]. reflexivity.
    + cbn [sb_set_errs sbs_errs rn_st]. apply Permutation_app_tail, Hp.
Qed.

Lemma cm_rel_add_doc cfg doc : forall a b, cm_rel a b -> cm_rel (sb_add_doc cfg a doc) (sb_add_doc cfg b doc).
Proof. induction doc as [|d doc IH]; intros a b H; cbn; [exact H|]. apply IH, cm_rel_add_def, H. Qed.

Lemma rn_comps_id {A} (l : list (comp A)) : rn_comps (fun i => i) l = l.
Proof. unfold rn_comps. induction l as [|[[|i] v] l IH]; cbn; f_equal; assumption. Qed.

Lemma rn_type_id t : rn_type (fun i => i) t = t.
Proof. destruct t; cbn [rn_type]; rewrite ?rn_comps_id; reflexivity. Qed.

Lemma rn_sd_id sd : rn_sd (fun i => i) sd = sd.
Proof.
  destruct sd as [d dirs q m s]. unfold rn_sd. cbn [sd_desc sd_dirs sd_query sd_mutation sd_subscription]. rewrite rn_comps_id.
  destruct q as [[[|] ?]|], m as [[[|] ?]|], s as [[[|] ?]|]; reflexivity.
Qed.

Lemma rn_st_id st : rn_st (fun i => i) (sbs_next st) st = st.
Proof.
  destruct st. unfold rn_st. cbn. rewrite rn_sd_id. f_equal. induction sbs_types as [|t ts IH]; cbn; [reflexivity|].
  rewrite rn_type_id, IH. reflexivity.
Qed.

Lemma cm_rel_of_eqv a b : sbs_next a = sbs_next b -> sb_state_eqv a b -> cm_rel a b.
Proof.
  intros Hn [H P]. split; [exact Hn|]. exists (fun i => i). split; [auto|]. split; [auto|]. split; [|exact P].
  rewrite rn_st_id. exact H.
Qed.

Lemma cm_rel_refl a : cm_rel a a.
Proof. apply cm_rel_of_eqv; [reflexivity|apply sb_state_eqv_refl]. Qed.

Lemma rn_st_comp f g nn nn' st : rn_st g nn' (rn_st f nn st) = rn_st (fun i => g (f i)) nn' st.
Proof.
  unfold rn_st. cbn. rewrite rn_sd_comp, map_map. f_equal. apply map_ext. intros t. apply rn_type_comp.
Qed.

Lemma cm_rel_trans a b c : cm_rel a b -> cm_rel b c -> cm_rel a c.
Proof.
  intros [Hn1 [f [Hf1 [Hf2 [Hf3 Hp1]]]]] [Hn2 [g [Hg1 [Hg2 [Hg3 Hp2]]]]].
  split; [congruence|]. exists (fun i => g (f i)). split; [intros x y H; apply Hf1, Hg1, H|]. split.
  - intros i Hi. rewrite Hf2 by exact Hi. apply Hg2. rewrite <- Hn1. exact Hi.
  - split; [|eapply Permutation_trans; eassumption].
    rewrite <- Hg3. rewrite <- (rn_st_set_errs g), <- Hf3. rewrite rn_st_set_errs, rn_st_comp. rewrite Hn1. reflexivity.
Qed.

(* ---------------------------------------------------------------- what a definition touches *)
(* Some (Some n): the type named n; Some None: the schema definition; None: neither *)
Definition sb_target (d : definition) : option (option str) :=
  match d with
  | DSchema _ _ _ | XSchema _ _ => Some None
  | DScalar _ n _ | DObject _ n _ _ _ | DInterface _ n _ _ _ | DUnion _ n _ _ | DEnum _ n _ _ | DInput _ n _ _
  | XScalar n _ | XObject n _ _ _ | XInterface n _ _ _ | XUnion n _ _ | XEnum n _ _ | XInput n _ _ => Some (Some n)
  | DOperation _ _ _ _ _ | DFragment _ _ _ _ | DDirective _ _ _ _ _ => None
  end.

Definition sb_touches (tgt : option str) (d : definition) : bool :=
  match sb_target d with Some t => ta_opt_streq tgt t | None => false end.

Lemma ta_opt_streq_eq a b : ta_opt_streq a b = true <-> a = b.
Proof.
  destruct a, b; cbn; try (split; congruence). rewrite streq_eq. split; congruence.
Qed.

(* ---------------------------------------------------------------- frames *)
Definition cm_upd (n : str) (t'' : ext_type) (st : sb_state) : sb_state :=
  {| sbs_def := sbs_def st; sbs_dirdefs := sbs_dirdefs st; sbs_types := sb_update_type n t'' (sbs_types st);
     sbs_found := sbs_found st; sbs_orphan_sx := sbs_orphan_sx st; sbs_orphans := sbs_orphans st;
     sbs_next := sbs_next st; sbs_errs := sbs_errs st |}.

Lemma sch_find_type_update_other n m t'' ts :
  et_name t'' = n -> streq m n = false -> sch_find_type m (sb_update_type n t'' ts) = sch_find_type m ts.
Proof.
  intros Hn Hm. induction ts as [|t ts IH]; cbn; [reflexivity|].
  destruct (streq n (et_name t)) eqn:E; cbn.
  - apply streq_eq in E. rewrite Hn, Hm. rewrite <- E, Hm. reflexivity.
  - destruct (streq m (et_name t)); [reflexivity|exact IH].
Qed.

Lemma sb_update_type_app_found n t'' ts t1 t :
  sch_find_type n ts = Some t -> sb_update_type n t'' (ts ++ [t1]) = sb_update_type n t'' ts ++ [t1].
Proof.
  induction ts as [|t0 ts IH]; cbn; [discriminate|].
  destruct (streq n (et_name t0)); [reflexivity|]. intros H. cbn. f_equal. apply IH, H.
Qed.

Lemma sb_update_type_comm n m tn tm ts :
  streq m n = false -> et_name tn = n -> et_name tm = m ->
  sb_update_type m tm (sb_update_type n tn ts) = sb_update_type n tn (sb_update_type m tm ts).
Proof.
  intros Hmn Hn Hm. assert (Hnm : streq n m = false).
  { apply not_true_is_false. intros H. apply streq_eq in H. rewrite H, streq_refl in Hmn. discriminate. }
  induction ts as [|t ts IH]; cbn; [reflexivity|].
  destruct (streq n (et_name t)) eqn:En, (streq m (et_name t)) eqn:Em; cbn.
  - apply streq_eq in En, Em. assert (Heq : m = n) by congruence. rewrite Heq, streq_refl in Hmn. discriminate.
  - rewrite Hn, Hmn, En. reflexivity.
  - rewrite Hm, Hnm, Em. reflexivity.
  - rewrite En, Em. f_equal. exact IH.
Qed.

Lemma cm_frame_typedef cfg st M m N t t'' :
  sch_find_type N (sbs_types st) = Some t -> et_name t'' = N -> streq M N = false ->
  sb_type_definition cfg (cm_upd N t'' st) M m = cm_upd N t'' (sb_type_definition cfg st M m).
Proof.
  intros Hf Hn HM. unfold sb_type_definition. cbn [cm_upd sbs_types sbs_orphans sbs_next sbs_errs sbs_def sbs_dirdefs sbs_found sbs_orphan_sx].
  rewrite (sch_find_type_update_other N M t'' _ Hn HM).
  destruct (sch_find_type M (sbs_types st)) as [prev|].
  - destruct (sbc_ignore_builtin cfg && et_builtin prev); [reflexivity|].
    destruct (sb_is_scalar_def m && et_builtin prev); reflexivity.
  - destruct (sb_type_of_def m) as [[t0 e0]|]; [|reflexivity].
    destruct (sb_orphan_take M (sbs_orphans st)) as [q orph'].
    destruct (sb_apply_queued t0 (sbs_next st) q) as [[t1 n1] e1].
    unfold cm_upd. cbn [sbs_types sbs_orphans sbs_next sbs_errs sbs_def sbs_dirdefs sbs_found sbs_orphan_sx].
    rewrite (sb_update_type_app_found _ _ _ _ _ Hf). reflexivity.
Qed.

Lemma cm_frame_typeext st M k x N t t'' :
  sch_find_type N (sbs_types st) = Some t -> et_name t'' = N -> streq M N = false ->
  sb_type_extension (cm_upd N t'' st) M k x = cm_upd N t'' (sb_type_extension st M k x).
Proof.
  intros Hf Hn HM. unfold sb_type_extension. cbn [cm_upd sbs_types sbs_orphans sbs_next sbs_errs sbs_def sbs_dirdefs sbs_found sbs_orphan_sx].
  rewrite (sch_find_type_update_other N M t'' _ Hn HM).
  destruct (sch_find_type M (sbs_types st)) as [tm|] eqn:Em; [|reflexivity].
  destruct (sb_extend_type (sbs_next st) tm x) as [[tm' e]|] eqn:Ex; [|reflexivity].
  unfold cm_upd. cbn [sbs_types sbs_orphans sbs_next sbs_errs sbs_def sbs_dirdefs sbs_found sbs_orphan_sx].
  destruct (sb_extend_type_some _ _ _ _ _ Ex) as [Hname _]. destruct (sb_find_type_name _ _ _ Em) as [Hm _].
  rewrite (sb_update_type_comm N M t'' tm') by (auto; congruence). reflexivity.
Qed.

Lemma cm_frame_type cfg st m N t t'' :
  sch_find_type N (sbs_types st) = Some t -> et_name t'' = N -> sb_touches (Some N) m = false ->
  sb_add_def cfg (cm_upd N t'' st) m = cm_upd N t'' (sb_add_def cfg st m).
Proof.
  intros Hf Hn Ht. unfold sb_touches in Ht.
  destruct m; cbn [sb_add_def sb_target ta_opt_streq] in *;
    try (apply (cm_frame_typedef cfg st _ _ N t t'' Hf Hn);
         apply not_true_is_false; intros H; apply streq_eq in H; subst; rewrite streq_refl in Ht; discriminate);
    try (apply (cm_frame_typeext st _ _ _ N t t'' Hf Hn);
         apply not_true_is_false; intros H; apply streq_eq in H; subst; rewrite streq_refl in Ht; discriminate);
    unfold cm_upd, sb_with_errs; cbn [sbs_types sbs_orphans sbs_next sbs_errs sbs_def sbs_dirdefs sbs_found sbs_orphan_sx];
    repeat match goal with |- context [match ?x with _ => _ end] => destruct x end; reflexivity.
Qed.

Definition cm_upd_sd (sd'' : schema_def) (st : sb_state) : sb_state :=
  {| sbs_def := sd''; sbs_dirdefs := sbs_dirdefs st; sbs_types := sbs_types st;
     sbs_found := sbs_found st; sbs_orphan_sx := sbs_orphan_sx st; sbs_orphans := sbs_orphans st;
     sbs_next := sbs_next st; sbs_errs := sbs_errs st |}.

Lemma cm_frame_sd cfg st m sd'' :
  sb_touches None m = false -> sb_add_def cfg (cm_upd_sd sd'' st) m = cm_upd_sd sd'' (sb_add_def cfg st m).
Proof.
  intros Ht. unfold sb_touches in Ht.
  destruct m; cbn [sb_add_def sb_target ta_opt_streq] in *; try discriminate;
    unfold sb_type_definition, sb_type_extension, cm_upd_sd, sb_with_errs;
    cbn [sbs_types sbs_orphans sbs_next sbs_errs sbs_def sbs_dirdefs sbs_found sbs_orphan_sx];
    repeat match goal with |- context [match ?x with _ => _ end] => destruct x end; reflexivity.
Qed.

(* ---------------------------------------------------------------- ids below the counter *)
Lemma iv_olist_bound {A} next (L : list (comp A)) i : iv_olist next L -> In (OExt i) (ta_origins L) -> i < next.
Proof.
  intros [_ Hf] Hin. unfold ta_origins in Hin. apply in_map_iff in Hin. destruct Hin as [c [Hc Hin]].
  rewrite Forall_forall in Hf. specialize (Hf (iv_rank (c_origin c))). rewrite Hc in Hf. cbn [iv_rank] in Hf.
  assert (i + 1 <= next); [|lia]. apply Hf. unfold iv_ranks. apply in_map_iff. exists c. rewrite Hc. auto.
Qed.

Lemma iv_type_bound next t i : iv_type next t -> In (OExt i) (ta_type_origins t) -> i < next.
Proof.
  intros [_ Ho] Hin. destruct t; cbn [iv_type_olists ta_type_origins] in *;
    repeat match goal with H : _ /\ _ |- _ => destruct H end;
    rewrite ?in_app_iff in Hin; repeat (destruct Hin as [Hin|Hin]); (eapply iv_olist_bound; [|eassumption]); assumption.
Qed.

Definition cm_roots_bound (st : sb_state) : Prop :=
  forall op c, sb_sd_root (sbs_def st) op = Some c -> iv_rank (c_origin c) <= sbs_next st.

Lemma cm_add_roots_bound o roots B : forall sd sd' e,
  sb_add_roots o sd roots = (sd', e) -> iv_rank o <= B ->
  (forall op c, sb_sd_root sd op = Some c -> iv_rank (c_origin c) <= B) ->
  (forall op c, sb_sd_root sd' op = Some c -> iv_rank (c_origin c) <= B).
Proof.
  induction roots as [|[op n] roots IH]; intros sd sd' e; cbn [sb_add_roots].
  - intros [= <- <-] _ H. exact H.
  - destruct (sb_sd_root sd op) as [c0|] eqn:Er.
    + destruct (sb_add_roots o sd roots) as [sd1 e1] eqn:E1. intros [= <- <-]. apply (IH _ _ _ E1).
    + intros H Ho Hsd. apply (IH _ _ _ H Ho). intros op' c Hc. rewrite sb_sd_root_set in Hc.
      destruct op, op'; try (apply (Hsd _ _ Hc)); injection Hc as <-; exact Ho.
Qed.

Lemma cm_extend_sd_bound next sd dirs roots sd' e :
  sb_extend_schema_def next sd dirs roots = (sd', e) ->
  (forall op c, sb_sd_root sd op = Some c -> iv_rank (c_origin c) <= next) ->
  (forall op c, sb_sd_root sd' op = Some c -> iv_rank (c_origin c) <= next + 1).
Proof.
  unfold sb_extend_schema_def. intros H Hsd. apply (cm_add_roots_bound _ _ (next + 1) _ _ _ H); [cbn; lia|].
  intros op c Hc. assert (sb_sd_root sd op = Some c) by (destruct op; exact Hc). specialize (Hsd _ _ H0). lia.
Qed.

Lemma cm_extend_sd_all_bound q : forall next sd sd' n' e,
  sb_extend_schema_def_all next sd q = (sd', n', e) ->
  (forall op c, sb_sd_root sd op = Some c -> iv_rank (c_origin c) <= next) ->
  (forall op c, sb_sd_root sd' op = Some c -> iv_rank (c_origin c) <= n').
Proof.
  induction q as [|[dirs roots] q IH]; intros next sd sd' n' e; cbn [sb_extend_schema_def_all].
  - intros [= <- <- <-] H. exact H.
  - destruct (sb_extend_schema_def next sd dirs roots) as [sd1 e1] eqn:E1.
    destruct (sb_extend_schema_def_all (next + 1) sd1 q) as [[sd2 n2] e2] eqn:E2. intros [= <- <- <-] H.
    apply (IH _ _ _ _ _ E2). apply (cm_extend_sd_bound _ _ _ _ _ _ E1 H).
Qed.

Lemma cm_roots_bound_add_def cfg st d : cm_roots_bound st -> cm_roots_bound (sb_add_def cfg st d).
Proof.
  intros Hb. pose proof (sb_add_def_next_le cfg st d) as Hle. unfold cm_roots_bound in *.
  assert (Hsame : sbs_def (sb_add_def cfg st d) = sbs_def st ->
                  forall op c, sb_sd_root (sbs_def (sb_add_def cfg st d)) op = Some c ->
                               iv_rank (c_origin c) <= sbs_next (sb_add_def cfg st d)).
  { intros Heq op c Hc. rewrite Heq in Hc. specialize (Hb _ _ Hc). lia. }
  destruct d; try (apply Hsame; cbn [sb_add_def]; unfold sb_type_definition, sb_type_extension, sb_with_errs;
                   repeat match goal with |- context [match ?x with _ => _ end] => destruct x end; reflexivity).
  - (* schema definition *)
    cbn [sb_add_def] in *. destruct (sbs_found st); [intros op c Hc; apply (Hb op c Hc)|].
    destruct (sb_add_roots ODef _ roots) as [sd1 e1] eqn:E1.
    destruct (sb_extend_schema_def_all (sbs_next st) sd1 (sbs_orphan_sx st)) as [[sd2 n2] e2] eqn:E2.
    cbn [sbs_def sbs_next]. apply (cm_extend_sd_all_bound _ _ _ _ _ _ E2).
    apply (cm_add_roots_bound _ _ (sbs_next st) _ _ _ E1); [cbn; lia|]. intros [] c Hc; discriminate.
  - (* schema extension *)
    cbn [sb_add_def] in *. destruct (sbs_found st); [|intros op c Hc; apply (Hb op c Hc)].
    destruct (sb_extend_schema_def (sbs_next st) (sbs_def st) dirs roots) as [sd' e] eqn:E.
    cbn [sbs_def sbs_next]. apply (cm_extend_sd_bound _ _ _ _ _ _ E Hb).
Qed.

(* a renaming that fixes every id below the counter does nothing *)
Lemma cm_rn_fix b0 g st :
  iv_state b0 st -> cm_roots_bound st -> (forall i, i < sbs_next st -> g i = i) ->
  rn_sd g (sbs_def st) = sbs_def st /\ map (rn_type g) (sbs_types st) = sbs_types st.
Proof.
  intros [_ [[_ [HT _]] [Hsd _]]] Hr Hg. split.
  - rewrite <- (rn_sd_id (sbs_def st)) at 2. apply rn_sd_ext. intros i Hi. apply Hg.
    unfold ta_sd_origins in Hi. rewrite !in_app_iff in Hi. destruct Hi as [Hi|Hi]; [eapply iv_olist_bound; eassumption|].
    assert (Hopt : forall op c, sb_sd_root (sbs_def st) op = Some c -> c_origin c = OExt i -> i < sbs_next st).
    { intros op c Hc Ho. specialize (Hr _ _ Hc). rewrite Ho in Hr. cbn in Hr. lia. }
    destruct Hi as [Hi|[Hi|Hi]].
    + destruct (sd_query (sbs_def st)) as [c|] eqn:E; [|contradiction]. destruct Hi as [Hi|[]]. apply (Hopt OpQuery c); assumption.
    + destruct (sd_mutation (sbs_def st)) as [c|] eqn:E; [|contradiction]. destruct Hi as [Hi|[]]. apply (Hopt OpMutation c); assumption.
    + destruct (sd_subscription (sbs_def st)) as [c|] eqn:E; [|contradiction]. destruct Hi as [Hi|[]]. apply (Hopt OpSubscription c); assumption.
  - rewrite <- (map_id (sbs_types st)) at 2. apply map_ext_in. intros t Ht. rewrite <- (rn_type_id t) at 2.
    apply rn_type_ext. intros i Hi. apply Hg. rewrite Forall_forall in HT. eapply iv_type_bound; [apply HT, Ht|exact Hi].
Qed.

(* ---------------------------------------------------------------- two independent steps commute *)
Lemma sch_find_type_snoc_other n ts t1 : streq n (et_name t1) = false -> sch_find_type n (ts ++ [t1]) = sch_find_type n ts.
Proof.
  intros H. induction ts as [|t ts IH]; cbn; [rewrite H; reflexivity|]. destruct (streq n (et_name t)); [reflexivity|exact IH].
Qed.

Lemma cm_find_untouched cfg st m N :
  sb_touches (Some N) m = false ->
  sch_find_type N (sbs_types (sb_add_def cfg st m)) = sch_find_type N (sbs_types st).
Proof.
  intros Ht. unfold sb_touches in Ht.
  assert (Hdef : forall M d, streq N M = false -> def_name d = Some M ->
                 sch_find_type N (sbs_types (sb_type_definition cfg st M d)) = sch_find_type N (sbs_types st)).
  { intros M d HM Hd. unfold sb_type_definition. destruct (sch_find_type M (sbs_types st)) as [prev|].
    - destruct (sbc_ignore_builtin cfg && et_builtin prev); [reflexivity|]. destruct (sb_is_scalar_def d && et_builtin prev); reflexivity.
    - destruct (sb_type_of_def d) as [[t0 e0]|] eqn:Eof; [|reflexivity].
      destruct (sb_orphan_take M (sbs_orphans st)) as [q orph'].
      destruct (sb_apply_queued t0 (sbs_next st) q) as [[t1 n1] e1] eqn:Eq. cbn [sbs_types].
      destruct (sb_apply_queued_props _ _ _ _ _ _ Eq) as [Hn1 _]. destruct (sb_type_of_def_name _ _ _ Eof) as [Hn0 _].
      apply sch_find_type_snoc_other. assert (et_name t1 = M) by congruence. congruence. }
  assert (Hext : forall M k x, streq N M = false ->
                 sch_find_type N (sbs_types (sb_type_extension st M k x)) = sch_find_type N (sbs_types st)).
  { intros M k x HM. unfold sb_type_extension. destruct (sch_find_type M (sbs_types st)) as [tm|] eqn:Em; [|reflexivity].
    destruct (sb_extend_type (sbs_next st) tm x) as [[tm' e]|] eqn:Ex; [|reflexivity]. cbn [sbs_types].
    destruct (sb_extend_type_some _ _ _ _ _ Ex) as [Hname _]. destruct (sb_find_type_name _ _ _ Em) as [Hm _].
    apply sch_find_type_update_other; congruence. }
  destruct m; cbn [sb_add_def sb_target ta_opt_streq] in *;
    try (apply Hdef; [exact Ht|reflexivity]); try (apply Hext; exact Ht);
    unfold sb_with_errs; cbn [sbs_types];
    repeat match goal with |- context [match ?x with _ => _ end] => destruct x end; reflexivity.
Qed.

Lemma sb_extend_type_none_id id id' t x : sb_extend_type id t x = None -> sb_extend_type id' t x = None.
Proof.
  destruct t, x; cbn [sb_extend_type]; try reflexivity;
    repeat match goal with |- context [sb_extend_sticky ?k ?o ?l ?n] => destruct (sb_extend_sticky k o l n) end; discriminate.
Qed.

(* ---------------------------------------------------------------- the renaming of one swap *)
Definition cm_rho (n km i : N) : N :=
  if i =? n then n + km else if (n <? i) && (i <=? n + km) then i - 1 else i.
Definition cm_g (n km i : N) : N :=
  if i =? n then n + km else if n <? i then i - 1 else i.

Lemma cm_rho_inj n km x y : cm_rho n km x = cm_rho n km y -> x = y.
Proof.
  unfold cm_rho.
  destruct (x =? n) eqn:E1, (y =? n) eqn:E2, ((n <? x) && (x <=? n + km)) eqn:E3, ((n <? y) && (y <=? n + km)) eqn:E4; lia.
Qed.

Lemma cm_rho_id n km i : n + 1 + km <= i -> cm_rho n km i = i.
Proof. unfold cm_rho. intros H. destruct (i =? n) eqn:E1, ((n <? i) && (i <=? n + km)) eqn:E3; lia. Qed.

Lemma cm_g_fix n km i : i < n -> cm_g n km i = i.
Proof. unfold cm_g. intros H. destruct (i =? n) eqn:E1, (n <? i) eqn:E3; lia. Qed.

Lemma cm_g_fresh n km : cm_fresh (cm_g n km) (n + 1) n.
Proof. intros j. unfold cm_g. destruct (n + 1 + j =? n) eqn:E1, (n <? n + 1 + j) eqn:E3; lia. Qed.

Lemma cm_g_rho n km i : i < n + 1 + km -> cm_g n km i = cm_rho n km i.
Proof. unfold cm_g, cm_rho. intros H. destruct (i =? n) eqn:E1, (n <? i) eqn:E2, (i <=? n + km) eqn:E3; cbn; lia. Qed.

Lemma cm_g_n n km : cm_g n km n = n + km.
Proof. unfold cm_g. rewrite N.eqb_refl. reflexivity. Qed.

Lemma sb_add_def_strip cfg st d :
  sb_set_errs (sb_add_def cfg st d) [] = sb_set_errs (sb_add_def cfg (sb_set_errs st []) d) [].
Proof. rewrite (sb_add_def_errs cfg st d). reflexivity. Qed.

Lemma sb_add_def_errs_split cfg st d :
  sbs_errs (sb_add_def cfg st d) = sbs_errs st ++ sbs_errs (sb_add_def cfg (sb_set_errs st []) d).
Proof. rewrite (sb_add_def_errs cfg st d). reflexivity. Qed.

Lemma rn_st_ext b0 f g nn st :
  iv_state b0 st -> cm_roots_bound st -> (forall i, i < sbs_next st -> f i = g i) -> rn_st f nn st = rn_st g nn st.
Proof.
  intros [_ [[_ [HT _]] [Hsd _]]] Hr Hfg. unfold rn_st. f_equal.
  - apply rn_sd_ext. intros i Hi. apply Hfg.
    unfold ta_sd_origins in Hi. rewrite !in_app_iff in Hi. destruct Hi as [Hi|Hi]; [eapply iv_olist_bound; eassumption|].
    assert (Hopt : forall op c, sb_sd_root (sbs_def st) op = Some c -> c_origin c = OExt i -> i < sbs_next st).
    { intros op c Hc Ho. specialize (Hr _ _ Hc). rewrite Ho in Hr. cbn in Hr. lia. }
    destruct Hi as [Hi|[Hi|Hi]].
    + destruct (sd_query (sbs_def st)) as [c|] eqn:E; [|contradiction]. destruct Hi as [Hi|[]]. apply (Hopt OpQuery c); assumption.
    + destruct (sd_mutation (sbs_def st)) as [c|] eqn:E; [|contradiction]. destruct Hi as [Hi|[]]. apply (Hopt OpMutation c); assumption.
    + destruct (sd_subscription (sbs_def st)) as [c|] eqn:E; [|contradiction]. destruct Hi as [Hi|[]]. apply (Hopt OpSubscription c); assumption.
  - apply map_ext_in. intros t Ht. apply rn_type_ext. intros i Hi. apply Hfg.
    rewrite Forall_forall in HT. eapply iv_type_bound; [apply HT, Ht|exact Hi].
Qed.

Lemma iv_state_set_errs b0 st e : iv_state b0 st -> iv_state b0 (sb_set_errs st e).
Proof. intros H. exact H. Qed.
Lemma cm_roots_bound_set_errs st e : cm_roots_bound st -> cm_roots_bound (sb_set_errs st e).
Proof. intros H. exact H. Qed.

(* an extension of an existing type and a definition that does not touch that type commute *)
Lemma cm_swap_type cfg b0 st e m N k t :
  iv_state b0 st -> cm_roots_bound st -> iv_def_ok m ->
  sb_ext_name e = Some N -> sb_ext_kind e = Some k ->
  sch_find_type N (sbs_types st) = Some t -> sb_touches (Some N) m = false ->
  cm_rel (sb_add_def cfg (sb_add_def cfg st e) m) (sb_add_def cfg (sb_add_def cfg st m) e).
Proof.
  intros Hinv Hrb Hok He Hk Hfind Htouch.
  set (n := sbs_next st).
  pose proof (cm_find_untouched cfg st m N Htouch) as HfindB. rewrite Hfind in HfindB.
  rewrite (sb_add_def_ext cfg (sb_add_def cfg st m) e N k He Hk).
  rewrite (sb_add_def_ext cfg st e N k He Hk).
  unfold sb_type_extension at 1. rewrite Hfind.
  unfold sb_type_extension at 1. rewrite HfindB.
  destruct (sb_extend_type (sbs_next st) t e) as [[t' ee]|] eqn:Ext.
  2:{ (* kind mismatch: an error on both sides *)
    rewrite (sb_extend_type_none_id _ (sbs_next (sb_add_def cfg st m)) _ _ Ext).
    apply cm_rel_of_eqv.
    - change (sb_with_errs st [SbeTypeExtensionKindMismatch N k (sb_et_kind t)]) with (sb_set_errs st (sbs_errs st ++ [SbeTypeExtensionKindMismatch N k (sb_et_kind t)])).
      rewrite sb_add_def_next_errs. reflexivity.
    - split.
      + rewrite sb_add_def_strip.
        change (sb_set_errs (sb_with_errs (sb_add_def cfg st m) [SbeTypeExtensionKindMismatch N k (sb_et_kind t)]) []) with (sb_set_errs (sb_add_def cfg st m) []).
        rewrite (sb_add_def_strip cfg st m). reflexivity.
      + rewrite sb_add_def_errs_split. unfold sb_with_errs. cbn [sbs_errs sb_set_errs].
        rewrite (sb_add_def_errs_split cfg st m). rewrite <- !app_assoc. apply Permutation_app_head, Permutation_app_comm. }
  (* the extension applies *)
  set (st0 := sb_set_errs st []).
  set (B1 := sb_add_def cfg st0 m).
  set (km := sbs_next B1 - n).
  assert (HleB : n <= sbs_next B1) by (apply (sb_add_def_next_le cfg st0 m)).
  destruct (sb_extend_type_some _ _ _ _ _ Ext) as [Hn' _]. destruct (sb_find_type_name _ _ _ Hfind) as [HtN _].
  assert (Hinv0 : iv_state b0 st0) by exact Hinv. assert (Hrb0 : cm_roots_bound st0) by exact Hrb.
  destruct (cm_rn_fix b0 (cm_g n km) st0 Hinv0 Hrb0 (fun i Hi => cm_g_fix n km i Hi)) as [Hfix_sd Hfix_ty].
  (* the same extension applied with the later id *)
  pose proof (sb_extend_type_rn (cm_g n km) n t e) as Hrn. fold n in Ext. rewrite Ext, cm_g_n in Hrn.
  assert (Hfix_t : rn_type (cm_g n km) t = t).
  { rewrite <- (rn_type_id t) at 2. apply rn_type_ext. intros i Hi. apply cm_g_fix.
    destruct Hinv as [_ [HT _]]. eapply iv_type_bound; [eapply iv_types_find; eassumption|exact Hi]. }
  rewrite Hfix_t in Hrn. set (t'' := rn_type (cm_g n km) t') in *.
  assert (Hn'' : et_name t'' = N) by (unfold t''; rewrite (proj1 (rn_type_props _ t')); congruence).
  (* side A, errors stripped *)
  set (A1 := {| sbs_def := sbs_def st; sbs_dirdefs := sbs_dirdefs st; sbs_types := sb_update_type N t' (sbs_types st);
                sbs_found := sbs_found st; sbs_orphan_sx := sbs_orphan_sx st; sbs_orphans := sbs_orphans st;
                sbs_next := n + 1; sbs_errs := [] |}).
  set (A2 := sb_add_def cfg A1 m).
  assert (HA1inv : iv_state b0 A1 /\ cm_roots_bound A1).
  { assert (HA1 : A1 = sb_set_errs (sb_add_def cfg st0 e) []).
    { rewrite (sb_add_def_ext cfg st0 e N k He Hk). unfold sb_type_extension. cbn [st0 sb_set_errs sbs_types sbs_next].
      rewrite Hfind. fold n. rewrite Ext. reflexivity. }
    rewrite HA1. split.
    - apply iv_state_set_errs, iv_add_def; [exact Hinv0|]. destruct e; try exact Logic.I; discriminate.
    - apply cm_roots_bound_set_errs, cm_roots_bound_add_def, Hrb0. }
  destruct HA1inv as [HA1i HA1r].
  pose proof (sb_add_def_rn cfg (cm_g n km) A1 m n (cm_g_fresh n km)) as HP. fold A2 in HP.
  assert (HrnA1 : rn_st (cm_g n km) n A1 = cm_upd N t'' st0).
  { unfold rn_st, cm_upd, A1, st0. cbn [sbs_def sbs_dirdefs sbs_types sbs_found sbs_orphan_sx sbs_orphans sbs_next sbs_errs sb_set_errs].
    cbn [st0 sb_set_errs sbs_def sbs_types] in Hfix_sd, Hfix_ty.
    rewrite Hfix_sd, <- sb_update_type_rn, Hfix_ty. reflexivity. }
  rewrite HrnA1 in HP. rewrite (cm_frame_type cfg st0 m N t t'' Hfind Hn'' Htouch) in HP. fold B1 in HP.
  (* the counters *)
  assert (HleA : n + 1 <= sbs_next A2) by (apply (sb_add_def_next_le cfg A1 m)).
  assert (HnA2 : sbs_next A2 = n + 1 + km).
  { pose proof (f_equal sbs_next HP) as Hq. cbn [cm_upd rn_st sbs_next] in Hq. cbn [A1 sbs_next] in Hq. unfold km. lia. }
  (* from g to the injective rho *)
  assert (HA2inv : iv_state b0 A2 /\ cm_roots_bound A2).
  { split; [apply iv_add_def; assumption|apply cm_roots_bound_add_def; assumption]. }
  destruct HA2inv as [HA2i HA2r].
  assert (Hrho : rn_st (cm_rho n km) (n + 1 + km) A2 = rn_st (cm_g n km) (n + 1 + km) A2).
  { apply (rn_st_ext b0); [assumption|assumption|]. intros i Hi. symmetry. apply cm_g_rho. rewrite HnA2 in Hi. exact Hi. }
  (* assemble *)
  assert (HnextA : sbs_next (sb_add_def cfg
            {| sbs_def := sbs_def st; sbs_dirdefs := sbs_dirdefs st; sbs_types := sb_update_type N t' (sbs_types st);
               sbs_found := sbs_found st; sbs_orphan_sx := sbs_orphan_sx st; sbs_orphans := sbs_orphans st;
               sbs_next := sbs_next st + 1; sbs_errs := sbs_errs st ++ ee |} m) = n + 1 + km).
  { rewrite <- HnA2. unfold A2. rewrite <- (sb_add_def_next_errs cfg _ m []). reflexivity. }
  assert (HnextB : sbs_next (sb_add_def cfg st m) = n + km).
  { rewrite <- (sb_add_def_next_errs cfg st m []). fold st0 B1. unfold km. lia. }
  rewrite HnextB. rewrite Hrn.
  split; [cbn [sbs_next]; rewrite HnextA; lia|].
  exists (cm_rho n km). split; [apply cm_rho_inj|]. split; [intros i Hi; apply cm_rho_id; rewrite HnextA in Hi; exact Hi|].
  rewrite HnextA. split.
  - (* the states *)
    rewrite <- rn_st_set_errs, sb_add_def_strip. cbn [sb_set_errs sbs_def sbs_dirdefs sbs_types sbs_found sbs_orphan_sx sbs_orphans sbs_next].
    match goal with |- rn_st ?f ?nn ?X = ?R => change (rn_st f nn (sb_set_errs A2 []) = R) end.
    rewrite rn_st_set_errs, Hrho.
    change (sbs_next A1) with (n + 1) in HP. replace (n + (sbs_next A2 - (n + 1))) with (n + km) in HP by lia.
    transitivity (sb_set_errs (rn_st (cm_g n km) (n + 1 + km) A2) []); [reflexivity|].
    assert (Hq : rn_st (cm_g n km) (n + 1 + km) A2 =
                 {| sbs_def := sbs_def (cm_upd N t'' B1); sbs_dirdefs := sbs_dirdefs (cm_upd N t'' B1);
                    sbs_types := sbs_types (cm_upd N t'' B1); sbs_found := sbs_found (cm_upd N t'' B1);
                    sbs_orphan_sx := sbs_orphan_sx (cm_upd N t'' B1); sbs_orphans := sbs_orphans (cm_upd N t'' B1);
                    sbs_next := n + 1 + km; sbs_errs := sbs_errs (cm_upd N t'' B1) |}).
    { rewrite HP. reflexivity. }
    rewrite Hq. cbn [cm_upd sb_set_errs sbs_def sbs_dirdefs sbs_types sbs_found sbs_orphan_sx sbs_orphans sbs_next sbs_errs].
    pose proof (sb_add_def_strip cfg st m) as Hs. fold st0 B1 in Hs.
    pose proof (f_equal sbs_def Hs) as H1. pose proof (f_equal sbs_dirdefs Hs) as H2. pose proof (f_equal sbs_types Hs) as H3.
    pose proof (f_equal sbs_found Hs) as H4. pose proof (f_equal sbs_orphan_sx Hs) as H5. pose proof (f_equal sbs_orphans Hs) as H6.
    cbn [sb_set_errs sbs_def sbs_dirdefs sbs_types sbs_found sbs_orphan_sx sbs_orphans] in H1, H2, H3, H4, H5, H6.
    rewrite H1, H2, H3, H4, H5, H6. unfold sb_set_errs.
    cbn [sbs_def sbs_dirdefs sbs_types sbs_found sbs_orphan_sx sbs_orphans sbs_next]. f_equal. lia.
  - (* the errors *)
    rewrite sb_add_def_errs_split. cbn [sbs_errs sb_set_errs]. fold n A1 A2.
    rewrite (sb_add_def_errs_split cfg st m). fold st0 B1.
    assert (HeA : sbs_errs A2 = sbs_errs B1).
    { pose proof (f_equal sbs_errs HP) as Hq. cbn [cm_upd rn_st sbs_errs] in Hq. symmetry. exact Hq. }
    match goal with |- Permutation (?a ++ sbs_errs ?X) ?R => change (Permutation (a ++ sbs_errs A2) R) end.
    rewrite HeA. rewrite <- !app_assoc. apply Permutation_app_head, Permutation_app_comm.
Qed.

Lemma cm_sd_untouched cfg st m :
  sb_touches None m = false ->
  sbs_def (sb_add_def cfg st m) = sbs_def st /\ sbs_found (sb_add_def cfg st m) = sbs_found st.
Proof.
  intros Ht. unfold sb_touches in Ht.
  destruct m; cbn [sb_add_def sb_target ta_opt_streq] in *; try discriminate;
    unfold sb_type_definition, sb_type_extension, sb_with_errs;
    repeat match goal with |- context [match ?x with _ => _ end] => destruct x end; auto.
Qed.

(* a schema extension (after the schema definition) and a definition that is not a schema definition or
   extension commute *)
Lemma cm_swap_sd cfg b0 st dirs roots m :
  iv_state b0 st -> cm_roots_bound st -> iv_def_ok m ->
  sbs_found st = true -> sb_touches None m = false ->
  cm_rel (sb_add_def cfg (sb_add_def cfg st (XSchema dirs roots)) m)
         (sb_add_def cfg (sb_add_def cfg st m) (XSchema dirs roots)).
Proof.
  intros Hinv Hrb Hok Hfound Htouch.
  set (n := sbs_next st).
  destruct (cm_sd_untouched cfg st m Htouch) as [HdefB HfoundB].
  cbn [sb_add_def]. rewrite HfoundB, Hfound, HdefB.
  destruct (sb_extend_schema_def (sbs_next st) (sbs_def st) dirs roots) as [sd' ee] eqn:Ext.
  set (st0 := sb_set_errs st []).
  set (B1 := sb_add_def cfg st0 m).
  set (km := sbs_next B1 - n).
  assert (HleB : n <= sbs_next B1) by (apply (sb_add_def_next_le cfg st0 m)).
  assert (Hinv0 : iv_state b0 st0) by exact Hinv. assert (Hrb0 : cm_roots_bound st0) by exact Hrb.
  destruct (cm_rn_fix b0 (cm_g n km) st0 Hinv0 Hrb0 (fun i Hi => cm_g_fix n km i Hi)) as [Hfix_sd Hfix_ty].
  cbn [st0 sb_set_errs sbs_def sbs_types] in Hfix_sd, Hfix_ty.
  pose proof (sb_extend_schema_def_rn (cm_g n km) n (sbs_def st) dirs roots) as Hrn. fold n in Ext.
  rewrite Ext, cm_g_n, Hfix_sd in Hrn. cbn [fst snd] in Hrn. set (sd'' := rn_sd (cm_g n km) sd') in *.
  set (A1 := {| sbs_def := sd'; sbs_dirdefs := sbs_dirdefs st; sbs_types := sbs_types st;
                sbs_found := true; sbs_orphan_sx := sbs_orphan_sx st; sbs_orphans := sbs_orphans st;
                sbs_next := n + 1; sbs_errs := [] |}).
  set (A2 := sb_add_def cfg A1 m).
  assert (HA1inv : iv_state b0 A1 /\ cm_roots_bound A1).
  { assert (HA1 : A1 = sb_set_errs (sb_add_def cfg st0 (XSchema dirs roots)) []).
    { cbn [sb_add_def st0 sb_set_errs sbs_found sbs_next sbs_def]. rewrite Hfound. fold n. rewrite Ext. reflexivity. }
    rewrite HA1. split.
    - apply iv_state_set_errs, iv_add_def; [exact Hinv0|exact Logic.I].
    - apply cm_roots_bound_set_errs, cm_roots_bound_add_def, Hrb0. }
  destruct HA1inv as [HA1i HA1r].
  pose proof (sb_add_def_rn cfg (cm_g n km) A1 m n (cm_g_fresh n km)) as HP. fold A2 in HP.
  assert (HrnA1 : rn_st (cm_g n km) n A1 = cm_upd_sd sd'' (sb_set_errs {| sbs_def := sbs_def st; sbs_dirdefs := sbs_dirdefs st; sbs_types := sbs_types st;
                sbs_found := true; sbs_orphan_sx := sbs_orphan_sx st; sbs_orphans := sbs_orphans st;
                sbs_next := n; sbs_errs := [] |} [])).
  { unfold rn_st, cm_upd_sd, A1. cbn [sbs_def sbs_dirdefs sbs_types sbs_found sbs_orphan_sx sbs_orphans sbs_next sbs_errs sb_set_errs].
    rewrite Hfix_ty. reflexivity. }
  assert (Hst0 : sb_set_errs {| sbs_def := sbs_def st; sbs_dirdefs := sbs_dirdefs st; sbs_types := sbs_types st;
                sbs_found := true; sbs_orphan_sx := sbs_orphan_sx st; sbs_orphans := sbs_orphans st;
                sbs_next := n; sbs_errs := [] |} [] = st0).
  { unfold st0, sb_set_errs. cbn. rewrite Hfound. reflexivity. }
  rewrite Hst0 in HrnA1.
  rewrite HrnA1 in HP. rewrite (cm_frame_sd cfg st0 m sd'' Htouch) in HP. fold B1 in HP.
  assert (HleA : n + 1 <= sbs_next A2) by (apply (sb_add_def_next_le cfg A1 m)).
  change (sbs_next A1) with (n + 1) in HP.
  assert (HnA2 : sbs_next A2 = n + 1 + km).
  { pose proof (f_equal sbs_next HP) as Hq. cbn [cm_upd_sd rn_st sbs_next] in Hq. unfold km. lia. }
  assert (HA2inv : iv_state b0 A2 /\ cm_roots_bound A2).
  { split; [apply iv_add_def; assumption|apply cm_roots_bound_add_def; assumption]. }
  destruct HA2inv as [HA2i HA2r].
  assert (Hrho : rn_st (cm_rho n km) (n + 1 + km) A2 = rn_st (cm_g n km) (n + 1 + km) A2).
  { apply (rn_st_ext b0); [assumption|assumption|]. intros i Hi. symmetry. apply cm_g_rho. rewrite HnA2 in Hi. exact Hi. }
  assert (HnextA : sbs_next (sb_add_def cfg
            {| sbs_def := sd'; sbs_dirdefs := sbs_dirdefs st; sbs_types := sbs_types st;
               sbs_found := true; sbs_orphan_sx := sbs_orphan_sx st; sbs_orphans := sbs_orphans st;
               sbs_next := sbs_next st + 1; sbs_errs := sbs_errs st ++ ee |} m) = n + 1 + km).
  { rewrite <- HnA2. unfold A2. rewrite <- (sb_add_def_next_errs cfg _ m []). reflexivity. }
  assert (HnextB : sbs_next (sb_add_def cfg st m) = n + km).
  { rewrite <- (sb_add_def_next_errs cfg st m []). fold st0 B1. unfold km. lia. }
  rewrite HnextB.
  assert (Hext2 : sb_extend_schema_def (n + km) (sbs_def st) dirs roots = (sd'', ee)).
  { rewrite Hrn. reflexivity. }
  rewrite Hext2.
  split; [cbn [sbs_next]; rewrite HnextA; lia|].
  exists (cm_rho n km). split; [apply cm_rho_inj|]. split; [intros i Hi; apply cm_rho_id; rewrite HnextA in Hi; exact Hi|].
  rewrite HnextA. split.
  - rewrite <- rn_st_set_errs, sb_add_def_strip.
    match goal with |- rn_st ?f ?nn ?X = ?R => change (rn_st f nn (sb_set_errs A2 []) = R) end.
    rewrite rn_st_set_errs, Hrho.
    replace (n + (sbs_next A2 - (n + 1))) with (n + km) in HP by lia.
    assert (Hq : rn_st (cm_g n km) (n + 1 + km) A2 =
                 {| sbs_def := sbs_def (cm_upd_sd sd'' B1); sbs_dirdefs := sbs_dirdefs (cm_upd_sd sd'' B1);
                    sbs_types := sbs_types (cm_upd_sd sd'' B1); sbs_found := sbs_found (cm_upd_sd sd'' B1);
                    sbs_orphan_sx := sbs_orphan_sx (cm_upd_sd sd'' B1); sbs_orphans := sbs_orphans (cm_upd_sd sd'' B1);
                    sbs_next := n + 1 + km; sbs_errs := sbs_errs (cm_upd_sd sd'' B1) |}).
    { rewrite HP. reflexivity. }
    rewrite Hq. cbn [cm_upd_sd sb_set_errs sbs_def sbs_dirdefs sbs_types sbs_found sbs_orphan_sx sbs_orphans sbs_next sbs_errs].
    pose proof (sb_add_def_strip cfg st m) as Hs. fold st0 B1 in Hs.
    pose proof (f_equal sbs_dirdefs Hs) as H2. pose proof (f_equal sbs_types Hs) as H3.
    pose proof (f_equal sbs_found Hs) as H4. pose proof (f_equal sbs_orphan_sx Hs) as H5. pose proof (f_equal sbs_orphans Hs) as H6.
    cbn [sb_set_errs sbs_def sbs_dirdefs sbs_types sbs_found sbs_orphan_sx sbs_orphans] in H2, H3, H4, H5, H6.
    rewrite H2, H3, <- H4, H5, H6. unfold sb_set_errs.
    cbn [sbs_def sbs_dirdefs sbs_types sbs_found sbs_orphan_sx sbs_orphans sbs_next].
    rewrite HfoundB, Hfound. f_equal. lia.
  - rewrite sb_add_def_errs_split. cbn [sbs_errs sb_set_errs].
    rewrite (sb_add_def_errs_split cfg st m). fold st0 B1.
    match goal with |- Permutation (?a ++ sbs_errs ?X) ?R => change (Permutation (a ++ sbs_errs A2) R) end.
    assert (HeA : sbs_errs A2 = sbs_errs B1).
    { pose proof (f_equal sbs_errs HP) as Hq. cbn [cm_upd_sd rn_st sbs_errs] in Hq. symmetry. exact Hq. }
    rewrite HeA. rewrite <- !app_assoc. apply Permutation_app_head, Permutation_app_comm.
Qed.

(* ---------------------------------------------------------------- the target of the extension stays defined *)
Definition cm_defined (tgt : option str) (st : sb_state) : Prop :=
  match tgt with
  | Some n => exists t, sch_find_type n (sbs_types st) = Some t
  | None => sbs_found st = true
  end.

Lemma sch_find_type_app_some n a b t : sch_find_type n a = Some t -> sch_find_type n (a ++ b) = Some t.
Proof. induction a as [|x a IH]; cbn; [discriminate|]. destruct (streq n (et_name x)); auto. Qed.

Lemma cm_defined_add_def cfg tgt st d : cm_defined tgt st -> cm_defined tgt (sb_add_def cfg st d).
Proof.
  destruct tgt as [n|]; cbn [cm_defined].
  - intros [t Hf].
    assert (Hdef : forall M dd, exists t2, sch_find_type n (sbs_types (sb_type_definition cfg st M dd)) = Some t2).
    { intros M dd. unfold sb_type_definition. destruct (sch_find_type M (sbs_types st)) as [prev|].
      - destruct (sbc_ignore_builtin cfg && et_builtin prev); [eauto|]. destruct (sb_is_scalar_def dd && et_builtin prev); eauto.
      - destruct (sb_type_of_def dd) as [[t0 e0]|]; [|eauto].
        destruct (sb_orphan_take M (sbs_orphans st)) as [q orph']. destruct (sb_apply_queued t0 (sbs_next st) q) as [[t1 n1] e1].
        cbn [sbs_types]. exists t. apply sch_find_type_app_some, Hf. }
    assert (Hext : forall M k x, exists t2, sch_find_type n (sbs_types (sb_type_extension st M k x)) = Some t2).
    { intros M k x. unfold sb_type_extension. destruct (sch_find_type M (sbs_types st)) as [tm|] eqn:Em; [|eauto].
      destruct (sb_extend_type (sbs_next st) tm x) as [[tm' e]|] eqn:Ex; [|eauto]. cbn [sbs_types].
      destruct (sb_extend_type_some _ _ _ _ _ Ex) as [Hname _]. destruct (sb_find_type_name _ _ _ Em) as [Hm _].
      destruct (streq n M) eqn:EnM.
      - apply streq_eq in EnM. exists tm'. rewrite EnM. apply (sch_find_type_update M tm' _ tm Em). congruence.
      - exists t. rewrite sch_find_type_update_other; [exact Hf|congruence|exact EnM]. }
    destruct d; cbn [sb_add_def]; try apply Hdef; try apply Hext; unfold sb_with_errs; cbn [sbs_types];
      repeat match goal with |- context [match ?x with _ => _ end] => destruct x end; eauto.
  - intros Hf. destruct d; cbn [sb_add_def]; unfold sb_type_definition, sb_type_extension, sb_with_errs;
      repeat match goal with |- context [match ?x with _ => _ end] => destruct x eqn:? end; cbn [sbs_found]; congruence.
Qed.

Definition cm_is_ext (e : definition) : bool :=
  match e with
  | XSchema _ _ | XScalar _ _ | XObject _ _ _ _ | XInterface _ _ _ _ | XUnion _ _ _ | XEnum _ _ _ | XInput _ _ _ => true
  | _ => false
  end.

Lemma cm_swap cfg b0 st e m tgt :
  iv_state b0 st -> cm_roots_bound st -> iv_def_ok m ->
  cm_is_ext e = true -> sb_target e = Some tgt -> cm_defined tgt st -> sb_touches tgt m = false ->
  cm_rel (sb_add_def cfg (sb_add_def cfg st e) m) (sb_add_def cfg (sb_add_def cfg st m) e).
Proof.
  intros Hinv Hrb Hok Hext Htgt Hdef Htouch.
  destruct e; try discriminate; cbn [sb_target] in Htgt; injection Htgt as <-; cbn [cm_defined] in Hdef.
  - apply (cm_swap_sd cfg b0); assumption.
  - destruct Hdef as [t Hf]. eapply (cm_swap_type cfg b0 st _ m name SbScalar t); try eassumption; reflexivity.
  - destruct Hdef as [t Hf]. eapply (cm_swap_type cfg b0 st _ m name SbObject t); try eassumption; reflexivity.
  - destruct Hdef as [t Hf]. eapply (cm_swap_type cfg b0 st _ m name SbInterface t); try eassumption; reflexivity.
  - destruct Hdef as [t Hf]. eapply (cm_swap_type cfg b0 st _ m name SbUnion t); try eassumption; reflexivity.
  - destruct Hdef as [t Hf]. eapply (cm_swap_type cfg b0 st _ m name SbEnum t); try eassumption; reflexivity.
  - destruct Hdef as [t Hf]. eapply (cm_swap_type cfg b0 st _ m name SbInput t); try eassumption; reflexivity.
Qed.

(* an extension moved across definitions that do not touch its (defined) target *)
Lemma cm_move cfg b0 e tgt mid : forall st,
  iv_state b0 st -> cm_roots_bound st -> Forall iv_def_ok mid ->
  cm_is_ext e = true -> sb_target e = Some tgt -> cm_defined tgt st ->
  Forall (fun m => sb_touches tgt m = false) mid ->
  cm_rel (sb_add_doc cfg (sb_add_def cfg st e) mid) (sb_add_def cfg (sb_add_doc cfg st mid) e).
Proof.
  induction mid as [|m mid IH]; intros st Hinv Hrb Hok Hext Htgt Hdef Hun; [apply cm_rel_refl|].
  inversion Hok; subst. inversion Hun; subst. cbn [sb_add_doc fold_left].
  eapply cm_rel_trans.
  - apply cm_rel_add_doc. eapply (cm_swap cfg b0 st e m tgt); eassumption.
  - apply IH; try assumption.
    + apply iv_add_def; assumption.
    + apply cm_roots_bound_add_def; assumption.
    + apply cm_defined_add_def; assumption.
Qed.

(* ---------------------------------------------------------------- build_inner under a renaming *)
Lemma sb_empty_type_rn f k n : rn_type f (sb_empty_type k n) = sb_empty_type k n.
Proof. destruct k; reflexivity. Qed.

Lemma sb_adopt_loop_next_le k q : forall t next t' n' e, sb_adopt_loop k t next q = Some (t', n', e) -> next <= n'.
Proof.
  induction q as [|x q IH]; intros t next t' n' e; cbn [sb_adopt_loop].
  - intros [= _ <- _]. lia.
  - destruct (sb_extend_type next t x) as [[t1 e1]|].
    + destruct (sb_adopt_loop k t1 (next + 1) q) as [[[t2 n2] e2]|] eqn:E2; [|discriminate]. intros [= _ <- _].
      specialize (IH _ _ _ _ _ E2). lia.
    + destruct (sb_ext_name x), (sb_ext_kind x); try discriminate.
      destruct (sb_adopt_loop k t next q) as [[[t2 n2] e2]|] eqn:E2; [|discriminate]. intros [= _ <- _]. apply (IH _ _ _ _ _ E2).
Qed.

Lemma sb_adopt_loop_rn f k q : forall t next nn,
  cm_fresh f next nn ->
  sb_adopt_loop k (rn_type f t) nn q =
  match sb_adopt_loop k t next q with
  | Some (t', n', e) => Some (rn_type f t', nn + (n' - next), e)
  | None => None
  end.
Proof.
  induction q as [|x q IH]; intros t next nn Hf; cbn [sb_adopt_loop].
  - rewrite N.sub_diag, N.add_0_r. reflexivity.
  - rewrite <- (cm_fresh_0 _ _ _ Hf), sb_extend_type_rn. destruct (sb_extend_type next t x) as [[t1 e1]|].
    + rewrite (cm_fresh_0 _ _ _ Hf), (IH t1 (next + 1) (nn + 1) (cm_fresh_S _ _ _ Hf)).
      destruct (sb_adopt_loop k t1 (next + 1) q) as [[[t2 n2] e2]|] eqn:E2; [|reflexivity].
      pose proof (sb_adopt_loop_next_le _ _ _ _ _ _ _ E2). f_equal. f_equal. f_equal. lia.
    + destruct (sb_ext_name x), (sb_ext_kind x); try reflexivity.
      rewrite (cm_fresh_0 _ _ _ Hf), (IH t next nn Hf). destruct (sb_adopt_loop k t next q) as [[[t2 n2] e2]|]; reflexivity.
Qed.

Lemma sb_adopt_rn f n q next nn :
  cm_fresh f next nn ->
  sb_adopt n nn q = match sb_adopt n next q with
                    | Some (t', n', e) => Some (rn_type f t', nn + (n' - next), e)
                    | None => None
                    end.
Proof.
  intros Hf. unfold sb_adopt. destruct q as [|x q]; [reflexivity|]. destruct (sb_ext_kind x) as [k|]; [|reflexivity].
  rewrite <- (sb_empty_type_rn f k n) at 1. apply sb_adopt_loop_rn, Hf.
Qed.

Lemma sb_adopt_next_le n next q t n' e : sb_adopt n next q = Some (t, n', e) -> next <= n'.
Proof.
  unfold sb_adopt. destruct q as [|x q]; [discriminate|]. destruct (sb_ext_kind x); [|discriminate]. apply sb_adopt_loop_next_le.
Qed.

Lemma cm_fresh_shift f next nn k : cm_fresh f next nn -> cm_fresh f (next + k) (nn + k).
Proof. intros H j. specialize (H (k + j)). rewrite !N.add_assoc in H. exact H. Qed.

Lemma sb_adopt_all_next_le q : forall types next ts n' e, sb_adopt_all types next q = Some (ts, n', e) -> next <= n'.
Proof.
  induction q as [|[n l] q IH]; intros types next ts n' e; cbn [sb_adopt_all].
  - intros [= _ <- _]. lia.
  - destruct (sb_adopt n next l) as [[[t n1] e1]|] eqn:Ea; [|discriminate].
    destruct (sch_find_type n types); [discriminate|].
    destruct (sb_adopt_all (types ++ [t]) n1 q) as [[[ts2 n2] e2]|] eqn:Eq; [|discriminate]. intros [= _ <- _].
    pose proof (sb_adopt_next_le _ _ _ _ _ _ Ea). specialize (IH _ _ _ _ _ Eq). lia.
Qed.

Lemma sb_adopt_all_rn f q : forall types next nn,
  cm_fresh f next nn ->
  sb_adopt_all (map (rn_type f) types) nn q =
  match sb_adopt_all types next q with
  | Some (ts, n', e) => Some (map (rn_type f) ts, nn + (n' - next), e)
  | None => None
  end.
Proof.
  induction q as [|[n l] q IH]; intros types next nn Hf; cbn [sb_adopt_all].
  - rewrite N.sub_diag, N.add_0_r. reflexivity.
  - rewrite (sb_adopt_rn f n l next nn Hf). destruct (sb_adopt n next l) as [[[t n1] e1]|] eqn:Ea; [|reflexivity].
    rewrite sch_find_type_rn. destruct (sch_find_type n types); [reflexivity|]. cbn [option_map].
    pose proof (sb_adopt_next_le _ _ _ _ _ _ Ea) as Hle.
    assert (Hf' : cm_fresh f n1 (nn + (n1 - next))).
    { replace n1 with (next + (n1 - next)) at 1 by lia. apply cm_fresh_shift, Hf. }
    replace (map (rn_type f) types ++ [rn_type f t]) with (map (rn_type f) (types ++ [t])) by (rewrite map_app; reflexivity).
    rewrite (IH (types ++ [t]) n1 _ Hf').
    destruct (sb_adopt_all (types ++ [t]) n1 q) as [[[ts2 n2] e2]|] eqn:Eq; [|reflexivity].
    pose proof (sb_adopt_all_next_le _ _ _ _ _ _ Eq). f_equal. f_equal. f_equal. lia.
Qed.

Lemma sb_has_object_rn f types n : sb_has_object (map (rn_type f) types) n = sb_has_object types n.
Proof.
  unfold sb_has_object. rewrite sch_find_type_rn. destruct (sch_find_type n types) as [t|]; [|reflexivity].
  destruct t; reflexivity.
Qed.

Lemma sb_add_implicit_roots_ext sd T' T :
  (forall n, sb_has_object T' n = sb_has_object T n) -> sb_add_implicit_roots sd T' = sb_add_implicit_roots sd T.
Proof.
  intros H. unfold sb_add_implicit_roots. cbn [fold_left].
  rewrite (H (sb_default_type_name OpQuery)). destruct (sb_has_object T (sb_default_type_name OpQuery)); cbn beta iota;
  rewrite (H (sb_default_type_name OpMutation)); destruct (sb_has_object T (sb_default_type_name OpMutation)); cbn beta iota;
  rewrite (H (sb_default_type_name OpSubscription)); reflexivity.
Qed.

Lemma sb_add_implicit_roots_rn f sd types :
  sb_add_implicit_roots (rn_sd f sd) (map (rn_type f) types) =
  (rn_sd f (fst (sb_add_implicit_roots sd types)), snd (sb_add_implicit_roots sd types)).
Proof.
  rewrite (sb_add_implicit_roots_ext _ _ types (sb_has_object_rn f types)).
  unfold sb_add_implicit_roots. cbn [fold_left]. destruct sd as [d dirs q m s].
  destruct (sb_has_object types (sb_default_type_name OpQuery)); cbn beta iota;
  destruct (sb_has_object types (sb_default_type_name OpMutation)); cbn beta iota;
  destruct (sb_has_object types (sb_default_type_name OpSubscription)); reflexivity.
Qed.

Definition cm_rn_result (f : N -> N) (r : sb_result) : sb_result :=
  match r with SbBuilt s e => SbBuilt (rn_schema f s) e | SbPanic => SbPanic end.

Lemma sb_build_inner_rn cfg f st nn :
  cm_fresh f (sbs_next st) nn ->
  sb_build_inner cfg (rn_st f nn st) = cm_rn_result f (sb_build_inner cfg st).
Proof.
  intros Hf. unfold sb_build_inner. cbn [rn_st sbs_types sbs_next sbs_orphans sbs_errs sbs_found sbs_def sbs_dirdefs sbs_orphan_sx].
  destruct (sbc_adopt cfg).
  - rewrite (sb_adopt_all_rn f _ _ (sbs_next st) nn Hf).
    destruct (sb_adopt_all (sbs_types st) (sbs_next st) (sbs_orphans st)) as [[[types n1] e1]|] eqn:Ea; [|reflexivity].
    pose proof (sb_adopt_all_next_le _ _ _ _ _ _ Ea) as Hle.
    destruct (sbs_found st); [reflexivity|].
    assert (Hf' : cm_fresh f n1 (nn + (n1 - sbs_next st))).
    { replace n1 with (sbs_next st + (n1 - sbs_next st)) at 1 by lia. apply cm_fresh_shift, Hf. }
    rewrite (sb_extend_schema_def_all_rn f _ _ n1 _ Hf').
    destruct (sb_extend_schema_def_all n1 (sbs_def st) (sbs_orphan_sx st)) as [[sd1 n2] e2].
    rewrite sb_roots_all_none_rn. unfold cm_rn_result, rn_schema. cbn [sch_def sch_dirdefs sch_types].
    destruct (sb_roots_all_none sd1); [|reflexivity]. rewrite sb_add_implicit_roots_rn. reflexivity.
  - destruct (sb_all_orphan_errors (sbs_orphans st)) as [e1|]; [|reflexivity].
    destruct (sbs_found st); [reflexivity|].
    rewrite sb_add_implicit_roots_rn. destruct (sb_add_implicit_roots (sbs_def st) (sbs_types st)) as [sd1 has]. cbn [fst snd].
    destruct has; [|reflexivity].
    rewrite (sb_extend_schema_def_all_rn f _ _ (sbs_next st) nn Hf).
    destruct (sb_extend_schema_def_all (sbs_next st) sd1 (sbs_orphan_sx st)) as [[sd2 n2] e2]. reflexivity.
Qed.

(* ---------------------------------------------------------------- results up to renaming *)
Definition sb_result_equiv (r1 r2 : sb_result) : Prop :=
  match r1, r2 with
  | SbBuilt s1 e1, SbBuilt s2 e2 => sch_equiv s1 s2 /\ Permutation e1 e2
  | SbPanic, SbPanic => True
  | _, _ => False
  end.

Lemma sch_canon_rn f s : (forall x y, f x = f y -> x = y) -> sch_canon (rn_schema f s) = sch_canon s.
Proof.
  intros Hinj. unfold sch_canon, rn_schema. cbn [sch_def sch_dirdefs sch_types]. f_equal.
  - apply cn_sd_rn. intros a b _ _. apply Hinj.
  - rewrite map_map. apply map_ext. intros t. apply cn_type_rn. intros a b _ _. apply Hinj.
Qed.

Lemma cm_rel_build_inner cfg a b : cm_rel a b -> sb_result_equiv (sb_build_inner cfg a) (sb_build_inner cfg b).
Proof.
  intros [Hn [f [Hinj [Hid [Hst Hp]]]]].
  rewrite (sb_build_inner_errs cfg a), (sb_build_inner_errs cfg b), <- Hst, <- rn_st_set_errs.
  rewrite (sb_build_inner_rn cfg f (sb_set_errs a []) (sbs_next a)).
  2:{ intros j. cbn [sb_set_errs sbs_next]. apply Hid. lia. }
  destruct (sb_build_inner cfg (sb_set_errs a [])) as [s e0|]; cbn [cm_rn_result sb_result_equiv]; [|exact Logic.I].
  split; [|apply Permutation_app_tail, Hp]. unfold sch_equiv. symmetry. apply sch_canon_rn, Hinj.
Qed.

(* no definition of `mid` touches what the extension e extends *)
Definition sb_untouched (e : definition) (mid : list definition) : bool :=
  match sb_target e with
  | Some tgt => forallb (fun m => negb (sb_touches tgt m)) mid
  | None => true
  end.

Lemma cm_extends_facts cfg e d st :
  sb_extends e d = true ->
  exists tgt, cm_is_ext e = true /\ sb_target e = Some tgt /\ cm_defined tgt (sb_add_def cfg st d).
Proof.
  intros H. unfold sb_extends in H.
  assert (Htype : forall n, sb_ext_name e = Some n -> cm_is_ext e = true /\ sb_target e = Some (Some n)).
  { intros n. destruct e; cbn; try discriminate; intros [= <-]; auto. }
  assert (Hdef : forall n p, sb_type_of_def d = Some p -> def_name d = Some n ->
                 cm_defined (Some n) (sb_add_def cfg st d)).
  { intros n [t0 e0] Hp Hn. rewrite (sb_add_def_typedef cfg st d n _ Hp Hn). cbn [cm_defined]. unfold sb_type_definition.
    destruct (sch_find_type n (sbs_types st)) as [prev|] eqn:Ef.
    - destruct (sbc_ignore_builtin cfg && et_builtin prev); [eauto|]. destruct (sb_is_scalar_def d && et_builtin prev); eauto.
    - rewrite Hp. destruct (sb_orphan_take n (sbs_orphans st)) as [q orph'].
      destruct (sb_apply_queued t0 (sbs_next st) q) as [[t1 n1] e1] eqn:Eq. cbn [sbs_types].
      destruct (sb_apply_queued_props _ _ _ _ _ _ Eq) as [Hn1 _]. destruct (sb_type_of_def_name _ _ _ Hp) as [Hn0 _].
      exists t1. rewrite (sch_find_type_app_none _ _ _ Ef). cbn. assert (et_name t1 = n) by congruence.
      rewrite H0, streq_refl. reflexivity. }
  destruct e; cbn in H; try discriminate.
  - destruct d; cbn in H; try discriminate. exists None. split; [reflexivity|]. split; [reflexivity|].
    cbn [cm_defined sb_add_def]. destruct (sbs_found st) eqn:Ef; [exact Ef|].
    destruct (sb_add_roots ODef _ roots0) as [sd1 e1]. destruct (sb_extend_schema_def_all (sbs_next st) sd1 (sbs_orphan_sx st)) as [[sd2 n2] e2].
    reflexivity.
  - destruct (def_name d) as [m|] eqn:Em; [|discriminate]. destruct (sb_type_of_def d) as [p|] eqn:Ep; [|discriminate].
    apply streq_eq in H. subst m. exists (Some name). split; [reflexivity|]. split; [reflexivity|]. apply (Hdef name p eq_refl eq_refl).
  - destruct (def_name d) as [m|] eqn:Em; [|discriminate]. destruct (sb_type_of_def d) as [p|] eqn:Ep; [|discriminate].
    apply streq_eq in H. subst m. exists (Some name). split; [reflexivity|]. split; [reflexivity|]. apply (Hdef name p eq_refl eq_refl).
  - destruct (def_name d) as [m|] eqn:Em; [|discriminate]. destruct (sb_type_of_def d) as [p|] eqn:Ep; [|discriminate].
    apply streq_eq in H. subst m. exists (Some name). split; [reflexivity|]. split; [reflexivity|]. apply (Hdef name p eq_refl eq_refl).
  - destruct (def_name d) as [m|] eqn:Em; [|discriminate]. destruct (sb_type_of_def d) as [p|] eqn:Ep; [|discriminate].
    apply streq_eq in H. subst m. exists (Some name). split; [reflexivity|]. split; [reflexivity|]. apply (Hdef name p eq_refl eq_refl).
  - destruct (def_name d) as [m|] eqn:Em; [|discriminate]. destruct (sb_type_of_def d) as [p|] eqn:Ep; [|discriminate].
    apply streq_eq in H. subst m. exists (Some name). split; [reflexivity|]. split; [reflexivity|]. apply (Hdef name p eq_refl eq_refl).
  - destruct (def_name d) as [m|] eqn:Em; [|discriminate]. destruct (sb_type_of_def d) as [p|] eqn:Ep; [|discriminate].
    apply streq_eq in H. subst m. exists (Some name). split; [reflexivity|]. split; [reflexivity|]. apply (Hdef name p eq_refl eq_refl).
Qed.

Lemma cm_roots_bound_init b0 : iv_b0 b0 -> cm_roots_bound (sb_init b0).
Proof. intros [Hsd _]. unfold cm_roots_bound, sb_init. cbn [sbs_def]. rewrite Hsd. intros [] c H; discriminate. Qed.

Lemma cm_roots_bound_add_doc cfg doc : forall st, cm_roots_bound st -> cm_roots_bound (sb_add_doc cfg st doc).
Proof. induction doc as [|d doc IH]; intros st H; cbn; [exact H|]. apply IH, cm_roots_bound_add_def, H. Qed.

Theorem sb_commute cfg b0 pre e d mid post :
  iv_b0 b0 -> Forall iv_def_ok (pre ++ d :: mid) ->
  sb_extends e d = true -> sb_untouched e mid = true ->
  sb_result_equiv (sb_build cfg b0 (pre ++ e :: d :: mid ++ post))
                  (sb_build cfg b0 (pre ++ d :: mid ++ e :: post)).
Proof.
  intros Hb0 Hok Hext Hun.
  apply Forall_app in Hok. destruct Hok as [Hokpre Hok]. inversion Hok as [|? ? Hokd Hokmid]; subst.
  set (st := sb_add_doc cfg (sb_init b0) pre).
  assert (Hinv : iv_state b0 st) by (apply iv_add_doc; [exact Hokpre|apply iv_init, Hb0]).
  assert (Hrb : cm_roots_bound st) by (apply cm_roots_bound_add_doc, cm_roots_bound_init, Hb0).
  destruct (cm_extends_facts cfg e d st Hext) as [tgt [Hise [Htgt Hdef]]].
  assert (Hunt : Forall (fun m => sb_touches tgt m = false) mid).
  { unfold sb_untouched in Hun. rewrite Htgt in Hun. apply Forall_forall. intros m Hm.
    rewrite forallb_forall in Hun. apply negb_true_iff, Hun, Hm. }
  unfold sb_build, sb_build_docs, sb_add_docs. cbn [fold_left].
  replace (pre ++ e :: d :: mid ++ post) with (pre ++ [e; d] ++ mid ++ post) by reflexivity.
  replace (pre ++ d :: mid ++ e :: post) with (pre ++ [d] ++ mid ++ [e] ++ post) by reflexivity.
  rewrite !sb_add_doc_app. fold st. apply cm_rel_build_inner, cm_rel_add_doc.
  cbn [sb_add_doc fold_left].
  eapply cm_rel_trans.
  - apply cm_rel_add_doc. apply cm_rel_of_eqv; [|apply sb_swap_adjacent, Hext].
    pose proof (sb_swap_adjacent cfg st e d Hext) as [Heq _]. apply (f_equal sbs_next) in Heq. exact Heq.
  - apply (cm_move cfg b0 e tgt mid (sb_add_def cfg st d)); try assumption.
    + apply iv_add_def; assumption.
    + apply cm_roots_bound_add_def, Hrb.
Qed.

(* the same with the decidable hypotheses of Schema/Builtin.v *)
Theorem bi_commute cfg b0 pre e d mid post :
  bi_b0_ok b0 = true -> bi_doc_ok (pre ++ d :: mid) = true ->
  sb_extends e d = true -> sb_untouched e mid = true ->
  sb_result_equiv (sb_build cfg b0 (pre ++ e :: d :: mid ++ post))
                  (sb_build cfg b0 (pre ++ d :: mid ++ e :: post)).
Proof.
  intros Hb0 Hdoc. apply sb_commute; [apply bi_b0_ok_spec, Hb0|apply bi_doc_ok_spec, Hdoc].
Qed.
