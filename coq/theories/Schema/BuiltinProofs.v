(* The decidable checks of Schema/Builtin.v imply the hypotheses of the C12 theorems. *)
From ApolloVerif Require Import Base.Chars Ast.Ast Schema.Model Schema.Build Schema.ToAst Schema.Canon
  Schema.RebuildProofs Schema.InvProofs Schema.Builtin.

Lemma bi_nodup_NoDup l : bi_nodup l = true -> NoDup l.
Proof.
  induction l as [|x l IH]; cbn; intros H; [constructor|]. apply andb_true_iff in H. destruct H as [Hx Hl].
  constructor; [|apply IH, Hl]. intros Hin. apply negb_true_iff in Hx.
  assert (existsb (streq x) l = true); [|congruence]. apply existsb_exists. exists x. split; [exact Hin|apply streq_refl].
Qed.

Lemma bi_all_def_part {A} (L : list (comp A)) : bi_all_def L = true -> rb_part L (fun i => i) [] = L.
Proof.
  unfold rb_part, ta_components. cbn [flat_map]. rewrite app_nil_r. induction L as [|c L IH]; cbn; intros H; [reflexivity|].
  apply andb_true_iff in H. destruct H as [Hc HL]. destruct c as [[|i] v]; [|discriminate]. cbn. f_equal. apply IH, HL.
Qed.

Lemma bi_type_ok_spec t : bi_type_ok t = true -> et_builtin t = true /\ iv_defpart t = t /\ rb_type_keys t.
Proof.
  unfold bi_type_ok. intros H. apply andb_true_iff in H. destruct H as [Hb H]. split; [exact Hb|].
  unfold iv_defpart, bi_keys, rb_keys in *.
  destruct t; cbn [rb_type_partial rb_type_keys]; repeat (apply andb_true_iff in H; destruct H as [H ?]);
    rewrite ?bi_all_def_part by assumption; (split; [reflexivity|]);
    repeat match goal with |- _ /\ _ => split end; try exact Logic.I; apply bi_nodup_NoDup; assumption.
Qed.

Theorem bi_b0_ok_spec b0 : bi_b0_ok b0 = true -> iv_b0 b0.
Proof.
  unfold bi_b0_ok, iv_b0. intros H.
  apply andb_true_iff in H. destruct H as [H Htn]. apply andb_true_iff in H. destruct H as [H Ht].
  apply andb_true_iff in H. destruct H as [H Hdn]. apply andb_true_iff in H. destruct H as [Hsd Hdb].
  split; [|split; [|split; [|split]]].
  - unfold bi_sd_empty in Hsd. destruct (sch_def b0) as [[d|] [|x dirs] [q|] [m|] [s|]]; try discriminate. reflexivity.
  - apply Forall_forall. intros d Hd. rewrite forallb_forall in Hdb. apply Hdb, Hd.
  - apply bi_nodup_NoDup. assumption.
  - apply Forall_forall. intros t Hin. rewrite forallb_forall in Ht. apply bi_type_ok_spec, Ht, Hin.
  - apply bi_nodup_NoDup. assumption.
Qed.

Lemma bi_doc_ok_spec doc : bi_doc_ok doc = true -> Forall iv_def_ok doc.
Proof.
  unfold bi_doc_ok. intros H. apply Forall_forall. intros d Hd. rewrite forallb_forall in H. specialize (H d Hd).
  destruct d; try exact Logic.I. destruct roots; [discriminate|exact Logic.I].
Qed.

Theorem bi_rebuild cfg b0 docs s :
  bi_b0_ok b0 = true -> Forall (fun d => bi_doc_ok d = true) docs ->
  sb_build_docs cfg b0 docs = SbBuilt s [] -> c12_known s = false ->
  exists s', sb_build cfg b0 (sch_to_ast s) = SbBuilt s' [] /\ sch_equiv s' s.
Proof.
  intros Hb0 Hdocs Hb Hk.
  destruct (iv_rebuild cfg b0 docs s (bi_b0_ok_spec b0 Hb0)) as [s' [H1 [H2 _]]]; try assumption.
  - eapply Forall_impl; [|exact Hdocs]. intros d. apply bi_doc_ok_spec.
  - exists s'. auto.
Qed.

Theorem bi_fixpoint cfg b0 docs s :
  bi_b0_ok b0 = true -> Forall (fun d => bi_doc_ok d = true) docs ->
  sb_build_docs cfg b0 docs = SbBuilt s [] -> c12_known s = false ->
  exists s', sb_build cfg b0 (sch_to_ast s) = SbBuilt s' [] /\ sch_to_ast s' = sch_to_ast s.
Proof.
  intros Hb0 Hdocs Hb Hk.
  destruct (iv_rebuild cfg b0 docs s (bi_b0_ok_spec b0 Hb0)) as [s' [H1 [_ H3]]]; try assumption.
  - eapply Forall_impl; [|exact Hdocs]. intros d. apply bi_doc_ok_spec.
  - exists s'. auto.
Qed.
