(* The canonical numbering (Schema/Canon.v) does not depend on the names of the extension ids:
   cn_type (rn_type f t) = cn_type t whenever f is injective on the ids of t; likewise to_ast. *)
From ApolloVerif Require Import Base.Chars Ast.Ast Schema.Model Schema.Build Schema.ToAst Schema.Canon.

Definition inj_on (f : N -> N) (l : list N) : Prop :=
  forall a b, In a l -> In b l -> f a = f b -> a = b.

Lemma inj_on_incl f l l' : incl l' l -> inj_on f l -> inj_on f l'.
Proof. intros Hi H a b Ha Hb. apply H; apply Hi; assumption. Qed.

Lemma ta_mem_In' i l : ta_mem i l = true <-> In i l.
Proof.
  unfold ta_mem. rewrite existsb_exists. split.
  - intros [x [Hx He]]. apply N.eqb_eq in He. subst. exact Hx.
  - intros H. exists i. split; [exact H|apply N.eqb_refl].
Qed.

Lemma ta_mem_map f i l : inj_on f (i :: l) -> ta_mem (f i) (map f l) = ta_mem i l.
Proof.
  intros Hinj. apply eq_true_iff_eq. rewrite !ta_mem_In', in_map_iff. split.
  - intros [j [Hf Hj]]. assert (j = i) by (apply Hinj; [right; exact Hj|left; reflexivity|exact Hf]). subst. exact Hj.
  - intros H. exists i. auto.
Qed.

(* the ids that occur in a list of origins *)
Fixpoint cn_ids (os : list origin) : list N :=
  match os with
  | [] => []
  | ODef :: r => cn_ids r
  | OExt i :: r => i :: cn_ids r
  end.

Lemma cn_ids_In os i : In i (cn_ids os) <-> In (OExt i) os.
Proof.
  induction os as [|[|j] os IH]; cbn; [tauto| |].
  - rewrite IH. intuition discriminate.
  - rewrite IH. split; intros [H|H]; auto; [left; congruence|]. injection H as ->. auto.
Qed.

Lemma cn_ids_app a b : cn_ids (a ++ b) = cn_ids a ++ cn_ids b.
Proof. induction a as [|[|j] a IH]; cbn; [reflexivity|exact IH|f_equal; exact IH]. Qed.

Lemma ta_ext_ids_acc_map f os : forall seen,
  inj_on f (seen ++ cn_ids os) ->
  ta_ext_ids_acc (map f seen) (map (rn_origin f) os) = map f (ta_ext_ids_acc seen os).
Proof.
  induction os as [|[|j] os IH]; intros seen Hinj; cbn [map rn_origin ta_ext_ids_acc cn_ids] in *; [reflexivity| |].
  - apply IH. exact Hinj.
  - rewrite ta_mem_map.
    2:{ eapply inj_on_incl; [|exact Hinj]. intros x [<-|Hx]; apply in_app_iff; [right; left; reflexivity|left; exact Hx]. }
    destruct (ta_mem j seen).
    + apply IH. eapply inj_on_incl; [|exact Hinj]. intros x Hx. apply in_app_iff in Hx. apply in_app_iff.
      destruct Hx; [left|right; right]; assumption.
    + cbn [map]. f_equal. apply (IH (j :: seen)). eapply inj_on_incl; [|exact Hinj].
      intros x [<-|Hx]; apply in_app_iff; [right; left; reflexivity|].
      apply in_app_iff in Hx. destruct Hx; [left|right; right]; assumption.
Qed.

Lemma ta_ext_ids_map f os :
  inj_on f (cn_ids os) -> ta_ext_ids (map (rn_origin f) os) = map f (ta_ext_ids os).
Proof. intros H. apply (ta_ext_ids_acc_map f os []). exact H. Qed.

Lemma cn_index_map f i l : inj_on f (i :: l) -> cn_index (f i) (map f l) = cn_index i l.
Proof.
  induction l as [|j l IH]; intros Hinj; cbn [map cn_index]; [reflexivity|].
  destruct (i =? j) eqn:E.
  - apply N.eqb_eq in E. subst. rewrite N.eqb_refl. reflexivity.
  - assert (Hne : f i =? f j = false).
    { apply N.eqb_neq. intros H. apply N.eqb_neq in E. apply E. apply Hinj; [left; reflexivity|right; left; reflexivity|exact H]. }
    rewrite Hne. f_equal. apply IH. eapply inj_on_incl; [|exact Hinj]. intros x [<-|Hx]; [left; reflexivity|right; right; exact Hx].
Qed.

(* ---- renaming of component lists and types *)
Lemma rn_comps_ext {A} f g (L : list (comp A)) :
  (forall i, In (OExt i) (ta_origins L) -> f i = g i) -> rn_comps f L = rn_comps g L.
Proof.
  intros H. unfold rn_comps. apply map_ext_in. intros c Hc. destruct (c_origin c) as [|i] eqn:E; cbn; [reflexivity|].
  rewrite (H i); [reflexivity|]. unfold ta_origins. rewrite <- E. apply in_map. exact Hc.
Qed.

Lemma rn_comps_comp {A} f g (L : list (comp A)) : rn_comps g (rn_comps f L) = rn_comps (fun i => g (f i)) L.
Proof. unfold rn_comps. rewrite map_map. apply map_ext. intros c. cbn. destruct (c_origin c); reflexivity. Qed.

Lemma ta_origins_rn {A} f (L : list (comp A)) : ta_origins (rn_comps f L) = map (rn_origin f) (ta_origins L).
Proof. unfold ta_origins, rn_comps. rewrite !map_map. reflexivity. Qed.

Lemma rn_type_ext f g t :
  (forall i, In (OExt i) (ta_type_origins t) -> f i = g i) -> rn_type f t = rn_type g t.
Proof.
  intros H. destruct t; cbn [rn_type ta_type_origins] in *; f_equal; apply rn_comps_ext; intros i Hi; apply H;
    rewrite ?in_app_iff; auto.
Qed.

Lemma rn_type_comp f g t : rn_type g (rn_type f t) = rn_type (fun i => g (f i)) t.
Proof. destruct t; cbn [rn_type]; f_equal; apply rn_comps_comp. Qed.

Lemma ta_type_origins_rn f t : ta_type_origins (rn_type f t) = map (rn_origin f) (ta_type_origins t).
Proof. destruct t; cbn [rn_type ta_type_origins]; rewrite ?map_app, ?ta_origins_rn; reflexivity. Qed.

Lemma ta_type_extensions_In t i : In i (ta_type_extensions t) <-> In (OExt i) (ta_type_origins t).
Proof.
  unfold ta_type_extensions, ta_ext_ids.
  assert (H : forall os seen, In i (ta_ext_ids_acc seen os) <-> In (OExt i) os /\ ~ In i seen).
  { induction os as [|[|j] os IH]; intros seen; cbn [ta_ext_ids_acc].
    - cbn. tauto.
    - rewrite IH. cbn. intuition discriminate.
    - destruct (ta_mem j seen) eqn:E.
      + apply ta_mem_In' in E. rewrite IH. cbn [In]. split; [intros [H1 H2]; auto|].
        intros [[H1|H1] H2]; [injection H1 as ->; contradiction|auto].
      + assert (Hj : ~ In j seen) by (intros H; apply ta_mem_In' in H; congruence).
        cbn [In]. rewrite IH. cbn [In]. split.
        * intros [->|[H1 H2]]; [auto|]. split; [right; exact H1|tauto].
        * intros [[H1|H1] H2]; [injection H1 as ->; left; reflexivity|].
          destruct (N.eq_dec j i) as [->|Hne]; [left; reflexivity|]. right. split; [exact H1|]. tauto. }
  rewrite H. cbn. tauto.
Qed.

Theorem cn_type_rn f t : inj_on f (ta_type_extensions t) -> cn_type (rn_type f t) = cn_type t.
Proof.
  intros Hinj. unfold cn_type.
  assert (Hinj' : inj_on f (cn_ids (ta_type_origins t))).
  { eapply inj_on_incl; [|exact Hinj]. intros i Hi. apply ta_type_extensions_In, cn_ids_In, Hi. }
  assert (Hdisc : ta_type_extensions (rn_type f t) = map f (ta_type_extensions t)).
  { unfold ta_type_extensions. rewrite ta_type_origins_rn. apply ta_ext_ids_map, Hinj'. }
  rewrite Hdisc, rn_type_comp. apply rn_type_ext. intros i Hi. apply cn_index_map.
  apply ta_type_extensions_In in Hi.
  intros a b Ha Hb. apply Hinj; [destruct Ha as [<-|Ha]|destruct Hb as [<-|Hb]]; assumption.
Qed.

(* to_ast does not see the names of the ids *)
Lemma ta_components_rn {A} f (L : list (comp A)) i :
  inj_on f (i :: cn_ids (ta_origins L)) ->
  ta_components (Some (f i)) (rn_comps f L) = ta_components (Some i) L.
Proof.
  intros Hinj. unfold ta_components, rn_comps. induction L as [|c L IH]; cbn [map filter]; [reflexivity|].
  assert (Hinj2 : inj_on f (i :: cn_ids (ta_origins L))).
  { eapply inj_on_incl; [|exact Hinj]. intros x [<-|Hx]; [left; reflexivity|right].
    unfold ta_origins in *. cbn [map cn_ids]. destruct (c_origin c); [exact Hx|right; exact Hx]. }
  specialize (IH Hinj2). cbn [c_origin c_val].
  destruct (c_origin c) as [|j] eqn:E; cbn [rn_origin ta_origin_is].
  - exact IH.
  - assert (Hb : (f i =? f j) = (i =? j)).
    { apply eq_true_iff_eq. rewrite !N.eqb_eq. split; [|congruence]. intros H. apply Hinj; [left; reflexivity| |exact H].
      right. unfold ta_origins. cbn [map cn_ids]. rewrite E. left. reflexivity. }
    rewrite Hb. destruct (i =? j); cbn [map c_val]; [f_equal|]; exact IH.
Qed.

Lemma ta_components_rn_def {A} f (L : list (comp A)) : ta_components None (rn_comps f L) = ta_components None L.
Proof.
  unfold ta_components, rn_comps. induction L as [|c L IH]; cbn [map filter]; [reflexivity|].
  cbn [c_origin c_val]. destruct (c_origin c); cbn [rn_origin ta_origin_is map c_val]; [f_equal|]; exact IH.
Qed.

Lemma ta_type_part_rn_def f t : ta_type_part (rn_type f t) None = ta_type_part t None.
Proof. destruct t; cbn [rn_type ta_type_part]; rewrite ?ta_components_rn_def; reflexivity. Qed.

Lemma cn_ids_sub_type t {A} (L : list (comp A)) :
  (forall i, In (OExt i) (ta_origins L) -> In (OExt i) (ta_type_origins t)) ->
  incl (cn_ids (ta_origins L)) (ta_type_extensions t).
Proof. intros H i Hi. apply ta_type_extensions_In, H, cn_ids_In, Hi. Qed.

Lemma ta_type_part_rn_ext f t i :
  inj_on f (ta_type_extensions t) -> In i (ta_type_extensions t) ->
  ta_type_part (rn_type f t) (Some (f i)) = ta_type_part t (Some i).
Proof.
  intros Hinj Hi.
  assert (H : forall {A} (L : list (comp A)),
             (forall j, In (OExt j) (ta_origins L) -> In (OExt j) (ta_type_origins t)) ->
             ta_components (Some (f i)) (rn_comps f L) = ta_components (Some i) L).
  { intros A L HL. apply ta_components_rn. eapply inj_on_incl; [|exact Hinj].
    intros x [<-|Hx]; [exact Hi|]. eapply cn_ids_sub_type; eassumption. }
  destruct t; cbn [rn_type ta_type_part ta_type_origins] in *;
    rewrite ?H; try reflexivity; intros j Hj; rewrite ?in_app_iff; auto.
Qed.

Theorem ta_type_to_ast_rn f t : inj_on f (ta_type_extensions t) -> ta_type_to_ast (rn_type f t) = ta_type_to_ast t.
Proof.
  intros Hinj. unfold ta_type_to_ast. rewrite ta_type_part_rn_def. f_equal.
  assert (Hdisc : ta_type_extensions (rn_type f t) = map f (ta_type_extensions t)).
  { unfold ta_type_extensions. rewrite ta_type_origins_rn. apply ta_ext_ids_map.
    eapply inj_on_incl; [|exact Hinj]. intros i Hi. apply ta_type_extensions_In, cn_ids_In, Hi. }
  rewrite Hdisc, map_map. apply map_ext_in. intros i Hi. apply ta_type_part_rn_ext; assumption.
Qed.

Lemma cn_index_inj a b l : In a l -> In b l -> cn_index a l = cn_index b l -> a = b.
Proof.
  induction l as [|j l IH]; cbn [In cn_index]; [tauto|]. intros Ha Hb.
  destruct (a =? j) eqn:Ea, (b =? j) eqn:Eb; try (apply N.eqb_eq in Ea); try (apply N.eqb_eq in Eb); try congruence; try lia.
  intros H. apply IH; [destruct Ha as [Ha|Ha]; [apply N.eqb_neq in Ea; congruence|exact Ha]
                      |destruct Hb as [Hb|Hb]; [apply N.eqb_neq in Eb; congruence|exact Hb]|lia].
Qed.

(* ---- the schema definition *)
Lemma rn_sd_ext f g sd :
  (forall i, In (OExt i) (ta_sd_origins sd) -> f i = g i) -> rn_sd f sd = rn_sd g sd.
Proof.
  intros H. destruct sd as [d dirs q m s]. unfold rn_sd, ta_sd_origins in *. cbn [sd_desc sd_dirs sd_query sd_mutation sd_subscription] in *.
  f_equal.
  - apply rn_comps_ext. intros i Hi. apply H. rewrite in_app_iff. auto.
  - destruct q as [c|]; cbn; [|reflexivity]. destruct (c_origin c) as [|i] eqn:E; cbn; [reflexivity|].
    rewrite (H i); [reflexivity|]. rewrite !in_app_iff. cbn. rewrite E. auto.
  - destruct m as [c|]; cbn; [|reflexivity]. destruct (c_origin c) as [|i] eqn:E; cbn; [reflexivity|].
    rewrite (H i); [reflexivity|]. rewrite !in_app_iff. cbn. rewrite E. auto.
  - destruct s as [c|]; cbn; [|reflexivity]. destruct (c_origin c) as [|i] eqn:E; cbn; [reflexivity|].
    rewrite (H i); [reflexivity|]. rewrite !in_app_iff. cbn. rewrite E. auto.
Qed.

Lemma rn_opt_comp {A} f g (c : option (comp A)) : rn_opt g (rn_opt f c) = rn_opt (fun i => g (f i)) c.
Proof. destruct c as [c|]; cbn; [|reflexivity]. destruct (c_origin c); reflexivity. Qed.

Lemma rn_sd_comp f g sd : rn_sd g (rn_sd f sd) = rn_sd (fun i => g (f i)) sd.
Proof. unfold rn_sd. cbn [sd_desc sd_dirs sd_query sd_mutation sd_subscription]. rewrite rn_comps_comp, !rn_opt_comp. reflexivity. Qed.

Lemma ta_opt_origin_rn {A} f (c : option (comp A)) : ta_opt_origin (rn_opt f c) = map (rn_origin f) (ta_opt_origin c).
Proof. destruct c; reflexivity. Qed.

Lemma ta_sd_origins_rn f sd : ta_sd_origins (rn_sd f sd) = map (rn_origin f) (ta_sd_origins sd).
Proof. unfold ta_sd_origins, rn_sd. cbn [sd_desc sd_dirs sd_query sd_mutation sd_subscription]. rewrite !map_app, ta_origins_rn, !ta_opt_origin_rn. reflexivity. Qed.

Lemma ta_ext_ids_In' os i : In i (ta_ext_ids os) <-> In (OExt i) os.
Proof.
  unfold ta_ext_ids.
  assert (H : forall os seen, In i (ta_ext_ids_acc seen os) <-> In (OExt i) os /\ ~ In i seen).
  { clear os. induction os as [|[|j] os IH]; intros seen; cbn [ta_ext_ids_acc].
    - cbn. tauto.
    - rewrite IH. cbn. intuition discriminate.
    - destruct (ta_mem j seen) eqn:E.
      + apply ta_mem_In' in E. rewrite IH. cbn [In]. split; [intros [H1 H2]; auto|].
        intros [[H1|H1] H2]; [injection H1 as ->; contradiction|auto].
      + assert (Hj : ~ In j seen) by (intros H; apply ta_mem_In' in H; congruence).
        cbn [In]. rewrite IH. cbn [In]. split.
        * intros [->|[H1 H2]]; [auto|]. split; [right; exact H1|tauto].
        * intros [[H1|H1] H2]; [injection H1 as ->; left; reflexivity|].
          destruct (N.eq_dec j i) as [->|Hne]; [left; reflexivity|]. right. split; [exact H1|]. tauto. }
  rewrite H. cbn. tauto.
Qed.

Lemma ta_sd_extensions_rn f sd :
  inj_on f (ta_sd_extensions sd) -> ta_sd_extensions (rn_sd f sd) = map f (ta_sd_extensions sd).
Proof.
  intros Hinj. unfold ta_sd_extensions. rewrite ta_sd_origins_rn. apply ta_ext_ids_map.
  eapply inj_on_incl; [|exact Hinj]. intros i Hi. apply ta_ext_ids_In', cn_ids_In, Hi.
Qed.

Theorem cn_sd_rn f sd : inj_on f (ta_sd_extensions sd) -> cn_sd (rn_sd f sd) = cn_sd sd.
Proof.
  intros Hinj. unfold cn_sd. rewrite ta_sd_extensions_rn by exact Hinj. rewrite rn_sd_comp.
  apply rn_sd_ext. intros i Hi. apply cn_index_map. apply ta_ext_ids_In' in Hi. fold (ta_sd_extensions sd) in Hi.
  intros a b Ha Hb. apply Hinj; [destruct Ha as [<-|Ha]|destruct Hb as [<-|Hb]]; assumption.
Qed.

Lemma ta_root_op_rn f ext op (c : option (comp str)) ext' :
  (forall o, c = Some o -> ta_origin_is ext' (rn_origin f (c_origin o)) = ta_origin_is ext (c_origin o)) ->
  ta_root_op ext' op (rn_opt f c) = ta_root_op ext op c.
Proof. destruct c as [o|]; cbn; [|reflexivity]. intros H. rewrite (H o eq_refl). reflexivity. Qed.

Lemma ta_root_ops_rn_def f sd : ta_root_ops (rn_sd f sd) None = ta_root_ops sd None.
Proof.
  unfold ta_root_ops, rn_sd. cbn [sd_desc sd_dirs sd_query sd_mutation sd_subscription]. rewrite !(ta_root_op_rn f None); try reflexivity;
    intros o _; destruct (c_origin o); reflexivity.
Qed.

Lemma ta_root_ops_rn_ext f sd i :
  inj_on f (ta_sd_extensions sd) -> In i (ta_sd_extensions sd) ->
  ta_root_ops (rn_sd f sd) (Some (f i)) = ta_root_ops sd (Some i).
Proof.
  intros Hinj Hi. unfold ta_root_ops, rn_sd. cbn [sd_desc sd_dirs sd_query sd_mutation sd_subscription].
  assert (H : forall c : comp str, In (c_origin c) (ta_sd_origins sd) ->
                ta_origin_is (Some (f i)) (rn_origin f (c_origin c)) = ta_origin_is (Some i) (c_origin c)).
  { intros c Hc. destruct (c_origin c) as [|j] eqn:E; cbn; [reflexivity|].
    apply eq_true_iff_eq. rewrite !N.eqb_eq. split; [|congruence]. intros Hf. apply Hinj; [exact Hi| |exact Hf].
    apply ta_ext_ids_In'. exact Hc. }
  rewrite !(ta_root_op_rn f (Some i)); try reflexivity; intros o Ho; apply H; unfold ta_sd_origins; rewrite Ho;
    rewrite !in_app_iff; cbn; auto.
Qed.

Lemma ta_sd_implicit_rn f sd types :
  inj_on f (ta_sd_extensions sd) -> ta_sd_implicit (rn_sd f sd) types = ta_sd_implicit sd types.
Proof.
  intros Hinj. unfold ta_sd_implicit. rewrite ta_root_ops_rn_def, ta_sd_extensions_rn by exact Hinj.
  destruct sd as [d dirs q m s]. unfold rn_sd, ta_root_matches_implicit. cbn [sd_desc sd_dirs sd_query sd_mutation sd_subscription].
  assert (Ho : forall c : option (comp str), option_map c_val (rn_opt f c) = option_map c_val c) by (intros [c|]; reflexivity).
  assert (Hn : forall c : option (comp str), ta_is_none (rn_opt f c) = ta_is_none c) by (intros [c|]; reflexivity).
  rewrite !Ho, !Hn. unfold rn_comps.
  replace (ta_is_nil (map _ dirs)) with (ta_is_nil dirs) by (destruct dirs; reflexivity).
  replace (ta_is_nil (map f _)) with (ta_is_nil (ta_sd_extensions {| sd_desc := d; sd_dirs := dirs; sd_query := q; sd_mutation := m; sd_subscription := s |}))
    by (destruct (ta_sd_extensions _); reflexivity).
  reflexivity.
Qed.

Theorem ta_sd_to_ast_rn f sd types :
  inj_on f (ta_sd_extensions sd) -> ta_sd_to_ast (rn_sd f sd) types = ta_sd_to_ast sd types.
Proof.
  intros Hinj. unfold ta_sd_to_ast. rewrite ta_sd_implicit_rn, ta_root_ops_rn_def, ta_sd_extensions_rn by exact Hinj.
  f_equal.
  - unfold rn_sd. cbn [sd_desc sd_dirs]. rewrite ta_components_rn_def. reflexivity.
  - rewrite map_map. apply map_ext_in. intros i Hi. rewrite ta_root_ops_rn_ext by assumption. f_equal.
    unfold rn_sd. cbn [sd_dirs]. apply ta_components_rn. eapply inj_on_incl; [|exact Hinj].
    intros x [<-|Hx]; [exact Hi|]. apply ta_ext_ids_In'. apply cn_ids_In in Hx. unfold ta_sd_origins. apply in_app_iff. left. exact Hx.
Qed.
