(* C15 — what "internally consistent" means for a schema, stated declaratively and WITHOUT reference to
   the checker functions of Schema/Valid.v (only the data types of Ast/Ast.v and Schema/Model.v, their
   accessors sch_get_type / et_name / inner_named_type, lists and logic).
   Also the declarative statements the algorithmic rules of C14 are proved against:
   ImplementsSpec (spec 3.6 IsValidImplementation), CsNNPath (a chain of non-null singular input-object
   references), CsRefPath (a directive definition referencing itself through arguments).
   Definitions only (Prop): nothing here is extracted. *)
From ApolloVerif Require Import Base.Chars Ast.Ast Schema.Model.
From Coq Require Import Relations.

(* ---------------------------------------------------------------- resolving a type reference *)

(* the five built-in scalars exist in every schema even when the type map does not list them *)
Definition CsBuiltinScalarName (n : str) : Prop :=
  n = [73;110;116] \/ n = [70;108;111;97;116] \/ n = [83;116;114;105;110;103]
  \/ n = [66;111;111;108;101;97;110] \/ n = [73;68].

Definition CsResolves (s : schema) (n : str) (t : ext_type) : Prop :=
  sch_get_type s n = Some t
  \/ (sch_get_type s n = None /\ CsBuiltinScalarName n /\ t = EScalar None n [] true).

Definition CsObject (t : ext_type) : Prop := match t with EObject _ _ _ _ _ _ => True | _ => False end.
Definition CsInterface (t : ext_type) : Prop := match t with EInterface _ _ _ _ _ _ => True | _ => False end.
Definition CsInputObject (t : ext_type) : Prop := match t with EInput _ _ _ _ _ => True | _ => False end.
(* spec 3.4.2 *)
Definition CsInputKind (t : ext_type) : Prop :=
  match t with EScalar _ _ _ _ | EEnum _ _ _ _ _ | EInput _ _ _ _ _ => True | _ => False end.
Definition CsOutputKind (t : ext_type) : Prop :=
  match t with EInput _ _ _ _ _ => False | _ => True end.

Definition CsRefersTo (s : schema) (K : ext_type -> Prop) (n : str) : Prop :=
  exists t, CsResolves s n t /\ K t.

Definition cs_fields_of (t : ext_type) : list fielddef :=
  match t with
  | EObject _ _ _ _ fs _ | EInterface _ _ _ _ fs _ => map c_val fs
  | _ => []
  end.
Definition cs_impls_of (t : ext_type) : list str :=
  match t with
  | EObject _ _ is _ _ _ | EInterface _ _ is _ _ _ => map c_val is
  | _ => []
  end.
Definition cs_input_fields_of (t : ext_type) : list inputvaldef :=
  match t with EInput _ _ _ fs _ => map c_val fs | _ => [] end.
Definition cs_members_of (t : ext_type) : list str :=
  match t with EUnion _ _ _ ms _ => map c_val ms | _ => [] end.

(* "the element named n" of an ordered collection: the first one carrying that name *)
Definition CsFirst {A : Type} (name : A -> str) (l : list A) (n : str) (x : A) : Prop :=
  exists pre post, l = pre ++ x :: post /\ name x = n /\ forall y, In y pre -> name y <> n.

(* ---------------------------------------------------------------- IsValidImplementation (spec 3.6) *)

(* "the unwrapped nullable type of T if it is a Non-Null type, otherwise T" *)
Definition cs_nullable (t : ty) : ty :=
  match t with
  | TNonNullNamed n => TNamed n
  | TNonNullList t => TList t
  | t => t
  end.

(* steps 4 and 5 of IsValidImplementationFieldType *)
Definition CsSubtype (s : schema) (n m : str) : Prop :=
  exists tn tm, CsResolves s n tn /\ CsResolves s m tm /\
    ((CsObject tn /\ In n (cs_members_of tm))                                   (* 4: possible type of a union *)
     \/ ((CsObject tn \/ CsInterface tn) /\ CsInterface tm /\ In m (cs_impls_of tn))).   (* 5 *)

(* IsValidImplementationFieldType(fieldType, implementedFieldType) *)
Inductive ValidImplFieldType (s : schema) : ty -> ty -> Prop :=
| VIFT_nonnull_named n it :                                   (* 1 *)
    ValidImplFieldType s (TNamed n) (cs_nullable it) -> ValidImplFieldType s (TNonNullNamed n) it
| VIFT_nonnull_list t it :                                    (* 1 *)
    ValidImplFieldType s (TList t) (cs_nullable it) -> ValidImplFieldType s (TNonNullList t) it
| VIFT_list t u :                                             (* 2 *)
    ValidImplFieldType s t u -> ValidImplFieldType s (TList t) (TList u)
| VIFT_same n : ValidImplFieldType s (TNamed n) (TNamed n)    (* 3 *)
| VIFT_sub n m :                                              (* 4, 5 *)
    CsSubtype s n m -> ValidImplFieldType s (TNamed n) (TNamed m).

(* graphql-js isRequiredArgument: Non-Null type and no default value *)
Definition CsRequired (a : inputvaldef) : Prop :=
  (exists n, iv_ty a = TNonNullNamed n \/ exists t, iv_ty a = TNonNullList t) /\ iv_default a = None.

Definition ImplementsSpec (s : schema) (t : ext_type) (i : str) : Prop :=
  exists d n iimpls dirs ifields b,
    CsResolves s i (EInterface d n iimpls dirs ifields b) /\
    (* 1: every interface the implemented interface declares is declared by the type *)
    (forall j, In j (map c_val iimpls) -> In j (cs_impls_of t)) /\
    (* 2: every field of the implemented interface *)
    (forall ifd, In ifd (map c_val ifields) ->
       exists f, CsFirst fd_name (cs_fields_of t) (fd_name ifd) f /\
         (* c: every argument, with the same type *)
         (forall ia, In ia (fd_args ifd) ->
            exists a, CsFirst iv_name (fd_args f) (iv_name ia) a /\ iv_ty a = iv_ty ia) /\
         (* d: additional arguments are not required *)
         (forall a, In a (fd_args f) ->
            (exists ia, In ia (fd_args ifd) /\ iv_name ia = iv_name a) \/ ~ CsRequired a) /\
         (* e: covariant return type *)
         ValidImplFieldType s (fd_ty f) (fd_ty ifd)).

(* the interfaces a type implements, directly or through other interfaces *)
Inductive CsImplementsTrans (s : schema) (t : ext_type) : str -> Prop :=
| CsIT_direct i : In i (cs_impls_of t) -> CsImplementsTrans s t i
| CsIT_step j i tj :
    CsImplementsTrans s t j -> CsResolves s j tj -> CsInterface tj -> In i (cs_impls_of tj) ->
    CsImplementsTrans s t i.

(* ---------------------------------------------------------------- input object cycles (spec 3.10) *)

(* a has an input field of type exactly b! and b is an input object *)
Definition CsNNStep (s : schema) (a b : str) : Prop :=
  exists ta tb f, CsResolves s a ta /\ In f (cs_input_fields_of ta) /\ iv_ty f = TNonNullNamed b
                  /\ CsResolves s b tb /\ CsInputObject tb.
Definition CsNNPath (s : schema) : str -> str -> Prop := clos_trans str (CsNNStep s).

(* ---------------------------------------------------------------- directive definitions referencing themselves (3.13) *)

Inductive cs_node := CsD (n : str) | CsT (n : str).

Definition cs_type_dirs (t : ext_type) : list directive :=
  match t with
  | EScalar _ _ d _ | EObject _ _ _ d _ _ | EInterface _ _ _ d _ _ | EUnion _ _ d _ _
  | EEnum _ _ d _ _ | EInput _ _ d _ _ => map c_val d
  end.
Definition cs_enum_values_of (t : ext_type) : list enumvaldef :=
  match t with EEnum _ _ _ vs _ => map c_val vs | _ => [] end.

(* what an input value definition (argument or input field) references *)
Definition CsIvdRefs (s : schema) (a : inputvaldef) (y : cs_node) : Prop :=
  (exists d, In d (iv_dirs a) /\ y = CsD (d_name d) /\ exists def, sch_find_dirdef (d_name d) (sch_dirdefs s) = Some def)
  \/ (y = CsT (inner_named_type (iv_ty a)) /\ exists t, CsResolves s (inner_named_type (iv_ty a)) t).

Definition CsRefStep (s : schema) (x y : cs_node) : Prop :=
  match x with
  | CsD d => exists def a, sch_find_dirdef d (sch_dirdefs s) = Some def /\ In a (dd_args def) /\ CsIvdRefs s a y
  | CsT n => exists t, CsResolves s n t /\
      ((exists d, In d (cs_type_dirs t) /\ y = CsD (d_name d)
                  /\ exists def, sch_find_dirdef (d_name d) (sch_dirdefs s) = Some def)
       \/ (exists v d, In v (cs_enum_values_of t) /\ In d (ev_dirs v) /\ y = CsD (d_name d)
                       /\ exists def, sch_find_dirdef (d_name d) (sch_dirdefs s) = Some def)
       \/ (exists f, In f (cs_input_fields_of t) /\ CsIvdRefs s f y))
  end.
Definition CsRefPath (s : schema) : cs_node -> cs_node -> Prop := clos_trans cs_node (CsRefStep s).

(* ---------------------------------------------------------------- reserved names *)

Definition CsReserved (n : str) : Prop := exists r, n = 95 :: 95 :: r.

(* a component of a type that a user wrote: any component of a user's type, and what a user's extension
   added to a built-in type *)
Definition CsUserComp {A : Type} (builtin : bool) (c : comp A) : Prop :=
  builtin = false \/ exists id, c_origin c = OExt id.

Definition CsNoReservedNames (s : schema) : Prop :=
  (forall t, In t (sch_types s) ->
     (et_builtin t = false -> ~ CsReserved (et_name t)) /\
     match t with
     | EObject _ _ _ _ fs b | EInterface _ _ _ _ fs b =>
         forall c, In c fs -> CsUserComp b c ->
           ~ CsReserved (fd_name (c_val c)) /\ forall a, In a (fd_args (c_val c)) -> ~ CsReserved (iv_name a)
     | EEnum _ _ _ vs b => forall c, In c vs -> CsUserComp b c -> ~ CsReserved (ev_value (c_val c))
     | EInput _ _ _ fs b => forall c, In c fs -> CsUserComp b c -> ~ CsReserved (iv_name (c_val c))
     | _ => True
     end) /\
  (forall d, In d (sch_dirdefs s) -> dd_builtin d = false ->
     ~ CsReserved (dd_name d) /\ forall a, In a (dd_args d) -> ~ CsReserved (iv_name a)).

(* ---------------------------------------------------------------- the conjunction *)

Definition cs_roots (s : schema) : list (optype * str) :=
  match sd_query (sch_def s) with Some c => [(OpQuery, c_val c)] | None => [] end ++
  match sd_mutation (sch_def s) with Some c => [(OpMutation, c_val c)] | None => [] end ++
  match sd_subscription (sch_def s) with Some c => [(OpSubscription, c_val c)] | None => [] end.

Record Consistent (s : schema) : Prop := {
  (* has a query root *)
  cs_has_query : exists c, sd_query (sch_def s) = Some c;
  (* every root operation type is an object type *)
  cs_roots_object : forall op n, In (op, n) (cs_roots s) -> CsRefersTo s CsObject n;
  (* ... and they are distinct types *)
  cs_roots_distinct : forall op1 op2 n, In (op1, n) (cs_roots s) -> In (op2, n) (cs_roots s) -> op1 = op2;
  (* every type reference resolves and has the right kind for its position *)
  cs_field_types : forall t f, In t (sch_types s) -> In f (cs_fields_of t) ->
                     CsRefersTo s CsOutputKind (inner_named_type (fd_ty f));
  cs_arg_types : forall t f a, In t (sch_types s) -> In f (cs_fields_of t) -> In a (fd_args f) ->
                   CsRefersTo s CsInputKind (inner_named_type (iv_ty a));
  cs_input_field_types : forall t f, In t (sch_types s) -> In f (cs_input_fields_of t) ->
                           CsRefersTo s CsInputKind (inner_named_type (iv_ty f));
  cs_dirdef_arg_types : forall d a, In d (sch_dirdefs s) -> In a (dd_args d) ->
                          CsRefersTo s CsInputKind (inner_named_type (iv_ty a));
  cs_union_members : forall t m, In t (sch_types s) -> In m (cs_members_of t) -> CsRefersTo s CsObject m;
  cs_implements_interfaces : forall t i, In t (sch_types s) -> In i (cs_impls_of t) ->
                               CsRefersTo s CsInterface i;
  (* every object / interface satisfies the contract of every interface it implements, directly or
     transitively *)
  cs_contracts : forall t i, In t (sch_types s) -> CsImplementsTrans s t i -> ImplementsSpec s t i;
  (* no input object has a non-null cycle *)
  cs_no_input_cycle : forall n, ~ CsNNPath s n n;
  (* no user-defined name starts with __ *)
  cs_no_reserved : CsNoReservedNames s }.

(* The remaining sentence of C15 ("the type map contains exactly the built-in scalars that are
   referenced") speaks about the schema AFTER validate_schema's prune/insert step; it is stated here on
   that output schema and evaluated through the tie (ConsistentB.cs_scalars_exact_b); the prune/insert
   mechanism itself is C16's model. *)
Definition CsReferenced (s : schema) (n : str) : Prop :=
  (exists t f, In t (sch_types s) /\ In f (cs_fields_of t) /\
     (inner_named_type (fd_ty f) = n \/ exists a, In a (fd_args f) /\ inner_named_type (iv_ty a) = n))
  \/ (exists t f, In t (sch_types s) /\ In f (cs_input_fields_of t) /\ inner_named_type (iv_ty f) = n)
  \/ (exists d a, In d (sch_dirdefs s) /\ In a (dd_args d) /\ inner_named_type (iv_ty a) = n).
Definition CsScalarsExact (s : schema) : Prop :=
  forall n, CsBuiltinScalarName n -> ((exists t, sch_get_type s n = Some t) <-> CsReferenced s n).
