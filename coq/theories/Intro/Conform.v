(* C24 — what a well-formed introspection response looks like (definitions; proofs in ConformProofs.v).

   `ir_conf` is a decidable predicate on (selection set, JSON value): the value is the response object for that
   selection set on an introspection object of a given CLASS, where the classes refine the introspection
   schema's types by the kind of a `__Type` (specification 4.2.2: "fields: must be non-null for OBJECT and
   INTERFACE, otherwise null", etc.).  The shape of every field per class is the table `ir_shape_fld`:
   nullability of the introspection schema plus those per-kind conventions plus closure under reference
   (`IshName`: the name of a named type is a declared type name).

   `ir_query_ok` is the (schema-independent) validity of a selection set against the introspection schema as
   far as the executor needs it: fields exist on their type, `includeDeprecated`/`name` arguments are literals,
   collection succeeds. *)
From ApolloVerif Require Import Base.Chars Ast.Ast Schema.Model Intro.IrNames Intro.Reference.

Inductive ir_k8 := IkScalar | IkObject | IkInterface | IkUnion | IkEnum | IkInput | IkList | IkNonNull.
Definition ir_k8_name (k : ir_k8) : str :=
  match k with
  | IkScalar => irk_SCALAR | IkObject => irk_OBJECT | IkInterface => irk_INTERFACE | IkUnion => irk_UNION
  | IkEnum => irk_ENUM | IkInput => irk_INPUT_OBJECT | IkList => irk_LIST | IkNonNull => irk_NON_NULL
  end.

Inductive ir_class := IcRoot | IcSchema | IcType (k : ir_k8) | IcField | IcInput | IcEnumVal | IcDirective.

Definition ir_named_classes : list ir_class :=
  [IcType IkScalar; IcType IkObject; IcType IkInterface; IcType IkUnion; IcType IkEnum; IcType IkInput].
Definition ir_inner_classes : list ir_class := ir_named_classes ++ [IcType IkList].       (* under NON_NULL *)
Definition ir_any_type_classes : list ir_class := ir_inner_classes ++ [IcType IkNonNull].

Inductive ir_shape :=
| IshSkip                                   (* concrete root field: no entry *)
| IshNull                                   (* must be null *)
| IshStr (nullable : bool)
| IshBool
| IshConst (x : str)                        (* exactly this string *)
| IshName                                   (* the name of a declared type *)
| IshLocs                                   (* a list of directive location names *)
| IshObj (nullable : bool) (cs : list ir_class)
| IshList (free : bool) (cs : list ir_class).   (* a non-null list of non-null objects *)

Definition ir_class_typename (root : str) (c : ir_class) : str :=
  match c with
  | IcRoot => root
  | IcSchema => irk_uuSchema
  | IcType _ => irk_uuType
  | IcField => irk_uuField
  | IcInput => irk_uuInputValue
  | IcEnumVal => irk_uuEnumValue
  | IcDirective => irk_uuDirective
  end.

Definition ir_is_named_kind (k : ir_k8) : bool :=
  match k with IkList | IkNonNull => false | _ => true end.

(* None: not a field of the class's introspection type *)
Definition ir_shape_fld (root : str) (c : ir_class) (fl : ir_fld) : option ir_shape :=
  match fl with
  | IrfTypename => Some (IshConst (ir_class_typename root c))
  | _ =>
    match c with
    | IcRoot =>
        match fl with
        | IrfSchema => Some (IshObj false [IcSchema])
        | IrfTypeMeta => Some (IshObj true ir_named_classes)
        | _ => None
        end
    | IcSchema =>
        match fl with
        | IrfDescription => Some (IshStr true)
        | IrfTypes => Some (IshList true ir_named_classes)
        | IrfDirectives => Some (IshList true [IcDirective])
        | IrfQueryType => Some (IshObj false ir_named_classes)
        | IrfMutationType | IrfSubscriptionType => Some (IshObj true ir_named_classes)
        | _ => None
        end
    | IcType k =>
        match fl with
        | IrfKind => Some (IshConst (ir_k8_name k))
        | IrfName => Some (if ir_is_named_kind k then IshName else IshNull)
        | IrfDescription => Some (if ir_is_named_kind k then IshStr true else IshNull)
        | IrfFields =>
            Some (match k with IkObject | IkInterface => IshList false [IcField] | _ => IshNull end)
        | IrfInterfaces =>
            Some (match k with IkObject | IkInterface => IshList false ir_named_classes | _ => IshNull end)
        | IrfPossibleTypes =>
            Some (match k with
                  | IkInterface => IshList true ir_named_classes
                  | IkUnion => IshList false ir_named_classes
                  | _ => IshNull
                  end)
        | IrfEnumValues => Some (match k with IkEnum => IshList false [IcEnumVal] | _ => IshNull end)
        | IrfInputFields => Some (match k with IkInput => IshList false [IcInput] | _ => IshNull end)
        | IrfOfType =>
            Some (match k with
                  | IkList => IshObj false ir_any_type_classes
                  | IkNonNull => IshObj false ir_inner_classes
                  | _ => IshNull
                  end)
        | IrfSpecifiedByURL => Some (match k with IkScalar => IshStr true | _ => IshNull end)
        | _ => None
        end
    | IcField =>
        match fl with
        | IrfName => Some (IshStr false)
        | IrfDescription => Some (IshStr true)
        | IrfArgs => Some (IshList false [IcInput])
        | IrfType => Some (IshObj false ir_any_type_classes)
        | IrfIsDeprecated => Some IshBool
        | IrfDeprecationReason => Some (IshStr true)
        | _ => None
        end
    | IcInput =>
        match fl with
        | IrfName => Some (IshStr false)
        | IrfDescription => Some (IshStr true)
        | IrfType => Some (IshObj false ir_any_type_classes)
        | IrfDefaultValue => Some (IshStr true)
        | IrfIsDeprecated => Some IshBool
        | IrfDeprecationReason => Some (IshStr true)
        | _ => None
        end
    | IcEnumVal =>
        match fl with
        | IrfName => Some (IshStr false)
        | IrfDescription => Some (IshStr true)
        | IrfIsDeprecated => Some IshBool
        | IrfDeprecationReason => Some (IshStr true)
        | _ => None
        end
    | IcDirective =>
        match fl with
        | IrfName => Some (IshStr false)
        | IrfDescription => Some (IshStr true)
        | IrfLocations => Some IshLocs
        | IrfArgs => Some (IshList false [IcInput])
        | IrfIsRepeatable => Some IshBool
        | _ => None
        end
    end
  end.

Definition ir_is_root (c : ir_class) : bool := match c with IcRoot => true | _ => false end.

Definition ir_shape_of (root : str) (c : ir_class) (f : str) : option ir_shape :=
  match ir_fld_of f with
  | Some fl =>
      match ir_shape_fld root c fl with
      | Some sh => Some sh
      | None => if ir_is_root c then Some IshSkip else None
      end
  | None => if ir_is_root c then Some IshSkip else None
  end.

Definition ir_kind8 (t : ext_type) : ir_k8 :=
  match t with
  | EScalar _ _ _ _ => IkScalar
  | EObject _ _ _ _ _ _ => IkObject
  | EInterface _ _ _ _ _ _ => IkInterface
  | EUnion _ _ _ _ _ => IkUnion
  | EEnum _ _ _ _ _ => IkEnum
  | EInput _ _ _ _ _ => IkInput
  end.

Definition ir_class_of (n : ir_node) : ir_class :=
  match n with
  | IrnRoot _ => IcRoot
  | IrnSchema => IcSchema
  | IrnType t => IcType (ir_kind8 t)
  | IrnWrap (TList _) => IcType IkList
  | IrnWrap _ => IcType IkNonNull
  | IrnField _ => IcField
  | IrnInput _ => IcInput
  | IrnEnumVal _ => IcEnumVal
  | IrnDirective _ => IcDirective
  end.

(* ------------------------------------------------------------------------------------ JSON conformance *)
Definition ir_json_is_null (j : IrJson) : bool := match j with IrNull => true | _ => false end.
Definition ir_json_is_str (j : IrJson) : bool := match j with IrStr _ => true | _ => false end.
Definition ir_bool_same (a b : bool) : bool := if a then b else negb b.

Definition ir_shape_ok (declared : list str) (rec : ir_class -> list selection -> IrJson -> bool)
  (sh : ir_shape) (sub : list selection) (v : IrJson) : bool :=
  match sh with
  | IshSkip => false
  | IshNull => ir_json_is_null v
  | IshStr nullable => ir_json_is_str v || (nullable && ir_json_is_null v)
  | IshBool => match v with IrBool _ => true | _ => false end
  | IshConst x => match v with IrStr y => streq y x | _ => false end
  | IshName => match v with IrStr y => existsb (streq y) declared | _ => false end
  | IshLocs =>
      match v with
      | IrArr false l =>
          forallb (fun x => match x with
                            | IrStr y => existsb (fun d => streq y (ir_loc_name d)) ir_all_locs
                            | _ => false
                            end) l
      | _ => false
      end
  | IshObj nullable cs => (nullable && ir_json_is_null v) || existsb (fun c => rec c sub v) cs
  | IshList free cs =>
      match v with
      | IrArr fr l => ir_bool_same fr free && forallb (fun x => existsb (fun c => rec c sub x) cs) l
      | _ => false
      end
  end.

Fixpoint ir_conf_groups (declared : list str) (root : str)
  (rec : ir_class -> list selection -> IrJson -> bool) (c : ir_class) (gs : list ir_group)
  (kvs : list (str * IrJson)) : bool :=
  match gs with
  | [] => match kvs with [] => true | _ => false end
  | g :: r =>
      match ir_shape_of root c (irg_name g) with
      | None => false
      | Some IshSkip => ir_conf_groups declared root rec c r kvs
      | Some sh =>
          match kvs with
          | (k, v) :: kr =>
              streq k (irg_key g) && ir_shape_ok declared rec sh (irg_sub g) v
              && ir_conf_groups declared root rec c r kr
          | [] => false
          end
      end
  end.

(* the response object for `sels` on an object of class `c`: one entry per collected group, in order, with the
   group's response key, each value of the shape its field has for the class *)
Fixpoint ir_conf (fuel cf : nat) (s : schema) (doc : document) (declared : list str) (root : str)
  (c : ir_class) (sels : list selection) (j : IrJson) : bool :=
  match fuel with
  | O => false
  | S f =>
      let st := ir_collect cf s doc (ir_class_typename root c) sels ir_cstate_init in
      (ircs_bad st =? 0)
      && match j with
         | IrObj kvs =>
             ir_conf_groups declared root (ir_conf f cf s doc declared root) c (ircs_groups st) kvs
         | _ => false
         end
  end.

(* ------------------------------------------------------------------------------------------ query validity *)
Inductive ir_tt := IttRoot | IttSchema | IttType | IttField | IttInput | IttEnumVal | IttDirective.
Definition ir_class_tt (c : ir_class) : ir_tt :=
  match c with
  | IcRoot => IttRoot | IcSchema => IttSchema | IcType _ => IttType | IcField => IttField
  | IcInput => IttInput | IcEnumVal => IttEnumVal | IcDirective => IttDirective
  end.
Definition ir_tt_typename (root : str) (t : ir_tt) : str :=
  match t with
  | IttRoot => root | IttSchema => irk_uuSchema | IttType => irk_uuType | IttField => irk_uuField
  | IttInput => irk_uuInputValue | IttEnumVal => irk_uuEnumValue | IttDirective => irk_uuDirective
  end.

(* None: not a field of the type; Some None: a leaf; Some (Some t): an object (or list of objects) of type t *)
Definition ir_fld_result (t : ir_tt) (fl : ir_fld) : option (option ir_tt) :=
  match fl with
  | IrfTypename => Some None
  | _ =>
    match t with
    | IttRoot =>
        match fl with IrfSchema => Some (Some IttSchema) | IrfTypeMeta => Some (Some IttType) | _ => None end
    | IttSchema =>
        match fl with
        | IrfDescription => Some None
        | IrfTypes | IrfQueryType | IrfMutationType | IrfSubscriptionType => Some (Some IttType)
        | IrfDirectives => Some (Some IttDirective)
        | _ => None
        end
    | IttType =>
        match fl with
        | IrfKind | IrfName | IrfDescription | IrfSpecifiedByURL => Some None
        | IrfFields => Some (Some IttField)
        | IrfInterfaces | IrfPossibleTypes | IrfOfType => Some (Some IttType)
        | IrfEnumValues => Some (Some IttEnumVal)
        | IrfInputFields => Some (Some IttInput)
        | _ => None
        end
    | IttField =>
        match fl with
        | IrfName | IrfDescription | IrfIsDeprecated | IrfDeprecationReason => Some None
        | IrfArgs => Some (Some IttInput)
        | IrfType => Some (Some IttType)
        | _ => None
        end
    | IttInput =>
        match fl with
        | IrfName | IrfDescription | IrfDefaultValue | IrfIsDeprecated | IrfDeprecationReason => Some None
        | IrfType => Some (Some IttType)
        | _ => None
        end
    | IttEnumVal =>
        match fl with
        | IrfName | IrfDescription | IrfIsDeprecated | IrfDeprecationReason => Some None
        | _ => None
        end
    | IttDirective =>
        match fl with
        | IrfName | IrfDescription | IrfLocations | IrfIsRepeatable => Some None
        | IrfArgs => Some (Some IttInput)
        | _ => None
        end
    end
  end.

Definition ir_args_ok (fl : ir_fld) (args : list argument) : bool :=
  match fl with
  | IrfFields | IrfEnumValues | IrfInputFields | IrfArgs =>
      match ir_incl_dep args with Some _ => true | None => false end
  | IrfTypeMeta => match ir_find_arg irk_name args with Some (VString _) => true | _ => false end
  | _ => true
  end.

Definition ir_tt_is_root (t : ir_tt) : bool := match t with IttRoot => true | _ => false end.

Fixpoint ir_query_ok (fuel cf : nat) (s : schema) (doc : document) (root : str) (t : ir_tt)
  (sels : list selection) : bool :=
  match fuel with
  | O => false
  | S f =>
      let st := ir_collect cf s doc (ir_tt_typename root t) sels ir_cstate_init in
      (ircs_bad st =? 0)
      && forallb (fun g =>
           match ir_fld_of (irg_name g) with
           | None => ir_tt_is_root t
           | Some fl =>
               match ir_fld_result t fl with
               | None => ir_tt_is_root t
               | Some None => ir_args_ok fl (irg_args g)
               | Some (Some t') => ir_args_ok fl (irg_args g) && ir_query_ok f cf s doc root t' (irg_sub g)
               end
           end) (ircs_groups st)
  end.

(* what the theorems say about a whole response *)
Definition ir_declared (s : schema) : list str := map et_name (sch_types s).

Definition ir_conforms (s : schema) (doc : document) (j : IrJson) : bool :=
  match ir_find_query doc, sd_query (sch_def s) with
  | Some sels, Some q =>
      ir_conf (ir_doc_fuel doc) (ir_doc_fuel doc) s doc (ir_declared s) (c_val q) IcRoot sels j
  | _, _ => false
  end.

Definition ir_doc_ok (s : schema) (doc : document) : bool :=
  match ir_find_query doc, sd_query (sch_def s) with
  | Some sels, Some q => ir_query_ok (ir_doc_fuel doc) (ir_doc_fuel doc) s doc (c_val q) IttRoot sels
  | _, _ => false
  end.

(* ------------------------------------------------------------------ closure under reference, on the JSON *)
Fixpoint ir_jget (k : str) (kvs : list (str * IrJson)) : IrJson :=
  match kvs with
  | [] => IrErr 0
  | (k', v) :: r => if streq k k' then v else ir_jget k r
  end.
Definition ir_jfield (k : str) (j : IrJson) : IrJson :=
  match j with IrObj kvs => ir_jget k kvs | _ => IrErr 0 end.
Definition ir_jitems (j : IrJson) : list IrJson := match j with IrArr _ l => l | _ => [] end.
Definition ir_jstr (j : IrJson) : list str := match j with IrStr x => [x] | _ => [] end.

(* the names of the elements of `data.__schema.types` *)
Definition ir_listed_type_names (data : IrJson) : list str :=
  flat_map (fun t => ir_jstr (ir_jfield irk_name t))
           (ir_jitems (ir_jfield irk_types (ir_jfield irk_uuschema data))).

(* the response conforms when "declared type name" is read as "name listed under data.__schema.types":
   every `name` of a `__Type` object of a named kind anywhere in the response (queryType, the type of a field,
   argument or input field down its ofType chain, interfaces, possibleTypes, directive arguments) is the name of
   an element of `types` *)
Definition ir_conforms_closed (s : schema) (doc : document) (j : IrJson) : bool :=
  match ir_find_query doc, sd_query (sch_def s) with
  | Some sels, Some q =>
      ir_conf (ir_doc_fuel doc) (ir_doc_fuel doc) s doc (ir_listed_type_names j) (c_val q) IcRoot sels j
  | _, _ => false
  end.

(* ------------------------------------------- the shape table refines the transcribed introspection schema *)
(* For every class and every field: the field exists in `ir_spec_types` exactly when the tables know it, and
   the shape implies the declared type (a non-null declared type never gets a nullable or null shape, lists are
   lists of non-null objects of the declared element type, leaves have the declared scalar/enum type). *)
Fixpoint ir_fld_name_in (fl_eq : ir_fld -> bool) (l : list (str * ir_fld)) : str :=
  match l with
  | [] => []
  | (n, x) :: r => if fl_eq x then n else ir_fld_name_in fl_eq r
  end.
Definition ir_fld_tag (fl : ir_fld) : N :=
  match fl with
  | IrfTypename => 0 | IrfSchema => 1 | IrfTypeMeta => 2 | IrfDescription => 3 | IrfTypes => 4
  | IrfQueryType => 5 | IrfMutationType => 6 | IrfSubscriptionType => 7 | IrfDirectives => 8 | IrfKind => 9
  | IrfName => 10 | IrfFields => 11 | IrfInterfaces => 12 | IrfPossibleTypes => 13 | IrfEnumValues => 14
  | IrfInputFields => 15 | IrfOfType => 16 | IrfSpecifiedByURL => 17 | IrfArgs => 18 | IrfType => 19
  | IrfIsDeprecated => 20 | IrfDeprecationReason => 21 | IrfDefaultValue => 22 | IrfLocations => 23
  | IrfIsRepeatable => 24
  end.
Definition ir_fld_name (fl : ir_fld) : str :=
  ir_fld_name_in (fun x => ir_fld_tag x =? ir_fld_tag fl) ir_fld_table.
Definition ir_all_flds : list ir_fld := map snd ir_fld_table.
Definition ir_meta_classes : list ir_class :=
  [IcSchema; IcField; IcInput; IcEnumVal; IcDirective] ++ ir_any_type_classes.

Definition ir_ty_nullable (t : ty) : bool := negb (is_non_null t).
Definition ir_shape_refines (root : str) (sh : ir_shape) (t : ty) : bool :=
  match sh with
  | IshSkip => false
  | IshNull => ir_ty_nullable t
  | IshStr nullable =>
      negb (is_list t) && streq (inner_named_type t) irk_String && (negb nullable || ir_ty_nullable t)
  | IshBool => negb (is_list t) && streq (inner_named_type t) irk_Boolean
  | IshConst _ => negb (is_list t) && streq (inner_named_type t) irk_uuTypeKind
  | IshName => negb (is_list t) && streq (inner_named_type t) irk_String
  | IshLocs => ir_ty_eqb t (irs_nnlist_of irk_uuDirectiveLocation)
  | IshObj nullable cs =>
      negb (is_list t) && (negb nullable || ir_ty_nullable t)
      && forallb (fun c => streq (ir_class_typename root c) (inner_named_type t)) cs
  | IshList _ cs =>
      match t with
      | TList (TNonNullNamed n) | TNonNullList (TNonNullNamed n) =>
          forallb (fun c => streq (ir_class_typename root c) n) cs
      | _ => false
      end
  end.

Definition ir_tables_ok : bool :=
  forallb (fun c =>
    forallb (fun fl =>
      match fl with
      | IrfTypename => true       (* 4.1: __typename is not a field of the introspection schema's types *)
      | _ =>
        match ir_meta_field (ir_class_typename [] c) (ir_fld_name fl), ir_shape_fld [] c fl with
        | None, None => true
        | Some fd, Some sh =>
            ir_shape_refines [] sh (fd_ty fd)
            && match ir_fld_result (ir_class_tt c) fl with Some _ => true | None => false end
        | _, _ => false
        end
      end) ir_all_flds) ir_meta_classes.
