(* C24 — the REFERENCE for schema introspection: an executable specification, not a model of apollo's code.

   Transcribed from the GraphQL specification, October 2021, section 4 "Introspection" (4.1 type name
   introspection, 4.2 schema introspection: the introspection schema of 4.2 and the per-kind conventions of
   4.2.2 "__Type"), section 3.5 (which built-in scalars are listed), 3.13 (@deprecated, @specifiedBy), and
   section 6.3 (ExecuteSelectionSet / CollectFields / DoesFragmentTypeApply / CompleteValue) for the small
   generic executor that runs an arbitrary query over the introspection object graph.

   Where the prose is silent or ambiguous the choice is marked CHOICE below.  Additions of the current draft
   that the "standard full introspection query" of graphql-js 16 (getIntrospectionQuery with descriptions,
   specifiedByUrl, directiveIsRepeatable, schemaDescription, inputValueDeprecation) relies on are included
   and marked DRAFT.

   Input: the schema as data (Schema/Model.v, as dumped from the real builder INCLUDING the built-in
   definitions, `schema_dump b`), and the query as an Ast.v document.  The built-in definitions found in that
   dump are checked against this file's own transcription of the introspection schema (`ir_builtins_check`),
   modulo descriptions (the spec fixes none) and the order of the fields of the `__` types (the freedom the
   property grants).

   Definitions only (extractable); proofs are in ReferenceProofs.v. *)
From ApolloVerif Require Import Base.Chars Ast.Ast Schema.Model Intro.IrNames.

(* ------------------------------------------------------------------------------------------------ JSON *)
(* `IrArr free l`: `free = true` marks a list whose ORDER the reference does not fix (the property allows any
   order of `types`, `directives`; see also `possibleTypes` of an interface below).
   `IrErr` is not JSON: it marks "outside the domain of the reference" (invalid query, unsupported feature,
   dangling reference in the schema, out of fuel); it never compares equal to an implementation value and the
   theorems exclude it. *)
Inductive IrJson :=
| IrNull
| IrBool (b : bool)
| IrStr (s : str)
| IrNum (text : str)
| IrArr (free : bool) (l : list IrJson)
| IrObj (kv : list (str * IrJson))
| IrErr (code : N).

(* ---------------------------------------------------------------------- the introspection schema (4.2) *)
Definition irs_fd (n : str) (args : list inputvaldef) (t : ty) : comp fielddef :=
  mkcomp ODef {| fd_desc := None; fd_name := n; fd_args := args; fd_ty := t; fd_dirs := [] |}.
Definition irs_ev (n : str) : comp enumvaldef :=
  mkcomp ODef {| ev_desc := None; ev_value := n; ev_dirs := [] |}.
Definition irs_incl_dep : inputvaldef :=
  {| iv_desc := None; iv_name := irk_includeDeprecated; iv_ty := TNamed irk_Boolean;
     iv_default := Some (VBool false); iv_dirs := [] |}.
Definition irs_list_of (n : str) : ty := TList (TNonNullNamed n).          (* [T!]  *)
Definition irs_nnlist_of (n : str) : ty := TNonNullList (TNonNullNamed n). (* [T!]! *)

Definition irs_Schema : ext_type :=
  EObject None irk_uuSchema [] []
    [ irs_fd irk_description [] (TNamed irk_String);
      irs_fd irk_types [] (irs_nnlist_of irk_uuType);
      irs_fd irk_queryType [] (TNonNullNamed irk_uuType);
      irs_fd irk_mutationType [] (TNamed irk_uuType);
      irs_fd irk_subscriptionType [] (TNamed irk_uuType);
      irs_fd irk_directives [] (irs_nnlist_of irk_uuDirective) ] true.

(* DRAFT: `inputFields(includeDeprecated)` (October 2021 has `inputFields` without argument). *)
Definition irs_Type : ext_type :=
  EObject None irk_uuType [] []
    [ irs_fd irk_kind [] (TNonNullNamed irk_uuTypeKind);
      irs_fd irk_name [] (TNamed irk_String);
      irs_fd irk_description [] (TNamed irk_String);
      irs_fd irk_fields [irs_incl_dep] (irs_list_of irk_uuField);
      irs_fd irk_interfaces [] (irs_list_of irk_uuType);
      irs_fd irk_possibleTypes [] (irs_list_of irk_uuType);
      irs_fd irk_enumValues [irs_incl_dep] (irs_list_of irk_uuEnumValue);
      irs_fd irk_inputFields [irs_incl_dep] (irs_list_of irk_uuInputValue);
      irs_fd irk_ofType [] (TNamed irk_uuType);
      irs_fd irk_specifiedByURL [] (TNamed irk_String) ] true.

Definition irs_TypeKind : ext_type :=
  EEnum None irk_uuTypeKind []
    (map irs_ev [irk_SCALAR; irk_OBJECT; irk_INTERFACE; irk_UNION; irk_ENUM; irk_INPUT_OBJECT; irk_LIST;
                 irk_NON_NULL]) true.

(* DRAFT: `args(includeDeprecated)`. *)
Definition irs_Field : ext_type :=
  EObject None irk_uuField [] []
    [ irs_fd irk_name [] (TNonNullNamed irk_String);
      irs_fd irk_description [] (TNamed irk_String);
      irs_fd irk_args [irs_incl_dep] (irs_nnlist_of irk_uuInputValue);
      irs_fd irk_type [] (TNonNullNamed irk_uuType);
      irs_fd irk_isDeprecated [] (TNonNullNamed irk_Boolean);
      irs_fd irk_deprecationReason [] (TNamed irk_String) ] true.

(* DRAFT: `isDeprecated`, `deprecationReason` of an input value. *)
Definition irs_InputValue : ext_type :=
  EObject None irk_uuInputValue [] []
    [ irs_fd irk_name [] (TNonNullNamed irk_String);
      irs_fd irk_description [] (TNamed irk_String);
      irs_fd irk_type [] (TNonNullNamed irk_uuType);
      irs_fd irk_defaultValue [] (TNamed irk_String);
      irs_fd irk_isDeprecated [] (TNonNullNamed irk_Boolean);
      irs_fd irk_deprecationReason [] (TNamed irk_String) ] true.

Definition irs_EnumValue : ext_type :=
  EObject None irk_uuEnumValue [] []
    [ irs_fd irk_name [] (TNonNullNamed irk_String);
      irs_fd irk_description [] (TNamed irk_String);
      irs_fd irk_isDeprecated [] (TNonNullNamed irk_Boolean);
      irs_fd irk_deprecationReason [] (TNamed irk_String) ] true.

Definition irs_Directive : ext_type :=
  EObject None irk_uuDirective [] []
    [ irs_fd irk_name [] (TNonNullNamed irk_String);
      irs_fd irk_description [] (TNamed irk_String);
      irs_fd irk_locations [] (irs_nnlist_of irk_uuDirectiveLocation);
      irs_fd irk_args [irs_incl_dep] (irs_nnlist_of irk_uuInputValue);
      irs_fd irk_isRepeatable [] (TNonNullNamed irk_Boolean) ] true.

Definition ir_loc_name (l : dirloc) : str :=
  match l with
  | LQuery => irk_QUERY | LMutation => irk_MUTATION | LSubscription => irk_SUBSCRIPTION | LField => irk_FIELD
  | LFragmentDefinition => irk_FRAGMENT_DEFINITION | LFragmentSpread => irk_FRAGMENT_SPREAD
  | LInlineFragment => irk_INLINE_FRAGMENT | LVariableDefinition => irk_VARIABLE_DEFINITION
  | LSchema => irk_SCHEMA | LScalar => irk_SCALAR | LObject => irk_OBJECT
  | LFieldDefinition => irk_FIELD_DEFINITION | LArgumentDefinition => irk_ARGUMENT_DEFINITION
  | LInterface => irk_INTERFACE | LUnion => irk_UNION | LEnum => irk_ENUM | LEnumValue => irk_ENUM_VALUE
  | LInputObject => irk_INPUT_OBJECT | LInputFieldDefinition => irk_INPUT_FIELD_DEFINITION
  end.

Definition ir_all_locs : list dirloc :=
  [LQuery; LMutation; LSubscription; LField; LFragmentDefinition; LFragmentSpread; LInlineFragment;
   LVariableDefinition; LSchema; LScalar; LObject; LFieldDefinition; LArgumentDefinition; LInterface; LUnion;
   LEnum; LEnumValue; LInputObject; LInputFieldDefinition].

Definition irs_DirectiveLocation : ext_type :=
  EEnum None irk_uuDirectiveLocation [] (map (fun l => irs_ev (ir_loc_name l)) ir_all_locs) true.

Definition ir_spec_types : list ext_type :=
  [irs_Schema; irs_Type; irs_TypeKind; irs_Field; irs_InputValue; irs_EnumValue; irs_Directive;
   irs_DirectiveLocation].

(* 3.13: the built-in directives.  DRAFT: @deprecated also on ARGUMENT_DEFINITION and INPUT_FIELD_DEFINITION. *)
Definition irs_if_arg : inputvaldef :=
  {| iv_desc := None; iv_name := irk_if; iv_ty := TNonNullNamed irk_Boolean; iv_default := None;
     iv_dirs := [] |}.
Definition ir_spec_directives : list dirdef :=
  [ {| dd_desc := None; dd_name := irk_skip; dd_args := [irs_if_arg]; dd_repeatable := false;
       dd_locs := [LField; LFragmentSpread; LInlineFragment]; dd_builtin := true |};
    {| dd_desc := None; dd_name := irk_include; dd_args := [irs_if_arg]; dd_repeatable := false;
       dd_locs := [LField; LFragmentSpread; LInlineFragment]; dd_builtin := true |};
    {| dd_desc := None; dd_name := irk_deprecated;
       dd_args := [ {| iv_desc := None; iv_name := irk_reason; iv_ty := TNamed irk_String;
                       iv_default := Some (VString irk_no_longer_supported); iv_dirs := [] |} ];
       dd_repeatable := false;
       dd_locs := [LFieldDefinition; LArgumentDefinition; LInputFieldDefinition; LEnumValue];
       dd_builtin := true |};
    {| dd_desc := None; dd_name := irk_specifiedBy;
       dd_args := [ {| iv_desc := None; iv_name := irk_url; iv_ty := TNonNullNamed irk_String;
                       iv_default := None; iv_dirs := [] |} ];
       dd_repeatable := false; dd_locs := [LScalar]; dd_builtin := true |} ].

Definition ir_builtin_scalars : list str := [irk_Int; irk_Float; irk_String; irk_Boolean; irk_ID].

(* the definition of a field of an introspection type *)
Definition ir_et_fields (t : ext_type) : list (comp fielddef) :=
  match t with
  | EObject _ _ _ _ fs _ | EInterface _ _ _ _ fs _ => fs
  | _ => []
  end.
Fixpoint ir_find_field (n : str) (fs : list (comp fielddef)) : option fielddef :=
  match fs with
  | [] => None
  | c :: r => if streq n (fd_name (c_val c)) then Some (c_val c) else ir_find_field n r
  end.
Definition ir_meta_field (tyname fname : str) : option fielddef :=
  match sch_find_type tyname ir_spec_types with
  | Some t => ir_find_field fname (ir_et_fields t)
  | None => None
  end.

(* ------------------------------------------------------------------------------------ small utilities *)
Fixpoint ir_find_dir (n : str) (ds : list directive) : option directive :=
  match ds with
  | [] => None
  | d :: r => if streq n (d_name d) then Some d else ir_find_dir n r
  end.
Fixpoint ir_find_arg (n : str) (args : list argument) : option value :=
  match args with
  | [] => None
  | (k, v) :: r => if streq n k then Some v else ir_find_arg n r
  end.
Definition ir_cvals {A} (l : list (comp A)) : list A := map c_val l.
Definition ir_opt_str (o : option str) : IrJson := match o with Some s => IrStr s | None => IrNull end.

Fixpoint ir_join (sep : str) (l : list str) : str :=
  match l with
  | [] => []
  | [x] => x
  | x :: r => x ++ sep ++ ir_join sep r
  end.

(* ------------------------------------------------------------- printing a value in the GraphQL language *)
(* 4.2.? "__InputValue.defaultValue: a String encoding (using the GraphQL language) of the default value".
   CHOICE (printer; the spec defines none): compact one-line form `[a, b]`, `{k: v, k: v}` as printed by
   graphql-js `print`.  Strings are always quoted strings; a character is escaped exactly when the StringValue
   grammar does not allow it raw: the double quote, the backslash, and the characters below U+0020 other than TAB (2.1.1
   SourceCharacter allows U+0009, U+000A, U+000D, but a line terminator cannot occur in a quoted string), with
   the short escapes \b \n \f \r where they exist and \uXXXX (upper-case hex) otherwise.  graphql-js
   additionally escapes TAB and U+007F..U+009F; both spellings denote the same string value.
   Numbers keep the text of the literal (graphql-js re-prints the coerced IEEE double, e.g. `1.0` as `1`;
   the spelling of a number is not fixed by the specification and is not modelled). *)
Definition ir_hex_digit (d : N) : N := if d <? 10 then 48 + d else 55 + d.
Definition ir_u_escape (c : N) : str :=
  [92; 117; ir_hex_digit (c / 4096 mod 16); ir_hex_digit (c / 256 mod 16); ir_hex_digit (c / 16 mod 16);
   ir_hex_digit (c mod 16)].
Definition ir_escape_char (c : N) : str :=
  if c =? 34 then [92; 34]
  else if c =? 92 then [92; 92]
  else if c =? 8 then [92; 98]
  else if c =? 10 then [92; 110]
  else if c =? 12 then [92; 102]
  else if c =? 13 then [92; 114]
  else if (c <? 32) && negb (c =? 9) then ir_u_escape c
  else [c].
Definition ir_print_string (s : str) : str := [34] ++ flat_map ir_escape_char s ++ [34].

Fixpoint ir_print_value (v : value) : str :=
  match v with
  | VNull => irk_null
  | VEnum n => n
  | VVar n => 36 :: n
  | VString s => ir_print_string s
  | VFloat t => t
  | VInt t => t
  | VBool true => irk_true
  | VBool false => irk_false
  | VList l => [91] ++ ir_join irk_comma_space (map ir_print_value l) ++ [93]
  | VObject kv =>
      [123] ++ ir_join irk_comma_space
                 (map (fun p => match p with (k, x) => k ++ irk_colon_space ++ ir_print_value x end) kv)
            ++ [125]
  end.

(* ----------------------------------------------------- coercion of a default value literal (3.10, 3.11) *)
(* The reference (graphql-js: valueFromAST at schema build, astFromValue + print at introspection) reports the
   COERCED default: 3.11 "If the value passed as an input to a list type is not a list and not the null value,
   then the result of input coercion is a list of size one"; 3.10 input objects: the coerced value has an entry
   for every field that is given or has a default value, and graphql-js lists the entries in the order of the
   field definitions.  Scalars and enum values are kept as written (CHOICE: graphql-js prints an `ID` default
   that looks like an integer without quotes and fails on list/object literals of custom scalars; the spec
   leaves custom scalar coercion to the service). *)
Fixpoint ir_value_size (v : value) : nat :=
  match v with
  | VList l => S (fold_right (fun x a => ir_value_size x + a)%nat O l)
  | VObject kv => S (fold_right (fun p a => match p with (_, x) => ir_value_size x + a end)%nat O kv)
  | _ => 1%nat
  end.

Fixpoint ir_mapM {A B} (f : A -> option B) (l : list A) : option (list B) :=
  match l with
  | [] => Some []
  | x :: r => match f x, ir_mapM f r with Some y, Some ys => Some (y :: ys) | _, _ => None end
  end.

Definition ir_is_vnull (v : value) : bool := match v with VNull => true | _ => false end.

Fixpoint ir_coerce (fuel : nat) (s : schema) (t : ty) (v : value) : option value :=
  match fuel with
  | O => None
  | S f =>
    if ir_is_vnull v then Some VNull else
    match t with
    | TList i | TNonNullList i =>
        match v with
        | VList l => option_map VList (ir_mapM (ir_coerce f s i) l)
        | _ => option_map (fun x => VList [x]) (ir_coerce f s i v)
        end
    | TNamed n | TNonNullNamed n =>
        match sch_get_type s n, v with
        | Some (EInput _ _ _ fields _), VObject kv =>
            option_map VObject
              ((fix go (fs : list (comp inputvaldef)) : option (list (str * value)) :=
                  match fs with
                  | [] => Some []
                  | c :: r =>
                      let i := c_val c in
                      let this :=
                        match ir_find_arg (iv_name i) kv with
                        | Some x => option_map (fun y => [(iv_name i, y)]) (ir_coerce f s (iv_ty i) x)
                        | None =>
                            match iv_default i with
                            | Some d => option_map (fun y => [(iv_name i, y)]) (ir_coerce f s (iv_ty i) d)
                            | None => Some []
                            end
                        end in
                      match this, go r with Some a, Some b => Some (a ++ b) | _, _ => None end
                  end) fields)
        | _, _ => Some v
        end
    end
  end.

Definition ir_opt_value_size (o : option value) : nat :=
  match o with Some v => S (ir_value_size v) | None => 1%nat end.
Definition ir_default_budget (s : schema) : nat :=
  fold_right (fun t a =>
    match t with
    | EInput _ _ _ fields _ =>
        (fold_right (fun c b => ir_opt_value_size (iv_default (c_val c)) + b) O fields + a)%nat
    | _ => a
    end) O (sch_types s).
Definition ir_coerce_fuel (s : schema) (v : value) : nat := (2 + ir_value_size v + ir_default_budget s)%nat.

Definition ir_default_string (s : schema) (i : inputvaldef) : option (option str) :=
  match iv_default i with
  | None => Some None
  | Some v =>
      match ir_coerce (ir_coerce_fuel s v) s (iv_ty i) v with
      | Some v' => Some (Some (ir_print_value v'))
      | None => None
      end
  end.

(* --------------------------------------------------------------------------- the introspection object graph *)
Inductive ir_node :=
| IrnRoot (tyname : str)           (* the query root object *)
| IrnSchema
| IrnType (t : ext_type)           (* a named type *)
| IrnWrap (t : ty)                 (* a LIST or NON_NULL wrapper: t is never TNamed *)
| IrnField (f : fielddef)
| IrnInput (i : inputvaldef)
| IrnEnumVal (e : enumvaldef)
| IrnDirective (d : dirdef).

Inductive ir_res :=
| IrrSkip                           (* concrete root field: partial execution leaves it out *)
| IrrNull
| IrrLeaf (j : IrJson)
| IrrNode (n : ir_node)
| IrrTypes (free : bool) (l : list ext_type)
| IrrFields (l : list fielddef)
| IrrInputs (l : list inputvaldef)
| IrrEnumVals (l : list enumvaldef)
| IrrDirectives (l : list dirdef)
| IrrBad (code : N).

Definition ir_typename (n : ir_node) : str :=
  match n with
  | IrnRoot t => t
  | IrnSchema => irk_uuSchema
  | IrnType _ | IrnWrap _ => irk_uuType
  | IrnField _ => irk_uuField
  | IrnInput _ => irk_uuInputValue
  | IrnEnumVal _ => irk_uuEnumValue
  | IrnDirective _ => irk_uuDirective
  end.

(* a reference to a named type; a dangling reference is outside the domain (valid schemas have none) *)
Definition ir_named (s : schema) (n : str) : ir_res :=
  match sch_get_type s n with
  | Some t => IrrNode (IrnType t)
  | None => IrrBad 10
  end.
Definition ir_type_ref (s : schema) (t : ty) : ir_res :=
  match t with
  | TNamed n => ir_named s n
  | _ => IrrNode (IrnWrap t)
  end.
Definition ir_named_list (s : schema) (names : list str) : ir_res :=
  match ir_mapM (sch_get_type s) names with
  | Some l => IrrTypes false l
  | None => IrrBad 10
  end.

(* `includeDeprecated: Boolean = false`: absent -> default; CHOICE: an explicit `null` counts as false
   (graphql-js tests truthiness). Variables are not supported by this executor. *)
Definition ir_incl_dep (args : list argument) : option bool :=
  match ir_find_arg irk_includeDeprecated args with
  | None => Some false
  | Some (VBool b) => Some b
  | Some VNull => Some false
  | Some _ => None
  end.

(* 3.13.3 @deprecated(reason: String = "No longer supported").
   CHOICE: an element is deprecated exactly when the directive is applied (4.2.? "isDeprecated returns true if
   this field should no longer be used"); `@deprecated(reason: null)` is deprecated with a null reason.
   graphql-js 16 derives isDeprecated from `deprecationReason != null` and reports such an element as NOT
   deprecated; the current draft makes `reason` non-null, which removes the case. *)
Definition ir_is_deprecated (ds : list directive) : bool :=
  match ir_find_dir irk_deprecated ds with Some _ => true | None => false end.
Definition ir_dep_reason (ds : list directive) : ir_res :=
  match ir_find_dir irk_deprecated ds with
  | None => IrrNull
  | Some d =>
      match ir_find_arg irk_reason (d_args d) with
      | None => IrrLeaf (IrStr irk_no_longer_supported)
      | Some (VString r) => IrrLeaf (IrStr r)
      | Some VNull => IrrNull
      | Some _ => IrrBad 11
      end
  end.
Definition ir_keep (incl : bool) (ds : list directive) : bool := incl || negb (ir_is_deprecated ds).

Definition ir_kind (t : ext_type) : str :=
  match t with
  | EScalar _ _ _ _ => irk_SCALAR
  | EObject _ _ _ _ _ _ => irk_OBJECT
  | EInterface _ _ _ _ _ _ => irk_INTERFACE
  | EUnion _ _ _ _ _ => irk_UNION
  | EEnum _ _ _ _ _ => irk_ENUM
  | EInput _ _ _ _ _ => irk_INPUT_OBJECT
  end.
Definition ir_et_desc (t : ext_type) : option str :=
  match t with
  | EScalar d _ _ _ | EObject d _ _ _ _ _ | EInterface d _ _ _ _ _ | EUnion d _ _ _ _ | EEnum d _ _ _ _
  | EInput d _ _ _ _ => d
  end.

(* 4.2.2 possibleTypes of an interface: the OBJECT types that implement it.  The order of this list derives
   from the order of `types`, which the property leaves free: the list is marked order-free. *)
Definition ir_implementers (s : schema) (iface : str) : list ext_type :=
  filter (fun t => match t with
                   | EObject _ _ impls _ _ _ => existsb (fun c => streq iface (c_val c)) impls
                   | _ => false
                   end) (sch_types s).

Definition ir_with_incl (args : list argument) (k : bool -> ir_res) : ir_res :=
  match ir_incl_dep args with Some b => k b | None => IrrBad 3 end.

(* the field names of the introspection schema, decoded once *)
Inductive ir_fld :=
| IrfTypename | IrfSchema | IrfTypeMeta | IrfDescription | IrfTypes | IrfQueryType | IrfMutationType
| IrfSubscriptionType | IrfDirectives | IrfKind | IrfName | IrfFields | IrfInterfaces | IrfPossibleTypes
| IrfEnumValues | IrfInputFields | IrfOfType | IrfSpecifiedByURL | IrfArgs | IrfType | IrfIsDeprecated
| IrfDeprecationReason | IrfDefaultValue | IrfLocations | IrfIsRepeatable.

Definition ir_fld_table : list (str * ir_fld) :=
  [ (irk_uutypename, IrfTypename); (irk_uuschema, IrfSchema); (irk_uutype, IrfTypeMeta);
    (irk_description, IrfDescription); (irk_types, IrfTypes); (irk_queryType, IrfQueryType);
    (irk_mutationType, IrfMutationType); (irk_subscriptionType, IrfSubscriptionType);
    (irk_directives, IrfDirectives); (irk_kind, IrfKind); (irk_name, IrfName); (irk_fields, IrfFields);
    (irk_interfaces, IrfInterfaces); (irk_possibleTypes, IrfPossibleTypes); (irk_enumValues, IrfEnumValues);
    (irk_inputFields, IrfInputFields); (irk_ofType, IrfOfType); (irk_specifiedByURL, IrfSpecifiedByURL);
    (irk_args, IrfArgs); (irk_type, IrfType); (irk_isDeprecated, IrfIsDeprecated);
    (irk_deprecationReason, IrfDeprecationReason); (irk_defaultValue, IrfDefaultValue);
    (irk_locations, IrfLocations); (irk_isRepeatable, IrfIsRepeatable) ].
Fixpoint ir_assoc {A} (k : str) (l : list (str * A)) : option A :=
  match l with
  | [] => None
  | (k', v) :: r => if streq k k' then Some v else ir_assoc k r
  end.
Definition ir_fld_of (f : str) : option ir_fld := ir_assoc f ir_fld_table.

(* which field belongs to which introspection type (4.2; agreement with `ir_spec_types` is a lemma) *)
Definition ir_fld_in (node : ir_node) (fl : ir_fld) : bool :=
  match fl with
  | IrfTypename => true
  | _ =>
    match node with
    | IrnRoot _ => match fl with IrfSchema | IrfTypeMeta => true | _ => false end
    | IrnSchema =>
        match fl with
        | IrfDescription | IrfTypes | IrfQueryType | IrfMutationType | IrfSubscriptionType | IrfDirectives => true
        | _ => false
        end
    | IrnType _ | IrnWrap _ =>
        match fl with
        | IrfKind | IrfName | IrfDescription | IrfFields | IrfInterfaces | IrfPossibleTypes | IrfEnumValues
        | IrfInputFields | IrfOfType | IrfSpecifiedByURL => true
        | _ => false
        end
    | IrnField _ =>
        match fl with
        | IrfName | IrfDescription | IrfArgs | IrfType | IrfIsDeprecated | IrfDeprecationReason => true
        | _ => false
        end
    | IrnInput _ =>
        match fl with
        | IrfName | IrfDescription | IrfType | IrfDefaultValue | IrfIsDeprecated | IrfDeprecationReason => true
        | _ => false
        end
    | IrnEnumVal _ =>
        match fl with
        | IrfName | IrfDescription | IrfIsDeprecated | IrfDeprecationReason => true
        | _ => false
        end
    | IrnDirective _ =>
        match fl with
        | IrfName | IrfDescription | IrfLocations | IrfArgs | IrfIsRepeatable => true
        | _ => false
        end
    end
  end.

(* 4.2.2: the fields of a named type, by kind *)
Definition ir_resolve_type (s : schema) (t : ext_type) (fl : ir_fld) (args : list argument) : ir_res :=
  match fl with
  | IrfKind => IrrLeaf (IrStr (ir_kind t))
  | IrfName => IrrLeaf (IrStr (et_name t))
  | IrfDescription => IrrLeaf (ir_opt_str (ir_et_desc t))
  | IrfFields =>
      match t with
      | EObject _ _ _ _ fs _ | EInterface _ _ _ _ fs _ =>
          ir_with_incl args (fun b => IrrFields (filter (fun x => ir_keep b (fd_dirs x)) (ir_cvals fs)))
      | _ => IrrNull
      end
  | IrfInterfaces =>
      match t with
      | EObject _ _ impls _ _ _ | EInterface _ _ impls _ _ _ => ir_named_list s (ir_cvals impls)
      | _ => IrrNull
      end
  | IrfPossibleTypes =>
      match t with
      | EInterface _ n _ _ _ _ => IrrTypes true (ir_implementers s n)
      | EUnion _ _ _ members _ => ir_named_list s (ir_cvals members)
      | _ => IrrNull
      end
  | IrfEnumValues =>
      match t with
      | EEnum _ _ _ vs _ =>
          ir_with_incl args (fun b => IrrEnumVals (filter (fun x => ir_keep b (ev_dirs x)) (ir_cvals vs)))
      | _ => IrrNull
      end
  | IrfInputFields =>
      match t with
      | EInput _ _ _ fs _ =>
          ir_with_incl args (fun b => IrrInputs (filter (fun x => ir_keep b (iv_dirs x)) (ir_cvals fs)))
      | _ => IrrNull
      end
  | IrfOfType => IrrNull
  | IrfSpecifiedByURL =>
      match t with
      | EScalar _ _ dirs _ =>
          match ir_find_dir irk_specifiedBy (ir_cvals dirs) with
          | Some d => match ir_find_arg irk_url (d_args d) with
                      | Some (VString u) => IrrLeaf (IrStr u)
                      | _ => IrrBad 11
                      end
          | None => IrrNull
          end
      | _ => IrrNull
      end
  | _ => IrrBad 2
  end.

(* 4.2.2: LIST and NON_NULL *)
Definition ir_resolve_wrap (s : schema) (t : ty) (fl : ir_fld) : ir_res :=
  match fl with
  | IrfKind =>
      match t with
      | TList _ => IrrLeaf (IrStr irk_LIST)
      | TNonNullNamed _ | TNonNullList _ => IrrLeaf (IrStr irk_NON_NULL)
      | TNamed _ => IrrBad 13
      end
  | IrfOfType =>
      match t with
      | TList i => ir_type_ref s i
      | TNonNullNamed n => ir_named s n
      | TNonNullList i => IrrNode (IrnWrap (TList i))
      | TNamed _ => IrrBad 13
      end
  | IrfName | IrfDescription | IrfFields | IrfInterfaces | IrfPossibleTypes | IrfEnumValues | IrfInputFields
  | IrfSpecifiedByURL => IrrNull
  | _ => IrrBad 2
  end.

Definition ir_resolve_input (s : schema) (i : inputvaldef) (fl : ir_fld) : ir_res :=
  match fl with
  | IrfName => IrrLeaf (IrStr (iv_name i))
  | IrfDescription => IrrLeaf (ir_opt_str (iv_desc i))
  | IrfType => ir_type_ref s (iv_ty i)
  | IrfDefaultValue =>
      match ir_default_string s i with
      | Some o => IrrLeaf (ir_opt_str o)
      | None => IrrBad 12
      end
  | IrfIsDeprecated => IrrLeaf (IrBool (ir_is_deprecated (iv_dirs i)))
  | IrfDeprecationReason => ir_dep_reason (iv_dirs i)
  | _ => IrrBad 2
  end.

Definition ir_root_ok (s : schema) (tyname : str) : bool :=
  match sd_query (sch_def s) with Some c => streq (c_val c) tyname | None => false end.

Definition ir_resolve_fld (s : schema) (node : ir_node) (fl : ir_fld) (args : list argument) : ir_res :=
  match fl with
  | IrfTypename => IrrLeaf (IrStr (ir_typename node)) (* 4.1 *)
  | _ =>
  match node with
  | IrnRoot tyname =>
      match fl with
      | IrfSchema => if ir_root_ok s tyname then IrrNode IrnSchema else IrrBad 4
      | IrfTypeMeta =>
          if ir_root_ok s tyname then
            match ir_find_arg irk_name args with
            | Some (VString n) =>
                match sch_get_type s n with Some t => IrrNode (IrnType t) | None => IrrNull end
            | _ => IrrBad 3
            end
          else IrrBad 4
      | _ => IrrSkip
      end
  | IrnSchema =>
      match fl with
      | IrfDescription => IrrLeaf (ir_opt_str (sd_desc (sch_def s)))
      | IrfTypes => IrrTypes true (sch_types s)
      | IrfDirectives => IrrDirectives (sch_dirdefs s)
      | IrfQueryType =>
          match sd_query (sch_def s) with Some c => ir_named s (c_val c) | None => IrrBad 10 end
      | IrfMutationType =>
          match sd_mutation (sch_def s) with Some c => ir_named s (c_val c) | None => IrrNull end
      | IrfSubscriptionType =>
          match sd_subscription (sch_def s) with Some c => ir_named s (c_val c) | None => IrrNull end
      | _ => IrrBad 2
      end
  | IrnType t => ir_resolve_type s t fl args
  | IrnWrap t => ir_resolve_wrap s t fl
  | IrnField fd =>
      match fl with
      | IrfName => IrrLeaf (IrStr (fd_name fd))
      | IrfDescription => IrrLeaf (ir_opt_str (fd_desc fd))
      | IrfArgs =>
          ir_with_incl args (fun b => IrrInputs (filter (fun x => ir_keep b (iv_dirs x)) (fd_args fd)))
      | IrfType => ir_type_ref s (fd_ty fd)
      | IrfIsDeprecated => IrrLeaf (IrBool (ir_is_deprecated (fd_dirs fd)))
      | IrfDeprecationReason => ir_dep_reason (fd_dirs fd)
      | _ => IrrBad 2
      end
  | IrnInput i => ir_resolve_input s i fl
  | IrnEnumVal e =>
      match fl with
      | IrfName => IrrLeaf (IrStr (ev_value e))
      | IrfDescription => IrrLeaf (ir_opt_str (ev_desc e))
      | IrfIsDeprecated => IrrLeaf (IrBool (ir_is_deprecated (ev_dirs e)))
      | IrfDeprecationReason => ir_dep_reason (ev_dirs e)
      | _ => IrrBad 2
      end
  | IrnDirective d =>
      match fl with
      | IrfName => IrrLeaf (IrStr (dd_name d))
      | IrfDescription => IrrLeaf (ir_opt_str (dd_desc d))
      | IrfLocations => IrrLeaf (IrArr false (map (fun l => IrStr (ir_loc_name l)) (dd_locs d)))
      | IrfArgs =>
          ir_with_incl args (fun b => IrrInputs (filter (fun x => ir_keep b (iv_dirs x)) (dd_args d)))
      | IrfIsRepeatable => IrrLeaf (IrBool (dd_repeatable d))
      | _ => IrrBad 2
      end
  end
  end.

(* a root field that is not one of the three meta-fields is concrete: partial execution skips it;
   any other node only has the fields of its introspection type *)
Definition ir_resolve (s : schema) (node : ir_node) (f : str) (args : list argument) : ir_res :=
  match ir_fld_of f with
  | Some fl => if ir_fld_in node fl then ir_resolve_fld s node fl args
               else match node with IrnRoot _ => IrrSkip | _ => IrrBad 2 end
  | None => match node with IrnRoot _ => IrrSkip | _ => IrrBad 2 end
  end.

(* ------------------------------------------------------------------------------ CollectFields (6.3.2) *)
Record ir_group := mk_irg {
  irg_key : str; irg_name : str; irg_args : list argument; irg_sub : list selection }.
Record ir_cstate := mk_ircs { ircs_visited : list str; ircs_groups : list ir_group; ircs_bad : N }.
Definition ir_cstate_init : ir_cstate := mk_ircs [] [] 0.
Definition ir_set_bad (c : N) (st : ir_cstate) : ir_cstate :=
  mk_ircs (ircs_visited st) (ircs_groups st) (if ircs_bad st =? 0 then c else ircs_bad st).

(* fields with the same response key form one group, in the order of first occurrence; their
   sub-selections are concatenated (6.3.3 MergeSelectionSets) *)
Fixpoint ir_add_group (k n : str) (args : list argument) (sub : list selection) (gs : list ir_group)
  : list ir_group :=
  match gs with
  | [] => [mk_irg k n args sub]
  | g :: r =>
      if streq k (irg_key g)
      then mk_irg (irg_key g) (irg_name g) (irg_args g) (irg_sub g ++ sub) :: r
      else g :: ir_add_group k n args sub r
  end.

Inductive ir_tri := IrtNone | IrtBool (b : bool) | IrtBad.
Definition ir_if_arg (name : str) (ds : list directive) : ir_tri :=
  match ir_find_dir name ds with
  | None => IrtNone
  | Some d => match ir_find_arg irk_if (d_args d) with Some (VBool b) => IrtBool b | _ => IrtBad end
  end.
(* 6.3.2 step 3a/3b: @skip(if: true) or @include(if: false); only literal conditions are supported *)
Definition ir_skipped (ds : list directive) : ir_tri :=
  match ir_if_arg irk_skip ds, ir_if_arg irk_include ds with
  | IrtBad, _ | _, IrtBad => IrtBad
  | IrtBool true, _ => IrtBool true
  | _, IrtBool false => IrtBool true
  | _, _ => IrtBool false
  end.

Fixpoint ir_find_frag (n : str) (doc : document) : option (str * list selection) :=
  match doc with
  | [] => None
  | DFragment name cond _ sels :: r => if streq n name then Some (cond, sels) else ir_find_frag n r
  | _ :: r => ir_find_frag n r
  end.

(* 6.3.2 DoesFragmentTypeApply; the introspection types are object (and enum) types of the spec's own
   introspection schema *)
Definition ir_frag_applies (s : schema) (tyname cond : str) : bool :=
  match sch_find_type cond ir_spec_types with
  | Some _ => streq cond tyname
  | None =>
      match sch_get_type s cond with
      | Some (EObject _ _ _ _ _ _) => streq cond tyname
      | Some (EInterface _ _ _ _ _ _) =>
          match sch_get_type s tyname with
          | Some (EObject _ _ impls _ _ _) => existsb (fun c => streq cond (c_val c)) impls
          | _ => false
          end
      | Some (EUnion _ _ _ members _) => existsb (fun c => streq tyname (c_val c)) members
      | _ => false
      end
  end.

Definition ir_key (alias : option str) (name : str) : str :=
  match alias with Some a => a | None => name end.

Fixpoint ir_collect (fuel : nat) (s : schema) (doc : document) (tyname : str) (sels : list selection)
  (st : ir_cstate) : ir_cstate :=
  match fuel with
  | O => ir_set_bad 1 st
  | S f =>
    fold_left (fun st sel =>
      match sel with
      | SField alias name args dirs sub =>
          match ir_skipped dirs with
          | IrtBad => ir_set_bad 3 st
          | IrtBool true => st
          | _ => mk_ircs (ircs_visited st) (ir_add_group (ir_key alias name) name args sub (ircs_groups st))
                         (ircs_bad st)
          end
      | SSpread name dirs =>
          match ir_skipped dirs with
          | IrtBad => ir_set_bad 3 st
          | IrtBool true => st
          | _ =>
              if existsb (streq name) (ircs_visited st) then st
              else
                let st' := mk_ircs (name :: ircs_visited st) (ircs_groups st) (ircs_bad st) in
                match ir_find_frag name doc with
                | None => ir_set_bad 5 st'
                | Some (cond, fsels) =>
                    if ir_frag_applies s tyname cond then ir_collect f s doc tyname fsels st' else st'
                end
          end
      | SInline cond dirs sub =>
          match ir_skipped dirs with
          | IrtBad => ir_set_bad 3 st
          | IrtBool true => st
          | _ =>
              match cond with
              | Some c => if ir_frag_applies s tyname c then ir_collect f s doc tyname sub st else st
              | None => ir_collect f s doc tyname sub st
              end
          end
      end) sels st
  end.

(* --------------------------------------------------------- ExecuteSelectionSet / CompleteValue (6.3, 6.4) *)
Definition ir_run_group (exec : ir_node -> list selection -> IrJson) (s : schema) (node : ir_node)
  (g : ir_group) : list (str * IrJson) :=
  match ir_resolve s node (irg_name g) (irg_args g) with
  | IrrSkip => []
  | IrrNull => [(irg_key g, IrNull)]
  | IrrLeaf j => [(irg_key g, j)]
  | IrrBad c => [(irg_key g, IrErr c)]
  | IrrNode n => [(irg_key g, exec n (irg_sub g))]
  | IrrTypes free l => [(irg_key g, IrArr free (map (fun x => exec (IrnType x) (irg_sub g)) l))]
  | IrrFields l => [(irg_key g, IrArr false (map (fun x => exec (IrnField x) (irg_sub g)) l))]
  | IrrInputs l => [(irg_key g, IrArr false (map (fun x => exec (IrnInput x) (irg_sub g)) l))]
  | IrrEnumVals l => [(irg_key g, IrArr false (map (fun x => exec (IrnEnumVal x) (irg_sub g)) l))]
  | IrrDirectives l => [(irg_key g, IrArr true (map (fun x => exec (IrnDirective x) (irg_sub g)) l))]
  end.

Definition ir_groups (cf : nat) (s : schema) (doc : document) (node : ir_node) (sels : list selection)
  : ir_cstate :=
  ir_collect cf s doc (ir_typename node) sels ir_cstate_init.

Fixpoint ir_exec (fuel cf : nat) (s : schema) (doc : document) (node : ir_node) (sels : list selection)
  : IrJson :=
  match fuel with
  | O => IrErr 1
  | S f =>
      let st := ir_groups cf s doc node sels in
      if ircs_bad st =? 0
      then IrObj (flat_map (ir_run_group (ir_exec f cf s doc) s node) (ircs_groups st))
      else IrErr (ircs_bad st)
  end.

(* fuel: the number of selection nodes of the document bounds every nesting depth (no fragment cycles in a
   valid document) *)
Fixpoint ir_sel_size (x : selection) : nat :=
  match x with
  | SField _ _ _ _ sub => S (fold_right (fun y a => ir_sel_size y + a)%nat O sub)
  | SSpread _ _ => 1%nat
  | SInline _ _ sub => S (fold_right (fun y a => ir_sel_size y + a)%nat O sub)
  end.
Definition ir_sels_size (l : list selection) : nat := fold_right (fun y a => ir_sel_size y + a)%nat O l.
Definition ir_doc_fuel (doc : document) : nat :=
  (2 + fold_right (fun d a =>
         match d with
         | DOperation _ _ _ _ sels => S (ir_sels_size sels) + a
         | DFragment _ _ _ sels => S (ir_sels_size sels) + a
         | _ => a
         end)%nat O doc)%nat.

Fixpoint ir_find_query (doc : document) : option (list selection) :=
  match doc with
  | [] => None
  | DOperation OpQuery _ _ _ sels :: _ => Some sels
  | _ :: r => ir_find_query r
  end.

(* the response `data` for the (first) query operation of the document *)
Definition ir_introspect_doc (s : schema) (doc : document) : IrJson :=
  match ir_find_query doc, sd_query (sch_def s) with
  | Some sels, Some q =>
      ir_exec (ir_doc_fuel doc) (ir_doc_fuel doc) s doc (IrnRoot (c_val q)) sels
  | _, _ => IrErr 6
  end.

Definition ir_introspect (s : schema) (sels : list selection) : IrJson :=
  ir_introspect_doc s [DOperation OpQuery None [] [] sels].

(* ----------------------------------------------------------------- the standard full introspection query *)
(* graphql-js 16 getIntrospectionQuery({descriptions, specifiedByUrl, directiveIsRepeatable, schemaDescription,
   inputValueDeprecation}); the tie compares this constant with the parsed text of the query it sends. *)
Definition irq_f (n : str) (sub : list selection) : selection := SField None n [] [] sub.
Definition irq_fd (n : str) (sub : list selection) : selection :=
  SField None n [(irk_includeDeprecated, VBool true)] [] sub.
Definition irq_l (n : str) : selection := SField None n [] [] [].

Fixpoint irq_typeref (depth : nat) : list selection :=
  match depth with
  | O => [irq_l irk_kind; irq_l irk_name]
  | S d => [irq_l irk_kind; irq_l irk_name; irq_f irk_ofType (irq_typeref d)]
  end.

Definition irq_input_value : list selection :=
  [ irq_l irk_name; irq_l irk_description; irq_f irk_type [SSpread irk_TypeRef []]; irq_l irk_defaultValue;
    irq_l irk_isDeprecated; irq_l irk_deprecationReason ].

Definition irq_full_type : list selection :=
  [ irq_l irk_kind; irq_l irk_name; irq_l irk_description; irq_l irk_specifiedByURL;
    irq_fd irk_fields
      [ irq_l irk_name; irq_l irk_description; irq_fd irk_args [SSpread irk_InputValue []];
        irq_f irk_type [SSpread irk_TypeRef []]; irq_l irk_isDeprecated; irq_l irk_deprecationReason ];
    irq_fd irk_inputFields [SSpread irk_InputValue []];
    irq_f irk_interfaces [SSpread irk_TypeRef []];
    irq_fd irk_enumValues
      [ irq_l irk_name; irq_l irk_description; irq_l irk_isDeprecated; irq_l irk_deprecationReason ];
    irq_f irk_possibleTypes [SSpread irk_TypeRef []] ].

Definition irq_schema_sub : list selection :=
  [ irq_l irk_description;
    irq_f irk_queryType [irq_l irk_name];
    irq_f irk_mutationType [irq_l irk_name];
    irq_f irk_subscriptionType [irq_l irk_name];
    irq_f irk_types [SSpread irk_FullType []];
    irq_f irk_directives
      [ irq_l irk_name; irq_l irk_description; irq_l irk_isRepeatable; irq_l irk_locations;
        irq_fd irk_args [SSpread irk_InputValue []] ] ].

Definition irq_operation : list selection := [ irq_f irk_uuschema irq_schema_sub ].

Definition ir_standard_query : document :=
  [ DOperation OpQuery (Some irk_IntrospectionQuery) [] [] irq_operation;
    DFragment irk_FullType irk_uuType [] irq_full_type;
    DFragment irk_InputValue irk_uuInputValue [] irq_input_value;
    DFragment irk_TypeRef irk_uuType [] (irq_typeref 7) ].

(* equality of documents, for the tie's check that the constant is the query text that is sent:
   compared through a canonical rendering of selections *)
Fixpoint ir_sel_render (x : selection) : str :=
  match x with
  | SField a n args dirs sub =>
      [70] ++ match a with Some k => k | None => [] end ++ [58] ++ n ++ [40]
      ++ flat_map (fun p => match p with (k, v) => k ++ [61] ++ ir_print_value v ++ [59] end) args ++ [41]
      ++ flat_map (fun d => [64] ++ d_name d ++ [40]
                    ++ flat_map (fun p => match p with (k, v) => k ++ [61] ++ ir_print_value v ++ [59] end)
                         (d_args d) ++ [41]) dirs
      ++ [123] ++ flat_map ir_sel_render sub ++ [125]
  | SSpread n dirs => [83] ++ n ++ flat_map (fun d => [64] ++ d_name d) dirs ++ [59]
  | SInline c dirs sub =>
      [73] ++ match c with Some k => k | None => [] end
      ++ flat_map (fun d => [64] ++ d_name d) dirs ++ [123] ++ flat_map ir_sel_render sub ++ [125]
  end.
Definition ir_def_render (d : definition) : str :=
  match d with
  | DOperation OpQuery n [] [] sels =>
      [81] ++ match n with Some k => k | None => [] end ++ [123] ++ flat_map ir_sel_render sels ++ [125]
  | DFragment n c [] sels => [82] ++ n ++ [58] ++ c ++ [123] ++ flat_map ir_sel_render sels ++ [125]
  | _ => [63]
  end.
Definition ir_doc_render (d : document) : str := flat_map ir_def_render d.
Definition ir_is_standard_query (d : document) : bool :=
  streq (ir_doc_render d) (ir_doc_render ir_standard_query).

(* ----------------------------------------------- the built-in definitions of a dumped schema (3.5, 3.13, 4.2) *)
Fixpoint ir_ty_eqb (a b : ty) : bool :=
  match a, b with
  | TNamed x, TNamed y | TNonNullNamed x, TNonNullNamed y => streq x y
  | TList x, TList y | TNonNullList x, TNonNullList y => ir_ty_eqb x y
  | _, _ => false
  end.
Definition ir_opt_value_eqb (a b : option value) : bool :=
  match a, b with
  | None, None => true
  | Some x, Some y => streq (ir_print_value x) (ir_print_value y)
  | _, _ => false
  end.
Definition ir_is_nil {A} (l : list A) : bool := match l with [] => true | _ => false end.
Definition ir_iv_eqv (a b : inputvaldef) : bool :=
  streq (iv_name a) (iv_name b) && ir_ty_eqb (iv_ty a) (iv_ty b)
  && ir_opt_value_eqb (iv_default a) (iv_default b) && ir_is_nil (iv_dirs b).
Fixpoint ir_all2 {A} (f : A -> A -> bool) (l1 l2 : list A) : bool :=
  match l1, l2 with
  | [], [] => true
  | x :: r1, y :: r2 => f x y && ir_all2 f r1 r2
  | _, _ => false
  end.
Definition ir_fd_eqv (a b : fielddef) : bool :=
  streq (fd_name a) (fd_name b) && ir_all2 ir_iv_eqv (fd_args a) (fd_args b) && ir_ty_eqb (fd_ty a) (fd_ty b)
  && ir_is_nil (fd_dirs b).
Definition ir_bool_eqb (a b : bool) : bool := if a then b else negb b.
Definition ir_loc_eqb (a b : dirloc) : bool := streq (ir_loc_name a) (ir_loc_name b).

(* the fields of a `__` type modulo order: same number, and every field of the spec has its equal *)
Definition ir_fields_eqv (spec dumped : list (comp fielddef)) : bool :=
  (N.of_nat (List.length spec) =? N.of_nat (List.length dumped))
  && forallb (fun a => existsb (fun b => ir_fd_eqv (c_val a) (c_val b)) dumped) spec.

Definition ir_builtin_type_eqv (spec dumped : ext_type) : bool :=
  match spec, dumped with
  | EObject _ n [] [] fs _, EObject _ n' [] [] fs' true => streq n n' && ir_fields_eqv fs fs'
  | EEnum _ n [] vs _, EEnum _ n' [] vs' true =>
      streq n n'
      && ir_all2 (fun a b => streq (ev_value (c_val a)) (ev_value (c_val b)) && ir_is_nil (ev_dirs (c_val b)))
           vs vs'
  | _, _ => false
  end.
Definition ir_dirdef_eqv (spec dumped : dirdef) : bool :=
  streq (dd_name spec) (dd_name dumped) && ir_all2 ir_iv_eqv (dd_args spec) (dd_args dumped)
  && ir_bool_eqb (dd_repeatable spec) (dd_repeatable dumped) && ir_all2 ir_loc_eqb (dd_locs spec) (dd_locs dumped)
  && dd_builtin dumped.

(* every named type mentioned by a field, argument or input field (3.5: "there is no field, argument, or
   input field of that type"); directive arguments are arguments *)
Definition ir_iv_refs (l : list inputvaldef) : list str := map (fun i => inner_named_type (iv_ty i)) l.
Definition ir_fd_refs (l : list (comp fielddef)) : list str :=
  flat_map (fun c => inner_named_type (fd_ty (c_val c)) :: ir_iv_refs (fd_args (c_val c))) l.
Definition ir_type_refs (t : ext_type) : list str :=
  match t with
  | EObject _ _ _ _ fs _ | EInterface _ _ _ _ fs _ => ir_fd_refs fs
  | EInput _ _ _ fs _ => ir_iv_refs (ir_cvals fs)
  | _ => []
  end.
Definition ir_schema_refs (s : schema) : list str :=
  flat_map ir_type_refs (sch_types s) ++ flat_map (fun d => ir_iv_refs (dd_args d)) (sch_dirdefs s).

Definition ir_is_builtin_scalar (t : ext_type) : bool :=
  match t with EScalar _ n [] true => existsb (streq n) ir_builtin_scalars | _ => false end.

(* 0 = the built-in part of the schema is the specification's; otherwise which check failed *)
Definition ir_builtins_check (s : schema) : N :=
  if negb (forallb (fun sp => match sch_get_type s (et_name sp) with
                              | Some d => ir_builtin_type_eqv sp d
                              | None => false
                              end) ir_spec_types) then 1
  else if negb (forallb (fun sp => match sch_find_dirdef (dd_name sp) (sch_dirdefs s) with
                                   | Some d => ir_dirdef_eqv sp d
                                   | None => false
                                   end) ir_spec_directives) then 2
  else if negb (forallb (fun n =>
                  let referenced := existsb (streq n) (ir_schema_refs s) in
                  match sch_get_type s n with
                  | Some t => ir_is_builtin_scalar t && referenced
                  | None => negb referenced
                  end) ir_builtin_scalars) then 3
  else if negb (forallb (fun t => negb (et_builtin t)
                                  || ir_is_builtin_scalar t
                                  || match sch_find_type (et_name t) ir_spec_types with
                                     | Some _ => true | None => false end) (sch_types s)) then 4
  else if negb (forallb (fun d => negb (dd_builtin d)
                                  || match sch_find_dirdef (dd_name d) ir_spec_directives with
                                     | Some _ => true | None => false end) (sch_dirdefs s)) then 5
  else 0.

(* ------------------------------------------------------- well-formedness: every type reference resolves *)
Definition ir_resolves (s : schema) (n : str) : bool :=
  match sch_get_type s n with Some _ => true | None => false end.
Definition ir_iv_wf (s : schema) (i : inputvaldef) : bool :=
  ir_resolves s (inner_named_type (iv_ty i))
  && match ir_default_string s i with Some _ => true | None => false end
  && match ir_dep_reason (iv_dirs i) with IrrBad _ => false | _ => true end.
Definition ir_fd_wf (s : schema) (f : fielddef) : bool :=
  ir_resolves s (inner_named_type (fd_ty f)) && forallb (ir_iv_wf s) (fd_args f)
  && match ir_dep_reason (fd_dirs f) with IrrBad _ => false | _ => true end.
Definition ir_type_wf (s : schema) (t : ext_type) : bool :=
  match t with
  | EScalar _ _ dirs _ =>
      match ir_resolve_type s t IrfSpecifiedByURL [] with IrrBad _ => false | _ => true end
  | EObject _ _ impls _ fs _ | EInterface _ _ impls _ fs _ =>
      forallb (fun c => ir_resolves s (c_val c)) impls && forallb (fun c => ir_fd_wf s (c_val c)) fs
  | EUnion _ _ _ members _ => forallb (fun c => ir_resolves s (c_val c)) members
  | EEnum _ _ _ vs _ =>
      forallb (fun c => match ir_dep_reason (ev_dirs (c_val c)) with IrrBad _ => false | _ => true end) vs
  | EInput _ _ _ fs _ => forallb (fun c => ir_iv_wf s (c_val c)) fs
  end.
Definition ir_root_wf (s : schema) (o : option (comp str)) : bool :=
  match o with Some c => ir_resolves s (c_val c) | None => true end.
Definition ir_wf (s : schema) : bool :=
  forallb (ir_type_wf s) (sch_types s)
  && forallb (fun d => forallb (ir_iv_wf s) (dd_args d)) (sch_dirdefs s)
  && match sd_query (sch_def s) with Some c => ir_resolves s (c_val c) | None => false end
  && ir_root_wf s (sd_mutation (sch_def s)) && ir_root_wf s (sd_subscription (sch_def s)).
