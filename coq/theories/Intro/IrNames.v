(* String constants of the introspection reference (Intro/Reference.v), as evaluated `str` literals.
   Coq.Strings.String is imported only here; every constant is a closed list of code points, so neither
   `string` nor `ascii` reaches the extraction. *)
From Coq Require Import Strings.String Strings.Ascii.
From ApolloVerif Require Import Base.Chars.

Fixpoint ir_lit (s : string) : str :=
  match s with EmptyString => [] | String a r => N_of_ascii a :: ir_lit r end.

Definition irk_uuSchema : str := Eval compute in ir_lit "__Schema".
Definition irk_uuType : str := Eval compute in ir_lit "__Type".
Definition irk_uuField : str := Eval compute in ir_lit "__Field".
Definition irk_uuInputValue : str := Eval compute in ir_lit "__InputValue".
Definition irk_uuEnumValue : str := Eval compute in ir_lit "__EnumValue".
Definition irk_uuDirective : str := Eval compute in ir_lit "__Directive".
Definition irk_uuTypeKind : str := Eval compute in ir_lit "__TypeKind".
Definition irk_uuDirectiveLocation : str := Eval compute in ir_lit "__DirectiveLocation".
Definition irk_String : str := Eval compute in ir_lit "String".
Definition irk_Boolean : str := Eval compute in ir_lit "Boolean".
Definition irk_Int : str := Eval compute in ir_lit "Int".
Definition irk_Float : str := Eval compute in ir_lit "Float".
Definition irk_ID : str := Eval compute in ir_lit "ID".
Definition irk_description : str := Eval compute in ir_lit "description".
Definition irk_types : str := Eval compute in ir_lit "types".
Definition irk_queryType : str := Eval compute in ir_lit "queryType".
Definition irk_mutationType : str := Eval compute in ir_lit "mutationType".
Definition irk_subscriptionType : str := Eval compute in ir_lit "subscriptionType".
Definition irk_directives : str := Eval compute in ir_lit "directives".
Definition irk_kind : str := Eval compute in ir_lit "kind".
Definition irk_name : str := Eval compute in ir_lit "name".
Definition irk_fields : str := Eval compute in ir_lit "fields".
Definition irk_interfaces : str := Eval compute in ir_lit "interfaces".
Definition irk_possibleTypes : str := Eval compute in ir_lit "possibleTypes".
Definition irk_enumValues : str := Eval compute in ir_lit "enumValues".
Definition irk_inputFields : str := Eval compute in ir_lit "inputFields".
Definition irk_ofType : str := Eval compute in ir_lit "ofType".
Definition irk_specifiedByURL : str := Eval compute in ir_lit "specifiedByURL".
Definition irk_args : str := Eval compute in ir_lit "args".
Definition irk_type : str := Eval compute in ir_lit "type".
Definition irk_isDeprecated : str := Eval compute in ir_lit "isDeprecated".
Definition irk_deprecationReason : str := Eval compute in ir_lit "deprecationReason".
Definition irk_defaultValue : str := Eval compute in ir_lit "defaultValue".
Definition irk_locations : str := Eval compute in ir_lit "locations".
Definition irk_isRepeatable : str := Eval compute in ir_lit "isRepeatable".
Definition irk_includeDeprecated : str := Eval compute in ir_lit "includeDeprecated".
Definition irk_uuschema : str := Eval compute in ir_lit "__schema".
Definition irk_uutype : str := Eval compute in ir_lit "__type".
Definition irk_uutypename : str := Eval compute in ir_lit "__typename".
Definition irk_SCALAR : str := Eval compute in ir_lit "SCALAR".
Definition irk_OBJECT : str := Eval compute in ir_lit "OBJECT".
Definition irk_INTERFACE : str := Eval compute in ir_lit "INTERFACE".
Definition irk_UNION : str := Eval compute in ir_lit "UNION".
Definition irk_ENUM : str := Eval compute in ir_lit "ENUM".
Definition irk_INPUT_OBJECT : str := Eval compute in ir_lit "INPUT_OBJECT".
Definition irk_LIST : str := Eval compute in ir_lit "LIST".
Definition irk_NON_NULL : str := Eval compute in ir_lit "NON_NULL".
Definition irk_skip : str := Eval compute in ir_lit "skip".
Definition irk_include : str := Eval compute in ir_lit "include".
Definition irk_deprecated : str := Eval compute in ir_lit "deprecated".
Definition irk_specifiedBy : str := Eval compute in ir_lit "specifiedBy".
Definition irk_if : str := Eval compute in ir_lit "if".
Definition irk_reason : str := Eval compute in ir_lit "reason".
Definition irk_url : str := Eval compute in ir_lit "url".
Definition irk_null : str := Eval compute in ir_lit "null".
Definition irk_true : str := Eval compute in ir_lit "true".
Definition irk_false : str := Eval compute in ir_lit "false".
Definition irk_QUERY : str := Eval compute in ir_lit "QUERY".
Definition irk_MUTATION : str := Eval compute in ir_lit "MUTATION".
Definition irk_SUBSCRIPTION : str := Eval compute in ir_lit "SUBSCRIPTION".
Definition irk_FIELD : str := Eval compute in ir_lit "FIELD".
Definition irk_FRAGMENT_DEFINITION : str := Eval compute in ir_lit "FRAGMENT_DEFINITION".
Definition irk_FRAGMENT_SPREAD : str := Eval compute in ir_lit "FRAGMENT_SPREAD".
Definition irk_INLINE_FRAGMENT : str := Eval compute in ir_lit "INLINE_FRAGMENT".
Definition irk_VARIABLE_DEFINITION : str := Eval compute in ir_lit "VARIABLE_DEFINITION".
Definition irk_SCHEMA : str := Eval compute in ir_lit "SCHEMA".
Definition irk_FIELD_DEFINITION : str := Eval compute in ir_lit "FIELD_DEFINITION".
Definition irk_ARGUMENT_DEFINITION : str := Eval compute in ir_lit "ARGUMENT_DEFINITION".
Definition irk_ENUM_VALUE : str := Eval compute in ir_lit "ENUM_VALUE".
Definition irk_INPUT_FIELD_DEFINITION : str := Eval compute in ir_lit "INPUT_FIELD_DEFINITION".
Definition irk_IntrospectionQuery : str := Eval compute in ir_lit "IntrospectionQuery".
Definition irk_FullType : str := Eval compute in ir_lit "FullType".
Definition irk_InputValue : str := Eval compute in ir_lit "InputValue".
Definition irk_TypeRef : str := Eval compute in ir_lit "TypeRef".
Definition irk_no_longer_supported : str := Eval compute in ir_lit "No longer supported".
Definition irk_comma_space : str := Eval compute in ir_lit ", ".
Definition irk_colon_space : str := Eval compute in ir_lit ": ".
