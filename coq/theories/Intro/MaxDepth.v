(* Model of crates/apollo-compiler/src/introspection/max_depth.rs (check_selection_set) and of
   introspection::check_max_depth (introspection/mod.rs), plus the specification the property compares
   it with: the nesting depth of list-valued introspection fields in the fully expanded selection tree.

   Definitions only (extractable); proofs are in MaxDepthProofs.v. *)
From ApolloVerif Require Import Base.Chars.

(* executable::Selection, reduced to what check_selection_set looks at:
   field name + sub-selections | inline fragment | named fragment spread *)
Inductive md_sel :=
| MdField (name : str) (sub : list md_sel)
| MdInline (sub : list md_sel)
| MdSpread (name : str).

(* document.fragments : IndexMap<Name, Node<Fragment>>, as an association list name -> selection set *)
Definition md_fragmap := list (str * list md_sel).

Fixpoint md_str_eqb (a b : str) : bool :=
  match a, b with
  | [], [] => true
  | x :: a, y :: b => (x =? y) && md_str_eqb a b
  | _, _ => false
  end.

(* map.get(key): first entry with the key *)
Fixpoint md_assoc {A} (k : str) (m : list (str * A)) : option A :=
  match m with
  | [] => None
  | (k', v) :: r => if md_str_eqb k k' then Some v else md_assoc k r
  end.

(* "fields" | "interfaces" | "possibleTypes" | "inputFields" *)
Definition md_n_fields : str := [102;105;101;108;100;115].
Definition md_n_interfaces : str := [105;110;116;101;114;102;97;99;101;115].
Definition md_n_possibleTypes : str := [112;111;115;115;105;98;108;101;84;121;112;101;115].
Definition md_n_inputFields : str := [105;110;112;117;116;70;105;101;108;100;115].

Definition md_is_list_field (n : str) : bool :=
  md_str_eqb n md_n_fields || md_str_eqb n md_n_interfaces ||
  md_str_eqb n md_n_possibleTypes || md_str_eqb n md_n_inputFields.

(* const MAX_LISTS_DEPTH: u32 = 3; *)
Definition md_MAX_LISTS_DEPTH : N := 3.

(* fragment_depths: HashMap<&Name, u32>.  Only get/insert are used; an association list whose lookup
   returns the first entry, with insert = cons, has the same get/insert behaviour. *)
Definition md_memo := list (str * N).

Inductive mdres :=
| MdOk (max_depth : N) (m : md_memo)
| MdErr                              (* "Maximum introspection depth exceeded" *)
| MdPanic                            (* u32 underflow of post_fragment_depth - depth_so_far *)
| MdOutOfFuel.                       (* not a result of the code: the model's recursion bound ran out *)

(* The `for selection in &selection_set.selections` loop of check_selection_set, with the recursive
   calls abstracted as [rec] (fuel is decreased once per call of check_selection_set). *)
Section Loop.
  Variable rec : md_memo -> N -> list md_sel -> mdres.
  Variable frs : md_fragmap.
  Variable depth_so_far : N.

  Fixpoint md_loop (m : md_memo) (max_depth : N) (l : list md_sel) {struct l} : mdres :=
    match l with
    | [] => MdOk max_depth m
    | MdInline sub :: r =>
        match rec m depth_so_far sub with
        | MdOk v m' => md_loop m' (N.max max_depth v) r
        | e => e
        end
    | MdSpread n :: r =>
        match md_assoc n frs with
        | None => md_loop m max_depth r                     (* let Some(def) = ... else { continue } *)
        | Some body =>
            match md_assoc n m with
            | Some fragment_depth =>
                let post_fragment_depth := depth_so_far + fragment_depth in
                if md_MAX_LISTS_DEPTH <=? post_fragment_depth                (* `>=`, as for fields *)
                then MdErr
                else md_loop m (N.max max_depth post_fragment_depth) r
            | None =>
                match rec m depth_so_far body with
                | MdOk post m' =>
                    if post <? depth_so_far then MdPanic
                    else md_loop ((n, post - depth_so_far) :: m') (N.max max_depth post) r
                | e => e
                end
            end
        end
    | MdField n sub :: r =>
        let depth := if md_is_list_field n then depth_so_far + 1 else depth_so_far in
        if md_is_list_field n && (md_MAX_LISTS_DEPTH <=? depth)                (* `>=` *)
        then MdErr
        else
          match rec m depth sub with
          | MdOk v m' => md_loop m' (N.max max_depth v) r
          | e => e
          end
    end.
End Loop.

(* check_selection_set(document, fragment_depths, depth_so_far, selection_set) *)
Fixpoint md_check_selection_set (fuel : nat) (frs : md_fragmap) (m : md_memo) (depth_so_far : N)
         (sels : list md_sel) : mdres :=
  match fuel with
  | O => MdOutOfFuel
  | S fuel' => md_loop (md_check_selection_set fuel' frs) frs depth_so_far m depth_so_far sels
  end.

Inductive md_verdict := MdVOk | MdVErr | MdVPanic | MdVOutOfFuel.

(* introspection::check_max_depth(document, operation) : initial depth 0, empty memo, `.map(drop)` *)
Definition md_check_max_depth (fuel : nat) (frs : md_fragmap) (op : list md_sel) : md_verdict :=
  match md_check_selection_set fuel frs [] 0 op with
  | MdOk _ _ => MdVOk
  | MdErr => MdVErr
  | MdPanic => MdVPanic
  | MdOutOfFuel => MdVOutOfFuel
  end.

(* ---------------------------------------------------------------- specification *)

(* expanded depth: with named and inline fragments expanded, the maximum number of list-valued
   introspection fields nested on a root-to-leaf path.  Fuel-bounded; [None] = out of fuel
   (only for cyclic fragment maps once the fuel is large enough, see MaxDepthProofs.xdepth_total). *)
Definition md_omax (a b : option N) : option N :=
  match a, b with Some x, Some y => Some (N.max x y) | _, _ => None end.

Section XLoop.
  Variable rec : list md_sel -> option N.
  Variable frs : md_fragmap.

  Definition md_xd_one (s : md_sel) : option N :=
    match s with
    | MdField n sub =>
        match rec sub with
        | Some x => Some (if md_is_list_field n then x + 1 else x)
        | None => None
        end
    | MdInline sub => rec sub
    | MdSpread n =>
        match md_assoc n frs with
        | None => Some 0
        | Some body => rec body
        end
    end.

  Fixpoint md_xd_list (l : list md_sel) : option N :=
    match l with
    | [] => Some 0
    | s :: r => md_omax (md_xd_one s) (md_xd_list r)
    end.
End XLoop.

Fixpoint md_xdepth (fuel : nat) (frs : md_fragmap) (sels : list md_sel) : option N :=
  match fuel with
  | O => None
  | S fuel' => md_xd_list (md_xdepth fuel' frs) frs sels
  end.

(* the expansion itself: a spread-free, inline-free list of field trees *)
Definition md_oapp (a b : option (list md_sel)) : option (list md_sel) :=
  match a, b with Some x, Some y => Some (x ++ y) | _, _ => None end.

Section XpLoop.
  Variable rec : list md_sel -> option (list md_sel).
  Variable frs : md_fragmap.

  Definition md_xp_one (s : md_sel) : option (list md_sel) :=
    match s with
    | MdField n sub =>
        match rec sub with
        | Some x => Some [MdField n x]
        | None => None
        end
    | MdInline sub => rec sub
    | MdSpread n =>
        match md_assoc n frs with
        | None => Some []
        | Some body => rec body
        end
    end.

  Fixpoint md_xp_list (l : list md_sel) : option (list md_sel) :=
    match l with
    | [] => Some []
    | s :: r => md_oapp (md_xp_one s) (md_xp_list r)
    end.
End XpLoop.

Fixpoint md_expand (fuel : nat) (frs : md_fragmap) (sels : list md_sel) : option (list md_sel) :=
  match fuel with
  | O => None
  | S fuel' => md_xp_list (md_expand fuel' frs) frs sels
  end.

(* ---------------------------------------------------------------- the code before commit a863a6a (finding D16)

   On a md_memo hit the old code tested `depth_so_far + fragment_depth > MAX_LISTS_DEPTH` and did not fold the
   hit into max_depth.  Kept only for the witness lemma C25_old_refuted. *)
Section LoopOld.
  Variable rec : md_memo -> N -> list md_sel -> mdres.
  Variable frs : md_fragmap.
  Variable depth_so_far : N.

  Fixpoint md_loop_old (m : md_memo) (max_depth : N) (l : list md_sel) {struct l} : mdres :=
    match l with
    | [] => MdOk max_depth m
    | MdInline sub :: r =>
        match rec m depth_so_far sub with
        | MdOk v m' => md_loop_old m' (N.max max_depth v) r
        | e => e
        end
    | MdSpread n :: r =>
        match md_assoc n frs with
        | None => md_loop_old m max_depth r
        | Some body =>
            match md_assoc n m with
            | Some fragment_depth =>
                if md_MAX_LISTS_DEPTH <? depth_so_far + fragment_depth
                then MdErr
                else md_loop_old m max_depth r
            | None =>
                match rec m depth_so_far body with
                | MdOk post m' =>
                    if post <? depth_so_far then MdPanic
                    else md_loop_old ((n, post - depth_so_far) :: m') (N.max max_depth post) r
                | e => e
                end
            end
        end
    | MdField n sub :: r =>
        let depth := if md_is_list_field n then depth_so_far + 1 else depth_so_far in
        if md_is_list_field n && (md_MAX_LISTS_DEPTH <=? depth)
        then MdErr
        else
          match rec m depth sub with
          | MdOk v m' => md_loop_old m' (N.max max_depth v) r
          | e => e
          end
    end.
End LoopOld.

Fixpoint md_check_selection_set_old (fuel : nat) (frs : md_fragmap) (m : md_memo) (d : N) (sels : list md_sel) : mdres :=
  match fuel with
  | O => MdOutOfFuel
  | S fuel' => md_loop_old (md_check_selection_set_old fuel' frs) frs d m d sels
  end.

Definition md_check_max_depth_old (fuel : nat) (frs : md_fragmap) (op : list md_sel) : md_verdict :=
  match md_check_selection_set_old fuel frs [] 0 op with
  | MdOk _ _ => MdVOk
  | MdErr => MdVErr
  | MdPanic => MdVPanic
  | MdOutOfFuel => MdVOutOfFuel
  end.

(* fuel-free views used by the theorem statements *)
Definition ExpandedDepth (frs : md_fragmap) (sels : list md_sel) (x : N) : Prop :=
  exists fuel, md_xdepth fuel frs sels = Some x.
Definition Expansion (frs : md_fragmap) (sels : list md_sel) (e : list md_sel) : Prop :=
  exists fuel, md_expand fuel frs sels = Some e.
Definition Checks (frs : md_fragmap) (op : list md_sel) (v : md_verdict) : Prop :=
  exists fuel, md_check_max_depth fuel frs op = v /\ v <> MdVOutOfFuel.

(* The specification once more, declaratively: [NestPath frs l k] = in the expansion of l there is a path
   from the root (downwards, through fields, inline fragments and the bodies of named fragments) on which
   k list-valued introspection fields are nested.  MaxDepthProofs.xdepth_is_max_path: the expanded depth
   is the maximum such k. *)
Inductive NestPath (frs : md_fragmap) : list md_sel -> N -> Prop :=
| NP_stop l : NestPath frs l 0
| NP_field n sub r k : NestPath frs sub k ->
    NestPath frs (MdField n sub :: r) (if md_is_list_field n then k + 1 else k)
| NP_inline sub r k : NestPath frs sub k -> NestPath frs (MdInline sub :: r) k
| NP_spread n body r k : md_assoc n frs = Some body -> NestPath frs body k ->
    NestPath frs (MdSpread n :: r) k
| NP_skip s r k : NestPath frs r k -> NestPath frs (s :: r) k.

(* a named fragment is spread somewhere inside a selection set (syntactically, at any nesting) *)
Inductive SpreadIn (m : str) : list md_sel -> Prop :=
| SI_here r : SpreadIn m (MdSpread m :: r)
| SI_field n sub r : SpreadIn m sub -> SpreadIn m (MdField n sub :: r)
| SI_inline sub r : SpreadIn m sub -> SpreadIn m (MdInline sub :: r)
| SI_tl s r : SpreadIn m r -> SpreadIn m (s :: r).

(* validation's NoFragmentCycles, declaratively: defined fragments can be ranked so that every fragment
   only spreads defined fragments of smaller rank *)
Definition acyclic (frs : md_fragmap) : Prop :=
  exists rank : str -> nat,
    forall n body, md_assoc n frs = Some body ->
    forall m body', SpreadIn m body -> md_assoc m frs = Some body' -> (rank m < rank n)%nat.
