(* Model of crates/apollo-compiler/src/introspection/max_depth.rs (check_selection_set) and of
   introspection::check_max_depth (introspection/mod.rs), plus the specification the property compares
   it with: the nesting depth of list-valued introspection fields in the fully expanded selection tree.

   Definitions only (extractable); proofs are in MaxDepthProofs.v. *)
From ApolloVerif Require Import Base.Chars.

(* executable::Selection, reduced to what check_selection_set looks at:
   field name + sub-selections | inline fragment | named fragment spread *)
Inductive sel :=
| SField (name : str) (sub : list sel)
| SInline (sub : list sel)
| SSpread (name : str).

(* document.fragments : IndexMap<Name, Node<Fragment>>, as an association list name -> selection set *)
Definition fragmap := list (str * list sel).

Fixpoint md_str_eqb (a b : str) : bool :=
  match a, b with
  | [], [] => true
  | x :: a, y :: b => (x =? y) && md_str_eqb a b
  | _, _ => false
  end.

(* map.get(key): first entry with the key *)
Fixpoint md_assoc {A} (k : str) (m : list (str * A)) : option A :=
  match m with
  | [] => None
  | (k', v) :: r => if md_str_eqb k k' then Some v else md_assoc k r
  end.

(* "fields" | "interfaces" | "possibleTypes" | "inputFields" *)
Definition n_fields : str := [102;105;101;108;100;115].
Definition n_interfaces : str := [105;110;116;101;114;102;97;99;101;115].
Definition n_possibleTypes : str := [112;111;115;115;105;98;108;101;84;121;112;101;115].
Definition n_inputFields : str := [105;110;112;117;116;70;105;101;108;100;115].

Definition is_list_field (n : str) : bool :=
  md_str_eqb n n_fields || md_str_eqb n n_interfaces ||
  md_str_eqb n n_possibleTypes || md_str_eqb n n_inputFields.

(* const MAX_LISTS_DEPTH: u32 = 3; *)
Definition MAX_LISTS_DEPTH : N := 3.

(* fragment_depths: HashMap<&Name, u32>.  Only get/insert are used; an association list whose lookup
   returns the first entry, with insert = cons, has the same get/insert behaviour. *)
Definition memo := list (str * N).

Inductive mdres :=
| MdOk (max_depth : N) (m : memo)
| MdErr                              (* "Maximum introspection depth exceeded" *)
| MdPanic                            (* u32 underflow of post_fragment_depth - depth_so_far *)
| MdOutOfFuel.                       (* not a result of the code: the model's recursion bound ran out *)

(* The `for selection in &selection_set.selections` loop of check_selection_set, with the recursive
   calls abstracted as [rec] (fuel is decreased once per call of check_selection_set). *)
Section Loop.
  Variable rec : memo -> N -> list sel -> mdres.
  Variable frs : fragmap.
  Variable depth_so_far : N.

  Fixpoint md_loop (m : memo) (max_depth : N) (l : list sel) {struct l} : mdres :=
    match l with
    | [] => MdOk max_depth m
    | SInline sub :: r =>
        match rec m depth_so_far sub with
        | MdOk v m' => md_loop m' (N.max max_depth v) r
        | e => e
        end
    | SSpread n :: r =>
        match md_assoc n frs with
        | None => md_loop m max_depth r                     (* let Some(def) = ... else { continue } *)
        | Some body =>
            match md_assoc n m with
            | Some fragment_depth =>
                if MAX_LISTS_DEPTH <? depth_so_far + fragment_depth      (* `>` *)
                then MdErr
                else md_loop m max_depth r                   (* the hit is not folded into max_depth *)
            | None =>
                match rec m depth_so_far body with
                | MdOk post m' =>
                    if post <? depth_so_far then MdPanic
                    else md_loop ((n, post - depth_so_far) :: m') (N.max max_depth post) r
                | e => e
                end
            end
        end
    | SField n sub :: r =>
        let depth := if is_list_field n then depth_so_far + 1 else depth_so_far in
        if is_list_field n && (MAX_LISTS_DEPTH <=? depth)                (* `>=` *)
        then MdErr
        else
          match rec m depth sub with
          | MdOk v m' => md_loop m' (N.max max_depth v) r
          | e => e
          end
    end.
End Loop.

(* check_selection_set(document, fragment_depths, depth_so_far, selection_set) *)
Fixpoint check_selection_set (fuel : nat) (frs : fragmap) (m : memo) (depth_so_far : N)
         (sels : list sel) : mdres :=
  match fuel with
  | O => MdOutOfFuel
  | S fuel' => md_loop (check_selection_set fuel' frs) frs depth_so_far m depth_so_far sels
  end.

Inductive verdict := VOk | VErr | VPanic | VOutOfFuel.

(* introspection::check_max_depth(document, operation) : initial depth 0, empty memo, `.map(drop)` *)
Definition check_max_depth (fuel : nat) (frs : fragmap) (op : list sel) : verdict :=
  match check_selection_set fuel frs [] 0 op with
  | MdOk _ _ => VOk
  | MdErr => VErr
  | MdPanic => VPanic
  | MdOutOfFuel => VOutOfFuel
  end.

(* ---------------------------------------------------------------- specification *)

(* expanded depth: with named and inline fragments expanded, the maximum number of list-valued
   introspection fields nested on a root-to-leaf path.  Fuel-bounded; [None] = out of fuel
   (only for cyclic fragment maps once the fuel is large enough, see MaxDepthProofs.xdepth_total). *)
Definition omax (a b : option N) : option N :=
  match a, b with Some x, Some y => Some (N.max x y) | _, _ => None end.

Section XLoop.
  Variable rec : list sel -> option N.
  Variable frs : fragmap.

  Definition xd_one (s : sel) : option N :=
    match s with
    | SField n sub =>
        match rec sub with
        | Some x => Some (if is_list_field n then x + 1 else x)
        | None => None
        end
    | SInline sub => rec sub
    | SSpread n =>
        match md_assoc n frs with
        | None => Some 0
        | Some body => rec body
        end
    end.

  Fixpoint xd_list (l : list sel) : option N :=
    match l with
    | [] => Some 0
    | s :: r => omax (xd_one s) (xd_list r)
    end.
End XLoop.

Fixpoint xdepth (fuel : nat) (frs : fragmap) (sels : list sel) : option N :=
  match fuel with
  | O => None
  | S fuel' => xd_list (xdepth fuel' frs) frs sels
  end.

(* the expansion itself: a spread-free, inline-free list of field trees *)
Definition oapp (a b : option (list sel)) : option (list sel) :=
  match a, b with Some x, Some y => Some (x ++ y) | _, _ => None end.

Section XpLoop.
  Variable rec : list sel -> option (list sel).
  Variable frs : fragmap.

  Definition xp_one (s : sel) : option (list sel) :=
    match s with
    | SField n sub =>
        match rec sub with
        | Some x => Some [SField n x]
        | None => None
        end
    | SInline sub => rec sub
    | SSpread n =>
        match md_assoc n frs with
        | None => Some []
        | Some body => rec body
        end
    end.

  Fixpoint xp_list (l : list sel) : option (list sel) :=
    match l with
    | [] => Some []
    | s :: r => oapp (xp_one s) (xp_list r)
    end.
End XpLoop.

Fixpoint expand (fuel : nat) (frs : fragmap) (sels : list sel) : option (list sel) :=
  match fuel with
  | O => None
  | S fuel' => xp_list (expand fuel' frs) frs sels
  end.

(* ---------------------------------------------------------------- the known class (finding D16)

   The same loop, instrumented with ghost state: next to the depth the code memoises for a fragment
   it records the fragment's true depth, next to max_depth the true maximum [t] (memo hits folded in),
   and a flag [bad] that is set when the memo-hit branch lets a spread pass although
   depth_so_far + (true depth of the fragment) reaches MAX_LISTS_DEPTH.
   MaxDepthProofs.erase_check shows that erasing the ghost state gives check_selection_set. *)
Definition imemo := list (str * (N * N)).

Inductive ires :=
| IOk (max_depth : N) (true_depth : N) (m : imemo) (bad : bool)
| IErr | IPanic | IOutOfFuel.

Section ILoop.
  Variable rec : imemo -> N -> list sel -> ires.
  Variable frs : fragmap.
  Variable depth_so_far : N.

  Fixpoint i_loop (m : imemo) (max_depth t : N) (bad : bool) (l : list sel) {struct l} : ires :=
    match l with
    | [] => IOk max_depth t m bad
    | SInline sub :: r =>
        match rec m depth_so_far sub with
        | IOk v t' m' b => i_loop m' (N.max max_depth v) (N.max t t') (bad || b) r
        | e => e
        end
    | SSpread n :: r =>
        match md_assoc n frs with
        | None => i_loop m max_depth t bad r
        | Some body =>
            match md_assoc n m with
            | Some (fragment_depth, true_fd) =>
                if MAX_LISTS_DEPTH <? depth_so_far + fragment_depth
                then IErr
                else i_loop m max_depth (N.max t (depth_so_far + true_fd))
                            (bad || (MAX_LISTS_DEPTH <=? depth_so_far + true_fd)) r
            | None =>
                match rec m depth_so_far body with
                | IOk post t' m' b =>
                    if post <? depth_so_far then IPanic
                    else i_loop ((n, (post - depth_so_far, t' - depth_so_far)) :: m')
                                (N.max max_depth post) (N.max t t') (bad || b) r
                | e => e
                end
            end
        end
    | SField n sub :: r =>
        let depth := if is_list_field n then depth_so_far + 1 else depth_so_far in
        if is_list_field n && (MAX_LISTS_DEPTH <=? depth)
        then IErr
        else
          match rec m depth sub with
          | IOk v t' m' b => i_loop m' (N.max max_depth v) (N.max t t') (bad || b) r
          | e => e
          end
    end.
End ILoop.

Fixpoint check_instr (fuel : nat) (frs : fragmap) (m : imemo) (d : N) (sels : list sel) : ires :=
  match fuel with
  | O => IOutOfFuel
  | S fuel' => i_loop (check_instr fuel' frs) frs d m d d false sels
  end.

(* Known_C25: the run accepts the operation and, on the way, the memo-hit branch let a spread pass
   at which depth_so_far + true depth of the fragment >= MAX_LISTS_DEPTH. *)
Definition known_c25_b (fuel : nat) (frs : fragmap) (op : list sel) : bool :=
  match check_instr fuel frs [] 0 op with
  | IOk _ _ _ bad => bad
  | _ => false
  end.

Definition Known_C25 (frs : fragmap) (op : list sel) : Prop :=
  exists fuel, known_c25_b fuel frs op = true.

(* fuel-free views used by the theorem statements *)
Definition ExpandedDepth (frs : fragmap) (sels : list sel) (x : N) : Prop :=
  exists fuel, xdepth fuel frs sels = Some x.
Definition Expansion (frs : fragmap) (sels : list sel) (e : list sel) : Prop :=
  exists fuel, expand fuel frs sels = Some e.
Definition Checks (frs : fragmap) (op : list sel) (v : verdict) : Prop :=
  exists fuel, check_max_depth fuel frs op = v /\ v <> VOutOfFuel.

(* a named fragment spread anywhere inside a selection set (syntactically) *)
Fixpoint spread_in (m : str) (s : sel) : Prop :=
  match s with
  | SField _ sub => (fix go (l : list sel) : Prop :=
                       match l with [] => False | x :: r => spread_in m x \/ go r end) sub
  | SInline sub => (fix go (l : list sel) : Prop :=
                       match l with [] => False | x :: r => spread_in m x \/ go r end) sub
  | SSpread n => n = m
  end.
Definition spread_in_list (m : str) (l : list sel) : Prop := exists s, In s l /\ spread_in m s.

(* validation's NoFragmentCycles, declaratively: defined fragments can be ranked so that every fragment
   only spreads defined fragments of smaller rank *)
Definition acyclic (frs : fragmap) : Prop :=
  exists rank : str -> nat,
    forall n body, md_assoc n frs = Some body ->
    forall m body', spread_in_list m body -> md_assoc m frs = Some body' -> (rank m < rank n)%nat.
