(* Proofs about the introspection depth check (C25). *)
From ApolloVerif Require Import Base.Chars Intro.MaxDepth.
From Coq Require Import ZifyBool ZifyN Arith.PeanoNat Wf_nat.

(* ---------------------------------------------------------------- basics *)

Lemma md_str_eqb_eq a b : md_str_eqb a b = true <-> a = b.
Proof.
  revert b. induction a as [|x a IH]; destruct b as [|y b]; cbn [md_str_eqb];
    try (split; [discriminate|congruence]).
  - tauto.
  - rewrite andb_true_iff, IH, N.eqb_eq. split; [intros [-> ->]; reflexivity|intros [= -> ->]; auto].
Qed.

Lemma md_str_eqb_refl a : md_str_eqb a a = true.
Proof. now apply md_str_eqb_eq. Qed.

(* a nested induction principle for selections *)
Section SelInd.
  Variable P : md_sel -> Prop.
  Variable Q : list md_sel -> Prop.
  Hypothesis Hfield : forall n sub, Q sub -> P (MdField n sub).
  Hypothesis Hinline : forall sub, Q sub -> P (MdInline sub).
  Hypothesis Hspread : forall n, P (MdSpread n).
  Hypothesis Hnil : Q [].
  Hypothesis Hcons : forall s r, P s -> Q r -> Q (s :: r).

  Fixpoint sel_ind2 (s : md_sel) : P s :=
    match s with
    | MdField n sub =>
        Hfield n sub ((fix go (l : list md_sel) : Q l :=
                         match l with [] => Hnil | x :: r => Hcons x r (sel_ind2 x) (go r) end) sub)
    | MdInline sub =>
        Hinline sub ((fix go (l : list md_sel) : Q l :=
                        match l with [] => Hnil | x :: r => Hcons x r (sel_ind2 x) (go r) end) sub)
    | MdSpread n => Hspread n
    end.

  Fixpoint sels_ind2 (l : list md_sel) : Q l :=
    match l with [] => Hnil | x :: r => Hcons x r (sel_ind2 x) (sels_ind2 r) end.
End SelInd.

(* ---------------------------------------------------------------- md_xdepth: fuel monotonicity *)

Definition rec_le {A} (r1 r2 : list md_sel -> option A) : Prop :=
  forall l x, r1 l = Some x -> r2 l = Some x.

Lemma xd_one_mono frs r1 r2 s x :
  rec_le r1 r2 -> md_xd_one r1 frs s = Some x -> md_xd_one r2 frs s = Some x.
Proof.
  intros H. destruct s as [n sub|sub|n]; cbn [md_xd_one].
  - destruct (r1 sub) as [y|] eqn:E; [|discriminate]. now rewrite (H _ _ E).
  - apply H.
  - destruct (md_assoc n frs); [apply H|auto].
Qed.

Lemma xd_list_mono frs r1 r2 l : forall x,
  rec_le r1 r2 -> md_xd_list r1 frs l = Some x -> md_xd_list r2 frs l = Some x.
Proof.
  induction l as [|s l IH]; intros x H; cbn [md_xd_list]; [auto|].
  destruct (md_xd_one r1 frs s) as [a|] eqn:Ea; [|discriminate].
  destruct (md_xd_list r1 frs l) as [b|] eqn:Eb; [|discriminate].
  cbn [md_omax]. intros [= <-].
  now rewrite (xd_one_mono _ _ _ _ _ H Ea), (IH _ H eq_refl).
Qed.

Lemma xdepth_S frs f : rec_le (md_xdepth f frs) (md_xdepth (S f) frs).
Proof.
  induction f as [|f IH]; intros l x; [discriminate|].
  intros H. change (md_xd_list (md_xdepth (S f) frs) frs l = Some x).
  change (md_xd_list (md_xdepth f frs) frs l = Some x) in H.
  eapply xd_list_mono; eauto.
Qed.

Lemma xdepth_mono frs f f' : (f <= f')%nat -> rec_le (md_xdepth f frs) (md_xdepth f' frs).
Proof.
  induction 1 as [|f' _ IH]; intros l x H; [exact H|].
  apply xdepth_S. now apply IH.
Qed.

Lemma ExpandedDepth_det frs l x y : ExpandedDepth frs l x -> ExpandedDepth frs l y -> x = y.
Proof.
  intros [f Hf] [g Hg].
  pose proof (xdepth_mono frs f (max f g) (Nat.le_max_l _ _) _ _ Hf) as H1.
  pose proof (xdepth_mono frs g (max f g) (Nat.le_max_r _ _) _ _ Hg) as H2.
  congruence.
Qed.

(* inversion of ExpandedDepth along the selection list *)
Lemma XD_nil frs x : ExpandedDepth frs [] x -> x = 0.
Proof. intros [[|f] H]; [discriminate|]. cbn in H. congruence. Qed.

Lemma XD_cons frs s r x :
  ExpandedDepth frs (s :: r) x ->
  exists f a b, md_xd_one (md_xdepth f frs) frs s = Some a /\ ExpandedDepth frs r b /\ x = N.max a b.
Proof.
  intros [[|f] H]; [discriminate|].
  change (md_omax (md_xd_one (md_xdepth f frs) frs s) (md_xd_list (md_xdepth f frs) frs r) = Some x) in H.
  destruct (md_xd_one (md_xdepth f frs) frs s) as [a|] eqn:Ea; [|discriminate].
  destruct (md_xd_list (md_xdepth f frs) frs r) as [b|] eqn:Eb; [|discriminate].
  cbn [md_omax] in H. injection H as <-.
  exists f, a, b. split; [exact Ea|]. split; [|reflexivity]. now exists (S f).
Qed.

Lemma XD_field frs n sub r x :
  ExpandedDepth frs (MdField n sub :: r) x ->
  exists y b, ExpandedDepth frs sub y /\ ExpandedDepth frs r b /\
              x = N.max (if md_is_list_field n then y + 1 else y) b.
Proof.
  intros H. apply XD_cons in H as (f & a & b & Ha & Hb & ->). cbn [md_xd_one] in Ha.
  destruct (md_xdepth f frs sub) as [y|] eqn:E; [|discriminate]. injection Ha as <-.
  exists y, b. split; [now exists f|auto].
Qed.

Lemma XD_inline frs sub r x :
  ExpandedDepth frs (MdInline sub :: r) x ->
  exists y b, ExpandedDepth frs sub y /\ ExpandedDepth frs r b /\ x = N.max y b.
Proof.
  intros H. apply XD_cons in H as (f & a & b & Ha & Hb & ->). cbn [md_xd_one] in Ha.
  exists a, b. split; [now exists f|auto].
Qed.

Lemma XD_spread frs n body r x :
  md_assoc n frs = Some body ->
  ExpandedDepth frs (MdSpread n :: r) x ->
  exists y b, ExpandedDepth frs body y /\ ExpandedDepth frs r b /\ x = N.max y b.
Proof.
  intros Hn H. apply XD_cons in H as (f & a & b & Ha & Hb & ->). cbn [md_xd_one] in Ha.
  rewrite Hn in Ha. exists a, b. split; [now exists f|auto].
Qed.

Lemma XD_spread_undef frs n r x :
  md_assoc n frs = None ->
  ExpandedDepth frs (MdSpread n :: r) x -> ExpandedDepth frs r x.
Proof.
  intros Hn H. apply XD_cons in H as (f & a & b & Ha & Hb & ->). cbn [md_xd_one] in Ha.
  rewrite Hn in Ha. injection Ha as <-. now rewrite N.max_0_l.
Qed.

(* ---------------------------------------------------------------- the check against the specification *)

Local Ltac mlia := unfold md_MAX_LISTS_DEPTH in *; lia.

Section Check.
  Variable frs : md_fragmap.

  (* every memoised depth is the expanded depth of that fragment's body *)
  Definition memo_ok (m : md_memo) : Prop :=
    forall n fd body x, md_assoc n m = Some fd -> md_assoc n frs = Some body ->
                        ExpandedDepth frs body x -> fd = x.

  Definition good (d : N) (sels : list md_sel) (r : mdres) : Prop :=
    match r with
    | MdOutOfFuel => True
    | MdPanic => False
    | MdErr => forall x, ExpandedDepth frs sels x -> md_MAX_LISTS_DEPTH <= d + x
    | MdOk v m' => memo_ok m' /\ d <= v /\ v < md_MAX_LISTS_DEPTH /\
                   forall x, ExpandedDepth frs sels x -> v = d + x
    end.

  Definition good_loop (d maxd : N) (l : list md_sel) (r : mdres) : Prop :=
    match r with
    | MdOutOfFuel => True
    | MdPanic => False
    | MdErr => forall x, ExpandedDepth frs l x -> md_MAX_LISTS_DEPTH <= d + x
    | MdOk v m' => memo_ok m' /\ maxd <= v /\ v < md_MAX_LISTS_DEPTH /\
                   forall x, ExpandedDepth frs l x -> v = N.max maxd (d + x)
    end.

  Lemma memo_ok_insert m n body v d :
    memo_ok m -> md_assoc n frs = Some body ->
    (forall x, ExpandedDepth frs body x -> v = d + x) -> d <= v ->
    memo_ok ((n, v - d) :: m).
  Proof.
    intros Hm Hn Hv Hd k fd body' x Hk Hb Hx. cbn [md_assoc] in Hk.
    destruct (md_str_eqb k n) eqn:E.
    - apply md_str_eqb_eq in E as ->. injection Hk as <-.
      rewrite Hn in Hb. injection Hb as <-. specialize (Hv _ Hx). lia.
    - eapply Hm; eauto.
  Qed.

  Section LoopSpec.
    Variable rec : md_memo -> N -> list md_sel -> mdres.
    Hypothesis Hrec : forall m d sub, memo_ok m -> d < md_MAX_LISTS_DEPTH -> good d sub (rec m d sub).
    Variable d : N.
    Hypothesis Hd : d < md_MAX_LISTS_DEPTH.

    Lemma md_loop_good l : forall m maxd,
      memo_ok m -> d <= maxd -> maxd < md_MAX_LISTS_DEPTH ->
      good_loop d maxd l (md_loop rec frs d m maxd l).
    Proof.
      induction l as [|s l IH]; intros m maxd Hm Hlo Hhi.
      - cbn [md_loop good_loop]. split; [exact Hm|]. split; [mlia|]. split; [mlia|].
        intros x Hx. apply XD_nil in Hx. mlia.
      - destruct s as [n sub|sub|n]; cbn [md_loop].
        + (* field *)
          destruct (md_is_list_field n) eqn:El; cbn [andb].
          * destruct (md_MAX_LISTS_DEPTH <=? d + 1) eqn:E3.
            -- cbn [good_loop]. intros x Hx. apply XD_field in Hx as (y & b & _ & _ & ->).
               rewrite El. mlia.
            -- assert (Hd1 : d + 1 < md_MAX_LISTS_DEPTH) by mlia.
               pose proof (Hrec m (d + 1) sub Hm Hd1) as Hg.
               destruct (rec m (d + 1) sub) as [v m'| | |]; cbn [good] in Hg; cbn [good_loop]; auto.
               ++ destruct Hg as (Hm' & Hv1 & Hv2 & Hv).
                  assert (Hlo' : d <= N.max maxd v) by mlia.
                  assert (Hhi' : N.max maxd v < md_MAX_LISTS_DEPTH) by mlia.
                  pose proof (IH m' (N.max maxd v) Hm' Hlo' Hhi') as Hl.
                  destruct (md_loop rec frs d m' (N.max maxd v) l) as [v2 m2| | |];
                    cbn [good_loop] in Hl |- *; auto.
                  ** destruct Hl as (Hm2 & H1 & H2 & H3). repeat split; [exact Hm2|mlia|mlia|].
                     intros x Hx. apply XD_field in Hx as (y & b & Hy & Hb & ->). rewrite El.
                     rewrite (H3 _ Hb), (Hv _ Hy). mlia.
                  ** intros x Hx. apply XD_field in Hx as (y & b & Hy & Hb & ->).
                     specialize (Hl _ Hb). mlia.
               ++ intros x Hx. apply XD_field in Hx as (y & b & Hy & Hb & ->). rewrite El.
                  specialize (Hg _ Hy). mlia.
          * pose proof (Hrec m d sub Hm Hd) as Hg.
            destruct (rec m d sub) as [v m'| | |]; cbn [good] in Hg; cbn [good_loop]; auto.
            ++ destruct Hg as (Hm' & Hv1 & Hv2 & Hv).
               assert (Hlo' : d <= N.max maxd v) by mlia.
               assert (Hhi' : N.max maxd v < md_MAX_LISTS_DEPTH) by mlia.
               pose proof (IH m' (N.max maxd v) Hm' Hlo' Hhi') as Hl.
               destruct (md_loop rec frs d m' (N.max maxd v) l) as [v2 m2| | |];
                 cbn [good_loop] in Hl |- *; auto.
               ** destruct Hl as (Hm2 & H1 & H2 & H3). repeat split; [exact Hm2|mlia|mlia|].
                  intros x Hx. apply XD_field in Hx as (y & b & Hy & Hb & ->). rewrite El.
                  rewrite (H3 _ Hb), (Hv _ Hy). mlia.
               ** intros x Hx. apply XD_field in Hx as (y & b & Hy & Hb & ->).
                  specialize (Hl _ Hb). mlia.
            ++ intros x Hx. apply XD_field in Hx as (y & b & Hy & Hb & ->). rewrite El.
               specialize (Hg _ Hy). mlia.
        + (* inline fragment *)
          pose proof (Hrec m d sub Hm Hd) as Hg.
          destruct (rec m d sub) as [v m'| | |]; cbn [good] in Hg; cbn [good_loop]; auto.
          ++ destruct Hg as (Hm' & Hv1 & Hv2 & Hv).
             assert (Hlo' : d <= N.max maxd v) by mlia.
             assert (Hhi' : N.max maxd v < md_MAX_LISTS_DEPTH) by mlia.
             pose proof (IH m' (N.max maxd v) Hm' Hlo' Hhi') as Hl.
             destruct (md_loop rec frs d m' (N.max maxd v) l) as [v2 m2| | |];
               cbn [good_loop] in Hl |- *; auto.
             ** destruct Hl as (Hm2 & H1 & H2 & H3). repeat split; [exact Hm2|mlia|mlia|].
                intros x Hx. apply XD_inline in Hx as (y & b & Hy & Hb & ->).
                rewrite (H3 _ Hb), (Hv _ Hy). mlia.
             ** intros x Hx. apply XD_inline in Hx as (y & b & Hy & Hb & ->).
                specialize (Hl _ Hb). mlia.
          ++ intros x Hx. apply XD_inline in Hx as (y & b & Hy & Hb & ->).
             specialize (Hg _ Hy). mlia.
        + (* named spread *)
          destruct (md_assoc n frs) as [body|] eqn:En.
          * destruct (md_assoc n m) as [fd|] eqn:Em.
            -- (* md_memo hit *)
               cbv zeta. destruct (md_MAX_LISTS_DEPTH <=? d + fd) eqn:E3.
               ++ cbn [good_loop]. intros x Hx.
                  apply (XD_spread _ _ _ _ _ En) in Hx as (y & b & Hy & Hb & ->).
                  rewrite (Hm _ _ _ _ Em En Hy) in E3. mlia.
               ++ assert (Hlo' : d <= N.max maxd (d + fd)) by mlia.
                  assert (Hhi' : N.max maxd (d + fd) < md_MAX_LISTS_DEPTH) by mlia.
                  pose proof (IH m (N.max maxd (d + fd)) Hm Hlo' Hhi') as Hl.
                  destruct (md_loop rec frs d m (N.max maxd (d + fd)) l) as [v2 m2| | |];
                    cbn [good_loop] in Hl |- *; auto.
                  ** destruct Hl as (Hm2 & H1 & H2 & H3). repeat split; [exact Hm2|mlia|mlia|].
                     intros x Hx. apply (XD_spread _ _ _ _ _ En) in Hx as (y & b & Hy & Hb & ->).
                     rewrite (H3 _ Hb), (Hm _ _ _ _ Em En Hy). mlia.
                  ** intros x Hx. apply (XD_spread _ _ _ _ _ En) in Hx as (y & b & Hy & Hb & ->).
                     specialize (Hl _ Hb). mlia.
            -- (* first spread of this fragment: recurse and memoise *)
               pose proof (Hrec m d body Hm Hd) as Hg.
               destruct (rec m d body) as [v m'| | |]; cbn [good] in Hg; cbn [good_loop]; auto.
               ++ destruct Hg as (Hm' & Hv1 & Hv2 & Hv).
                  replace (v <? d) with false by mlia.
                  assert (Hmi : memo_ok ((n, v - d) :: m')) by (eapply memo_ok_insert; eauto).
                  assert (Hlo' : d <= N.max maxd v) by mlia.
                  assert (Hhi' : N.max maxd v < md_MAX_LISTS_DEPTH) by mlia.
                  pose proof (IH _ (N.max maxd v) Hmi Hlo' Hhi') as Hl.
                  destruct (md_loop rec frs d ((n, v - d) :: m') (N.max maxd v) l) as [v2 m2| | |];
                    cbn [good_loop] in Hl |- *; auto.
                  ** destruct Hl as (Hm2 & H1 & H2 & H3). repeat split; [exact Hm2|mlia|mlia|].
                     intros x Hx. apply (XD_spread _ _ _ _ _ En) in Hx as (y & b & Hy & Hb & ->).
                     rewrite (H3 _ Hb), (Hv _ Hy). mlia.
                  ** intros x Hx. apply (XD_spread _ _ _ _ _ En) in Hx as (y & b & Hy & Hb & ->).
                     specialize (Hl _ Hb). mlia.
               ++ intros x Hx. apply (XD_spread _ _ _ _ _ En) in Hx as (y & b & Hy & Hb & ->).
                  specialize (Hg _ Hy). mlia.
          * (* undefined fragment: continue *)
            pose proof (IH m maxd Hm Hlo Hhi) as Hl.
            destruct (md_loop rec frs d m maxd l) as [v2 m2| | |]; cbn [good_loop] in Hl |- *; auto.
            -- destruct Hl as (Hm2 & H1 & H2 & H3). repeat split; [exact Hm2|mlia|mlia|].
               intros x Hx. apply (XD_spread_undef _ _ _ _ En) in Hx. auto.
            -- intros x Hx. apply (XD_spread_undef _ _ _ _ En) in Hx. auto.
    Qed.
  End LoopSpec.

  Theorem check_good fuel : forall m d sels,
    memo_ok m -> d < md_MAX_LISTS_DEPTH -> good d sels (md_check_selection_set fuel frs m d sels).
  Proof.
    induction fuel as [|fuel IH]; intros m d sels Hm Hd; cbn [md_check_selection_set]; [exact I|].
    pose proof (md_loop_good (md_check_selection_set fuel frs) IH d Hd sels m d Hm (N.le_refl d) Hd) as H.
    destruct (md_loop (md_check_selection_set fuel frs) frs d m d sels) as [v m'| | |];
      cbn [good_loop good] in *; auto.
    destruct H as (H1 & H2 & H3 & H4). repeat split; auto.
    intros x Hx. rewrite (H4 _ Hx). mlia.
  Qed.

  (* the fuel that computes the expanded depth is enough for the check *)
  Lemma md_loop_fuel (rec : md_memo -> N -> list md_sel -> mdres) (xrec : list md_sel -> option N) d :
    (forall m d' sub, xrec sub <> None -> rec m d' sub <> MdOutOfFuel) ->
    forall l m maxd, md_xd_list xrec frs l <> None -> md_loop rec frs d m maxd l <> MdOutOfFuel.
  Proof.
    intros Hrec. induction l as [|s l IH]; intros m maxd Hx; cbn [md_loop]; [discriminate|].
    cbn [md_xd_list] in Hx.
    assert (Hs : md_xd_one xrec frs s <> None) by (destruct (md_xd_one xrec frs s); [discriminate|now cbn in Hx]).
    assert (Hl : md_xd_list xrec frs l <> None).
    { destruct (md_xd_one xrec frs s); [|now cbn in Hx]. destruct (md_xd_list xrec frs l); [discriminate|now cbn in Hx]. }
    destruct s as [n sub|sub|n]; cbn [md_xd_one] in Hs.
    - destruct (md_is_list_field n && (md_MAX_LISTS_DEPTH <=? (if md_is_list_field n then d + 1 else d))); [discriminate|].
      assert (Hsub : xrec sub <> None) by (destruct (xrec sub); [discriminate|exact Hs]).
      pose proof (Hrec m (if md_is_list_field n then d + 1 else d) sub Hsub) as Hr.
      destruct (rec m (if md_is_list_field n then d + 1 else d) sub); try discriminate; [now apply IH|contradiction].
    - pose proof (Hrec m d sub Hs) as Hr.
      destruct (rec m d sub); try discriminate; [now apply IH|contradiction].
    - destruct (md_assoc n frs) as [body|]; [|now apply IH].
      destruct (md_assoc n m) as [fd|].
      + cbv zeta. destruct (md_MAX_LISTS_DEPTH <=? d + fd); [discriminate|now apply IH].
      + pose proof (Hrec m d body Hs) as Hr.
        destruct (rec m d body) as [v m'| | |]; try discriminate; [|contradiction].
        destruct (v <? d); [discriminate|now apply IH].
  Qed.

  Theorem check_fuel fuel : forall m d sels,
    md_xdepth fuel frs sels <> None -> md_check_selection_set fuel frs m d sels <> MdOutOfFuel.
  Proof.
    induction fuel as [|fuel IH]; intros m d sels Hx; [now cbn in Hx|].
    cbn [md_check_selection_set]. apply (md_loop_fuel _ (md_xdepth fuel frs)); [|exact Hx].
    intros m' d' sub. apply IH.
  Qed.

  Lemma memo_ok_nil : memo_ok [].
  Proof. intros n fd body x H. discriminate. Qed.

  (* the md_verdict, whatever fuel produced it, is determined by the expanded depth *)
  Theorem check_max_depth_spec op x fuel :
    ExpandedDepth frs op x ->
    match md_check_max_depth fuel frs op with
    | MdVOk => x < md_MAX_LISTS_DEPTH
    | MdVErr => md_MAX_LISTS_DEPTH <= x
    | MdVPanic => False
    | MdVOutOfFuel => True
    end.
  Proof.
    intros Hx. unfold md_check_max_depth.
    assert (H0 : 0 < md_MAX_LISTS_DEPTH) by (unfold md_MAX_LISTS_DEPTH; mlia).
    pose proof (check_good fuel [] 0 op memo_ok_nil H0) as H.
    destruct (md_check_selection_set fuel frs [] 0 op) as [v m'| | |]; cbn [good] in H; auto.
    - destruct H as (_ & _ & Hv & Hs). rewrite (Hs _ Hx) in Hv. mlia.
    - specialize (H _ Hx). mlia.
  Qed.

  Theorem check_max_depth_total op x :
    ExpandedDepth frs op x -> exists v, Checks frs op v.
  Proof.
    intros [f Hf]. exists (md_check_max_depth f frs op). exists f. split; [reflexivity|].
    unfold md_check_max_depth.
    assert (Hn : md_xdepth f frs op <> None) by congruence.
    pose proof (check_fuel f [] 0 op Hn) as H.
    destruct (md_check_selection_set f frs [] 0 op); congruence.
  Qed.
End Check.

Theorem check_iff frs op x :
  ExpandedDepth frs op x ->
  (exists v, Checks frs op v) /\
  (forall v, Checks frs op v ->
     (v = MdVErr <-> md_MAX_LISTS_DEPTH <= x) /\ (v = MdVOk <-> x < md_MAX_LISTS_DEPTH)).
Proof.
  intros Hx. split; [eapply check_max_depth_total; eauto|].
  intros v [f [<- Hv]]. pose proof (check_max_depth_spec frs op x f Hx) as H.
  destruct (md_check_max_depth f frs op); try contradiction; unfold md_MAX_LISTS_DEPTH in *;
    (split; split; intros; try discriminate; try reflexivity; try mlia).
Qed.

(* ---------------------------------------------------------------- acyclic fragment maps have an expanded depth *)

Definition spreads_below (frs : md_fragmap) (rank : str -> nat) (k : nat) (l : list md_sel) : Prop :=
  forall m body, SpreadIn m l -> md_assoc m frs = Some body -> (rank m < k)%nat.

Lemma xd_one_fuel_mono frs f f' s a :
  (f <= f')%nat -> md_xd_one (md_xdepth f frs) frs s = Some a -> md_xd_one (md_xdepth f' frs) frs s = Some a.
Proof. intros H. apply xd_one_mono. now apply xdepth_mono. Qed.

Theorem xdepth_total frs : acyclic frs -> forall sels, exists x, ExpandedDepth frs sels x.
Proof.
  intros [rank Hrank].
  assert (H : forall k sels, spreads_below frs rank k sels -> exists f x, md_xdepth f frs sels = Some x).
  { induction k as [k IHk] using lt_wf_ind.
    set (P := fun s => spreads_below frs rank k [s] -> exists f a, md_xd_one (md_xdepth f frs) frs s = Some a).
    set (Q := fun l => spreads_below frs rank k l -> exists f x, md_xdepth f frs l = Some x).
    apply (sels_ind2 P Q); unfold P, Q; clear P Q.
    - (* field *)
      intros n sub IH Hb.
      destruct IH as (f & y & Hf).
      { intros m body Hs. apply (Hb m body). now apply SI_field. }
      exists f. cbn [md_xd_one]. rewrite Hf. eauto.
    - (* inline *)
      intros sub IH Hb.
      destruct IH as (f & y & Hf).
      { intros m body Hs. apply (Hb m body). now apply SI_inline. }
      exists f. cbn [md_xd_one]. eauto.
    - (* spread *)
      intros n Hb. cbn [md_xd_one]. destruct (md_assoc n frs) as [body|] eqn:En.
      + assert (Hn : (rank n < k)%nat) by (apply (Hb n body); [apply SI_here|exact En]).
        apply (IHk (rank n) Hn body).
        intros m body' Hs Hm. exact (Hrank n body En m body' Hs Hm).
      + exists O. eauto.
    - intros _. exists 1%nat, 0. reflexivity.
    - intros s r IHs IHr Hb.
      destruct IHs as (f1 & a & Ha).
      { intros m body Hs. apply (Hb m body). inversion Hs; subst.
        - apply SI_here.
        - now apply SI_field.
        - now apply SI_inline.
        - match goal with H : SpreadIn _ [] |- _ => inversion H end. }
      destruct IHr as (f2 & b & Hb2).
      { intros m body Hs. apply (Hb m body). now apply SI_tl. }
      destruct f2 as [|f2]; [discriminate|].
      change (md_xd_list (md_xdepth f2 frs) frs r = Some b) in Hb2.
      exists (S (max f1 f2)), (N.max a b).
      change (md_omax (md_xd_one (md_xdepth (max f1 f2) frs) frs s) (md_xd_list (md_xdepth (max f1 f2) frs) frs r)
              = Some (N.max a b)).
      rewrite (xd_one_fuel_mono frs f1 (max f1 f2) s a (Nat.le_max_l _ _) Ha).
      rewrite (xd_list_mono frs _ _ r b (xdepth_mono frs f2 (max f1 f2) (Nat.le_max_r _ _)) Hb2).
      reflexivity. }
  intros sels.
  (* a bound on the ranks of the fragments spread in sels: the maximum over the map *)
  set (K := S (fold_right (fun kv acc => max (rank (fst kv)) acc) O frs)).
  destruct (H K sels) as (f & x & Hf); [|exists x; now exists f].
  intros m body _ Hm. unfold K. clear -Hm.
  induction frs as [|[k v] frs' IH]; cbn [md_assoc] in Hm; [discriminate|].
  cbn [fold_right fst]. destruct (md_str_eqb m k) eqn:E.
  - apply md_str_eqb_eq in E as ->. lia.
  - specialize (IH Hm). lia.
Qed.

(* ---------------------------------------------------------------- the expansion *)

Lemma xp_one_mono frs r1 r2 s x :
  rec_le r1 r2 -> md_xp_one r1 frs s = Some x -> md_xp_one r2 frs s = Some x.
Proof.
  intros H. destruct s as [n sub|sub|n]; cbn [md_xp_one].
  - destruct (r1 sub) as [y|] eqn:E; [|discriminate]. now rewrite (H _ _ E).
  - apply H.
  - destruct (md_assoc n frs); [apply H|auto].
Qed.

Lemma xp_list_mono frs r1 r2 l : forall x,
  rec_le r1 r2 -> md_xp_list r1 frs l = Some x -> md_xp_list r2 frs l = Some x.
Proof.
  induction l as [|s l IH]; intros x H; cbn [md_xp_list]; [auto|].
  destruct (md_xp_one r1 frs s) as [a|] eqn:Ea; [|discriminate].
  destruct (md_xp_list r1 frs l) as [b|] eqn:Eb; [|discriminate].
  cbn [md_oapp]. intros [= <-].
  now rewrite (xp_one_mono _ _ _ _ _ H Ea), (IH _ H eq_refl).
Qed.

Lemma expand_S frs f : rec_le (md_expand f frs) (md_expand (S f) frs).
Proof.
  induction f as [|f IH]; intros l x; [discriminate|].
  intros H. change (md_xp_list (md_expand (S f) frs) frs l = Some x).
  change (md_xp_list (md_expand f frs) frs l = Some x) in H.
  eapply xp_list_mono; eauto.
Qed.

Lemma expand_mono frs f f' : (f <= f')%nat -> rec_le (md_expand f frs) (md_expand f' frs).
Proof.
  induction 1 as [|f' _ IH]; intros l x H; [exact H|].
  apply expand_S. now apply IH.
Qed.

Lemma xd_list_app rec frs a b :
  md_xd_list rec frs (a ++ b) = md_omax (md_xd_list rec frs a) (md_xd_list rec frs b).
Proof.
  induction a as [|s a IH]; cbn [app md_xd_list].
  - destruct (md_xd_list rec frs b) as [y|]; cbn [md_omax]; [now rewrite N.max_0_l|reflexivity].
  - rewrite IH. destruct (md_xd_one rec frs s), (md_xd_list rec frs a), (md_xd_list rec frs b); cbn [md_omax];
      try reflexivity. now rewrite N.max_assoc.
Qed.

(* with the same fuel: the expansion exists and has, as a fragment-free tree, the same depth *)
Lemma expand_depth frs f : forall l x,
  md_xdepth f frs l = Some x -> exists e, md_expand f frs l = Some e /\ md_xdepth f [] e = Some x.
Proof.
  induction f as [|f IH]; intros l x; [discriminate|].
  change (md_xd_list (md_xdepth f frs) frs l = Some x ->
          exists e, md_xp_list (md_expand f frs) frs l = Some e /\ md_xd_list (md_xdepth f []) [] e = Some x).
  revert x. induction l as [|s l IHl]; intros x; cbn [md_xd_list md_xp_list].
  - intros [= <-]. exists []. auto.
  - destruct (md_xd_one (md_xdepth f frs) frs s) as [a|] eqn:Ea; [|discriminate].
    destruct (md_xd_list (md_xdepth f frs) frs l) as [b|] eqn:Eb; [|discriminate].
    cbn [md_omax]. intros [= <-]. destruct (IHl _ eq_refl) as (el & Hel & Hxl). rewrite Hel.
    assert (Hs : exists es, md_xp_one (md_expand f frs) frs s = Some es /\ md_xd_list (md_xdepth f []) [] es = Some a).
    { destruct s as [n sub|sub|n]; cbn [md_xd_one md_xp_one] in *.
      - destruct (md_xdepth f frs sub) as [y|] eqn:Ey; [|discriminate]. injection Ea as <-.
        destruct (IH _ _ Ey) as (e & He & Hx). rewrite He. eexists. split; [reflexivity|].
        cbn [md_xd_list md_xd_one]. rewrite Hx. cbn [md_omax]. now rewrite N.max_0_r.
      - destruct (IH _ _ Ea) as (e & He & Hx). exists e. split; [exact He|].
        apply (xdepth_S [] f) in Hx. exact Hx.
      - destruct (md_assoc n frs) as [body|].
        + destruct (IH _ _ Ea) as (e & He & Hx). exists e. split; [exact He|].
          apply (xdepth_S [] f) in Hx. exact Hx.
        + injection Ea as <-. exists []. auto. }
    destruct Hs as (es & Hes & Hxs). rewrite Hes. cbn [md_oapp]. eexists. split; [reflexivity|].
    rewrite xd_list_app, Hxs, Hxl. reflexivity.
Qed.

Theorem expansion_depth frs l e x :
  Expansion frs l e -> ExpandedDepth frs l x -> ExpandedDepth [] e x.
Proof.
  intros [f1 H1] [f2 H2].
  pose proof (expand_mono frs f1 (max f1 f2) (Nat.le_max_l _ _) _ _ H1) as H1'.
  pose proof (xdepth_mono frs f2 (max f1 f2) (Nat.le_max_r _ _) _ _ H2) as H2'.
  destruct (expand_depth frs _ _ _ H2') as (e' & He' & Hx).
  rewrite H1' in He'. injection He' as <-. now exists (max f1 f2).
Qed.

Theorem expansion_total frs l x : ExpandedDepth frs l x -> exists e, Expansion frs l e.
Proof.
  intros [f Hf]. destruct (expand_depth frs _ _ _ Hf) as (e & He & _). exists e. now exists f.
Qed.

(* two operations (each with its own fragment definitions) that md_expand to the same field tree
   get the same md_verdict *)
Theorem fragment_independent frs1 op1 frs2 op2 e :
  acyclic frs1 -> acyclic frs2 ->
  Expansion frs1 op1 e -> Expansion frs2 op2 e ->
  forall v1 v2, Checks frs1 op1 v1 -> Checks frs2 op2 v2 -> v1 = v2.
Proof.
  intros A1 A2 E1 E2 v1 v2 C1 C2.
  destruct (xdepth_total frs1 A1 op1) as [x1 X1]. destruct (xdepth_total frs2 A2 op2) as [x2 X2].
  pose proof (expansion_depth _ _ _ _ E1 X1) as D1. pose proof (expansion_depth _ _ _ _ E2 X2) as D2.
  pose proof (ExpandedDepth_det _ _ _ _ D1 D2) as ->.
  destruct (check_iff frs1 op1 x2 X1) as [_ H1]. destruct (check_iff frs2 op2 x2 X2) as [_ H2].
  destruct (H1 _ C1) as [He1 Ho1]. destruct (H2 _ C2) as [He2 Ho2].
  destruct C1 as [f1 [_ N1]]. destruct C2 as [f2 [_ N2]].
  destruct (N.lt_ge_cases x2 md_MAX_LISTS_DEPTH) as [Hlt|Hge].
  - rewrite (proj2 Ho1 Hlt). symmetry. exact (proj2 Ho2 Hlt).
  - rewrite (proj2 He1 Hge). symmetry. exact (proj2 He2 Hge).
Qed.

Theorem check_iff_acyclic frs op : acyclic frs ->
  exists x, ExpandedDepth frs op x /\
    (exists v, Checks frs op v) /\
    (forall v, Checks frs op v ->
       (v = MdVErr <-> md_MAX_LISTS_DEPTH <= x) /\ (v = MdVOk <-> x < md_MAX_LISTS_DEPTH)).
Proof.
  intros A. destruct (xdepth_total frs A op) as [x Hx]. exists x. split; [exact Hx|].
  exact (check_iff frs op x Hx).
Qed.

Theorem depth_of_expansion frs op x : ExpandedDepth frs op x ->
  (exists e, Expansion frs op e) /\ (forall e, Expansion frs op e -> ExpandedDepth [] e x).
Proof.
  intros Hx. split; [eapply expansion_total; eauto|].
  intros e He. eapply expansion_depth; eauto.
Qed.

(* ---------------------------------------------------------------- the specification, declaratively *)

Lemma xdepth_path frs f : forall l x, md_xdepth f frs l = Some x -> NestPath frs l x.
Proof.
  induction f as [|f IH]; intros l x; [discriminate|].
  change (md_xd_list (md_xdepth f frs) frs l = Some x -> NestPath frs l x).
  revert x. induction l as [|s l IHl]; intros x; cbn [md_xd_list].
  - intros [= <-]. constructor.
  - destruct (md_xd_one (md_xdepth f frs) frs s) as [a|] eqn:Ea; [|discriminate].
    destruct (md_xd_list (md_xdepth f frs) frs l) as [b|] eqn:Eb; [|discriminate].
    cbn [md_omax]. intros [= <-].
    destruct (N.le_ge_cases a b) as [Hab|Hab].
    + rewrite N.max_r by exact Hab. apply NP_skip. now apply IHl.
    + rewrite N.max_l by exact Hab.
      destruct s as [n sub|sub|n]; cbn [md_xd_one] in Ea.
      * destruct (md_xdepth f frs sub) as [y|] eqn:Ey; [|discriminate]. injection Ea as <-.
        apply NP_field. now apply IH.
      * apply NP_inline. now apply IH.
      * destruct (md_assoc n frs) as [body|] eqn:En.
        -- eapply NP_spread; eauto.
        -- injection Ea as <-. constructor.
Qed.

Lemma path_le frs l k : NestPath frs l k -> forall x, ExpandedDepth frs l x -> k <= x.
Proof.
  induction 1 as [l|n sub r k _ IH|sub r k _ IH|n body r k En _ IH|s r k _ IH]; intros x Hx.
  - lia.
  - apply XD_field in Hx as (y & b & Hy & _ & ->). specialize (IH _ Hy).
    destruct (md_is_list_field n); lia.
  - apply XD_inline in Hx as (y & b & Hy & _ & ->). specialize (IH _ Hy). lia.
  - apply (XD_spread _ _ _ _ _ En) in Hx as (y & b & Hy & _ & ->). specialize (IH _ Hy). lia.
  - apply XD_cons in Hx as (f & a & b & _ & Hb & ->). specialize (IH _ Hb). lia.
Qed.

Theorem xdepth_is_max_path frs l x :
  ExpandedDepth frs l x -> NestPath frs l x /\ forall k, NestPath frs l k -> k <= x.
Proof.
  intros Hx. split.
  - destruct Hx as [f Hf]. eapply xdepth_path; eauto.
  - intros k Hk. eapply path_le; eauto.
Qed.
