(* Proofs: the reference's response conforms (Intro/Conform.v) for every well-formed schema and every query that
   is valid against the introspection schema. *)
From ApolloVerif Require Import Base.Chars Ast.Ast Schema.Model Intro.IrNames Intro.Reference Intro.Conform.

Lemma find_type_in n ts t : sch_find_type n ts = Some t -> In t ts.
Proof.
  induction ts as [|x r IH]; cbn [sch_find_type]; [discriminate|].
  destruct (streq n (et_name x)); [intros [= <-]; now left|intros H; right; auto].
Qed.

Lemma get_type_in s n t : sch_get_type s n = Some t -> In t (sch_types s).
Proof. apply find_type_in. Qed.

Lemma mapM_resolves s names :
  forallb (ir_resolves s) names = true ->
  exists l, ir_mapM (sch_get_type s) names = Some l /\ Forall (fun t => In t (sch_types s)) l.
Proof.
  induction names as [|n r IH]; cbn [forallb ir_mapM].
  - intros _. exists []. auto.
  - rewrite andb_true_iff. intros [H1 H2]. destruct (IH H2) as [l [Hl Hf]].
    unfold ir_resolves in H1. destruct (sch_get_type s n) as [t|] eqn:E; [|discriminate].
    rewrite Hl. exists (t :: l). split; [reflexivity|]. constructor; [now apply get_type_in in E|exact Hf].
Qed.

(* ------------------------------------------------------------------------------------------ nodes *)
Definition ir_not_bad (r : ir_res) : bool := match r with IrrBad _ => false | _ => true end.

Definition ir_node_ok (s : schema) (root : str) (n : ir_node) : Prop :=
  match n with
  | IrnRoot r => r = root
  | IrnSchema => True
  | IrnType t => In t (sch_types s)
  | IrnWrap ty =>
      match ty with TNamed _ => False | _ => True end /\ ir_resolves s (inner_named_type ty) = true
  | IrnField fd => ir_fd_wf s fd = true
  | IrnInput i => ir_iv_wf s i = true
  | IrnEnumVal e => ir_not_bad (ir_dep_reason (ev_dirs e)) = true
  | IrnDirective d => forallb (ir_iv_wf s) (dd_args d) = true
  end.

Definition ir_res_fits (s : schema) (root : str) (sh : ir_shape) (r : ir_res) : Prop :=
  match sh with
  | IshSkip => r = IrrSkip
  | IshNull => r = IrrNull
  | IshStr nullable =>
      (exists x, r = IrrLeaf (IrStr x)) \/ (nullable = true /\ (r = IrrNull \/ r = IrrLeaf IrNull))
  | IshBool => exists b, r = IrrLeaf (IrBool b)
  | IshConst x => r = IrrLeaf (IrStr x)
  | IshName => exists x, r = IrrLeaf (IrStr x) /\ In x (ir_declared s)
  | IshLocs => exists l, r = IrrLeaf (IrArr false (map (fun d => IrStr (ir_loc_name d)) l))
  | IshObj nullable cs =>
      (nullable = true /\ r = IrrNull)
      \/ exists n, r = IrrNode n /\ ir_node_ok s root n /\ In (ir_class_of n) cs
  | IshList free cs =>
      (exists l, r = IrrTypes free l
                 /\ Forall (fun t => ir_node_ok s root (IrnType t) /\ In (ir_class_of (IrnType t)) cs) l)
      \/ (free = false /\ exists l, r = IrrFields l
                 /\ Forall (fun t => ir_node_ok s root (IrnField t) /\ In IcField cs) l)
      \/ (free = false /\ exists l, r = IrrInputs l
                 /\ Forall (fun t => ir_node_ok s root (IrnInput t) /\ In IcInput cs) l)
      \/ (free = false /\ exists l, r = IrrEnumVals l
                 /\ Forall (fun t => ir_node_ok s root (IrnEnumVal t) /\ In IcEnumVal cs) l)
      \/ (free = true /\ exists l, r = IrrDirectives l
                 /\ Forall (fun t => ir_node_ok s root (IrnDirective t) /\ In IcDirective cs) l)
  end.

Lemma named_class_in t : In (IcType (ir_kind8 t)) ir_named_classes.
Proof. destruct t; cbn; auto 10. Qed.
Lemma named_class_in_inner t : In (IcType (ir_kind8 t)) ir_inner_classes.
Proof. destruct t; cbn; auto 10. Qed.
Lemma named_class_in_any t : In (IcType (ir_kind8 t)) ir_any_type_classes.
Proof. destruct t; cbn; auto 10. Qed.

Lemma wf_type s t : ir_wf s = true -> In t (sch_types s) -> ir_type_wf s t = true.
Proof.
  unfold ir_wf. rewrite !andb_true_iff. intros [[[[H _] _] _] _] Hin.
  rewrite forallb_forall in H. auto.
Qed.
Lemma wf_dirdef s d : ir_wf s = true -> In d (sch_dirdefs s) -> forallb (ir_iv_wf s) (dd_args d) = true.
Proof.
  unfold ir_wf. rewrite !andb_true_iff. intros [[[[_ H] _] _] _] Hin.
  rewrite forallb_forall in H. auto.
Qed.

(* a reference to a named type that resolves *)
Lemma named_fits s root n nullable cs :
  ir_resolves s n = true -> (forall t, In (IcType (ir_kind8 t)) cs) ->
  ir_res_fits s root (IshObj nullable cs) (ir_named s n).
Proof.
  unfold ir_resolves, ir_named. destruct (sch_get_type s n) as [t|] eqn:E; [|discriminate].
  intros _ Hcs. right. exists (IrnType t). split; [reflexivity|]. split; [|apply Hcs].
  cbn. now apply get_type_in in E.
Qed.

Lemma type_ref_fits s root ty nullable :
  ir_resolves s (inner_named_type ty) = true ->
  ir_res_fits s root (IshObj nullable ir_any_type_classes) (ir_type_ref s ty).
Proof.
  intros H. destruct ty as [n|n|i|i]; cbn [ir_type_ref].
  - apply named_fits; [exact H|apply named_class_in_any].
  - right. exists (IrnWrap (TNonNullNamed n)). cbn. auto 12.
  - right. exists (IrnWrap (TList i)). cbn. auto 12.
  - right. exists (IrnWrap (TNonNullList i)). cbn. auto 12.
Qed.

Lemma dep_reason_fits s root ds :
  ir_not_bad (ir_dep_reason ds) = true -> ir_res_fits s root (IshStr true) (ir_dep_reason ds).
Proof.
  unfold ir_dep_reason. destruct (ir_find_dir irk_deprecated ds) as [d|]; [|cbn; auto].
  destruct (ir_find_arg irk_reason (d_args d)) as [[]|]; cbn; intros H; try discriminate H; eauto.
Qed.

Lemma filter_Forall {A} (P : A -> Prop) f (l : list A) : Forall P l -> Forall P (filter f l).
Proof.
  induction 1; cbn [filter]; [constructor|]. destruct (f x); [constructor|]; auto.
Qed.

Lemma forallb_Forall {A} (f : A -> bool) l : forallb f l = true -> Forall (fun x => f x = true) l.
Proof. rewrite forallb_forall, Forall_forall. auto. Qed.

Lemma named_list_fits s root names :
  forallb (ir_resolves s) names = true ->
  ir_res_fits s root (IshList false ir_named_classes) (ir_named_list s names).
Proof.
  intros H. destruct (mapM_resolves s names H) as [l [Hl Hf]]. unfold ir_named_list. rewrite Hl.
  left. exists l. split; [reflexivity|]. eapply Forall_impl; [|exact Hf].
  intros t Ht. split; [exact Ht|apply named_class_in].
Qed.

Lemma class_typename_ok s root n :
  ir_node_ok s root n -> ir_class_typename root (ir_class_of n) = ir_typename n.
Proof. destruct n as [r| |t|ty|f|i|e|d]; cbn; try reflexivity; [now intros ->|destruct ty; reflexivity]. Qed.

Lemma with_incl_ok args k : ir_args_ok IrfFields args = true ->
  exists b, ir_with_incl args k = k b.
Proof.
  unfold ir_args_ok, ir_with_incl. destruct (ir_incl_dep args) as [b|]; [|discriminate]. eauto.
Qed.

Section Fits.
Variables (s : schema) (root : str).
Hypothesis Hwf : ir_wf s = true.
Hypothesis Hroot : ir_root_ok s root = true.

Lemma root_query : exists c, sd_query (sch_def s) = Some c /\ c_val c = root /\ ir_resolves s root = true.
Proof.
  unfold ir_root_ok in Hroot. destruct (sd_query (sch_def s)) as [c|] eqn:E; [|discriminate].
  apply streq_eq in Hroot. exists c. repeat split; auto.
  unfold ir_wf in Hwf. rewrite !andb_true_iff in Hwf. destruct Hwf as [[[_ H] _] _].
  rewrite E in H. now rewrite <- Hroot.
Qed.

Lemma fits_root r fl args sh :
  ir_node_ok s root (IrnRoot r) -> ir_shape_fld root IcRoot fl = Some sh -> ir_args_ok fl args = true ->
  ir_res_fits s root sh (ir_resolve_fld s (IrnRoot r) fl args).
Proof.
  cbn [ir_node_ok]. intros -> Hsh Ha.
  destruct fl; cbn in Hsh; try discriminate Hsh; injection Hsh as <-; cbn [ir_resolve_fld ir_res_fits].
  - reflexivity.
  - rewrite Hroot. right. exists IrnSchema. cbn. auto.
  - rewrite Hroot. cbn in Ha. destruct (ir_find_arg irk_name args) as [[]|]; try discriminate Ha.
    destruct (sch_get_type s s0) as [t|] eqn:E; [|left; auto].
    right. exists (IrnType t). split; [reflexivity|]. split; [cbn; now apply get_type_in in E|].
    apply named_class_in.
Qed.

Lemma root_wf_opt o : ir_root_wf s o = true ->
  ir_res_fits s root (IshObj true ir_named_classes)
    (match o with Some c => ir_named s (c_val c) | None => IrrNull end).
Proof.
  destruct o as [c|]; cbn [ir_root_wf]; intros H; [|left; auto].
  apply named_fits; [exact H|apply named_class_in].
Qed.

Lemma fits_schema fl args sh :
  ir_shape_fld root IcSchema fl = Some sh ->
  ir_res_fits s root sh (ir_resolve_fld s IrnSchema fl args).
Proof.
  intros Hsh. pose proof Hwf as Hwf'. unfold ir_wf in Hwf'. rewrite !andb_true_iff in Hwf'.
  destruct Hwf' as [[[[Ht Hd] Hq] Hm] Hs].
  destruct fl; cbn in Hsh; try discriminate Hsh; injection Hsh as <-; cbn [ir_resolve_fld].
  - reflexivity.
  - cbn. destruct (sd_desc (sch_def s)); cbn; eauto.
  - left. exists (sch_types s). split; [reflexivity|]. apply Forall_forall. intros t Hin.
    split; [exact Hin|apply named_class_in].
  - destruct (sd_query (sch_def s)) as [c|]; [|discriminate Hq].
    apply named_fits; [exact Hq|apply named_class_in].
  - now apply root_wf_opt.
  - now apply root_wf_opt.
  - right. right. right. right. split; [reflexivity|]. exists (sch_dirdefs s). split; [reflexivity|].
    apply Forall_forall. intros d Hin. split; [|cbn; auto]. cbn. now apply wf_dirdef.
Qed.

Lemma fits_wrap ty fl args sh :
  ir_node_ok s root (IrnWrap ty) -> ir_shape_fld root (ir_class_of (IrnWrap ty)) fl = Some sh ->
  ir_res_fits s root sh (ir_resolve_fld s (IrnWrap ty) fl args).
Proof.
  cbn [ir_node_ok]. intros [Hn Hr] Hsh.
  destruct ty as [n|n|i|i]; [elim Hn| | |]; cbn [ir_class_of] in Hsh;
    destruct fl; cbn in Hsh; try discriminate Hsh; injection Hsh as <-;
    cbn [ir_resolve_fld ir_resolve_wrap ir_res_fits ir_typename]; try reflexivity.
  - (* NonNullNamed ofType *) apply named_fits; [exact Hr|apply named_class_in_inner].
  - (* List ofType *) now apply type_ref_fits.
  - (* NonNullList ofType *) right. exists (IrnWrap (TList i)). cbn. auto 12.
Qed.

Lemma fits_field fd fl args sh :
  ir_node_ok s root (IrnField fd) -> ir_shape_fld root IcField fl = Some sh -> ir_args_ok fl args = true ->
  ir_res_fits s root sh (ir_resolve_fld s (IrnField fd) fl args).
Proof.
  cbn [ir_node_ok]. unfold ir_fd_wf. rewrite !andb_true_iff. intros [[Hr Ha] Hd] Hsh Hargs.
  destruct fl; cbn in Hsh; try discriminate Hsh; injection Hsh as <-; cbn [ir_resolve_fld ir_typename].
  - reflexivity.
  - cbn. destruct (fd_desc fd); cbn; eauto.
  - cbn; eauto.
  - destruct (with_incl_ok args (fun b => IrrInputs (filter (fun x => ir_keep b (iv_dirs x)) (fd_args fd))))
      as [b ->]; [exact Hargs|].
    right. right. left. split; [reflexivity|]. eexists. split; [reflexivity|].
    apply filter_Forall. apply forallb_Forall in Ha. eapply Forall_impl; [|exact Ha].
    intros i Hi. split; [exact Hi|cbn; auto].
  - now apply type_ref_fits.
  - cbn; eauto.
  - now apply dep_reason_fits.
Qed.

Lemma fits_input i fl args sh :
  ir_node_ok s root (IrnInput i) -> ir_shape_fld root IcInput fl = Some sh ->
  ir_res_fits s root sh (ir_resolve_fld s (IrnInput i) fl args).
Proof.
  cbn [ir_node_ok]. unfold ir_iv_wf. rewrite !andb_true_iff. intros [[Hr Hd] Hdep] Hsh.
  destruct fl; cbn in Hsh; try discriminate Hsh; injection Hsh as <-;
    cbn [ir_resolve_fld ir_resolve_input ir_typename].
  - reflexivity.
  - cbn. destruct (iv_desc i); cbn; eauto.
  - cbn; eauto.
  - now apply type_ref_fits.
  - cbn; eauto.
  - now apply dep_reason_fits.
  - destruct (ir_default_string s i) as [[x|]|]; [| |discriminate Hd]; cbn; eauto.
Qed.

Lemma fits_enumval e fl args sh :
  ir_node_ok s root (IrnEnumVal e) -> ir_shape_fld root IcEnumVal fl = Some sh ->
  ir_res_fits s root sh (ir_resolve_fld s (IrnEnumVal e) fl args).
Proof.
  cbn [ir_node_ok]. intros Hd Hsh.
  destruct fl; cbn in Hsh; try discriminate Hsh; injection Hsh as <-; cbn [ir_resolve_fld ir_typename].
  - reflexivity.
  - cbn. destruct (ev_desc e); cbn; eauto.
  - cbn; eauto.
  - cbn; eauto.
  - now apply dep_reason_fits.
Qed.

Lemma fits_directive d fl args sh :
  ir_node_ok s root (IrnDirective d) -> ir_shape_fld root IcDirective fl = Some sh ->
  ir_args_ok fl args = true ->
  ir_res_fits s root sh (ir_resolve_fld s (IrnDirective d) fl args).
Proof.
  cbn [ir_node_ok]. intros Ha Hsh Hargs.
  destruct fl; cbn in Hsh; try discriminate Hsh; injection Hsh as <-; cbn [ir_resolve_fld ir_typename].
  - reflexivity.
  - cbn. destruct (dd_desc d); cbn; eauto.
  - cbn; eauto.
  - destruct (with_incl_ok args (fun b => IrrInputs (filter (fun x => ir_keep b (iv_dirs x)) (dd_args d))))
      as [b ->]; [exact Hargs|].
    right. right. left. split; [reflexivity|]. eexists. split; [reflexivity|].
    apply filter_Forall. apply forallb_Forall in Ha. eapply Forall_impl; [|exact Ha].
    intros i Hi. split; [exact Hi|cbn; auto].
  - cbn. eauto.
  - cbn; eauto.
Qed.
End Fits.

Section FitsType.
Variables (s : schema) (root : str).
Hypothesis Hwf : ir_wf s = true.

Lemma cvals_forallb {A} (f : A -> bool) (l : list (comp A)) :
  forallb (fun c => f (c_val c)) l = true -> forallb f (ir_cvals l) = true.
Proof. unfold ir_cvals. rewrite !forallb_forall. intros H x Hx. apply in_map_iff in Hx as [c [<- Hc]]. auto. Qed.

Lemma fields_fits fs args :
  forallb (fun c => ir_fd_wf s (c_val c)) fs = true -> ir_args_ok IrfFields args = true ->
  ir_res_fits s root (IshList false [IcField])
    (ir_with_incl args (fun b => IrrFields (filter (fun x => ir_keep b (fd_dirs x)) (ir_cvals fs)))).
Proof.
  intros Hf Ha.
  destruct (with_incl_ok args (fun b => IrrFields (filter (fun x => ir_keep b (fd_dirs x)) (ir_cvals fs))))
    as [b ->]; [exact Ha|].
  right. left. split; [reflexivity|]. eexists. split; [reflexivity|].
  apply filter_Forall. apply cvals_forallb in Hf. apply forallb_Forall in Hf.
  eapply Forall_impl; [|exact Hf]. intros x Hx. split; [exact Hx|cbn; auto].
Qed.

Lemma implementers_fits n :
  ir_res_fits s root (IshList true ir_named_classes) (IrrTypes true (ir_implementers s n)).
Proof.
  left. eexists. split; [reflexivity|]. unfold ir_implementers. apply Forall_forall.
  intros t Ht. apply filter_In in Ht as [Ht _]. split; [exact Ht|apply named_class_in].
Qed.

Lemma fits_type t fl args sh :
  ir_node_ok s root (IrnType t) -> ir_shape_fld root (IcType (ir_kind8 t)) fl = Some sh ->
  ir_args_ok fl args = true ->
  ir_res_fits s root sh (ir_resolve_fld s (IrnType t) fl args).
Proof.
  cbn [ir_node_ok]. intros Hin Hsh Hargs. pose proof (wf_type s t Hwf Hin) as Ht.
  destruct fl; try (cbn in Hsh; discriminate Hsh).
  - (* __typename *) cbn in Hsh. injection Hsh as <-. reflexivity.
  - (* description *)
    destruct t; cbn in Hsh; injection Hsh as <-; cbn; match goal with |- context [ir_opt_str ?d] => destruct d end;
      cbn; eauto.
  - (* kind *) destruct t; cbn in Hsh; injection Hsh as <-; reflexivity.
  - (* name *)
    destruct t; cbn in Hsh; injection Hsh as <-; cbn [ir_resolve_fld ir_resolve_type ir_res_fits];
      eexists; (split; [reflexivity|]); unfold ir_declared;
      match goal with |- In ?n _ => change n with (et_name ltac:(match type of Hin with In ?x _ => exact x end)) end;
      now apply in_map.
  - (* fields *)
    destruct t; cbn in Hsh; injection Hsh as <-; cbn [ir_resolve_fld ir_resolve_type]; try reflexivity;
      cbn [ir_type_wf] in Ht; rewrite andb_true_iff in Ht; destruct Ht as [_ Hf]; now apply fields_fits.
  - (* interfaces *)
    destruct t; cbn in Hsh; injection Hsh as <-; cbn [ir_resolve_fld ir_resolve_type]; try reflexivity;
      cbn [ir_type_wf] in Ht; rewrite andb_true_iff in Ht; destruct Ht as [Hi _];
      apply named_list_fits; now apply cvals_forallb.
  - (* possibleTypes *)
    destruct t; cbn in Hsh; injection Hsh as <-; cbn [ir_resolve_fld ir_resolve_type]; try reflexivity.
    + apply implementers_fits.
    + cbn [ir_type_wf] in Ht. apply named_list_fits. now apply cvals_forallb.
  - (* enumValues *)
    destruct t; cbn in Hsh; injection Hsh as <-; cbn [ir_resolve_fld ir_resolve_type]; try reflexivity.
    cbn [ir_type_wf] in Ht.
    destruct (with_incl_ok args (fun b => IrrEnumVals (filter (fun x => ir_keep b (ev_dirs x)) (ir_cvals values))))
      as [b ->]; [exact Hargs|].
    right. right. right. left. split; [reflexivity|]. eexists. split; [reflexivity|].
    apply filter_Forall.
    apply (cvals_forallb (fun e => ir_not_bad (ir_dep_reason (ev_dirs e)))) in Ht.
    apply forallb_Forall in Ht. eapply Forall_impl; [|exact Ht]. intros x Hx. split; [exact Hx|cbn; auto].
  - (* inputFields *)
    destruct t; cbn in Hsh; injection Hsh as <-; cbn [ir_resolve_fld ir_resolve_type]; try reflexivity.
    cbn [ir_type_wf] in Ht.
    destruct (with_incl_ok args (fun b => IrrInputs (filter (fun x => ir_keep b (iv_dirs x)) (ir_cvals fields))))
      as [b ->]; [exact Hargs|].
    right. right. left. split; [reflexivity|]. eexists. split; [reflexivity|].
    apply filter_Forall. apply cvals_forallb in Ht. apply forallb_Forall in Ht.
    eapply Forall_impl; [|exact Ht]. intros x Hx. split; [exact Hx|cbn; auto].
  - (* ofType *) destruct t; cbn in Hsh; injection Hsh as <-; reflexivity.
  - (* specifiedByURL *)
    destruct t; cbn in Hsh; injection Hsh as <-; cbn [ir_resolve_fld ir_resolve_type]; try reflexivity.
    cbn [ir_type_wf ir_resolve_type] in Ht.
    destruct (ir_find_dir irk_specifiedBy (ir_cvals dirs)) as [d|]; [|cbn; auto].
    destruct (ir_find_arg irk_url (d_args d)) as [[]|]; try discriminate Ht; cbn; eauto.
Qed.
End FitsType.

Lemma resolve_fits s root n fl args sh :
  ir_wf s = true -> ir_root_ok s root = true -> ir_node_ok s root n ->
  ir_shape_fld root (ir_class_of n) fl = Some sh -> ir_args_ok fl args = true ->
  ir_res_fits s root sh (ir_resolve_fld s n fl args).
Proof.
  intros Hwf Hroot Hn Hsh Ha. destruct n as [r| |t|ty|fd|i|e|d].
  - now apply fits_root.
  - now apply fits_schema.
  - now apply fits_type.
  - now apply fits_wrap.
  - now apply fits_field.
  - now apply fits_input.
  - now apply fits_enumval.
  - now apply fits_directive.
Qed.

(* the three tables agree *)
Lemma fld_in_shape root n fl :
  ir_fld_in n fl = match ir_shape_fld root (ir_class_of n) fl with Some _ => true | None => false end.
Proof.
  destruct n as [r| |t|ty|fd|i|e|d]; [| |destruct t|destruct ty| | | |]; destruct fl; reflexivity.
Qed.

Definition ir_shape_tt (sh : ir_shape) (r : option ir_tt) : Prop :=
  match sh with
  | IshSkip => False
  | IshObj _ cs | IshList _ cs => exists t, r = Some t /\ Forall (fun c => ir_class_tt c = t) cs
  | _ => True
  end.

Lemma fld_result_shape root c fl :
  match ir_fld_result (ir_class_tt c) fl with
  | None => ir_shape_fld root c fl = None
  | Some r => exists sh, ir_shape_fld root c fl = Some sh /\ ir_shape_tt sh r
  end.
Proof.
  destruct c as [| |k| | | |]; [| |destruct k| | | |]; destruct fl; cbn; try reflexivity;
    (eexists; split; [reflexivity|]); cbn; auto; eexists; (split; [reflexivity|]); repeat constructor.
Qed.

Lemma all_locs_complete d : In d ir_all_locs.
Proof. destruct d; cbn; auto 25. Qed.

Definition ir_render (exec : ir_node -> list selection -> IrJson) (key : str) (sub : list selection)
  (r : ir_res) : list (str * IrJson) :=
  match r with
  | IrrSkip => []
  | IrrNull => [(key, IrNull)]
  | IrrLeaf j => [(key, j)]
  | IrrBad c => [(key, IrErr c)]
  | IrrNode n => [(key, exec n sub)]
  | IrrTypes free l => [(key, IrArr free (map (fun x => exec (IrnType x) sub) l))]
  | IrrFields l => [(key, IrArr false (map (fun x => exec (IrnField x) sub) l))]
  | IrrInputs l => [(key, IrArr false (map (fun x => exec (IrnInput x) sub) l))]
  | IrrEnumVals l => [(key, IrArr false (map (fun x => exec (IrnEnumVal x) sub) l))]
  | IrrDirectives l => [(key, IrArr true (map (fun x => exec (IrnDirective x) sub) l))]
  end.

Lemma run_group_render exec s node g :
  ir_run_group exec s node g
  = ir_render exec (irg_key g) (irg_sub g) (ir_resolve s node (irg_name g) (irg_args g)).
Proof. reflexivity. Qed.

Lemma list_conf {A} (mk : A -> ir_node) (exec : ir_node -> list selection -> IrJson)
  (rec : ir_class -> list selection -> IrJson -> bool) s root (sub : list selection) cs tto (l : list A) :
  Forall (fun t => ir_node_ok s root (mk t) /\ In (ir_class_of (mk t)) cs) l ->
  (exists t, tto = Some t /\ Forall (fun c => ir_class_tt c = t) cs) ->
  (forall n', ir_node_ok s root n' ->
              (exists t, tto = Some t /\ ir_class_tt (ir_class_of n') = t) ->
              rec (ir_class_of n') sub (exec n' sub) = true) ->
  forallb (fun x => existsb (fun c => rec c sub x) cs) (map (fun x => exec (mk x) sub) l) = true.
Proof.
  intros Hl [t [-> Hcs]] Hrec. apply forallb_forall. intros x Hx.
  apply in_map_iff in Hx as [a [<- Ha]]. rewrite Forall_forall in Hl. destruct (Hl a Ha) as [Hok Hin].
  apply existsb_exists. exists (ir_class_of (mk a)). split; [exact Hin|].
  apply Hrec; [exact Hok|]. exists t. split; [reflexivity|]. rewrite Forall_forall in Hcs. auto.
Qed.

Lemma render_fits (exec : ir_node -> list selection -> IrJson)
  (rec : ir_class -> list selection -> IrJson -> bool) s root sh r key (sub : list selection) tto :
  ir_res_fits s root sh r -> ir_shape_tt sh tto ->
  (forall n', ir_node_ok s root n' ->
              (exists t, tto = Some t /\ ir_class_tt (ir_class_of n') = t) ->
              rec (ir_class_of n') sub (exec n' sub) = true) ->
  exists v, ir_render exec key sub r = [(key, v)] /\ ir_shape_ok (ir_declared s) rec sh sub v = true.
Proof.
  intros Hfit Htt Hrec. destruct sh; cbn [ir_res_fits ir_shape_tt] in *.
  - elim Htt.
  - subst r. eexists. split; reflexivity.
  - destruct Hfit as [[x ->]|[-> [->| ->]]]; eexists; (split; [reflexivity|]); reflexivity.
  - destruct Hfit as [b ->]. eexists. split; reflexivity.
  - subst r. eexists. split; [reflexivity|]. cbn [ir_shape_ok]. apply streq_refl.
  - destruct Hfit as [x [-> Hin]]. eexists. split; [reflexivity|]. cbn [ir_shape_ok].
    apply existsb_exists. exists x. split; [exact Hin|apply streq_refl].
  - destruct Hfit as [l ->]. eexists. split; [reflexivity|]. cbn [ir_shape_ok]. apply forallb_forall.
    intros x Hx. apply in_map_iff in Hx as [d [<- _]]. apply existsb_exists. exists d.
    split; [apply all_locs_complete|apply streq_refl].
  - destruct Hfit as [[-> ->]|[n [-> [Hok Hin]]]].
    + eexists. split; reflexivity.
    + eexists. split; [reflexivity|]. cbn [ir_shape_ok]. apply orb_true_iff. right.
      apply existsb_exists. exists (ir_class_of n). split; [exact Hin|].
      destruct Htt as [t [-> Hcs]]. apply Hrec; [exact Hok|]. exists t. split; [reflexivity|].
      rewrite Forall_forall in Hcs. auto.
  - destruct Hfit as [[l [-> Hl]]|[[-> [l [-> Hl]]]|[[-> [l [-> Hl]]]|[[-> [l [-> Hl]]]|[-> [l [-> Hl]]]]]]];
      eexists; (split; [reflexivity|]); cbn [ir_shape_ok]; apply andb_true_iff; (split; [try reflexivity; match goal with |- ir_bool_same ?a _ = true => destruct a; reflexivity end|]).
    + now apply (list_conf IrnType exec rec s root sub cs tto l).
    + now apply (list_conf IrnField exec rec s root sub cs tto l).
    + now apply (list_conf IrnInput exec rec s root sub cs tto l).
    + now apply (list_conf IrnEnumVal exec rec s root sub cs tto l).
    + now apply (list_conf IrnDirective exec rec s root sub cs tto l).
Qed.

Lemma class_root_node n : ir_class_of n = IcRoot -> exists r, n = IrnRoot r.
Proof. destruct n as [r| |t|ty|fd|i|e|d]; cbn; try discriminate; [eauto|destruct ty; discriminate]. Qed.

Lemma tt_typename_class root c : ir_tt_typename root (ir_class_tt c) = ir_class_typename root c.
Proof. destruct c; reflexivity. Qed.

Lemma tt_root_class c : ir_tt_is_root (ir_class_tt c) = ir_is_root c.
Proof. destruct c; reflexivity. Qed.

Section Main.
Variables (s : schema) (root : str) (cf : nat) (doc : document).
Hypothesis Hwf : ir_wf s = true.
Hypothesis Hroot : ir_root_ok s root = true.

Lemma groups_conf f n :
  ir_node_ok s root n ->
  (forall n' sels, ir_node_ok s root n' ->
     ir_query_ok f cf s doc root (ir_class_tt (ir_class_of n')) sels = true ->
     ir_conf f cf s doc (ir_declared s) root (ir_class_of n') sels (ir_exec f cf s doc n' sels) = true) ->
  forall gs,
  forallb (fun g =>
     match ir_fld_of (irg_name g) with
     | None => ir_tt_is_root (ir_class_tt (ir_class_of n))
     | Some fl =>
         match ir_fld_result (ir_class_tt (ir_class_of n)) fl with
         | None => ir_tt_is_root (ir_class_tt (ir_class_of n))
         | Some None => ir_args_ok fl (irg_args g)
         | Some (Some t') => ir_args_ok fl (irg_args g) && ir_query_ok f cf s doc root t' (irg_sub g)
         end
     end) gs = true ->
  ir_conf_groups (ir_declared s) root (ir_conf f cf s doc (ir_declared s) root) (ir_class_of n) gs
    (flat_map (ir_run_group (ir_exec f cf s doc) s n) gs) = true.
Proof.
  intros Hn IH. induction gs as [|g gs IHgs]; [reflexivity|].
  cbn [forallb flat_map ir_conf_groups]. rewrite andb_true_iff. intros [Hg Hgs].
  specialize (IHgs Hgs). rewrite run_group_render. unfold ir_shape_of, ir_resolve.
  rewrite tt_root_class in Hg.
  assert (Hskip : ir_is_root (ir_class_of n) = true ->
                  match n with IrnRoot _ => IrrSkip | _ => IrrBad 2 end = IrrSkip).
  { intros H. destruct (ir_class_of n) eqn:E; try discriminate H.
    destruct (class_root_node n E) as [r ->]. reflexivity. }
  destruct (ir_fld_of (irg_name g)) as [fl|].
  2:{ rewrite Hg, (Hskip Hg). exact IHgs. }
  pose proof (fld_result_shape root (ir_class_of n) fl) as Hsh.
  rewrite (fld_in_shape root n fl).
  destruct (ir_fld_result (ir_class_tt (ir_class_of n)) fl) as [tto|].
  2:{ rewrite Hsh, Hg, (Hskip Hg). exact IHgs. }
  destruct Hsh as [sh [Hsh Htt]]. rewrite Hsh.
  assert (Ha : ir_args_ok fl (irg_args g) = true).
  { destruct tto; [apply andb_true_iff in Hg; tauto|exact Hg]. }
  pose proof (resolve_fits s root n fl (irg_args g) sh Hwf Hroot Hn Hsh Ha) as Hfit.
  destruct (render_fits (ir_exec f cf s doc) (ir_conf f cf s doc (ir_declared s) root) s root sh
              (ir_resolve_fld s n fl (irg_args g)) (irg_key g) (irg_sub g) tto Hfit Htt) as [v [Hv Hok]].
  { intros n' Hn' [t [-> Ht]]. apply IH; [exact Hn'|]. rewrite Ht.
    apply andb_true_iff in Hg. tauto. }
  rewrite Hv. cbn [app].
  destruct sh; try (elim Htt); rewrite streq_refl, Hok, IHgs; reflexivity.
Qed.

Theorem conf_exec : forall f n sels,
  ir_node_ok s root n ->
  ir_query_ok f cf s doc root (ir_class_tt (ir_class_of n)) sels = true ->
  ir_conf f cf s doc (ir_declared s) root (ir_class_of n) sels (ir_exec f cf s doc n sels) = true.
Proof.
  induction f as [|f IH]; intros n sels Hn Hq; [discriminate Hq|].
  cbn [ir_query_ok ir_conf ir_exec] in *. unfold ir_groups.
  rewrite tt_typename_class in Hq. rewrite (class_typename_ok s root n Hn) in *.
  apply andb_true_iff in Hq as [Hb Hg]. rewrite Hb. cbn [andb].
  now apply groups_conf.
Qed.
End Main.

(* ------------------------------------------------------------------------------------------ whole responses *)
Lemma wf_query s : ir_wf s = true ->
  exists c, sd_query (sch_def s) = Some c /\ ir_root_ok s (c_val c) = true.
Proof.
  unfold ir_wf, ir_root_ok. rewrite !andb_true_iff. intros [[[_ H] _] _].
  destruct (sd_query (sch_def s)) as [c|]; [|discriminate]. exists c. split; [reflexivity|apply streq_refl].
Qed.

Theorem conforms_any_query s doc :
  ir_wf s = true -> ir_doc_ok s doc = true -> ir_conforms s doc (ir_introspect_doc s doc) = true.
Proof.
  intros Hwf Hok. destruct (wf_query s Hwf) as [c [Hc Hroot]].
  unfold ir_conforms, ir_introspect_doc, ir_doc_ok in *. rewrite Hc in *.
  destruct (ir_find_query doc) as [sels|]; [|discriminate].
  apply (conf_exec s (c_val c) _ doc Hwf Hroot _ (IrnRoot (c_val c)) sels); [reflexivity|exact Hok].
Qed.

Lemma std_fuel : ir_doc_fuel ir_standard_query = 77%nat.
Proof. vm_compute. reflexivity. Qed.

Lemma std_doc_ok s : ir_wf s = true -> ir_doc_ok s ir_standard_query = true.
Proof.
  intros Hwf. destruct (wf_query s Hwf) as [c [Hc _]]. unfold ir_doc_ok. rewrite Hc.
  vm_compute. reflexivity.
Qed.

Theorem conforms_std s :
  ir_wf s = true -> ir_conforms s ir_standard_query (ir_introspect_doc s ir_standard_query) = true.
Proof. intros Hwf. apply conforms_any_query; [exact Hwf|now apply std_doc_ok]. Qed.

(* ------------------------------------------------- the standard query: what `types` lists (two levels deep) *)
Lemma exec_S f cf s doc n sels :
  ir_exec (S f) cf s doc n sels
  = if ircs_bad (ir_groups cf s doc n sels) =? 0
    then IrObj (flat_map (ir_run_group (ir_exec f cf s doc) s n) (ircs_groups (ir_groups cf s doc n sels)))
    else IrErr (ircs_bad (ir_groups cf s doc n sels)).
Proof. reflexivity. Qed.

Lemma std_root_groups s root :
  ir_groups 77 s ir_standard_query (IrnRoot root) irq_operation
  = mk_ircs [] [mk_irg irk_uuschema irk_uuschema [] irq_schema_sub] 0.
Proof. vm_compute. reflexivity. Qed.

Lemma std_root s root f :
  ir_root_ok s root = true ->
  ir_exec (S f) 77 s ir_standard_query (IrnRoot root) irq_operation
  = IrObj [(irk_uuschema, ir_exec f 77 s ir_standard_query IrnSchema irq_schema_sub)].
Proof.
  intros Hroot. rewrite exec_S, std_root_groups. cbn [ircs_bad ircs_groups N.eqb flat_map app].
  rewrite run_group_render. cbn [irg_key irg_sub irg_name irg_args].
  change (ir_resolve s (IrnRoot root) irk_uuschema [])
    with (if ir_root_ok s root then IrrNode IrnSchema else IrrBad 4).
  rewrite Hroot. reflexivity.
Qed.

Lemma jget_render_skip exec k key sub r rest :
  streq k key = false -> ir_jget k (ir_render exec key sub r ++ rest) = ir_jget k rest.
Proof. intros H. destruct r; cbn [ir_render app ir_jget]; rewrite ?H; reflexivity. Qed.

Definition irq_schema_groups : list ir_group :=
  [ mk_irg irk_description irk_description [] [];
    mk_irg irk_queryType irk_queryType [] [irq_l irk_name];
    mk_irg irk_mutationType irk_mutationType [] [irq_l irk_name];
    mk_irg irk_subscriptionType irk_subscriptionType [] [irq_l irk_name];
    mk_irg irk_types irk_types [] [SSpread irk_FullType []];
    mk_irg irk_directives irk_directives []
      [ irq_l irk_name; irq_l irk_description; irq_l irk_isRepeatable; irq_l irk_locations;
        irq_fd irk_args [SSpread irk_InputValue []] ] ].

Lemma std_schema_groups s :
  ir_groups 77 s ir_standard_query IrnSchema irq_schema_sub = mk_ircs [] irq_schema_groups 0.
Proof. vm_compute. reflexivity. Qed.

Lemma std_schema_types s f :
  ir_jfield irk_types (ir_exec (S f) 77 s ir_standard_query IrnSchema irq_schema_sub)
  = IrArr true (map (fun t => ir_exec f 77 s ir_standard_query (IrnType t) [SSpread irk_FullType []])
                    (sch_types s)).
Proof.
  rewrite exec_S, std_schema_groups. cbn [ircs_bad ircs_groups]. rewrite N.eqb_refl.
  generalize (ir_exec f 77 s ir_standard_query). intros exec.
  unfold irq_schema_groups. cbn [flat_map ir_jfield]. rewrite !run_group_render.
  cbn [irg_key irg_sub irg_name irg_args].
  rewrite !jget_render_skip by (vm_compute; reflexivity).
  change (ir_resolve s IrnSchema irk_types []) with (IrrTypes true (sch_types s)).
  cbn [ir_render app ir_jget]. now rewrite streq_refl.
Qed.

Definition irq_fulltype_groups : list ir_group :=
  map (fun x => match x with
                | SField a n args _ sub => mk_irg (ir_key a n) n args sub
                | _ => mk_irg [] [] [] []
                end) irq_full_type.

Lemma std_type_groups s t :
  ir_groups 77 s ir_standard_query (IrnType t) [SSpread irk_FullType []]
  = mk_ircs [irk_FullType] irq_fulltype_groups 0.
Proof. vm_compute. reflexivity. Qed.

Lemma std_type_name s f t :
  ir_jfield irk_name (ir_exec (S f) 77 s ir_standard_query (IrnType t) [SSpread irk_FullType []])
  = IrStr (et_name t).
Proof.
  rewrite exec_S, std_type_groups. cbn [ircs_bad ircs_groups]. rewrite N.eqb_refl.
  generalize (ir_exec f 77 s ir_standard_query). intros exec.
  unfold irq_fulltype_groups, irq_full_type. cbn [map flat_map ir_jfield irq_l irq_f irq_fd ir_key].
  rewrite !run_group_render. cbn [irg_key irg_sub irg_name irg_args].
  rewrite jget_render_skip by (vm_compute; reflexivity).
  change (ir_resolve s (IrnType t) irk_name []) with (IrrLeaf (IrStr (et_name t))).
  cbn [ir_render app ir_jget]. now rewrite streq_refl.
Qed.

Lemma std_listed s :
  ir_wf s = true ->
  ir_listed_type_names (ir_introspect_doc s ir_standard_query) = ir_declared s.
Proof.
  intros Hwf. destruct (wf_query s Hwf) as [c [Hc Hroot]].
  unfold ir_introspect_doc. rewrite Hc, std_fuel.
  change (ir_find_query ir_standard_query) with (Some irq_operation).
  unfold ir_listed_type_names. rewrite (std_root s (c_val c) 76 Hroot).
  cbn [ir_jfield ir_jget]. rewrite streq_refl. rewrite std_schema_types. cbn [ir_jitems].
  unfold ir_declared. induction (sch_types s) as [|t r IH]; [reflexivity|].
  cbn [map flat_map]. rewrite std_type_name. cbn [ir_jstr app]. now rewrite IH.
Qed.

Theorem conforms_closed_std s :
  ir_wf s = true ->
  ir_conforms_closed s ir_standard_query (ir_introspect_doc s ir_standard_query) = true.
Proof.
  intros Hwf. pose proof (conforms_std s Hwf) as H. unfold ir_conforms, ir_conforms_closed in *.
  now rewrite (std_listed s Hwf).
Qed.

Lemma tables_refine_spec : ir_tables_ok = true.
Proof. vm_compute. reflexivity. Qed.
