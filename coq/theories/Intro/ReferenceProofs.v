(* Proofs about the introspection reference (Intro/Reference.v). *)
From ApolloVerif Require Import Base.Chars Ast.Ast Schema.Model Intro.IrNames Intro.Reference.

(* ------------------------------------------------------------------------------------------------------ *)
(* Part 1: concrete root fields are skipped (partial execution)                                            *)

Definition ir_concrete_name (f : str) : bool :=
  match ir_fld_of f with
  | Some IrfSchema | Some IrfTypeMeta | Some IrfTypename => false
  | _ => true
  end.

Lemma run_group_concrete exec s r g :
  ir_concrete_name (irg_name g) = true -> ir_run_group exec s (IrnRoot r) g = [].
Proof.
  unfold ir_concrete_name, ir_run_group, ir_resolve.
  destruct (ir_fld_of (irg_name g)) as [fl|]; [|reflexivity].
  destruct fl; intros H; try discriminate H; reflexivity.
Qed.

(* the body of the fold of ir_collect, named *)
Definition ir_step (rec : list selection -> ir_cstate -> ir_cstate) (s : schema) (doc : document)
  (tyname : str) (st : ir_cstate) (sel : selection) : ir_cstate :=
  match sel with
  | SField alias name args dirs sub =>
      match ir_skipped dirs with
      | IrtBad => ir_set_bad 3 st
      | IrtBool true => st
      | _ => mk_ircs (ircs_visited st) (ir_add_group (ir_key alias name) name args sub (ircs_groups st))
                     (ircs_bad st)
      end
  | SSpread name dirs =>
      match ir_skipped dirs with
      | IrtBad => ir_set_bad 3 st
      | IrtBool true => st
      | _ =>
          if existsb (streq name) (ircs_visited st) then st
          else
            let st' := mk_ircs (name :: ircs_visited st) (ircs_groups st) (ircs_bad st) in
            match ir_find_frag name doc with
            | None => ir_set_bad 5 st'
            | Some (cond, fsels) => if ir_frag_applies s tyname cond then rec fsels st' else st'
            end
      end
  | SInline cond dirs sub =>
      match ir_skipped dirs with
      | IrtBad => ir_set_bad 3 st
      | IrtBool true => st
      | _ =>
          match cond with
          | Some c => if ir_frag_applies s tyname c then rec sub st else st
          | None => rec sub st
          end
      end
  end.

Lemma ir_collect_S f s doc tyname sels st :
  ir_collect (S f) s doc tyname sels st
  = fold_left (ir_step (fun l x => ir_collect f s doc tyname l x) s doc tyname) sels st.
Proof. reflexivity. Qed.

Definition ir_pair (g : ir_group) : str * str := (irg_key g, irg_name g).
Definition ir_pairs (st : ir_cstate) : list (str * str) := map ir_pair (ircs_groups st).

Lemma add_group_pairs_mono k n a sub gs p :
  In p (map ir_pair gs) -> In p (map ir_pair (ir_add_group k n a sub gs)).
Proof.
  induction gs as [|g r IH]; cbn [ir_add_group map In]; [tauto|].
  destruct (streq k (irg_key g)); cbn [map In ir_pair irg_key irg_name]; intros [H|H]; auto.
Qed.

Lemma set_bad_groups c st : ircs_groups (ir_set_bad c st) = ircs_groups st.
Proof. reflexivity. Qed.

(* groups are never removed and keep their key and field name *)
Lemma collect_pairs_mono f s doc tyname : forall sels st p,
  In p (ir_pairs st) -> In p (ir_pairs (ir_collect f s doc tyname sels st)).
Proof.
  induction f as [|f IHf]; intros sels st p Hp; [exact Hp|].
  rewrite ir_collect_S. revert st Hp.
  induction sels as [|sel sels IH]; intros st Hp; cbn [fold_left]; [exact Hp|].
  apply IH. unfold ir_step.
  destruct sel as [alias name args dirs sub|name dirs|cond dirs sub];
    destruct (ir_skipped dirs) as [|[|]|]; try exact Hp.
  - unfold ir_pairs. cbn [ircs_groups]. now apply add_group_pairs_mono.
  - unfold ir_pairs. cbn [ircs_groups]. now apply add_group_pairs_mono.
  - destruct (existsb _ _); [exact Hp|].
    destruct (ir_find_frag name doc) as [[c fs]|]; [|exact Hp].
    destruct (ir_frag_applies s tyname c); [|exact Hp]. apply IHf. exact Hp.
  - destruct (existsb _ _); [exact Hp|].
    destruct (ir_find_frag name doc) as [[c fs]|]; [|exact Hp].
    destruct (ir_frag_applies s tyname c); [|exact Hp]. apply IHf. exact Hp.
  - destruct cond as [c|]; [destruct (ir_frag_applies s tyname c); [|exact Hp]|]; apply IHf; exact Hp.
  - destruct cond as [c|]; [destruct (ir_frag_applies s tyname c); [|exact Hp]|]; apply IHf; exact Hp.
Qed.

Definition ir_drop (k : str) (gs : list ir_group) : list ir_group :=
  filter (fun g => negb (streq k (irg_key g))) gs.
Definition ir_has_key (k : str) (gs : list ir_group) : bool :=
  existsb (fun g => streq k (irg_key g)) gs.

Lemma drop_add_same k n a sub gs : ir_drop k (ir_add_group k n a sub gs) = ir_drop k gs.
Proof.
  induction gs as [|g r IH]; cbn [ir_add_group ir_drop filter irg_key].
  - now rewrite streq_refl.
  - destruct (streq k (irg_key g)) eqn:E; cbn [filter irg_key]; rewrite E; cbn [negb]; [reflexivity|].
    f_equal. exact IH.
Qed.

Lemma streq_sym a b : streq a b = streq b a.
Proof.
  destruct (streq a b) eqn:E.
  - apply streq_eq in E. subst. now rewrite streq_refl.
  - destruct (streq b a) eqn:E'; [|reflexivity]. apply streq_eq in E'. subst. now rewrite streq_refl in E.
Qed.

Lemma drop_add_ne k k' n a sub gs :
  streq k k' = false ->
  ir_drop k (ir_add_group k' n a sub gs) = ir_add_group k' n a sub (ir_drop k gs).
Proof.
  intros Hne. induction gs as [|g r IH]; cbn [ir_add_group ir_drop filter irg_key].
  - now rewrite Hne.
  - destruct (streq k' (irg_key g)) eqn:E.
    + assert (Hk : streq k (irg_key g) = false).
      { apply streq_eq in E. now rewrite <- E. }
      cbn [filter irg_key]. rewrite Hk. cbn [negb ir_add_group]. now rewrite E.
    + cbn [filter]. destruct (streq k (irg_key g)) eqn:Hk; cbn [negb].
      * exact IH.
      * cbn [ir_add_group]. rewrite E. f_equal. exact IH.
Qed.

Lemma has_key_add_same k n a sub gs : ir_has_key k (ir_add_group k n a sub gs) = true.
Proof.
  induction gs as [|g r IH]; cbn [ir_add_group ir_has_key existsb irg_key].
  - now rewrite streq_refl.
  - destruct (streq k (irg_key g)) eqn:E; cbn [existsb irg_key]; rewrite E; [reflexivity|]. exact IH.
Qed.

Lemma has_key_add_ne k k' n a sub gs :
  streq k k' = false -> ir_has_key k (ir_add_group k' n a sub gs) = ir_has_key k gs.
Proof.
  intros Hne. induction gs as [|g r IH]; cbn [ir_add_group ir_has_key existsb irg_key].
  - now rewrite Hne.
  - destruct (streq k' (irg_key g)) eqn:E; cbn [existsb irg_key]; [reflexivity|].
    f_equal. exact IH.
Qed.

(* where a group of the extended list comes from *)
Lemma add_group_in k n a sub gs g :
  In g (ir_add_group k n a sub gs) ->
  (exists g0, In g0 gs /\ irg_key g = irg_key g0 /\ irg_name g = irg_name g0)
  \/ (irg_key g = k /\ irg_name g = n /\ ir_has_key k gs = false).
Proof.
  induction gs as [|g1 r IH]; cbn [ir_add_group In ir_has_key existsb].
  - intros [Heq|[]]. subst g. right. auto.
  - destruct (streq k (irg_key g1)) eqn:E; cbn [In].
    + intros [Heq|H]; left; [exists g1; subst g; cbn; auto|exists g; auto].
    + intros [Heq|H]; [left; exists g; auto|].
      destruct (IH H) as [[g0 [H0 H1]]|[H1 [H2 H3]]]; [left; exists g0; auto|].
      right. repeat split; auto.
Qed.

Lemma add_group_new_pair k n a sub gs :
  ir_has_key k gs = false -> In (k, n) (map ir_pair (ir_add_group k n a sub gs)).
Proof.
  induction gs as [|g r IH]; cbn [ir_add_group ir_has_key existsb map In ir_pair irg_key irg_name].
  - auto.
  - destruct (streq k (irg_key g)) eqn:E; cbn [orb]; [discriminate|].
    intros H. cbn [map In]. right. now apply IH.
Qed.

Section SkipConcrete.
Variable k : str.

Definition ir_R (st st' : ir_cstate) : Prop :=
  ircs_visited st = ircs_visited st' /\ ircs_bad st = ircs_bad st'
  /\ ir_drop k (ircs_groups st') = ir_drop k (ircs_groups st)
  /\ (ir_has_key k (ircs_groups st) = true -> ir_has_key k (ircs_groups st') = true).
Definition ir_Qc (st : ir_cstate) : Prop :=
  forall g, In g (ircs_groups st) -> irg_key g = k -> ir_concrete_name (irg_name g) = true.
Definition ir_Qp (st : ir_cstate) : Prop :=
  forall n, In (k, n) (ir_pairs st) -> ir_concrete_name n = true.

Lemma R_set_bad c st st' : ir_R st st' -> ir_R (ir_set_bad c st) (ir_set_bad c st').
Proof.
  intros (Hv & Hb & Hd & Hk). unfold ir_R, ir_set_bad. cbn. rewrite Hb. auto.
Qed.

Lemma R_add alias name args sub st st' :
  ir_R st st' -> ir_Qc st' ->
  ir_Qp (mk_ircs (ircs_visited st) (ir_add_group (ir_key alias name) name args sub (ircs_groups st))
                 (ircs_bad st)) ->
  ir_R (mk_ircs (ircs_visited st) (ir_add_group (ir_key alias name) name args sub (ircs_groups st))
                (ircs_bad st))
       (mk_ircs (ircs_visited st') (ir_add_group (ir_key alias name) name args sub (ircs_groups st'))
                (ircs_bad st'))
  /\ ir_Qc (mk_ircs (ircs_visited st') (ir_add_group (ir_key alias name) name args sub (ircs_groups st'))
                    (ircs_bad st')).
Proof.
  intros (Hv & Hb & Hd & Hk) Hq Hp. set (k0 := ir_key alias name) in *.
  destruct (streq k k0) eqn:E.
  - apply streq_eq in E. subst k0. rewrite <- E in *. split.
    + unfold ir_R. cbn [ircs_visited ircs_groups ircs_bad]. rewrite !drop_add_same, !has_key_add_same. auto.
    + intros g Hg Hkey. cbn [ircs_groups] in Hg. apply add_group_in in Hg.
      destruct Hg as [[g0 [H0 [H1 H2]]]|[H1 [H2 H3]]].
      * rewrite H2. apply Hq; [exact H0|congruence].
      * rewrite H2. apply Hp. unfold ir_pairs. cbn [ircs_groups]. apply add_group_new_pair.
        destruct (ir_has_key k (ircs_groups st)) eqn:E2; [|reflexivity].
        rewrite (Hk eq_refl) in H3. discriminate.
  - split.
    + unfold ir_R. cbn [ircs_visited ircs_groups ircs_bad].
      rewrite !(drop_add_ne _ _ _ _ _ _ E), !(has_key_add_ne _ _ _ _ _ _ E), Hd. auto.
    + intros g Hg Hkey. cbn [ircs_groups] in Hg. apply add_group_in in Hg.
      destruct Hg as [[g0 [H0 [H1 H2]]]|[H1 [H2 H3]]].
      * rewrite H2. apply Hq; [exact H0|congruence].
      * exfalso. rewrite Hkey in H1. rewrite H1, streq_refl in E. discriminate.
Qed.

Lemma collect_rel f s doc tyname : forall sels st st',
  ir_R st st' -> ir_Qc st' -> ir_Qp (ir_collect f s doc tyname sels st) ->
  ir_R (ir_collect f s doc tyname sels st) (ir_collect f s doc tyname sels st')
  /\ ir_Qc (ir_collect f s doc tyname sels st').
Proof.
  induction f as [|f IHf]; intros sels st st' HR HQ HP.
  - cbn [ir_collect]. split; [now apply R_set_bad|exact HQ].
  - rewrite !ir_collect_S in *. revert st st' HR HQ HP.
    induction sels as [|sel sels IH]; intros st st' HR HQ HP; cbn [fold_left] in *; [auto|].
    set (F := ir_step (fun l x => ir_collect f s doc tyname l x) s doc tyname) in *.
    assert (HPs : ir_Qp (F st sel)).
    { intros n Hn. apply HP. unfold F. rewrite <- ir_collect_S. apply collect_pairs_mono. exact Hn. }
    assert (Hstep : ir_R (F st sel) (F st' sel) /\ ir_Qc (F st' sel)).
    { clear IH HP. unfold F, ir_step in *.
      pose proof HR as (Hv & Hb & Hd & Hk).
      destruct sel as [alias name args dirs sub|name dirs|cond dirs sub];
        destruct (ir_skipped dirs) as [|[|]|]; try (split; [now apply R_set_bad|exact HQ]);
        try (split; [exact HR|exact HQ]).
      - now apply R_add.
      - now apply R_add.
      - rewrite <- Hv. destruct (existsb _ _); [split; [exact HR|exact HQ]|].
        assert (HR' : ir_R (mk_ircs (name :: ircs_visited st) (ircs_groups st) (ircs_bad st))
                           (mk_ircs (name :: ircs_visited st) (ircs_groups st') (ircs_bad st'))).
        { unfold ir_R. cbn. auto. }
        destruct (ir_find_frag name doc) as [[c fs]|]; [|split; [now apply R_set_bad|exact HQ]].
        destruct (ir_frag_applies s tyname c); [|split; [exact HR'|exact HQ]].
        apply IHf; [exact HR'|exact HQ|exact HPs].
      - rewrite <- Hv. destruct (existsb _ _); [split; [exact HR|exact HQ]|].
        assert (HR' : ir_R (mk_ircs (name :: ircs_visited st) (ircs_groups st) (ircs_bad st))
                           (mk_ircs (name :: ircs_visited st) (ircs_groups st') (ircs_bad st'))).
        { unfold ir_R. cbn. auto. }
        destruct (ir_find_frag name doc) as [[c fs]|]; [|split; [now apply R_set_bad|exact HQ]].
        destruct (ir_frag_applies s tyname c); [|split; [exact HR'|exact HQ]].
        apply IHf; [exact HR'|exact HQ|exact HPs].
      - destruct cond as [c|]; [destruct (ir_frag_applies s tyname c); [|split; [exact HR|exact HQ]]|];
          apply IHf; auto.
      - destruct cond as [c|]; [destruct (ir_frag_applies s tyname c); [|split; [exact HR|exact HQ]]|];
          apply IHf; auto. }
    destruct Hstep as [HR1 HQ1]. apply IH; auto.
Qed.
End SkipConcrete.

Lemma flat_map_drop exec s r k gs :
  (forall g, In g gs -> irg_key g = k -> ir_concrete_name (irg_name g) = true) ->
  flat_map (ir_run_group exec s (IrnRoot r)) gs
  = flat_map (ir_run_group exec s (IrnRoot r)) (ir_drop k gs).
Proof.
  induction gs as [|g gs IH]; intros H; cbn [flat_map ir_drop filter]; [reflexivity|].
  fold (ir_drop k gs).
  assert (IH' := IH (fun g0 H0 => H g0 (or_intror H0))).
  destruct (streq k (irg_key g)) eqn:E; cbn [negb].
  - apply streq_eq in E. rewrite (run_group_concrete exec s r g); [exact IH'|].
    apply H; [now left|auto].
  - cbn [flat_map]. now rewrite IH'.
Qed.

Lemma R_refl k st : ir_R k st st.
Proof. unfold ir_R. auto. Qed.

(* C24_skip_concrete: a concrete root field, at any position among the root selections, changes nothing in
   the partial response, provided its response key is not also the key of a meta-field selected alongside
   (which field merging forbids anyway) and its @skip/@include conditions are literals. *)
Theorem skip_concrete fuel cf s doc r sels1 sels2 alias name args dirs sub :
  ir_concrete_name name = true ->
  ir_skipped dirs <> IrtBad ->
  (forall g, In g (ircs_groups (ir_groups cf s doc (IrnRoot r) (sels1 ++ sels2))) ->
             irg_key g = ir_key alias name -> ir_concrete_name (irg_name g) = true) ->
  ir_exec fuel cf s doc (IrnRoot r) (sels1 ++ SField alias name args dirs sub :: sels2)
  = ir_exec fuel cf s doc (IrnRoot r) (sels1 ++ sels2).
Proof.
  intros Hc Hd H. destruct fuel as [|f]; [reflexivity|].
  cbn [ir_exec]. unfold ir_groups in *. cbn [ir_typename] in *.
  destruct cf as [|cf]; [reflexivity|].
  set (k := ir_key alias name) in *.
  rewrite !ir_collect_S in *. rewrite !fold_left_app in *. cbn [fold_left].
  set (F := ir_step (fun l x => ir_collect cf s doc r l x) s doc r) in *.
  set (st1 := fold_left F sels1 ir_cstate_init) in *.
  assert (HP : ir_Qp k (fold_left F sels2 st1)).
  { intros n Hn. unfold ir_pairs in Hn. apply in_map_iff in Hn. destruct Hn as [g [Hg Hin]].
    inversion Hg; subst. apply (H g Hin); auto. }
  assert (HQ1 : ir_Qc k st1).
  { intros g Hg Hk. apply HP. unfold F. rewrite <- ir_collect_S. apply collect_pairs_mono.
    unfold ir_pairs. apply in_map_iff. exists g. split; [|exact Hg]. unfold ir_pair. now rewrite Hk. }
  assert (Hstep : ir_R k st1 (F st1 (SField alias name args dirs sub))
                  /\ ir_Qc k (F st1 (SField alias name args dirs sub))).
  { unfold F, ir_step. destruct (ir_skipped dirs) as [|[|]|]; try (now elim Hd);
      try (split; [apply R_refl|exact HQ1]).
    - split.
      + unfold ir_R. cbn [ircs_visited ircs_groups ircs_bad]. fold k.
        rewrite drop_add_same, has_key_add_same. auto.
      + intros g Hg Hk. cbn [ircs_groups] in Hg. apply add_group_in in Hg.
        destruct Hg as [[g0 [H0 [H1 H2]]]|[H1 [H2 H3]]]; [|now rewrite H2].
        rewrite H2. apply HQ1; [exact H0|congruence].
    - split.
      + unfold ir_R. cbn [ircs_visited ircs_groups ircs_bad]. fold k.
        rewrite drop_add_same, has_key_add_same. auto.
      + intros g Hg Hk. cbn [ircs_groups] in Hg. apply add_group_in in Hg.
        destruct Hg as [[g0 [H0 [H1 H2]]]|[H1 [H2 H3]]]; [|now rewrite H2].
        rewrite H2. apply HQ1; [exact H0|congruence]. }
  destruct Hstep as [HR HQ].
  pose proof (collect_rel k (S cf) s doc r sels2 st1 _ HR HQ) as Hrel.
  rewrite !ir_collect_S in Hrel. fold F in Hrel. specialize (Hrel HP).
  destruct Hrel as [(Hv & Hb & Hdrop & _) HQf].
  rewrite <- Hb. destruct (ircs_bad (fold_left F sels2 st1) =? 0); [|reflexivity].
  f_equal.
  rewrite (flat_map_drop _ s r k (ircs_groups (fold_left F sels2 (F st1 _)))); [|exact HQf].
  rewrite (flat_map_drop _ s r k (ircs_groups (fold_left F sels2 st1))); [|exact H].
  now rewrite Hdrop.
Qed.
