(* C11: the compact location of a Name (crates/apollo-compiler/src/name.rs).
   A Name stores `start_offset: u32` and `len: u32` (the byte length of its text) plus a tagged file id;
   `with_location(span)` stores span.start (and debug-asserts span.len == len);
   `location()` rebuilds TextRange::at(start_offset, len) when the file id is not NONE. *)
From ApolloVerif Require Import Base.Chars.

Record name := { n_text : str; n_start : N; n_has_file : bool }.

Definition name_new (text : str) : name := {| n_text := text; n_start := 0; n_has_file := false |}.

Inductive wl_res := WlOk (n : name) | WlDebugAssert.

(* Name::with_location; the debug_assert_eq!(location.text_range.len(), self.len) is explicit *)
Definition name_with_location (n : name) (span : N * N) : wl_res :=
  let '(s, e) := span in
  if (e - s =? blen (n_text n)) && (s <=? e)
  then WlOk {| n_text := n_text n; n_start := s; n_has_file := true |}
  else WlDebugAssert.

(* Name::location *)
Definition name_location (n : name) : option (N * N) :=
  if n_has_file n then Some (n_start n, n_start n + blen (n_text n)) else None.
