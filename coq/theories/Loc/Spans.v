(* C11: the compact location of a Name (crates/apollo-compiler/src/lc_name.rs).
   A Name stores `start_offset: u32` and `len: u32` (the byte length of its text) plus a tagged file id;
   `with_location(span)` stores span.start (and debug-asserts span.len == len);
   `location()` rebuilds TextRange::at(start_offset, len) when the file id is not NONE. *)
From ApolloVerif Require Import Base.Chars.

Record lc_name := { lcn_text : str; lcn_start : N; lcn_has_file : bool }.

Definition lc_name_new (text : str) : lc_name := {| lcn_text := text; lcn_start := 0; lcn_has_file := false |}.

Inductive lc_wl_res := LcWlOk (n : lc_name) | LcWlDebugAssert.

(* Name::with_location; the debug_assert_eq!(location.text_range.len(), self.len) is explicit *)
Definition lc_name_with_location (n : lc_name) (span : N * N) : lc_wl_res :=
  let '(s, e) := span in
  if (e - s =? blen (lcn_text n)) && (s <=? e)
  then LcWlOk {| lcn_text := lcn_text n; lcn_start := s; lcn_has_file := true |}
  else LcWlDebugAssert.

(* Name::location *)
Definition lc_name_location (n : lc_name) : option (N * N) :=
  if lcn_has_file n then Some (lcn_start n, lcn_start n + blen (lcn_text n)) else None.
