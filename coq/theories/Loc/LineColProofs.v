(* Proofs about offset -> line/column (C11). *)
From ApolloVerif Require Import Base.Chars Loc.LineCol.
From Coq Require Import ZifyBool ZifyN Arith.PeanoNat.

Local Ltac unf := unfold c_cr, c_lf in *.

(* ------------------------------------------------------------------ the line table, by direct recursion *)

(* what Source::from builds, as one pass: [cur] = byte length of the line being accumulated *)
Fixpoint lines_acc (s : str) (start cur : N) : list (N * N) :=
  match s with
  | [] => if cur =? 0 then [] else [(start, cur)]
  | c :: r =>
      let n := cur + u8len c in
      if c =? c_cr then
        match r with
        | c2 :: r2 =>
            if c2 =? c_lf then (start, n + 1) :: lines_acc r2 (start + (n + 1)) 0
            else (start, n) :: lines_acc r (start + n) 0
        | [] => [(start, n)]
        end
      else if lc_is_ariadne_sep c then (start, n) :: lines_acc r (start + n) 0
      else lines_acc r start n
  end.

Definition sepfree (cur : str) : Prop := forallb (fun c => negb (lc_is_ariadne_sep c)) cur = true.

Lemma sepfree_snoc cur c : sepfree cur -> lc_is_ariadne_sep c = false -> sepfree (cur ++ [c]).
Proof.
  unfold sepfree. intros H Hc. rewrite forallb_app, H. cbn. now rewrite Hc.
Qed.

Lemma blen_snoc cur c : blen (cur ++ [c]) = blen cur + u8len c.
Proof. rewrite blen_app. cbn [blen]. lia. Qed.

Lemma blen_zero cur : blen cur = 0 -> cur = [].
Proof. destruct cur as [|c r]; [auto|]. cbn [blen]. pose proof (u8len_pos c). lia. Qed.

Lemma ends_with_cr_snoc cur c : lc_ends_with_cr (cur ++ [c]) = (c =? c_cr).
Proof. unfold lc_ends_with_cr. now rewrite rev_unit. Qed.

Lemma merge_cons_nocr p rest boff :
  lc_ends_with_cr p = false ->
  lc_merge_lines (p :: rest) boff = (boff, blen p) :: lc_merge_lines rest (boff + blen p).
Proof. intros H. cbn [lc_merge_lines]. rewrite H. destruct rest; reflexivity. Qed.

Lemma merge_cons_nolf p rest boff :
  (forall q rest', rest = q :: rest' -> lc_is_lf_piece q = false) ->
  lc_merge_lines (p :: rest) boff = (boff, blen p) :: lc_merge_lines rest (boff + blen p).
Proof.
  intros H. cbn [lc_merge_lines]. destruct rest as [|q rest']; [reflexivity|].
  rewrite (H q rest' eq_refl), andb_false_r. reflexivity.
Qed.

Lemma split_first s : forall cur, cur <> [] ->
  exists q' rest, lc_split_inclusive s cur = (cur ++ q') :: rest.
Proof.
  induction s as [|c r IH]; intros cur Hc; cbn [lc_split_inclusive].
  - destruct cur; [congruence|]. exists [], []. now rewrite app_nil_r.
  - destruct (lc_is_ariadne_sep c).
    + now exists [c], (lc_split_inclusive r []).
    + destruct (IH (cur ++ [c])) as (q' & rest & H); [now destruct cur|].
      exists (c :: q'), rest. rewrite H. now rewrite <- app_assoc.
Qed.

Lemma merge_split n : forall s, (length s <= n)%nat -> forall cur boff,
  sepfree cur -> lc_merge_lines (lc_split_inclusive s cur) boff = lines_acc s boff (blen cur).
Proof.
  induction n as [|n IH]; intros s Hlen cur boff Hsf.
  - destruct s; [|cbn in Hlen; lia]. cbn [lc_split_inclusive lines_acc].
    destruct cur as [|c0 cur0] eqn:Ec; [reflexivity|]. rewrite <- Ec.
    replace (blen cur =? 0) with false; [reflexivity|].
    symmetry. apply N.eqb_neq. intros H0. apply blen_zero in H0. congruence.
  - destruct s as [|c r]; [apply (IH []); [cbn; lia|exact Hsf]|].
    cbn [length] in Hlen. assert (Hr : (length r <= n)%nat) by lia.
    cbn [lc_split_inclusive lines_acc]. cbv zeta.
    destruct (N.eqb_spec c c_cr) as [->|Hcr].
    + (* carriage return *)
      replace (lc_is_ariadne_sep c_cr) with true by reflexivity.
      destruct r as [|c2 r2].
      * cbn [lc_split_inclusive lc_merge_lines]. now rewrite blen_snoc.
      * destruct (N.eqb_spec c2 c_lf) as [->|Hlf].
        -- cbn [lc_split_inclusive]. replace (lc_is_ariadne_sep c_lf) with true by reflexivity.
           cbn [lc_merge_lines app]. rewrite ends_with_cr_snoc.
           replace (c_cr =? c_cr) with true by reflexivity.
           replace (lc_is_lf_piece [c_lf]) with true by reflexivity. cbn [andb].
           rewrite blen_snoc. f_equal.
           cbn [length] in Hr.
           rewrite (IH r2 ltac:(lia) [] _ eq_refl). reflexivity.
        -- rewrite merge_cons_nolf.
           ++ rewrite blen_snoc. f_equal. rewrite (IH (c2 :: r2) Hr [] _ eq_refl). reflexivity.
           ++ intros q rest' Hq. cbn [lc_split_inclusive] in Hq.
              destruct (lc_is_ariadne_sep c2).
              ** injection Hq as <- _. cbn. unf. lia.
              ** destruct (split_first r2 ([] ++ [c2])) as (q' & rest2 & Hs); [discriminate|].
                 rewrite Hs in Hq. injection Hq as <- _. cbn [app lc_is_lf_piece].
                 destruct q'; [unf; lia|reflexivity].
    + destruct (lc_is_ariadne_sep c) eqn:Es.
      * rewrite merge_cons_nocr.
        -- rewrite blen_snoc. f_equal. rewrite (IH r Hr [] _ eq_refl). reflexivity.
        -- rewrite ends_with_cr_snoc. lia.
      * rewrite (IH r Hr (cur ++ [c]) boff (sepfree_snoc _ _ Hsf Es)). now rewrite blen_snoc.
Qed.

Lemma source_lines_acc s : lc_source_lines s = match s with [] => [(0, 0)] | _ => lines_acc s 0 0 end.
Proof.
  destruct s as [|c r]; [reflexivity|]. unfold lc_source_lines.
  now rewrite (merge_split (length (c :: r)) (c :: r) (Nat.le_refl _) [] 0 eq_refl).
Qed.

(* total length of the table *)
Lemma fold_len_acc (ls : list (N * N)) : forall a,
  fold_left (fun acc l => acc + snd l) ls a = a + fold_left (fun acc l => acc + snd l) ls 0.
Proof.
  induction ls as [|x ls IH]; intros a; cbn [fold_left]; [lia|].
  rewrite (IH (a + snd x)), (IH (0 + snd x)). lia.
Qed.

Lemma byte_len_cons x ls : lc_source_byte_len (x :: ls) = snd x + lc_source_byte_len ls.
Proof. unfold lc_source_byte_len. cbn [fold_left]. rewrite fold_len_acc. lia. Qed.

Lemma lines_acc_len n : forall s, (length s <= n)%nat -> forall start cur,
  lc_source_byte_len (lines_acc s start cur) = cur + blen s.
Proof.
  induction n as [|n IH]; intros s Hlen start cur.
  - destruct s; [|cbn in Hlen; lia]. cbn [lines_acc blen].
    destruct (N.eqb_spec cur 0); [subst; reflexivity|]. rewrite byte_len_cons. cbn. lia.
  - destruct s as [|c r]; [apply (IH []); cbn; lia|].
    cbn [length] in Hlen. assert (Hr : (length r <= n)%nat) by lia.
    cbn [lines_acc blen]. cbv zeta.
    destruct (c =? c_cr).
    + destruct r as [|c2 r2]; [rewrite byte_len_cons; cbn; lia|].
      destruct (N.eqb_spec c2 c_lf) as [->|_].
      * rewrite byte_len_cons. cbn [length] in Hr. rewrite (IH r2 ltac:(lia)). cbn [snd blen].
        replace (u8len c_lf) with 1 by reflexivity. lia.
      * rewrite byte_len_cons, (IH _ Hr). cbn [snd]. lia.
    + destruct (lc_is_ariadne_sep c).
      * rewrite byte_len_cons, (IH _ Hr). cbn [snd]. lia.
      * rewrite (IH _ Hr). lia.
Qed.

Definition hdlen (s : str) : N := match s with [] => 0 | c :: _ => u8len c end.

Lemma lines_acc_cons s : forall start cur, (cur <> 0 \/ s <> []) ->
  exists n r', lines_acc s start cur = (start, n) :: lines_acc r' (start + n) 0 /\ cur + hdlen s <= n.
Proof.
  induction s as [|c r IH]; intros start cur H.
  - destruct H as [H|H]; [|congruence]. exists cur, []. cbn [lines_acc hdlen].
    replace (cur =? 0) with false by lia. split; [reflexivity|lia].
  - cbn [lines_acc hdlen]. cbv zeta. destruct (c =? c_cr).
    + destruct r as [|c2 r2].
      * exists (cur + u8len c), []. split; [reflexivity|lia].
      * destruct (c2 =? c_lf).
        -- exists (cur + u8len c + 1), r2. split; [reflexivity|lia].
        -- exists (cur + u8len c), (c2 :: r2). split; [reflexivity|lia].
    + destruct (lc_is_ariadne_sep c).
      * exists (cur + u8len c), r. split; [reflexivity|lia].
      * destruct (IH start (cur + u8len c)) as (n & r' & E & Hn).
        { left. pose proof (u8len_pos c). lia. }
        exists n, r'. split; [exact E|]. pose proof (u8len_pos c). lia.
Qed.

Lemma lines_acc_nil0 st : lines_acc [] st 0 = [].
Proof. reflexivity. Qed.

Lemma find_line_lt s st cur off idx best :
  off < st -> lc_find_line (lines_acc s st cur) off idx best = best.
Proof.
  intros H. destruct (N.eq_dec cur 0) as [->|Hc].
  - destruct s as [|c r]; [reflexivity|].
    destruct (lines_acc_cons (c :: r) st 0) as (n & r' & E & _); [right; discriminate|].
    rewrite E. cbn [lc_find_line]. now replace (st <=? off) with false by lia.
  - destruct (lines_acc_cons s st cur) as (n & r' & E & _); [now left|].
    rewrite E. cbn [lc_find_line]. now replace (st <=? off) with false by lia.
Qed.

(* ------------------------------------------------------------------ the table lookup is the one-pass scan *)

Lemma scan_table n : forall s, (length s <= n)%nat -> forall start cur idx off best,
  start + cur <= off -> (cur <> 0 \/ s <> []) ->
  lc_impl_scan s (off - (start + cur)) (idx + 1) (cur + 1) =
    if off <=? start + cur + blen s
    then let '(i, st) := lc_find_line (lines_acc s start cur) off idx best in Some (i + 1, off - st + 1)
    else None.
Proof.
  induction n as [|n IH]; intros s Hlen start cur idx off best Hoff Hne.
  - destruct s; [|cbn in Hlen; lia]. destruct Hne as [Hc|]; [|congruence].
    cbn [lc_impl_scan lines_acc blen]. replace (cur =? 0) with false by lia. cbn [lc_find_line].
    replace (start <=? off) with true by lia.
    destruct (N.eqb_spec (off - (start + cur)) 0) as [E|E].
    + replace (off <=? start + cur + 0) with true by lia. f_equal. f_equal. lia.
    + now replace (off <=? start + cur + 0) with false by lia.
  - destruct s as [|c r]; [apply (IH []); [cbn; lia|exact Hoff|exact Hne]|].
    cbn [length] in Hlen. assert (Hr : (length r <= n)%nat) by lia.
    pose proof (u8len_pos c) as Hpos.
    cbn [lc_impl_scan]. destruct (N.ltb_spec (off - (start + cur)) (u8len c)) as [Hin|Hout].
    + (* the offset lies on the current line, before the end of c *)
      cbn [blen]. replace (off <=? start + cur + (u8len c + blen r)) with true by lia.
      destruct (lines_acc_cons (c :: r) start cur) as (m & r' & E & Hm); [right; discriminate|].
      cbn [hdlen] in Hm. rewrite E. cbn [lc_find_line]. replace (start <=? off) with true by lia.
      rewrite find_line_lt by lia. f_equal. f_equal. lia.
    + cbn [lines_acc blen]. cbv zeta.
      destruct (N.eqb_spec c c_cr) as [->|Hcr].
      * replace (u8len c_cr) with 1 in * by reflexivity.
        destruct r as [|c2 r2].
        -- cbn [blen lc_find_line]. replace (start <=? off) with true by lia.
           destruct (N.eqb_spec (off - (start + cur)) 1) as [E|E].
           ++ replace (off <=? start + cur + (1 + 0)) with true by lia. f_equal. f_equal. lia.
           ++ now replace (off <=? start + cur + (1 + 0)) with false by lia.
        -- destruct (N.eqb_spec c2 c_lf) as [->|Hlf].
           ++ cbn [blen]. replace (u8len c_lf) with 1 by reflexivity.
              cbn [lc_find_line]. replace (start <=? off) with true by lia.
              destruct (N.eqb_spec (off - (start + cur)) 1) as [E|E].
              ** replace (off <=? start + cur + (1 + (1 + blen r2))) with true by lia.
                 rewrite find_line_lt by lia. f_equal. f_equal. lia.
              ** destruct r2 as [|c3 r3].
                 --- rewrite lines_acc_nil0. cbn [blen lc_find_line].
                     destruct (N.eqb_spec (off - (start + cur)) 2) as [E2|E2].
                     +++ replace (off <=? start + cur + (1 + (1 + 0))) with true by lia.
                         f_equal. f_equal. lia.
                     +++ now replace (off <=? start + cur + (1 + (1 + 0))) with false by lia.
                 --- cbn [length] in Hr.
                     pose proof (IH (c3 :: r3) ltac:(cbn [length]; lia) (start + (cur + 1 + 1)) 0 (idx + 1) off
                                   (idx, start) ltac:(lia) ltac:(right; discriminate)) as HI.
                     replace (off - (start + (cur + 1 + 1) + 0)) with (off - (start + cur) - 2) in HI by lia.
                     change (0 + 1) with 1 in HI. rewrite HI.
                     replace (off <=? start + (cur + 1 + 1) + 0 + blen (c3 :: r3))
                       with (off <=? start + cur + (1 + (1 + blen (c3 :: r3)))) by lia.
                     reflexivity.
           ++ cbn [lc_find_line]. replace (start <=? off) with true by lia.
              pose proof (IH (c2 :: r2) Hr (start + (cur + 1)) 0 (idx + 1) off (idx, start)
                            ltac:(lia) ltac:(right; discriminate)) as HI.
              replace (off - (start + (cur + 1) + 0)) with (off - (start + cur) - 1) in HI by lia.
              change (0 + 1) with 1 in HI. rewrite HI.
              replace (off <=? start + (cur + 1) + 0 + blen (c2 :: r2))
                with (off <=? start + cur + (1 + blen (c2 :: r2))) by lia.
              reflexivity.
      * destruct (lc_is_ariadne_sep c) eqn:Es.
        -- cbn [lc_find_line]. replace (start <=? off) with true by lia.
           destruct r as [|c2 r2].
           ++ rewrite lines_acc_nil0. cbn [blen lc_find_line].
              destruct (N.eqb_spec (off - (start + cur)) (u8len c)) as [E|E].
              ** replace (off <=? start + cur + (u8len c + 0)) with true by lia. f_equal. f_equal. lia.
              ** now replace (off <=? start + cur + (u8len c + 0)) with false by lia.
           ++ pose proof (IH (c2 :: r2) Hr (start + (cur + u8len c)) 0 (idx + 1) off (idx, start)
                            ltac:(lia) ltac:(right; discriminate)) as HI.
              replace (off - (start + (cur + u8len c) + 0)) with (off - (start + cur) - u8len c) in HI by lia.
              change (0 + 1) with 1 in HI. rewrite HI.
              replace (off <=? start + (cur + u8len c) + 0 + blen (c2 :: r2))
                with (off <=? start + cur + (u8len c + blen (c2 :: r2))) by lia.
              reflexivity.
        -- pose proof (IH r Hr start (cur + u8len c) idx off best ltac:(lia) ltac:(left; lia)) as HI.
           replace (off - (start + (cur + u8len c))) with (off - (start + cur) - u8len c) in HI by lia.
           replace (cur + u8len c + 1) with (cur + 1 + u8len c) in HI by lia. rewrite HI.
           replace (off <=? start + (cur + u8len c) + blen r)
             with (off <=? start + cur + (u8len c + blen r)) by lia.
           reflexivity.
Qed.

Lemma find_line_le ls : forall off idx best i st,
  snd best <= off -> lc_find_line ls off idx best = (i, st) -> st <= off.
Proof.
  induction ls as [|[s0 l0] ls IH]; intros off idx best i st Hb; cbn [lc_find_line].
  - intros ->. exact Hb.
  - destruct (N.leb_spec s0 off).
    + apply IH. cbn. lia.
    + intros ->. exact Hb.
Qed.

Definition res_of (o : option (N * N)) : lcres :=
  match o with Some (l, c) => LcSome l c | None => LcNone end.

(* SourceFile::get_line_column = the one-pass scan *)
Theorem impl_line_col_scan s off : lc_impl_line_col s off = res_of (lc_impl_scan s off 1 1).
Proof.
  unfold lc_impl_line_col. rewrite source_lines_acc. destruct s as [|c r].
  - unfold lc_get_byte_line. cbn [lc_source_byte_len fold_left snd lc_impl_scan].
    destruct (N.eqb_spec off 0) as [->|H]; [reflexivity|].
    replace (off <=? 0 + 0) with false by lia. reflexivity.
  - pose proof (scan_table (length (c :: r)) (c :: r) (Nat.le_refl _) 0 0 0 off (0, 0)
                 ltac:(lia) ltac:(right; discriminate)) as H.
    replace (off - (0 + 0)) with off in H by lia. change (0 + 1) with 1 in H.
    rewrite H. unfold lc_get_byte_line.
    rewrite (lines_acc_len (length (c :: r)) (c :: r) (Nat.le_refl _) 0 0).
    replace (off <=? 0 + blen (c :: r)) with (off <=? 0 + 0 + blen (c :: r)) by lia.
    destruct (off <=? 0 + 0 + blen (c :: r)); [|reflexivity].
    destruct (lines_acc_cons (c :: r) 0 0) as (m & r' & E & _); [right; discriminate|].
    rewrite E.
    destruct (lc_find_line ((0, m) :: lines_acc r' (0 + m) 0) off 0 (0, 0)) as [i st] eqn:Ef.
    assert (Hst : st <= off).
    { apply (find_line_le ((0, m) :: lines_acc r' (0 + m) 0) off 0 (0, 0) i st); [cbn [snd]; lia|exact Ef]. }
    replace (off <? st) with false by lia. cbn [res_of]. f_equal; lia.
Qed.

Corollary impl_line_col_no_panic s off : lc_impl_line_col s off <> LcPanic.
Proof. rewrite impl_line_col_scan. destruct (lc_impl_scan s off 1 1) as [[l c]|]; discriminate. Qed.

(* ------------------------------------------------------------------ the scan against the specification *)

Lemma k_eof_cons c r off :
  r <> [] -> u8len c <= off -> lc_k_eof (c :: r) off = lc_k_eof r (off - u8len c).
Proof.
  intros Hr Hoff. unfold lc_k_eof. cbn [blen rev].
  replace (off =? u8len c + blen r) with (off - u8len c =? blen r) by lia. f_equal.
  destruct (rev r) as [|x t] eqn:E.
  - apply (f_equal (@rev N)) in E. rewrite rev_involutive in E. cbn in E. congruence.
  - reflexivity.
Qed.

Lemma k_eof_tail c r off k :
  r <> [] -> u8len c = k -> k <= off -> lc_k_eof (c :: r) off = false -> lc_k_eof r (off - k) = false.
Proof. intros Hr <- Hle H. rewrite <- (k_eof_cons c r off Hr Hle). exact H. Qed.

Lemma extra_sep_is_sep c : lc_is_ariadne_sep c = true -> c <> c_cr -> c <> c_lf -> lc_is_extra_sep c = true.
Proof. unfold lc_is_ariadne_sep, lc_is_extra_sep. unf. lia. Qed.

Lemma scan_spec n : forall s, (length s <= n)%nat -> forall off line col1 col2 acc,
  (acc = false -> col1 = col2) ->
  lc_k_sep s off = false -> lc_k_col_scan s off acc = false -> lc_k_eof s off = false ->
  lc_impl_scan s off line col1 = lc_scan s off line col2.
Proof.
  induction n as [|n IH]; intros s Hlen off line col1 col2 acc Hcol Hsep Hkc Heof.
  - destruct s; [|cbn in Hlen; lia]. cbn [lc_impl_scan lc_scan lc_k_col_scan] in *.
    rewrite (Hcol Hkc). reflexivity.
  - destruct s as [|c r]; [apply (IH [] ltac:(cbn; lia) off line col1 col2 acc); assumption|].
    cbn [length] in Hlen. assert (Hr : (length r <= n)%nat) by lia.
    pose proof (u8len_pos c) as Hpos.
    cbn [lc_impl_scan lc_scan]. cbn [lc_k_sep lc_k_col_scan] in Hsep, Hkc.
    destruct (N.ltb_spec off (u8len c)) as [Hin|Hout].
    + destruct (N.eqb_spec off 0) as [->|H0]; [|discriminate].
      rewrite (Hcol Hkc). f_equal. f_equal. lia.
    + replace (off =? 0) with false in Hkc by lia.
      apply orb_false_iff in Hsep as [Hex Hsep].
      destruct (N.eqb_spec c c_lf) as [->|Hlf].
      * (* line feed *)
        replace (c_lf =? c_cr) with false in * by reflexivity.
        replace (lc_is_ariadne_sep c_lf) with true by reflexivity.
        replace (u8len c_lf) with 1 in * by reflexivity.
        destruct r as [|c2 r2].
        -- cbn [lc_scan]. unfold lc_k_eof in Heof. cbn [blen rev app] in Heof.
           replace (u8len c_lf) with 1 in Heof by reflexivity.
           replace ((c_lf =? c_lf) || (c_lf =? c_cr)) with true in Heof by reflexivity.
           destruct (N.eqb_spec off 1); [lia|]. now replace (off - 1 =? 0) with false by lia.
        -- apply (IH (c2 :: r2) Hr (off - 1) (line + 1) 1 1 false); auto.
           apply (k_eof_tail c_lf (c2 :: r2) off 1); [discriminate|reflexivity|lia|exact Heof].
      * destruct (N.eqb_spec c c_cr) as [->|Hcr].
        -- (* carriage return *)
           replace (u8len c_cr) with 1 in * by reflexivity.
           destruct r as [|c2 r2].
           ++ cbn [lc_scan]. unfold lc_k_eof in Heof. cbn [blen rev app] in Heof.
              replace (u8len c_cr) with 1 in Heof by reflexivity.
              replace ((c_cr =? c_lf) || (c_cr =? c_cr)) with true in Heof by reflexivity.
              destruct (N.eqb_spec off 1); [lia|]. now replace (off - 1 =? 0) with false by lia.
           ++ destruct (N.eqb_spec c2 c_lf) as [->|Hlf2].
              ** destruct (N.eqb_spec off 1) as [->|H1].
                 --- rewrite (Hcol Hkc). reflexivity.
                 --- assert (Heof2 : lc_k_eof (c_lf :: r2) (off - 1) = false).
                     { apply (k_eof_tail c_cr (c_lf :: r2) off 1); [discriminate|reflexivity|lia|exact Heof]. }
                     cbn [lc_k_sep] in Hsep. replace (u8len c_lf) with 1 in Hsep by reflexivity.
                     replace (off - 1 <? 1) with false in Hsep by lia.
                     apply orb_false_iff in Hsep as [_ Hsep].
                     replace (off - 1 - 1) with (off - 2) in Hsep by lia.
                     destruct r2 as [|c3 r3].
                     +++ cbn [lc_scan]. unfold lc_k_eof in Heof2. cbn [blen rev app] in Heof2.
                         replace (u8len c_lf) with 1 in Heof2 by reflexivity.
                         replace ((c_lf =? c_lf) || (c_lf =? c_cr)) with true in Heof2 by reflexivity.
                         destruct (N.eqb_spec off 2); [lia|]. now replace (off - 2 =? 0) with false by lia.
                     +++ cbn [length] in Hr.
                         apply (IH (c3 :: r3) ltac:(cbn [length]; lia) (off - 2) (line + 1) 1 1 false); auto.
                         replace (off - 2) with (off - 1 - 1) by lia.
                         apply (k_eof_tail c_lf (c3 :: r3) (off - 1) 1); [discriminate|reflexivity|lia|exact Heof2].
              ** apply (IH (c2 :: r2) Hr (off - 1) (line + 1) 1 1 false); auto.
                 apply (k_eof_tail c_cr (c2 :: r2) off 1); [discriminate|reflexivity|lia|exact Heof].
        -- destruct (lc_is_ariadne_sep c) eqn:Es.
           ++ rewrite (extra_sep_is_sep c Es Hcr Hlf) in Hex. discriminate.
           ++ apply (IH r Hr (off - u8len c) line (col1 + u8len c) (col2 + 1) (acc || (1 <? u8len c))); auto.
              ** intros Ha. apply orb_false_iff in Ha as [Ha1 Ha2]. rewrite (Hcol Ha1). lia.
              ** destruct r as [|c2 r2]; [unfold lc_k_eof; cbn [rev]; apply andb_false_r|].
                 apply (k_eof_tail c (c2 :: r2) off (u8len c)); [discriminate|reflexivity|lia|exact Heof].
Qed.

(* C11, restricted to offsets outside the three known classes *)
Theorem line_col_correct s off :
  lc_known_c11 s off = false -> lc_impl_line_col s off = res_of (lc_line_col s off).
Proof.
  unfold lc_known_c11, lc_k_col, lc_line_col. intros H.
  apply orb_false_iff in H as [H Heof]. apply orb_false_iff in H as [Hsep Hcol].
  rewrite impl_line_col_scan. f_equal.
  apply (scan_spec (length s) s (Nat.le_refl _) off 1 1 1 false); auto.
Qed.

(* get_line_column_range is the pair of the endpoint conversions (both must exist) *)
Theorem range_is_pair s a b :
  lc_impl_range s a b =
    match lc_impl_line_col s a, lc_impl_line_col s b with
    | LcSome l1 c1, LcSome l2 c2 => Some ((l1, c1), (l2, c2))
    | _, _ => None
    end.
Proof. unfold lc_impl_range. destruct (lc_impl_line_col s a); reflexivity. Qed.

(* sanity of the specification: defined exactly up to the end of the text; line and column start at 1 *)
Lemma lc_scan_none s : forall off line col, lc_scan s off line col = None <-> blen s < off.
Proof.
  assert (H : forall n s, (length s <= n)%nat -> forall off line col,
             lc_scan s off line col = None <-> blen s < off).
  { induction n as [|n IH]; intros s' Hlen off line col.
    - destruct s'; [|cbn in Hlen; lia]. cbn [lc_scan blen].
      destruct (N.eqb_spec off 0); split; try discriminate; try lia; auto.
    - destruct s' as [|c r]; [apply (IH []); cbn; lia|].
      cbn [length] in Hlen. assert (Hr : (length r <= n)%nat) by lia.
      pose proof (u8len_pos c). cbn [lc_scan blen].
      destruct (N.ltb_spec off (u8len c)); [split; [discriminate|lia]|].
      destruct (N.eqb_spec c c_lf) as [->|].
      + rewrite (IH r Hr). replace (u8len c_lf) with 1 by reflexivity. lia.
      + destruct (N.eqb_spec c c_cr) as [->|].
        * replace (u8len c_cr) with 1 in * by reflexivity.
          destruct r as [|c2 r2]; [rewrite (IH [] Hr); cbn [blen]; lia|].
          destruct (N.eqb_spec c2 c_lf) as [->|].
          -- cbn [blen]. replace (u8len c_lf) with 1 by reflexivity.
             destruct (N.eqb_spec off 1); [split; [discriminate|lia]|].
             cbn [length] in Hr. rewrite (IH r2 ltac:(lia)). lia.
          -- rewrite (IH (c2 :: r2) Hr). lia.
        * rewrite (IH r Hr). lia. }
  intros off line col. apply (H (length s) s (Nat.le_refl _)).
Qed.

Theorem line_col_defined s off : lc_line_col s off = None <-> blen s < off.
Proof. apply lc_scan_none. Qed.

(* ------------------------------------------------------------------ Name's packed location *)
From ApolloVerif Require Import Loc.Spans.

Theorem name_location_roundtrip text s e n' :
  lc_name_with_location (lc_name_new text) (s, e) = LcWlOk n' ->
  lc_name_location n' = Some (s, e) /\ lcn_text n' = text /\ e - s = blen text.
Proof.
  unfold lc_name_with_location, lc_name_new. cbn [lcn_text].
  destruct ((e - s =? blen text) && (s <=? e)) eqn:E; [|discriminate].
  intros [= <-]. unfold lc_name_location. cbn [lcn_has_file lcn_start lcn_text].
  repeat split; [f_equal; f_equal; lia|lia].
Qed.

(* ------------------------------------------------------------------ the specification is a left fold

   Scanning p ++ q up to an offset in q is scanning p to its end and continuing in q from the (line, column)
   reached, unless the cut separates the \r and the \n of one \r\n terminator.  Together with the
   one-character facts below this characterises [lc_scan]: \n, \r\n and a lone \r each add one line and
   reset the column to 1; any other scalar value adds one column. *)
Definition crlf_cut (p q : str) : bool :=
  lc_ends_with_cr p && match q with c :: _ => c =? c_lf | [] => false end.

Lemma ends_with_cr_cons c r : r <> [] -> lc_ends_with_cr (c :: r) = lc_ends_with_cr r.
Proof.
  intros Hr. unfold lc_ends_with_cr. cbn [rev]. destruct (rev r) as [|x t] eqn:E.
  - apply (f_equal (@rev N)) in E. rewrite rev_involutive in E. cbn in E. congruence.
  - reflexivity.
Qed.

Lemma crlf_cut_cons c r q : r <> [] -> crlf_cut (c :: r) q = crlf_cut r q.
Proof. intros Hr. unfold crlf_cut. now rewrite ends_with_cr_cons. Qed.

Lemma crlf_cut_nil q : crlf_cut [] q = false.
Proof. reflexivity. Qed.

Lemma lc_scan_app n : forall p, (length p <= n)%nat -> forall q o line col,
  crlf_cut p q = false ->
  lc_scan (p ++ q) (blen p + o) line col =
    match lc_scan p (blen p) line col with
    | Some (l, c) => lc_scan q o l c
    | None => None
    end.
Proof.
  induction n as [|n IH]; intros p Hlen q o line col Hcut.
  - destruct p; [|cbn in Hlen; lia]. cbn [app blen lc_scan]. now replace (0 + o) with o by lia.
  - destruct p as [|c r]; [apply (IH []); [cbn; lia|exact Hcut]|].
    cbn [length] in Hlen. assert (Hr : (length r <= n)%nat) by lia.
    pose proof (u8len_pos c) as Hpos. cbn [app blen lc_scan].
    replace (u8len c + blen r + o <? u8len c) with false by lia.
    replace (u8len c + blen r <? u8len c) with false by lia.
    assert (Hcut_r : crlf_cut r q = false).
    { destruct r as [|c2 r2]; [apply crlf_cut_nil|]. rewrite <- (crlf_cut_cons c); [exact Hcut|discriminate]. }
    destruct (N.eqb_spec c c_lf) as [->|Hlf].
    + replace (u8len c_lf) with 1 by reflexivity.
      replace (1 + blen r + o - 1) with (blen r + o) by lia.
      replace (1 + blen r - 1) with (blen r) by lia. now apply IH.
    + destruct (N.eqb_spec c c_cr) as [->|Hcr].
      * replace (u8len c_cr) with 1 by reflexivity.
        destruct r as [|c2 r2].
        -- cbn [app blen]. replace (1 + 0 + o - 1) with o by lia. replace (1 + 0 - 1) with 0 by lia.
           cbn [lc_scan]. replace (0 =? 0) with true by reflexivity.
           destruct q as [|c3 q']; [reflexivity|].
           unfold crlf_cut in Hcut. replace (lc_ends_with_cr [c_cr]) with true in Hcut by reflexivity.
           cbn [andb] in Hcut. rewrite Hcut. reflexivity.
        -- cbn [app blen]. destruct (N.eqb_spec c2 c_lf) as [->|Hlf2].
           ++ replace (u8len c_lf) with 1 by reflexivity.
              replace (1 + (1 + blen r2) + o =? 1) with false by lia.
              replace (1 + (1 + blen r2) =? 1) with false by lia.
              replace (1 + (1 + blen r2) + o - 2) with (blen r2 + o) by lia.
              replace (1 + (1 + blen r2) - 2) with (blen r2) by lia.
              cbn [length] in Hr. apply (IH r2 ltac:(lia)).
              destruct r2 as [|c3 r3]; [apply crlf_cut_nil|].
              rewrite <- (crlf_cut_cons c_lf); [exact Hcut_r|discriminate].
           ++ replace (1 + (u8len c2 + blen r2) + o - 1) with (blen (c2 :: r2) + o) by (cbn [blen]; lia).
              replace (1 + (u8len c2 + blen r2) - 1) with (blen (c2 :: r2)) by (cbn [blen]; lia).
              apply (IH (c2 :: r2) Hr). exact Hcut_r.
      * replace (u8len c + blen r + o - u8len c) with (blen r + o) by lia.
        replace (u8len c + blen r - u8len c) with (blen r) by lia. now apply IH.
Qed.

Theorem line_col_compositional p q o line col :
  crlf_cut p q = false ->
  lc_scan (p ++ q) (blen p + o) line col =
    match lc_scan p (blen p) line col with
    | Some (l, c) => lc_scan q o l c
    | None => None
    end.
Proof. apply (lc_scan_app (length p) p (Nat.le_refl _)). Qed.

Theorem line_col_steps line col :
  lc_scan [c_lf] 1 line col = Some (line + 1, 1) /\
  lc_scan [c_cr; c_lf] 2 line col = Some (line + 1, 1) /\
  lc_scan [c_cr] 1 line col = Some (line + 1, 1) /\
  lc_scan [c_cr; c_lf] 1 line col = Some (line, col + 1) /\
  (forall c, c <> c_lf -> c <> c_cr -> lc_scan [c] (u8len c) line col = Some (line, col + 1)) /\
  (forall c k, 0 < k -> k < u8len c -> lc_scan [c] k line col = Some (line, col)).
Proof.
  repeat split; try reflexivity.
  - intros c Hlf Hcr. cbn [lc_scan]. replace (u8len c <? u8len c) with false by lia.
    replace (c =? c_lf) with false by lia. replace (c =? c_cr) with false by lia.
    now replace (u8len c - u8len c =? 0) with true by lia.
  - intros c k H0 Hk. cbn [lc_scan]. now replace (k <? u8len c) with true by lia.
Qed.
