(* C11: byte offset -> (line, column).
   (1) the specification [lc_line_col];
   (2) the function the code implements today: SourceFile::get_line_column
       (crates/apollo-compiler/src/parser.rs) = ariadne 0.6.0 Source::from + Source::get_byte_line
       (src/source.rs), modelled literally ([lc_split_inclusive], [lc_merge_lines], [lc_get_byte_line]);
   (3) the three classes of (text, offset) on which (2) differs from (1)  (finding D9).
   Definitions only; proofs are in LineColProofs.v. *)
From ApolloVerif Require Import Base.Chars.

(* ------------------------------------------------------------------ (1) specification

   line   = 1 + number of GraphQL LineTerminators (\n, \r\n as one, \r) wholly before byte offset off
   column = 1 + number of Unicode scalar values between the end of the last such terminator and off
            (scalar values wholly before off)
   None when off is beyond the end of the text.
   [lc_scan s off line col]: s is the text from the current position on, off the distance to go. *)
Fixpoint lc_scan (s : str) (off line col : N) : option (N * N) :=
  match s with
  | [] => if off =? 0 then Some (line, col) else None
  | c :: r =>
      if off <? u8len c then Some (line, col)          (* off = 0, or off inside c *)
      else if c =? c_lf then lc_scan r (off - 1) (line + 1) 1
      else if c =? c_cr then
        match r with
        | c2 :: r2 =>
            if c2 =? c_lf then
              if off =? 1 then Some (line, col + 1)    (* between \r and \n: the terminator is not wholly before *)
              else lc_scan r2 (off - 2) (line + 1) 1
            else lc_scan r (off - 1) (line + 1) 1
        | [] => lc_scan r (off - 1) (line + 1) 1
        end
      else lc_scan r (off - u8len c) line (col + 1)
  end.

Definition lc_line_col (s : str) (off : N) : option (N * N) := lc_scan s off 1 1.

(* ------------------------------------------------------------------ (2) the code

   ariadne::Source::from: SEPARATORS = ['\r', '\n', '\x0B', '\x0C', '\u{0085}', '\u{2028}', '\u{2029}'] *)
Definition lc_is_ariadne_sep (c : N) : bool :=
  (c =? 13) || (c =? 10) || (c =? 11) || (c =? 12) || (c =? 133) || (c =? 8232) || (c =? 8233).

(* str::split_inclusive(SEPARATORS): pieces end after each separator; no empty trailing piece.
   [cur] is the piece being accumulated. *)
Fixpoint lc_split_inclusive (s cur : str) : list str :=
  match s with
  | [] => match cur with [] => [] | _ => [cur] end
  | c :: r =>
      if lc_is_ariadne_sep c then (cur ++ [c]) :: lc_split_inclusive r []
      else lc_split_inclusive r (cur ++ [c])
  end.

Definition lc_ends_with_cr (p : str) : bool :=
  match rev p with c :: _ => c =? c_cr | [] => false end.

Definition lc_is_lf_piece (p : str) : bool :=
  match p with [c] => c =? c_lf | _ => false end.

(* the `while let Some(line) = remaining.next()` loop: a Line is (byte_offset, byte_len);
   `if line.ends_with('\r') && remaining.next_if_eq(&"\n").is_some() { byte_len += 1 }` *)
Fixpoint lc_merge_lines (pieces : list str) (byte_offset : N) : list (N * N) :=
  match pieces with
  | [] => []
  | p :: rest =>
      match rest with
      | q :: rest' =>
          if lc_ends_with_cr p && lc_is_lf_piece q
          then (byte_offset, blen p + 1) :: lc_merge_lines rest' (byte_offset + (blen p + 1))
          else (byte_offset, blen p) :: lc_merge_lines rest (byte_offset + blen p)
      | [] => [(byte_offset, blen p)]
      end
  end.

(* Source::from: an empty input is one empty line *)
Definition lc_source_lines (s : str) : list (N * N) :=
  match s with
  | [] => [(0, 0)]
  | _ => lc_merge_lines (lc_split_inclusive s []) 0
  end.

(* Source.byte_len: the running byte_offset after the loop *)
Definition lc_source_byte_len (lines : list (N * N)) : N :=
  fold_left (fun acc l => acc + snd l) lines 0.

(* lines.binary_search_by_key(&byte_offset, |line| line.byte_offset).unwrap_or_else(|idx| idx.saturating_sub(1)):
   the keys are strictly increasing (every line but the single line of an empty source is non-empty), so
   the result is the index of the last line whose byte_offset is <= the offset, or 0 if there is none.
   Modelled as a linear scan that stops at the first greater key. *)
Fixpoint lc_find_line (lines : list (N * N)) (off : N) (idx : N) (best : N * N) : N * N :=
  match lines with
  | [] => best
  | (start, _) :: r => if start <=? off then lc_find_line r off (idx + 1) (idx, start) else best
  end.

Inductive lcres :=
| LcNone
| LcSome (line col : N)
| LcPanic.                    (* the assert!(byte_offset >= line.byte_offset) of get_byte_line *)

(* Source::get_byte_line: zero-indexed (line, byte column) *)
Definition lc_get_byte_line (lines : list (N * N)) (off : N) : lcres :=
  if off <=? lc_source_byte_len lines then
    match lines with
    | [] => LcNone                                   (* self.line(idx)? *)
    | (start0, _) :: _ =>
        let '(idx, start) := lc_find_line lines off 0 (0, start0) in
        if off <? start then LcPanic else LcSome idx (off - start)
    end
  else LcNone.

(* SourceFile::get_line_column *)
Definition lc_impl_line_col (s : str) (off : N) : lcres :=
  match lc_get_byte_line (lc_source_lines s) off with
  | LcSome l c => LcSome (l + 1) (c + 1)
  | r => r
  end.

(* SourceFile::get_line_column_range / SourceSpan::line_column_range *)
Definition lc_impl_range (s : str) (a b : N) : option ((N * N) * (N * N)) :=
  match lc_impl_line_col s a with
  | LcSome l1 c1 =>
      match lc_impl_line_col s b with
      | LcSome l2 c2 => Some ((l1, c1), (l2, c2))
      | _ => None
      end
  | _ => None
  end.

(* ------------------------------------------------------------------ (3) the known classes

   K_sep : one of ariadne's extra separators (VT, FF, U+0085, U+2028, U+2029) lies wholly before off *)
Definition lc_is_extra_sep (c : N) : bool :=
  (c =? 11) || (c =? 12) || (c =? 133) || (c =? 8232) || (c =? 8233).

Fixpoint lc_k_sep (s : str) (off : N) : bool :=
  match s with
  | [] => false
  | c :: r => if off <? u8len c then false else lc_is_extra_sep c || lc_k_sep r (off - u8len c)
  end.

(* K_col : a multi-byte character starts before off on the line (by the GraphQL rule) that contains off
   ([acc]: one was seen since the last line terminator) *)
Fixpoint lc_k_col_scan (s : str) (off : N) (acc : bool) : bool :=
  match s with
  | [] => acc
  | c :: r =>
      if off =? 0 then acc
      else if off <? u8len c then true                 (* off inside c, so c is multi-byte *)
      else if c =? c_lf then lc_k_col_scan r (off - 1) false
      else if c =? c_cr then
        match r with
        | c2 :: r2 =>
            if c2 =? c_lf then
              if off =? 1 then acc else lc_k_col_scan r2 (off - 2) false
            else lc_k_col_scan r (off - 1) false
        | [] => lc_k_col_scan r (off - 1) false
        end
      else lc_k_col_scan r (off - u8len c) (acc || (1 <? u8len c))
  end.
Definition lc_k_col (s : str) (off : N) : bool := lc_k_col_scan s off false.

(* K_eof : off is the end of a text that ends with a line terminator *)
Definition lc_k_eof (s : str) (off : N) : bool :=
  (off =? blen s) &&
  match rev s with c :: _ => (c =? c_lf) || (c =? c_cr) | [] => false end.

Definition lc_known_c11 (s : str) (off : N) : bool := lc_k_sep s off || lc_k_col s off || lc_k_eof s off.

(* ------------------------------------------------------------------ one-pass form of (2)

   What lc_get_byte_line computes from the line table, as a single scan in the shape of [lc_scan]
   (LineColProofs.impl_line_col_scan proves the two equal): separators are ariadne's, the column counts
   bytes, and a separator that ends the text does not open a new line. *)
Fixpoint lc_impl_scan (s : str) (off line col : N) : option (N * N) :=
  match s with
  | [] => if off =? 0 then Some (line, col) else None
  | c :: r =>
      if off <? u8len c then Some (line, col + off)
      else if c =? c_cr then
        match r with
        | c2 :: r2 =>
            if c2 =? c_lf then
              if off =? 1 then Some (line, col + 1)
              else match r2 with
                   | [] => if off =? 2 then Some (line, col + 2) else None
                   | _ => lc_impl_scan r2 (off - 2) (line + 1) 1
                   end
            else lc_impl_scan r (off - 1) (line + 1) 1
        | [] => if off =? 1 then Some (line, col + 1) else None
        end
      else if lc_is_ariadne_sep c then
        match r with
        | [] => if off =? u8len c then Some (line, col + off) else None
        | _ => lc_impl_scan r (off - u8len c) (line + 1) 1
        end
      else lc_impl_scan r (off - u8len c) line (col + u8len c)
  end.
