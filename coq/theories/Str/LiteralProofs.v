(* Proofs about whole literals: the boolean validity of block bodies (Str/Literal.v) is the derivability in
   the grammar (BlockChars, Str/BlockString.v); a classified literal has the shape quotes ++ body ++ quotes;
   String::from(&StringValue) on it (su_string_of_token) slices without panic and yields the specified value. *)
From ApolloVerif Require Import Base.Chars Str.Unescape Str.Literal Str.BlockString Str.QuotedProofs Str.BlockProofs.
From Coq Require Import ZifyBool ZifyN Arith.

(* ------------------------------------------------------------------ prefixes *)
Lemma prefix_q_iff s : su_prefix_q s = true <-> has_prefix [34] s.
Proof.
  split.
  - destruct s as [|a t]; cbn; [discriminate|]. intros H. exists t. unfold c_quote in H. cbn [app]. f_equal. lia.
  - intros [t ->]. reflexivity.
Qed.
Lemma prefix_qq_iff s : su_prefix_qq s = true <-> has_prefix [34; 34] s.
Proof.
  split.
  - destruct s as [|a [|b t]]; cbn; try discriminate; [rewrite andb_false_r; discriminate|].
    intros H. exists t. unfold c_quote in H. cbn [app]. apply andb_true_iff in H as [H1 H2]. repeat f_equal; lia.
  - intros [t ->]. reflexivity.
Qed.
Lemma prefix_qqq_iff s : su_prefix_qqq s = true <-> has_prefix [34; 34; 34] s.
Proof.
  split.
  - intros H. apply prefix_qqq_inv in H as [t ->]. exists t. reflexivity.
  - intros [t ->]. reflexivity.
Qed.

Lemma has_prefix_cons a p c s : has_prefix (a :: p) (c :: s) <-> a = c /\ has_prefix p s.
Proof.
  split.
  - intros [t E]. injection E as -> ->. split; [reflexivity|]. exists t. reflexivity.
  - intros [-> [t ->]]. exists t. reflexivity.
Qed.

(* ------------------------------------------------------------------ block body validity = derivability *)
Lemma bscan_BlockChars ctx : forall s, sl_bscan ctx 0 s = true -> exists raw, BlockChars ctx s raw.
Proof.
  induction s as [s IH] using list_len_ind. intros H.
  destruct s as [|c r]; [exists []; constructor|].
  cbn [sl_bscan] in H. unfold c_bslash, c_quote in H.
  destruct (N.eqb_spec c 92) as [->|Hb].
  - destruct (su_prefix_qqq r) eqn:Er.
    + apply prefix_qqq_inv in Er as [t ->].
      change (sl_bscan ctx 3 (c_quote :: c_quote :: c_quote :: t)) with (sl_bscan ctx 0 t) in H.
      destruct (IH t) as [raw Hraw]; [cbn; lia|exact H|].
      exists (34 :: 34 :: 34 :: raw). apply BC_escaped. exact Hraw.
    + apply andb_true_iff in H as [Hn H]. apply negb_true_iff in Hn.
      destruct (IH r) as [raw Hraw]; [cbn; lia|exact H|].
      exists (92 :: raw). apply BC_source; [| |exact Hraw].
      * rewrite has_prefix_cons. intros [? _]; discriminate.
      * rewrite has_prefix_cons. intros [_ Hp]. apply prefix_qqq_iff in Hp. congruence.
  - destruct (N.eqb_spec c 34) as [->|Hq].
    + apply andb_true_iff in H as [Hn H]. apply negb_true_iff in Hn.
      destruct (IH r) as [raw Hraw]; [cbn; lia|exact H|].
      exists (34 :: raw). apply BC_source; [| |exact Hraw].
      * rewrite has_prefix_cons. intros [_ Hp]. apply prefix_qq_iff in Hp. congruence.
      * rewrite has_prefix_cons. intros [? _]; discriminate.
    + destruct (IH r) as [raw Hraw]; [cbn; lia|exact H|].
      exists (c :: raw). apply BC_source; [| |exact Hraw]; rewrite has_prefix_cons; intros [? _]; congruence.
Qed.

Lemma BlockChars_bscan ctx s raw : BlockChars ctx s raw -> sl_bscan ctx 0 s = true.
Proof.
  induction 1 as [|r v H IH|c r v Hq Hb H IH].
  - reflexivity.
  - exact IH.
  - cbn [sl_bscan]. unfold c_bslash, c_quote.
    destruct (N.eqb_spec c 92) as [->|Hc].
    + destruct (su_prefix_qqq r) eqn:Er.
      * exfalso. apply Hb. rewrite has_prefix_cons. split; [reflexivity|].
        apply prefix_qqq_iff in Er. apply has_prefix_app. exact Er.
      * rewrite IH, andb_true_r. apply negb_true_iff.
        destruct (su_prefix_qqq (r ++ ctx)) eqn:E; [|reflexivity].
        exfalso. apply Hb. rewrite has_prefix_cons. split; [reflexivity|]. now apply prefix_qqq_iff.
    + destruct (N.eqb_spec c 34) as [->|Hc'].
      * rewrite IH, andb_true_r. apply negb_true_iff.
        destruct (su_prefix_qq (r ++ ctx)) eqn:E; [|reflexivity].
        exfalso. apply Hq. rewrite has_prefix_cons. split; [reflexivity|]. now apply prefix_qq_iff.
      * exact IH.
Qed.

Theorem block_body_valid_iff body :
  sl_block_body_valid body = true <-> exists raw, BlockRawValue body raw.
Proof.
  unfold sl_block_body_valid, BlockRawValue. split.
  - apply bscan_BlockChars.
  - intros [raw H]. eapply BlockChars_bscan; eauto.
Qed.

(* ------------------------------------------------------------------ the shape of classified literals *)
Lemma forallb_q3 l : length l = 3%nat -> forallb (N.eqb c_quote) l = true -> l = [34; 34; 34].
Proof.
  destruct l as [|a [|b [|c [|d l]]]]; cbn [length]; try discriminate. intros _.
  cbn [forallb]. unfold c_quote. intros H. repeat f_equal; lia.
Qed.
Lemma forallb_q1 l : length l = 1%nat -> forallb (N.eqb c_quote) l = true -> l = [34].
Proof.
  destruct l as [|a [|b l]]; cbn [length]; try discriminate. intros _.
  cbn [forallb]. unfold c_quote. intros H. repeat f_equal; lia.
Qed.

Lemma classify_block text b :
  sl_classify_literal text = SlBlock b -> text = sl_qqq ++ b ++ sl_qqq /\ sl_block_body_valid b = true.
Proof.
  unfold sl_classify_literal. destruct (su_prefix_qqq text) eqn:P.
  - destruct (Nat.leb 6 (length text)) eqn:L; cbn [andb]; [|discriminate].
    destruct (sl_ends_with_q 3 text) eqn:Q; cbn [andb]; [|discriminate].
    destruct (sl_block_body_valid (sl_strip_quotes 3 text)) eqn:V; [|discriminate].
    intros [= <-]. split; [|exact V].
    apply prefix_qqq_inv in P as [t ->]. apply Nat.leb_le in L. cbn [length] in L.
    unfold sl_strip_quotes, sl_drop_last. cbn [skipn].
    unfold sl_ends_with_q in Q. cbn [length] in Q.
    replace (S (S (S (length t))) - 3)%nat with (3 + (length t - 3))%nat in Q by lia.
    cbn [Nat.add skipn] in Q.
    assert (Hl : length (skipn (length t - 3) t) = 3%nat) by (rewrite skipn_length; lia).
    rewrite <- (firstn_skipn (length t - 3) t) at 1.
    rewrite (forallb_q3 _ Hl Q). reflexivity.
  - destruct (su_prefix_q text); [|discriminate].
    destruct (Nat.leb 2 (length text) && sl_ends_with_q 1 text && sl_quoted_body_valid (sl_strip_quotes 1 text)); discriminate.
Qed.

Lemma quoted_shape text :
  su_prefix_q text = true -> Nat.leb 2 (length text) = true -> sl_ends_with_q 1 text = true ->
  text = 34 :: sl_strip_quotes 1 text ++ [34].
Proof.
  intros P L Q. apply prefix_q_iff in P as [t ->]. apply Nat.leb_le in L. cbn [length app] in *.
  unfold sl_strip_quotes, sl_drop_last. cbn [skipn].
  unfold sl_ends_with_q in Q. cbn [length] in Q.
  replace (S (length t) - 1)%nat with (1 + (length t - 1))%nat in Q by lia.
  cbn [Nat.add skipn] in Q.
  assert (Hl : length (skipn (length t - 1) t) = 1%nat) by (rewrite skipn_length; lia).
  rewrite <- (firstn_skipn (length t - 1) t) at 1.
  rewrite (forallb_q1 _ Hl Q). reflexivity.
Qed.

Lemma classify_quoted text b :
  sl_classify_literal text = SlQuoted b ->
  text = 34 :: b ++ [34] /\ sl_quoted_body_valid b = true /\ su_prefix_qqq text = false.
Proof.
  unfold sl_classify_literal. destruct (su_prefix_qqq text) eqn:P.
  - destruct (Nat.leb 6 (length text) && sl_ends_with_q 3 text && sl_block_body_valid (sl_strip_quotes 3 text)); discriminate.
  - destruct (su_prefix_q text) eqn:P1; [|discriminate].
    destruct (Nat.leb 2 (length text)) eqn:L; cbn [andb]; [|discriminate].
    destruct (sl_ends_with_q 1 text) eqn:Q; cbn [andb]; [|discriminate].
    destruct (sl_quoted_body_valid (sl_strip_quotes 1 text)) eqn:V; [|discriminate].
    intros [= <-]. split; [|split; [exact V|reflexivity]].
    apply quoted_shape; assumption.
Qed.

(* ------------------------------------------------------------------ String::from(&StringValue) *)
Lemma byte_slice_from_prefix p q : su_slice_from (blen p) (p ++ q) = SuOk q.
Proof.
  induction p as [|c p IH]; cbn [blen app su_slice_from].
  - destruct q; reflexivity.
  - pose proof (u8len_pos c). replace (u8len c + blen p =? 0) with false by lia.
    replace (u8len c <=? u8len c + blen p) with true by lia.
    replace (u8len c + blen p - u8len c) with (blen p) by lia. exact IH.
Qed.

Lemma slice_inner_quotes (o : str) body :
  su_slice_inner (blen o) (blen o) (o ++ body ++ o) = SuOk body.
Proof.
  unfold su_slice_inner. rewrite !blen_app.
  replace (blen o + (blen body + blen o) <? blen o) with false by lia.
  replace (blen o + (blen body + blen o) - blen o <? blen o) with false by lia.
  replace (blen o + (blen body + blen o) - blen o) with (blen (o ++ body)) by (rewrite blen_app; lia).
  rewrite app_assoc, byte_slice_to_prefix. cbn [su_bind]. apply byte_slice_from_prefix.
Qed.

Lemma string_of_block_token body :
  su_string_of_token (sl_qqq ++ body ++ sl_qqq) = su_unescape_block_string body.
Proof.
  unfold su_string_of_token. change (su_is_block_string (sl_qqq ++ body ++ sl_qqq)) with true. cbn iota.
  change 3 with (blen sl_qqq). rewrite slice_inner_quotes. reflexivity.
Qed.

Lemma string_of_quoted_token body :
  su_prefix_qqq (34 :: body ++ [34]) = false ->
  su_string_of_token (34 :: body ++ [34]) = su_unescape_string body.
Proof.
  intros P. unfold su_string_of_token, su_is_block_string. rewrite P.
  change (34 :: body ++ [34]) with ([34] ++ body ++ [34]). change 1 with (blen [34]).
  rewrite slice_inner_quotes. reflexivity.
Qed.

(* ------------------------------------------------------------------ the value of a classified literal *)
Theorem literal_quoted_value text body :
  sl_classify_literal text = SlQuoted body ->
  exists v, su_string_of_token text = SuOk v /\ StringChars body v.
Proof.
  intros H. apply classify_quoted in H as [-> [V P]].
  rewrite (string_of_quoted_token _ P). apply quoted_decodes. exact V.
Qed.

Theorem literal_block_value text body :
  sl_classify_literal text = SlBlock body ->
  exists raw, BlockRawValue body raw /\ su_string_of_token text = SuOk (bs_BlockStringValue raw).
Proof.
  intros H. apply classify_block in H as [-> V].
  apply block_body_valid_iff in V as [raw Hraw]. exists raw. split; [exact Hraw|].
  rewrite string_of_block_token. apply block_string_value. exact Hraw.
Qed.

(* everything the lexer accepts converts without panic *)
Theorem literal_no_panic text :
  sl_lexer_accepts_literal text = true -> exists v, su_string_of_token text = SuOk v.
Proof.
  unfold sl_lexer_accepts_literal. destruct (sl_classify_literal text) as [b|b|] eqn:C; intros H.
  - destruct (literal_quoted_value _ _ C) as [v [E _]]. eauto.
  - destruct (literal_block_value _ _ C) as [raw [_ E]]. eauto.
  - apply andb_true_iff in H as [H V]. apply andb_true_iff in H as [H Q].
    apply andb_true_iff in H as [H L]. apply andb_true_iff in H as [P3 P1].
    apply negb_true_iff in P3.
    pose proof (quoted_shape _ P1 L Q) as E. rewrite E in P3 |- *.
    rewrite (string_of_quoted_token _ P3). apply quoted_no_panic. exact V.
Qed.
