(* 'Lexically valid string literal', written after the acceptance rules of the string states of
   crates/apollo-parser/src/lexer/mod.rs (Cursor::advance).  Self-contained: does not depend on the lexer
   model of Lex/.  A literal is the whole token text including its quotes; a body is the text between them.
   The correspondence check compares these predicates with the real lexer on every generated literal. *)
From ApolloVerif Require Import Base.Chars Str.Unescape.

Definition sl_line_terminator (c : N) : bool := (c =? c_lf) || (c =? c_cr).
(* is_escaped_char (lexer/mod.rs) *)
Definition sl_escaped_char (c : N) : bool :=
  (c =? c_quote) || (c =? c_bslash) || (c =? c_slash) || (c =? c_b) || (c =? c_f) || (c =? c_n)
  || (c =? c_r) || (c =? c_t).
(* char::is_ascii_hexdigit *)
Definition sl_hexdigit (c : N) : bool :=
  ((48 <=? c) && (c <=? 57)) || ((65 <=? c) && (c <=? 70)) || ((97 <=? c) && (c <=? 102)).
Definition sl_hex_val (c : N) : N :=
  if c <=? 57 then c - 48 else if c <=? 70 then c - 55 else c - 87.

(* ---- quoted strings.  The lexer's states after the opening quote:
     QStart            = State::StringLiteralStart  (the first character is not tested for line terminators)
     QNormal           = State::StringLiteral
     QBackslash        = State::StringLiteralBackslash
     QUnicode k acc    = State::StringLiteralEscapedUnicode(k), acc = value of the digits seen so far
   lexq st body = true  iff  running from st over `body` followed by the closing quote raises no error and
   ends the token exactly at that closing quote. *)
Inductive qstate := QStart | QNormal | QBackslash | QUnicode (k : nat) (acc : N).

Fixpoint lexq (st : qstate) (s : str) : bool :=
  match s with
  | [] =>
      (* the closing quote arrives *)
      match st with
      | QStart | QNormal => true
      | QBackslash => false                    (* backslash-quote is an escape: the string is not closed here *)
      | QUnicode _ _ => false                  (* incomplete unicode escape sequence *)
      end
  | c :: r =>
      match st with
      | QStart =>
          if c =? c_quote then false           (* QQ followed by more text: empty string or block string *)
          else if c =? c_bslash then lexq QBackslash r
          else lexq QNormal r
      | QNormal =>
          if c =? c_quote then false           (* the token ends before the end of the body *)
          else if sl_line_terminator c then false
          else if c =? c_bslash then lexq QBackslash r
          else lexq QNormal r
      | QBackslash =>
          if sl_escaped_char c then lexq QNormal r
          else if c =? c_u then lexq (QUnicode 4 0) r
          else false                           (* unexpected escaped character *)
      | QUnicode k acc =>
          if c =? c_quote then false
          else if negb (sl_hexdigit c) then false
          else
            let acc' := acc * 16 + sl_hex_val c in
            match k with
            | O | S O => if scalarb acc' then lexq QNormal r else false   (* surrogate code point *)
            | S k' => lexq (QUnicode k' acc') r
            end
      end
  end.

(* what the lexer accepts *)
Definition quoted_body_lexer_ok (body : str) : bool := lexq QStart body.
(* what the grammar allows: StringCharacter* ; the lexer's rule with the first character checked too *)
Definition quoted_body_valid (body : str) : bool := lexq QNormal body.

(* the class on which the two differ *)
Definition leading_line_terminator (body : str) : bool :=
  match body with c :: _ => sl_line_terminator c | [] => false end.

(* ---- block strings.  `ctx` is the text that follows the scanned part (for a whole body: the closing QQQ; Q = quotation mark).
   bscan ctx 0 body = true iff, reading left to right with \QQQ taken as a unit, no unescaped QQQ starts
   inside `body` (looking ahead into ctx) and no \QQQ straddles the end of `body`.
   skip = number of characters still covered by an escape \QQQ that was recognised. *)
Definition qqq : str := [c_quote; c_quote; c_quote].

Fixpoint bscan (ctx : str) (skip : nat) (s : str) : bool :=
  match s with
  | [] => match skip with O => true | S _ => false end
  | c :: r =>
      match skip with
      | S k => bscan ctx k r
      | O =>
          if c =? c_bslash then
            if prefix_qqq r then bscan ctx 3 r
            else negb (prefix_qqq (r ++ ctx)) && bscan ctx 0 r
          else if c =? c_quote then negb (prefix_qq (r ++ ctx)) && bscan ctx 0 r
          else bscan ctx 0 r
      end
  end.

Definition block_body_valid (body : str) : bool := bscan qqq 0 body.

(* ---- whole literals (token text) *)
Inductive litkind := LQuoted (body : str) | LBlock (body : str) | LInvalid.

Definition drop_last {A} (n : nat) (l : list A) : list A := firstn (length l - n) l.

(* body of a literal that starts with `open` quotes and ends with as many *)
Definition strip_quotes (n : nat) (text : str) : str := drop_last n (skipn n text).

Definition ends_with_q (n : nat) (text : str) : bool :=
  forallb (N.eqb c_quote) (skipn (length text - n) text).

(* strict classification: LQuoted/LBlock iff `text` is exactly one valid StringValue token *)
Definition classify_literal (text : str) : litkind :=
  if prefix_qqq text then
    if Nat.leb 6 (length text) && ends_with_q 3 text && block_body_valid (strip_quotes 3 text)
    then LBlock (strip_quotes 3 text) else LInvalid
  else if prefix_q text then
    if Nat.leb 2 (length text) && ends_with_q 1 text && quoted_body_valid (strip_quotes 1 text)
    then LQuoted (strip_quotes 1 text) else LInvalid
  else LInvalid.

(* the lexer's own acceptance of a quoted literal: additionally a leading raw line terminator *)
Definition lexer_accepts_literal (text : str) : bool :=
  match classify_literal text with
  | LInvalid =>
      negb (prefix_qqq text) && prefix_q text && Nat.leb 2 (length text) && ends_with_q 1 text
      && quoted_body_lexer_ok (strip_quotes 1 text)
  | _ => true
  end.
