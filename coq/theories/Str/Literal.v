(* 'Lexically valid string literal', written after the acceptance rules of the string states of
   crates/apollo-parser/src/lexer/mod.rs (Cursor::advance).  Self-contained: does not depend on the lexer
   model of Lex/.  A literal is the whole token text including its quotes; a body is the text between them.
   The correspondence check compares these predicates with the real lexer on every generated literal. *)
From ApolloVerif Require Import Base.Chars Str.Unescape.

Definition sl_line_terminator (c : N) : bool := (c =? c_lf) || (c =? c_cr).
(* is_escaped_char (lexer/mod.rs) *)
Definition sl_escaped_char (c : N) : bool :=
  (c =? c_quote) || (c =? c_bslash) || (c =? c_slash) || (c =? su_c_b) || (c =? su_c_f) || (c =? su_c_n)
  || (c =? su_c_r) || (c =? su_c_t).
(* char::is_ascii_hexdigit *)
Definition sl_hexdigit (c : N) : bool :=
  ((48 <=? c) && (c <=? 57)) || ((65 <=? c) && (c <=? 70)) || ((97 <=? c) && (c <=? 102)).
Definition sl_hex_val (c : N) : N :=
  if c <=? 57 then c - 48 else if c <=? 70 then c - 55 else c - 87.

(* ---- quoted strings.  The lexer's states after the opening quote:
     SlQStart            = State::StringLiteralStart  (the first character is not tested for line terminators)
     SlQNormal           = State::StringLiteral
     SlQBackslash        = State::StringLiteralBackslash
     SlQUnicode k acc    = State::StringLiteralEscapedUnicode(k), acc = value of the digits seen so far
   sl_lexq st body = true  iff  running from st over `body` followed by the closing quote raises no error and
   ends the token exactly at that closing quote. *)
Inductive sl_qstate := SlQStart | SlQNormal | SlQBackslash | SlQUnicode (k : nat) (acc : N).

Fixpoint sl_lexq (st : sl_qstate) (s : str) : bool :=
  match s with
  | [] =>
      (* the closing quote arrives *)
      match st with
      | SlQStart | SlQNormal => true
      | SlQBackslash => false                    (* backslash-quote is an escape: the string is not closed here *)
      | SlQUnicode _ _ => false                  (* incomplete unicode escape sequence *)
      end
  | c :: r =>
      match st with
      | SlQStart =>
          if c =? c_quote then false           (* QQ followed by more text: empty string or block string *)
          else if c =? c_bslash then sl_lexq SlQBackslash r
          else sl_lexq SlQNormal r
      | SlQNormal =>
          if c =? c_quote then false           (* the token ends before the end of the body *)
          else if sl_line_terminator c then false
          else if c =? c_bslash then sl_lexq SlQBackslash r
          else sl_lexq SlQNormal r
      | SlQBackslash =>
          if sl_escaped_char c then sl_lexq SlQNormal r
          else if c =? su_c_u then sl_lexq (SlQUnicode 4 0) r
          else false                           (* unexpected escaped character *)
      | SlQUnicode k acc =>
          if c =? c_quote then false
          else if negb (sl_hexdigit c) then false
          else
            let acc' := acc * 16 + sl_hex_val c in
            match k with
            | O | S O => if scalarb acc' then sl_lexq SlQNormal r else false   (* surrogate code point *)
            | S k' => sl_lexq (SlQUnicode k' acc') r
            end
      end
  end.

(* what the lexer accepted before the repair 4dbec7a (first character not tested for line terminators);
   kept for the refuted witness only *)
Definition sl_quoted_body_lexer_ok_old (body : str) : bool := sl_lexq SlQStart body.
(* what the lexer accepts: since 4dbec7a State::StringLiteralStart has an arm for line terminators *)
Definition sl_quoted_body_lexer_ok (body : str) : bool :=
  match body with
  | [] => true
  | c :: r =>
      if c =? c_quote then false
      else if c =? c_bslash then sl_lexq SlQBackslash r
      else if sl_line_terminator c then false
      else sl_lexq SlQNormal r
  end.
(* what the grammar allows: StringCharacter* ; the lexer's rule with the first character checked too *)
Definition sl_quoted_body_valid (body : str) : bool := sl_lexq SlQNormal body.

(* the class on which the two differ *)
Definition sl_leading_line_terminator (body : str) : bool :=
  match body with c :: _ => sl_line_terminator c | [] => false end.

(* ---- block strings.  `ctx` is the text that follows the scanned part (for a whole body: the closing QQQ; Q = quotation mark).
   sl_bscan ctx 0 body = true iff, reading left to right with \QQQ taken as a unit, no unescaped QQQ starts
   inside `body` (looking ahead into ctx) and no \QQQ straddles the end of `body`.
   skip = number of characters still covered by an escape \QQQ that was recognised. *)
Definition sl_qqq : str := [c_quote; c_quote; c_quote].

Fixpoint sl_bscan (ctx : str) (skip : nat) (s : str) : bool :=
  match s with
  | [] => match skip with O => true | S _ => false end
  | c :: r =>
      match skip with
      | S k => sl_bscan ctx k r
      | O =>
          if c =? c_bslash then
            if su_prefix_qqq r then sl_bscan ctx 3 r
            else negb (su_prefix_qqq (r ++ ctx)) && sl_bscan ctx 0 r
          else if c =? c_quote then negb (su_prefix_qq (r ++ ctx)) && sl_bscan ctx 0 r
          else sl_bscan ctx 0 r
      end
  end.

Definition sl_block_body_valid (body : str) : bool := sl_bscan sl_qqq 0 body.

(* ---- whole literals (token text) *)
Inductive sl_litkind := SlQuoted (body : str) | SlBlock (body : str) | SlInvalid.

Definition sl_drop_last {A} (n : nat) (l : list A) : list A := firstn (length l - n) l.

(* body of a literal that starts with `open` quotes and ends with as many *)
Definition sl_strip_quotes (n : nat) (text : str) : str := sl_drop_last n (skipn n text).

Definition sl_ends_with_q (n : nat) (text : str) : bool :=
  forallb (N.eqb c_quote) (skipn (length text - n) text).

(* strict classification: SlQuoted/SlBlock iff `text` is exactly one valid StringValue token *)
Definition sl_classify_literal (text : str) : sl_litkind :=
  if su_prefix_qqq text then
    if Nat.leb 6 (length text) && sl_ends_with_q 3 text && sl_block_body_valid (sl_strip_quotes 3 text)
    then SlBlock (sl_strip_quotes 3 text) else SlInvalid
  else if su_prefix_q text then
    if Nat.leb 2 (length text) && sl_ends_with_q 1 text && sl_quoted_body_valid (sl_strip_quotes 1 text)
    then SlQuoted (sl_strip_quotes 1 text) else SlInvalid
  else SlInvalid.

(* the lexer's own acceptance of a quoted literal: additionally a leading raw line terminator *)
Definition sl_lexer_accepts_literal (text : str) : bool :=
  match sl_classify_literal text with
  | SlInvalid =>
      negb (su_prefix_qqq text) && su_prefix_q text && Nat.leb 2 (length text) && sl_ends_with_q 1 text
      && sl_quoted_body_lexer_ok (sl_strip_quotes 1 text)
  | _ => true
  end.
