(* Proofs about serialization of strings (Str/Escape.v, model of ast/serialize.rs): what is printed is a
   lexically valid literal (Str/Literal.v) that String::from(&StringValue) (Str/Unescape.v) decodes to the
   original string, for the quoted form, the block form at any indentation, and whichever form is chosen. *)
From ApolloVerif Require Import Base.Chars Str.Unescape Str.Literal Str.BlockString Str.Escape
  Str.QuotedProofs Str.BlockProofs Str.LiteralProofs.
From Coq Require Import ZifyBool ZifyN Arith.

(* ------------------------------------------------------------------ literals from valid bodies *)

Lemma skipn_length_app {A} (a b : list A) : skipn (length a) (a ++ b) = b.
Proof. induction a as [|x a IH]; [reflexivity|exact IH]. Qed.
Lemma firstn_length_app {A} (a b : list A) : firstn (length a) (a ++ b) = a.
Proof. induction a as [|x a IH]; [destruct b; reflexivity|cbn; now rewrite IH]. Qed.

Lemma ends_with_q_app a q :
  forallb (N.eqb c_quote) q = true -> sl_ends_with_q (length q) (a ++ q) = true.
Proof.
  intros H. unfold sl_ends_with_q. rewrite app_length.
  replace (length a + length q - length q)%nat with (length a) by lia.
  now rewrite skipn_length_app.
Qed.

Lemma classify_quoted_intro body :
  sl_quoted_body_valid body = true -> sl_classify_literal (34 :: body ++ [34]) = SlQuoted body.
Proof.
  intros V. unfold sl_classify_literal.
  assert (P3 : su_prefix_qqq (34 :: body ++ [34]) = false).
  { destruct body as [|c r]; [reflexivity|]. unfold sl_quoted_body_valid in V. cbn [sl_lexq] in V.
    cbn [app su_prefix_qqq su_prefix_qq]. destruct (c =? c_quote); [discriminate|]. now rewrite andb_false_r. }
  rewrite P3. change (su_prefix_q (34 :: body ++ [34])) with true. cbn iota.
  assert (L : Nat.leb 2 (length (34 :: body ++ [34])) = true).
  { apply Nat.leb_le. cbn [length]. rewrite app_length. cbn. lia. }
  assert (Q : sl_ends_with_q 1 (34 :: body ++ [34]) = true).
  { unfold sl_ends_with_q. cbn [length]. rewrite app_length. cbn [length].
    replace (S (length body + 1) - 1)%nat with (S (length body)) by lia. cbn [skipn].
    rewrite skipn_length_app. reflexivity. }
  assert (S1 : sl_strip_quotes 1 (34 :: body ++ [34]) = body).
  { unfold sl_strip_quotes, sl_drop_last. cbn [skipn]. rewrite app_length. cbn [length].
    replace (length body + 1 - 1)%nat with (length body) by lia. apply firstn_length_app. }
  rewrite L, Q, S1, V. reflexivity.
Qed.

Lemma classify_block_intro body :
  sl_block_body_valid body = true -> sl_classify_literal (sl_qqq ++ body ++ sl_qqq) = SlBlock body.
Proof.
  intros V. unfold sl_classify_literal. change (su_prefix_qqq (sl_qqq ++ body ++ sl_qqq)) with true. cbn iota.
  assert (L : Nat.leb 6 (length (sl_qqq ++ body ++ sl_qqq)) = true).
  { apply Nat.leb_le. rewrite !app_length. cbn. lia. }
  assert (Q : sl_ends_with_q 3 (sl_qqq ++ body ++ sl_qqq) = true).
  { rewrite app_assoc. change 3%nat with (length sl_qqq). apply ends_with_q_app. reflexivity. }
  assert (S3 : sl_strip_quotes 3 (sl_qqq ++ body ++ sl_qqq) = body).
  { unfold sl_strip_quotes, sl_drop_last. cbn [sl_qqq app skipn]. rewrite app_length.
    replace (length body + length sl_qqq - 3)%nat with (length body) by (cbn; lia).
    apply firstn_length_app. }
  rewrite L, Q, S3, V. reflexivity.
Qed.

(* ------------------------------------------------------------------ the quoted form *)

Lemma control_cases c : c < 32 ->
  c = 0 \/ c = 1 \/ c = 2 \/ c = 3 \/ c = 4 \/ c = 5 \/ c = 6 \/ c = 7 \/ c = 8 \/ c = 9 \/ c = 10 \/
  c = 11 \/ c = 12 \/ c = 13 \/ c = 14 \/ c = 15 \/ c = 16 \/ c = 17 \/ c = 18 \/ c = 19 \/ c = 20 \/
  c = 21 \/ c = 22 \/ c = 23 \/ c = 24 \/ c = 25 \/ c = 26 \/ c = 27 \/ c = 28 \/ c = 29 \/ c = 30 \/ c = 31.
Proof. lia. Qed.

(* one character: its escape is accepted by the lexer's automaton and decoded back *)
Lemma escape_char_step c rest :
  sl_lexq SlQNormal (se_escape_char c ++ rest) = sl_lexq SlQNormal rest /\
  su_unescape_go 0 0 (se_escape_char c ++ rest) = su_map (cons c) (su_unescape_go 0 0 rest).
Proof.
  destruct (N.ltb_spec c 32) as [Hc|Hc].
  - apply control_cases in Hc.
    repeat (destruct Hc as [->|Hc]; [split; reflexivity|]). subst. split; reflexivity.
  - destruct (N.eqb_spec c 34) as [->|H34]; [split; reflexivity|].
    destruct (N.eqb_spec c 92) as [->|H92]; [split; reflexivity|].
    assert (E : se_escape_char c = [c]).
    { unfold se_escape_char, c_space, c_tab, c_quote, c_bslash.
      replace (c <? 32) with false by lia. replace (c =? 34) with false by lia.
      replace (c =? 92) with false by lia. reflexivity. }
    rewrite E. cbn [app sl_lexq su_unescape_go]. unfold sl_line_terminator, c_quote, c_bslash, c_lf, c_cr.
    replace (c =? 34) with false by lia. replace (c =? 92) with false by lia.
    replace (c =? 10) with false by lia. replace (c =? 13) with false by lia. split; reflexivity.
Qed.

Lemma quoted_body_ok s :
  sl_quoted_body_valid (flat_map se_escape_char s) = true /\
  su_unescape_string (flat_map se_escape_char s) = SuOk s.
Proof.
  unfold sl_quoted_body_valid, su_unescape_string.
  induction s as [|c s [IH1 IH2]]; [split; reflexivity|].
  cbn [flat_map]. destruct (escape_char_step c (flat_map se_escape_char s)) as [E1 E2].
  rewrite E1, E2, IH1, IH2. split; reflexivity.
Qed.

Theorem quoted_form_roundtrip s :
  sl_classify_literal (se_quoted_form s) = SlQuoted (flat_map se_escape_char s) /\
  su_string_of_token (se_quoted_form s) = SuOk s.
Proof.
  destruct (quoted_body_ok s) as [V U].
  pose proof (classify_quoted_intro _ V) as C. unfold se_quoted_form.
  change ([c_quote] ++ flat_map se_escape_char s ++ [c_quote]) with (34 :: flat_map se_escape_char s ++ [34]).
  split; [exact C|].
  destruct (classify_quoted _ _ C) as [_ [_ P]]. rewrite (string_of_quoted_token _ P). exact U.
Qed.

(* ------------------------------------------------------------------ se_serialize_line never leaves a bare triple quote *)

Lemma prefix_qq_q r : su_prefix_qq r = true -> su_prefix_q r = true.
Proof. destruct r as [|a r]; cbn [su_prefix_qq su_prefix_q]; [discriminate|]. intros H. now apply andb_true_iff in H as [H _]. Qed.

Lemma prefix_qq_inv r : su_prefix_qq r = true -> exists t, r = 34 :: 34 :: t.
Proof. intros H. apply prefix_qq_iff in H as [t ->]. exists t. reflexivity. Qed.

Lemma prefix_q_ser r : su_prefix_q r = false -> su_prefix_q (se_serialize_line 0 r) = false.
Proof.
  destruct r as [|c r]; [reflexivity|]. cbn [su_prefix_q se_serialize_line]. intros H. rewrite H. exact H.
Qed.

Lemma prefix_qq_ser r : su_prefix_qq r = false -> su_prefix_qq (se_serialize_line 0 r) = false.
Proof.
  destruct r as [|c r]; [reflexivity|]. cbn [su_prefix_qq se_serialize_line]. intros H.
  destruct (c =? c_quote) eqn:Ec; cbn [andb] in *.
  - destruct (su_prefix_qq r) eqn:E2; [apply prefix_qq_q in E2; congruence|].
    cbn [su_prefix_qq]. rewrite Ec. cbn [andb]. apply prefix_q_ser. exact H.
  - cbn [su_prefix_qq]. rewrite Ec. reflexivity.
Qed.

Lemma prefix_qqq_ser r : su_prefix_qqq (se_serialize_line 0 r) = false.
Proof.
  destruct r as [|c r]; [reflexivity|]. cbn [se_serialize_line].
  destruct ((c =? c_quote) && su_prefix_qq r) eqn:E; [reflexivity|].
  cbn [su_prefix_qqq]. destruct (c =? c_quote) eqn:Ec; [|reflexivity]. cbn [andb] in *.
  apply prefix_qq_ser. exact E.
Qed.

Lemma prefix_q_false_cases ctx : su_prefix_q ctx = false -> ctx = [] \/ exists c t, ctx = c :: t /\ (c =? c_quote) = false.
Proof. destruct ctx as [|c t]; [auto|]. cbn. intros H. right. eauto. Qed.

Lemma prefix_qq_app x ctx : su_prefix_q ctx = false -> su_prefix_qq (x ++ ctx) = su_prefix_qq x.
Proof.
  intros H. destruct (prefix_q_false_cases _ H) as [->|[c [t [-> Hc]]]]; [now rewrite app_nil_r|].
  destruct x as [|a [|b x]]; cbn [app su_prefix_qq su_prefix_q]; rewrite ?Hc, ?andb_false_r; reflexivity.
Qed.

Lemma prefix_qqq_app x ctx : su_prefix_q ctx = false -> su_prefix_qqq (x ++ ctx) = su_prefix_qqq x.
Proof.
  intros H. destruct (prefix_q_false_cases _ H) as [->|[c [t [-> Hc]]]]; [now rewrite app_nil_r|].
  destruct x as [|a [|b [|d x]]]; cbn [app su_prefix_qqq su_prefix_qq su_prefix_q]; rewrite ?Hc, ?andb_false_r; reflexivity.
Qed.

(* ------------------------------------------------------------------ derivations of printed text *)

Lemma BlockChars_app ctx a ra b rb :
  BlockChars (b ++ ctx) a ra -> BlockChars ctx b rb -> BlockChars ctx (a ++ b) (ra ++ rb).
Proof.
  intros Ha Hb. induction Ha as [|r v H IH|c r v Hq Hbs H IH]; cbn [app].
  - exact Hb.
  - apply BC_escaped. exact IH.
  - apply BC_source; [rewrite <- app_assoc; exact Hq|rewrite <- app_assoc; exact Hbs|exact IH].
Qed.

Definition plain_char (c : N) : bool := negb (c =? 34) && negb (c =? 92).

Lemma BlockChars_plain ctx x : forallb plain_char x = true -> BlockChars ctx x x.
Proof.
  induction x as [|c x IH]; cbn [forallb]; intros H; [constructor|].
  apply andb_true_iff in H as [Hc Hx]. unfold plain_char in Hc.
  apply BC_source; [| |auto]; rewrite has_prefix_cons; intros [E _]; subst c; discriminate.
Qed.

(* a line, followed by text that does not start with a quote *)
Lemma ser_line_chars ctx : su_prefix_q ctx = false -> forall s, BlockChars ctx (se_serialize_line 0 s) s.
Proof.
  intros Hctx. induction s as [s IH] using list_len_ind.
  destruct s as [|c r]; [constructor|]. cbn [se_serialize_line].
  destruct ((c =? c_quote) && su_prefix_qq r) eqn:E.
  - apply andb_true_iff in E as [Ec Er]. unfold c_quote in Ec. assert (c = 34) by lia. subst c.
    apply prefix_qq_inv in Er as [t ->].
    change (se_serialize_line 2 (34 :: 34 :: t)) with (34 :: 34 :: se_serialize_line 0 t).
    apply BC_escaped. apply IH. cbn. lia.
  - apply BC_source.
    + rewrite has_prefix_cons. intros [Hc Hp]. subst c. apply prefix_qq_iff in Hp.
      rewrite prefix_qq_app in Hp by exact Hctx. change (34 =? c_quote) with true in E. cbn [andb] in E.
      rewrite (prefix_qq_ser _ E) in Hp. discriminate.
    + rewrite has_prefix_cons. intros [_ Hp]. apply prefix_qqq_iff in Hp.
      rewrite prefix_qqq_app in Hp by exact Hctx. rewrite prefix_qqq_ser in Hp. discriminate.
    + apply IH. cbn. lia.
Qed.

Lemma prefix_qq_snoc s z : (z =? c_quote) = false -> su_prefix_qq (s ++ [z]) = su_prefix_qq s.
Proof.
  intros Hz. destruct s as [|a [|b s]]; cbn [app su_prefix_qq su_prefix_q]; rewrite ?Hz, ?andb_false_r; reflexivity.
Qed.

Lemma serialize_line_snoc z : (z =? c_quote) = false ->
  forall s k, se_serialize_line k (s ++ [z]) = se_serialize_line k s ++ [z].
Proof.
  intros Hz. induction s as [|c s IH]; intros k; cbn [app se_serialize_line].
  - destruct k; [|reflexivity]. rewrite Hz. reflexivity.
  - destruct k as [|k]; [|now rewrite IH].
    rewrite (prefix_qq_snoc _ _ Hz). destruct ((c =? c_quote) && su_prefix_qq s); now rewrite IH.
Qed.

(* a line that ends in neither a quote nor a backslash, followed by anything *)
Lemma ser_line_chars_end ctx s z :
  (z =? 34) = false -> (z =? 92) = false ->
  BlockChars ctx (se_serialize_line 0 (s ++ [z])) (s ++ [z]).
Proof.
  intros H34 H92. rewrite (serialize_line_snoc z H34). apply BlockChars_app.
  - apply ser_line_chars. cbn. exact H34.
  - apply BlockChars_plain. cbn [forallb]. unfold plain_char. rewrite H34, H92. reflexivity.
Qed.

(* ------------------------------------------------------------------ texts without line terminators *)

Definition no_lt (s : str) : Prop := mem c_lf s = false /\ mem c_cr s = false.

Lemma no_lt_cons c s : no_lt (c :: s) <-> (c =? c_lf) = false /\ (c =? c_cr) = false /\ no_lt s.
Proof.
  unfold no_lt, mem. cbn [existsb]. rewrite !orb_false_iff, (N.eqb_sym c_lf c), (N.eqb_sym c_cr c). tauto.
Qed.

Lemma no_lt_app a b : no_lt (a ++ b) <-> no_lt a /\ no_lt b.
Proof. unfold no_lt. rewrite !mem_app, !orb_false_iff. tauto. Qed.

Lemma split_lines_no_lt s : no_lt s -> su_split_lines s = [s].
Proof.
  induction s as [|c s IH]; [reflexivity|]. rewrite no_lt_cons. intros [H10 [H13 Hs]].
  cbn [su_split_lines]. rewrite H10, H13, (IH Hs). reflexivity.
Qed.

Lemma split_lines_app_no_lt x y : no_lt x ->
  su_split_lines (x ++ y) = match su_split_lines y with l :: ls => (x ++ l) :: ls | [] => [x] end.
Proof.
  destruct (split_lines_nonempty y) as [l [ls Ey]].
  induction x as [|c x IH]; [intros _; cbn [app]; rewrite Ey; reflexivity|].
  rewrite no_lt_cons. intros [H10 [H13 Hx]]. cbn [app su_split_lines]. rewrite H10, H13, (IH Hx), Ey.
  reflexivity.
Qed.

Lemma ws_no_lt x : su_is_ws_line x = true -> no_lt x.
Proof.
  induction x as [|c x IH]; [split; reflexivity|]. cbn [su_is_ws_line forallb]. intros H.
  apply andb_true_iff in H as [Hc Hx]. apply no_lt_cons. unfold su_is_ws, c_space, c_tab, c_lf, c_cr in *.
  repeat split; try lia; apply IH; exact Hx.
Qed.

Lemma ws_plain x : su_is_ws_line x = true -> forallb plain_char x = true.
Proof.
  induction x as [|c x IH]; [reflexivity|]. cbn [su_is_ws_line forallb]. intros H.
  apply andb_true_iff in H as [Hc Hx]. rewrite (IH Hx), andb_true_r.
  unfold plain_char, su_is_ws, c_space, c_tab in *. lia.
Qed.

(* ------------------------------------------------------------------ se_split_lf / join *)

Lemma split_lf_nonempty s : exists l ls, se_split_lf s = l :: ls.
Proof.
  induction s as [|c s [l [ls IH]]]; cbn [se_split_lf]; [eauto|].
  destruct (c =? c_lf); [eauto|]. rewrite IH. eauto.
Qed.

Lemma join_split_lf s : bs_join_lf (se_split_lf s) = s.
Proof.
  induction s as [|c s IH]; [reflexivity|]. cbn [se_split_lf].
  destruct (N.eqb_spec c c_lf) as [->|Hc].
  - destruct (split_lf_nonempty s) as [l [ls E]]. rewrite E in *.
    change (bs_join_lf ([] :: l :: ls)) with ([] ++ [10] ++ bs_join_lf (l :: ls)). rewrite IH. reflexivity.
  - destruct (split_lf_nonempty s) as [l [ls E]]. rewrite E in *.
    rewrite join_lf_cons in *. cbn [app]. now rewrite IH.
Qed.

Lemma split_lf_no_lt s : mem c_cr s = false -> Forall no_lt (se_split_lf s).
Proof.
  induction s as [|c s IH]; [intros _; repeat constructor|].
  unfold mem. cbn [existsb]. rewrite orb_false_iff, N.eqb_sym. intros [Hc Hs]. specialize (IH Hs).
  cbn [se_split_lf]. destruct (c =? c_lf) eqn:E.
  - constructor; [split; reflexivity|exact IH].
  - destruct (se_split_lf s) as [|l ls]; [repeat constructor; apply no_lt_cons; repeat split; auto|].
    inversion IH; subst. constructor; [|assumption]. apply no_lt_cons. auto.
Qed.

Lemma split_lf_single s : mem c_lf s = false -> se_split_lf s = [s].
Proof.
  induction s as [|c s IH]; [reflexivity|]. unfold mem. cbn [existsb]. rewrite orb_false_iff, N.eqb_sym.
  intros [Hc Hs]. cbn [se_split_lf]. rewrite Hc, (IH Hs). reflexivity.
Qed.

(* ------------------------------------------------------------------ what se_can_be_block_string guarantees *)

Lemma can_be_inv s :
  se_can_be_block_string s = true ->
  mem c_cr s = false /\
  exists first rest,
    se_split_lf s = first :: rest /\ su_is_ws_line first = false /\
    su_is_ws_line (last (first :: rest) []) = false /\
    su_min_some (map se_line_indent_utf8 (first :: rest)) = Some 0.
Proof.
  unfold se_can_be_block_string. destruct (mem c_cr s); [discriminate|]. intros H. split; [reflexivity|].
  destruct (split_lf_nonempty s) as [first [rest E]]. rewrite E in H. exists first, rest.
  destruct (su_is_ws_line first) eqn:Ef; [discriminate|]. cbn [orb] in H.
  split; [exact E|]. split; [reflexivity|].
  assert (Hl : su_is_ws_line (last (first :: rest) []) = false).
  { destruct rest as [|r1 rest']; [exact Ef|].
    cbn [se_last_after_first] in H.
    destruct (su_is_ws_line (last (r1 :: rest') [])) eqn:El; [discriminate|].
    exact El. }
  split; [exact Hl|].
  destruct (match se_last_after_first (first :: rest) with Some l => su_is_ws_line l | None => false end); [discriminate|].
  cbn [map su_min_some] in *. unfold se_line_indent_utf8 at 1 in H. unfold se_line_indent_utf8 at 1.
  rewrite Ef in *. cbn [negb] in *.
  destruct (su_min_some (map se_line_indent_utf8 rest)); f_equal; lia.
Qed.

(* ------------------------------------------------------------------ bs_BlockStringValue on printed raw text *)

Lemma bsv_single s : no_lt s -> su_is_ws_line s = false -> bs_BlockStringValue s = s.
Proof.
  intros Hs Hw. rewrite BlockStringValue_alt, split_by_lt_split, (split_lines_no_lt _ Hs).
  change (dedent_spec [s]) with [s]. cbn [bs_remove_leading_blank]. rewrite only_ws_same, Hw.
  unfold bs_remove_trailing_blank. cbn [rev app bs_remove_leading_blank]. rewrite only_ws_same, Hw. reflexivity.
Qed.

Section MultiLine.
  Variable I : str.                       (* the indentation written by se_require_new_line *)
  Hypothesis I_ws : su_is_ws_line I = true.

  (* a printed line, and its raw form (escapes undone) *)
  Definition piece (l : str) : str :=
    match l with [] => [c_lf] | _ => ([c_lf] ++ I) ++ se_serialize_line 0 l end.
  Definition rl (l : str) : str := match l with [] => [] | _ => I ++ l end.
  Definition rpiece (l : str) : str := c_lf :: rl l.

  Lemma piece_prefix ls tail ctx :
    su_prefix_q (tail ++ ctx) = false -> su_prefix_q ((flat_map piece ls ++ tail) ++ ctx) = false.
  Proof. intros H. destruct ls as [|[|c l] ls]; [exact H|reflexivity|reflexivity]. Qed.

  Lemma piece_chars l ctx : su_prefix_q ctx = false -> BlockChars ctx (piece l) (rpiece l).
  Proof.
    intros H. destruct l as [|c l]; [apply BlockChars_plain; reflexivity|].
    unfold piece, rpiece, rl. change (c_lf :: I ++ c :: l) with (([c_lf] ++ I) ++ c :: l).
    apply BlockChars_app.
    - apply BlockChars_plain. cbn [app forallb]. rewrite (ws_plain _ I_ws). reflexivity.
    - apply ser_line_chars. exact H.
  Qed.

  Lemma pieces_chars ctx tail rtail : forall ls,
    BlockChars ctx tail rtail -> su_prefix_q (tail ++ ctx) = false ->
    BlockChars ctx (flat_map piece ls ++ tail) (flat_map rpiece ls ++ rtail).
  Proof.
    intros ls Ht Hp. induction ls as [|l ls IH]; [exact Ht|].
    cbn [flat_map]. rewrite <- !app_assoc. apply BlockChars_app; [|exact IH].
    apply piece_chars. apply piece_prefix. exact Hp.
  Qed.

  (* the raw text splits into the empty first line, the raw lines, and the indentation before the closing quotes *)
  Lemma raw_lines ls : Forall no_lt ls ->
    su_split_lines (flat_map rpiece ls ++ c_lf :: I) = [] :: map rl ls ++ [I].
  Proof.
    induction 1 as [|l ls Hl Hls IH]; cbn [flat_map map app].
    - cbn [su_split_lines]. change (c_lf =? c_lf) with true. cbn iota.
      rewrite (split_lines_no_lt _ (ws_no_lt _ I_ws)). reflexivity.
    - unfold rpiece at 1. cbn [app su_split_lines]. change (c_lf =? c_lf) with true. cbn iota. f_equal.
      rewrite <- app_assoc, split_lines_app_no_lt, IH; [now rewrite app_nil_r|].
      destruct l as [|c l]; [split; reflexivity|]. unfold rl. apply no_lt_app. split; [apply ws_no_lt, I_ws|exact Hl].
  Qed.

  Lemma ws_app_line l : su_is_ws_line (I ++ l) = su_is_ws_line l.
  Proof. unfold su_is_ws_line in *. rewrite forallb_app, I_ws. reflexivity. Qed.

  Lemma ws_app_indent l : su_count_indent (I ++ l) = N.of_nat (length I) + su_count_indent l.
  Proof.
    clear -I_ws. induction I as [|c J IH]; [cbn; lia|].
    cbn [su_is_ws_line forallb] in I_ws. apply andb_true_iff in I_ws as [Hc HJ].
    cbn [app su_count_indent length]. rewrite Hc, (IH HJ). lia.
  Qed.

  Definition oadd (k : N) (o : option N) : option N := match o with Some x => Some (k + x) | None => None end.

  Lemma line_indent_rl l : su_line_indent (rl l) = oadd (N.of_nat (length I)) (se_line_indent_utf8 l).
  Proof.
    unfold se_line_indent_utf8. rewrite line_indent_alt. destruct l as [|c l]; [reflexivity|].
    unfold rl. rewrite ws_app_line, ws_app_indent. destruct (su_is_ws_line (c :: l)); reflexivity.
  Qed.

  Lemma min_some_oadd k xs : su_min_some (map (oadd k) xs) = oadd k (su_min_some xs).
  Proof.
    induction xs as [|[x|] xs IH]; cbn [map su_min_some oadd]; [reflexivity| |exact IH].
    rewrite IH. destruct (su_min_some xs); cbn [oadd]; f_equal. lia.
  Qed.

  Lemma min_some_snoc_none xs : su_min_some (xs ++ [None]) = su_min_some xs.
  Proof. induction xs as [|[x|] xs IH]; cbn [app su_min_some]; [reflexivity| |exact IH]. now rewrite IH. Qed.

  Lemma remove_chars_app (a b : str) : bs_remove_chars (length a) (a ++ b) = b.
  Proof. induction a as [|x a IH]; [apply remove_chars_0|exact IH]. Qed.

  Lemma remove_indent_rl l : bs_remove_chars (length I) (rl l) = l.
  Proof. destruct l as [|c l]; [destruct (length I); reflexivity|]. unfold rl. apply remove_chars_app. Qed.

  Lemma remove_trailing_blank_keep ls :
    ls <> [] -> su_is_ws_line (last ls []) = false -> bs_remove_trailing_blank ls = ls.
  Proof.
    intros Hne Hl. rewrite (app_removelast_last [] Hne) at 1 2.
    rewrite remove_trailing_blank_snoc, only_ws_same, Hl. reflexivity.
  Qed.

  (* bs_BlockStringValue of the raw text of a multi-line block string is the original string *)
  Lemma bsv_multi s :
    se_can_be_block_string s = true ->
    bs_BlockStringValue (flat_map rpiece (se_split_lf s) ++ c_lf :: I) = s.
  Proof.
    intros Hcan. destruct (can_be_inv _ Hcan) as [Hcr [first [rest [E [Hf [Hl Hmin]]]]]].
    pose proof (split_lf_no_lt _ Hcr) as Hno. rewrite E in *.
    rewrite BlockStringValue_alt, split_by_lt_split, (raw_lines _ Hno).
    rewrite dedent_spec_alt.
    assert (Hci : su_common_indent (@cons str [] (map rl (first :: rest) ++ [I])) = N.of_nat (length I)).
    { unfold su_common_indent. cbn [tl]. rewrite map_app.
      change (map su_line_indent [I]) with [su_line_indent I].
      replace (su_line_indent I) with (@None N) by (rewrite line_indent_alt, I_ws; reflexivity).
      rewrite min_some_snoc_none, map_map.
      rewrite (map_ext (fun x => su_line_indent (rl x))
                 (fun a => oadd (N.of_nat (length I)) (se_line_indent_utf8 a)) line_indent_rl).
      rewrite <- (map_map se_line_indent_utf8 (oadd (N.of_nat (length I)))), min_some_oadd, Hmin.
      cbn [oadd]. lia. }
    rewrite Hci, Nat2N.id, map_app, map_map.
    rewrite (map_ext (fun x => bs_remove_chars (length I) (rl x)) (fun x => x) remove_indent_rl), map_id.
    change (map (bs_remove_chars (length I)) [I]) with [bs_remove_chars (length I) I].
    replace (bs_remove_chars (length I) I) with (@nil N)
      by (rewrite <- (app_nil_r I) at 2; now rewrite remove_chars_app).
    cbn [bs_remove_leading_blank bs_contains_only_ws forallb app]. rewrite only_ws_same, Hf.
    change (first :: rest ++ [[]]) with ((first :: rest) ++ [[]]).
    rewrite remove_trailing_blank_snoc. cbn [bs_contains_only_ws forallb].
    rewrite remove_trailing_blank_keep by (auto; discriminate).
    rewrite <- E. apply join_split_lf.
  Qed.
End MultiLine.

(* ------------------------------------------------------------------ the block form *)

Lemma indent_text_ws p level : su_is_ws_line p = true -> su_is_ws_line (se_indent_text p level) = true.
Proof.
  intros Hp. unfold se_indent_text. apply N.iter_invariant; [|reflexivity].
  intros acc Hacc. unfold su_is_ws_line in *. now rewrite forallb_app, Hp, Hacc.
Qed.

Lemma block_lines_ok p level lines :
  se_block_lines {| se_prefix := Some p; se_level := level |} lines =
  SuOk (flat_map (piece (se_indent_text p level)) lines).
Proof.
  induction lines as [|l lines IH]; [reflexivity|].
  cbn [se_block_lines flat_map]. rewrite IH. destruct l; reflexivity.
Qed.

Lemma ends_with_snoc ch s z : se_ends_with ch (s ++ [z]) = (z =? ch).
Proof. unfold se_ends_with. rewrite rev_app_distr. reflexivity. Qed.

(* the printed block string: shape, validity of the body, and its decoded value *)
Theorem block_form_body p level s :
  su_is_ws_line p = true -> se_can_be_block_string s = true ->
  exists body,
    se_serialize_block_string {| se_prefix := Some p; se_level := level |} (mem c_lf s) s
      = SuOk (sl_qqq ++ body ++ sl_qqq) /\
    BlockRawValue body (su_replace_esc3 body) /\
    su_unescape_block_string body = SuOk s.
Proof.
  intros Hp Hcan. set (I := se_indent_text p level).
  pose proof (indent_text_ws p level Hp) as HI. fold I in HI.
  unfold se_serialize_block_string. destruct (se_multi_line (mem c_lf s) s) eqn:M; cbn [negb].
  - (* several lines *)
    rewrite block_lines_ok. fold I. cbn [su_bind se_require_new_line se_prefix se_level]. fold I.
    exists (flat_map (piece I) (se_split_lf s) ++ [c_lf] ++ I).
    split; [unfold se_qqq_text, sl_qqq; now rewrite <- !app_assoc|].
    assert (Hc : BlockChars [34; 34; 34] (flat_map (piece I) (se_split_lf s) ++ [c_lf] ++ I)
                   (flat_map (rpiece I) (se_split_lf s) ++ [c_lf] ++ I)).
    { apply pieces_chars; [exact HI| |reflexivity].
      apply BlockChars_plain. cbn [app forallb]. rewrite (ws_plain _ HI). reflexivity. }
    split.
    + unfold BlockRawValue. rewrite <- (BlockChars_R _ _ _ Hc). exact Hc.
    + rewrite (block_string_value _ _ Hc). f_equal. apply (bsv_multi I HI s Hcan).
  - (* one line *)
    unfold se_multi_line in M. apply orb_false_iff in M as [M H92]. apply orb_false_iff in M as [M H34].
    apply orb_false_iff in M as [Hlf _].
    destruct (can_be_inv _ Hcan) as [Hcr [first [rest [E [Hf _]]]]].
    rewrite (split_lf_single _ Hlf) in E. injection E as <- <-.
    assert (Hne : s <> []) by (intros ->; discriminate).
    destruct (exists_last Hne) as [s' [z ->]]. rewrite ends_with_snoc in H34, H92.
    exists (se_serialize_line 0 (s' ++ [z])). split; [reflexivity|].
    pose proof (ser_line_chars_end [34; 34; 34] s' z H34 H92) as Hc.
    split.
    + unfold BlockRawValue. rewrite <- (BlockChars_R _ _ _ Hc). exact Hc.
    + rewrite (block_string_value _ _ Hc). f_equal. apply bsv_single; [split; assumption|exact Hf].
Qed.

Theorem block_form_roundtrip p level s :
  su_is_ws_line p = true -> se_can_be_block_string s = true ->
  exists lit body,
    se_serialize_block_string {| se_prefix := Some p; se_level := level |} (mem c_lf s) s = SuOk lit /\
    sl_classify_literal lit = SlBlock body /\
    su_unescape_block_string body = SuOk s /\
    su_string_of_token lit = SuOk s.
Proof.
  intros Hp Hcan. destruct (block_form_body p level s Hp Hcan) as [body [E [Hraw Hv]]].
  exists (sl_qqq ++ body ++ sl_qqq), body. split; [exact E|].
  assert (V : sl_block_body_valid body = true) by (apply block_body_valid_iff; eauto).
  split; [apply classify_block_intro; exact V|]. split; [exact Hv|].
  rewrite string_of_block_token. exact Hv.
Qed.

(* ------------------------------------------------------------------ whichever form is chosen *)

Definition ws_prefix (st : se_state) : Prop :=
  match se_prefix st with Some p => su_is_ws_line p = true | None => True end.

Definition valid_literal (lit : str) : Prop := sl_classify_literal lit <> SlInvalid.

Theorem string_value_roundtrip st is_description s :
  ws_prefix st ->
  exists lit, se_serialize_string_value st is_description s = SuOk lit /\
              valid_literal lit /\ su_string_of_token lit = SuOk s.
Proof.
  intros Hws. unfold se_serialize_string_value.
  destruct (se_newlines_enabled st && (is_description || mem c_lf s) && se_can_be_block_string s) eqn:C.
  - apply andb_true_iff in C as [C Hcan]. apply andb_true_iff in C as [Hnl _].
    destruct st as [[p|] level]; [|discriminate]. unfold ws_prefix in Hws. cbn [se_prefix] in Hws.
    destruct (block_form_roundtrip p level s Hws Hcan) as [lit [body [E [Hc [_ Hv]]]]].
    exists lit. split; [exact E|]. split; [unfold valid_literal; rewrite Hc; discriminate|exact Hv].
  - exists (se_quoted_form s). split; [reflexivity|].
    destruct (quoted_form_roundtrip s) as [Hc Hv].
    split; [unfold valid_literal; rewrite Hc; discriminate|exact Hv].
Qed.

Theorem description_roundtrip st d :
  ws_prefix st ->
  exists lit sep, se_serialize_description st (Some d) = SuOk (lit, sep) /\
                  valid_literal lit /\ su_string_of_token lit = SuOk d.
Proof.
  intros Hws. destruct (string_value_roundtrip st true d Hws) as [lit [E [Hv Hs]]].
  exists lit, (se_new_line_common st true). unfold se_serialize_description. rewrite E. auto.
Qed.

(* ------------------------------------------------------------------ statements collected for Props/C09.v *)

Theorem quoted_form_full s :
  sl_classify_literal (se_quoted_form s) = SlQuoted (flat_map se_escape_char s) /\
  su_unescape_string (flat_map se_escape_char s) = SuOk s /\
  su_string_of_token (se_quoted_form s) = SuOk s.
Proof.
  destruct (quoted_form_roundtrip s) as [C V]. destruct (quoted_body_ok s) as [_ U]. auto.
Qed.

(* the value any parser that follows the specification reads back from the chosen literal *)
Definition spec_value (lit v : str) : Prop :=
  (exists body, sl_classify_literal lit = SlQuoted body /\ StringChars body v) \/
  (exists body raw, sl_classify_literal lit = SlBlock body /\ BlockRawValue body raw /\ bs_BlockStringValue raw = v).

Theorem string_value_spec_roundtrip st is_description s :
  ws_prefix st ->
  exists lit, se_serialize_string_value st is_description s = SuOk lit /\ spec_value lit s.
Proof.
  intros Hws. destruct (string_value_roundtrip st is_description s Hws) as [lit [E [Hv Hs]]].
  exists lit. split; [exact E|]. unfold valid_literal in Hv. unfold spec_value.
  destruct (sl_classify_literal lit) as [body|body|] eqn:C; [| |congruence].
  - left. exists body. split; [reflexivity|].
    destruct (literal_quoted_value _ _ C) as [v [E1 Hsc]]. rewrite Hs in E1. injection E1 as <-. exact Hsc.
  - right. destruct (literal_block_value _ _ C) as [raw [Hraw E1]]. rewrite Hs in E1. injection E1 as E1.
    exists body, raw. auto.
Qed.
