(* Model of crates/apollo-parser/src/cst/node_ext.rs, the string part:
   unescape_string, is_block_string, GraphQLLines / split_lines, replace_into (as used with
   ESCAPED_TRIPLE_QUOTE -> TRIPLE_QUOTE), unescape_block_string, and `impl From<&StringValue> for String`.
   Definitions only (extractable); proofs are in UnescapeProofs.v.

   A Rust panic (`unwrap` on None, slice out of range / not on a char boundary, usize underflow) is the
   explicit result SPanic. *)
From ApolloVerif Require Import Base.Chars.

Inductive sres (A : Type) := SOk (a : A) | SPanic.
Arguments SOk {A} a.
Arguments SPanic {A}.

Definition sbind {A B} (x : sres A) (f : A -> sres B) : sres B :=
  match x with SOk a => f a | SPanic => SPanic end.
Definition smap {A B} (f : A -> B) (x : sres A) : sres B :=
  match x with SOk a => SOk (f a) | SPanic => SPanic end.

(* ------------------------------------------------------------------ unescape_string *)

(* char::to_digit(16) *)
Definition to_digit16 (c : N) : option N :=
  if (48 <=? c) && (c <=? 57) then Some (c - 48)
  else if (97 <=? c) && (c <=? 102) then Some (c - 87)
  else if (65 <=? c) && (c <=? 70) then Some (c - 55)
  else None.

(* char::from_u32 *)
Definition char_from_u32 (v : N) : option N := if scalarb v then Some v else None.

Definition c_u := 117.
Definition c_b := 98. Definition c_f := 102. Definition c_n := 110. Definition c_r := 114.
Definition c_t := 116.

(* `while let Some(c) = iter.next() { match c { '\\' => ..., _ => output.push(c) } }`
   The closure `unicode` is `iter.by_ref().take(4).fold(0, |acc, c| (acc << 4) + c.to_digit(16).unwrap())`
   followed by `char::from_u32(value).unwrap()`.  The `take(4).fold` is unrolled into the parameters
   (k, acc): k = number of characters the pending `take` may still consume (0 = not inside `unicode`),
   acc = the fold accumulator.  `take(4)` stops early, without error, when the input ends.
   The result is the final `output` (built front to back). *)
Fixpoint unescape_go (k : nat) (acc : N) (s : str) : sres str :=
  match k with
  | S k' =>
      match s with
      | [] =>
          (* input exhausted inside take(4): the fold ends, then from_u32(value).unwrap(), push, loop ends *)
          match char_from_u32 acc with
          | None => SPanic
          | Some ch => SOk [ch]
          end
      | c :: r =>
          match to_digit16 c with
          | None => SPanic                                  (* to_digit(16).unwrap() *)
          | Some d =>
              let acc' := acc * 16 + d in
              match k' with
              | O =>
                  match char_from_u32 acc' with
                  | None => SPanic                          (* char::from_u32(value).unwrap() *)
                  | Some ch => smap (cons ch) (unescape_go O 0 r)
                  end
              | S _ => unescape_go k' acc' r
              end
          end
      end
  | O =>
      match s with
      | [] => SOk []
      | c :: r =>
          if c =? c_bslash then
            match r with
            | [] => SOk [c]                                 (* let Some(c2) = iter.next() else { push(c); break } *)
            | c2 :: r2 =>
                if (c2 =? c_quote) || (c2 =? c_bslash) || (c2 =? c_slash) then smap (cons c2) (unescape_go O 0 r2)
                else if c2 =? c_b then smap (cons 8) (unescape_go O 0 r2)
                else if c2 =? c_f then smap (cons 12) (unescape_go O 0 r2)
                else if c2 =? c_n then smap (cons 10) (unescape_go O 0 r2)
                else if c2 =? c_r then smap (cons 13) (unescape_go O 0 r2)
                else if c2 =? c_t then smap (cons 9) (unescape_go O 0 r2)
                else if c2 =? c_u then unescape_go 4 0 r2
                else unescape_go O 0 r2                     (* _ => () *)
            end
          else smap (cons c) (unescape_go O 0 r)
      end
  end.

Definition unescape_string (s : str) : sres str := unescape_go O 0 s.

(* ------------------------------------------------------------------ lines *)

(* GraphQLLines: memchr2(b'\r', b'\n') finds the first terminator byte (these bytes occur in UTF-8 only as
   the characters themselves, so the search is modelled on characters); the line is the text before it;
   CR LF is skipped as one terminator, otherwise one byte; when no terminator is left the remaining input
   (possibly empty) is the last line.  Always yields at least one line. *)
Fixpoint split_lines (s : str) : list str :=
  match s with
  | [] => [[]]
  | c :: r =>
      if c =? c_lf then [] :: split_lines r
      else if c =? c_cr then
        match r with
        | c2 :: r2 => if c2 =? c_lf then [] :: split_lines r2 else [] :: split_lines r
        | [] => [] :: split_lines r
        end
      else
        match split_lines r with
        | l :: ls => (c :: l) :: ls
        | [] => [[c]]   (* unreachable: split_lines never returns [] *)
        end
  end.

(* ------------------------------------------------------------------ replace_into(line, ESCAPED_TRIPLE_QUOTE, TRIPLE_QUOTE, out) *)

Definition prefix_q (s : str) : bool := match s with c :: _ => c =? c_quote | [] => false end.
Definition prefix_qq (s : str) : bool :=
  match s with c :: r => (c =? c_quote) && prefix_q r | [] => false end.
Definition prefix_qqq (s : str) : bool :=
  match s with c :: r => (c =? c_quote) && prefix_qq r | [] => false end.

(* memmem::find_iter yields the non-overlapping occurrences of the pattern left to right; each is replaced.
   The pattern (backslash, three quotation marks) is ASCII (byte search = character search) and its first character occurs nowhere else in
   it, so occurrences never overlap and replacing them amounts to deleting every backslash that is directly
   followed by three quotes. *)
Fixpoint replace_esc3 (s : str) : str :=
  match s with
  | [] => []
  | c :: r => if (c =? c_bslash) && prefix_qqq r then replace_esc3 r else c :: replace_esc3 r
  end.

(* ------------------------------------------------------------------ unescape_block_string *)

Definition is_gws (c : N) : bool := (c =? c_space) || (c =? c_tab).
Definition is_gws_line (l : str) : bool := forallb is_gws l.
(* line.chars().take_while(is_whitespace).count() *)
Fixpoint count_indent (l : str) : N :=
  match l with
  | c :: r => if is_gws c then 1 + count_indent r else 0
  | [] => 0
  end.

(* the filter_map closure: length is the byte length *)
Definition line_indent (l : str) : option N :=
  let length := blen l in
  let indent := count_indent l in
  if indent <? length then Some indent else None.

(* Iterator::min over the Some values *)
Fixpoint min_some (l : list (option N)) : option N :=
  match l with
  | [] => None
  | None :: r => min_some r
  | Some x :: r => match min_some r with None => Some x | Some y => Some (N.min x y) end
  end.

(* split_lines(raw).skip(1).filter_map(..).min().unwrap_or(0) *)
Definition common_indent (lines : list str) : N :=
  match min_some (map line_indent (tl lines)) with Some n => n | None => 0 end.

(* &s[n..] : panics when n > len or n is not on a character boundary *)
Fixpoint byte_slice_from (n : N) (s : str) : sres str :=
  match s with
  | [] => if n =? 0 then SOk [] else SPanic
  | c :: r => if n =? 0 then SOk s else if u8len c <=? n then byte_slice_from (n - u8len c) r else SPanic
  end.

(* &s[..n] *)
Fixpoint byte_slice_to (n : N) (s : str) : sres str :=
  match s with
  | [] => if n =? 0 then SOk [] else SPanic
  | c :: r => if n =? 0 then SOk [] else if u8len c <=? n then smap (cons c) (byte_slice_to (n - u8len c) r) else SPanic
  end.

(* String::truncate(new_len): no effect if new_len > len, else panics unless on a char boundary *)
Definition byte_truncate (n : N) (s : str) : sres str :=
  if blen s <? n then SOk s else byte_slice_to n s.

Fixpoint smapM {A B} (f : A -> sres B) (l : list A) : sres (list B) :=
  match l with
  | [] => SOk []
  | a :: r => sbind (f a) (fun b => smap (cons b) (smapM f r))
  end.

Fixpoint skip_while {A} (p : A -> bool) (l : list A) : list A :=
  match l with
  | a :: r => if p a then skip_while p r else l
  | [] => []
  end.

(* the `.enumerate().map(..)` : first line as is, the others `&line[common_indent.min(line.len())..]` *)
Definition dedent_lines (ci : N) (lines : list str) : sres (list str) :=
  match lines with
  | [] => SOk []
  | first :: rest =>
      smap (cons first) (smapM (fun l => byte_slice_from (N.min ci (blen l)) l) rest)
  end.

(* the `for line in lines` loop: state = (formatted, final_char_index) *)
Definition ubs_step (st : str * N) (line : str) : str * N :=
  let formatted := fst st ++ [c_lf] ++ replace_esc3 line in
  (formatted, if negb (is_gws_line line) then blen formatted else snd st).

Definition unescape_block_string (raw : str) : sres str :=
  let ci := common_indent (split_lines raw) in
  sbind (dedent_lines ci (split_lines raw)) (fun ls =>
    match skip_while is_gws_line ls with
    | [] => byte_truncate 0 []
    | line :: rest =>
        let formatted := replace_esc3 line in
        let st := fold_left ubs_step rest (formatted, blen formatted) in
        byte_truncate (snd st) (fst st)
    end).

(* ------------------------------------------------------------------ String::from(&StringValue) *)

Definition is_block_string (text : str) : bool := prefix_qqq text.

(* &text[a .. len - b]  with `len - b` a usize subtraction *)
Definition slice_inner (a b : N) (text : str) : sres str :=
  let len := blen text in
  if len <? b then SPanic                                   (* usize underflow (debug) / huge end index (release) *)
  else if len - b <? a then SPanic                          (* slice index starts after end *)
  else sbind (byte_slice_to (len - b) text) (byte_slice_from a).

Definition string_of_token (text : str) : sres str :=
  if is_block_string text then sbind (slice_inner 3 3 text) unescape_block_string
  else sbind (slice_inner 1 1 text) unescape_string.
