(* Model of crates/apollo-parser/src/cst/node_ext.rs, the string part:
   su_unescape_string, su_is_block_string, GraphQLLines / su_split_lines, replace_into (as used with
   ESCAPED_TRIPLE_QUOTE -> TRIPLE_QUOTE), su_unescape_block_string, and `impl From<&StringValue> for String`.
   Definitions only (extractable); proofs are in UnescapeProofs.v.

   A Rust panic (`unwrap` on None, slice out of range / not on a char boundary, usize underflow) is the
   explicit result SuPanic. *)
From ApolloVerif Require Import Base.Chars.

Inductive su_res (A : Type) := SuOk (a : A) | SuPanic.
Arguments SuOk {A} a.
Arguments SuPanic {A}.

Definition su_bind {A B} (x : su_res A) (f : A -> su_res B) : su_res B :=
  match x with SuOk a => f a | SuPanic => SuPanic end.
Definition su_map {A B} (f : A -> B) (x : su_res A) : su_res B :=
  match x with SuOk a => SuOk (f a) | SuPanic => SuPanic end.

(* ------------------------------------------------------------------ su_unescape_string *)

(* char::to_digit(16) *)
Definition su_to_digit16 (c : N) : option N :=
  if (48 <=? c) && (c <=? 57) then Some (c - 48)
  else if (97 <=? c) && (c <=? 102) then Some (c - 87)
  else if (65 <=? c) && (c <=? 70) then Some (c - 55)
  else None.

(* char::from_u32 *)
Definition su_char_from_u32 (v : N) : option N := if scalarb v then Some v else None.

Definition su_c_u := 117.
Definition su_c_b := 98. Definition su_c_f := 102. Definition su_c_n := 110. Definition su_c_r := 114.
Definition su_c_t := 116.

(* `while let Some(c) = iter.next() { match c { '\\' => ..., _ => output.push(c) } }`
   The closure `unicode` is `iter.by_ref().take(4).fold(0, |acc, c| (acc << 4) + c.to_digit(16).unwrap())`
   followed by `char::from_u32(value).unwrap()`.  The `take(4).fold` is unrolled into the parameters
   (k, acc): k = number of characters the pending `take` may still consume (0 = not inside `unicode`),
   acc = the fold accumulator.  `take(4)` stops early, without error, when the input ends.
   The result is the final `output` (built front to back). *)
Fixpoint su_unescape_go (k : nat) (acc : N) (s : str) : su_res str :=
  match k with
  | S k' =>
      match s with
      | [] =>
          (* input exhausted inside take(4): the fold ends, then from_u32(value).unwrap(), push, loop ends *)
          match su_char_from_u32 acc with
          | None => SuPanic
          | Some ch => SuOk [ch]
          end
      | c :: r =>
          match su_to_digit16 c with
          | None => SuPanic                                  (* to_digit(16).unwrap() *)
          | Some d =>
              let acc' := acc * 16 + d in
              match k' with
              | O =>
                  match su_char_from_u32 acc' with
                  | None => SuPanic                          (* char::from_u32(value).unwrap() *)
                  | Some ch => su_map (cons ch) (su_unescape_go O 0 r)
                  end
              | S _ => su_unescape_go k' acc' r
              end
          end
      end
  | O =>
      match s with
      | [] => SuOk []
      | c :: r =>
          if c =? c_bslash then
            match r with
            | [] => SuOk [c]                                 (* let Some(c2) = iter.next() else { push(c); break } *)
            | c2 :: r2 =>
                if (c2 =? c_quote) || (c2 =? c_bslash) || (c2 =? c_slash) then su_map (cons c2) (su_unescape_go O 0 r2)
                else if c2 =? su_c_b then su_map (cons 8) (su_unescape_go O 0 r2)
                else if c2 =? su_c_f then su_map (cons 12) (su_unescape_go O 0 r2)
                else if c2 =? su_c_n then su_map (cons 10) (su_unescape_go O 0 r2)
                else if c2 =? su_c_r then su_map (cons 13) (su_unescape_go O 0 r2)
                else if c2 =? su_c_t then su_map (cons 9) (su_unescape_go O 0 r2)
                else if c2 =? su_c_u then su_unescape_go 4 0 r2
                else su_unescape_go O 0 r2                     (* _ => () *)
            end
          else su_map (cons c) (su_unescape_go O 0 r)
      end
  end.

Definition su_unescape_string (s : str) : su_res str := su_unescape_go O 0 s.

(* ------------------------------------------------------------------ lines *)

(* GraphQLLines: memchr2(b'\r', b'\n') finds the first terminator byte (these bytes occur in UTF-8 only as
   the characters themselves, so the search is modelled on characters); the line is the text before it;
   CR LF is skipped as one terminator, otherwise one byte; when no terminator is left the remaining input
   (possibly empty) is the last line.  Always yields at least one line. *)
Fixpoint su_split_lines (s : str) : list str :=
  match s with
  | [] => [[]]
  | c :: r =>
      if c =? c_lf then [] :: su_split_lines r
      else if c =? c_cr then
        match r with
        | c2 :: r2 => if c2 =? c_lf then [] :: su_split_lines r2 else [] :: su_split_lines r
        | [] => [] :: su_split_lines r
        end
      else
        match su_split_lines r with
        | l :: ls => (c :: l) :: ls
        | [] => [[c]]   (* unreachable: su_split_lines never returns [] *)
        end
  end.

(* ------------------------------------------------------------------ replace_into(line, ESCAPED_TRIPLE_QUOTE, TRIPLE_QUOTE, out) *)

Definition su_prefix_q (s : str) : bool := match s with c :: _ => c =? c_quote | [] => false end.
Definition su_prefix_qq (s : str) : bool :=
  match s with c :: r => (c =? c_quote) && su_prefix_q r | [] => false end.
Definition su_prefix_qqq (s : str) : bool :=
  match s with c :: r => (c =? c_quote) && su_prefix_qq r | [] => false end.

(* memmem::find_iter yields the non-overlapping occurrences of the pattern left to right; each is replaced.
   The pattern (backslash, three quotation marks) is ASCII (byte search = character search) and its first character occurs nowhere else in
   it, so occurrences never overlap and replacing them amounts to deleting every backslash that is directly
   followed by three quotes. *)
Fixpoint su_replace_esc3 (s : str) : str :=
  match s with
  | [] => []
  | c :: r => if (c =? c_bslash) && su_prefix_qqq r then su_replace_esc3 r else c :: su_replace_esc3 r
  end.

(* ------------------------------------------------------------------ su_unescape_block_string *)

Definition su_is_ws (c : N) : bool := (c =? c_space) || (c =? c_tab).
Definition su_is_ws_line (l : str) : bool := forallb su_is_ws l.
(* line.chars().take_while(is_whitespace).count() *)
Fixpoint su_count_indent (l : str) : N :=
  match l with
  | c :: r => if su_is_ws c then 1 + su_count_indent r else 0
  | [] => 0
  end.

(* the filter_map closure: length is the byte length *)
Definition su_line_indent (l : str) : option N :=
  let length := blen l in
  let indent := su_count_indent l in
  if indent <? length then Some indent else None.

(* Iterator::min over the Some values *)
Fixpoint su_min_some (l : list (option N)) : option N :=
  match l with
  | [] => None
  | None :: r => su_min_some r
  | Some x :: r => match su_min_some r with None => Some x | Some y => Some (N.min x y) end
  end.

(* su_split_lines(raw).skip(1).filter_map(..).min().unwrap_or(0) *)
Definition su_common_indent (lines : list str) : N :=
  match su_min_some (map su_line_indent (tl lines)) with Some n => n | None => 0 end.

(* &s[n..] : panics when n > len or n is not on a character boundary *)
Fixpoint su_slice_from (n : N) (s : str) : su_res str :=
  match s with
  | [] => if n =? 0 then SuOk [] else SuPanic
  | c :: r => if n =? 0 then SuOk s else if u8len c <=? n then su_slice_from (n - u8len c) r else SuPanic
  end.

(* &s[..n] *)
Fixpoint su_slice_to (n : N) (s : str) : su_res str :=
  match s with
  | [] => if n =? 0 then SuOk [] else SuPanic
  | c :: r => if n =? 0 then SuOk [] else if u8len c <=? n then su_map (cons c) (su_slice_to (n - u8len c) r) else SuPanic
  end.

(* String::truncate(new_len): no effect if new_len > len, else panics unless on a char boundary *)
Definition su_truncate (n : N) (s : str) : su_res str :=
  if blen s <? n then SuOk s else su_slice_to n s.

Fixpoint su_mapM {A B} (f : A -> su_res B) (l : list A) : su_res (list B) :=
  match l with
  | [] => SuOk []
  | a :: r => su_bind (f a) (fun b => su_map (cons b) (su_mapM f r))
  end.

Fixpoint su_skip_while {A} (p : A -> bool) (l : list A) : list A :=
  match l with
  | a :: r => if p a then su_skip_while p r else l
  | [] => []
  end.

(* the `.enumerate().map(..)` : first line as is, the others `&line[su_common_indent.min(line.len())..]` *)
Definition su_dedent_lines (ci : N) (lines : list str) : su_res (list str) :=
  match lines with
  | [] => SuOk []
  | first :: rest =>
      su_map (cons first) (su_mapM (fun l => su_slice_from (N.min ci (blen l)) l) rest)
  end.

(* the `for line in lines` loop: state = (formatted, final_char_index) *)
Definition su_ubs_step (st : str * N) (line : str) : str * N :=
  let formatted := fst st ++ [c_lf] ++ su_replace_esc3 line in
  (formatted, if negb (su_is_ws_line line) then blen formatted else snd st).

Definition su_unescape_block_string (raw : str) : su_res str :=
  let ci := su_common_indent (su_split_lines raw) in
  su_bind (su_dedent_lines ci (su_split_lines raw)) (fun ls =>
    match su_skip_while su_is_ws_line ls with
    | [] => su_truncate 0 []
    | line :: rest =>
        let formatted := su_replace_esc3 line in
        let st := fold_left su_ubs_step rest (formatted, blen formatted) in
        su_truncate (snd st) (fst st)
    end).

(* ------------------------------------------------------------------ String::from(&StringValue) *)

Definition su_is_block_string (text : str) : bool := su_prefix_qqq text.

(* &text[a .. len - b]  with `len - b` a usize subtraction *)
Definition su_slice_inner (a b : N) (text : str) : su_res str :=
  let len := blen text in
  if len <? b then SuPanic                                   (* usize underflow (debug) / huge end index (release) *)
  else if len - b <? a then SuPanic                          (* slice index starts after end *)
  else su_bind (su_slice_to (len - b) text) (su_slice_from a).

Definition su_string_of_token (text : str) : su_res str :=
  if su_is_block_string text then su_bind (su_slice_inner 3 3 text) su_unescape_block_string
  else su_bind (su_slice_inner 1 1 text) su_unescape_string.
