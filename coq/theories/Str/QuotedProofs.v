(* Proofs about quoted strings: the code model su_unescape_string (Str/Unescape.v) computes the value the
   specification's static semantics (StringChars, Str/BlockString.v) assigns, on every body that is lexically
   valid (Str/Literal.v), and never panics on a body the lexer accepts. *)
From ApolloVerif Require Import Base.Chars Str.Unescape Str.Literal Str.BlockString.
From Coq Require Import ZifyBool ZifyN Wf_nat.

(* strong induction on the length of a list *)
Lemma list_len_ind {A} (P : list A -> Prop) :
  (forall s, (forall t, (length t < length s)%nat -> P t) -> P s) -> forall s, P s.
Proof.
  intros H s. remember (length s) as n eqn:E. revert s E.
  induction n as [n IH] using lt_wf_ind. intros s ->. apply H. intros t Ht. eapply IH; eauto.
Qed.

(* ---- hexadecimal digits: three definitions agree *)
Lemma hexdigit_cases c : sl_hexdigit c = true ->
  c = 48 \/ c = 49 \/ c = 50 \/ c = 51 \/ c = 52 \/ c = 53 \/ c = 54 \/ c = 55 \/ c = 56 \/ c = 57 \/
  c = 65 \/ c = 66 \/ c = 67 \/ c = 68 \/ c = 69 \/ c = 70 \/
  c = 97 \/ c = 98 \/ c = 99 \/ c = 100 \/ c = 101 \/ c = 102.
Proof. unfold sl_hexdigit. lia. Qed.

Lemma hexdigit_to_digit c : sl_hexdigit c = true -> su_to_digit16 c = Some (sl_hex_val c).
Proof.
  intros H. apply hexdigit_cases in H.
  repeat (destruct H as [->|H]; [reflexivity|]). subst. reflexivity.
Qed.

Lemma hexdigit_spec c : sl_hexdigit c = true -> HexDigitValue c (sl_hex_val c).
Proof.
  intros H. apply hexdigit_cases in H. unfold HexDigitValue.
  repeat (destruct H as [->|H]; [vm_compute; auto|]). subst. vm_compute; auto.
Qed.

Lemma to_digit_none c : sl_hexdigit c = false -> su_to_digit16 c = None.
Proof.
  unfold sl_hexdigit, su_to_digit16. intros H.
  destruct ((48 <=? c) && (c <=? 57)) eqn:E1; [lia|].
  destruct ((97 <=? c) && (c <=? 102)) eqn:E2; [lia|].
  destruct ((65 <=? c) && (c <=? 70)) eqn:E3; [lia|]. reflexivity.
Qed.

(* ---- the unicode escape, four digits at once *)
Lemma lexq_unicode r :
  sl_lexq (SlQUnicode 4 0) r = true ->
  exists h1 h2 h3 h4 r',
    r = h1 :: h2 :: h3 :: h4 :: r' /\
    sl_hexdigit h1 = true /\ sl_hexdigit h2 = true /\ sl_hexdigit h3 = true /\ sl_hexdigit h4 = true /\
    scalarb (((sl_hex_val h1 * 16 + sl_hex_val h2) * 16 + sl_hex_val h3) * 16 + sl_hex_val h4) = true /\
    sl_lexq SlQNormal r' = true.
Proof.
  destruct r as [|h1 [|h2 [|h3 [|h4 r']]]]; cbn [sl_lexq]; intros H;
    repeat match type of H with
           | (if ?b then _ else _) = true => destruct b eqn:?; cbn [negb] in *; try discriminate
           end; try discriminate.
  exists h1, h2, h3, h4, r'.
  repeat match goal with
         | E : negb ?b = false |- _ => apply negb_false_iff in E
         end.
  replace (0 * 16 + sl_hex_val h1) with (sl_hex_val h1) in * by lia.
  repeat split; auto.
Qed.

Lemma unescape_unicode h1 h2 h3 h4 r' :
  sl_hexdigit h1 = true -> sl_hexdigit h2 = true -> sl_hexdigit h3 = true -> sl_hexdigit h4 = true ->
  scalarb (((sl_hex_val h1 * 16 + sl_hex_val h2) * 16 + sl_hex_val h3) * 16 + sl_hex_val h4) = true ->
  su_unescape_go 4 0 (h1 :: h2 :: h3 :: h4 :: r') =
  su_map (cons (((sl_hex_val h1 * 16 + sl_hex_val h2) * 16 + sl_hex_val h3) * 16 + sl_hex_val h4))
       (su_unescape_go 0 0 r').
Proof.
  intros H1 H2 H3 H4 Hs. cbn [su_unescape_go].
  rewrite (hexdigit_to_digit _ H1), (hexdigit_to_digit _ H2), (hexdigit_to_digit _ H3), (hexdigit_to_digit _ H4).
  replace (0 * 16 + sl_hex_val h1) with (sl_hex_val h1) by lia.
  unfold su_char_from_u32. rewrite Hs. reflexivity.
Qed.

(* ---- the escaped characters *)
Lemma escaped_char_step e r2 :
  sl_escaped_char e = true ->
  exists x, EscapedCharacterValue e x /\
            su_unescape_go 0 0 (c_bslash :: e :: r2) = su_map (cons x) (su_unescape_go 0 0 r2).
Proof.
  unfold sl_escaped_char. intros H.
  assert (Hc : e = 34 \/ e = 92 \/ e = 47 \/ e = 98 \/ e = 102 \/ e = 110 \/ e = 114 \/ e = 116)
    by (unfold c_quote, c_bslash, c_slash, su_c_b, su_c_f, su_c_n, su_c_r, su_c_t in H; lia).
  destruct Hc as [->|[->|[->|[->|[->|[->|[->| ->]]]]]]]; eexists; (split; [constructor|reflexivity]).
Qed.

(* ---- main lemma: valid bodies decode to their specified value *)
Lemma quoted_valid_decodes : forall s,
  sl_lexq SlQNormal s = true -> exists v, su_unescape_go 0 0 s = SuOk v /\ StringChars s v.
Proof.
  induction s as [s IH] using list_len_ind. intros H.
  destruct s as [|c r].
  - exists []. split; [reflexivity|constructor].
  - cbn [sl_lexq] in H.
    destruct (N.eqb_spec c c_quote) as [|Hq]; [discriminate|].
    destruct (sl_line_terminator c) eqn:Hlt; [discriminate|].
    destruct (N.eqb_spec c c_bslash) as [->|Hb].
    + (* an escape *)
      destruct r as [|e r2]; [discriminate|]. cbn [sl_lexq] in H.
      destruct (sl_escaped_char e) eqn:He.
      * destruct (escaped_char_step e r2 He) as [x [Hx Hstep]].
        destruct (IH r2) as [v [Hv Hs]]; [cbn; lia|exact H|].
        exists (x :: v). split.
        -- rewrite Hstep, Hv. reflexivity.
        -- apply SC_escaped; assumption.
      * destruct (N.eqb_spec e su_c_u) as [->|]; [|discriminate].
        destruct (lexq_unicode _ H) as [h1 [h2 [h3 [h4 [r' [-> [H1 [H2 [H3 [H4 [Hsc Hr']]]]]]]]]]].
        destruct (IH r') as [v [Hv Hs]]; [cbn; lia|exact Hr'|].
        eexists. split.
        -- change (su_unescape_go 0 0 (c_bslash :: su_c_u :: h1 :: h2 :: h3 :: h4 :: r'))
             with (su_unescape_go 4 0 (h1 :: h2 :: h3 :: h4 :: r')).
           rewrite (unescape_unicode _ _ _ _ _ H1 H2 H3 H4 Hsc), Hv. reflexivity.
        -- apply SC_unicode; auto using hexdigit_spec.
    + (* an ordinary character *)
      destruct (IH r) as [v [Hv Hs]]; [cbn; lia|exact H|].
      exists (c :: v). split.
      * cbn [su_unescape_go]. replace (c =? c_bslash) with false by lia. rewrite Hv. reflexivity.
      * unfold sl_line_terminator, c_lf, c_cr in Hlt. unfold c_quote in Hq. unfold c_bslash in Hb.
        apply SC_source; auto; lia.
Qed.

(* the lexer's own rule differs from validity only by a leading raw line terminator *)
Lemma lexer_ok_old_cases body :
  sl_quoted_body_lexer_ok_old body = true ->
  sl_quoted_body_valid body = true \/
  (exists c r, body = c :: r /\ sl_line_terminator c = true /\ sl_quoted_body_valid r = true).
Proof.
  unfold sl_quoted_body_lexer_ok_old, sl_quoted_body_valid. destruct body as [|c r]; [auto|].
  cbn [sl_lexq]. intros H.
  destruct (c =? c_quote); [discriminate|].
  destruct (sl_line_terminator c) eqn:Hlt.
  - right. exists c, r. repeat split; auto.
    destruct (N.eqb_spec c c_bslash) as [->|]; [discriminate|exact H].
  - left. exact H.
Qed.

Lemma lexer_ok_old_not_leading body :
  sl_quoted_body_lexer_ok_old body = true -> sl_leading_line_terminator body = false -> sl_quoted_body_valid body = true.
Proof.
  intros H Hl. destruct (lexer_ok_old_cases _ H) as [|[c [r [-> [Hlt _]]]]]; [assumption|].
  cbn in Hl. congruence.
Qed.

Lemma valid_lexer_ok_old body : sl_quoted_body_valid body = true -> sl_quoted_body_lexer_ok_old body = true.
Proof.
  unfold sl_quoted_body_lexer_ok_old, sl_quoted_body_valid. destruct body as [|c r]; [auto|].
  cbn [sl_lexq]. destruct (c =? c_quote); [auto|]. destruct (sl_line_terminator c); [discriminate|auto].
Qed.

(* since the repair the lexer's rule IS validity *)
Lemma lexer_ok_eq_valid body : sl_quoted_body_lexer_ok body = sl_quoted_body_valid body.
Proof.
  unfold sl_quoted_body_lexer_ok, sl_quoted_body_valid. destruct body as [|c r]; [reflexivity|].
  cbn [sl_lexq]. destruct (c =? c_quote); [reflexivity|].
  destruct (sl_line_terminator c) eqn:Hlt; [|reflexivity].
  unfold sl_line_terminator, c_lf, c_cr in Hlt.
  replace (c =? c_bslash) with false by (unfold c_bslash; lia). reflexivity.
Qed.

Theorem quoted_decodes body :
  sl_quoted_body_valid body = true -> exists v, su_unescape_string body = SuOk v /\ StringChars body v.
Proof. apply quoted_valid_decodes. Qed.

Theorem quoted_no_panic body :
  sl_quoted_body_lexer_ok body = true -> exists v, su_unescape_string body = SuOk v.
Proof.
  rewrite lexer_ok_eq_valid. intros Hv. destruct (quoted_decodes _ Hv) as [v [E _]]. eauto.
Qed.

Theorem quoted_lexer_decodes body :
  sl_quoted_body_lexer_ok body = true -> exists v, su_unescape_string body = SuOk v /\ StringChars body v.
Proof. rewrite lexer_ok_eq_valid. apply quoted_decodes. Qed.

Theorem quoted_old_no_panic body :
  sl_quoted_body_lexer_ok_old body = true -> exists v, su_unescape_string body = SuOk v.
Proof.
  intros H. destruct (lexer_ok_old_cases _ H) as [Hv|[c [r [-> [Hlt Hv]]]]].
  - destruct (quoted_decodes _ Hv) as [v [E _]]. eauto.
  - destruct (quoted_decodes _ Hv) as [v [E _]]. exists (c :: v).
    unfold su_unescape_string in *. cbn [su_unescape_go].
    unfold sl_line_terminator, c_lf, c_cr in Hlt.
    replace (c =? c_bslash) with false by (unfold c_bslash; lia). rewrite E. reflexivity.
Qed.

(* ---- the specified value is unique *)
Lemma index_of_bound c l d : bs_index_of c l = Some d -> d < N.of_nat (length l).
Proof.
  revert d. induction l as [|x l IH]; cbn [bs_index_of length]; intros d; [discriminate|].
  destruct (c =? x); [intros [= <-]; lia|].
  destruct (bs_index_of c l) as [i|]; [|discriminate]. intros [= <-]. specialize (IH i eq_refl). lia.
Qed.

Lemma index_of_In c l d : bs_index_of c l = Some d -> In c l.
Proof.
  revert d. induction l as [|x l IH]; cbn [bs_index_of In]; intros d; [discriminate|].
  destruct (N.eqb_spec c x) as [->|]; [auto|].
  destruct (bs_index_of c l) as [i|]; [|discriminate]. intros _. right. eapply IH; eauto.
Qed.

Lemma HexDigitValue_hexdigit c d : HexDigitValue c d -> sl_hexdigit c = true /\ d = sl_hex_val c.
Proof.
  unfold HexDigitValue. intros [H|H]; pose proof (index_of_In _ _ _ H) as Hin;
    cbn [In bs_digits_upper bs_digits_lower] in Hin;
    repeat (destruct Hin as [<-|Hin]; [vm_compute in H; injection H as <-; vm_compute; auto|]);
    destruct Hin.
Qed.

Lemma HexDigitValue_fun c d d' : HexDigitValue c d -> HexDigitValue c d' -> d = d'.
Proof. intros H H'. apply HexDigitValue_hexdigit in H, H'. destruct H, H'. congruence. Qed.

Lemma EscapedCharacterValue_fun e x x' : EscapedCharacterValue e x -> EscapedCharacterValue e x' -> x = x'.
Proof. intros H H'. inversion H; subst; inversion H'; subst; reflexivity. Qed.

Theorem StringChars_fun : forall s v v', StringChars s v -> StringChars s v' -> v = v'.
Proof.
  intros s v v' H. revert v'. induction H as [|c r v Hq Hb Hl Hc H IH|h1 h2 h3 h4 d1 d2 d3 d4 r v A1 A2 A3 A4 H IH|e x r v He H IH];
    intros v' H'.
  - inversion H'. reflexivity.
  - inversion H'; subst; try congruence. f_equal. auto.
  - inversion H'; subst; try congruence.
    + repeat match goal with
             | A : HexDigitValue ?h ?d, B : HexDigitValue ?h ?d' |- _ =>
                 assert (d = d') by (eapply HexDigitValue_fun; eauto); subst d'; clear B
             end.
      f_equal. auto.
    + match goal with E : EscapedCharacterValue 117 _ |- _ => inversion E end.
  - inversion H'; subst; try congruence.
    + inversion He.
    + f_equal; [eapply EscapedCharacterValue_fun; eauto|auto].
Qed.

(* ---- conversely, every derivation of the grammar whose unicode escapes denote scalar values is valid *)
Lemma hexdigit_not_quote c : sl_hexdigit c = true -> (c =? c_quote) = false.
Proof. unfold sl_hexdigit, c_quote. lia. Qed.

Theorem StringChars_valid : forall s v, StringChars s v -> Forall scalar v -> sl_quoted_body_valid s = true.
Proof.
  unfold sl_quoted_body_valid. intros s v H. induction H as [|c r v Hq Hb Hl Hc H IH|h1 h2 h3 h4 d1 d2 d3 d4 r v A1 A2 A3 A4 H IH|e x r v He H IH];
    intros Hs.
  - reflexivity.
  - inversion Hs; subst. cbn [sl_lexq]. unfold sl_line_terminator, c_quote, c_bslash, c_lf, c_cr.
    replace (c =? 34) with false by lia. replace (c =? 10) with false by lia.
    replace (c =? 13) with false by lia. replace (c =? 92) with false by lia. cbn. auto.
  - inversion Hs as [|? ? Hsc Hs']; subst.
    apply HexDigitValue_hexdigit in A1, A2, A3, A4.
    destruct A1 as [B1 ->], A2 as [B2 ->], A3 as [B3 ->], A4 as [B4 ->].
    cbn [sl_lexq]. change (92 =? c_quote) with false. change (sl_line_terminator 92) with false.
    change (92 =? c_bslash) with true. change (sl_escaped_char 117) with false. change (117 =? su_c_u) with true.
    cbn iota. rewrite !hexdigit_not_quote by assumption. rewrite B1, B2, B3, B4. cbn [negb].
    replace (0 * 16 + sl_hex_val h1) with (sl_hex_val h1) by lia.
    apply scalarb_spec in Hsc. rewrite Hsc. auto.
  - inversion Hs; subst. cbn [sl_lexq]. change (92 =? c_quote) with false. change (sl_line_terminator 92) with false.
    change (92 =? c_bslash) with true. cbn iota.
    replace (sl_escaped_char e) with true by (inversion He; reflexivity). auto.
Qed.
