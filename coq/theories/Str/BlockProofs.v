(* Proofs about block strings: the code model unescape_block_string (Str/Unescape.v) equals the
   specification's BlockStringValue (Str/BlockString.v) applied to the raw value, for every input.
   The code replaces the escaped triple quote per line after splitting and dedenting; the specification
   replaces it in the raw value before the algorithm: the theorem is the commutation. *)
From ApolloVerif Require Import Base.Chars Str.Unescape Str.Literal Str.BlockString Str.QuotedProofs.
From Coq Require Import ZifyBool ZifyN.

Local Notation R := replace_esc3.

(* ------------------------------------------------------------------ small facts *)

Lemma split_lines_nonempty s : exists l ls, split_lines s = l :: ls.
Proof.
  induction s as [|c r IH]; cbn [split_lines]; [eauto|].
  destruct (c =? c_lf); [eauto|].
  destruct (c =? c_cr); [destruct r as [|c2 r2]; [eauto|destruct (c2 =? c_lf); eauto]|].
  destruct IH as [l [ls ->]]. eauto.
Qed.

Lemma ws_same c : WhiteSpaceb c = is_gws c.
Proof. unfold WhiteSpaceb, is_gws, c_space, c_tab. apply orb_comm. Qed.

Lemma only_ws_same l : contains_only_ws l = is_gws_line l.
Proof. unfold contains_only_ws, is_gws_line. induction l as [|c l IH]; cbn [forallb]; [auto|]. now rewrite ws_same, IH. Qed.

Lemma leading_ws_same l : leading_ws l = count_indent l.
Proof.
  induction l as [|c l IH]; cbn [leading_ws count_indent]; [auto|].
  rewrite ws_same, IH. destruct (is_gws c); lia.
Qed.

Lemma gws_u8len c : is_gws c = true -> u8len c = 1.
Proof. unfold is_gws, c_space, c_tab, u8len. intros H. replace (c <? 128) with true by lia. reflexivity. Qed.

Lemma gws_not_bslash c : is_gws c = true -> (c =? c_bslash) = false.
Proof. unfold is_gws, c_space, c_tab, c_bslash. lia. Qed.

(* the indent is less than the length exactly on lines with a non-whitespace character;
   byte length (code) and character count (spec) agree on that *)
Lemma indent_lt_blen l : (count_indent l <? blen l) = negb (is_gws_line l).
Proof.
  induction l as [|c l IH]; cbn [count_indent blen is_gws_line forallb]; [reflexivity|].
  destruct (is_gws c) eqn:E; cbn [andb negb].
  - fold (is_gws_line l). rewrite <- IH. rewrite (gws_u8len _ E). lia.
  - pose proof (u8len_pos c). lia.
Qed.

Lemma indent_lt_length l : (leading_ws l <? line_length l) = negb (contains_only_ws l).
Proof.
  rewrite leading_ws_same, only_ws_same. unfold line_length.
  induction l as [|c l IH]; cbn [count_indent length is_gws_line forallb]; [reflexivity|].
  destruct (is_gws c) eqn:E; cbn [andb negb].
  - fold (is_gws_line l). rewrite <- IH. lia.
  - lia.
Qed.

Lemma line_indent_alt l : line_indent l = if is_gws_line l then None else Some (count_indent l).
Proof. unfold line_indent. rewrite indent_lt_blen. destruct (is_gws_line l); reflexivity. Qed.

(* ------------------------------------------------------------------ replace_esc3 keeps what the algorithm looks at *)

Lemma prefix_qqq_inv s : prefix_qqq s = true -> exists t, s = c_quote :: c_quote :: c_quote :: t.
Proof.
  destruct s as [|a [|b [|c t]]]; cbn; try discriminate; try (rewrite ?andb_false_r; discriminate).
  intros H. exists t. repeat f_equal; lia.
Qed.

Lemma R_ws_line l : is_gws_line l = true -> R l = l.
Proof.
  induction l as [|c l IH]; cbn [is_gws_line forallb R]; [auto|].
  intros H. apply andb_true_iff in H as [Hc Hl]. rewrite (gws_not_bslash _ Hc). cbn [andb]. f_equal. auto.
Qed.

Lemma R_is_ws_line l : is_gws_line (R l) = is_gws_line l.
Proof.
  induction l as [|c l IH]; cbn [R]; [reflexivity|].
  destruct ((c =? c_bslash) && prefix_qqq l) eqn:E.
  - apply andb_true_iff in E as [Ec El]. apply prefix_qqq_inv in El as [t ->].
    rewrite IH. assert (c = c_bslash) by lia. subst c. reflexivity.
  - cbn [is_gws_line forallb]. fold (is_gws_line (R l)). fold (is_gws_line l). now rewrite IH.
Qed.

Lemma R_count_indent l : count_indent (R l) = count_indent l.
Proof.
  induction l as [|c l IH]; cbn [R]; [reflexivity|].
  destruct ((c =? c_bslash) && prefix_qqq l) eqn:E.
  - apply andb_true_iff in E as [Ec El]. apply prefix_qqq_inv in El as [t ->].
    rewrite IH. assert (c = c_bslash) by lia. subst c. reflexivity.
  - cbn [count_indent]. rewrite IH. reflexivity.
Qed.

Lemma R_line_indent l : line_indent (R l) = line_indent l.
Proof. rewrite !line_indent_alt, R_is_ws_line, R_count_indent. reflexivity. Qed.

(* removing leading whitespace commutes with the replacement *)
Lemma R_remove_chars n l :
  (N.of_nat n <= count_indent l) -> remove_chars n (R l) = R (remove_chars n l).
Proof.
  revert l. induction n as [|n IH]; intros l H.
  - destruct l; reflexivity.
  - destruct l as [|c l]; [reflexivity|]. cbn [count_indent] in H.
    destruct (is_gws c) eqn:E; [|lia].
    cbn [R]. rewrite (gws_not_bslash _ E). cbn [andb remove_chars]. apply IH. lia.
Qed.

Lemma remove_chars_all n l : (length l <= n)%nat -> remove_chars n l = [].
Proof.
  revert l. induction n as [|n IH]; intros [|c l] H; cbn [remove_chars length] in *; try reflexivity; try lia.
  apply IH. lia.
Qed.

Lemma remove_chars_ws n l : is_gws_line l = true -> is_gws_line (remove_chars n l) = true.
Proof.
  revert l. induction n as [|n IH]; intros [|c l] H; cbn [remove_chars]; auto.
  cbn [is_gws_line forallb] in H. apply andb_true_iff in H as [_ H]. apply IH. exact H.
Qed.

Lemma R_remove_chars_ws n l : is_gws_line l = true -> remove_chars n (R l) = R (remove_chars n l).
Proof. intros H. rewrite (R_ws_line _ H), (R_ws_line _ (remove_chars_ws n _ H)). reflexivity. Qed.

(* ------------------------------------------------------------------ step 1: lines *)

Definition prepend (cur : str) (ll : list str) : list str :=
  match ll with l :: ls => (cur ++ l) :: ls | [] => [cur] end.

Lemma lines_from_split : forall s cur, lines_from cur s = prepend cur (split_lines s).
Proof.
  induction s as [s IH] using list_len_ind. intros cur.
  destruct s as [|c r]; [cbn; now rewrite app_nil_r|].
  cbn [lines_from split_lines]. unfold c_lf, c_cr.
  destruct (N.eqb_spec c 13) as [->|H13].
  - change (13 =? 10) with false. cbn iota.
    destruct r as [|c2 r2].
    + cbn. now rewrite app_nil_r.
    + destruct (c2 =? 10).
      * rewrite (IH r2) by (cbn; lia). cbn [prepend]. rewrite app_nil_r.
        destruct (split_lines_nonempty r2) as [l [ls ->]]. reflexivity.
      * rewrite (IH (c2 :: r2)) by (cbn; lia). cbn [prepend]. rewrite app_nil_r.
        destruct (split_lines_nonempty (c2 :: r2)) as [l [ls ->]]. reflexivity.
  - destruct (N.eqb_spec c 10) as [->|H10].
    + rewrite (IH r) by (cbn; lia). cbn [prepend]. rewrite app_nil_r.
      destruct (split_lines_nonempty r) as [l [ls ->]]. reflexivity.
    + rewrite (IH r) by (cbn; lia).
      destruct (split_lines_nonempty r) as [l [ls ->]]. cbn [prepend]. now rewrite <- app_assoc.
Qed.

Lemma split_by_lt_split s : split_by_line_terminator s = split_lines s.
Proof.
  unfold split_by_line_terminator. rewrite lines_from_split.
  destruct (split_lines_nonempty s) as [l [ls ->]]. reflexivity.
Qed.

(* the first line starts with the same quotes as the text *)
Lemma first_line_prefix_q r l ls : split_lines r = l :: ls -> prefix_q l = prefix_q r.
Proof.
  destruct r as [|c r1]; cbn [split_lines]; [intros [= <- <-]; reflexivity|].
  unfold c_lf, c_cr. destruct (N.eqb_spec c 10) as [->|].
  - intros [= <- <-]. reflexivity.
  - destruct (N.eqb_spec c 13) as [->|].
    + destruct r1 as [|c2 r2]; [|destruct (c2 =? 10)]; intros [= <- <-]; reflexivity.
    + destruct (split_lines_nonempty r1) as [l1 [ls1 ->]]. intros [= <- <-]. reflexivity.
Qed.

Lemma first_line_prefix_qq r l ls : split_lines r = l :: ls -> prefix_qq l = prefix_qq r.
Proof.
  destruct r as [|c r1]; cbn [split_lines]; [intros [= <- <-]; reflexivity|].
  unfold c_lf, c_cr. destruct (N.eqb_spec c 10) as [->|].
  - intros [= <- <-]. reflexivity.
  - destruct (N.eqb_spec c 13) as [->|].
    + destruct r1 as [|c2 r2]; [|destruct (c2 =? 10)]; intros [= <- <-]; reflexivity.
    + destruct (split_lines r1) as [|l1 ls1] eqn:E; [destruct (split_lines_nonempty r1) as [? [? ?]]; congruence|].
      intros [= <- <-]. cbn [prefix_qq]. now rewrite (first_line_prefix_q _ _ _ E).
Qed.

Lemma first_line_prefix_qqq r l ls : split_lines r = l :: ls -> prefix_qqq l = prefix_qqq r.
Proof.
  destruct r as [|c r1]; cbn [split_lines]; [intros [= <- <-]; reflexivity|].
  unfold c_lf, c_cr. destruct (N.eqb_spec c 10) as [->|].
  - intros [= <- <-]. reflexivity.
  - destruct (N.eqb_spec c 13) as [->|].
    + destruct r1 as [|c2 r2]; [|destruct (c2 =? 10)]; intros [= <- <-]; reflexivity.
    + destruct (split_lines r1) as [|l1 ls1] eqn:E; [destruct (split_lines_nonempty r1) as [? [? ?]]; congruence|].
      intros [= <- <-]. cbn [prefix_qqq]. now rewrite (first_line_prefix_qq _ _ _ E).
Qed.

(* splitting commutes with the replacement: an escaped triple quote never spans a line terminator *)
Lemma split_lines_R : forall s, split_lines (R s) = map R (split_lines s).
Proof.
  induction s as [s IH] using list_len_ind.
  destruct s as [|c r]; [reflexivity|].
  cbn [R]. destruct ((c =? c_bslash) && prefix_qqq r) eqn:E.
  - apply andb_true_iff in E as [Ec Er]. assert (c = c_bslash) by lia. subst c.
    rewrite (IH r) by (cbn; lia). cbn [split_lines]. change (c_bslash =? c_lf) with false.
    change (c_bslash =? c_cr) with false. cbn iota.
    destruct (split_lines r) as [|l ls] eqn:El; [destruct (split_lines_nonempty r) as [? [? ?]]; congruence|].
    cbn [map R]. rewrite (first_line_prefix_qqq _ _ _ El), Er. reflexivity.
  - cbn [split_lines]. unfold c_lf, c_cr.
    destruct (N.eqb_spec c 10) as [->|H10]; [cbn [map]; f_equal; apply IH; cbn; lia|].
    destruct (N.eqb_spec c 13) as [->|H13].
    + destruct r as [|c2 r2]; [reflexivity|].
      cbn [R]. destruct ((c2 =? c_bslash) && prefix_qqq r2) eqn:E2.
      * (* the character after CR is a backslash that is dropped: it is not LF *)
        apply andb_true_iff in E2 as [Ec2 Er2]. assert (c2 = c_bslash) by lia. subst c2.
        change (c_bslash =? 10) with false. cbn iota. cbn [map]. f_equal.
        apply prefix_qqq_inv in Er2 as [t ->].
        change (R (c_quote :: c_quote :: c_quote :: t)) with (c_quote :: c_quote :: c_quote :: R t).
        change (c_quote =? 10) with false.
        rewrite <- (IH (c_bslash :: c_quote :: c_quote :: c_quote :: t)) by (cbn; lia). reflexivity.
      * destruct (N.eqb_spec c2 10) as [->|].
        -- cbn [map]. f_equal. apply IH. cbn; lia.
        -- cbn [map]. f_equal. rewrite <- (IH (c2 :: r2)) by (cbn; lia). cbn [R]. rewrite E2. reflexivity.
    + rewrite (IH r) by (cbn; lia).
      destruct (split_lines r) as [|l ls] eqn:El; [destruct (split_lines_nonempty r) as [? [? ?]]; congruence|].
      cbn [map R]. rewrite (first_line_prefix_qqq _ _ _ El), E. reflexivity.
Qed.

(* ------------------------------------------------------------------ steps 2-3: commonIndent *)

Definition omin (a b : option N) : option N :=
  match a, b with
  | None, x => x
  | Some x, None => Some x
  | Some x, Some y => Some (N.min x y)
  end.

Lemma common_indent_step_alt acc l : common_indent_step acc l = omin acc (line_indent l).
Proof.
  unfold common_indent_step. rewrite indent_lt_length, only_ws_same, leading_ws_same, line_indent_alt.
  destruct (is_gws_line l); cbn [negb]; destruct acc as [ci|]; cbn [omin]; try reflexivity.
  destruct (N.ltb_spec (count_indent l) ci); f_equal; lia.
Qed.

Lemma omin_assoc a b c : omin (omin a b) c = omin a (omin b c).
Proof. destruct a, b, c; cbn [omin]; try reflexivity. f_equal. lia. Qed.

Lemma fold_common_indent ls : forall acc,
  fold_left common_indent_step ls acc = omin acc (min_some (map line_indent ls)).
Proof.
  induction ls as [|l ls IH]; intros acc; cbn [fold_left map min_some].
  - destruct acc; reflexivity.
  - rewrite IH, common_indent_step_alt, omin_assoc.
    destruct (line_indent l), (min_some (map line_indent ls)), acc; reflexivity.
Qed.

Lemma min_some_le f (ls : list str) m l x :
  min_some (map f ls) = Some m -> In l ls -> f l = Some x -> m <= x.
Proof.
  revert m. induction ls as [|a ls IH]; intros m Hm Hin Hx; [destruct Hin|].
  cbn [map min_some] in Hm. destruct Hin as [->|Hin].
  - rewrite Hx in Hm. destruct (min_some (map f ls)); injection Hm as <-; lia.
  - destruct (f a) as [y|].
    + destruct (min_some (map f ls)) as [m'|] eqn:E.
      * injection Hm as <-. specialize (IH m' eq_refl Hin Hx). lia.
      * exfalso. clear -E Hin Hx. induction ls as [|b ls IH]; [destruct Hin|].
        cbn [map min_some] in E. destruct Hin as [->|Hin].
        -- rewrite Hx in E. destruct (min_some (map f ls)); discriminate.
        -- destruct (f b); [destruct (min_some (map f ls)); discriminate|auto].
    + auto.
Qed.

(* ------------------------------------------------------------------ step 4: dedent *)

(* the byte slice of the code removes whole whitespace characters *)
Lemma slice_leading_ws l : forall n,
  n <= count_indent l -> byte_slice_from n l = SOk (remove_chars (N.to_nat n) l).
Proof.
  induction l as [|c l IH]; intros n H; cbn [count_indent] in H.
  - assert (n = 0) by lia. subst n. reflexivity.
  - cbn [byte_slice_from]. destruct (N.eqb_spec n 0) as [->|Hn]; [reflexivity|].
    destruct (is_gws c) eqn:E; [|lia]. rewrite (gws_u8len _ E).
    replace (1 <=? n) with true by lia.
    rewrite IH by lia. replace (N.to_nat n) with (S (N.to_nat (n - 1))) by lia. reflexivity.
Qed.

Lemma ws_line_indent l : is_gws_line l = true -> count_indent l = blen l /\ blen l = N.of_nat (length l).
Proof.
  induction l as [|c l IH]; cbn [is_gws_line forallb count_indent blen length]; [auto|].
  intros H. apply andb_true_iff in H as [Hc Hl]. rewrite Hc, (gws_u8len _ Hc).
  destruct (IH Hl). lia.
Qed.

(* one dedented line, code and spec *)
Lemma dedent_line ci l :
  (is_gws_line l = true \/ ci <= count_indent l) ->
  byte_slice_from (N.min ci (blen l)) l = SOk (remove_chars (N.to_nat ci) l).
Proof.
  intros [Hws|Hle].
  - destruct (ws_line_indent _ Hws) as [E1 E2].
    rewrite slice_leading_ws by lia. f_equal.
    destruct (N.le_gt_cases ci (blen l)).
    + now replace (N.min ci (blen l)) with ci by lia.
    + replace (N.min ci (blen l)) with (blen l) by lia.
      rewrite !remove_chars_all by lia. reflexivity.
  - assert (count_indent l <= blen l).
    { clear. induction l as [|c l IH]; cbn [count_indent blen]; [lia|].
      destruct (is_gws c); pose proof (u8len_pos c); lia. }
    replace (N.min ci (blen l)) with ci by lia. apply slice_leading_ws. exact Hle.
Qed.

Lemma smapM_ok {A B} (f : A -> sres B) (g : A -> B) l :
  (forall a, In a l -> f a = SOk (g a)) -> smapM f l = SOk (map g l).
Proof.
  induction l as [|a l IH]; intros H; cbn [smapM map]; [reflexivity|].
  rewrite (H a) by (left; reflexivity). cbn [sbind]. rewrite IH by (intros; apply H; right; assumption).
  reflexivity.
Qed.

(* the spec's step 4 on a list of lines *)
Definition dedent_spec (lines : list str) : list str :=
  match fold_left common_indent_step (tl lines) None with
  | Some ci =>
      match lines with
      | first :: rest => first :: map (remove_chars (N.to_nat ci)) rest
      | [] => []
      end
  | None => lines
  end.

Lemma remove_chars_0 l : remove_chars 0 l = l.
Proof. destruct l; reflexivity. Qed.

Lemma map_remove_0 ls : map (remove_chars 0) ls = ls.
Proof. induction ls as [|l ls IH]; cbn [map]; [auto|]. now rewrite remove_chars_0, IH. Qed.

Lemma dedent_spec_alt first rest :
  dedent_spec (first :: rest) = first :: map (remove_chars (N.to_nat (common_indent (first :: rest)))) rest.
Proof.
  unfold dedent_spec, common_indent. cbn [tl]. rewrite fold_common_indent. cbn [omin].
  destruct (min_some (map line_indent rest)); [reflexivity|]. cbn. now rewrite map_remove_0.
Qed.

Lemma dedent_code first rest :
  dedent_lines (common_indent (first :: rest)) (first :: rest) =
  SOk (first :: map (remove_chars (N.to_nat (common_indent (first :: rest)))) rest).
Proof.
  unfold dedent_lines.
  rewrite (smapM_ok _ (remove_chars (N.to_nat (common_indent (first :: rest))))); [reflexivity|].
  intros l Hin. apply dedent_line.
  destruct (is_gws_line l) eqn:E; [auto|right].
  unfold common_indent. cbn [tl].
  destruct (min_some (map line_indent rest)) as [m|] eqn:Em; [|lia].
  eapply min_some_le; eauto. rewrite line_indent_alt, E. reflexivity.
Qed.

(* dedenting commutes with the replacement *)
Lemma common_indent_R ls : common_indent (map R ls) = common_indent ls.
Proof.
  unfold common_indent. destruct ls as [|a ls]; [reflexivity|]. cbn [map tl].
  rewrite map_map. erewrite map_ext; [reflexivity|]. intros l. apply R_line_indent.
Qed.

Lemma dedent_R first rest :
  let ci := N.to_nat (common_indent (first :: rest)) in
  map (remove_chars ci) (map R rest) = map R (map (remove_chars ci) rest).
Proof.
  intros ci. rewrite !map_map. apply map_ext_in. intros l Hin.
  destruct (is_gws_line l) eqn:E; [apply R_remove_chars_ws; exact E|].
  apply R_remove_chars. subst ci. unfold common_indent. cbn [tl].
  destruct (min_some (map line_indent rest)) as [m|] eqn:Em; [|lia].
  assert (m <= count_indent l); [|lia].
  eapply min_some_le; eauto. rewrite line_indent_alt, E. reflexivity.
Qed.

(* ------------------------------------------------------------------ step 5: leading blank lines *)

Lemma remove_leading_blank_R ls : remove_leading_blank (map R ls) = map R (skip_while is_gws_line ls).
Proof.
  induction ls as [|l ls IH]; cbn [map remove_leading_blank skip_while]; [reflexivity|].
  rewrite only_ws_same, R_is_ws_line. destruct (is_gws_line l); [exact IH|reflexivity].
Qed.

Lemma skip_while_head {A} (p : A -> bool) l a r : skip_while p l = a :: r -> p a = false.
Proof.
  induction l as [|b l IH]; cbn [skip_while]; [discriminate|].
  destruct (p b) eqn:E; [exact IH|]. intros [= <- <-]. exact E.
Qed.

(* ------------------------------------------------------------------ steps 6-8: trailing blank lines and joining *)

Lemma join_lf_cons x b : join_lf (x :: b) = x ++ flat_map (cons 10) b.
Proof.
  revert x. induction b as [|y b IH]; intros x.
  - cbn. now rewrite app_nil_r.
  - change (join_lf (x :: y :: b)) with (x ++ [10] ++ join_lf (y :: b)). rewrite IH. reflexivity.
Qed.

Lemma remove_leading_blank_suffix ys : exists pre, ys = pre ++ remove_leading_blank ys.
Proof.
  induction ys as [|y ys [pre IH]]; [exists []; reflexivity|].
  cbn [remove_leading_blank]. destruct (contains_only_ws y).
  - exists (y :: pre). cbn. now f_equal.
  - exists []. reflexivity.
Qed.

Lemma remove_trailing_blank_prefix xs : exists post, xs = remove_trailing_blank xs ++ post.
Proof.
  unfold remove_trailing_blank. destruct (remove_leading_blank_suffix (rev xs)) as [pre E].
  exists (rev pre). rewrite <- rev_app_distr, <- E. now rewrite rev_involutive.
Qed.

Lemma remove_trailing_blank_snoc xs l :
  remove_trailing_blank (xs ++ [l]) =
  if contains_only_ws l then remove_trailing_blank xs else xs ++ [l].
Proof.
  unfold remove_trailing_blank. rewrite rev_app_distr. cbn [rev app remove_leading_blank].
  destruct (contains_only_ws l); [reflexivity|]. cbn [rev]. now rewrite rev_involutive.
Qed.

Lemma join_prefix xs : exists q, join_lf xs = join_lf (remove_trailing_blank xs) ++ q.
Proof.
  destruct (remove_trailing_blank_prefix xs) as [post E].
  destruct (remove_trailing_blank xs) as [|a b] eqn:Er.
  - exists (join_lf xs). reflexivity.
  - exists (flat_map (cons 10) post).
    transitivity (join_lf ((a :: b) ++ post)); [f_equal; exact E|].
    cbn [app]. rewrite !join_lf_cons, flat_map_app, app_assoc. reflexivity.
Qed.

Lemma byte_slice_to_prefix p q : byte_slice_to (blen p) (p ++ q) = SOk p.
Proof.
  induction p as [|c p IH]; cbn [blen app byte_slice_to].
  - destruct q; reflexivity.
  - pose proof (u8len_pos c). replace (u8len c + blen p =? 0) with false by lia.
    replace (u8len c <=? u8len c + blen p) with true by lia.
    replace (u8len c + blen p - u8len c) with (blen p) by lia. rewrite IH. reflexivity.
Qed.

Lemma byte_truncate_prefix p q : byte_truncate (blen p) (p ++ q) = SOk p.
Proof.
  unfold byte_truncate. rewrite blen_app. replace (blen p + blen q <? blen p) with false by lia.
  apply byte_slice_to_prefix.
Qed.

(* the `for line in lines` loop *)
Lemma ubs_fold l0 : forall rest done,
  fold_left ubs_step rest
    (join_lf (map R (l0 :: done)), blen (join_lf (remove_trailing_blank (map R (l0 :: done))))) =
  (join_lf (map R (l0 :: done ++ rest)), blen (join_lf (remove_trailing_blank (map R (l0 :: done ++ rest))))).
Proof.
  induction rest as [|l rest IH]; intros done; cbn [fold_left].
  - now rewrite app_nil_r.
  - replace (done ++ l :: rest) with ((done ++ [l]) ++ rest) by (now rewrite <- app_assoc).
    rewrite <- IH. f_equal. unfold ubs_step. cbn [fst snd].
    assert (Ej : join_lf (map R (l0 :: done ++ [l])) = join_lf (map R (l0 :: done)) ++ [c_lf] ++ R l).
    { cbn [map]. rewrite !join_lf_cons, map_app, flat_map_app. cbn [map flat_map].
      rewrite app_nil_r, <- app_assoc. reflexivity. }
    f_equal; [symmetry; exact Ej|].
    assert (Em : map R (l0 :: done ++ [l]) = map R (l0 :: done) ++ [R l])
      by (cbn [map]; rewrite map_app; reflexivity).
    rewrite Em, remove_trailing_blank_snoc, only_ws_same, R_is_ws_line.
    destruct (is_gws_line l); cbn [negb]; [reflexivity|].
    rewrite <- Em, Ej. reflexivity.
Qed.

Lemma ubs_fold0 l0 more :
  is_gws_line l0 = false ->
  fold_left ubs_step more (R l0, blen (R l0)) =
  (join_lf (map R (l0 :: more)), blen (join_lf (remove_trailing_blank (map R (l0 :: more))))).
Proof.
  intros Hl0. pose proof (ubs_fold l0 more []) as H. cbn [app] in H. rewrite <- H. f_equal. f_equal. f_equal.
  cbn [map]. change [R l0] with ([] ++ [R l0]). rewrite remove_trailing_blank_snoc.
  rewrite only_ws_same, R_is_ws_line, Hl0. reflexivity.
Qed.

(* ------------------------------------------------------------------ the theorem *)

Lemma BlockStringValue_alt raw :
  BlockStringValue raw =
  join_lf (remove_trailing_blank (remove_leading_blank (dedent_spec (split_by_line_terminator raw)))).
Proof. reflexivity. Qed.

Theorem block_string_total body : unescape_block_string body = SOk (BlockStringValue (R body)).
Proof.
  rewrite BlockStringValue_alt, split_by_lt_split, split_lines_R.
  unfold unescape_block_string.
  destruct (split_lines_nonempty body) as [first [rest E]]. rewrite E.
  rewrite dedent_code. cbn [sbind]. cbn [map]. rewrite dedent_spec_alt.
  change (R first :: map R rest) with (map R (first :: rest)) at 1.
  rewrite common_indent_R, dedent_R.
  change (R first :: map R (map (remove_chars (N.to_nat (common_indent (first :: rest)))) rest))
    with (map R (first :: map (remove_chars (N.to_nat (common_indent (first :: rest)))) rest)).
  rewrite remove_leading_blank_R.
  destruct (skip_while is_gws_line (first :: map (remove_chars (N.to_nat (common_indent (first :: rest)))) rest))
    as [|l0 more] eqn:Es.
  - reflexivity.
  - pose proof (skip_while_head _ _ _ _ Es) as Hl0.
    rewrite (ubs_fold0 _ _ Hl0). cbn [fst snd].
    destruct (join_prefix (map R (l0 :: more))) as [q Eq]. rewrite Eq at 1.
    apply byte_truncate_prefix.
Qed.

(* ------------------------------------------------------------------ the raw value of a body *)

Lemma has_prefix_bqqq c r :
  ~ has_prefix [92; 34; 34; 34] (c :: r) -> (c =? c_bslash) && prefix_qqq r = false.
Proof.
  intros H. destruct ((c =? c_bslash) && prefix_qqq r) eqn:E; [|reflexivity]. exfalso. apply H.
  apply andb_true_iff in E as [Ec Er]. apply prefix_qqq_inv in Er as [t ->].
  exists t. unfold c_bslash in Ec. assert (c = 92) by lia. subst. reflexivity.
Qed.

Lemma has_prefix_app p s t : has_prefix p s -> has_prefix p (s ++ t).
Proof. intros [u ->]. exists (u ++ t). now rewrite app_assoc. Qed.

Lemma BlockChars_R ctx body raw : BlockChars ctx body raw -> raw = R body.
Proof.
  induction 1 as [|r v H IH|c r v Hq Hb H IH].
  - reflexivity.
  - change (R (92 :: 34 :: 34 :: 34 :: r)) with (34 :: 34 :: 34 :: R r). now rewrite IH.
  - cbn [R]. rewrite has_prefix_bqqq; [now rewrite IH|].
    intros Hp. apply Hb. change (c :: r ++ ctx) with ((c :: r) ++ ctx). apply has_prefix_app. exact Hp.
Qed.

Theorem block_string_value body raw :
  BlockRawValue body raw -> unescape_block_string body = SOk (BlockStringValue raw).
Proof. intros H. rewrite (BlockChars_R _ _ _ H). apply block_string_total. Qed.

Theorem BlockChars_fun ctx body raw raw' : BlockChars ctx body raw -> BlockChars ctx body raw' -> raw = raw'.
Proof. intros H H'. rewrite (BlockChars_R _ _ _ H), (BlockChars_R _ _ _ H'). reflexivity. Qed.
